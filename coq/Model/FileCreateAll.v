(* Model of File.Create (file.go) over standard, ADV and IAT batches, of createFileADV, and
   of call histories over IATBatch.build / Batch.build (standard and ADV) / entry edits /
   File.Create.  Definitions only.

   f.Batches is a list of [sbatch]: a standard batch ([batch] of Offsets.v, header SEC code
   other than ADV, tabulated into its BatchControl) or an ADV batch ([abatch], header SEC code
   ADV, tabulated into its ADVBatchControl).  f.IATBatches is a list of [ibatch].  The file
   carries two controls: Control (non-ADV) and ADVControl. *)
From ACH Require Export BuildADV.
Open Scope Z_scope.

Inductive sbatch := SStd (b : batch) | SAdv (a : abatch).

(* File.validateOpts as far as Create looks at it (nil = all false) *)
Record fopts := mkfo { fo_skip_all : bool; fo_allow_missing_hdr : bool; fo_allow_zero : bool }.

Record afile := mkaf {
  af_hdr_ok : bool;              (* Header.Validate() == nil *)
  af_opts : fopts;
  af_std : list sbatch;          (* f.Batches *)
  af_iat : list ibatch;          (* f.IATBatches *)
  af_ctl : fctl;                 (* f.Control *)
  af_actl : fctl }.              (* f.ADVControl *)

Definition sb_is_adv (s : sbatch) : bool := match s with SAdv _ => true | SStd _ => false end.
(* File.IsADV: some batch of f.Batches has the SEC code ADV *)
Definition file_is_adv (f : afile) : bool := existsb sb_is_adv (af_std f).

Definition sb_num (s : sbatch) : Z := match s with SStd b => b_num b | SAdv a => ab_num a end.
(* the control record the branch that is taken reads: GetControl() of a standard batch in the
   non-ADV branch, GetADVControl() of an ADV batch in createFileADV *)
Definition sb_ctl (s : sbatch) : control := match s with SStd b => b_ctl b | SAdv a => ab_ctl a end.

Definition ctl_set_num (c : control) (n : Z) : control :=
  mkctl (c_svc c) n (c_count c) (c_hash c) (c_credit c) (c_debit c).

Definition aset_num (a : abatch) (n : Z) : abatch :=
  mkab (ab_hdr_ok a) (ab_std_entries a) (ab_svc a) n (ab_entries a) (ctl_set_num (ab_ctl a) n) (ab_off a).
Definition iset_num (b : ibatch) (n : Z) : ibatch :=
  mkib (ib_hdr_ok b) (ib_odfi_num b) (ib_odfi b) (ib_svc b) n (ib_entries b) (ctl_set_num (ib_ctl b) n) (ib_opts b).
Definition sset_num (s : sbatch) (n : Z) : sbatch :=
  match s with SStd b => SStd (set_num b n) | SAdv a => SAdv (aset_num a n) end.

(* "create ascending batch numbers unless batch number has been provided": header and control
   number replaced by the running sequence only where the header's number is <= 1 *)
Fixpoint renumber_s (seq : Z) (bs : list sbatch) : list sbatch :=
  match bs with
  | [] => []
  | s :: r => (if sb_num s <=? 1 then sset_num s seq else s) :: renumber_s (seq + 1) r
  end.
Fixpoint renumber_i (seq : Z) (bs : list ibatch) : list ibatch :=
  match bs with
  | [] => []
  | b :: r => (if ib_num b <=? 1 then iset_num b seq else b) :: renumber_i (seq + 1) r
  end.

(* blocking factor 10: Go's % and / (truncated) *)
Definition blocks (recs : Z) : Z := if Z.rem recs 10 =? 0 then Z.quot recs 10 else Z.quot recs 10 + 1.

(* leastSignificantDigits(v, d) = v % 10^d; None: no truncation in the source *)
Definition cut (d : option Z) (v : Z) : Z := match d with Some n => Z.rem v (10 ^ n) | None => v end.

(* physical records: file header + file control + per batch (header + control + entry/addenda count) *)
Definition records (ss : list sbatch) (ibs : list ibatch) : Z :=
  2 + zsum (fun s => 2 + c_count (sb_ctl s)) ss + zsum (fun b => 2 + c_count (ib_ctl b)) ibs.

(* the FileControl File.Create assembles after its two loops *)
Definition file_control_all (T : ttable) (ss : list sbatch) (ibs : list ibatch) : fctl :=
  mkfctl (zlen ss + zlen ibs)
         (blocks (records ss ibs))
         (zsum (fun s => c_count (sb_ctl s)) ss + zsum (fun b => c_count (ib_ctl b)) ibs)
         (cut (k_hash_digits (tt_create T)) (zsum (fun s => c_hash (sb_ctl s)) ss + zsum (fun b => c_hash (ib_ctl b)) ibs))
         (zsum (fun s => c_debit (sb_ctl s)) ss + zsum (fun b => c_debit (ib_ctl b)) ibs)
         (zsum (fun s => c_credit (sb_ctl s)) ss + zsum (fun b => c_credit (ib_ctl b)) ibs).

(* createFileADV's loop: the first batch that is not ADV ends it with ErrFileADVOnly, the batches
   in front of it are already renumbered *)
Fixpoint adv_file_loop (seq : Z) (bs : list sbatch) : bool * list sbatch :=
  match bs with
  | [] => (true, [])
  | SStd b :: r => (false, bs)
  | SAdv a :: r =>
    let (ok, r') := adv_file_loop (seq + 1) r in
    (ok, (if ab_num a <=? 1 then SAdv (aset_num a seq) else SAdv a) :: r')
  end.

(* the ADVFileControl createFileADV assembles: f.Batches only (f.IATBatches must be empty, see [tt_adv_iat_guard]) *)
Definition adv_file_control (T : ttable) (ss : list sbatch) : fctl :=
  mkfctl (zlen ss)
         (blocks (records ss []))
         (zsum (fun s => c_count (sb_ctl s)) ss)
         (cut (k_hash_digits (tt_create_adv T)) (zsum (fun s => c_hash (sb_ctl s)) ss))
         (zsum (fun s => c_debit (sb_ctl s)) ss)
         (zsum (fun s => c_credit (sb_ctl s)) ss).

Definition af_with (f : afile) (ss : list sbatch) (ibs : list ibatch) (c a : fctl) : afile :=
  mkaf (af_hdr_ok f) (af_opts f) ss ibs c a.

(* File.Create: (err == nil, state left) *)
Definition file_create_all (T : ttable) (f : afile) : bool * afile :=
  let o := af_opts f in
  if negb (fo_skip_all o) && negb (fo_allow_missing_hdr o) && negb (af_hdr_ok f) then (false, f)
  else if negb (fo_skip_all o) && negb (fo_allow_zero o)
          && (match af_std f with [] => true | _ => false end) && (match af_iat f with [] => true | _ => false end)
  then (false, f)
  else if negb (file_is_adv f) then
    let ss := renumber_s 1 (af_std f) in
    let ibs := renumber_i (1 + zlen (af_std f)) (af_iat f) in
    (true, af_with f ss ibs (file_control_all T ss ibs) (af_actl f))
  else if tt_adv_iat_guard T && (match af_iat f with [] => false | _ => true end) then (false, f)
  else
    let (ok, ss) := adv_file_loop 1 (af_std f) in
    if ok then (true, af_with f ss (af_iat f) (af_ctl f) (adv_file_control T ss))
    else (false, af_with f ss (af_iat f) (af_ctl f) (af_actl f)).

(* ------------------------------------------------------------------ histories *)

Inductive aop :=
  | ABuild (i : nat)                         (* f.Batches[i].build()  (standard or ADV) *)
  | AAddStd (i : nat) (e : entry)            (* f.Batches[i].AddEntry(e) on a standard batch *)
  | AAddAdv (i : nat) (e : aentry)           (* f.Batches[i].AddADVEntry(e) on an ADV batch *)
  | ARemove (i k : nat)                      (* delete entry k of f.Batches[i] *)
  | AAmend (i k : nat) (code amount : Z)     (* overwrite TransactionCode and Amount of entry k of f.Batches[i] *)
  | IBuild (i : nat)                         (* f.IATBatches[i].build() *)
  | IAdd (i : nat) (e : ientry)
  | IRemove (i k : nat)
  | IAmend (i k : nat) (code amount : Z)
  | ACreateFile.                             (* f.Create() *)

Fixpoint remove_nth {A} (l : list A) (k : nat) : list A :=
  match l, k with
  | [], _ => []
  | _ :: r, O => r
  | x :: r, S j => x :: remove_nth r j
  end.

Fixpoint amend_nth {A} (g : A -> A) (l : list A) (k : nat) : list A :=
  match l, k with
  | [], _ => []
  | x :: r, O => g x :: r
  | x :: r, S j => x :: amend_nth g r j
  end.

Definition e_amend (c a : Z) (e : entry) : entry := mkentry c a (e_off e) (e_trace e) (e_addenda e) (e_rdfi e).
Definition ae_amend (c a : Z) (e : aentry) : aentry := mkae c a (ae_rdfi e) (ae_a99 e) (ae_seq e).
Definition ie_amend (c a : Z) (e : ientry) : ientry :=
  mkie c a (ie_tr_num e) (ie_trace e) (ie_rdfi e) (ie_mand e) (ie_a17 e) (ie_a18 e) (ie_a98 e) (ie_a99 e).

Definition b_with_entries (b : batch) (es : list entry) : batch :=
  mkbatch (b_hdr_ok b) (b_odfi b) (b_svc b) (b_num b) es (b_ctl b) (b_off b).

Definition s_edit (fs : list entry -> list entry) (fa : list aentry -> list aentry) (s : sbatch) : sbatch :=
  match s with
  | SStd b => SStd (b_with_entries b (fs (b_entries b)))
  | SAdv a => SAdv (ab_with a (fa (ab_entries a)) (ab_ctl a))
  end.

Definition i_edit (g : list ientry -> list ientry) (b : ibatch) : ibatch := ib_with b (g (ib_entries b)) (ib_ctl b).

Definition af_std_with (f : afile) (ss : list sbatch) : afile := af_with f ss (af_iat f) (af_ctl f) (af_actl f).
Definition af_iat_with (f : afile) (ibs : list ibatch) : afile := af_with f (af_std f) ibs (af_ctl f) (af_actl f).

Definition on_std (f : afile) (i : nat) (g : sbatch -> sbatch) : afile :=
  match nth_error (af_std f) i with
  | None => f
  | Some s => af_std_with f (upd (af_std f) i (g s))
  end.
Definition on_iat (f : afile) (i : nat) (g : ibatch -> ibatch) : afile :=
  match nth_error (af_iat f) i with
  | None => f
  | Some b => af_iat_with f (upd (af_iat f) i (g b))
  end.

Definition pair_res {A} (p : bool * A) : res A := Ret (fst p) (snd p).

Definition astep (O : otable) (T : ttable) (o : aop) (f : afile) : res afile :=
  match o with
  | ACreateFile => pair_res (file_create_all T f)
  | ABuild i =>
      match nth_error (af_std f) i with
      | None => Ret true f
      | Some (SStd b) =>
          match build O b with
          | Ret ok b' => Ret ok (af_std_with f (upd (af_std f) i (SStd b')))
          | Panic => Panic
          | Hang => Hang
          end
      | Some (SAdv a) =>
          let (ok, a') := adv_build T a in Ret ok (af_std_with f (upd (af_std f) i (SAdv a')))
      end
  | AAddStd i e => Ret true (on_std f i (s_edit (fun es => es ++ [e]) (fun es => es)))
  | AAddAdv i e => Ret true (on_std f i (s_edit (fun es => es) (fun es => es ++ [e])))
  | ARemove i k => Ret true (on_std f i (s_edit (fun es => remove_nth es k) (fun es => remove_nth es k)))
  | AAmend i k c a => Ret true (on_std f i (s_edit (fun es => amend_nth (e_amend c a) es k) (fun es => amend_nth (ae_amend c a) es k)))
  | IBuild i =>
      match nth_error (af_iat f) i with
      | None => Ret true f
      | Some b => let (ok, b') := iat_build T b in Ret ok (af_iat_with f (upd (af_iat f) i b'))
      end
  | IAdd i e => Ret true (on_iat f i (i_edit (fun es => es ++ [e])))
  | IRemove i k => Ret true (on_iat f i (i_edit (fun es => remove_nth es k)))
  | IAmend i k c a => Ret true (on_iat f i (i_edit (fun es => amend_nth (ie_amend c a) es k)))
  end.

(* a Go program that ignores returned errors and goes on; a panic or a hang ends it *)
Definition arun (O : otable) (T : ttable) (ops : list aop) (f : afile) : res afile :=
  fold_left (fun acc o => match acc with Ret _ f' => astep O T o f' | x => x end) ops (Ret true f).

(* every batch built, then the file created: what a caller does to tabulate a file *)
Definition build_all_std (O : otable) (T : ttable) (s : sbatch) : sbatch :=
  match s with
  | SStd b => match build O b with Ret _ b' => SStd b' | _ => SStd b end
  | SAdv a => SAdv (snd (adv_build T a))
  end.

(* Facts about the IATBatch.build model (coq/Model/BuildIAT.v). *)
From Coq Require Import Lia ZifyBool ZifyNat.
From ACH Require Import Offsets OffsetsFacts BuildIAT.
Open Scope Z_scope.

(* ------------------------------------------------------------------ sums *)

Lemma zsum_app {A} (f : A -> Z) a b : zsum f (a ++ b) = zsum f a + zsum f b.
Proof. induction a as [|x a IH]; cbn [zsum app]; [reflexivity|rewrite IH; lia]. Qed.

Lemma zsum_ext {A} (f g : A -> Z) l : (forall x, In x l -> f x = g x) -> zsum f l = zsum g l.
Proof.
  induction l as [|x l IH]; intros H; cbn [zsum]; [reflexivity|].
  rewrite (H x (or_introl eq_refl)), IH; [reflexivity|]. intros y Hy. apply H. now right.
Qed.

Lemma zsum_map {A B} (g : A -> B) (f : B -> Z) l : zsum f (map g l) = zsum (fun x => f (g x)) l.
Proof. induction l as [|x l IH]; cbn [zsum map]; [reflexivity|now rewrite IH]. Qed.

Lemma zsum_nonneg {A} (f : A -> Z) l : (forall x, In x l -> 0 <= f x) -> 0 <= zsum f l.
Proof.
  induction l as [|x l IH]; intros H; cbn [zsum]; [lia|].
  assert (0 <= f x) by (apply H; now left).
  assert (0 <= zsum f l) by (apply IH; intros y Hy; apply H; now right). lia.
Qed.

Lemma zsum_plus {A} (f g : A -> Z) l : zsum (fun x => f x + g x) l = zsum f l + zsum g l.
Proof. induction l as [|x l IH]; cbn [zsum]; [reflexivity|rewrite IH; lia]. Qed.

Lemma zsum_const {A} (c : Z) (l : list A) : zsum (fun _ => c) l = c * zlen l.
Proof.
  unfold zlen. induction l as [|x l IH]; cbn [zsum length]; [lia|]. rewrite IH. lia.
Qed.

Lemma zlen_nonneg {A} (l : list A) : 0 <= zlen l.
Proof. unfold zlen. lia. Qed.

Lemma zlen_app {A} (a b : list A) : zlen (a ++ b) = zlen a + zlen b.
Proof. unfold zlen. rewrite app_length. lia. Qed.

Lemma zlen_cons {A} (x : A) l : zlen (x :: l) = 1 + zlen l.
Proof. unfold zlen. cbn [length]. lia. Qed.

(* ------------------------------------------------------------------ the table *)

Definition is_credit (c : Z) : bool := mem c nacha_credit.
Definition is_debit (c : Z) : bool := mem c nacha_debit.
Definition is_adv_credit (c : Z) : bool := mem c adv_credit_codes.
Definition is_adv_debit (c : Z) : bool := mem c adv_debit_codes.

Record ttable_good (T : ttable) : Prop := {
  tg_consts : consts_ok T = true;
  tg_icr : forall c, mem c (tt_iat_credit T) = is_credit c;
  tg_idb : forall c, mem c (tt_iat_debit T) = is_debit c;
  tg_acr : forall c, mem c (tt_adv_credit T) = is_adv_credit c;
  tg_adb : forall c, mem c (tt_adv_debit T) = is_adv_debit c;
  tg_hash : k_hash_digits (tt_create T) = Some 10;
  tg_ahash : k_hash_digits (tt_create_adv T) = Some 10;
  tg_guard : tt_adv_iat_guard T = true }.

Lemma same_set_mem a b c : same_set a b = true -> mem c a = mem c b.
Proof.
  unfold same_set. intros H. apply andb_prop in H as [H1 H2].
  destruct (mem c a) eqn:Ea.
  - symmetry. eapply subset_mem; eassumption.
  - destruct (mem c b) eqn:Eb; [|reflexivity].
    rewrite (subset_mem _ _ _ H2 Eb) in Ea. discriminate.
Qed.

Lemma hash10_spec k : hash10 k = true -> k_hash_digits k = Some 10.
Proof.
  unfold hash10. destruct (k_hash_digits k) as [d|]; [|discriminate].
  intros H. apply Z.eqb_eq in H. now subst.
Qed.

Lemma ttable_ok_good T : ttable_ok T = true -> ttable_good T.
Proof.
  unfold ttable_ok. intros H.
  do 9 (apply andb_prop in H as [H ?]).
  constructor; try assumption.
  - intros c. unfold is_credit. now apply same_set_mem.
  - intros c. unfold is_debit. now apply same_set_mem.
  - intros c. unfold is_adv_credit. now apply same_set_mem.
  - intros c. unfold is_adv_debit. now apply same_set_mem.
  - now apply hash10_spec.
  - now apply hash10_spec.
Qed.

Lemma credit_not_debit c : is_credit c = true -> is_debit c = false.
Proof. unfold is_credit, is_debit. apply disjoint_mem. vm_compute. reflexivity. Qed.

Lemma adv_credit_not_debit c : is_adv_credit c = true -> is_adv_debit c = false.
Proof. unfold is_adv_credit, is_adv_debit. apply disjoint_mem. vm_compute. reflexivity. Qed.

(* ------------------------------------------------------------------ the control equals the recomputation *)

Definition ictl_ok (T : ttable) (b : ibatch) : Prop :=
  let c := ib_ctl b in let es := ib_entries b in
  c_count c = icount es /\ c_hash c = ihash es /\ c_credit c = icredits T es /\ c_debit c = idebits T es /\
  c_svc c = ib_svc b /\ c_num c = ib_num b.

Lemma ictl_okb_spec T b : ictl_okb T b = true <-> ictl_ok T b.
Proof. unfold ictl_okb, ictl_ok. cbv zeta. lia. Qed.

(* what build never changes of an entry *)
Definition ie_static (e : ientry) :=
  (ie_code e, ie_amount e, ie_rdfi e, ie_tr_num e, (map is_some (ie_mand e), length (ie_a17 e), length (ie_a18 e)), (ie_a98 e, ie_a99 e)).

Lemma cons_inj {A} (x y : A) l l' : x :: l = y :: l' -> x = y /\ l = l'.
Proof. intros H. inversion H. split; reflexivity. Qed.

Lemma static_inv e e' : ie_static e = ie_static e' ->
  ie_code e = ie_code e' /\ ie_amount e = ie_amount e' /\ ie_rdfi e = ie_rdfi e' /\ ie_tr_num e = ie_tr_num e' /\
  map is_some (ie_mand e) = map is_some (ie_mand e') /\ length (ie_a17 e) = length (ie_a17 e') /\
  length (ie_a18 e) = length (ie_a18 e') /\ ie_a98 e = ie_a98 e' /\ ie_a99 e = ie_a99 e'.
Proof. unfold ie_static. intros H. inversion H. repeat split; assumption. Qed.

Lemma map_is_some_filter {A} (m m' : list (option A)) : map is_some m = map is_some m' ->
  length (filter is_some m) = length (filter is_some m') /\ forallb is_some m = forallb is_some m'.
Proof.
  revert m'. induction m as [|x m IH]; intros [|y m'] Hm; cbn [map] in Hm; try discriminate; [split; reflexivity|].
  apply cons_inj in Hm as [Hx Hr]. destruct (IH _ Hr) as [I1 I2]. cbn [filter forallb]. rewrite Hx, I2. split; [|reflexivity].
  destruct (is_some y); cbn [length]; auto.
Qed.

Lemma renum_length l : forall s d, length (renum s d l) = length l.
Proof. induction l as [|x l IH]; intros s d; cbn [renum length]; [reflexivity|now rewrite IH]. Qed.

Lemma map_is_some_const {A} (d : A) (m : list (option A)) : map is_some (map (option_map (fun _ => d)) m) = map is_some m.
Proof. induction m as [|x m IH]; cbn [map]; [reflexivity|]. rewrite IH. now destruct x. Qed.

Lemma step_static odfi o s e : ie_static (iat_entry_step odfi o s e) = ie_static e.
Proof.
  unfold iat_entry_step, ie_static, set_seqs.
  destruct (trace_odfi (ie_trace e) =? odfi); [|destruct (should_set o)];
    cbn [ie_code ie_amount ie_rdfi ie_tr_num ie_mand ie_a17 ie_a18 ie_a98 ie_a99 set_itrace];
    now rewrite map_is_some_const, !renum_length.
Qed.

Lemma iat_loop_static n odfi o es : forall s ok es',
  iat_loop n odfi o s es = (ok, es') -> map ie_static es' = map ie_static es.
Proof.
  induction es as [|e r IH]; intros s ok es' H; cbn [iat_loop] in H.
  - now inversion H.
  - destruct (negb (incl_ok e)); [now inversion H|].
    destruct (negb (ie_tr_num e)); [now inversion H|].
    destruct (negb n); [now inversion H|].
    destruct (iat_loop n odfi o (s + 1) r) as [ok1 r1] eqn:E. inversion H; subst.
    cbn [map]. rewrite step_static. f_equal. eapply IH; eassumption.
Qed.

Lemma static_icount_one e e' : ie_static e = ie_static e' -> icount_one e = icount_one e'.
Proof.
  intros H. destruct (static_inv _ _ H) as (H1 & H2 & H3 & H4 & H5 & H6 & H7 & H8 & H9).
  unfold icount_one, zlen. rewrite H8, H9, H6, H7.
  destruct (map_is_some_filter _ _ H5) as [Hl _]. now rewrite Hl.
Qed.

Lemma static_sums T es es' : map ie_static es' = map ie_static es ->
  icount es' = icount es /\ ihash es' = ihash es /\ icredits T es' = icredits T es /\ idebits T es' = idebits T es.
Proof.
  unfold icount, ihash, icredits, idebits.
  revert es'. induction es as [|e r IH]; intros [|e' r'] H; cbn [map] in H; try discriminate.
  - repeat split.
  - apply cons_inj in H as [He Hr]. destruct (IH _ Hr) as (I1 & I2 & I3 & I4).
    assert (Hs : zsum ie_rdfi r' = zsum ie_rdfi r).
    { clear -Hr. revert r' Hr. induction r as [|x r IH]; intros [|y r'] Hr; cbn [map] in Hr; try discriminate; [reflexivity|].
      apply cons_inj in Hr as [Hx Hy]. cbn [zsum]. rewrite (IH _ Hy). destruct (static_inv _ _ Hx) as (_ & _ & H3 & _). lia. }
    cbn [zsum]. rewrite (static_icount_one _ _ He), I1, I3, I4, Hs.
    unfold icr_amt, idb_amt. destruct (static_inv _ _ He) as (H1 & H2 & H3 & _).
    rewrite H1, H2, H3. repeat split.
Qed.

Lemma iat_build_ok_inv T b b' : iat_build T b = (true, b') ->
  ib_hdr_ok b = true /\ ib_entries b <> [] /\
  exists es, iat_loop (ib_odfi_num b) (ib_odfi b) (ib_opts b) 1 (ib_entries b) = (true, es) /\
             b' = ib_with b es (ictl_of T b es).
Proof.
  unfold iat_build. destruct (ib_hdr_ok b); cbn [negb]; [|discriminate].
  destruct (ib_entries b) as [|e r] eqn:Ee; [discriminate|].
  destruct (iat_loop (ib_odfi_num b) (ib_odfi b) (ib_opts b) 1 (e :: r)) as [ok es] eqn:El.
  destruct ok; intros H; inversion H; subst. repeat split; [discriminate|]. exists es. split; reflexivity.
Qed.

(* the statement of C05 for IAT batches: after a successful build the control is the recomputation *)
Theorem iat_build_control T b b' : iat_build T b = (true, b') -> ictl_ok T b'.
Proof.
  intros H. apply iat_build_ok_inv in H as (_ & _ & es & _ & ->).
  unfold ictl_ok, ib_with, ictl_of. cbn. repeat split.
Qed.

(* ... by the direction of the transaction code, with the hash cut to ten digits, every record
   counted; the tabulated quantities of the result are those of the caller's entries *)
Definition by_credit (e : ientry) : Z := if is_credit (ie_code e) then ie_amount e else 0.
Definition by_debit (e : ientry) : Z := if is_debit (ie_code e) then ie_amount e else 0.

Lemma icredits_dir T es : ttable_good T -> icredits T es = zsum by_credit es.
Proof. intros G. unfold icredits. apply zsum_ext. intros e _. unfold icr_amt, by_credit. now rewrite (tg_icr T G). Qed.

Lemma idebits_dir T es : ttable_good T -> idebits T es = zsum by_debit es.
Proof.
  intros G. unfold idebits. apply zsum_ext. intros e _. unfold idb_amt, by_debit.
  rewrite (tg_icr T G), (tg_idb T G). destruct (is_credit (ie_code e)) eqn:E; [|reflexivity].
  now rewrite (credit_not_debit _ E).
Qed.

Lemma rem_mod_nonneg a : 0 <= a -> Z.rem a P10 = a mod P10.
Proof. intros H. apply Z.rem_mod_nonneg; [assumption|unfold P10; lia]. Qed.

Theorem iat_build_control_spec T b b' : ttable_good T -> iat_build T b = (true, b') ->
  let c := ib_ctl b' in let es := ib_entries b' in
  c_count c = zsum icount_one es /\ c_credit c = zsum by_credit es /\ c_debit c = zsum by_debit es /\
  c_hash c = Z.rem (zsum ie_rdfi es) P10 /\
  ((forall e, In e es -> 0 <= ie_rdfi e) -> c_hash c = (zsum ie_rdfi es) mod P10) /\
  c_svc c = ib_svc b /\ c_num c = ib_num b /\
  map ie_static es = map ie_static (ib_entries b).
Proof.
  intros G H. destruct (iat_build_control T b b' H) as (H1 & H2 & H3 & H4 & H5 & H6).
  apply iat_build_ok_inv in H as (_ & _ & es & El & ->).
  cbn [ib_ctl ib_entries ib_with ib_svc ib_num] in *. cbv zeta.
  rewrite <- (icredits_dir T es G), <- (idebits_dir T es G).
  repeat split; try assumption.
  - intros Hn. rewrite H2. unfold ihash. apply rem_mod_nonneg. now apply zsum_nonneg.
  - eapply iat_loop_static; eassumption.
Qed.

(* the same, over the entries the caller gave *)
Corollary iat_build_control_caller T b b' : ttable_good T -> iat_build T b = (true, b') ->
  let c := ib_ctl b' in let es := ib_entries b in
  c_count c = zsum icount_one es /\ c_credit c = zsum by_credit es /\ c_debit c = zsum by_debit es /\
  c_hash c = Z.rem (zsum ie_rdfi es) P10.
Proof.
  intros G H. destruct (iat_build_control T b b' H) as (H1 & H2 & H3 & H4 & _).
  apply iat_build_ok_inv in H as (_ & _ & es & El & ->).
  apply iat_loop_static in El. destruct (static_sums T _ _ El) as (S1 & S2 & S3 & S4).
  cbn [ib_ctl ib_entries ib_with] in *. cbv zeta.
  rewrite <- (icredits_dir T _ G), <- (idebits_dir T _ G), <- S3, <- S4.
  fold (icount (ib_entries b)). rewrite <- S1. fold (ihash (ib_entries b)). rewrite <- S2. auto.
Qed.

(* ------------------------------------------------------------------ idempotence *)

Lemma renum_idem l : forall s d, renum s d (renum s d l) = renum s d l.
Proof. induction l as [|x l IH]; intros s d; cbn [renum]; [reflexivity|now rewrite IH]. Qed.

Lemma map_const_idem (d : Z) (m : list (option Z)) :
  map (option_map (fun _ => d)) (map (option_map (fun _ => d)) m) = map (option_map (fun _ => d)) m.
Proof. induction m as [|x m IH]; cbn [map]; [reflexivity|]. rewrite IH. now destruct x. Qed.

Lemma set_seqs_idem e d : set_seqs (set_seqs e d) d = set_seqs e d.
Proof.
  unfold set_seqs. cbn [ie_code ie_amount ie_rdfi ie_tr_num ie_trace ie_mand ie_a17 ie_a18 ie_a98 ie_a99].
  now rewrite map_const_idem, !renum_idem.
Qed.

Lemma set_seqs_trace e d : ie_trace (set_seqs e d) = ie_trace e.
Proof. reflexivity. Qed.

Lemma step_trace odfi o s e : ie_trace (iat_entry_step odfi o s e) =
  if trace_odfi (ie_trace e) =? odfi then ie_trace e
  else if should_set o then odfi * P7 + s mod P7 else ie_trace e.
Proof.
  unfold iat_entry_step. rewrite set_seqs_trace.
  destruct (trace_odfi (ie_trace e) =? odfi); [reflexivity|]. now destruct (should_set o).
Qed.

Lemma step_idem odfi o s e : odfi_ok odfi ->
  iat_entry_step odfi o s (iat_entry_step odfi o s e) = iat_entry_step odfi o s e.
Proof.
  intros Ho. unfold iat_entry_step at 1.
  rewrite (step_trace odfi o s e).
  destruct (trace_odfi (ie_trace e) =? odfi) eqn:E1.
  - rewrite E1. unfold iat_entry_step. rewrite E1. apply set_seqs_idem.
  - destruct (should_set o) eqn:E2.
    + rewrite (trace_prefix odfi s Ho), Z.eqb_refl.
      unfold iat_entry_step. rewrite E1, E2. cbn [set_itrace ie_trace]. apply set_seqs_idem.
    + rewrite E1. unfold iat_entry_step. rewrite E1, E2. apply set_seqs_idem.
Qed.

(* without the ODFI hypothesis when the options keep build from writing trace numbers *)
Lemma step_idem_custom odfi o s e : should_set o = false ->
  iat_entry_step odfi o s (iat_entry_step odfi o s e) = iat_entry_step odfi o s e.
Proof.
  intros E2. unfold iat_entry_step at 1. rewrite (step_trace odfi o s e), E2.
  assert (Ht : (if trace_odfi (ie_trace e) =? odfi then ie_trace e else ie_trace e) = ie_trace e) by now destruct (_ =? _).
  rewrite Ht. unfold iat_entry_step. rewrite E2.
  destruct (trace_odfi (ie_trace e) =? odfi); apply set_seqs_idem.
Qed.

Lemma step_incl odfi o s e : incl_ok (iat_entry_step odfi o s e) = incl_ok e.
Proof.
  destruct (static_inv _ _ (step_static odfi o s e)) as (_ & _ & _ & _ & H5 & _ & _ & H8 & _).
  unfold incl_ok. rewrite H8. f_equal. now destruct (map_is_some_filter _ _ H5).
Qed.

Lemma step_tr_num odfi o s e : ie_tr_num (iat_entry_step odfi o s e) = ie_tr_num e.
Proof. now destruct (static_inv _ _ (step_static odfi o s e)) as (_ & _ & _ & H & _). Qed.

Lemma iat_loop_idem n odfi o es : odfi_ok odfi \/ should_set o = false -> forall s es',
  iat_loop n odfi o s es = (true, es') -> iat_loop n odfi o s es' = (true, es').
Proof.
  intros Ho. induction es as [|e r IH]; intros s es' H; cbn [iat_loop] in H.
  - inversion H. reflexivity.
  - destruct (negb (incl_ok e)) eqn:E1; [discriminate|].
    destruct (negb (ie_tr_num e)) eqn:E2; [discriminate|].
    destruct (negb n) eqn:E3; [discriminate|].
    destruct (iat_loop n odfi o (s + 1) r) as [ok1 r1] eqn:E. inversion H; subst.
    cbn [iat_loop]. rewrite step_incl, step_tr_num, E1, E2, E3, (IH _ _ E).
    destruct Ho as [Ho|Ho]; [now rewrite step_idem|now rewrite step_idem_custom].
Qed.

Theorem iat_build_idem T b b' : odfi_ok (ib_odfi b) \/ should_set (ib_opts b) = false ->
  iat_build T b = (true, b') -> iat_build T b' = (true, b').
Proof.
  intros Ho H. apply iat_build_ok_inv in H as (Hh & Hne & es & El & ->).
  pose proof (iat_loop_idem _ _ _ _ Ho _ _ El) as El2.
  unfold iat_build. cbn [ib_with ib_hdr_ok ib_entries ib_odfi_num ib_odfi ib_opts]. rewrite Hh. cbn [negb].
  destruct es as [|e' r'].
  - destruct (ib_entries b) as [|e r]; [congruence|]. cbn [iat_loop] in El.
    destruct (negb (incl_ok e)); [discriminate|]. destruct (negb (ie_tr_num e)); [discriminate|].
    destruct (negb (ib_odfi_num b)); [discriminate|].
    destruct (iat_loop (ib_odfi_num b) (ib_odfi b) (ib_opts b) (1 + 1) r). discriminate.
  - rewrite El2. reflexivity.
Qed.

(* ------------------------------------------------------------------ sequence numbers of the addenda records *)

Fixpoint pairs_ok (s d : Z) (l : list (Z * Z)) : bool :=
  match l with
  | [] => true
  | (a, x) :: r => (a =? s) && (x =? d) && pairs_ok (s + 1) d r
  end.

(* every addenda record of the entry refers to the entry's trace number; Addenda17 / Addenda18 are numbered 1, 2, … *)
Definition seqs_okb (e : ientry) : bool :=
  let d := trace_seq (ie_trace e) in
  forallb (fun m => match m with None => true | Some v => v =? d end) (ie_mand e)
  && pairs_ok 1 d (ie_a17 e) && pairs_ok 1 d (ie_a18 e).

Lemma pairs_ok_renum l : forall s d, pairs_ok s d (renum s d l) = true.
Proof. induction l as [|x l IH]; intros s d; cbn [renum pairs_ok]; [reflexivity|]. rewrite !Z.eqb_refl, IH. reflexivity. Qed.

Lemma pairs_ok_nth l : forall s d i a x, pairs_ok s d l = true -> nth_error l i = Some (a, x) ->
  a = s + Z.of_nat i /\ x = d.
Proof.
  induction l as [|[a0 x0] l IH]; intros s d i a x H Hn; [now destruct i|].
  cbn [pairs_ok] in H. apply andb_prop in H as [H H3]. apply andb_prop in H as [H1 H2].
  destruct i as [|i]; cbn [nth_error] in Hn.
  - inversion Hn; subst. lia.
  - destruct (IH _ _ _ _ _ H3 Hn) as [Ha Hx]. lia.
Qed.

Lemma set_seqs_ok e : seqs_okb (set_seqs e (trace_seq (ie_trace e))) = true.
Proof.
  unfold seqs_okb. cbv zeta. rewrite set_seqs_trace. unfold set_seqs. cbn [ie_mand ie_a17 ie_a18].
  rewrite !pairs_ok_renum, !andb_true_r.
  induction (ie_mand e) as [|m l IH]; cbn [map forallb]; [reflexivity|].
  rewrite IH, andb_true_r. destruct m; cbn [option_map]; [apply Z.eqb_refl|reflexivity].
Qed.

Lemma step_seqs odfi o s e : seqs_okb (iat_entry_step odfi o s e) = true.
Proof. unfold iat_entry_step. apply set_seqs_ok. Qed.

Lemma iat_loop_seqs n odfi o es : forall s es',
  iat_loop n odfi o s es = (true, es') -> forallb seqs_okb es' = true.
Proof.
  induction es as [|e r IH]; intros s es' H; cbn [iat_loop] in H.
  - inversion H. reflexivity.
  - destruct (negb (incl_ok e)); [discriminate|]. destruct (negb (ie_tr_num e)); [discriminate|].
    destruct (negb n); [discriminate|].
    destruct (iat_loop n odfi o (s + 1) r) as [ok1 r1] eqn:E. inversion H; subst.
    cbn [forallb]. rewrite step_seqs. eapply IH; eassumption.
Qed.

Theorem iat_build_seqs T b b' : iat_build T b = (true, b') -> forallb seqs_okb (ib_entries b') = true.
Proof.
  intros H. apply iat_build_ok_inv in H as (_ & _ & es & El & ->). cbn [ib_with ib_entries].
  eapply iat_loop_seqs; eassumption.
Qed.

(* ------------------------------------------------------------------ trace numbers *)

Definition ihas_prefix (odfi : Z) (e : ientry) : bool := trace_odfi (ie_trace e) =? odfi.

Lemma iat_loop_length n odfi o es : forall s es', iat_loop n odfi o s es = (true, es') -> length es' = length es.
Proof.
  intros s es' H. apply iat_loop_static in H. apply (f_equal (@length _)) in H. now rewrite !map_length in H.
Qed.

(* options nil (or neither BypassOriginValidation nor CustomTraceNumbers): afterwards every entry carries the header's ODFI *)
Lemma iat_loop_prefix n odfi o es : odfi_ok odfi -> should_set o = true -> forall s es',
  iat_loop n odfi o s es = (true, es') -> forallb (ihas_prefix odfi) es' = true.
Proof.
  intros Ho Hs. induction es as [|e r IH]; intros s es' H; cbn [iat_loop] in H.
  - inversion H. reflexivity.
  - destruct (negb (incl_ok e)); [discriminate|]. destruct (negb (ie_tr_num e)); [discriminate|].
    destruct (negb n); [discriminate|].
    destruct (iat_loop n odfi o (s + 1) r) as [ok1 r1] eqn:E. inversion H; subst.
    cbn [forallb]. rewrite (IH _ _ E), andb_true_r.
    unfold ihas_prefix. rewrite step_trace, Hs.
    destruct (trace_odfi (ie_trace e) =? odfi) eqn:E1; [exact E1|].
    rewrite (trace_prefix odfi s Ho). apply Z.eqb_refl.
Qed.

(* a trace number that carries the ODFI is kept, under any options; with BypassOriginValidation or
   CustomTraceNumbers every trace number is kept; otherwise position s, s+1, … is written *)
Fixpoint traces_after (odfi : Z) (o : bopts) (s : Z) (es : list ientry) : list Z :=
  match es with
  | [] => []
  | e :: r => (if ihas_prefix odfi e then ie_trace e
               else if should_set o then odfi * P7 + s mod P7 else ie_trace e) :: traces_after odfi o (s + 1) r
  end.

Lemma iat_loop_traces n odfi o es : forall s es',
  iat_loop n odfi o s es = (true, es') -> map ie_trace es' = traces_after odfi o s es.
Proof.
  induction es as [|e r IH]; intros s es' H; cbn [iat_loop] in H.
  - inversion H. reflexivity.
  - destruct (negb (incl_ok e)); [discriminate|]. destruct (negb (ie_tr_num e)); [discriminate|].
    destruct (negb n); [discriminate|].
    destruct (iat_loop n odfi o (s + 1) r) as [ok1 r1] eqn:E. inversion H; subst.
    cbn [map traces_after]. rewrite step_trace, (IH _ _ E). reflexivity.
Qed.

Lemma traces_after_custom odfi o es : should_set o = false -> forall s, traces_after odfi o s es = map ie_trace es.
Proof.
  intros Hs. induction es as [|e r IH]; intros s; cbn [traces_after map]; [reflexivity|].
  rewrite Hs, IH. now destruct (ihas_prefix odfi e).
Qed.

Lemma traces_after_fresh odfi o es : should_set o = true ->
  forallb (fun e => negb (ihas_prefix odfi e)) es = true -> forall s,
  traces_after odfi o s es = map (fun i => odfi * P7 + (s + Z.of_nat i) mod P7) (seq 0 (length es)).
Proof.
  intros Hs. induction es as [|e r IH]; intros Ha s; cbn [traces_after length seq map]; [reflexivity|].
  cbn [forallb] in Ha. apply andb_prop in Ha as [Ha Hr]. apply negb_true_iff in Ha. rewrite Ha, Hs.
  replace (s + Z.of_nat 0) with s by lia. f_equal.
  rewrite (IH Hr), <- seq_shift, map_map. apply map_ext. intros i.
  replace (s + 1 + Z.of_nat i) with (s + Z.of_nat (S i)) by lia. reflexivity.
Qed.

Theorem iat_build_traces T b b' : iat_build T b = (true, b') ->
  map ie_trace (ib_entries b') = traces_after (ib_odfi b) (ib_opts b) 1 (ib_entries b).
Proof.
  intros H. apply iat_build_ok_inv in H as (_ & _ & es & El & ->). cbn [ib_with ib_entries].
  eapply iat_loop_traces; eassumption.
Qed.

Theorem iat_build_prefix T b b' : odfi_ok (ib_odfi b) -> should_set (ib_opts b) = true ->
  iat_build T b = (true, b') -> forallb (ihas_prefix (ib_odfi b)) (ib_entries b') = true.
Proof.
  intros Ho Hs H. apply iat_build_ok_inv in H as (_ & _ & es & El & ->). cbn [ib_with ib_entries].
  eapply iat_loop_prefix; eassumption.
Qed.

(* a batch without any trace number (options nil): strictly ascending trace numbers *)
Lemma asc_from n : forall q lo, lo < q -> asc lo (map (fun i => q + Z.of_nat i) (seq 0 n)).
Proof.
  induction n as [|n IH]; intros q lo H; cbn [seq map asc]; [exact I|].
  split; [lia|]. rewrite <- seq_shift, map_map.
  replace (map (fun x => q + Z.of_nat (S x)) (seq 0 n)) with (map (fun i => (q + 1) + Z.of_nat i) (seq 0 n))
    by (apply map_ext; intros i; lia).
  apply IH. lia.
Qed.

Theorem iat_build_ascending T b b' : 0 <= ib_odfi b -> should_set (ib_opts b) = true ->
  forallb (fun e => negb (ihas_prefix (ib_odfi b) e)) (ib_entries b) = true ->
  zlen (ib_entries b) < P7 - 1 ->
  iat_build T b = (true, b') -> asc 0 (map ie_trace (ib_entries b')).
Proof.
  intros Ho Hs Ha Hl H. rewrite (iat_build_traces T b b' H), (traces_after_fresh _ _ _ Hs Ha).
  replace (map (fun i => ib_odfi b * P7 + (1 + Z.of_nat i) mod P7) (seq 0 (length (ib_entries b))))
    with (map (fun i => (ib_odfi b * P7 + 1) + Z.of_nat i) (seq 0 (length (ib_entries b)))).
  - apply asc_from. unfold P7. lia.
  - apply map_ext_in. intros i Hi. apply in_seq in Hi. unfold zlen in Hl.
    rewrite Z.mod_small by (unfold P7 in *; lia). lia.
Qed.

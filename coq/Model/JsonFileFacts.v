(* C07 (phase 2) — facts about the file-tree model (JsonFile.v):
   A. access lemmas for trees;
   B. [nodes_agree] / [view_roundtrip]: what the struct codec loses is not part of the tree
      (for ANY type tree whose problem list is covered by hidden + kept fields);
   C. [render_reads]: a record line depends only on the fields its layout reads. *)
From Coq Require Import String Ascii List Bool ZArith NArith Lia.
Import ListNotations.
From ACH Require Import Bytes JsonCodec JsonCodecFacts JsonSurvive JsonPostTable Layout LayoutOk LayoutFacts CustomFacts FileStruct JsonFile.
Local Open Scope string_scope.
Local Open Scope list_scope.

(* ------------------------------------------------------------ A. access *)

Lemma lookup_rset r f v g :
  LayoutTypes.lookup (rset r f v) g = if String.eqb g f then Some v else LayoutTypes.lookup r g.
Proof.
  induction r as [|[h w] r IH]; cbn.
  - destruct (String.eqb g f); reflexivity.
  - destruct (String.eqb f h) eqn:Efh.
    + apply String.eqb_eq in Efh. subst h. cbn. destruct (String.eqb g f); reflexivity.
    + cbn. destruct (String.eqb g h) eqn:Egh.
      * apply String.eqb_eq in Egh. subst h. rewrite String.eqb_sym, Efh. reflexivity.
      * exact IH.
Qed.

Lemma rset_same r f v : LayoutTypes.lookup r f = Some v -> rset r f v = r.
Proof.
  induction r as [|[h w] r IH]; cbn; [discriminate|].
  destruct (String.eqb f h) eqn:E.
  - intros H. injection H as ->. reflexivity.
  - intros H. f_equal. now apply IH.
Qed.

Lemma geti_rset r f z g : geti (rset r f (VI z)) g = if String.eqb g f then z else geti r g.
Proof. unfold geti. rewrite lookup_rset. destruct (String.eqb g f); reflexivity. Qed.

Lemma gets_rset_s r f s g : gets (rset r f (VS s)) g = if String.eqb g f then s else gets r g.
Proof. unfold gets. rewrite lookup_rset. destruct (String.eqb g f); reflexivity. Qed.

Lemma gets_rset_i r f z g : String.eqb g f = false -> gets (rset r f (VI z)) g = gets r g.
Proof. intros H. unfold gets. rewrite lookup_rset, H. reflexivity. Qed.

Lemma geti_rset_s r f s g : String.eqb g f = false -> geti (rset r f (VS s)) g = geti r g.
Proof. intros H. unfold geti. rewrite lookup_rset, H. reflexivity. Qed.

Lemma kget_kset ks k ns k' : kget (kset ks k ns) k' = if String.eqb k' k then ns else kget ks k'.
Proof.
  induction ks as [|[g old] ks IH]; cbn.
  - destruct (String.eqb k' k); reflexivity.
  - destruct (String.eqb k g) eqn:Ekg.
    + apply String.eqb_eq in Ekg. subst g. cbn. destruct (String.eqb k' k); reflexivity.
    + cbn. destruct (String.eqb k' g) eqn:Ek'g.
      * apply String.eqb_eq in Ek'g. subst g. rewrite String.eqb_sym, Ekg. reflexivity.
      * exact IH.
Qed.

Lemma kget_kmap ks k f k' : kget (kmap ks k f) k' = if String.eqb k' k then map f (kget ks k) else kget ks k'.
Proof.
  induction ks as [|[g ns] ks IH]; cbn.
  - destruct (String.eqb k' k); reflexivity.
  - destruct (String.eqb k g) eqn:Ekg.
    + apply String.eqb_eq in Ekg. subst g. cbn. destruct (String.eqb k' k); reflexivity.
    + cbn. destruct (String.eqb k' g) eqn:Ek'g.
      * apply String.eqb_eq in Ek'g. subst g. rewrite String.eqb_sym, Ekg. reflexivity.
      * exact IH.
Qed.

Lemma kmap_id ks k f : (forall n, In n (kget ks k) -> f n = n) -> kmap ks k f = ks.
Proof.
  induction ks as [|[g ns] ks IH]; cbn; [reflexivity|].
  destruct (String.eqb k g) eqn:E; intros H.
  - f_equal. f_equal. rewrite <- (map_id ns) at 2. apply map_ext_in. exact H.
  - f_equal. now apply IH.
Qed.

Lemma rt_eta r : RT (rname r) (rscal r) (rkids r) = r.
Proof. destruct r; reflexivity. Qed.

Lemma map_kid_id r k f : (forall n, In n (kid r k) -> f n = n) -> map_kid r k f = r.
Proof. intros H. unfold map_kid. rewrite kmap_id by exact H. apply rt_eta. Qed.

Lemma kid_set_kid r k ns k' : kid (set_kid r k ns) k' = if String.eqb k' k then ns else kid r k'.
Proof. unfold kid, set_kid. cbn. apply kget_kset. Qed.

Lemma kid_map_kid r k f k' : kid (map_kid r k f) k' = if String.eqb k' k then map f (kid r k) else kid r k'.
Proof. unfold kid, map_kid. cbn. apply kget_kmap. Qed.

Lemma kid_sset r f s k : kid (sset r f s) k = kid r k.
Proof. reflexivity. Qed.
Lemma kid_iset r f z k : kid (iset r f z) k = kid r k.
Proof. reflexivity. Qed.

Lemma sget_set_kid r k ns f : sget (set_kid r k ns) f = sget r f.
Proof. reflexivity. Qed.
Lemma iget_set_kid r k ns f : iget (set_kid r k ns) f = iget r f.
Proof. reflexivity. Qed.
Lemma sget_map_kid r k g f : sget (map_kid r k g) f = sget r f.
Proof. reflexivity. Qed.
Lemma iget_map_kid r k g f : iget (map_kid r k g) f = iget r f.
Proof. reflexivity. Qed.

Lemma sget_sset r f s g : sget (sset r f s) g = if String.eqb g f then s else sget r g.
Proof. unfold sget, sset. cbn. apply gets_rset_s. Qed.
Lemma iget_iset r f z g : iget (iset r f z) g = if String.eqb g f then z else iget r g.
Proof. unfold iget, iset. cbn. apply geti_rset. Qed.
Lemma sget_iset r f z g : String.eqb g f = false -> sget (iset r f z) g = sget r g.
Proof. unfold sget, iset. cbn. apply gets_rset_i. Qed.
Lemma iget_sset r f s g : String.eqb g f = false -> iget (sset r f s) g = iget r g.
Proof. unfold iget, sset. cbn. apply geti_rset_s. Qed.

Lemma sset_same r f s : has_str f s r = true -> sset r f s = r.
Proof.
  unfold has_str, sset. destruct (LayoutTypes.lookup (rscal r) f) as [[t|y]|] eqn:E; try discriminate.
  intros H. apply bytes_eqb_eq in H. subst t. rewrite (rset_same _ _ _ E). apply rt_eta.
Qed.

Lemma iset_same r f z : has_int f z r = true -> iset r f z = r.
Proof.
  unfold has_int, iset. destruct (LayoutTypes.lookup (rscal r) f) as [[t|y]|] eqn:E; try discriminate.
  intros H. apply Z.eqb_eq in H. subst y. rewrite (rset_same _ _ _ E). apply rt_eta.
Qed.

(* ------------------------------------------------------------ B. the tree does not see what the codec loses *)

Definition nodes_law (hid : hidp) (t : ty) : Prop :=
  forall a b, agree hid t a b = true -> nodes hid t a = nodes hid t b.

Fixpoint scal_fields (hid : hidp) (n : string) (fs : list (fmeta * ty)) (vs : list val) : recval :=
  match fs, vs with
  | (m, ft) :: fs', x :: vs' =>
      (if hid n (f_name m) then []
       else match scalar_of ft x with Some s => [(f_name m, s)] | None => [] end) ++ scal_fields hid n fs' vs'
  | _, _ => []
  end.

Fixpoint kid_fields (hid : hidp) (n : string) (fs : list (fmeta * ty)) (vs : list val) : list (string * list rtree) :=
  match fs, vs with
  | (m, ft) :: fs', x :: vs' =>
      (if hid n (f_name m) || negb (is_node_ty ft) then [] else [(f_name m, nodes hid ft x)]) ++ kid_fields hid n fs' vs'
  | _, _ => []
  end.

Lemma nodes_struct hid n fs vs :
  nodes hid (TStruct n fs) (VRec vs) = [RT n (scal_fields hid n fs vs) (kid_fields hid n fs vs)].
Proof.
  cbn [nodes]. f_equal. f_equal.
  - revert vs; induction fs as [|[m ft] fs IH]; intros [|x vs]; try reflexivity.
    cbn [scal_fields]. rewrite <- IH. reflexivity.
  - revert vs; induction fs as [|[m ft] fs IH]; intros [|x vs]; try reflexivity.
    cbn [kid_fields]. rewrite <- IH. reflexivity.
Qed.

Lemma scalar_agree hid ft x y : agree hid ft x y = true -> scalar_of ft x = scalar_of ft y.
Proof.
  destruct ft; cbn [agree]; intros H; try (apply val_eqb_eq in H; subst; reflexivity).
  - destruct x, y; reflexivity.
  - destruct x, y; reflexivity.
  - destruct x, y; reflexivity.
  - destruct x, y; reflexivity.
Qed.

Theorem nodes_agree hid t : nodes_law hid t.
Proof.
  induction t as [| | | |n fs IH|t IH|t IH] using ty_ind'; intros a b H; try reflexivity.
  - destruct a as [| | | |xs| |]; try discriminate. destruct b as [| | | |ys| |]; try discriminate.
    rewrite agree_struct in H. rewrite !nodes_struct. f_equal.
    revert xs ys H. induction IH as [|[m ft] fs Hft _ IHfs]; intros [|x xs] [|y ys] H; try discriminate; [reflexivity|].
    cbn [agree_fields] in H. apply andb_prop in H as [Hx Hr]. specialize (IHfs xs ys Hr).
    injection IHfs as E1 E2. cbn [scal_fields kid_fields]. rewrite E1, E2. cbn [snd] in Hft.
    destruct (hid n (f_name m)); [reflexivity|].
    rewrite (scalar_agree hid ft x y Hx). cbn [orb].
    destruct (is_node_ty ft); cbn [negb]; [|reflexivity].
    rewrite (Hft x y Hx). reflexivity.
  - destruct a as [| | | |xs| |]; destruct b as [| | | |ys| |]; try discriminate; try reflexivity.
    cbn [agree] in H. cbn [nodes]. now apply IH.
  - destruct a as [| | | | |xs|]; try discriminate. destruct b as [| | | | |ys|]; try discriminate.
    rewrite agree_slice in H. cbn [nodes].
    revert ys H. induction xs as [|x xs IHxs]; intros [|y ys] H; try discriminate; [reflexivity|].
    cbn [agree_list] in H. apply andb_prop in H as [Hx Hr]. cbn [flat_map].
    rewrite (IH x y Hx), (IHxs ys Hr). reflexivity.
Qed.

(* the tree of what comes back from JSON is the tree of what was written *)
Theorem view_roundtrip hid keep t cur v :
  wf t = true -> typed t cur = true -> typed t v = true ->
  covers hid keep (problems t cur) = true ->
  safe_sel (sel_of keep) t cur v = true ->
  view (sel_of hid) t (dec t cur (enc t v)) = view (sel_of hid) t v.
Proof.
  intros Hwf Hc Hv Hcov Hs. unfold view.
  rewrite (nodes_agree (sel_of hid) t _ _ (surv_agree_lists hid keep t cur v Hwf Hc Hv Hcov Hs)).
  reflexivity.
Qed.

(* ------------------------------------------------------------ C. a record line depends on the fields its layout reads *)

Definition layout_reads (L : layout) : list string := flat_map seg_reads (l_segs L).

Lemma render_seg_reads s r1 r2 :
  (forall g, In g (seg_reads s) -> LayoutTypes.lookup r1 g = LayoutTypes.lookup r2 g) -> render_seg r1 s = render_seg r2 s.
Proof.
  intros H. destruct s as [bs|f w|f w|f w|f|f|n h|src]; try reflexivity;
    try (apply (render_seg_lookup _ f); [reflexivity | apply H; cbn; auto]).
  cbn [render_seg]. rewrite (render_custom_reads n r1 r2); [reflexivity|]. exact H.
Qed.

Theorem render_reads L r1 r2 :
  (forall g, In g (layout_reads L) -> LayoutTypes.lookup r1 g = LayoutTypes.lookup r2 g) -> render L r1 = render L r2.
Proof.
  intros H. unfold render. f_equal. apply map_ext_in. intros s Hs. apply render_seg_reads.
  intros g Hg. apply H. unfold layout_reads. apply in_flat_map. exists s. split; assumption.
Qed.

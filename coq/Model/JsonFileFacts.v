(* C07 (phase 2) — facts about the file-tree model (JsonFile.v):
   A. access lemmas for trees;
   B. [nodes_agree] / [view_roundtrip]: what the struct codec loses is not part of the tree
      (for ANY type tree whose problem list is covered by hidden + kept fields);
   C. [render_reads]: a record line depends only on the fields its layout reads. *)
From Coq Require Import String Ascii List Bool ZArith NArith Lia.
Import ListNotations.
From ACH Require Import Bytes JsonCodec JsonCodecFacts JsonSurvive JsonPostTable Layout LayoutOk LayoutFacts CustomFacts FileStruct JsonFile.
Local Open Scope string_scope.
Local Open Scope list_scope.

(* ------------------------------------------------------------ A. access *)

Lemma lookup_rset r f v g :
  LayoutTypes.lookup (rset r f v) g = if String.eqb g f then Some v else LayoutTypes.lookup r g.
Proof.
  induction r as [|[h w] r IH]; cbn.
  - destruct (String.eqb g f); reflexivity.
  - destruct (String.eqb f h) eqn:Efh.
    + apply String.eqb_eq in Efh. subst h. cbn. destruct (String.eqb g f); reflexivity.
    + cbn. destruct (String.eqb g h) eqn:Egh.
      * apply String.eqb_eq in Egh. subst h. rewrite String.eqb_sym, Efh. reflexivity.
      * exact IH.
Qed.

Lemma rset_same r f v : LayoutTypes.lookup r f = Some v -> rset r f v = r.
Proof.
  induction r as [|[h w] r IH]; cbn; [discriminate|].
  destruct (String.eqb f h) eqn:E.
  - intros H. injection H as ->. reflexivity.
  - intros H. f_equal. now apply IH.
Qed.

Lemma geti_rset r f z g : geti (rset r f (VI z)) g = if String.eqb g f then z else geti r g.
Proof. unfold geti. rewrite lookup_rset. destruct (String.eqb g f); reflexivity. Qed.

Lemma gets_rset_s r f s g : gets (rset r f (VS s)) g = if String.eqb g f then s else gets r g.
Proof. unfold gets. rewrite lookup_rset. destruct (String.eqb g f); reflexivity. Qed.

Lemma gets_rset_i r f z g : String.eqb g f = false -> gets (rset r f (VI z)) g = gets r g.
Proof. intros H. unfold gets. rewrite lookup_rset, H. reflexivity. Qed.

Lemma geti_rset_s r f s g : String.eqb g f = false -> geti (rset r f (VS s)) g = geti r g.
Proof. intros H. unfold geti. rewrite lookup_rset, H. reflexivity. Qed.

Lemma kget_kset ks k ns k' : kget (kset ks k ns) k' = if String.eqb k' k then ns else kget ks k'.
Proof.
  induction ks as [|[g old] ks IH]; cbn.
  - destruct (String.eqb k' k); reflexivity.
  - destruct (String.eqb k g) eqn:Ekg.
    + apply String.eqb_eq in Ekg. subst g. cbn. destruct (String.eqb k' k); reflexivity.
    + cbn. destruct (String.eqb k' g) eqn:Ek'g.
      * apply String.eqb_eq in Ek'g. subst g. rewrite String.eqb_sym, Ekg. reflexivity.
      * exact IH.
Qed.

Lemma kget_kmap ks k f k' : kget (kmap ks k f) k' = if String.eqb k' k then map f (kget ks k) else kget ks k'.
Proof.
  induction ks as [|[g ns] ks IH]; cbn.
  - destruct (String.eqb k' k); reflexivity.
  - destruct (String.eqb k g) eqn:Ekg.
    + apply String.eqb_eq in Ekg. subst g. cbn. destruct (String.eqb k' k); reflexivity.
    + cbn. destruct (String.eqb k' g) eqn:Ek'g.
      * apply String.eqb_eq in Ek'g. subst g. rewrite String.eqb_sym, Ekg. reflexivity.
      * exact IH.
Qed.

Lemma kmap_id ks k f : (forall n, In n (kget ks k) -> f n = n) -> kmap ks k f = ks.
Proof.
  induction ks as [|[g ns] ks IH]; cbn; [reflexivity|].
  destruct (String.eqb k g) eqn:E; intros H.
  - f_equal. f_equal. rewrite <- (map_id ns) at 2. apply map_ext_in. exact H.
  - f_equal. now apply IH.
Qed.

Lemma rt_eta r : RT (rname r) (rscal r) (rkids r) = r.
Proof. destruct r; reflexivity. Qed.

Lemma map_kid_id r k f : (forall n, In n (kid r k) -> f n = n) -> map_kid r k f = r.
Proof. intros H. unfold map_kid. rewrite kmap_id by exact H. apply rt_eta. Qed.

Lemma kid_set_kid r k ns k' : kid (set_kid r k ns) k' = if String.eqb k' k then ns else kid r k'.
Proof. unfold kid, set_kid. cbn. apply kget_kset. Qed.

Lemma kid_map_kid r k f k' : kid (map_kid r k f) k' = if String.eqb k' k then map f (kid r k) else kid r k'.
Proof. unfold kid, map_kid. cbn. apply kget_kmap. Qed.

Lemma kid_sset r f s k : kid (sset r f s) k = kid r k.
Proof. reflexivity. Qed.
Lemma kid_iset r f z k : kid (iset r f z) k = kid r k.
Proof. reflexivity. Qed.

Lemma string_eqb_refl' k : String.eqb k k = true.
Proof. apply String.eqb_refl. Qed.

Lemma kid_set_kid_eq r k ns : kid (set_kid r k ns) k = ns.
Proof. rewrite kid_set_kid, String.eqb_refl. reflexivity. Qed.
Lemma kid_set_kid_ne r k ns k' : String.eqb k' k = false -> kid (set_kid r k ns) k' = kid r k'.
Proof. intros H. rewrite kid_set_kid, H. reflexivity. Qed.
Lemma kid_map_kid_eq r k f : kid (map_kid r k f) k = map f (kid r k).
Proof. rewrite kid_map_kid, String.eqb_refl. reflexivity. Qed.
Lemma kid_map_kid_ne r k f k' : String.eqb k' k = false -> kid (map_kid r k f) k' = kid r k'.
Proof. intros H. rewrite kid_map_kid, H. reflexivity. Qed.

(* compute [kid (...) "Name"] through set_kid / map_kid / sset / iset with literal names *)
Ltac kids :=
  repeat first [ rewrite kid_set_kid_eq | rewrite kid_set_kid_ne by (vm_compute; reflexivity)
               | rewrite kid_map_kid_eq | rewrite kid_map_kid_ne by (vm_compute; reflexivity)
               | rewrite kid_sset | rewrite kid_iset ].

Lemma sget_set_kid r k ns f : sget (set_kid r k ns) f = sget r f.
Proof. reflexivity. Qed.
Lemma iget_set_kid r k ns f : iget (set_kid r k ns) f = iget r f.
Proof. reflexivity. Qed.
Lemma sget_map_kid r k g f : sget (map_kid r k g) f = sget r f.
Proof. reflexivity. Qed.
Lemma iget_map_kid r k g f : iget (map_kid r k g) f = iget r f.
Proof. reflexivity. Qed.

Lemma sget_sset r f s g : sget (sset r f s) g = if String.eqb g f then s else sget r g.
Proof. unfold sget, sset. cbn. apply gets_rset_s. Qed.
Lemma iget_iset r f z g : iget (iset r f z) g = if String.eqb g f then z else iget r g.
Proof. unfold iget, iset. cbn. apply geti_rset. Qed.
Lemma sget_iset r f z g : String.eqb g f = false -> sget (iset r f z) g = sget r g.
Proof. unfold sget, iset. cbn. apply gets_rset_i. Qed.
Lemma iget_sset r f s g : String.eqb g f = false -> iget (sset r f s) g = iget r g.
Proof. unfold iget, sset. cbn. apply geti_rset_s. Qed.

Lemma sset_same r f s : has_str f s r = true -> sset r f s = r.
Proof.
  unfold has_str, sset. destruct (LayoutTypes.lookup (rscal r) f) as [[t|y]|] eqn:E; try discriminate.
  intros H. apply bytes_eqb_eq in H. subst t. rewrite (rset_same _ _ _ E). apply rt_eta.
Qed.

Lemma iset_same r f z : has_int f z r = true -> iset r f z = r.
Proof.
  unfold has_int, iset. destruct (LayoutTypes.lookup (rscal r) f) as [[t|y]|] eqn:E; try discriminate.
  intros H. apply Z.eqb_eq in H. subst y. rewrite (rset_same _ _ _ E). apply rt_eta.
Qed.

(* ------------------------------------------------------------ B. the tree does not see what the codec loses *)

Definition nodes_law (hid : hidp) (t : ty) : Prop :=
  forall a b, agree hid t a b = true -> nodes hid t a = nodes hid t b.

Fixpoint scal_fields (hid : hidp) (n : string) (fs : list (fmeta * ty)) (vs : list val) : recval :=
  match fs, vs with
  | (m, ft) :: fs', x :: vs' =>
      (if hid n (f_name m) then []
       else match scalar_of ft x with Some s => [(f_name m, s)] | None => [] end) ++ scal_fields hid n fs' vs'
  | _, _ => []
  end.

Fixpoint kid_fields (hid : hidp) (n : string) (fs : list (fmeta * ty)) (vs : list val) : list (string * list rtree) :=
  match fs, vs with
  | (m, ft) :: fs', x :: vs' =>
      (if hid n (f_name m) || negb (is_node_ty ft) then [] else [(f_name m, nodes hid ft x)]) ++ kid_fields hid n fs' vs'
  | _, _ => []
  end.

Lemma nodes_struct hid n fs vs :
  nodes hid (TStruct n fs) (VRec vs) = [RT n (scal_fields hid n fs vs) (kid_fields hid n fs vs)].
Proof.
  cbn [nodes]. f_equal. f_equal.
  - revert vs; induction fs as [|[m ft] fs IH]; intros [|x vs]; try reflexivity.
    cbn [scal_fields]. rewrite <- IH. reflexivity.
  - revert vs; induction fs as [|[m ft] fs IH]; intros [|x vs]; try reflexivity.
    cbn [kid_fields]. rewrite <- IH. reflexivity.
Qed.

Lemma scalar_agree hid ft x y : agree hid ft x y = true -> scalar_of ft x = scalar_of ft y.
Proof.
  destruct ft; cbn [agree]; intros H; try (apply val_eqb_eq in H; subst; reflexivity).
  - destruct x, y; reflexivity.
  - destruct x, y; reflexivity.
  - destruct x, y; reflexivity.
  - destruct x, y; reflexivity.
Qed.

Theorem nodes_agree hid t : nodes_law hid t.
Proof.
  induction t as [| | | |n fs IH|t IH|t IH] using ty_ind'; intros a b H; try reflexivity.
  - destruct a as [| | | |xs| |]; try discriminate. destruct b as [| | | |ys| |]; try discriminate.
    rewrite agree_struct in H. rewrite !nodes_struct. f_equal.
    revert xs ys H. induction IH as [|[m ft] fs Hft _ IHfs]; intros [|x xs] [|y ys] H; try discriminate; [reflexivity|].
    cbn [agree_fields] in H. apply andb_prop in H as [Hx Hr]. specialize (IHfs xs ys Hr).
    injection IHfs as E1 E2. cbn [scal_fields kid_fields]. rewrite E1, E2. cbn [snd] in Hft.
    destruct (hid n (f_name m)); [reflexivity|].
    rewrite (scalar_agree hid ft x y Hx). cbn [orb].
    destruct (is_node_ty ft); cbn [negb]; [|reflexivity].
    rewrite (Hft x y Hx). reflexivity.
  - destruct a as [| | | |xs| |]; destruct b as [| | | |ys| |]; try discriminate; try reflexivity.
    cbn [agree] in H. cbn [nodes]. now apply IH.
  - destruct a as [| | | | |xs|]; try discriminate. destruct b as [| | | | |ys|]; try discriminate.
    rewrite agree_slice in H. cbn [nodes].
    revert ys H. induction xs as [|x xs IHxs]; intros [|y ys] H; try discriminate; [reflexivity|].
    cbn [agree_list] in H. apply andb_prop in H as [Hx Hr]. cbn [flat_map].
    rewrite (IH x y Hx), (IHxs ys Hr). reflexivity.
Qed.

(* the tree of what comes back from JSON is the tree of what was written *)
Theorem view_roundtrip hid keep t cur v :
  wf t = true -> typed t cur = true -> typed t v = true ->
  covers hid keep (problems t cur) = true ->
  safe_sel (sel_of keep) t cur v = true ->
  view (sel_of hid) t (dec t cur (enc t v)) = view (sel_of hid) t v.
Proof.
  intros Hwf Hc Hv Hcov Hs. unfold view.
  rewrite (nodes_agree (sel_of hid) t _ _ (surv_agree_lists hid keep t cur v Hwf Hc Hv Hcov Hs)).
  reflexivity.
Qed.

(* ------------------------------------------------------------ C. a record line depends on the fields its layout reads *)

Definition layout_reads (L : layout) : list string := flat_map seg_reads (l_segs L).

Lemma render_seg_reads s r1 r2 :
  (forall g, In g (seg_reads s) -> LayoutTypes.lookup r1 g = LayoutTypes.lookup r2 g) -> render_seg r1 s = render_seg r2 s.
Proof.
  intros H. destruct s as [bs|f w|f w|f w|f|f|n h|src]; try reflexivity;
    try (apply (render_seg_lookup _ f); [reflexivity | apply H; cbn; auto]).
  cbn [render_seg]. rewrite (render_custom_reads n r1 r2); [reflexivity|]. exact H.
Qed.

Theorem render_reads L r1 r2 :
  (forall g, In g (layout_reads L) -> LayoutTypes.lookup r1 g = LayoutTypes.lookup r2 g) -> render L r1 = render L r2.
Proof.
  intros H. unfold render. f_equal. apply map_ext_in. intros s Hs. apply render_seg_reads.
  intros g Hg. apply H. unfold layout_reads. apply in_flat_map. exists s. split; assumption.
Qed.

(* ------------------------------------------------------------ D. tree equality test *)

Section rtree_induction.
  Variable P : rtree -> Prop.
  Hypothesis H : forall n s k, Forall (fun p => Forall P (snd p)) k -> P (RT n s k).

  Fixpoint rtree_ind' (r : rtree) : P r :=
    match r with
    | RT n s k =>
        H n s k ((fix go (k : list (string * list rtree)) : Forall (fun p => Forall P (snd p)) k :=
                    match k with
                    | [] => Forall_nil _
                    | (g, ns) :: k' =>
                        Forall_cons (g, ns)
                          ((fix go2 (ns : list rtree) : Forall P ns :=
                              match ns with [] => Forall_nil _ | x :: xs => Forall_cons x (rtree_ind' x) (go2 xs) end) ns)
                          (go k')
                    end) k)
    end.
End rtree_induction.

Lemma value_eqb_eq a b : value_eqb a b = true -> a = b.
Proof.
  destruct a, b; cbn; try discriminate; intros H.
  - apply bytes_eqb_eq in H. now subst.
  - apply Z.eqb_eq in H. now subst.
Qed.

Lemma recval_eqb_eq a : forall b, recval_eqb a b = true -> a = b.
Proof.
  induction a as [|[f v] a IH]; intros [|[g w] b]; cbn; try discriminate; [reflexivity|].
  intros H. apply andb_prop in H as [H H3]. apply andb_prop in H as [H1 H2].
  apply String.eqb_eq in H1. apply value_eqb_eq in H2. subst. f_equal. now apply IH.
Qed.

Fixpoint nodes_eqb (ns ns' : list rtree) : bool :=
  match ns, ns' with
  | [], [] => true
  | x :: xs, y :: ys => rtree_eqb x y && nodes_eqb xs ys
  | _, _ => false
  end.

Fixpoint kids_eqb (k k' : list (string * list rtree)) : bool :=
  match k, k' with
  | [], [] => true
  | (g, ns) :: r, (g', ns') :: r' => String.eqb g g' && nodes_eqb ns ns' && kids_eqb r r'
  | _, _ => false
  end.

Lemma rtree_eqb_unfold n s k n' s' k' :
  rtree_eqb (RT n s k) (RT n' s' k') = String.eqb n n' && recval_eqb s s' && kids_eqb k k'.
Proof. reflexivity. Qed.

Theorem rtree_eqb_eq a : forall b, rtree_eqb a b = true -> a = b.
Proof.
  induction a as [n s k IH] using rtree_ind'. intros [n' s' k'] H.
  rewrite rtree_eqb_unfold in H. apply andb_prop in H as [H H3]. apply andb_prop in H as [H1 H2].
  apply String.eqb_eq in H1. apply recval_eqb_eq in H2. subst. f_equal.
  revert k' H3. induction IH as [|[g ns] k Hns _ IHk]; intros [|[g' ns'] k'] H; cbn in H; try discriminate; [reflexivity|].
  apply andb_prop in H as [H H3]. apply andb_prop in H as [H1 H2]. apply String.eqb_eq in H1. subst g'.
  rewrite (IHk k' H3). f_equal. f_equal. cbn [snd] in Hns.
  clear -Hns H2. revert ns' H2. induction Hns as [|x xs Hx _ IHxs]; intros [|y ys] H; cbn in H; try discriminate; [reflexivity|].
  apply andb_prop in H as [H1 H2]. rewrite (Hx y H1), (IHxs ys H2). reflexivity.
Qed.

(* ------------------------------------------------------------ E. timestamps shorter than any RFC 3339 form are left alone *)

Lemma time_tail_short y m d h yb mb db s : (length s <= 6)%nat -> time_tail y m d h yb mb db s = None.
Proof.
  intros Hl. unfold time_tail.
  do 6 (destruct s as [|? s]; [reflexivity|]).
  destruct s as [|? s]; [|cbn in Hl; lia].
  destruct (negb _); [reflexivity|].
  destruct (two_digits _ _); [|reflexivity]. destruct (two_digits _ _); reflexivity.
Qed.

Theorem datetime_parse_short s : (length s <= 18)%nat -> datetime_parse s = None.
Proof.
  intros Hl. unfold datetime_parse.
  do 12 (destruct s as [|? s]; [reflexivity|]).
  destruct (negb _); [reflexivity|].
  destruct (two_digits _ _); [|reflexivity]. destruct (two_digits _ _); [|reflexivity].
  destruct (two_digits _ _); [|reflexivity]. destruct (two_digits _ _); [|reflexivity].
  destruct (dig _); [|reflexivity].
  destruct s as [|h2 s]; [reflexivity|].
  cbn [length] in Hl.
  destruct (dig h2); apply time_tail_short; cbn [length]; lia.
Qed.

Lemma trim_prefix_length p s : (length (trim_prefix p s) <= length s)%nat.
Proof. unfold trim_prefix. destruct (is_prefix p s); [rewrite skipn_length; lia | lia]. Qed.

Lemma short_spec s : short s = true -> (length s <= 18)%nat.
Proof. unfold short. intros H. now apply Nat.leb_le. Qed.

Lemma norm_date_short h f : short (sget h f) = true -> norm_date h f = h.
Proof. intros H. unfold norm_date. rewrite datetime_parse_short by (now apply short_spec). reflexivity. Qed.

Lemma norm_time_short h f : short (sget h f) = true -> norm_time h f = h.
Proof. intros H. unfold norm_time. rewrite datetime_parse_short by (now apply short_spec). reflexivity. Qed.

Lemma norm_descriptive_short h : short (sget h "CompanyDescriptiveDate") = true -> norm_descriptive h = h.
Proof.
  intros H. unfold norm_descriptive. rewrite datetime_parse_short; [reflexivity|].
  apply short_spec in H. pose proof (trim_prefix_length SD (sget h "CompanyDescriptiveDate")). lia.
Qed.

(* ------------------------------------------------------------ F. the inference steps on records that already carry what is inferred *)

Lemma fold_left_id {A B} (f : A -> B -> A) (l : list B) (a : A) :
  (forall x, In x l -> f a x = a) -> fold_left f l a = a.
Proof.
  induction l as [|x l IH]; intros H; [reflexivity|]. cbn.
  rewrite (H x (or_introl eq_refl)). apply IH. intros y Hy. apply H. now right.
Qed.

Lemma set_type_codes_id codes e :
  forallb (fun fc => forallb (has_str "TypeCode" (bstr (snd fc))) (kid e (fst fc))) codes = true ->
  set_type_codes codes e = e.
Proof.
  intros H. unfold set_type_codes. apply fold_left_id. intros [f c] Hin.
  rewrite forallb_forall in H. specialize (H _ Hin). cbn [fst snd] in *.
  apply map_kid_id. intros a Ha. rewrite forallb_forall in H. apply sset_same. now apply H.
Qed.

Lemma catx_pack_id e :
  (let ind := iget e "AddendaRecordIndicator" in
   let fld := atoi (catx_field (sget e "IndividualName")) in
   negb (fld =? 0)%Z && negb ((ind =? 0)%Z && (0 <? fld)%Z)) = true ->
  catx_pack e = e.
Proof.
  cbv zeta. intros H. apply andb_prop in H as [H1 H2]. apply negb_true_iff in H1, H2.
  unfold catx_pack. rewrite H1. rewrite andb_false_r. rewrite H2. reflexivity.
Qed.

Lemma set_adv_category_id T e :
  forallb (fun gc => match kid e (fst gc) with [] => has_str "Category" (bstr (snd gc)) e | _ => true end) (pt_adv_category T) = true ->
  set_adv_category T e = e.
Proof.
  intros H. unfold set_adv_category. apply fold_left_id. intros [g c] Hin.
  rewrite forallb_forall in H. specialize (H _ Hin). cbn [fst snd] in *.
  destruct (kid e g); [now apply sset_same | reflexivity].
Qed.

Lemma map_out_good {A B} (f : A -> outcome B) (g : A -> B) l :
  (forall x, In x l -> f x = Good (g x)) -> map_out f l = Good (map g l).
Proof.
  induction l as [|x l IH]; intros H; [reflexivity|]. cbn.
  rewrite (H x (or_introl eq_refl)). cbn. rewrite IH by (intros y Hy; apply H; now right). reflexivity.
Qed.

Lemma filter_all {A} (p : A -> bool) l : forallb p l = true -> filter p l = l.
Proof.
  induction l as [|x l IH]; [reflexivity|]. cbn. intros H. apply andb_prop in H as [H1 H2].
  rewrite H1. f_equal. now apply IH.
Qed.

(* ------------------------------------------------------------ G. one batch *)

Ltac str_neq := vm_compute; reflexivity.

Lemma kid_decor o b k : String.eqb k "validateOpts" = false -> kid (decor o b) k = kid b k.
Proof. intros H. unfold decor. rewrite kid_set_kid, H. apply kid_sset. Qed.

Lemma kid_decor_iat o b k : String.eqb k "validateOpts" = false -> kid (decor_iat o b) k = kid b k.
Proof. intros H. unfold decor_iat. rewrite kid_set_kid, H. apply kid_sset. Qed.

Lemma header_of_decor o b : header_of (decor o b) = header_of b.
Proof. unfold header_of. rewrite kid_decor by str_neq. reflexivity. Qed.

Lemma header_of_decor_iat o b : header_of (decor_iat o b) = header_of b.
Proof. unfold header_of. rewrite kid_decor_iat by str_neq. reflexivity. Qed.

Section PostFacts.
  Variable E : penv.

  Definition out_batch (o : list rtree) (b : rtree) : rtree := sset (decor o b) "@type" (type_name E (header_of b)).

  Lemma post_batch_ready o b :
    batch_prepared E b = true -> batch_built E o b = true -> post_batch E o b = Good (out_batch o b).
  Proof.
    intros Hp Hb. unfold batch_prepared in Hp. apply andb_prop in Hp as [Hpe Hpa].
    unfold post_batch. cbv zeta.
    change (set_kid (sset b "id" (sget (header_of b) "ID")) "validateOpts" o) with (decor o b).
    rewrite (map_kid_id (decor o b) "Entries").
    2:{ intros e He. rewrite kid_decor in He by str_neq.
        rewrite forallb_forall in Hpe. specialize (Hpe e He). apply andb_prop in Hpe as [H1 H2].
        rewrite set_type_codes_id by exact H1.
        destruct (existsb (sec_is (header_of b)) (pt_catx (pe_table E))); [|reflexivity].
        apply catx_pack_id. exact H2. }
    rewrite (map_kid_id (decor o b) "ADVEntries").
    2:{ intros e He. rewrite kid_decor in He by str_neq.
        rewrite forallb_forall in Hpa. apply set_adv_category_id. exact (Hpa e He). }
    unfold batch_built in Hb. destruct (build_batch E o (decor o b)) as [b'|st]; [|discriminate].
    apply rtree_eqb_eq in Hb. subst b'. reflexivity.
  Qed.

  Lemma post_iat_ready o b :
    iat_prepared E b = true -> iat_built E o b = true -> post_iat E o b = Good (decor_iat o b).
  Proof.
    intros Hp Hb. unfold iat_prepared in Hp. unfold post_iat. cbv zeta.
    change (set_kid (sset b "ID" (sget (header_of b) "ID")) "validateOpts" o) with (decor_iat o b).
    rewrite (map_kid_id (decor_iat o b) "Entries").
    2:{ intros e He. rewrite kid_decor_iat in He by str_neq.
        rewrite forallb_forall in Hp. apply set_type_codes_id. exact (Hp e He). }
    unfold iat_built in Hb. destruct (build_iat E o (decor_iat o b)) as [b'|st]; [|discriminate].
    apply rtree_eqb_eq in Hb. subst b'. reflexivity.
  Qed.

  Lemma kid_out_batch o b k : String.eqb k "validateOpts" = false -> kid (out_batch o b) k = kid b k.
  Proof. intros H. unfold out_batch. rewrite kid_sset. now apply kid_decor. Qed.

  Lemma header_of_out_batch o b : header_of (out_batch o b) = header_of b.
  Proof. unfold header_of. rewrite kid_out_batch by str_neq. reflexivity. Qed.

  Lemma ctl_of_out_batch o b : ctl_of "Control" (out_batch o b) = ctl_of "Control" b.
  Proof. unfold ctl_of. rewrite kid_out_batch by str_neq. reflexivity. Qed.

  Lemma ctl_of_decor_iat o b : ctl_of "Control" (decor_iat o b) = ctl_of "Control" b.
  Proof. unfold ctl_of. rewrite kid_decor_iat by str_neq. reflexivity. Qed.
End PostFacts.

Section WriteFacts.
  Variable layouts : list layout.
  Variable E : penv.

  Lemma batch_lines_out adv o b : batch_lines layouts adv (out_batch E o b) = batch_lines layouts adv b.
  Proof.
    unfold batch_lines, kid_lines, hdr_is_adv.
    rewrite !(kid_out_batch E o b) by str_neq. reflexivity.
  Qed.

  Lemma iat_lines_decor o b : iat_batch_lines layouts (decor_iat o b) = iat_batch_lines layouts b.
  Proof. unfold iat_batch_lines, kid_lines. rewrite !(kid_decor_iat o b) by str_neq. reflexivity. Qed.

  Lemma hdr_is_adv_out o b : hdr_is_adv (out_batch E o b) = hdr_is_adv b.
  Proof. unfold hdr_is_adv. rewrite (kid_out_batch E o b) by str_neq. reflexivity. Qed.
End WriteFacts.

(* ------------------------------------------------------------ H. sums and numbering over decorated batches *)

Lemma fold_add {A} (h : A -> Z) l a0 :
  fold_left (fun a b => (a + h b)%Z) l a0 = (a0 + fold_left (fun a b => (a + h b)%Z) l 0%Z)%Z.
Proof.
  revert a0. induction l as [|x l IH]; intros a0; cbn [fold_left]; [lia|].
  rewrite (IH (a0 + h x)%Z), (IH (0 + h x)%Z). lia.
Qed.

Lemma bsum_app ctl f a b : bsum ctl f (a ++ b) = (bsum ctl f a + bsum ctl f b)%Z.
Proof. unfold bsum. rewrite fold_left_app. rewrite fold_add. reflexivity. Qed.

Lemma bsum_map ctl f g l : (forall b, ctl_of ctl (g b) = ctl_of ctl b) -> bsum ctl f (map g l) = bsum ctl f l.
Proof.
  intros H. unfold bsum. generalize 0%Z. induction l as [|x l IH]; intros a0; [reflexivity|].
  cbn [map fold_left]. rewrite H. apply IH.
Qed.

Lemma renumber1_id ctl seq b :
  String.eqb ctl "Header" = false ->
  ((1 <? iget (header_of b) "BatchNumber")%Z
   || (forallb (has_int "BatchNumber" seq) (kid b "Header") && forallb (has_int "BatchNumber" seq) (kid b ctl))) = true ->
  renumber1 ctl seq b = b.
Proof.
  intros Hc H. unfold renumber1. destruct (iget (header_of b) "BatchNumber" <=? 1)%Z eqn:Ele; [|reflexivity].
  apply orb_prop in H as [H|H]; [apply Z.ltb_lt in H; apply Z.leb_le in Ele; lia|].
  apply andb_prop in H as [H1 H2]. rewrite forallb_forall in H1, H2.
  rewrite (map_kid_id b "Header") by (intros h Hh; apply iset_same; now apply H1).
  apply map_kid_id. intros c Hc'. apply iset_same. now apply H2.
Qed.

Lemma renumber_id ctl seq bs :
  String.eqb ctl "Header" = false -> numbered ctl seq bs = true -> renumber ctl seq bs = bs.
Proof.
  intros Hc. revert seq. induction bs as [|b bs IH]; intros seq H; [reflexivity|].
  cbn [numbered] in H. apply andb_prop in H as [H1 H2]. cbn [renumber].
  rewrite renumber1_id by assumption. f_equal. now apply IH.
Qed.

Lemma numbered_map ctl g seq bs :
  (forall b, header_of (g b) = header_of b) -> (forall b, kid (g b) "Header" = kid b "Header") ->
  (forall b, kid (g b) ctl = kid b ctl) ->
  numbered ctl seq (map g bs) = numbered ctl seq bs.
Proof.
  intros H1 H2 H3. revert seq. induction bs as [|b bs IH]; intros seq; [reflexivity|].
  cbn [map numbered]. rewrite H1, H2, H3, IH. reflexivity.
Qed.

Lemma isadv_fill_id E bs : forallb has_control bs = true -> isadv_fill E bs = bs.
Proof.
  induction bs as [|b bs IH]; [reflexivity|]. cbn [forallb isadv_fill]. intros H. apply andb_prop in H as [H1 H2].
  unfold has_control in H1. destruct (kid b "Control") eqn:Ek; [discriminate|].
  destruct (sec_is (header_of b) "ADV"); [reflexivity|]. f_equal. now apply IH.
Qed.

Lemma hdr_is_adv_spec b : hdr_is_adv b = sec_is (header_of b) "ADV".
Proof. unfold hdr_is_adv, header_of. destruct (kid b "Header"); reflexivity. Qed.

Lemma existsb_map {A B} (p : B -> bool) (g : A -> B) l : existsb p (map g l) = existsb (fun x => p (g x)) l.
Proof. induction l as [|x l IH]; [reflexivity|]. cbn. now rewrite IH. Qed.

Lemma existsb_ext' {A} (p q : A -> bool) l : (forall x, p x = q x) -> existsb p l = existsb q l.
Proof. intros H. induction l as [|x l IH]; [reflexivity|]. cbn. now rewrite H, IH. Qed.

Lemma flat_map_map {A B C} (f : B -> list C) (g : A -> B) l : flat_map f (map g l) = flat_map (fun x => f (g x)) l.
Proof. induction l as [|x l IH]; [reflexivity|]. cbn. now rewrite IH. Qed.

Lemma map_id_in {A} (f : A -> A) l : (forall x, In x l -> f x = x) -> map f l = l.
Proof. intros H. rewrite <- (map_id l) at 2. now apply map_ext_in. Qed.

(* ------------------------------------------------------------ I. the whole post-processing on a tabulated file *)

Definition fc_fields : list string :=
  [ "BatchCount"; "BlockCount"; "EntryAddendaCount"; "EntryHash";
    "TotalDebitEntryDollarAmountInFile"; "TotalCreditEntryDollarAmountInFile" ].

(* the file control line is made of the six computed fields only *)
Definition fc_layout_ok (layouts : list layout) (E : penv) : bool :=
  match layout_named layouts (rname (pe_new_file_control E)) with
  | Some L => forallb (fun f => str_in f fc_fields) (layout_reads L)
  | None => true
  end.

Definition pres_tree (p : pres) : option rtree :=
  match p with POk f | PInvalid f => Some f | PErr _ => None end.

Section Roundtrip.
  Variable layouts : list layout.
  Variable E : penv.

  Lemma node_line_set_kid r k ns : node_line layouts (set_kid r k ns) = node_line layouts r.
  Proof. reflexivity. Qed.

  Lemma lookup_has_int f z r : has_int f z r = true -> LayoutTypes.lookup (rscal r) f = Some (VI z).
  Proof.
    unfold has_int. destruct (LayoutTypes.lookup (rscal r) f) as [[t|y]|]; try discriminate.
    intros H. apply Z.eqb_eq in H. now subst.
  Qed.

  Theorem post_ready passed d :
    fc_layout_ok layouts E = true ->
    ready E passed d = true ->
    exists f5, pres_tree (post E passed d) = Some f5
               /\ (pe_file_valid E f5 = true -> post E passed d = POk f5)
               /\ lines layouts f5 = lines layouts d.
  Proof.
    intros Hfc Hr. unfold ready in Hr. cbv zeta in Hr.
    set (o := final_opts (pe_merge_fields E) passed (kid d "validateOpts")) in *.
    repeat (apply andb_prop in Hr as [Hr ?]).
    rename H into Hgate, H0 into Hfcm, H1 into Hnum2, H2 into Hnum1, H3 into Hdates, H4 into Hctl,
           H5 into Hib, H6 into Hbb, H7 into Hip, H8 into Hbp, H9 into Hih, H10 into Hbh, H11 into Hhdr.
    apply negb_true_iff in Hr. rename Hr into Hnadv.
    destruct (kid d "Header") as [|h [|? ?]] eqn:EH; try discriminate. clear Hhdr.
    set (bs := kid d "Batches") in *. set (ibs := kid d "IATBatches") in *.
    set (bs' := map (out_batch E o) bs). set (ibs' := map (decor_iat o) ibs).
    unfold post. cbv zeta. fold o.
    set (f1 := map_kid (set_kid d "validateOpts" o) "Header" (fun h0 => set_kid h0 "validateOpts" o)).
    assert (K1b : kid f1 "Batches" = bs) by (unfold f1; kids; reflexivity).
    assert (K1i : kid f1 "IATBatches" = ibs) by (unfold f1; kids; reflexivity).
    assert (K1h : kid f1 "Header" = [set_kid h "validateOpts" o]).
    { unfold f1. kids. rewrite EH. reflexivity. }
    rewrite K1b, K1i. rewrite (filter_all _ bs Hbh), (filter_all _ ibs Hih).
    rewrite (map_out_good (post_batch E o) (out_batch E o)).
    2:{ intros b Hb. rewrite forallb_forall in Hbp, Hbb. apply post_batch_ready; auto. }
    rewrite (map_out_good (post_iat E o) (decor_iat o)).
    2:{ intros b Hb. rewrite forallb_forall in Hip, Hib. apply post_iat_ready; auto. }
    fold bs' ibs'.
    set (f2 := set_kid (set_kid f1 "Batches" bs') "IATBatches" ibs').
    (* dates *)
    unfold dates_short in Hdates. apply andb_prop in Hdates as [Hdates Hd3]. apply andb_prop in Hdates as [Hd1 Hd2].
    rewrite EH in Hd1. cbn [forallb] in Hd1. rewrite andb_true_r in Hd1.
    unfold fields_short in Hd1. cbn [forallb] in Hd1. apply andb_prop in Hd1 as [Hd1a Hd1b]. apply andb_prop in Hd1b as [Hd1b _].
    set (f3a := overwrite_dates f2).
    assert (K3h : kid f3a "Header" = [set_kid h "validateOpts" o]).
    { unfold f3a, overwrite_dates, f2. kids. rewrite K1h. cbn [map].
      rewrite norm_date_short by exact Hd1a. rewrite norm_time_short by exact Hd1b. reflexivity. }
    assert (K3b : kid f3a "Batches" = bs').
    { unfold f3a, overwrite_dates, f2. kids.
      apply map_id_in. intros b' Hb'. unfold bs' in Hb'. apply in_map_iff in Hb' as [b [<- Hb]].
      apply map_kid_id. intros h0 Hh0. rewrite (kid_out_batch E o b) in Hh0 by str_neq.
      rewrite forallb_forall in Hd2. specialize (Hd2 b Hb). rewrite forallb_forall in Hd2. specialize (Hd2 h0 Hh0).
      unfold fields_short in Hd2. cbn [forallb] in Hd2. apply andb_prop in Hd2 as [Ha Hb2]. apply andb_prop in Hb2 as [Hb2 _].
      rewrite norm_descriptive_short by exact Ha. apply norm_date_short. exact Hb2. }
    assert (K3i : kid f3a "IATBatches" = ibs').
    { unfold f3a, overwrite_dates, f2. kids.
      apply map_id_in. intros b' Hb'. unfold ibs' in Hb'. apply in_map_iff in Hb' as [b [<- Hb]].
      apply map_kid_id. intros h0 Hh0. rewrite (kid_decor_iat o b) in Hh0 by str_neq.
      rewrite forallb_forall in Hd3. specialize (Hd3 b Hb). rewrite forallb_forall in Hd3. specialize (Hd3 h0 Hh0).
      unfold fields_short in Hd3. cbn [forallb] in Hd3. apply andb_prop in Hd3 as [Ha _].
      apply norm_date_short. exact Ha. }
    assert (K3id : sget f3a "ID" = sget d "ID") by reflexivity.
    assert (K3c : kid f3a "Control" = kid d "Control").
    { unfold f3a, overwrite_dates, f2, f1. kids. reflexivity. }
    (* IsADV *)
    rewrite K3b.
    assert (Hfill : isadv_fill E bs' = bs').
    { apply isadv_fill_id. unfold bs'. rewrite forallb_forall. intros b' Hb'. apply in_map_iff in Hb' as [b [<- Hb]].
      unfold has_control. rewrite (kid_out_batch E o b) by str_neq.
      rewrite forallb_forall in Hctl. exact (Hctl b Hb). }
    rewrite Hfill.
    set (f3 := set_kid f3a "Batches" bs').
    assert (Hadv3 : is_adv_file f3 = false).
    { unfold is_adv_file, f3. kids.
      unfold bs'. rewrite existsb_map. transitivity (is_adv_file d); [|exact Hnadv]. unfold is_adv_file. fold bs.
      apply existsb_ext'. intros b. rewrite header_of_out_batch. reflexivity. }
    rewrite Hadv3. cbn [negb].
    assert (K3b' : kid f3 "Batches" = bs') by (unfold f3; kids; reflexivity).
    rewrite K3b'.
    set (n := Z.of_nat (length bs')).
    set (f4 := set_kid (map_kid f3 "Control" (fun c => iset c "BatchCount" n)) "ADVControl" [pe_zero_adv_file_control E]).
    assert (K4h : kid f4 "Header" = [set_kid h "validateOpts" o]).
    { unfold f4, f3. kids. exact K3h. }
    assert (K4b : kid f4 "Batches" = bs').
    { unfold f4. kids. exact K3b'. }
    assert (K4i : kid f4 "IATBatches" = ibs').
    { unfold f4, f3. kids. exact K3i. }
    assert (Hadv4 : is_adv_file f4 = false).
    { unfold is_adv_file. rewrite K4b. unfold is_adv_file in Hadv3. rewrite K3b' in Hadv3. exact Hadv3. }
    (* Create *)
    assert (Hcreate : create E o f4 = (create_plain E f4, true)).
    { unfold create. unfold header_of at 1. rewrite K4h, K4b, K4i, Hadv4.
      unfold create_gate in Hgate. apply andb_prop in Hgate as [G1 G2]. apply negb_true_iff in G1, G2.
      unfold header_of in G1. rewrite EH in G1. rewrite G1.
      assert (G2' : (negb (flag o "SkipAll") && negb (flag o "AllowZeroBatches")
                     && match bs', ibs' with [], [] => true | _, _ => false end) = false).
      { fold bs ibs in G2. unfold bs', ibs'. destruct bs, ibs; exact G2. }
      rewrite G2'. reflexivity. }
    rewrite Hcreate.
    set (f5 := create_plain E f4).
    exists f5. split; [destruct (pe_file_valid E f5); reflexivity|].
    split; [intros Hv; rewrite Hv; reflexivity|].
    (* the kids of the created file *)
    assert (Hnb : renumber "Control" 1 bs' = bs').
    { apply renumber_id; [str_neq|]. unfold bs'. rewrite numbered_map; [exact Hnum1| | |].
      - intros b. apply header_of_out_batch.
      - intros b. apply kid_out_batch. str_neq.
      - intros b. apply kid_out_batch. str_neq. }
    assert (Hlen : length bs' = length bs) by (unfold bs'; apply map_length).
    assert (Hni : renumber "Control" (1 + Z.of_nat (length bs')) ibs' = ibs').
    { apply renumber_id; [str_neq|]. rewrite Hlen. unfold ibs'. rewrite numbered_map; [exact Hnum2| | |].
      - intros b. apply header_of_decor_iat.
      - intros b. apply kid_decor_iat. str_neq.
      - intros b. apply kid_decor_iat. str_neq. }
    assert (K5h : kid f5 "Header" = [set_kid h "validateOpts" o]).
    { unfold f5, create_plain. cbv zeta. kids. exact K4h. }
    assert (K5b : kid f5 "Batches" = bs').
    { unfold f5, create_plain. cbv zeta. kids. rewrite K4b. exact Hnb. }
    assert (K5i : kid f5 "IATBatches" = ibs').
    { unfold f5, create_plain. cbv zeta. kids. rewrite K4b, K4i, Hnb. exact Hni. }
    (* the control line *)
    unfold fc_matches in Hfcm. cbv zeta in Hfcm. fold bs ibs in Hfcm.
    destruct (kid d "Control") as [|c [|? ?]] eqn:EC; try discriminate.
    repeat (apply andb_prop in Hfcm as [Hfcm ?]).
    rename Hfcm into Cname, H into C6, H0 into C5, H1 into C4, H2 into C3, H3 into C2, H4 into C1.
    apply String.eqb_eq in Cname.
    assert (Sums : forall fld, bsum "Control" fld (bs' ++ ibs') = bsum "Control" fld (bs ++ ibs)).
    { intros fld. rewrite !bsum_app. unfold bs', ibs'.
      rewrite (bsum_map "Control" fld (out_batch E o)) by (intros b; apply ctl_of_out_batch).
      rewrite (bsum_map "Control" fld (decor_iat o)) by (intros b; apply ctl_of_decor_iat). reflexivity. }
    assert (Lens : length (bs' ++ ibs') = length (bs ++ ibs)).
    { rewrite !app_length. unfold bs', ibs'. rewrite !map_length. reflexivity. }
    assert (K5c : flat_map (node_line layouts) (kid f5 "Control") = node_line layouts c).
    { unfold f5, create_plain. cbv zeta. kids.
      rewrite K4b, K4i, Hnb, Hni. cbn [flat_map]. rewrite app_nil_r.
      rewrite !Sums, Lens.
      unfold node_line. cbn [rname iset sset]. rewrite Cname.
      unfold fc_layout_ok in Hfc.
      destruct (layout_named layouts (rname (pe_new_file_control E))) as [L|]; [|reflexivity].
      f_equal. apply render_reads. intros g Hg.
      rewrite forallb_forall in Hfc. specialize (Hfc g Hg). unfold str_in, fc_fields in Hfc.
      cbn [existsb] in Hfc. rewrite orb_false_r in Hfc.
      cbn [rscal iset sset]. rewrite !lookup_rset.
      repeat (apply orb_prop in Hfc as [Hfc|Hfc]); apply String.eqb_eq in Hfc; subst g;
        cbn [String.eqb Ascii.eqb Bool.eqb]; symmetry; apply lookup_has_int; assumption. }
    (* assemble *)
    unfold lines.
    assert (A5 : file_is_adv f5 = file_is_adv d).
    { unfold file_is_adv. rewrite K5b. fold bs. unfold bs'. rewrite existsb_map.
      apply existsb_ext'. intros b. apply hdr_is_adv_out. }
    assert (Ad : file_is_adv d = false).
    { unfold file_is_adv. fold bs. transitivity (is_adv_file d); [|exact Hnadv]. unfold is_adv_file. fold bs.
      apply existsb_ext'. intros b. apply hdr_is_adv_spec. }
    rewrite A5, Ad. cbn [negb].
    unfold kid_lines at 1 3. rewrite K5h, EH. cbn [flat_map]. rewrite node_line_set_kid.
    f_equal. rewrite K5b, K5i. fold bs ibs. unfold bs', ibs'. rewrite !flat_map_map.
    f_equal; [apply flat_map_ext; intros b; apply batch_lines_out|].
    f_equal; [apply flat_map_ext; intros b; apply iat_lines_decor|].
    unfold kid_lines. rewrite K5c, EC. cbn [flat_map]. rewrite app_nil_r. reflexivity.
  Qed.
End Roundtrip.

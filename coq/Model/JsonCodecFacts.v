(* C07 — facts about the struct <-> JSON codec model (JsonCodec.v), for ANY type tree:
   - codec_iff: a value survives encode-then-decode exactly when [safeb] holds;
   - tags_sound: if the table checker reports only excused fields, [safeb] follows from
     the local conditions of the excused fields alone. *)
From Coq Require Import String Ascii List Bool ZArith NArith Lia.
Import ListNotations.
From ACH Require Import Bytes JsonCodec.

(* ------------------------------------------------------------ induction principles *)

Section ty_induction.
  Variable P : ty -> Prop.
  Hypothesis HStr : P TStr.
  Hypothesis HInt : P TInt.
  Hypothesis HBool : P TBool.
  Hypothesis HOther : P TOther.
  Hypothesis HStruct : forall n fs, Forall (fun mf => P (snd mf)) fs -> P (TStruct n fs).
  Hypothesis HPtr : forall t, P t -> P (TPtr t).
  Hypothesis HSlice : forall t, P t -> P (TSlice t).

  Fixpoint ty_ind' (t : ty) : P t :=
    match t with
    | TStr => HStr | TInt => HInt | TBool => HBool | TOther => HOther
    | TStruct n fs =>
        HStruct n fs ((fix go (fs : list (fmeta * ty)) : Forall (fun mf => P (snd mf)) fs :=
                         match fs with
                         | [] => Forall_nil _
                         | (m, ft) :: fs' => Forall_cons (m, ft) (ty_ind' ft) (go fs')
                         end) fs)
    | TPtr t' => HPtr t' (ty_ind' t')
    | TSlice t' => HSlice t' (ty_ind' t')
    end.
End ty_induction.

Section val_induction.
  Variable P : val -> Prop.
  Hypothesis HStr : forall s, P (VStr s).
  Hypothesis HInt : forall z, P (VInt z).
  Hypothesis HBool : forall b, P (VBool b).
  Hypothesis HNil : P VNil.
  Hypothesis HOpaque : P VOpaque.
  Hypothesis HRec : forall xs, Forall P xs -> P (VRec xs).
  Hypothesis HArr : forall xs, Forall P xs -> P (VArr xs).

  Fixpoint val_ind' (v : val) : P v :=
    match v with
    | VStr s => HStr s | VInt z => HInt z | VBool b => HBool b | VNil => HNil | VOpaque => HOpaque
    | VRec xs => HRec xs ((fix go (xs : list val) : Forall P xs :=
                             match xs with [] => Forall_nil _ | x :: xs' => Forall_cons x (val_ind' x) (go xs') end) xs)
    | VArr xs => HArr xs ((fix go (xs : list val) : Forall P xs :=
                             match xs with [] => Forall_nil _ | x :: xs' => Forall_cons x (val_ind' x) (go xs') end) xs)
    end.
End val_induction.

(* ------------------------------------------------------------ list-level views of the nested fixpoints *)

Fixpoint vals_eqb (xs ys : list val) : bool :=
  match xs, ys with
  | [], [] => true
  | x :: xs', y :: ys' => val_eqb x y && vals_eqb xs' ys'
  | _, _ => false
  end.

Lemma val_eqb_rec xs ys : val_eqb (VRec xs) (VRec ys) = vals_eqb xs ys.
Proof. reflexivity. Qed.

Lemma val_eqb_arr xs ys : val_eqb (VArr xs) (VArr ys) = vals_eqb xs ys.
Proof. reflexivity. Qed.

Lemma val_eqb_eq a b : val_eqb a b = true <-> a = b.
Proof.
  revert b. induction a as [s|z|b0| | |xs IH|xs IH] using val_ind'; intros b.
  - destruct b; cbn; try (split; discriminate). rewrite bytes_eqb_eq. split; [intros ->; reflexivity | intros H; injection H; auto].
  - destruct b; cbn; try (split; discriminate). rewrite Z.eqb_eq. split; [intros ->; reflexivity | intros H; injection H; auto].
  - destruct b; cbn; try (split; discriminate). rewrite Bool.eqb_true_iff. split; [intros ->; reflexivity | intros H; injection H; auto].
  - destruct b; cbn; try (split; discriminate). split; reflexivity.
  - destruct b; cbn; try (split; discriminate). split; reflexivity.
  - destruct b as [| | | | ys | |]; try (cbn; split; discriminate).
    rewrite val_eqb_rec.
    assert (E : vals_eqb xs ys = true <-> xs = ys).
    { revert ys. induction IH as [|x xs Hx _ IHxs]; intros [|y ys]; cbn; try (split; [discriminate | discriminate]); [split; reflexivity|].
      rewrite andb_true_iff, Hx, IHxs. split; [intros [-> ->]; reflexivity | intros H; injection H; auto]. }
    rewrite E. split; [intros ->; reflexivity | intros H; injection H; auto].
  - destruct b as [| | | | | ys |]; try (cbn; split; discriminate).
    rewrite val_eqb_arr.
    assert (E : vals_eqb xs ys = true <-> xs = ys).
    { revert ys. induction IH as [|x xs Hx _ IHxs]; intros [|y ys]; cbn; try (split; [discriminate | discriminate]); [split; reflexivity|].
      rewrite andb_true_iff, Hx, IHxs. split; [intros [-> ->]; reflexivity | intros H; injection H; auto]. }
    rewrite E. split; [intros ->; reflexivity | intros H; injection H; auto].
Qed.

Lemma val_eqb_refl a : val_eqb a a = true.
Proof. now apply val_eqb_eq. Qed.

Definition fdef_or (m : fmeta) (ft : ty) : val :=
  match f_def m with Some d => d | None => start ft end.

Fixpoint start_fields (fs : list (fmeta * ty)) : list val :=
  match fs with
  | [] => []
  | (m, ft) :: fs' => fdef_or m ft :: start_fields fs'
  end.

Lemma start_struct n fs : start (TStruct n fs) = VRec (start_fields fs).
Proof. reflexivity. Qed.

Fixpoint typed_fields (fs : list (fmeta * ty)) (vs : list val) : bool :=
  match fs, vs with
  | [], [] => true
  | (m, ft) :: fs', x :: vs' => typed ft x && typed_fields fs' vs'
  | _, _ => false
  end.

Lemma typed_struct n fs vs : typed (TStruct n fs) (VRec vs) = typed_fields fs vs.
Proof. reflexivity. Qed.

Fixpoint enc_fields (fs : list (fmeta * ty)) (vs : list val) : list (string * json) :=
  match fs, vs with
  | (m, ft) :: fs', x :: vs' =>
      match f_enc m with
      | Some k => if f_omit m && is_empty x then enc_fields fs' vs' else (k, enc ft x) :: enc_fields fs' vs'
      | None => enc_fields fs' vs'
      end
  | _, _ => []
  end.

Lemma enc_struct n fs vs : enc (TStruct n fs) (VRec vs) = JObj (enc_fields fs vs).
Proof. reflexivity. Qed.

Definition dec_field (kvs : list (string * json)) (m : fmeta) (ft : ty) (c : val) : val :=
  match f_dec m with
  | Some k => match lookup k kvs with Some j' => dec ft c j' | None => c end
  | None => c
  end.

Fixpoint dec_fields (kvs : list (string * json)) (fs : list (fmeta * ty)) (cs : list val) : list val :=
  match fs, cs with
  | (m, ft) :: fs', c :: cs' => dec_field kvs m ft c :: dec_fields kvs fs' cs'
  | _, _ => []
  end.

Lemma dec_struct n fs kvs cs : dec (TStruct n fs) (VRec cs) (JObj kvs) = VRec (dec_fields kvs fs cs).
Proof.
  cbn [dec]. f_equal. revert cs; induction fs as [|[m ft] fs IH]; intros [|c cs]; try reflexivity.
  cbn [dec_fields]. rewrite <- IH. reflexivity.
Qed.

Definition safe_field (sel : string -> string -> bool) (n : string) (m : fmeta) (ft : ty) (c x : val) : bool :=
  match f_enc m, f_dec m with
  | Some ek, Some dk =>
      if key_eqb dk ek then
        if f_omit m && is_empty x then cond (sel n (f_name m)) (val_eqb c x)
        else safe_sel sel ft c x
      else cond (sel n (f_name m)) (val_eqb c x)
  | _, _ => cond (sel n (f_name m)) (val_eqb c x)
  end.

Fixpoint safe_fields (sel : string -> string -> bool) (n : string) (fs : list (fmeta * ty)) (cs vs : list val) : bool :=
  match fs, cs, vs with
  | [], [], [] => true
  | (m, ft) :: fs', c :: cs', x :: vs' => safe_field sel n m ft c x && safe_fields sel n fs' cs' vs'
  | _, _, _ => false
  end.

Lemma safe_struct sel n fs cs vs : safe_sel sel (TStruct n fs) (VRec cs) (VRec vs) = safe_fields sel n fs cs vs.
Proof.
  cbn [safe_sel]. revert cs vs; induction fs as [|[m ft] fs IH]; intros [|c cs] [|x vs]; try reflexivity.
  cbn [safe_fields]. rewrite <- IH. reflexivity.
Qed.

Definition problems_field (n : string) (m : fmeta) (ft : ty) (c : val) : list (string * string) :=
  match f_enc m, f_dec m with
  | Some ek, Some dk =>
      if key_eqb dk ek then
        (if f_omit m
         then match zero_of ft with
              | Some z => if val_eqb c z then [] else [(n, f_name m)]
              | None => []
              end
         else [])
        ++ problems ft c
      else [(n, f_name m)]
  | _, _ => if unit_ty ft && val_eqb c (start ft) then [] else [(n, f_name m)]
  end.

Fixpoint problems_fields (n : string) (fs : list (fmeta * ty)) (cs : list val) : list (string * string) :=
  match fs, cs with
  | (m, ft) :: fs', c :: cs' => problems_field n m ft c ++ problems_fields n fs' cs'
  | _, _ => []
  end.

Lemma problems_struct n fs cs : problems (TStruct n fs) (VRec cs) = problems_fields n fs cs.
Proof.
  cbn [problems]. revert cs; induction fs as [|[m ft] fs IH]; intros [|c cs]; try reflexivity.
  cbn [problems_fields]. rewrite <- IH. reflexivity.
Qed.

Fixpoint wf_fields (fs : list (fmeta * ty)) : bool :=
  match fs with
  | [] => true
  | (m, ft) :: fs' =>
      wf ft
      && match f_def m with Some d => typed ft d | None => true end
      && match ft with TOther => match f_enc m, f_dec m with None, None => true | _, _ => false end | _ => true end
      && wf_fields fs'
  end.

Lemma wf_struct n fs : wf (TStruct n fs) = keys_ok fs && wf_fields fs.
Proof. reflexivity. Qed.

(* ------------------------------------------------------------ typing facts *)

Lemma typed_fields_length fs vs : typed_fields fs vs = true -> length vs = length fs.
Proof.
  revert vs; induction fs as [|[m ft] fs IH]; intros [|x vs] H; cbn in H; try discriminate; [reflexivity|].
  apply andb_prop in H as [_ H]. cbn. f_equal. now apply IH.
Qed.

Lemma start_typed t : wf t = true -> typed t (start t) = true.
Proof.
  induction t as [| | | |n fs IH|t IH|t IH] using ty_ind'; intros Hwf; try reflexivity.
  rewrite start_struct, typed_struct. rewrite wf_struct in Hwf. apply andb_prop in Hwf as [_ Hwf].
  induction IH as [|[m ft] fs Hft _ IHfs]; [reflexivity|].
  cbn [wf_fields] in Hwf. repeat (apply andb_prop in Hwf as [Hwf ?]).
  cbn [start_fields typed_fields]. apply andb_true_intro; split; [|now apply IHfs].
  unfold fdef_or. destruct (f_def m) as [d|]; [assumption|]. now apply Hft.
Qed.

Lemma empty_is_zero t x : typed t x = true -> is_empty x = true -> zero_of t = Some x.
Proof.
  destruct t; destruct x as [s|z|b| |xs|xs|]; cbn; intros Ht He; try discriminate; try reflexivity.
  - destruct s; [reflexivity|discriminate].
  - destruct z; [reflexivity|discriminate|discriminate].
  - destruct b; [discriminate|reflexivity].
  - destruct xs; [reflexivity|discriminate].
Qed.

Lemma unit_ty_typed t x : unit_ty t = true -> typed t x = true -> x = start t.
Proof.
  destruct t as [| | |n fs| | |]; try discriminate. destruct fs; [|discriminate].
  intros _. destruct x as [| | | |xs| |]; try discriminate. destruct xs; [reflexivity|discriminate].
Qed.

(* ------------------------------------------------------------ lookup *)

Definition misses (k : string) (kvs : list (string * json)) : bool :=
  forallb (fun kv => negb (key_eqb k (fst kv))) kvs.

Lemma lookup_app_miss k a b : misses k a = true -> lookup k (a ++ b) = lookup k b.
Proof.
  induction a as [|[k' j] a IH]; [reflexivity|]. cbn. intros H. apply andb_prop in H as [H1 H2].
  apply negb_true_iff in H1. rewrite H1. now apply IH.
Qed.

Lemma lookup_miss k a : misses k a = true -> lookup k a = None.
Proof. intros H. rewrite <- (app_nil_r a). rewrite lookup_app_miss by assumption. reflexivity. Qed.

Lemma misses_app k a b : misses k (a ++ b) = misses k a && misses k b.
Proof. unfold misses. apply forallb_app. Qed.

Lemma enc_fields_misses k fs vs :
  no_match (Some k) (opt_keys f_enc fs) = true -> misses k (enc_fields fs vs) = true.
Proof.
  revert vs; induction fs as [|[m ft] fs IH]; intros vs H; [destruct vs; reflexivity|].
  destruct vs as [|x vs]; [reflexivity|].
  cbn [enc_fields]. unfold opt_keys in H. cbn [flat_map fst] in H. fold (opt_keys f_enc fs) in H.
  destruct (f_enc m) as [ek|].
  - cbn [no_match app forallb] in H. apply andb_prop in H as [H1 H2].
    destruct (f_omit m && is_empty x); [now apply IH|].
    cbn. rewrite H1. now apply IH.
  - cbn [app] in H. now apply IH.
Qed.

(* every decode key of [fs] misses every key of [pre] *)
Definition dkeys_miss (fs : list (fmeta * ty)) (pre : list (string * json)) : Prop :=
  forall k, In k (opt_keys f_dec fs) -> misses k pre = true.

Lemma no_match_in (ek : string) ks k :
  no_match (Some ek) ks = true -> In k ks -> key_eqb ek k = false.
Proof.
  cbn. rewrite forallb_forall. intros H Hin. apply negb_true_iff. now apply H.
Qed.

Lemma key_eqb_sym a b : key_eqb a b = key_eqb b a.
Proof. unfold key_eqb. apply String.eqb_sym. Qed.

(* ------------------------------------------------------------ the codec law *)

Definition all_sel : string -> string -> bool := fun _ _ => true.

Definition codec_law (t : ty) : Prop :=
  wf t = true -> forall cur v, typed t cur = true -> typed t v = true ->
  (dec t cur (enc t v) = v <-> safe_sel all_sel t cur v = true).

Lemma cons_eq_iff {A} (a b : A) l l' : a :: l = b :: l' <-> a = b /\ l = l'.
Proof. split; [intros H; injection H; auto | intros [-> ->]; reflexivity]. Qed.

Lemma fields_law n fs :
  Forall (fun mf => codec_law (snd mf)) fs ->
  forall pre cs vs,
    keys_ok fs = true -> wf_fields fs = true ->
    typed_fields fs cs = true -> typed_fields fs vs = true ->
    dkeys_miss fs pre ->
    (dec_fields (pre ++ enc_fields fs vs) fs cs = vs <-> safe_fields all_sel n fs cs vs = true).
Proof.
  induction 1 as [|[m ft] fs Hft _ IH]; intros pre cs vs Hk Hwf Hc Hv Hpre.
  - destruct cs, vs; try discriminate. cbn. split; reflexivity.
  - destruct cs as [|c cs]; [discriminate|]. destruct vs as [|x vs]; [discriminate|].
    cbn [typed_fields] in Hc, Hv. apply andb_prop in Hc as [Hc Hcs]. apply andb_prop in Hv as [Hx Hvs].
    cbn [keys_ok] in Hk. apply andb_prop in Hk as [Hk Hk3]. apply andb_prop in Hk as [Hk1 Hk2].
    cbn [wf_fields] in Hwf. apply andb_prop in Hwf as [Hwf Hwfs]. apply andb_prop in Hwf as [Hwf Hoth]. apply andb_prop in Hwf as [Hwft Hdef].
    cbn [snd] in Hft.
    cbn [dec_fields safe_fields]. rewrite cons_eq_iff, andb_true_iff.
    (* the tail, for any own entry [own] whose key misses the decode keys of fs *)
    assert (Tail : forall own, (forall k, In k (opt_keys f_dec fs) -> misses k own = true) ->
              (dec_fields ((pre ++ own) ++ enc_fields fs vs) fs cs = vs <-> safe_fields all_sel n fs cs vs = true)).
    { intros own Hown. apply IH; try assumption. intros k Hin. rewrite misses_app.
      rewrite (Hown k Hin). rewrite Hpre; [reflexivity|].
      unfold opt_keys. cbn [flat_map]. apply in_or_app. right. exact Hin. }
    (* the head *)
    unfold dec_field, safe_field, all_sel, cond. cbn [enc_fields].
    destruct (f_enc m) as [ek|] eqn:Eenc; destruct (f_dec m) as [dk|] eqn:Edec.
    + (* written and read *)
      assert (Hdkpre : misses dk pre = true).
      { apply Hpre. unfold opt_keys. cbn [flat_map fst]. rewrite Edec. left. reflexivity. }
      assert (Hdkrest : misses dk (enc_fields fs vs) = true) by (apply enc_fields_misses; exact Hk1).
      destruct (f_omit m && is_empty x) eqn:Eom.
      * (* omitted *)
        rewrite lookup_app_miss by assumption. rewrite lookup_miss by assumption.
        specialize (Tail [] (fun _ _ => eq_refl)). rewrite app_nil_r in Tail. rewrite Tail.
        destruct (key_eqb dk ek); rewrite val_eqb_eq; tauto.
      * rewrite lookup_app_miss by assumption. cbn [lookup].
        assert (Hown : forall k, In k (opt_keys f_dec fs) -> misses k [(ek, enc ft x)] = true).
        { intros k Hin. cbn. rewrite andb_true_r. apply negb_true_iff. rewrite key_eqb_sym. eapply no_match_in; eassumption. }
        specialize (Tail [(ek, enc ft x)] Hown). rewrite <- app_assoc in Tail. cbn [app] in Tail. rewrite Tail.
        destruct (key_eqb dk ek) eqn:Ekey.
        -- rewrite (Hft Hwft c x Hc Hx). tauto.
        -- rewrite lookup_miss by assumption. rewrite val_eqb_eq. tauto.
    + (* written, never read *)
      destruct (f_omit m && is_empty x) eqn:Eom.
      * specialize (Tail [] (fun _ _ => eq_refl)). rewrite app_nil_r in Tail. rewrite Tail. rewrite val_eqb_eq. tauto.
      * assert (Hown : forall k, In k (opt_keys f_dec fs) -> misses k [(ek, enc ft x)] = true).
        { intros k Hin. cbn. rewrite andb_true_r. apply negb_true_iff. rewrite key_eqb_sym. eapply no_match_in; eassumption. }
        specialize (Tail [(ek, enc ft x)] Hown). rewrite <- app_assoc in Tail. cbn [app] in Tail. rewrite Tail.
        rewrite val_eqb_eq. tauto.
    + (* read, never written *)
      assert (Hdkpre : misses dk pre = true).
      { apply Hpre. unfold opt_keys. cbn [flat_map fst]. rewrite Edec. left. reflexivity. }
      assert (Hdkrest : misses dk (enc_fields fs vs) = true) by (apply enc_fields_misses; exact Hk1).
      rewrite lookup_app_miss by assumption. rewrite lookup_miss by assumption.
      specialize (Tail [] (fun _ _ => eq_refl)). rewrite app_nil_r in Tail. rewrite Tail. rewrite val_eqb_eq. tauto.
    + specialize (Tail [] (fun _ _ => eq_refl)). rewrite app_nil_r in Tail. rewrite Tail. rewrite val_eqb_eq. tauto.
Qed.

Lemma map_eq_iff {A B} (f : A -> B) (g : B -> A) (P : A -> bool) xs :
  (forall x, In x xs -> (g (f x) = x <-> P x = true)) ->
  (map g (map f xs) = xs <-> forallb P xs = true).
Proof.
  induction xs as [|x xs IH]; intros H; cbn; [split; reflexivity|].
  rewrite cons_eq_iff, andb_true_iff, (H x (or_introl eq_refl)), IH; [tauto|].
  intros y Hy. apply H. now right.
Qed.

Lemma dec_ptr_obj t cur kvs :
  dec (TPtr t) cur (JObj kvs) = dec t (match cur with VNil => start t | _ => cur end) (JObj kvs).
Proof. reflexivity. Qed.

Lemma safe_ptr_rec sel t cur vs :
  safe_sel sel (TPtr t) cur (VRec vs) = safe_sel sel t (match cur with VNil => start t | _ => cur end) (VRec vs).
Proof. reflexivity. Qed.

Lemma enc_ptr_rec t vs : enc (TPtr t) (VRec vs) = enc t (VRec vs).
Proof. reflexivity. Qed.

Theorem codec_iff t : codec_law t.
Proof.
  induction t as [| | | |n fs IH|t IH|t IH] using ty_ind'; intros Hwf cur v Hc Hv.
  - destruct v; try discriminate. cbn. split; reflexivity.
  - destruct v; try discriminate. cbn. split; reflexivity.
  - destruct v; try discriminate. cbn. split; reflexivity.
  - cbn [enc dec safe_sel]. rewrite val_eqb_eq. tauto.
  - destruct v as [| | | |vs| |]; try discriminate. destruct cur as [| | | |cs| |]; try discriminate.
    rewrite enc_struct, dec_struct, safe_struct. rewrite typed_struct in Hc, Hv.
    rewrite wf_struct in Hwf. apply andb_prop in Hwf as [Hk Hwfs].
    pose proof (fields_law n fs IH [] cs vs Hk Hwfs Hc Hv (fun _ _ => eq_refl)) as L. cbn [app] in L.
    rewrite <- L. split; [intros H; injection H; auto | intros ->; reflexivity].
  - cbn [wf] in Hwf. destruct t as [| | |n fs| | |]; try discriminate.
    destruct v as [| | | |vs| |]; try discriminate.
    + cbn. split; reflexivity.
    + change (typed (TStruct n fs) (VRec vs) = true) in Hv.
      assert (Hc' : typed (TStruct n fs) (match cur with VNil => start (TStruct n fs) | _ => cur end) = true).
      { destruct cur; try discriminate; [now apply start_typed | exact Hc]. }
      rewrite enc_ptr_rec, enc_struct, dec_ptr_obj, safe_ptr_rec, <- (enc_struct n fs vs).
      apply (IH Hwf _ _ Hc' Hv).
  - destruct v as [| | | | |xs|]; try discriminate. cbn [wf] in Hwf. cbn [typed] in Hv.
    cbn [enc dec safe_sel].
    assert (E : map (dec t (start t)) (map (enc t) xs) = xs <-> forallb (safe_sel all_sel t (start t)) xs = true).
    { apply map_eq_iff. intros x Hin. apply IH; [assumption | now apply start_typed |].
      rewrite forallb_forall in Hv. now apply Hv. }
    rewrite <- E. split; [intros H; injection H; auto | intros ->; reflexivity].
Qed.

(* ------------------------------------------------------------ soundness of the table checker *)

Definition sound_law (sel : string -> string -> bool) (t : ty) : Prop :=
  wf t = true -> forall cur v, typed t cur = true -> typed t v = true ->
  (forall p, In p (problems t cur) -> sel (fst p) (snd p) = true) ->
  safe_sel sel t cur v = true -> safe_sel all_sel t cur v = true.

Lemma fields_sound sel n fs :
  Forall (fun mf => sound_law sel (snd mf)) fs ->
  forall cs vs,
    wf_fields fs = true -> typed_fields fs cs = true -> typed_fields fs vs = true ->
    (forall p, In p (problems_fields n fs cs) -> sel (fst p) (snd p) = true) ->
    safe_fields sel n fs cs vs = true -> safe_fields all_sel n fs cs vs = true.
Proof.
  induction 1 as [|[m ft] fs Hft _ IH]; intros cs vs Hwf Hc Hv Hsel Hs.
  - destruct cs, vs; try discriminate. reflexivity.
  - destruct cs as [|c cs]; [discriminate|]. destruct vs as [|x vs]; [discriminate|].
    cbn [typed_fields] in Hc, Hv. apply andb_prop in Hc as [Hc Hcs]. apply andb_prop in Hv as [Hx Hvs].
    cbn [wf_fields] in Hwf. apply andb_prop in Hwf as [Hwf Hwfs]. apply andb_prop in Hwf as [Hwf Hoth]. apply andb_prop in Hwf as [Hwft Hdef].
    cbn [snd] in Hft. cbn [safe_fields] in Hs |- *. apply andb_prop in Hs as [Hs Hss].
    cbn [problems_fields] in Hsel.
    apply andb_true_intro; split.
    2:{ apply IH; try assumption. intros p Hp. apply Hsel. apply in_or_app. now right. }
    assert (Hsel' : forall n' f', In (n', f') (problems_field n m ft c) -> sel n' f' = true).
    { intros n' f' Hp. apply (Hsel (n', f')). apply in_or_app. now left. }
    clear Hsel IH Hss.
    assert (Unser : (if unit_ty ft && val_eqb c (start ft) then [] else [(n, f_name m)]) = problems_field n m ft c ->
                    cond (sel n (f_name m)) (val_eqb c x) = true -> val_eqb c x = true).
    { intros E Hcond. destruct (unit_ty ft && val_eqb c (start ft)) eqn:Eu.
      - apply andb_prop in Eu as [Eu1 Eu2]. apply val_eqb_eq in Eu2. subst c.
        rewrite (unit_ty_typed ft x Eu1 Hx). apply val_eqb_refl.
      - rewrite (Hsel' n (f_name m)) in Hcond; [exact Hcond|]. rewrite <- E. left. reflexivity. }
    unfold safe_field, problems_field in *. unfold all_sel, cond at 1 2 3.
    destruct (f_enc m) as [ek|]; destruct (f_dec m) as [dk|]; try (apply Unser; [reflexivity | exact Hs]).
    destruct (key_eqb dk ek).
    + destruct (f_omit m && is_empty x) eqn:Eom.
      * apply andb_prop in Eom as [Eo Ee]. rewrite Eo in Hsel'.
        rewrite (empty_is_zero ft x Hx Ee) in Hsel'.
        destruct (val_eqb c x) eqn:Ecx; [reflexivity|].
        unfold cond in Hs. rewrite (Hsel' n (f_name m)) in Hs; [exact Hs|]. apply in_or_app. left. left. reflexivity.
      * apply (Hft Hwft c x Hc Hx); [|exact Hs]. intros [n' f'] Hp. apply Hsel'. apply in_or_app. now right.
    + unfold cond in Hs. rewrite (Hsel' n (f_name m)) in Hs; [exact Hs|]. left. reflexivity.
Qed.

Theorem tags_sound sel t : sound_law sel t.
Proof.
  induction t as [| | | |n fs IH|t IH|t IH] using ty_ind'; intros Hwf cur v Hc Hv Hsel Hs; try reflexivity.
  - exact Hs.
  - destruct v as [| | | |vs| |]; try discriminate. destruct cur as [| | | |cs| |]; try discriminate.
    rewrite safe_struct in Hs |- *. rewrite typed_struct in Hc, Hv. rewrite problems_struct in Hsel.
    rewrite wf_struct in Hwf. apply andb_prop in Hwf as [_ Hwfs].
    eapply fields_sound; eassumption.
  - cbn [wf] in Hwf. destruct t as [| | |n fs| | |]; try discriminate.
    destruct v as [| | | |vs| |]; try discriminate; [reflexivity|].
    change (typed (TStruct n fs) (VRec vs) = true) in Hv. rewrite safe_ptr_rec in Hs |- *. change (problems (TPtr (TStruct n fs)) cur) with (problems (TStruct n fs) (match cur with VNil => start (TStruct n fs) | _ => cur end)) in Hsel.
    apply (IH Hwf _ _) ; try assumption.
    destruct cur; try discriminate; [now apply start_typed | exact Hc].
  - destruct v as [| | | | |xs|]; try discriminate. cbn [wf] in Hwf. cbn [typed] in Hv.
    cbn [safe_sel] in Hs |- *. cbn [problems] in Hsel.
    rewrite forallb_forall in Hs, Hv |- *. intros x Hin.
    apply (IH Hwf); auto. now apply start_typed.
Qed.

(* ------------------------------------------------------------ consequences *)

Theorem codec_roundtrip t cur v :
  wf t = true -> typed t cur = true -> typed t v = true ->
  (dec t cur (enc t v) = v <-> safeb t cur v = true).
Proof. intros. now apply codec_iff. Qed.

Theorem codec_roundtrip_excused ex t cur v :
  wf t = true -> typed t cur = true -> typed t v = true ->
  tags_ok ex t cur = true ->
  safe_sel (sel_of ex) t cur v = true ->
  dec t cur (enc t v) = v.
Proof.
  intros Hwf Hc Hv Hok Hs. apply codec_iff; try assumption.
  apply (tags_sound (sel_of ex) t Hwf cur v Hc Hv); [|exact Hs].
  intros [n f] Hp. unfold tags_ok in Hok. rewrite forallb_forall in Hok. exact (Hok _ Hp).
Qed.


(* ------------------------------------------------------------ ValidateOpts.merge *)

Lemma merge_opts_nil_r a : merge_opts a (map (fun _ => false) a) = a.
Proof. unfold merge_opts. induction a as [|x a IH]; [reflexivity|]. cbn. rewrite orb_false_r. f_equal. exact IH. Qed.

Lemma merge_opts_idem a : merge_opts a a = a.
Proof. unfold merge_opts. induction a as [|x a IH]; [reflexivity|]. cbn. rewrite orb_diag. f_equal. exact IH. Qed.

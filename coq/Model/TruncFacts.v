(* C04, truncation at the level of whole record lines (the structural reader of
   Codec/FileStruct.v): a transfer cut before the file control record yields no
   file; a cut inside the trailing 9-filler yields exactly the original.  Cuts
   inside a line are covered by the oracle only (see docs/C04.md). *)
From Coq Require Import Lia.
From ACH Require Import FileStruct FileStructFacts.
Open Scope N_scope.

Lemma rstep_keeps_ctl s l : rtype l <> T9 ->
  match rstep (Some s) l with Some s' => r_ctl s' = r_ctl s | None => True end.
Proof.
  intros Ht. unfold rstep.
  destruct (rtype l =? T1) eqn:E1; [destruct (r_hdr s); exact I || reflexivity|].
  destruct (rtype l =? T5) eqn:E5; [destruct (r_cur s); exact I || reflexivity|].
  destruct (rtype l =? T6) eqn:E6; [destruct (r_cur s) as [[h es]|]; exact I || reflexivity|].
  destruct (rtype l =? T7) eqn:E7.
  { destruct (r_cur s) as [[h es]|]; [|exact I]. destruct (add_addenda es l); exact I || reflexivity. }
  destruct (rtype l =? T8) eqn:E8; [destruct (r_cur s) as [[h es]|]; exact I || reflexivity|].
  destruct (rtype l =? T9) eqn:E9; [apply N.eqb_eq in E9; contradiction|exact I].
Qed.

Lemma fold_rstep_none ls : fold_left rstep ls None = None.
Proof. induction ls as [|l ls IH]; [reflexivity|exact IH]. Qed.

Lemma fold_keeps_ctl ls : forall s, Forall (fun l => rtype l <> T9) ls ->
  match fold_left rstep ls (Some s) with Some s' => r_ctl s' = r_ctl s | None => True end.
Proof.
  induction ls as [|l ls IH]; intros s H; [reflexivity|].
  inversion H as [|? ? Hl Hls]; subst. cbn [fold_left].
  pose proof (rstep_keeps_ctl s l Hl) as K. destruct (rstep (Some s) l) as [s1|].
  - specialize (IH s1 Hls). destruct (fold_left rstep ls (Some s1)); [congruence|exact I].
  - now rewrite fold_rstep_none.
Qed.

Lemma no_ctl_no_file ls : Forall (fun l => rtype l <> T9) ls -> read_struct ls = None.
Proof.
  intros H. unfold read_struct. pose proof (fold_keeps_ctl ls (mkR None [] None None) H) as K.
  destruct (fold_left rstep ls (Some (mkR None [] None None))) as [[h d c k]|]; [|reflexivity].
  cbn in K. subst k. destruct h; [destruct c|]; reflexivity.
Qed.

Lemma body_not_ctl f : file_typed f = true ->
  Forall (fun l => rtype l <> T9) (f_hdr f :: flat_map batch_lines (f_batches f)).
Proof.
  unfold file_typed. intros H. apply andb_prop in H as [H _]. apply andb_prop in H as [H1 Hbs].
  apply N.eqb_eq in H1. constructor; [rewrite H1; discriminate|].
  induction (f_batches f) as [|b bs IH]; [constructor|].
  cbn [forallb flat_map] in *. apply andb_prop in Hbs as [Hb Hbs]. apply Forall_app. split; [|now apply IH].
  unfold batch_typed in Hb. apply andb_prop in Hb as [Hb H8]. apply andb_prop in Hb as [H5 Hes].
  apply N.eqb_eq in H5, H8. unfold batch_lines. constructor; [rewrite H5; discriminate|].
  apply Forall_app. split; [|constructor; [rewrite H8; discriminate|constructor]].
  induction (b_entries b) as [|e es IHe]; [constructor|].
  cbn [forallb flat_map] in *. apply andb_prop in Hes as [He Hes]. apply Forall_app. split; [|now apply IHe].
  unfold entry_typed in He. apply andb_prop in He as [H6 H7]. apply N.eqb_eq in H6.
  unfold entry_lines. constructor; [rewrite H6; discriminate|].
  rewrite forallb_forall in H7. apply Forall_forall. intros a Ha. specialize (H7 a Ha).
  apply N.eqb_eq in H7. rewrite H7. discriminate.
Qed.

Lemma Forall_firstn {A} (P : A -> Prop) n l : Forall P l -> Forall P (firstn n l).
Proof.
  intros H. rewrite <- (firstn_skipn n l) in H. now apply Forall_app in H as [H _].
Qed.

(* every proper prefix (in whole lines) of the records of a file, i.e. a transfer that
   lost at least the file control record, is not accepted as any file *)
Theorem truncated_lines_rejected f n : file_typed f = true -> (n < length (record_lines f))%nat ->
  read_struct (firstn n (record_lines f)) = None.
Proof.
  intros Ht Hn. apply no_ctl_no_file. unfold record_lines in *.
  rewrite app_comm_cons in Hn |- *.
  assert (Hz : (n - length (f_hdr f :: flat_map batch_lines (f_batches f)) = 0)%nat)
    by (rewrite app_length in Hn; cbn [length] in *; lia).
  rewrite firstn_app, Hz. cbn [firstn]. rewrite app_nil_r. apply Forall_firstn. now apply body_not_ctl.
Qed.

Lemma firstn_repeat {A} (x : A) m : forall k, firstn m (repeat x k) = repeat x (Nat.min m k).
Proof. induction m as [|m IH]; intros [|k]; cbn; try reflexivity. now rewrite IH. Qed.

(* a cut anywhere inside the trailing 9-filler gives exactly the original file *)
Theorem truncated_filler_same f n : file_typed f = true -> starts99 (f_ctl f) = false ->
  (length (record_lines f) <= n)%nat -> read_struct (firstn n (physical_lines f)) = Some f.
Proof.
  intros Ht Hc Hn. unfold physical_lines. rewrite firstn_app.
  rewrite firstn_all2 by exact Hn. rewrite firstn_repeat. now apply read_struct_written.
Qed.

(* non-vacuity: the example file of FileStructFacts *)
Lemma truncation_example :
  file_typed ex_file = true /\ starts99 (f_ctl ex_file) = false /\ length (record_lines ex_file) = 12%nat /\
  read_struct (firstn 11 (record_lines ex_file)) = None /\
  read_struct (firstn 14 (physical_lines ex_file)) = Some ex_file.
Proof. vm_compute. repeat split; reflexivity. Qed.

(* Checkers over the tables regenerated from SegmentFile's three transaction-code
   switches, its service-class switches and the calculateBatchAmounts lists
   (Gen/SegmentTable.v), with their generic soundness lemmas. *)
From Coq Require Import ZArith NArith List Bool Lia.
Import ListNotations.
From ACH Require Import TxCodes RevTable.
Open Scope Z_scope.

Inductive bkind := KStd | KAdv | KIat.

Record stables := mkst {
  st_seg_std : list seg_arm; st_seg_iat : list seg_arm; st_seg_adv : list seg_arm;
  st_amt_std : list seg_arm; st_amt_iat : list seg_arm; st_amt_adv : list seg_arm;
  st_scc_std : list scc_arm; st_scc_iat : list scc_arm;
  st_codes : list Z }.

Definition seg_of (T : stables) (k : bkind) : list seg_arm :=
  match k with KStd => st_seg_std T | KAdv => st_seg_adv T | KIat => st_seg_iat T end.
Definition amt_of (T : stables) (k : bkind) : list seg_arm :=
  match k with KStd => st_amt_std T | KAdv => st_amt_adv T | KIat => st_amt_iat T end.

(* a segment switch and the arithmetic lists send every code the same way:
   checked on every code either mentions; all other codes fall through both *)
Definition lists_agree (seg amt : list seg_arm) : bool :=
  arms_known seg && arms_known amt &&
  forallb (fun c => target_eqb (classify seg c) (classify amt c)) (all_codes seg ++ all_codes amt).

Fixpoint scc_lookup (arms : list scc_arm) (scc : Z) : option scc_kind :=
  match arms with
  | [] => None
  | a :: r => if sc_code a =? scc then Some (sc_kind a) else scc_lookup r scc
  end.

Definition scc_kind_eqb (a b : scc_kind) : bool :=
  match a, b with
  | SSplit c d, SSplit c' d' => (c =? c') && (d =? d')
  | SReuseCredit, SReuseCredit | SReuseDebit, SReuseDebit => true
  | _, _ => false
  end.

Definition opt_kind_eqb (a : option scc_kind) (b : scc_kind) : bool :=
  match a with Some k => scc_kind_eqb k b | None => false end.

(* mixed batches are split into a credits-only and a debits-only batch, single-direction
   batches are handed over unchanged *)
Definition scc_ok (arms : list scc_arm) : bool :=
  opt_kind_eqb (scc_lookup arms 200) (SSplit 220 225)
  && opt_kind_eqb (scc_lookup arms 220) SReuseCredit
  && opt_kind_eqb (scc_lookup arms 225) SReuseDebit.

(* the ADV arithmetic lists give every ADV code (8x) a direction *)
Definition adv_codes_ok (amt : list seg_arm) (std : list Z) : bool :=
  forallb (fun c => implb (80 <=? c) (negb (target_eqb (classify amt c) TNone))) std.

(* the arithmetic lists give every standard entry code (2x..5x) a direction *)
Definition entry_codes_directed (amt : list seg_arm) (std : list Z) : bool :=
  forallb (fun c => implb (entry_code std c) (negb (target_eqb (classify amt c) TNone))) std.

Definition seg_tables_ok (T : stables) : bool :=
  lists_agree (st_seg_std T) (st_amt_std T)
  && lists_agree (st_seg_iat T) (st_amt_iat T)
  && lists_agree (st_seg_adv T) (st_amt_adv T)
  && scc_ok (st_scc_std T) && scc_ok (st_scc_iat T)
  && amount_ok (st_amt_std T) (st_codes T)
  && amount_ok (st_amt_iat T) (st_codes T)
  && adv_codes_ok (st_amt_adv T) (st_codes T)
  && entry_codes_directed (st_amt_std T) (st_codes T)
  && entry_codes_directed (st_amt_iat T) (st_codes T).

Lemma classify_notin arms c : ~ In c (all_codes arms) -> classify arms c = TNone.
Proof.
  induction arms as [|a r IH]; intros Hn; [reflexivity|].
  cbn [all_codes flat_map] in Hn. cbn [classify].
  destruct (memz c (sa_codes a)) eqn:E.
  - exfalso. apply Hn, in_or_app. left. now apply memz_In.
  - apply IH. intros H. apply Hn, in_or_app. now right.
Qed.

Theorem lists_agree_sound seg amt : lists_agree seg amt = true ->
  forall c, classify seg c = classify amt c.
Proof.
  intros H c. unfold lists_agree in H. apply andb_prop in H as [_ H].
  rewrite forallb_forall in H.
  destruct (in_dec Z.eq_dec c (all_codes seg ++ all_codes amt)) as [Hin|Hn].
  - now apply target_eqb_eq, H.
  - rewrite !classify_notin; [reflexivity| |]; intros Hc; apply Hn, in_or_app; auto.
Qed.

Lemma scc_kind_eqb_eq a b : scc_kind_eqb a b = true -> a = b.
Proof.
  destruct a, b; cbn; intros H; try discriminate; try reflexivity.
  apply andb_prop in H as [H1 H2]. apply Z.eqb_eq in H1, H2. now subst.
Qed.

Lemma scc_ok_sound arms : scc_ok arms = true ->
  scc_lookup arms 200 = Some (SSplit 220 225) /\ scc_lookup arms 220 = Some SReuseCredit
  /\ scc_lookup arms 225 = Some SReuseDebit.
Proof.
  unfold scc_ok. intros H. apply andb_prop in H as [H H3]. apply andb_prop in H as [H1 H2].
  assert (E : forall o k, opt_kind_eqb o k = true -> o = Some k).
  { intros [x|] k Hk; cbn in Hk; [|discriminate]. now rewrite (scc_kind_eqb_eq _ _ Hk). }
  repeat split; now apply E.
Qed.

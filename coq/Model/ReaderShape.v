(* C06 (phase 5) — shape-level model of ach.Reader: the state machine of Reader.Read
   (reader.go: parseLine / parseBH / parseED / parseEDAddenda / parseAddenda / parseADVAddenda /
   parseIATAddenda / switchIATAddenda / parseBatchControl / parseFileControl and the tail of Read).

   STATE: the pointers the reader keeps between lines — `r.currentBatch` (a Batcher: nil or a
   batch shape of TotalOps.v), `r.IATCurrentBatch` (an IATBatch VALUE: header pointer, control
   pointer, the Entries slice which is nil until the first AddEntry), the file built so far
   (`r.File`: Batches / IATBatches) — plus the two data values later transitions branch on
   (AddendaRecordIndicator of the last entry added, CompanyName == "IATCOR" of the current header).

   LINES: what a 94-character line is at this level: its record type (first byte), and the data the
   control flow reads from it: which header parser parseBH selects, SEC code / service class code,
   transaction code, "IndividualName is OFFSET", AddendaRecordIndicator, the addenda type code and the
   class of its return / change code.  A line sequence is ANY list of such lines (headers without
   control, addenda without entry, entries outside a batch, …).

   ANSWERS / ORACLE: every other data-dependent decision is a bit: per line [a_ok] (the record-level
   tests of that line pass: maybeValidate(record), "only one file header / control") and [a_bv]
   (maybeValidate runs Batch.Validate, i.e. ValidateOpts.SkipAll is not set); the checks inside
   Batch.Validate / IATBatch.Validate draw from the oracle of TotalOps.v.  Theorems quantify over all
   of them.

   DEREFERENCES: every dereference / index of reader.go that relies on the reader's own invariant (the
   sites Gen/OpSites.v lists for the reader functions) is an explicit [deref k] of one of seven site
   kinds: it panics exactly when [site_ok k] is false in the state at that point.  The operations the
   reader calls on the batch it built (File.AddBatch → Batch.Category, setOffsetCategory, Batch.Validate,
   IATBatch.Validate, File.IsADV) are the definitions of TotalOps.v.

   Definitions only; proofs in ReaderShapeFacts.v. *)
From Coq Require Import List Bool Arith.
Import ListNotations.
From ACH Require Import TotalOps TotalJson.
Open Scope ops_scope.
Open Scope bool_scope.

(* ------------------------------------------------------------------ *)
(* Lines *)

Inductive ret_kind := RPlain | RDishonored | RContested.
(* r.line[1:3] of an addenda record; 98: IsRefusedChangeCode(r.line[3:6]); 99: IsDishonoredReturnCode /
   IsContestedReturnCode(r.line[3:6]) *)
Inductive atag := T02 | T05 | T10 | T11 | T12 | T13 | T14 | T15 | T16 | T17 | T18
                | T98 (refused : bool) | T99 (k : ret_kind) | TOther.

Inductive line :=
| LFileHeader                                   (* "1" *)
| LBatchHeader (h : header) (iatcor : bool)     (* "5", parseBH → parseBatchHeader; CompanyName == IATCOR *)
| LIATHeader (h : iat_header)                   (* "5", parseBH → parseIATBatchHeader *)
| LEntry (code : nat) (off ari : bool)          (* "6" as EntryDetail.Parse reads it: TransactionCode, name OFFSET, AddendaRecordIndicator == 1 *)
         (acode : nat) (aari : bool)            (*     as ADVEntryDetail.Parse reads it *)
         (icode : nat) (iari : bool)            (*     as IATEntryDetail.Parse reads it *)
| LAddenda (t : atag)                           (* "7" *)
| LBatchControl                                 (* "8" *)
| LFileControl                                  (* "9", not "99…" *)
| LPadding                                      (* "99…": final blocking padding *)
| LUnknown.                                     (* any other first byte; a line readLine rejects before parseLine *)

Record ans := mkans { a_ok : bool; a_bv : bool }.
Definition rline := (line * ans)%type.

(* ------------------------------------------------------------------ *)
(* State *)

(* r.IATCurrentBatch: IATBatch{} has no header, no control and a nil Entries slice *)
Record iat_cur := mkic {
  ic_header : option iat_header;
  ic_control : bool;
  ic_entries : option (list (option iat_entry)) }.     (* None: the nil slice *)
Definition ic_blank : iat_cur := mkic None false None.
Definition ic_batch (c : iat_cur) : iat_batch :=
  mkib (ic_header c) (ic_control c) (match ic_entries c with Some l => l | None => [] end).
(* IATBatch.AddEntry: append (a nil slice becomes a slice of one element) *)
Definition ic_add_entry (e : iat_entry) (c : iat_cur) : iat_cur :=
  mkic (ic_header c) (ic_control c) (Some (match ic_entries c with Some l => l ++ [Some e] | None => [Some e] end)).
Definition ic_set_entries (l : list (option iat_entry)) (c : iat_cur) : iat_cur :=
  mkic (ic_header c) (ic_control c) (Some l).

Record rstate := mkrs {
  r_skip : bool;                  (* r.skipBatchAccumulation (set by the iterator only) *)
  r_cur : option batch;           (* r.currentBatch *)
  r_iatcor : bool;                (* r.currentBatch.GetHeader().CompanyName == IATCOR *)
  r_ari : bool;                   (* AddendaRecordIndicator == 1 of the last (ADV) entry of r.currentBatch *)
  r_iat : iat_cur;                (* r.IATCurrentBatch *)
  r_iat_ari : bool;               (* … of the last entry of r.IATCurrentBatch *)
  r_file : file }.                (* r.File *)

Definition set_cur (c : option batch) (s : rstate) : rstate :=
  mkrs (r_skip s) c (r_iatcor s) (r_ari s) (r_iat s) (r_iat_ari s) (r_file s).
Definition set_iatcor (x : bool) (s : rstate) : rstate :=
  mkrs (r_skip s) (r_cur s) x (r_ari s) (r_iat s) (r_iat_ari s) (r_file s).
Definition set_ari (x : bool) (s : rstate) : rstate :=
  mkrs (r_skip s) (r_cur s) (r_iatcor s) x (r_iat s) (r_iat_ari s) (r_file s).
Definition set_riat (c : iat_cur) (s : rstate) : rstate :=
  mkrs (r_skip s) (r_cur s) (r_iatcor s) (r_ari s) c (r_iat_ari s) (r_file s).
Definition set_iat_ari (x : bool) (s : rstate) : rstate :=
  mkrs (r_skip s) (r_cur s) (r_iatcor s) (r_ari s) (r_iat s) x (r_file s).
Definition set_rfile (f : file) (s : rstate) : rstate :=
  mkrs (r_skip s) (r_cur s) (r_iatcor s) (r_ari s) (r_iat s) (r_iat_ari s) f.

(* NewReader: everything nil / zero *)
Definition init (skip : bool) : rstate := mkrs skip None false false ic_blank false new_file.

(* ------------------------------------------------------------------ *)
(* The dereference / index sites that rely on the reader's invariant *)

Inductive rsite :=
| SCurHeader        (* r.currentBatch.GetHeader().X *)
| SCurControl       (* r.currentBatch.GetControl().Parse / .LineNumber *)
| SCurAdvControl    (* r.currentBatch.GetADVControl().Parse / .LineNumber *)
| SCurLastEntry     (* r.currentBatch.GetEntries()[entryIndex], entryIndex = len-1, and the fields of that element *)
| SCurLastAdvEntry  (* r.currentBatch.GetADVEntries()[entryIndex] *)
| SIatControl       (* r.IATCurrentBatch.GetControl().Parse / .LineNumber *)
| SIatLastEntry.    (* r.IATCurrentBatch.GetEntries()[entryIndex] / .Entries[entryIndex] *)

Definition last_present {A} (l : list (option A)) : bool :=
  match rev l with Some _ :: _ => true | _ => false end.

(* the dereference at a site of kind [k] does not panic in state [s] *)
Definition site_ok (k : rsite) (s : rstate) : bool :=
  match k with
  | SCurHeader => match r_cur s with Some b => present (b_header b) | None => false end
  | SCurControl => match r_cur s with Some b => b_control b | None => false end
  | SCurAdvControl => match r_cur s with Some b => b_adv b | None => false end
  | SCurLastEntry => match r_cur s with Some b => last_present (b_entries b) | None => false end
  | SCurLastAdvEntry => match r_cur s with Some b => last_present (b_adventries b) | None => false end
  | SIatControl => ic_control (r_iat s)
  | SIatLastEntry => match ic_entries (r_iat s) with Some l => last_present l | None => false end
  end.

Definition deref (k : rsite) : M rstate unit := s <- get ;; if site_ok k s then ret tt else crash.

(* values read through a pointer after its [deref] *)
Definition cur_header (s : rstate) : header :=
  match r_cur s with Some b => match b_header b with Some h => h | None => blank_header end | None => blank_header end.

Definition upd_last {A} (g : A -> A) (l : list (option A)) : list (option A) :=
  match rev l with
  | Some x :: t => rev t ++ [Some (g x)]
  | _ => l
  end.

(* ------------------------------------------------------------------ *)
(* Records the reader constructs *)

(* NewEntryDetail + Parse: Category Forward, no addenda *)
Definition fresh_entry (code : nat) (off : bool) : entry := mkentry CFwd code false false false false false false [] off.
Definition fresh_adv (code : nat) : adv_entry := mkadv CFwd code false.
Definition fresh_iat (code : nat) : iat_entry := mkie CFwd code false false false false false false false false false [] [].

(* parseAddenda: `switch r.line[1:3]` — what the case does to the last entry; None: no case *)
Definition set_ecat (c : cat) (e : entry) : entry :=
  mkentry c (e_code e) (e_a02 e) (e_a98 e) (e_a98r e) (e_a99 e) (e_a99d e) (e_a99c e) (e_a05 e) (e_off e).
Definition std_effect (t : atag) : option (entry -> entry) :=
  match t with
  | T02 => Some (fun e => mkentry (e_cat e) (e_code e) true (e_a98 e) (e_a98r e) (e_a99 e) (e_a99d e) (e_a99c e) (e_a05 e) (e_off e))
  | T05 => Some (fun e => mkentry (e_cat e) (e_code e) (e_a02 e) (e_a98 e) (e_a98r e) (e_a99 e) (e_a99d e) (e_a99c e) (e_a05 e ++ [true]) (e_off e))
  | T98 true => Some (fun e => mkentry CNOC (e_code e) (e_a02 e) (e_a98 e) true (e_a99 e) (e_a99d e) (e_a99c e) (e_a05 e) (e_off e))
  | T98 false => Some (fun e => mkentry CNOC (e_code e) (e_a02 e) true (e_a98r e) (e_a99 e) (e_a99d e) (e_a99c e) (e_a05 e) (e_off e))
  | T99 RDishonored => Some (fun e => mkentry CDis (e_code e) (e_a02 e) (e_a98 e) (e_a98r e) (e_a99 e) true (e_a99c e) (e_a05 e) (e_off e))
  | T99 RContested => Some (fun e => mkentry CCon (e_code e) (e_a02 e) (e_a98 e) (e_a98r e) (e_a99 e) (e_a99d e) true (e_a05 e) (e_off e))
  | T99 RPlain => Some (fun e => mkentry CRet (e_code e) (e_a02 e) (e_a98 e) (e_a98r e) true (e_a99d e) (e_a99c e) (e_a05 e) (e_off e))
  | _ => None
  end.
(* parseADVAddenda: always an Addenda99, Category Return *)
Definition adv_effect (a : adv_entry) : adv_entry := mkadv CRet (ae_code a) true.
(* switchIATAddenda / mandatoryOptionalIATAddenda / nocIATAddenda / returnIATAddenda *)
Definition iat_effect (t : atag) : option (iat_entry -> iat_entry) :=
  let mk e c a10 a11 a12 a13 a14 a15 a16 a98 a99 a17 a18 :=
    mkie c (ie_code e) a10 a11 a12 a13 a14 a15 a16 a98 a99 a17 a18 in
  match t with
  | T10 => Some (fun e => mk e (ie_cat e) true (ie_a11 e) (ie_a12 e) (ie_a13 e) (ie_a14 e) (ie_a15 e) (ie_a16 e) (ie_a98 e) (ie_a99 e) (ie_a17 e) (ie_a18 e))
  | T11 => Some (fun e => mk e (ie_cat e) (ie_a10 e) true (ie_a12 e) (ie_a13 e) (ie_a14 e) (ie_a15 e) (ie_a16 e) (ie_a98 e) (ie_a99 e) (ie_a17 e) (ie_a18 e))
  | T12 => Some (fun e => mk e (ie_cat e) (ie_a10 e) (ie_a11 e) true (ie_a13 e) (ie_a14 e) (ie_a15 e) (ie_a16 e) (ie_a98 e) (ie_a99 e) (ie_a17 e) (ie_a18 e))
  | T13 => Some (fun e => mk e (ie_cat e) (ie_a10 e) (ie_a11 e) (ie_a12 e) true (ie_a14 e) (ie_a15 e) (ie_a16 e) (ie_a98 e) (ie_a99 e) (ie_a17 e) (ie_a18 e))
  | T14 => Some (fun e => mk e (ie_cat e) (ie_a10 e) (ie_a11 e) (ie_a12 e) (ie_a13 e) true (ie_a15 e) (ie_a16 e) (ie_a98 e) (ie_a99 e) (ie_a17 e) (ie_a18 e))
  | T15 => Some (fun e => mk e (ie_cat e) (ie_a10 e) (ie_a11 e) (ie_a12 e) (ie_a13 e) (ie_a14 e) true (ie_a16 e) (ie_a98 e) (ie_a99 e) (ie_a17 e) (ie_a18 e))
  | T16 => Some (fun e => mk e (ie_cat e) (ie_a10 e) (ie_a11 e) (ie_a12 e) (ie_a13 e) (ie_a14 e) (ie_a15 e) true (ie_a98 e) (ie_a99 e) (ie_a17 e) (ie_a18 e))
  | T17 => Some (fun e => mk e (ie_cat e) (ie_a10 e) (ie_a11 e) (ie_a12 e) (ie_a13 e) (ie_a14 e) (ie_a15 e) (ie_a16 e) (ie_a98 e) (ie_a99 e) (ie_a17 e ++ [true]) (ie_a18 e))
  | T18 => Some (fun e => mk e (ie_cat e) (ie_a10 e) (ie_a11 e) (ie_a12 e) (ie_a13 e) (ie_a14 e) (ie_a15 e) (ie_a16 e) (ie_a98 e) (ie_a99 e) (ie_a17 e) (ie_a18 e ++ [true]))
  | T98 _ => Some (fun e => mk e CNOC (ie_a10 e) (ie_a11 e) (ie_a12 e) (ie_a13 e) (ie_a14 e) (ie_a15 e) (ie_a16 e) true (ie_a99 e) (ie_a17 e) (ie_a18 e))
  | T99 _ => Some (fun e => mk e CRet (ie_a10 e) (ie_a11 e) (ie_a12 e) (ie_a13 e) (ie_a14 e) (ie_a15 e) (ie_a16 e) (ie_a98 e) true (ie_a17 e) (ie_a18 e))
  | _ => None
  end.

(* ------------------------------------------------------------------ *)
(* Operations on the batch the reader built *)

(* Batch.Category() as a value.  With no EntryDetail the method returns the private field `category`
   ("" or the category of the last entry at the time it was added: the reader adds entries with
   Category Forward) or falls through both loops: Forward either way. *)
Fixpoint first_category (l : list (option entry)) : R (option cat) :=
  match l with
  | [] => ret None
  | None :: _ => crash                                          (* batch.Entries[i].Category *)
  | Some e :: t => match e_cat e with CRet => ret (Some CRet) | CNOC => ret (Some CNOC) | _ => first_category t end
  end.
Fixpoint first_adv_category (l : list (option adv_entry)) : R (option cat) :=
  match l with
  | [] => ret None
  | None :: _ => crash
  | Some e :: t => match ae_cat e with CRet => ret (Some CRet) | CNOC => ret (Some CNOC) | _ => first_adv_category t end
  end.
Definition category_of (b : batch) : R cat :=
  match b_entries b with
  | [] => ret CFwd
  | es => c <- first_category es ;;
          match c with
          | Some c => ret c
          | None => c <- first_adv_category (b_adventries b) ;; ret (match c with Some c => c | None => CFwd end)
          end
  end.

(* setOffsetCategory(batch): in a Return batch the Forward entries named OFFSET become Return entries *)
Fixpoint mark_offsets (l : list (option entry)) : R (list (option entry)) :=
  match l with
  | [] => ret []
  | None :: _ => crash                                          (* entry.Category *)
  | Some e :: t => r <- mark_offsets t ;;
                   ret (Some (if cat_eqb (e_cat e) CFwd && e_off e then set_ecat CRet e else e) :: r)
  end.
Definition set_offset_category (b : batch) : R batch :=
  c <- category_of b ;;
  if cat_eqb c CRet then (es <- mark_offsets (b_entries b) ;; ret (set_entries es b)) else ret b.

(* `if !r.skipBatchAccumulation { r.File.AddBatch(batch) }` *)
Definition add_batch_file (b : batch) : M rstate unit :=
  s <- get ;;
  if r_skip s then ret tt else (f' <- ro (add_batch (Some b) (r_file s)) ;; put (set_rfile f' s)).

(* ------------------------------------------------------------------ *)
(* Transitions, one per function of reader.go *)

(* parseLine, case batchHeaderPos, before parseBH: accumulate a batch that had no control record *)
Definition flush_for_header : M rstate unit :=
  s <- get ;;
  match r_cur s with
  | None => ret tt
  | Some b =>
      match b_entries b with                                    (* len(r.currentBatch.GetEntries()) == 0 *)
      | [] => fail                                              (* ErrFileConsecutiveBatchHeaders *)
      | _ => put (set_cur None s) ;; add_batch_file b           (* batch.SetValidation: nil-safe *)
      end
  end.

(* parseBatchHeader *)
Definition parse_batch_header (a : ans) (h : header) (iatcor : bool) : M rstate unit :=
  if negb (a_ok a) then fail else                               (* maybeValidate(bh) *)
  match new_batch h with                                        (* NewBatch(bh): header + control installed; error for IAT / unknown codes *)
  | None => fail
  | Some b => modify (fun s => set_ari false (set_iatcor iatcor (set_cur (Some b) s)))   (* r.addCurrentBatch(batch) *)
  end.

(* parseIATBatchHeader: NewIATBatch(bh) installs control and header; Entries stay nil *)
Definition parse_iat_header (a : ans) (h : iat_header) : M rstate unit :=
  if negb (a_ok a) then fail else
  modify (fun s => set_iat_ari false (set_riat (mkic (Some h) true None) s)).

(* parseED → parseIATEntryDetail / parseEntryDetail *)
Definition parse_ed (a : ans) (code : nat) (off ari : bool) (acode : nat) (aari : bool) (icode : nat) (iari : bool) : M rstate unit :=
  s <- get ;;
  if present (ic_header (r_iat s)) then                         (* r.IATCurrentBatch.Header != nil *)
    if negb (a_ok a) then fail else
    put (set_iat_ari iari (set_riat (ic_add_entry (fresh_iat icode) (r_iat s)) s))     (* r.IATCurrentBatch.AddEntry(ed) *)
  else
    match r_cur s with
    | None => fail                                              (* ErrFileEntryOutsideBatch *)
    | Some b =>
        deref SCurHeader ;;                                     (* r.currentBatch.GetHeader().StandardEntryClassCode *)
        if negb (sec_eqb (h_sec (cur_header s)) ADV) then
          if negb (a_ok a) then fail else
          put (set_ari ari (set_cur (Some (set_entries (b_entries b ++ [Some (fresh_entry code off)]) b)) s))
        else
          if negb (a_ok a) then fail else
          put (set_ari aari (set_cur (Some (set_adventries (b_adventries b ++ [Some (fresh_adv acode)]) b)) s))
    end.

(* parseADVAddenda *)
Definition parse_adv_addenda (a : ans) : M rstate unit :=
  s <- get ;;
  match r_cur s with
  | None => fail
  | Some b =>
      match b_adventries b with                                 (* len(r.currentBatch.GetADVEntries()) == 0 *)
      | [] => fail                                              (* ErrFileAddendaOutsideEntry *)
      | _ =>
          deref SCurLastAdvEntry ;;                             (* entry := GetADVEntries()[entryIndex]; entry.AddendaRecordIndicator *)
          if negb (r_ari s) then ro (berr b) else               (* r.currentBatch.Error(…) reads the header *)
          if negb (a_ok a) then fail else
          put (set_cur (Some (set_adventries (upd_last adv_effect (b_adventries b)) b)) s)
      end
  end.

(* parseAddenda *)
Definition parse_addenda (a : ans) (t : atag) : M rstate unit :=
  s <- get ;;
  match r_cur s with
  | None => fail                                                (* ErrFileAddendaOutsideBatch *)
  | Some b =>
      deref SCurHeader ;;                                       (* r.currentBatch.GetHeader().StandardEntryClassCode *)
      if negb (sec_eqb (h_sec (cur_header s)) ADV) then
        match b_entries b with                                  (* len(r.currentBatch.GetEntries()) == 0 *)
        | [] => fail                                            (* ErrFileAddendaOutsideEntry *)
        | _ =>
            deref SCurLastEntry ;;                              (* entry := GetEntries()[entryIndex]; entry.AddendaRecordIndicator *)
            if negb (r_ari s) then ro (berr b) else
            match std_effect t with
            | None => ret tt                                    (* no case of `switch r.line[1:3]` *)
            | Some g =>
                if negb (a_ok a) then fail else
                put (set_cur (Some (set_entries (upd_last g (b_entries b)) b)) s)   (* GetEntries()[entryIndex].X = … *)
            end
        end
      else parse_adv_addenda a
  end.

(* parseIATAddenda + switchIATAddenda *)
Definition parse_iat_addenda (a : ans) (t : atag) : M rstate unit :=
  s <- get ;;
  match ic_entries (r_iat s) with
  | None => fail                                                (* GetEntries() == nil: ErrFileAddendaOutsideEntry *)
  | Some l =>
      deref SIatLastEntry ;;                                    (* entry := GetEntries()[len-1]; entry.AddendaRecordIndicator *)
      if negb (r_iat_ari s) then fail else
      match iat_effect t with
      | None => ret tt
      | Some g =>
          if negb (a_ok a) then fail else
          put (set_riat (ic_set_entries (upd_last g l) (r_iat s)) s)    (* r.IATCurrentBatch.Entries[entryIndex].X = … *)
      end
  end.

(* parseEDAddenda *)
Definition parse_ed_addenda (a : ans) (t : atag) : M rstate unit :=
  s <- get ;;
  std <- (match r_cur s with
          | None => ret false
          | Some _ => deref SCurHeader ;; ret (negb (r_iatcor s))   (* r.currentBatch.GetHeader().CompanyName != IATCOR *)
          end) ;;
  if std then parse_addenda a t else parse_iat_addenda a t.

(* parseBatchControl *)
Definition parse_batch_control (a : ans) : M rstate unit :=
  s <- get ;;
  match r_cur s with
  | Some b =>
      deref SCurHeader ;;                                       (* r.currentBatch.GetHeader().StandardEntryClassCode == ADV *)
      (if sec_eqb (h_sec (cur_header s)) ADV
       then deref SCurAdvControl                                (* GetADVControl(): nil-tested for SetValidation, then .Parse / .LineNumber *)
       else deref SCurControl) ;;                               (* GetControl().SetValidation is nil-safe; .Parse / .LineNumber *)
      if a_ok a then ret tt else fail
  | None =>
      match ic_entries (r_iat s) with
      | None => fail                                            (* ErrFileBatchControlOutsideBatch *)
      | Some _ => deref SIatControl ;; if a_ok a then ret tt else fail
      end
  end.

(* maybeValidate(batch, opts) *)
Definition maybe_validate_batch (a : ans) (b : batch) : M rstate unit := if a_bv a then ro (batch_validate b) else ret tt.
Definition maybe_validate_iat (a : ans) (b : iat_batch) : M rstate unit := if a_bv a then ro (iat_validate b) else ret tt.

(* parseLine, case batchControlPos *)
Definition line_batch_control (a : ans) : M rstate unit :=
  parse_batch_control a ;;
  s <- get ;;
  match r_cur s with
  | Some b =>
      put (set_cur None s) ;;
      b' <- ro (set_offset_category b) ;;
      add_batch_file b' ;;
      maybe_validate_batch a b'
  | None =>
      let ib := ic_batch (r_iat s) in
      put (set_riat ic_blank s) ;;                              (* r.IATCurrentBatch = IATBatch{} *)
      (if r_skip s then ret tt else modify (fun s => set_rfile (add_iat ib (r_file s)) s)) ;;
      maybe_validate_iat a ib
  end.

(* parseFileControl: File.IsADV() writes to the batches of r.File *)
Definition parse_file_control (a : ans) : M rstate unit :=
  _ <- zoom r_file set_rfile file_is_adv ;;
  if a_ok a then ret tt else fail.

(* parseFileHeader *)
Definition parse_file_header (a : ans) : M rstate unit := if a_ok a then ret tt else fail.

(* parseLine *)
Definition step (x : rline) : M rstate unit :=
  let a := snd x in
  match fst x with
  | LFileHeader => parse_file_header a
  | LBatchHeader h iatcor => flush_for_header ;; parse_batch_header a h iatcor
  | LIATHeader h => flush_for_header ;; parse_iat_header a h
  | LEntry code off ari acode aari icode iari => parse_ed a code off ari acode aari icode iari
  | LAddenda t => parse_ed_addenda a t
  | LBatchControl => line_batch_control a
  | LFileControl => parse_file_control a
  | LPadding => ret tt
  | LUnknown => fail
  end.

(* the loop of Read: an error of a line is added to r.errors and the next line is read *)
Definition caught {S} (m : M S unit) : M S bool :=
  fun s o => match m s o with OK _ s' o' => OK true s' o' | ERR s' o' => OK false s' o' | PANIC => PANIC end.

Fixpoint read_lines (ls : list rline) : M rstate (list bool) :=
  match ls with
  | [] => ret []
  | x :: t => e <- caught (step x) ;; r <- read_lines t ;; ret (e :: r)
  end.

(* the tail of Read: a lingering batch is accumulated; File.IsADV(); missing file header / control are data *)
Definition finish (a : ans) : M rstate unit :=
  s <- get ;;
  (match r_cur s with
   | Some b => put (set_cur None s) ;; add_batch_file b
   | None => ret tt
   end) ;;
  _ <- zoom r_file set_rfile file_is_adv ;;
  if a_ok a then ret tt else fail.

(* Reader.Read: the verdict of every line, of the tail, and (in the state) the file it returns.
   Read returns r.File also when it reports errors. *)
Definition reader_read (ls : list rline) (fin : ans) : M rstate (list bool * bool) :=
  oks <- read_lines ls ;; e <- caught (finish fin) ;; ret (oks, e).

Definition accepted (v : list bool * bool) : bool := forallb (fun x => x) (fst v) && snd v.

(* the same loop with one oracle per line (the correspondence gives every line its own answers) *)
Fixpoint read_hinted (ls : list (rline * list bool)) (s : rstate) : option (rstate * list bool) :=
  match ls with
  | [] => Some (s, [])
  | (x, o) :: t =>
      match step x s o with
      | OK _ s' _ => option_map (fun r => (fst r, true :: snd r)) (read_hinted t s')
      | ERR s' _ => option_map (fun r => (fst r, false :: snd r)) (read_hinted t s')
      | PANIC => None
      end
  end.
Definition finish_hinted (fin : ans) (s : rstate) : option (rstate * bool) :=
  match finish fin s [] with
  | OK _ s' _ => Some (s', true)
  | ERR s' _ => Some (s', false)
  | PANIC => None
  end.

(* ------------------------------------------------------------------ *)
(* The invariant, clause by clause *)

Inductive clause :=
| ClCurHeader      (* a current batch has its header *)
| ClCurControl     (* … and the control its SEC code calls for (ADV: ADVBatchControl, else BatchControl) *)
| ClCurEntries     (* … no nil entry, no nil Addenda05, no nil ADV entry *)
| ClCurSec         (* … a SEC code NewBatch accepts *)
| ClIatBuilt       (* a current IAT batch with a header has its control; with entries it has a header *)
| ClIatNonempty    (* the Entries slice of the current IAT batch is nil or non-empty *)
| ClIatEntries     (* … and holds no nil entry, no nil Addenda17 / Addenda18 *)
| ClFile.          (* the file built so far is well-formed (TotalOps.wf_file_strict) *)

Definition all_clauses : list clause :=
  [ClCurHeader; ClCurControl; ClCurEntries; ClCurSec; ClIatBuilt; ClIatNonempty; ClIatEntries; ClFile].

Definition holds (c : clause) (s : rstate) : bool :=
  match c with
  | ClCurHeader => match r_cur s with Some b => present (b_header b) | None => true end
  | ClCurControl =>
      match r_cur s with
      | Some b => match b_header b with Some h => if sec_eqb (h_sec h) ADV then b_adv b else b_control b | None => true end
      | None => true
      end
  | ClCurEntries => match r_cur s with Some b => wf_entries (b_entries b) && forallb present (b_adventries b) | None => true end
  | ClCurSec =>
      match r_cur s with
      | Some b => match b_header b with Some h => sec_valid (h_sec h) | None => true end
      | None => true
      end
  | ClIatBuilt =>
      let c := r_iat s in
      (negb (present (ic_header c)) || ic_control c) && (negb (present (ic_entries c)) || present (ic_header c))
  | ClIatNonempty => match ic_entries (r_iat s) with Some [] => false | _ => true end
  | ClIatEntries =>
      match ic_entries (r_iat s) with
      | Some l => forallb (fun oe => match oe with Some e => wf_iat_entry e | None => false end) l
      | None => true
      end
  | ClFile => wf_file_strict (r_file s)
  end.

Definition inv (s : rstate) : bool := forallb (fun c => holds c s) all_clauses.

(* what the code has tested when it reaches a site of kind [k] *)
Definition site_guard (k : rsite) (s : rstate) : bool :=
  match k with
  | SCurHeader => present (r_cur s)                                         (* r.currentBatch != nil *)
  | SCurControl => present (r_cur s) && negb (sec_eqb (h_sec (cur_header s)) ADV)
  | SCurAdvControl => present (r_cur s) && sec_eqb (h_sec (cur_header s)) ADV
  | SCurLastEntry => match r_cur s with Some b => nonempty (b_entries b) | None => false end
  | SCurLastAdvEntry => match r_cur s with Some b => nonempty (b_adventries b) | None => false end
  | SIatControl => negb (present (r_cur s)) && present (ic_entries (r_iat s))
  | SIatLastEntry => present (ic_entries (r_iat s))                        (* GetEntries() != nil *)
  end.

(* the clauses that make the dereference safe under that guard *)
Definition site_clauses (k : rsite) : list clause :=
  match k with
  | SCurHeader => [ClCurHeader]
  | SCurControl | SCurAdvControl => [ClCurHeader; ClCurControl]
  | SCurLastEntry | SCurLastAdvEntry => [ClCurEntries]
  | SIatControl => [ClIatBuilt]
  | SIatLastEntry => [ClIatNonempty; ClIatEntries]
  end.

(* ------------------------------------------------------------------ *)
(* Read, then operate *)

Definition read_then_ops (ls : list rline) (fin : ans) (xs : list op) : M rstate unit :=
  _ <- reader_read ls fin ;; zoom r_file set_rfile (run_ops xs).

(* ------------------------------------------------------------------ *)
(* package server with NACHA-text bodies given as line sequences: decodeCreateFileRequest keeps the file
   the reader returned whether it reported errors or not; decodeSegmentFileRequest answers with the
   error *)

Inductive troute :=
| TPlain (x : route)                                            (* the routes of TotalJson.v *)
| TCreateText (id : nat) (ls : list rline) (fin : ans)          (* POST /files/create, text/plain *)
| TSegmentText (ls : list rline) (fin : ans) (cid did : nat).   (* POST /segment, text/plain *)

Definition read_text (ls : list rline) (fin : ans) : M repo (file * bool) :=
  fun r o => match reader_read ls fin (init false) o with
             | OK v s o' => OK (r_file s, accepted v) r o'
             | ERR s o' => OK (r_file s, false) r o'
             | PANIC => PANIC
             end.

Definition handle_t (x : troute) : M repo unit :=
  match x with
  | TPlain x => handle x
  | TCreateText id ls fin => v <- read_text ls fin ;; handle (RCreateFile id (BText (fst v)))
  | TSegmentText ls fin cid did =>
      v <- read_text ls fin ;; if snd v then handle (RSegment (BText (fst v)) cid did) else fail
  end.

Fixpoint serve_t (xs : list troute) : M repo unit :=
  match xs with [] => ret tt | x :: t => try (handle_t x) ;; serve_t t end.

(* a plain route carries no pre-parsed text body: text only enters through the reader model *)
Definition no_text (x : route) : bool :=
  match x with
  | RCreateFile _ (BText _) | RSegment (BText _) _ _ => false
  | _ => true
  end.
Definition troute_ok (strict : bool) (x : troute) : bool :=
  match x with TPlain x => route_ok strict x && no_text x | _ => true end.

(* Proofs about the masking model (C20). *)
From ACH Require Import Utf8 Utf8Facts Mask.
Open Scope N_scope.

(* ---------- counting significant bytes ---------- *)

Lemma count_sig_app a b : count_sig (a ++ b) = (count_sig a + count_sig b)%nat.
Proof. unfold count_sig. now rewrite filter_app, app_length. Qed.

Lemma count_sig_cons x l : count_sig (x :: l) = ((if sig x then 1 else 0) + count_sig l)%nat.
Proof. unfold count_sig. cbn [filter]. now destruct (sig x). Qed.

Lemma count_sig_nil : count_sig [] = 0%nat.
Proof. reflexivity. Qed.

Lemma count_sig_rev l : count_sig (rev l) = count_sig l.
Proof.
  induction l as [|x l IH]; [reflexivity|]. cbn [rev].
  rewrite count_sig_app, IH, !count_sig_cons, count_sig_nil. lia.
Qed.

Lemma count_sig_firstn n l : (count_sig (firstn n l) <= count_sig l)%nat.
Proof.
  rewrite <- (firstn_skipn n l) at 2. rewrite count_sig_app. lia.
Qed.

Lemma count_sig_repeat_star n : count_sig (repeat star n) = 0%nat.
Proof. induction n as [|n IH]; [reflexivity|]. cbn [repeat]. now rewrite count_sig_cons, IH. Qed.

Lemma count_sig_substring p l : substring p l -> (count_sig p <= count_sig l)%nat.
Proof. intros (pre & post & ->). rewrite !count_sig_app. lia. Qed.

Lemma sig_star : sig star = false.  Proof. reflexivity. Qed.
Lemma sig_sp : sig sp = false.  Proof. reflexivity. Qed.

(* ---------- maskNumber ---------- *)

Lemma mask_tail_budget bs acc unm :
  (unm <= 4)%nat -> (count_sig (mask_tail bs acc unm) <= count_sig acc + (4 - unm))%nat.
Proof.
  revert acc unm. induction bs as [|b rest IH]; intros acc unm Hu; cbn [mask_tail]; [lia|].
  destruct (b =? sp) eqn:Eb.
  - specialize (IH ((match acc with x :: _ => if x =? star then star else sp | [] => sp end) :: acc) unm Hu).
    rewrite count_sig_cons in IH.
    assert (S : sig (match acc with x :: _ => if x =? star then star else sp | [] => sp end) = false).
    { destruct acc as [|x acc']; [reflexivity|]. now destruct (x =? star). }
    rewrite S in IH. exact IH.
  - destruct (Nat.ltb_spec unm 4) as [Hlt|Hge].
    + specialize (IH (b :: acc) (S unm) ltac:(lia)). rewrite count_sig_cons in IH.
      destruct (sig b); lia.
    + specialize (IH (star :: acc) unm Hu). rewrite count_sig_cons, sig_star in IH. lia.
Qed.

Lemma mask_tail_source bs acc unm :
  (count_sig (mask_tail bs acc unm) <= count_sig acc + count_sig bs)%nat.
Proof.
  revert acc unm. induction bs as [|b rest IH]; intros acc unm; cbn [mask_tail].
  - rewrite count_sig_nil. lia.
  - rewrite (count_sig_cons b rest). destruct (b =? sp) eqn:Eb.
    + specialize (IH ((match acc with x :: _ => if x =? star then star else sp | [] => sp end) :: acc) unm).
      rewrite count_sig_cons in IH.
      assert (S : sig (match acc with x :: _ => if x =? star then star else sp | [] => sp end) = false).
      { destruct acc as [|x acc']; [reflexivity|]. now destruct (x =? star). }
      rewrite S in IH. lia.
    + destruct (unm <? 4)%nat.
      * specialize (IH (b :: acc) (S unm)). rewrite count_sig_cons in IH. lia.
      * specialize (IH (star :: acc) unm). rewrite count_sig_cons, sig_star in IH. lia.
Qed.

Lemma mask_tail_length bs acc unm : length (mask_tail bs acc unm) = (length bs + length acc)%nat.
Proof.
  revert acc unm. induction bs as [|b rest IH]; intros acc unm; cbn [mask_tail length]; [reflexivity|].
  destruct (b =? sp); [|destruct (unm <? 4)%nat]; rewrite IH; cbn [length]; lia.
Qed.

(* at most four information-carrying bytes survive, and none of the first two *)
Lemma maskNumber_count s :
  (count_sig (maskNumber s) <= Nat.min 4 (count_sig (skipn 2 s)))%nat.
Proof.
  unfold maskNumber. destruct (rune_count s <? 5)%nat.
  - rewrite count_sig_repeat_star. lia.
  - rewrite !count_sig_cons, sig_star. cbn [Nat.add].
    pose proof (mask_tail_budget (rev (firstn (rune_count s - 2) (skipn 2 s))) [] 0 ltac:(lia)) as A.
    pose proof (mask_tail_source (rev (firstn (rune_count s - 2) (skipn 2 s))) [] 0) as B.
    rewrite count_sig_rev in B.
    pose proof (count_sig_firstn (rune_count s - 2) (skipn 2 s)) as C.
    rewrite count_sig_nil in A, B. lia.
Qed.

Lemma maskNumber_length s :
  length (maskNumber s) = if (rune_count s <? 5)%nat then 5%nat else rune_count s.
Proof.
  unfold maskNumber. destruct (Nat.ltb_spec (rune_count s) 5) as [H|H].
  - now rewrite repeat_length.
  - cbn [length]. rewrite mask_tail_length, rev_length, firstn_length, skipn_length.
    pose proof (rune_count_le s). cbn [length]. lia.
Qed.

(* the non-disclosure statement: a value with more significant bytes than the
   mask lets through is not a contiguous substring of the masked output *)
Theorem maskNumber_hides s v :
  (Nat.min 4 (count_sig (skipn 2 s)) < count_sig v)%nat -> ~ substring v (maskNumber s).
Proof.
  intros H Hs. apply count_sig_substring in Hs. pose proof (maskNumber_count s). lia.
Qed.

Corollary maskNumber_hides_long s v :
  (5 <= count_sig v)%nat -> ~ substring v (maskNumber s).
Proof. intros H. apply maskNumber_hides. lia. Qed.

(* a value all of whose significant bytes are in [s], one of them within the
   first two positions, is never shown complete, whatever its length *)
Corollary maskNumber_hides_left s v :
  count_sig v = count_sig s -> (0 < count_sig (firstn 2 s))%nat -> ~ substring v (maskNumber s).
Proof.
  intros Hv H2. apply maskNumber_hides.
  rewrite Hv. rewrite <- (firstn_skipn 2 s) at 2. rewrite count_sig_app. lia.
Qed.

(* ---------- maskName ---------- *)

(* shape automaton: [d] = number of non-blank bytes since the last blank
   (saturating at 2); from the third on they must all be asterisks *)
Fixpoint wm (d : nat) (l : bytes) : bool :=
  match l with
  | [] => true
  | b :: t =>
      if b =? sp then wm 0 t
      else if (2 <=? d)%nat then (b =? star) && wm 2 t
      else wm (S d) t
  end.

Definition nospace (w : bytes) : Prop := ~ In sp w.

Lemma wm_skip_prefix pre x d : wm d (pre ++ x) = true -> exists d', wm d' x = true.
Proof.
  revert d. induction pre as [|b pre IH]; intros d H; [now exists d|].
  cbn [app wm] in H. destruct (b =? sp); [now apply IH in H|].
  destruct (2 <=? d)%nat; [apply andb_prop in H as [_ H]|]; now apply IH in H.
Qed.

Lemma wm_word_stars w post d j :
  wm d (w ++ post) = true -> nospace w -> (j < length w)%nat -> (2 <= d + j)%nat ->
  nth j w 0 = star.
Proof.
  revert d j. induction w as [|b w IH]; intros d j H Hn Hj Hd; [cbn in Hj; lia|].
  cbn [app wm] in H.
  assert (Hb : (b =? sp) = false). { apply N.eqb_neq. intros ->. apply Hn. now left. }
  assert (Hn' : nospace w). { intros Hin. apply Hn. now right. }
  rewrite Hb in H. destruct j as [|j].
  - cbn [nth]. destruct (Nat.leb_spec 2 d) as [Hd2|Hd2]; [|lia].
    apply andb_prop in H as [H _]. now apply N.eqb_eq in H.
  - cbn [nth]. cbn [length] in Hj. destruct (Nat.leb_spec 2 d) as [Hd2|Hd2].
    + apply andb_prop in H as [_ H]. apply (IH 2%nat j H Hn'); lia.
    + apply (IH (S d) j H Hn'); lia.
Qed.

Lemma wm_stars d n rest : wm 2 rest = true -> (2 <= d)%nat -> wm d (repeat star n ++ rest) = true.
Proof.
  intros Hr. revert d. induction n as [|n IH]; intros d Hd; cbn [repeat app].
  - destruct rest as [|b t]; [reflexivity|]. cbn [wm] in *. destruct (b =? sp); [assumption|].
    destruct (Nat.leb_spec 2 d); [|lia]. exact Hr.
  - cbn [wm]. change (star =? sp) with false. cbn iota.
    destruct (Nat.leb_spec 2 d); [|lia]. change (star =? star) with true. cbn [andb]. apply IH. lia.
Qed.

(* after the masked form of a blank-free word, the automaton is happy with
   anything that starts with a blank (or with nothing) *)
Definition tail_ok (rest : bytes) : Prop :=
  match rest with [] => True | b :: t => b = sp /\ wm 0 t = true end.

Lemma tail_ok_wm rest d : tail_ok rest -> wm d rest = true.
Proof. destruct rest as [|b t]; [reflexivity|]. intros [-> H]. cbn [wm]. change (sp =? sp) with true. exact H. Qed.

Lemma wm_all_stars n rest d : tail_ok rest -> wm d (repeat star n ++ rest) = true.
Proof.
  intros Hr. revert d. induction n as [|n IH]; intros d; cbn [repeat app]; [now apply tail_ok_wm|].
  cbn [wm]. change (star =? sp) with false. cbn iota.
  destruct (2 <=? d)%nat; [change (star =? star) with true; cbn [andb]|]; apply IH.
Qed.

Lemma wm_mask_word w rest : nospace w -> tail_ok rest -> wm 0 (mask_word w ++ rest) = true.
Proof.
  intros Hn Hr. unfold mask_word. destruct (3 <? rune_count w)%nat eqn:E; [|now apply wm_all_stars].
  apply Nat.ltb_lt in E. pose proof (rune_count_le w) as Hl.
  destruct w as [|a [|b w']]; cbn [length] in Hl; try lia.
  cbn [firstn app].
  assert (Ha : (a =? sp) = false). { apply N.eqb_neq. intros ->. apply Hn. now left. }
  assert (Hb : (b =? sp) = false). { apply N.eqb_neq. intros ->. apply Hn. right. now left. }
  cbn [wm app]. rewrite Ha, Hb. cbn [Nat.leb]. now apply wm_all_stars.
Qed.

(* fields never contain a blank byte *)
Lemma chunk_nospace r bs :
  ((bs = [r] /\ r < 128) \/ Forall (fun b => 128 <= b) bs) -> is_space_rune r = false -> nospace bs.
Proof.
  intros [[-> Hr]|Hhi] Hs Hin.
  - destruct Hin as [->|[]]. vm_compute in Hs. discriminate.
  - rewrite Forall_forall in Hhi. apply Hhi in Hin. unfold sp in Hin. lia.
Qed.

Lemma fields_aux_nospace cs cur :
  Forall (fun c : N * bytes => (snd c = [fst c] /\ fst c < 128) \/ Forall (fun b => 128 <= b) (snd c)) cs ->
  nospace cur -> Forall nospace (fields_aux cs cur).
Proof.
  revert cur. induction cs as [|[r bs] cs IH]; intros cur Hcs Hcur; cbn [fields_aux].
  - destruct cur; constructor; [assumption|constructor].
  - inversion Hcs as [|? ? Hc Hrest]; subst. cbn [fst snd] in Hc.
    destruct (is_space_rune r) eqn:Es.
    + destruct cur as [|x cur'].
      * apply IH; [assumption|easy].
      * constructor; [assumption|]. apply IH; [assumption|easy].
    + apply IH; [assumption|]. intros Hin. apply in_app_or in Hin as [Hin|Hin]; [now apply Hcur|].
      now apply (chunk_nospace r bs Hc Es).
Qed.

Lemma fields_nospace s : Forall nospace (fields s).
Proof. unfold fields. apply fields_aux_nospace; [apply chunks_shape|easy]. Qed.

Lemma wm_join ws : Forall nospace ws -> wm 0 (join [sp] (map mask_word ws)) = true.
Proof.
  induction ws as [|w ws IH]; intros H; [reflexivity|].
  inversion H as [|? ? Hw Hws]; subst. specialize (IH Hws).
  cbn [map join]. destruct ws as [|w2 ws'].
  - cbn [map]. rewrite <- (app_nil_r (mask_word w)). now apply wm_mask_word.
  - cbn [map] in *. set (restj := join [sp] (mask_word w2 :: map mask_word ws')) in *.
    change (match map mask_word ws' with
            | [] => mask_word w ++ [sp] ++ restj | _ => mask_word w ++ [sp] ++ restj end)
      with (mask_word w ++ [sp] ++ restj).
    apply wm_mask_word; [assumption|]. cbn. split; [reflexivity|exact IH].
Qed.

Lemma maskName_shape s : wm 0 (maskName s) = true.
Proof. unfold maskName. apply wm_join, fields_nospace. Qed.

(* non-disclosure for names: a blank-free byte string with anything other than
   an asterisk at byte index >= 2 never appears in the masked output *)
Theorem maskName_hides s w j :
  nospace w -> (2 <= j < length w)%nat -> nth j w 0 <> star -> ~ substring w (maskName s).
Proof.
  intros Hn [Hj1 Hj2] Hne (pre & post & E).
  pose proof (maskName_shape s) as H. rewrite E in H.
  apply wm_skip_prefix in H as [d H].
  apply Hne. apply (wm_word_stars w post d j H Hn Hj2). lia.
Qed.

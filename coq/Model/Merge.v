(* Gallina model of merge.go: MergeFilesWith = outFile.add over the inputs, then
   convertToFiles.  Executable definitions only (proofs are in MergeFacts.v).

   The model follows the code literally:
   - pickOutFile walks the linked list of out-files comparing ImmediateOrigin and
     ImmediateDestination, appending a new out-file at the end;
   - findOutBatch returns the FIRST batch whose header is Equal and whose tree-map
     does not contain the entry's trace number, otherwise a batch is appended;
   - the tree-map (igrmk/treemap, key string, Go's < on strings = bytewise
     lexicographic) is a strictly sorted association list;
   - convertToFiles is the triple loop with the accumulator
     (out, file, batch, currentFileLineCount, currentFileDollarAmount, batchNumber)
     and the overflow/merge gotos; batchNumber is never reset;
   - File.Create's renumbering (BatchNumber <= 1 => position) is applied to every
     emitted file.
   Abstracted: an entry is (trace, amount, addendaCount, id) where id stands for all
   remaining content (the pointer); a batch header is the seven fields compared by
   BatchHeader.Equal plus an id for the rest; ValidateOpts and the error paths of
   NewBatch/Batch.Create/File.Create are not modelled (see docs/C08.md). *)
From Coq Require Import List NArith ZArith Bool.
From ACH Require Import Bytes.
Import ListNotations.
Open Scope Z_scope.

(* ---------------------------------------------------------------- keys *)

(* Go string comparison: lexicographic over bytes, a proper prefix is smaller *)
Fixpoint bcmp (a b : bytes) : comparison :=
  match a, b with
  | [], [] => Eq
  | [], _ :: _ => Lt
  | _ :: _, [] => Gt
  | x :: a', y :: b' =>
      match N.compare x y with
      | Eq => bcmp a' b'
      | Lt => Lt
      | Gt => Gt
      end
  end.

Definition is_eq (c : comparison) : bool := match c with Eq => true | _ => false end.

(* ---------------------------------------------------------------- data *)

Record entry := mkEntry {
  e_trace : bytes;     (* EntryDetail.TraceNumber *)
  e_amount : Z;        (* EntryDetail.Amount *)
  e_addenda : Z;       (* EntryDetail.addendaCount() *)
  e_id : N             (* everything else (the *EntryDetail itself) *)
}.

Record header := mkHeader {
  h_scc : Z;           (* ServiceClassCode *)
  h_name : bytes;      (* CompanyName (compared with strings.EqualFold) *)
  h_cid : bytes;       (* CompanyIdentification *)
  h_sec : bytes;       (* StandardEntryClassCode *)
  h_desc : bytes;      (* CompanyEntryDescription *)
  h_eed : bytes;       (* EffectiveEntryDate *)
  h_odfi : bytes;      (* ODFIIdentification *)
  h_rest : N           (* fields Equal does not look at *)
}.

(* ASCII simple case folding (strings.EqualFold restricted to ASCII names) *)
Definition upper (b : N) : N := if (97 <=? b)%N && (b <=? 122)%N then (b - 32)%N else b.
Definition fold_eq (a b : bytes) : bool := bytes_eqb (map upper a) (map upper b).

(* BatchHeader.Equal, checks in source order *)
Definition header_equal (a b : header) : bool :=
  if negb (h_scc a =? h_scc b) then false
  else if negb (fold_eq (h_name a) (h_name b)) then false
  else if negb (bytes_eqb (h_cid a) (h_cid b)) then false
  else if negb (bytes_eqb (h_sec a) (h_sec b)) then false
  else if negb (bytes_eqb (h_desc a) (h_desc b)) then false
  else if negb (bytes_eqb (h_eed a) (h_eed b)) then false
  else if negb (bytes_eqb (h_odfi a) (h_odfi b)) then false
  else true.

Record ibatch := mkIBatch { ib_header : header; ib_entries : list entry }.
Record ifile := mkIFile {
  if_origin : bytes;   (* Header.ImmediateOrigin *)
  if_dest : bytes;     (* Header.ImmediateDestination *)
  if_hid : N;          (* rest of the file header *)
  if_batches : list ibatch
}.

(* ---------------------------------------------------------------- tree-map *)

Definition tmap := list (bytes * entry).

Fixpoint tm_contains (k : bytes) (m : tmap) : bool :=
  match m with
  | [] => false
  | (k', _) :: r => is_eq (bcmp k k') || tm_contains k r
  end.

Fixpoint tm_set (k : bytes) (v : entry) (m : tmap) : tmap :=
  match m with
  | [] => [(k, v)]
  | (k', v') :: r =>
      match bcmp k k' with
      | Lt => (k, v) :: m
      | Eq => (k, v) :: r
      | Gt => (k', v') :: tm_set k v r
      end
  end.

(* ---------------------------------------------------------------- outFile.add *)

Record obatch := mkOBatch { ob_header : header; ob_entries : tmap }.
Record ofile := mkOFile { of_origin : bytes; of_dest : bytes; of_hid : N; of_batches : list obatch }.

(* findOutBatch + (append new batch) + entries.Set *)
Fixpoint place (h : header) (e : entry) (bs : list obatch) : list obatch :=
  match bs with
  | [] => [mkOBatch h (tm_set (e_trace e) e [])]
  | b :: r =>
      if header_equal (ob_header b) h && negb (tm_contains (e_trace e) (ob_entries b))
      then mkOBatch (ob_header b) (tm_set (e_trace e) e (ob_entries b)) :: r
      else b :: place h e r
  end.

Definition add_batch (bs : list obatch) (ib : ibatch) : list obatch :=
  fold_left (fun acc e => place (ib_header ib) e acc) (ib_entries ib) bs.

Definition add_to (o : ofile) (f : ifile) : ofile :=
  mkOFile (of_origin o) (of_dest o) (of_hid o) (fold_left add_batch (if_batches f) (of_batches o)).

Definition new_ofile (f : ifile) : ofile := mkOFile (if_origin f) (if_dest f) (if_hid f) [].

Definition same_route (o : ofile) (f : ifile) : bool :=
  bytes_eqb (if_origin f) (of_origin o) && bytes_eqb (if_dest f) (of_dest o).

(* pickOutFile followed by the loops of add *)
Fixpoint add_file (st : list ofile) (f : ifile) : list ofile :=
  match st with
  | [] => [add_to (new_ofile f) f]
  | o :: r => if same_route o f then add_to o f :: r else o :: add_file r f
  end.

Definition build_state (fs : list ifile) : list ofile :=
  match fs with
  | [] => []
  | f0 :: _ => fold_left add_file fs [new_ofile f0]
  end.

(* ---------------------------------------------------------------- convertToFiles *)

Record rbatch := mkRBatch { rb_number : Z; rb_header : header; rb_entries : list entry }.
Record rfile := mkRFile { rf_origin : bytes; rf_dest : bytes; rf_hid : N; rf_batches : list rbatch }.
Record conds := mkConds { maxLines : Z; maxDollar : Z }.

Definition nacha_limit : Z := 999999999999.

Definition effective_dollar (c : conds) : Z :=
  if (maxDollar c =? 0) || (nacha_limit <? maxDollar c) then nacha_limit else maxDollar c.

Record cstate := mkC {
  c_out : list rfile;     (* out *)
  c_file : list rbatch;   (* file.Batches *)
  c_bent : list entry;    (* batch.Entries; the batch's number is c_bn *)
  c_L : Z;                (* currentFileLineCount *)
  c_D : Z;                (* currentFileDollarAmount *)
  c_bn : Z                (* batchNumber *)
}.

(* File.Create: "create ascending batch numbers unless batch number has been provided" *)
Fixpoint renumber (seq : Z) (bs : list rbatch) : list rbatch :=
  match bs with
  | [] => []
  | b :: r =>
      (if rb_number b <=? 1 then mkRBatch seq (rb_header b) (rb_entries b) else b) :: renumber (seq + 1) r
  end.

Definition create_file (o : ofile) (bs : list rbatch) : rfile :=
  mkRFile (of_origin o) (of_dest o) (of_hid o) (renumber 1 bs).

(* if len(batch.GetEntries()) > 0 { batch.Create(); file.AddBatch(batch) } *)
Definition close_batch (hdr : header) (s : cstate) : list rbatch :=
  match c_bent s with
  | [] => c_file s
  | _ :: _ => c_file s ++ [mkRBatch (c_bn s) hdr (c_bent s)]
  end.

(* if len(file.Batches) > 0 { file.Create(); out = append(out, file) } *)
Definition close_file (o : ofile) (bs : list rbatch) (out : list rfile) : list rfile :=
  match bs with
  | [] => out
  | _ :: _ => out ++ [create_file o bs]
  end.

Definition exceeds (c : conds) (M : Z) (L D : Z) (e : entry) : bool :=
  ((0 <? maxLines c) && (maxLines c <? L + (1 + e_addenda e)))
  || ((0 <? M) && (M <? D + e_amount e)).

Definition step_entry (c : conds) (M : Z) (o : ofile) (hdr : header) (s : cstate) (e : entry) : cstate :=
  if exceeds c M (c_L s) (c_D s) e
  then (* overflow: ; then merge: *)
    mkC (close_file o (close_batch hdr s) (c_out s)) [] [e]
        (4 + (1 + e_addenda e)) (0 + e_amount e) (c_bn s + 1)
  else (* merge: *)
    mkC (c_out s) (c_file s) (c_bent s ++ [e])
        (c_L s + (1 + e_addenda e)) (c_D s + e_amount e) (c_bn s).

Definition step_batch (c : conds) (M : Z) (o : ofile) (s : cstate) (b : obatch) : cstate :=
  let s1 := mkC (c_out s) (c_file s) [] (c_L s + 2) (c_D s) (c_bn s + 1) in
  let s2 := fold_left (step_entry c M o (ob_header b)) (map snd (ob_entries b)) s1 in
  mkC (c_out s2) (close_batch (ob_header b) s2) [] (c_L s2) (c_D s2) (c_bn s2).

Definition step_file (c : conds) (M : Z) (acc : list rfile * Z) (o : ofile) : list rfile * Z :=
  let s0 := mkC (fst acc) [] [] 2 0 (snd acc) in
  let s1 := fold_left (step_batch c M o) (of_batches o) s0 in
  (close_file o (c_file s1) (c_out s1), c_bn s1).

Definition convert (c : conds) (st : list ofile) : list rfile :=
  fst (fold_left (step_file c (effective_dollar c)) st ([], 0)).

Definition merge_files (fs : list ifile) (c : conds) : list rfile := convert c (build_state fs).

(* ---------------------------------------------------------------- observations *)

Definition entry_lines (e : entry) : Z := 1 + e_addenda e.
Definition zsum (l : list Z) : Z := fold_right Z.add 0 l.
Definition batch_lines (b : rbatch) : Z := 2 + zsum (map entry_lines (rb_entries b)).
Definition batch_amount (b : rbatch) : Z := zsum (map e_amount (rb_entries b)).
Definition batches_lines (bs : list rbatch) : Z := zsum (map batch_lines bs).
Definition batches_amount (bs : list rbatch) : Z := zsum (map batch_amount bs).
Definition batches_entries (bs : list rbatch) : list entry := flat_map rb_entries bs.
(* records of the rendered file without 9-filler: header, control, batches *)
Definition file_lines (g : rfile) : Z := 2 + batches_lines (rf_batches g).
Definition file_amount (g : rfile) : Z := batches_amount (rf_batches g).
Definition file_entries (g : rfile) : list entry := batches_entries (rf_batches g).

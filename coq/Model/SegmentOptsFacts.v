(* Facts about the option handling of the segment model (SegmentOpts.v):
   the option lists line up with the batches Segment.part / ipart hand over; every
   output batch holds at least the options of the batch its entries come from, a
   fresh (split) batch also those of the file; nothing is invented; a batch that is
   handed over whole keeps exactly its own value. *)
From Coq Require Import ZArith NArith List Bool.
Import ListNotations.
From ACH Require Import TxCodes RevTable SegTable Segment SegmentOpts.
From ACH Require MergeOpts MergeOptsFacts.

Notation osub := MergeOptsFacts.osub.
Notation oflag := MergeOpts.oflag.

Lemma part_opts_length fixed T cr fo b :
  length (part_opts fixed T cr fo b) = length (part T cr (so_batch b)).
Proof.
  unfold part_opts. destruct (sb_adv (so_batch b)); [apply map_length|].
  destruct (scc_lookup _ _) as [[ | | | ]|]; apply map_length.
Qed.

Lemma ipart_opts_length fixed T cr fo b :
  length (ipart_opts fixed T cr fo b) = length (ipart T cr (so_batch b)).
Proof.
  unfold ipart_opts. destruct (scc_lookup _ _) as [[ | | | ]|]; apply map_length.
Qed.

Lemma flat_map_length_eq {A B C} (f : A -> list B) (g : A -> list C) l :
  (forall x, length (f x) = length (g x)) -> length (flat_map f l) = length (flat_map g l).
Proof.
  intros H. induction l as [|x l IH]; [reflexivity|]. cbn [flat_map]. now rewrite !app_length, H, IH.
Qed.

(* the view has one option value per batch of the corresponding output of Segment.segment *)
Theorem side_opts_aligned fixed T cr f :
  let '(_, bs, is) := side_opts fixed T cr f in
  length bs = length (flat_map (part T cr) (map so_batch (sfo_batches f)))
  /\ length is = length (flat_map (ipart T cr) (map so_batch (sfo_iat f))).
Proof.
  unfold side_opts. rewrite !flat_map_concat_map, !map_map, <- !flat_map_concat_map. split.
  - apply flat_map_length_eq. intros x. apply part_opts_length.
  - apply flat_map_length_eq. intros x. apply ipart_opts_length.
Qed.

Lemma fresh_opts_kept fo b : osub (so_opts b) (fresh_opts true fo b) /\ osub fo (fresh_opts true fo b).
Proof. unfold fresh_opts. split; [apply MergeOptsFacts.osub_merge_r|apply MergeOptsFacts.osub_merge_l]. Qed.

(* every batch an input batch contributes to an output file holds at least the options
   stored on that input batch *)
Lemma part_opts_kept T cr fo b o : In o (part_opts true T cr fo b) -> osub (so_opts b) o.
Proof.
  unfold part_opts. intros H.
  assert (F : In o (map (fun _ : sbatch => fresh_opts true fo b) (part T cr (so_batch b))) -> osub (so_opts b) o).
  { intros Hi. apply in_map_iff in Hi as (? & <- & _). apply fresh_opts_kept. }
  assert (R : In o (map (fun _ : sbatch => so_opts b) (part T cr (so_batch b))) -> osub (so_opts b) o).
  { intros Hi. apply in_map_iff in Hi as (? & <- & _). apply MergeOptsFacts.osub_refl. }
  destruct (sb_adv (so_batch b)); [now apply F|].
  destruct (scc_lookup _ _) as [[ | | | ]|]; auto.
Qed.

Lemma ipart_opts_kept T cr fo b o : In o (ipart_opts true T cr fo b) -> osub (so_opts b) o.
Proof.
  unfold ipart_opts. intros H.
  destruct (scc_lookup _ _) as [[ | | | ]|]; apply in_map_iff in H as (? & <- & _);
    try apply MergeOptsFacts.osub_refl; apply fresh_opts_kept.
Qed.

(* a batch split off a mixed batch (standard, ADV or IAT) also holds the file's options *)
Definition splits_std (T : stables) (b : sbatcho) : bool :=
  sb_adv (so_batch b) ||
  match scc_lookup (st_scc_std T) (sb_scc (so_batch b)) with Some (SSplit _ _) => true | _ => false end.
Definition splits_iat (T : stables) (b : sbatcho) : bool :=
  match scc_lookup (st_scc_iat T) (sb_scc (so_batch b)) with Some (SSplit _ _) => true | _ => false end.

Lemma part_opts_split T cr fo b o :
  splits_std T b = true -> In o (part_opts true T cr fo b) -> osub fo o /\ o = omerge fo (so_opts b).
Proof.
  unfold splits_std, part_opts. intros Hs H.
  destruct (sb_adv (so_batch b)); cbn [orb] in Hs.
  - apply in_map_iff in H as (? & <- & _). split; [apply fresh_opts_kept|reflexivity].
  - destruct (scc_lookup _ _) as [[ | | | ]|]; try discriminate.
    apply in_map_iff in H as (? & <- & _). split; [apply fresh_opts_kept|reflexivity].
Qed.

Lemma ipart_opts_split T cr fo b o :
  splits_iat T b = true -> In o (ipart_opts true T cr fo b) -> osub fo o /\ o = omerge fo (so_opts b).
Proof.
  unfold splits_iat, ipart_opts. intros Hs H.
  destruct (scc_lookup _ _) as [[ | | | ]|]; try discriminate.
  apply in_map_iff in H as (? & <- & _). split; [apply fresh_opts_kept|reflexivity].
Qed.

(* a batch that is handed over whole keeps exactly its own value *)
Lemma part_opts_reuse T cr fo b o :
  splits_std T b = false -> In o (part_opts true T cr fo b) -> o = so_opts b.
Proof.
  unfold splits_std, part_opts. intros Hs H.
  destruct (sb_adv (so_batch b)); cbn [orb] in Hs; [discriminate|].
  destruct (scc_lookup _ _) as [[ | | | ]|]; try discriminate;
    apply in_map_iff in H as (? & <- & _); reflexivity.
Qed.

(* nothing invented: a flag of an output batch is a flag of the file or of the source batch *)
Lemma part_opts_no_invention T cr fo b o i :
  In o (part_opts true T cr fo b) -> oflag i o = true -> oflag i fo = true \/ oflag i (so_opts b) = true.
Proof.
  intros H Hf. destruct (splits_std T b) eqn:E.
  - apply (part_opts_split _ _ _ _ _ E) in H as [_ ->].
    rewrite MergeOptsFacts.oflag_omerge in Hf. now apply orb_true_iff in Hf.
  - apply (part_opts_reuse _ _ _ _ _ E) in H as ->. now right.
Qed.

(* the whole file: every option value of an output batch covers its source batch's *)
Theorem side_opts_kept T cr f :
  let '(fo, bs, is) := side_opts true T cr f in
  fo = sfo_opts f
  /\ (forall o, In o bs -> exists b, In b (sfo_batches f) /\ In o (part_opts true T cr (sfo_opts f) b) /\ osub (so_opts b) o)
  /\ (forall o, In o is -> exists b, In b (sfo_iat f) /\ In o (ipart_opts true T cr (sfo_opts f) b) /\ osub (so_opts b) o).
Proof.
  unfold side_opts. split; [reflexivity|]. split; intros o Ho; apply in_flat_map in Ho as (b & Hb & Ho);
    exists b; (split; [exact Hb|split; [exact Ho|]]).
  - eapply part_opts_kept; eauto.
  - eapply ipart_opts_kept; eauto.
Qed.

(* before 9ad8a729: whatever the file and the batch carry, a split batch carries nothing *)
Lemma unfixed_split_drops T cr fo b o :
  splits_std T b = true -> In o (part_opts false T cr fo b) -> o = None.
Proof.
  unfold splits_std, part_opts. intros Hs H.
  destruct (sb_adv (so_batch b)); cbn [orb] in Hs.
  - apply in_map_iff in H as (? & <- & _). reflexivity.
  - destruct (scc_lookup _ _) as [[ | | | ]|]; try discriminate.
    apply in_map_iff in H as (? & <- & _). reflexivity.
Qed.

(* Phase 3, C11: the Category bookkeeping of File.AddBatch that every batch of a segment
   output goes through, on top of the SegmentFile model (Segment.v).  Definitions only.

   Go (file.go):
     func (f *File) AddBatch(batch Batcher) []Batcher {
         if batch.Category() == CategoryNOC    { f.NotificationOfChange = append(f.NotificationOfChange, batch) }
         if batch.Category() == CategoryReturn { f.ReturnEntries = append(f.ReturnEntries, batch) }
         f.Batches = append(f.Batches, batch) ... }
   Batch.Category() (batch.go): the Category of the first entry (standard entries, then ADV
   entries) that is Return or NOC, otherwise Forward.  (A batch without entries answers with
   its remembered category; SegmentFile never adds one: fresh halves are added only when
   they hold entries and a reused batch passed Validate, which refuses empty batches.)
   AddIATBatch keeps no such lists.

   The three slices hold the SAME pointers: File.Create numbers the batches through
   f.Batches and the change is seen through ReturnEntries / NotificationOfChange.  The model
   therefore keeps the two lists as POSITIONS into the batch list.

   EntryDetail.Category is not a field of the Segment model's entries; as for the payloads of
   the validator abstraction it is a function [cat] of the entry identity, which SegmentFile
   moves unchanged (entries are moved by pointer). *)
From Coq Require Import ZArith NArith List Bool.
Import ListNotations.
From ACH Require Import TxCodes RevTable SegTable Segment.
Open Scope Z_scope.

(* CategoryForward, CategoryReturn, CategoryNOC, CategoryDishonoredReturn, CategoryDishonoredReturnContested *)
Inductive category := CForward | CReturn | CNOC | CDishonored | CContested.

Definition cat_eqb (a b : category) : bool :=
  match a, b with
  | CForward, CForward | CReturn, CReturn | CNOC, CNOC | CDishonored, CDishonored | CContested, CContested => true
  | _, _ => false
  end.

(* what one entry makes Batch.Category() answer when it is the first one looked at *)
Definition scat (c : category) : category :=
  match c with CReturn => CReturn | CNOC => CNOC | _ => CForward end.

Section Cat.
  Variable cat : N -> category.

  Definition ecat (e : entry) : category := cat (e_id e).

  (* Batch.Category() of a batch with entries *)
  Fixpoint first_special (es : list entry) : category :=
    match es with
    | [] => CForward
    | e :: r => match ecat e with CReturn => CReturn | CNOC => CNOC | _ => first_special r end
    end.
  Definition batch_cat (b : sbatch) : category := first_special (sb_entries b).

  Definition is_ret (b : sbatch) : bool := cat_eqb (batch_cat b) CReturn.
  Definition is_noc (b : sbatch) : bool := cat_eqb (batch_cat b) CNOC.

  (* f.Batches, f.ReturnEntries, f.NotificationOfChange (the latter two as positions) *)
  Record blists := mkbl { bl_batches : list sbatch; bl_ret : list nat; bl_noc : list nat }.
  Definition bl_empty : blists := mkbl [] [] [].

  Definition add_batch (st : blists) (b : sbatch) : blists :=
    let i := length (bl_batches st) in
    mkbl (bl_batches st ++ [b])
         (if is_ret b then bl_ret st ++ [i] else bl_ret st)
         (if is_noc b then bl_noc st ++ [i] else bl_noc st).

  (* the AddBatch calls of segmentFileBatches on the credit (cr = true) / debit file, in order *)
  Definition walk (T : stables) (cr : bool) (bs : list sbatch) : blists :=
    fold_left add_batch (flat_map (part T cr) bs) bl_empty.

  (* a file built batch by batch with AddBatch (what the reader, FileFromJSON and every
     caller of AddBatch produce) *)
  Definition built (bs : list sbatch) : blists := fold_left add_batch bs bl_empty.

  (* the batches a position list denotes *)
  Definition sel (bs : list sbatch) (idx : list nat) : list sbatch :=
    flat_map (fun i => match nth_error bs i with Some b => [b] | None => [] end) idx.

  (* an output file with its two lists *)
  Record gfile := mkg { g_file : sfile; g_ret : list nat; g_noc : list nat }.
  Definition g_returns (g : gfile) : list sbatch := sel (sf_batches (g_file g)) (g_ret g).
  Definition g_nocs (g : gfile) : list sbatch := sel (sf_batches (g_file g)) (g_noc g).

  Inductive gres := GOk (cf df : gfile) | GErr (e : serr).

  (* SegmentFile with the bookkeeping: the batch lists of [segment] are the ones the walk
     hands to AddBatch (SegmentGenFacts.walk_batches); File.Create keeps positions *)
  Definition segment_gen (T : stables) (f : sfile) : gres :=
    match segment T f with
    | SErr e => GErr e
    | SOk cf df =>
        let wc := walk T true (sf_batches f) in
        let wd := walk T false (sf_batches f) in
        GOk (mkg cf (bl_ret wc) (bl_noc wc)) (mkg df (bl_ret wd) (bl_noc wd))
    end.

  (* positions (from [i]) of the batches satisfying [p] *)
  Fixpoint positions (p : sbatch -> bool) (i : nat) (ys : list sbatch) : list nat :=
    match ys with
    | [] => []
    | y :: r => if p y then i :: positions p (S i) r else positions p (S i) r
    end.

  (* Batch.isCategory (batch.go), literally: the first entry's category; with more than one
     entry every entry must have it, entries labelled NOC are skipped *)
  Definition is_category_ok (b : sbatch) : bool :=
    match sb_entries b with
    | [] => true
    | e0 :: r =>
        match r with
        | [] => true
        | _ => forallb (fun e => cat_eqb (ecat e) CNOC || cat_eqb (ecat e) (ecat e0)) (sb_entries b)
        end
    end.

  (* every entry would make Batch.Category() give the batch's answer *)
  Definition cat_uniform (b : sbatch) : bool :=
    forallb (fun e => cat_eqb (scat (ecat e)) (batch_cat b)) (sb_entries b).

  (* ---- the category check inside validation.  Batch.verify ends with isCategory, so
     File.Validate refuses a non-ADV file with a batch that fails it (the batches of an ADV
     file are not validated); SegmentFile runs File.Validate on the input and on both outputs. *)
  Definition cats_ok (bs : list sbatch) : bool := is_adv_file bs || forallb is_category_ok bs.

  Definition validate_cat (T : stables) (f : sfile) : option verr :=
    if is_adv_file (sf_batches f) then validate T f
    else if forallb (fun b => batch_ok T b && is_category_ok b) (sf_batches f) then validate T f
    else Some VBatch.

  (* SegmentFile with categories: the gate, the walk with AddBatch's lists, Create and Validate
     of both outputs including isCategory of every output batch *)
  Definition segment_cat (T : stables) (f : sfile) : gres :=
    match validate_cat T f with
    | Some v => GErr (EInput v)
    | None =>
        match segment_gen T f with
        | GErr e => GErr e
        | GOk gc gd =>
            if cats_ok (sf_batches (g_file gc)) && cats_ok (sf_batches (g_file gd))
            then GOk gc gd else GErr (EOutput VBatch)
        end
    end.
End Cat.

(* ---- batch numbers ------------------------------------------------------------------- *)

(* l1 is l2 with some elements left out *)
Fixpoint sublist (l1 l2 : list Z) : Prop :=
  match l1, l2 with
  | [], _ => True
  | _ :: _, [] => False
  | x :: r1, y :: r2 => (x = y /\ sublist r1 r2) \/ sublist l1 r2
  end.

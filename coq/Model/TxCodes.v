(* Transaction-code tables shared by the Reversal (C13) and SegmentFile (C11)
   models: arms of Go `switch entry.TransactionCode` statements as regenerated
   by the translator, first-match classification, the NACHA direction rule of
   EntryDetail.CreditOrDebit, entries and directed sums.  Definitions only. *)
From Coq Require Import ZArith NArith List Bool.
Import ListNotations.
Open Scope Z_scope.

Inductive target := TCredit | TDebit | TNone.

Definition target_eqb (a b : target) : bool :=
  match a, b with
  | TCredit, TCredit | TDebit, TDebit | TNone, TNone => true
  | _, _ => false
  end.

Definition opposite (t : target) : target :=
  match t with TCredit => TDebit | TDebit => TCredit | TNone => TNone end.

(* one `case A, B, …:` clause; [sa_unknown] = the translator did not recognise its body *)
Record seg_arm := mkseg { sa_codes : list Z; sa_target : target; sa_unknown : bool }.

(* arms of a `switch header.ServiceClassCode` in the segment functions *)
Inductive scc_kind := SSplit (credit_class debit_class : Z) | SReuseCredit | SReuseDebit | SUnknown.
Record scc_arm := mkscc { sc_code : Z; sc_kind : scc_kind }.

Definition memz (c : Z) (l : list Z) : bool := existsb (Z.eqb c) l.

(* Go switch semantics: the first clause listing the value wins; no clause: nothing happens *)
Fixpoint classify (arms : list seg_arm) (c : Z) : target :=
  match arms with
  | [] => TNone
  | a :: r => if memz c (sa_codes a) then sa_target a else classify r c
  end.

Definition arms_known (arms : list seg_arm) : bool := forallb (fun a => negb (sa_unknown a)) arms.
Definition all_codes (arms : list seg_arm) : list Z := flat_map sa_codes arms.

(* EntryDetail.CreditOrDebit: two-digit code, units digit 1..4 credit, 5..9 debit *)
Definition digit_dir (c : Z) : target :=
  if (c <? 10) || (99 <? c) then TNone
  else let u := c mod 10 in
       if (1 <=? u) && (u <=? 4) then TCredit else if 5 <=? u then TDebit else TNone.

(* codes of EntryDetail records: account types checking 2x, savings 3x, GL 4x, loan 5x *)
Definition entry_code (std : list Z) (c : Z) : bool := memz c std && (20 <=? c) && (c <? 60).

Record entry := mkentry { e_code : Z; e_amount : Z; e_id : N; e_trace : N }.

Definition goes (arms : list seg_arm) (t : target) (e : entry) : bool :=
  target_eqb (classify arms (e_code e)) t.

(* calculateBatchAmounts: sum of the amounts whose code is in the list of direction [t] *)
Fixpoint sum_dir (arms : list seg_arm) (t : target) (es : list entry) : Z :=
  match es with
  | [] => 0
  | e :: r => (if goes arms t e then e_amount e else 0) + sum_dir arms t r
  end.

Definition all_dir (t : target) (es : list entry) : bool :=
  forallb (fun e => target_eqb (digit_dir (e_code e)) t) es.

(* the arithmetic lists classify every standard entry code by the digit rule *)
Definition amount_ok (amt : list seg_arm) (std : list Z) : bool :=
  arms_known amt &&
  forallb (fun c => implb (entry_code std c) (target_eqb (classify amt c) (digit_dir c))) std.

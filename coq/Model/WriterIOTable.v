(* Types of the table regenerated from writer.go / reader.go (Gen/WriterIO.v), the
   policy the model is run with, and the boolean checker "every error is propagated
   or covered by bufio's sticky error; the final Flush result is returned". *)
From Coq Require Import String List Bool NArith.
Import ListNotations.
From ACH Require Import Bytes BufIO.
Open Scope string_scope.

Record wsite := mkwsite {
  ws_func : string;       (* method of *Writer holding the call *)
  ws_callee : string;     (* selector after the receiver: "w.WriteString", "w.Flush", "writeLine", "Flush", ... *)
  ws_arg : string;        (* first argument, source text *)
  ws_guard : string;      (* innermost enclosing if condition, source text *)
  ws_handler : handler;   (* what happens to the error result *)
  ws_last : bool }.       (* the call is the function's last statement (return call()) *)

Record rfacts := mkrfacts {
  rf_ctor : handler;          (* NewReaderWithContentType: non-EOF error of charset.NewReader leaves the scanner unset *)
  rf_nil_guard : bool;        (* Read: if r.scanner == nil { return r.File, <error> } *)
  rf_scan : handler;          (* Read: if err := r.scanner.Err(); err != nil { return r.File, err } right after the loop *)
  rf_loop_nil_returns : N;    (* `return ..., nil` statements inside the scan loop *)
  rf_readfile : handler }.    (* ReadFile returns Read's error *)

Definition handler_eqb (a b : handler) : bool :=
  match a, b with
  | Propagate, Propagate | Ignore, Ignore | ReturnNil, ReturnNil | Absent, Absent | Unknown, Unknown => true
  | _, _ => false
  end.

Definition sel (f c a : string) (t : list wsite) : list wsite :=
  filter (fun s => String.eqb (ws_func s) f && String.eqb (ws_callee s) c && String.eqb (ws_arg s) a) t.
Definition sel_fc (f c : string) (t : list wsite) : list wsite :=
  filter (fun s => String.eqb (ws_func s) f && String.eqb (ws_callee s) c) t.

(* exactly one site expected *)
Definition the_handler (l : list wsite) : handler :=
  match l with
  | [] => Absent
  | [s] => ws_handler s
  | _ => Unknown
  end.

(* a group of sites modelled by one handler: Propagate if all propagate, Ignore if
   every one propagates or drops the error (the model then drops it at every site of
   the group, which changes no observation: BufIOFacts.sticky), else the worst *)
Definition meet (l : list wsite) : handler :=
  match l with
  | [] => Absent
  | _ =>
      if forallb (fun s => handler_eqb (ws_handler s) Propagate) l then Propagate
      else if forallb (fun s => soft (ws_handler s)) l then Ignore
      else if existsb (fun s => handler_eqb (ws_handler s) ReturnNil) l then ReturnNil
      else Unknown
  end.

Definition all_propagate (l : list wsite) : bool :=
  match l with [] => false | _ => forallb (fun s => handler_eqb (ws_handler s) Propagate) l end.

(* the writeLine calls inside writeBatch / writeIATBatch: there even `return nil` is covered
   (the batch function returns nil, Write goes on and meets bufio's sticky error:
   Props/C16Seq.v, per-site model), so for the grouped model it counts as dropping the error *)
Definition meet_body (l : list wsite) : handler :=
  match l with
  | [] => Absent
  | _ =>
      if forallb (fun s => handler_eqb (ws_handler s) Propagate) l then Propagate
      else if forallb (fun s => lsoft (ws_handler s)) l then Ignore
      else Unknown
  end.

Definition body_handler (t : list wsite) : handler :=
  if all_propagate (sel_fc "Write" "writeBatch" t) && all_propagate (sel_fc "Write" "writeIATBatch" t)
  then meet_body (sel_fc "writeBatch" "writeLine" t ++ sel_fc "writeIATBatch" "writeLine" t)
  else Unknown.

Definition final_handler (t : list wsite) : handler :=
  match sel_fc "Write" "w.Flush" t with
  | [s] => if ws_last s then ws_handler s else Unknown
  | [] => Absent
  | _ => Unknown
  end.

Definition policy_of (t : list wsite) (thresh : N) : wpolicy :=
  mkpol (the_handler (sel "writeLine" "w.WriteString" "line" t))
        (the_handler (sel "writeLine" "w.WriteString" "w.LineEnding" t))
        (the_handler (sel_fc "writeLine" "Flush" t))
        thresh
        (the_handler (sel_fc "Flush" "w.Flush" t))
        (the_handler (sel "Write" "writeLine" "&file.Header" t))
        (body_handler t)
        (meet (sel "Write" "writeLine" "&file.Control" t ++ sel "Write" "writeLine" "&file.ADVControl" t))
        (the_handler (sel "Write" "w.WriteString" "paddingLine" t))
        (the_handler (sel "Write" "w.WriteString" "w.LineEnding" t))
        (final_handler t).

(* every listed call must be one the policy accounts for (a new call through the
   receiver, e.g. w.w.WriteByte, is not modelled and must fail the check) *)
Definition accounted (s : wsite) : bool :=
  let f := ws_func s in let c := ws_callee s in let a := ws_arg s in
  (String.eqb f "writeLine" && String.eqb c "w.WriteString" && (String.eqb a "line" || String.eqb a "w.LineEnding"))
  || (String.eqb f "writeLine" && String.eqb c "Flush" && String.eqb (ws_guard s) "available-below-threshold")
  || (String.eqb f "Flush" && String.eqb c "w.Flush")
  || (String.eqb f "Write" && String.eqb c "writeLine"
      && (String.eqb a "&file.Header" || String.eqb a "&file.Control" || String.eqb a "&file.ADVControl"))
  || (String.eqb f "Write" && (String.eqb c "writeBatch" || String.eqb c "writeIATBatch"))
  || (String.eqb f "Write" && String.eqb c "w.WriteString" && (String.eqb a "paddingLine" || String.eqb a "w.LineEnding"))
  || (String.eqb f "Write" && String.eqb c "w.Flush")
  || ((String.eqb f "writeBatch" || String.eqb f "writeIATBatch") && String.eqb c "writeLine").

Definition pair_eqb (a b : string * string) : bool := String.eqb (fst a) (fst b) && String.eqb (snd a) (snd b).
Definition allowed_nil_returns : list (string * string) :=
  [("writeBatch", "end"); ("writeIATBatch", "end");
   ("writeLine", "entry == nil"); ("writeLine", "line == """""); ("writeLine", "end")].
(* no `return nil` other than the ones that follow a completed call sequence or skip an absent record *)
Definition nil_returns_ok (l : list (string * string)) : bool :=
  forallb (fun r => existsb (pair_eqb r) allowed_nil_returns) l.

Definition writer_table_ok (t : list wsite) (thresh : N) (rets : list (string * string)) (ctor : string) : bool :=
  forallb accounted t && policy_ok (policy_of t thresh) && nil_returns_ok rets
  && String.eqb ctor "bufio.NewWriter(w)".

Definition rpolicy_of (f : rfacts) : rpolicy :=
  mkrpol (if rf_nil_guard f then rf_ctor f else Ignore)
         (if (rf_loop_nil_returns f =? 0)%N then rf_scan f else Unknown).

Definition reader_table_ok (f : rfacts) : bool :=
  rpolicy_ok (rpolicy_of f) && handler_eqb (rf_readfile f) Propagate.

(* C07 — table-driven model of encoding/json on the struct types that make up an
   ach.File (executable definitions only; proofs are in JsonCodecFacts.v).

   A Go value is a [val] tree, a JSON document a [json] tree (text <-> tree is
   encoding/json's contract and is not modelled).  A struct type is described
   by a [ty] tree that the translator regenerates from the struct tags, the
   custom (Un)MarshalJSON methods and the decode-side wrapper structs of
   file.go (Gen/JsonTags.v).

   enc t v        json.Marshal of a value v of type t
   dec t cur j    json.Unmarshal of j into a variable of type t that currently
                  holds cur (Go decodes INTO existing values: absent keys keep
                  what is there, non-nil pointers are reused)
   start t        what a freshly allocated t holds before its keys are read
                  (zero value, or what the type's UnmarshalJSON pre-populates)

   Slices: nil and empty slices are identified ([VArr []]); both sides print
   the empty array and null the same way in the correspondence check. *)
From Coq Require Import String Ascii List Bool ZArith NArith.
Import ListNotations.
From ACH Require Import Bytes.

Inductive val :=
| VStr (s : bytes)
| VInt (z : Z)
| VBool (b : bool)
| VNil                      (* nil pointer / nil func / nil interface *)
| VRec (fs : list val)      (* struct (or non-nil pointer to struct): fields in declaration order *)
| VArr (xs : list val)      (* slice *)
| VOpaque.                  (* non-nil func value etc. *)

Inductive json :=
| JStr (s : bytes)
| JNum (z : Z)
| JBool (b : bool)
| JNull
| JObj (kvs : list (string * json))
| JArr (xs : list json).

Record fmeta := mkF {
  f_name : string;            (* Go field name *)
  f_enc : option string;      (* key json.Marshal writes it under (None: not written) *)
  f_dec : option string;      (* key the decoder reads it from (None: never read) *)
  f_omit : bool;              (* omitempty *)
  f_def : option val;         (* pre-populated value at decode time (None: zero value) *)
  f_rendered : bool }.        (* unexported field read by String()/...Field() of its struct *)

Inductive ty :=
| TStr | TInt | TBool
| TStruct (name : string) (fs : list (fmeta * ty))
| TPtr (t : ty)
| TSlice (t : ty)
| TOther.                     (* func, interface, map ...: not modelled *)

(* ------------------------------------------------------------ keys *)

Definition lower_ascii (c : ascii) : ascii :=
  let n := N_of_ascii c in
  if (65 <=? n)%N && (n <=? 90)%N then ascii_of_N (n + 32) else c.

Fixpoint lower (s : string) : string :=
  match s with
  | EmptyString => EmptyString
  | String c r => String (lower_ascii c) (lower r)
  end.

(* encoding/json matches object keys to fields case-insensitively *)
Definition key_eqb (a b : string) : bool := String.eqb (lower a) (lower b).

Fixpoint lookup (k : string) (kvs : list (string * json)) : option json :=
  match kvs with
  | [] => None
  | (k', j) :: r => if key_eqb k k' then Some j else lookup k r
  end.

(* ------------------------------------------------------------ values *)

Definition is_empty (v : val) : bool :=
  match v with
  | VStr [] => true
  | VInt 0 => true
  | VBool false => true
  | VNil => true
  | VArr [] => true
  | _ => false
  end.

Fixpoint val_eqb (a b : val) : bool :=
  match a, b with
  | VStr x, VStr y => bytes_eqb x y
  | VInt x, VInt y => Z.eqb x y
  | VBool x, VBool y => Bool.eqb x y
  | VNil, VNil => true
  | VOpaque, VOpaque => true
  | VRec xs, VRec ys =>
      (fix go (xs ys : list val) : bool :=
         match xs, ys with
         | [], [] => true
         | x :: xs', y :: ys' => val_eqb x y && go xs' ys'
         | _, _ => false
         end) xs ys
  | VArr xs, VArr ys =>
      (fix go (xs ys : list val) : bool :=
         match xs, ys with
         | [], [] => true
         | x :: xs', y :: ys' => val_eqb x y && go xs' ys'
         | _, _ => false
         end) xs ys
  | _, _ => false
  end.

Definition fstart (start : ty -> val) (mf : fmeta * ty) : val :=
  match f_def (fst mf) with Some d => d | None => start (snd mf) end.

Fixpoint start (t : ty) : val :=
  match t with
  | TStr => VStr []
  | TInt => VInt 0
  | TBool => VBool false
  | TStruct _ fs =>
      VRec ((fix go (fs : list (fmeta * ty)) : list val :=
               match fs with
               | [] => []
               | (m, ft) :: fs' => (match f_def m with Some d => d | None => start ft end) :: go fs'
               end) fs)
  | TPtr _ => VNil
  | TSlice _ => VArr []
  | TOther => VNil
  end.

(* the only value of the type that omitempty drops (structs are never dropped) *)
Definition zero_of (t : ty) : option val :=
  match t with
  | TStr => Some (VStr [])
  | TInt => Some (VInt 0)
  | TBool => Some (VBool false)
  | TPtr _ => Some VNil
  | TSlice _ => Some (VArr [])
  | TOther => Some VNil
  | TStruct _ _ => None
  end.

Fixpoint typed (t : ty) (v : val) : bool :=
  match t with
  | TStr => match v with VStr _ => true | _ => false end
  | TInt => match v with VInt _ => true | _ => false end
  | TBool => match v with VBool _ => true | _ => false end
  | TStruct _ fs =>
      match v with
      | VRec vs =>
          (fix go (fs : list (fmeta * ty)) (vs : list val) : bool :=
             match fs, vs with
             | [], [] => true
             | (m, ft) :: fs', x :: vs' => typed ft x && go fs' vs'
             | _, _ => false
             end) fs vs
      | _ => false
      end
  | TPtr t' => match v with VNil => true | VRec _ => typed t' v | _ => false end
  | TSlice t' => match v with VArr xs => forallb (typed t') xs | _ => false end
  | TOther => match v with VNil => true | VOpaque => true | _ => false end
  end.

(* ------------------------------------------------------------ encoder *)

Definition emitted (m : fmeta) (x : val) : bool :=
  match f_enc m with
  | Some _ => negb (f_omit m && is_empty x)
  | None => false
  end.

Fixpoint enc (t : ty) (v : val) : json :=
  match t with
  | TStr => match v with VStr s => JStr s | _ => JNull end
  | TInt => match v with VInt z => JNum z | _ => JNull end
  | TBool => match v with VBool b => JBool b | _ => JNull end
  | TStruct _ fs =>
      match v with
      | VRec vs =>
          JObj ((fix go (fs : list (fmeta * ty)) (vs : list val) : list (string * json) :=
                   match fs, vs with
                   | (m, ft) :: fs', x :: vs' =>
                       match f_enc m with
                       | Some k => if f_omit m && is_empty x then go fs' vs' else (k, enc ft x) :: go fs' vs'
                       | None => go fs' vs'
                       end
                   | _, _ => []
                   end) fs vs)
      | _ => JNull
      end
  | TPtr t' => match v with VNil => JNull | _ => enc t' v end
  | TSlice t' => match v with VArr xs => JArr (map (enc t') xs) | _ => JNull end
  | TOther => JNull
  end.

(* ------------------------------------------------------------ decoder *)

Fixpoint dec (t : ty) (cur : val) (j : json) : val :=
  match t with
  | TStr => match j with JStr s => VStr s | _ => cur end
  | TInt => match j with JNum z => VInt z | _ => cur end
  | TBool => match j with JBool b => VBool b | _ => cur end
  | TStruct _ fs =>
      match j, cur with
      | JObj kvs, VRec cs =>
          VRec ((fix go (fs : list (fmeta * ty)) (cs : list val) : list val :=
                   match fs, cs with
                   | (m, ft) :: fs', c :: cs' =>
                       (match f_dec m with
                        | Some k => match lookup k kvs with Some j' => dec ft c j' | None => c end
                        | None => c
                        end) :: go fs' cs'
                   | _, _ => []
                   end) fs cs)
      | _, _ => cur
      end
  | TPtr t' =>
      match j with
      | JNull => VNil
      | _ => dec t' (match cur with VNil => start t' | _ => cur end) j
      end
  | TSlice t' =>
      match j with
      | JArr js => VArr (map (dec t' (start t')) js)
      | JNull => VArr []
      | _ => cur
      end
  | TOther => cur
  end.

(* ------------------------------------------------------------ when does a value survive? *)

(* [sel n f] says whether the local condition of field f of struct n is to be
   checked (the full condition is [safeb]; the conditions of a chosen set of
   fields only is [safe_sel (fun n f => inb (n,f) excused)]) *)
Definition cond (b : bool) (c : bool) : bool := if b then c else true.

Fixpoint safe_sel (sel : string -> string -> bool) (t : ty) (cur v : val) : bool :=
  match t with
  | TStr | TInt | TBool => true
  | TOther => val_eqb cur v
  | TStruct n fs =>
      match cur, v with
      | VRec cs, VRec vs =>
          (fix go (fs : list (fmeta * ty)) (cs vs : list val) : bool :=
             match fs, cs, vs with
             | [], [], [] => true
             | (m, ft) :: fs', c :: cs', x :: vs' =>
                 (match f_enc m, f_dec m with
                  | Some ek, Some dk =>
                      if key_eqb dk ek then
                        if f_omit m && is_empty x then cond (sel n (f_name m)) (val_eqb c x)
                        else safe_sel sel ft c x
                      else cond (sel n (f_name m)) (val_eqb c x)
                  | _, _ => cond (sel n (f_name m)) (val_eqb c x)
                  end) && go fs' cs' vs'
             | _, _, _ => false
             end) fs cs vs
      | _, _ => false
      end
  | TPtr t' =>
      match v with
      | VNil => true
      | _ => safe_sel sel t' (match cur with VNil => start t' | _ => cur end) v
      end
  | TSlice t' =>
      match v with
      | VArr xs => forallb (safe_sel sel t' (start t')) xs
      | _ => false
      end
  end.

Definition safeb : ty -> val -> val -> bool := safe_sel (fun _ _ => true).

(* ------------------------------------------------------------ table checker *)

Definition pair_eqb (a b : string * string) : bool :=
  String.eqb (fst a) (fst b) && String.eqb (snd a) (snd b).
Definition inb (x : string * string) (l : list (string * string)) : bool := existsb (pair_eqb x) l.

(* types with exactly one value (the embedded empty structs validator / converters) *)
Definition unit_ty (t : ty) : bool :=
  match t with TStruct _ [] => true | _ => false end.

Definition opt_keys (f : fmeta -> option string) (fs : list (fmeta * ty)) : list string :=
  flat_map (fun mf => match f (fst mf) with Some k => [k] | None => [] end) fs.

Definition no_match (k : option string) (ks : list string) : bool :=
  match k with Some k => forallb (fun k' => negb (key_eqb k k')) ks | None => true end.

(* a decode key may only ever find the entry its own field wrote *)
Fixpoint keys_ok (fs : list (fmeta * ty)) : bool :=
  match fs with
  | [] => true
  | (m, _) :: fs' =>
      no_match (f_dec m) (opt_keys f_enc fs') && no_match (f_enc m) (opt_keys f_dec fs') && keys_ok fs'
  end.

(* well-formedness of a type tree: key discipline, pointers point to structs,
   not-modelled types are not serialised, pre-populated values have the field's type *)
Fixpoint wf (t : ty) : bool :=
  match t with
  | TStr | TInt | TBool | TOther => true
  | TStruct _ fs =>
      keys_ok fs &&
      (fix go (fs : list (fmeta * ty)) : bool :=
         match fs with
         | [] => true
         | (m, ft) :: fs' =>
             wf ft
             && match f_def m with Some d => typed ft d | None => true end
             && match ft with TOther => match f_enc m, f_dec m with None, None => true | _, _ => false end | _ => true end
             && go fs'
         end) fs
  | TPtr t' => match t' with TStruct _ _ => wf t' | _ => false end
  | TSlice t' => wf t'
  end.

(* the fields whose local condition can fail for SOME value: an omitempty
   field whose decode-time value is not the zero value, a field that is not
   written / not read / read under another key and can hold state *)
Fixpoint problems (t : ty) (cur : val) : list (string * string) :=
  match t with
  | TStr | TInt | TBool | TOther => []
  | TStruct n fs =>
      match cur with
      | VRec cs =>
          (fix go (fs : list (fmeta * ty)) (cs : list val) : list (string * string) :=
             match fs, cs with
             | (m, ft) :: fs', c :: cs' =>
                 (match f_enc m, f_dec m with
                  | Some ek, Some dk =>
                      if key_eqb dk ek then
                        (if f_omit m
                         then match zero_of ft with
                              | Some z => if val_eqb c z then [] else [(n, f_name m)]
                              | None => []
                              end
                         else [])
                        ++ problems ft c
                      else [(n, f_name m)]
                  | _, _ => if unit_ty ft && val_eqb c (start ft) then [] else [(n, f_name m)]
                  end) ++ go fs' cs'
             | _, _ => []
             end) fs cs
      | _ => [(n, "?"%string)]
      end
  | TPtr t' => problems t' (match cur with VNil => start t' | _ => cur end)
  | TSlice t' => problems t' (start t')
  end.

Definition tags_ok (excused : list (string * string)) (t : ty) (cur : val) : bool :=
  forallb (fun p => inb p excused) (problems t cur).

Definition sel_of (excused : list (string * string)) : string -> string -> bool :=
  fun n f => inb (n, f) excused.

(* ------------------------------------------------------------ ValidateOpts.merge *)

(* merge(v, other) of two option sets given as the list of their boolean fields *)
Definition merge_opts (a b : list bool) : list bool := map (fun p => orb (fst p) (snd p)) (combine a b).

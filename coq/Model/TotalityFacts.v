(* C06 — proofs about the model of Totality.v: for every slicer the exact set
   of inputs on which it panics; totality of the guarded ones, of the
   validators that call them and of the reader's line handling. *)
From Coq Require Import String List Bool Arith Lia.
Import ListNotations.
From ACH Require Import Utf8 Utf8Facts Fields Totality PartialTable.
Open Scope nat_scope.

(* ---- slicing *)

Lemma sl_cases {A} (l : list A) lo hi : lo <= hi ->
  (hi <= length l /\ exists t, sl l lo hi = Ok t /\ length t = hi - lo) \/
  (length l < hi /\ sl l lo hi = Panic).
Proof.
  intros Hle. unfold sl, go_slice. destruct (Nat.leb_spec hi (length l)) as [H|H].
  - left. split; [exact H|]. apply Nat.leb_le in Hle. rewrite Hle. cbn [andb].
    eexists. split; [reflexivity|]. rewrite firstn_length, skipn_length. lia.
  - right. split; [exact H|]. now rewrite andb_false_r.
Qed.

Lemma slice_to_cases {A} (l : list A) hi :
  (hi <= length l /\ exists t, go_slice l None (Some hi) = Ok t /\ length t = hi) \/
  (length l < hi /\ go_slice l None (Some hi) = Panic).
Proof.
  unfold go_slice. cbn [Nat.leb andb]. destruct (Nat.leb_spec hi (length l)) as [H|H].
  - left. split; [exact H|]. eexists. split; [reflexivity|]. cbn [skipn]. rewrite firstn_length. lia.
  - right. now split.
Qed.

Lemma slice_from_cases {A} (l : list A) lo :
  (lo <= length l /\ exists t, go_slice l (Some lo) None = Ok t) \/
  (length l < lo /\ go_slice l (Some lo) None = Panic).
Proof.
  unfold go_slice. rewrite Nat.leb_refl, andb_true_r. destruct (Nat.leb_spec lo (length l)) as [H|H].
  - left. split; [exact H|]. eexists. reflexivity.
  - right. now split.
Qed.

(* a slicer of the shape  t <- sl x lo hi ;; Ok (f t)  panics exactly on the short inputs *)
Lemma sl_then_iff {A B C} (l : list A) lo hi (f : list A -> B) (k : B -> C) : lo <= hi ->
  (t <- sl l lo hi ;; Ok (f t)) = Panic <-> length l < hi.
Proof.
  intros Hle. destruct (sl_cases l lo hi Hle) as [[H (t & -> & _)]|[H ->]]; cbn [bind]; split; intros; try easy; lia.
Qed.

Ltac slicer_iff := intros; unfold sl; match goal with
  | |- (bind (go_slice ?l (Some ?lo) (Some ?hi)) _ = Panic) <-> _ =>
      let H := fresh in
      destruct (sl_cases l lo hi ltac:(lia)) as [[H (t & E & _)]|[H E]]; unfold sl in E; rewrite E; cbn [bind];
      split; intros; try discriminate; try reflexivity; lia
  | |- (go_slice ?l (Some ?lo) (Some ?hi) = Panic) <-> _ =>
      let H := fresh in
      destruct (sl_cases l lo hi ltac:(lia)) as [[H (t & E & _)]|[H E]]; unfold sl in E; rewrite E;
      split; intros; try discriminate; try reflexivity; lia
  end.

(* ---- entryDetail.go accessors *)

Lemma process_control_total name : is_panic (process_control name) = false.
Proof.
  unfold process_control. destruct (Nat.ltb_spec (length name) 6) as [H|H]; [reflexivity|].
  destruct (sl_cases name 0 6 ltac:(lia)) as [[_ (t & -> & _)]|[H' _]]; [reflexivity|lia].
Qed.

Lemma item_research_total name : is_panic (item_research name) = false.
Proof.
  unfold item_research. destruct (Nat.ltb_spec (length name) 22) as [H|H]; [reflexivity|].
  destruct (sl_cases name 6 22 ltac:(lia)) as [[_ (t & -> & _)]|[H' _]]; [reflexivity|lia].
Qed.

Lemma pop_check_serial_iff idn : pop_check_serial idn = Panic <-> length idn < 9.
Proof. unfold pop_check_serial. slicer_iff. Qed.
Lemma pop_terminal_city_iff idn : pop_terminal_city idn = Panic <-> length idn < 13.
Proof. unfold pop_terminal_city. slicer_iff. Qed.
Lemma pop_terminal_state_iff idn : pop_terminal_state idn = Panic <-> length idn < 15.
Proof. unfold pop_terminal_state. slicer_iff. Qed.
Lemma shr_doc_ref_iff idn : shr_doc_ref idn = Panic <-> length idn < 15.
Proof. unfold shr_doc_ref. slicer_iff. Qed.
Lemma catx_reserved_iff name : catx_reserved name = Panic <-> length name < 22.
Proof. unfold catx_reserved. slicer_iff. Qed.
Lemma iat_payment_amount_iff info : iat_payment_amount info = Panic <-> length info < 10.
Proof. unfold iat_payment_amount. slicer_iff. Qed.
Lemma iat_addenda_information_iff info : iat_addenda_information info = Panic <-> length info < 44.
Proof. unfold iat_addenda_information. slicer_iff. Qed.
Lemma a99_return_trace_iff info : a99_return_trace info = Panic <-> length info < 18.
Proof. unfold a99_return_trace. slicer_iff. Qed.
Lemma a99_settlement_date_iff info : a99_settlement_date info = Panic <-> length info < 21.
Proof. unfold a99_settlement_date. slicer_iff. Qed.
Lemma a99_reason_code_iff info : a99_reason_code info = Panic <-> length info < 23.
Proof. unfold a99_reason_code. slicer_iff. Qed.
Lemma a99_extra_iff info : a99_extra info = Panic <-> length info < 23.
Proof.
  unfold a99_extra. destruct (slice_from_cases info 23) as [[H (t & ->)]|[H ->]]; split; intros; try easy; lia.
Qed.

Lemma shr_card_exp_ok idn : exists e, shr_card_exp idn = Ok e /\ 4 <= length e.
Proof.
  unfold shr_card_exp. destruct (Nat.ltb_spec (length idn) 4) as [H|H].
  - eexists. split; [reflexivity|]. apply alphaField_length_ge.
  - destruct (sl_cases idn 0 4 ltac:(lia)) as [[_ (t & -> & _)]|[H' _]]; [|lia].
    cbn [bind]. eexists. split; [reflexivity|]. apply alphaField_length_ge.
Qed.

Lemma shr_card_exp_total idn : is_panic (shr_card_exp idn) = false.
Proof. destruct (shr_card_exp_ok idn) as (e & -> & _). reflexivity. Qed.

Lemma catx_addenda_records_total name : is_panic (catx_addenda_records name) = false.
Proof.
  unfold catx_addenda_records. destruct (Nat.ltb_spec (rune_count name) 5) as [H|H]; [reflexivity|].
  pose proof (rune_count_le name).
  destruct (slice_to_cases name 4) as [[_ (t & -> & _)]|[H' _]]; [reflexivity|lia].
Qed.

Lemma catx_receiving_total name : is_panic (catx_receiving name) = false.
Proof.
  unfold catx_receiving. destruct (Nat.ltb_spec (rune_count name) 4) as [H|H]; [reflexivity|].
  pose proof (rune_count_le name).
  destruct (slice_from_cases name 4) as [[_ (t & ->)]|[H' _]]; [reflexivity|lia].
Qed.

Lemma set_catx_addenda_records_total i name : is_panic (set_catx_addenda_records i name) = false.
Proof.
  unfold set_catx_addenda_records. destruct (Nat.ltb_spec 4 (rune_count name)) as [H|H]; [|reflexivity].
  pose proof (rune_count_le name).
  destruct (slice_from_cases name 4) as [[_ (t & ->)]|[H' _]]; [reflexivity|lia].
Qed.

Lemma set_catx_receiving_total s name : is_panic (set_catx_receiving s name) = false.
Proof.
  unfold set_catx_receiving. destruct (Nat.ltb_spec 4 (rune_count name)) as [H|H]; [|reflexivity].
  pose proof (rune_count_le name).
  destruct (slice_to_cases name 4) as [[_ (t & -> & _)]|[H' _]]; [reflexivity|lia].
Qed.

Lemma set_rdfi_total rdfi : is_panic (set_rdfi rdfi) = false.
Proof.
  unfold set_rdfi. pose proof (stringField_length_ge rdfi 9) as Hl.
  destruct (slice_to_cases (stringField rdfi 9) 8) as [[_ (a & -> & _)]|[H' _]]; [|lia]. cbn [bind].
  destruct (sl_cases (stringField rdfi 9) 8 9 ltac:(lia)) as [[_ (b & -> & _)]|[H' _]]; [reflexivity|lia].
Qed.

(* ---- aba8 / first: rune-count guards protect byte slices *)

Lemma aba8_total rtn : is_panic (aba8 rtn) = false.
Proof.
  unfold aba8. pose proof (rune_count_le rtn) as Hr.
  destruct (Nat.ltb_spec 10 (rune_count rtn)) as [H1|H1]; [reflexivity|].
  destruct (Nat.eqb_spec (rune_count rtn) 10) as [H2|H2].
  - unfold go_index. destruct rtn as [|c rest]; [cbn in H2; discriminate|]. cbn [nth_error bind].
    destruct ((c =? 48)%N || (c =? 49)%N); [|reflexivity].
    destruct (sl_cases (c :: rest) 1 9 ltac:(lia)) as [[_ (t & -> & _)]|[H' _]]; [reflexivity|lia].
  - destruct (Nat.eqb_spec (rune_count rtn) 8) as [H3|H3]; destruct (Nat.eqb_spec (rune_count rtn) 9) as [H4|H4];
      cbn [negb andb]; try reflexivity;
      (destruct (slice_to_cases rtn 8) as [[_ (t & -> & _)]|[H' _]]; [reflexivity|lia]).
Qed.

Lemma first_total size data : is_panic (first size data) = false.
Proof.
  unfold first. pose proof (rune_count_le data) as Hr.
  destruct (Nat.ltb_spec (rune_count data) size) as [H|H]; [reflexivity|].
  destruct (slice_to_cases data size) as [[_ (t & -> & _)]|[H' _]]; [reflexivity|lia].
Qed.

(* ---- validators *)

Lemma trc_entry_check_total name : is_panic (trc_entry_check name) = false.
Proof.
  unfold trc_entry_check. pose proof (process_control_total name) as H1. pose proof (item_research_total name) as H2.
  destruct (process_control name) as [p| |]; cbn [bind is_panic] in *; try easy.
  destruct (is_empty p); [reflexivity|].
  destruct (item_research name) as [r| |]; cbn [bind is_panic] in *; try easy.
  destruct (is_empty r); reflexivity.
Qed.

Lemma shr_entry_check_total idn : is_panic (shr_entry_check idn) = false.
Proof.
  unfold shr_entry_check. destruct (shr_card_exp_ok idn) as (e & -> & Hl). cbn [bind].
  destruct (sl_cases e 0 2 ltac:(lia)) as [[_ (m & -> & _)]|[H' _]]; [|lia]. cbn [bind].
  destruct (sl_cases e 2 4 ltac:(lia)) as [[_ (y & -> & _)]|[H' _]]; [reflexivity|lia].
Qed.

(* ---- reader *)

Lemma parse_line_total line : 53 <= length line -> is_panic (parse_line line) = false.
Proof.
  intros Hl. unfold parse_line.
  destruct (slice_to_cases line 1) as [[_ (t & E & Ht)]|[H' _]]; [|lia]. rewrite E. cbn [bind].
  assert (S3 : exists a, sl line 1 3 = Ok a).
  { destruct (sl_cases line 1 3 ltac:(lia)) as [[_ (a & -> & _)]|[H' _]]; [eauto|lia]. }
  assert (S4 : exists a, sl line 3 6 = Ok a).
  { destruct (sl_cases line 3 6 ltac:(lia)) as [[_ (a & -> & _)]|[H' _]]; [eauto|lia]. }
  assert (S5 : exists a, go_slice line None (Some 2) = Ok a).
  { destruct (slice_to_cases line 2) as [[_ (a & -> & _)]|[H' _]]; [eauto|lia]. }
  destruct S3 as (a3 & ->), S4 as (a4 & ->), S5 as (a5 & ->).
  destruct t as [|b [|b' t']]; cbn [bind is_panic]; try reflexivity; try (cbn in Ht; lia).
  repeat match goal with
  | |- context [match ?x with N0 => _ | Npos _ => _ end] => destruct x; cbn [bind is_panic]; try reflexivity
  | |- context [match ?x with xH => _ | xO _ => _ | xI _ => _ end] => destruct x; cbn [bind is_panic]; try reflexivity
  end.
  all: try (match goal with |- context [if ?c then _ else _] => destruct c end; reflexivity).
Qed.

Lemma trim_suffix_space_length s : length (trim_suffix_space s) <= length s.
Proof.
  unfold trim_suffix_space. destruct (ends_with_space s); [|lia].
  destruct s as [|b s]; [cbn; lia|].
  assert (H : forall (l : bytes), length (removelast l) <= length l).
  { induction l as [|x [|y l] IH]; cbn [removelast length] in *; lia. }
  apply H.
Qed.

Lemma trim_long_ok s : record_length <= length s ->
  exists t, trim_long s = Ok t /\ length t <= record_length.
Proof.
  intros H. unfold trim_long.
  destruct (slice_to_cases s record_length) as [[_ (t & -> & Ht)]|[H' _]]; [|lia]. cbn [bind].
  eexists. split; [reflexivity|]. pose proof (trim_suffix_space_length t). lia.
Qed.

Lemma right_pad_cases s :
  (right_pad s = Err) \/ (exists t, right_pad s = Ok t /\ record_length <= length t).
Proof.
  unfold right_pad. cbv zeta. pose proof (rune_count_le s) as Hr.
  destruct (Nat.ltb_spec record_length (rune_count s)) as [H|H]; [now left|right].
  eexists. split; [reflexivity|]. rewrite app_length. unfold spaces. rewrite repeat_length. lia.
Qed.

(* every line that is not the first line of the file: no hypothesis at all *)
Lemma read_line_other_total line : is_panic (read_line false line) = false.
Proof.
  unfold read_line. cbn [andb]. pose proof (rune_count_le line) as Hr.
  destruct (Nat.eqb_spec (rune_count line) record_length) as [E|E]; cbn [negb].
  - pose proof (parse_line_total line) as Hp. unfold record_length in *.
    destruct (parse_line line); cbn [bind is_panic] in *; try reflexivity. apply Hp. lia.
  - assert (H1 : exists l1, (if record_length <? rune_count line then trim_long line else Ok line) = Ok l1).
    { destruct (Nat.ltb_spec record_length (rune_count line)) as [H|H]; [|eauto].
      destruct (trim_long_ok line) as (t & -> & _); [lia|eauto]. }
    destruct H1 as (l1 & ->). cbn [bind].
    destruct (right_pad_cases l1) as [->|(l2 & -> & Hl2)]; [reflexivity|]. cbn [bind].
    pose proof (parse_line_total l2) as Hp. unfold record_length in *.
    destruct (parse_line l2); cbn [bind is_panic] in *; try reflexivity. apply Hp. lia.
Qed.

(* the first line, when the scanner loop cut it at 94 runes (Reader.Read never hands over more) *)
Lemma read_line_first_total line : rune_count line <= record_length -> is_panic (read_line true line) = false.
Proof.
  intros H. pose proof (read_line_other_total line) as Ho. unfold read_line in *.
  destruct (Nat.ltb_spec record_length (rune_count line)) as [H'|H']; [lia|]. exact Ho.
Qed.

Lemma read_lines_other_total ls : is_panic (read_lines false ls) = false.
Proof.
  induction ls as [|l ls IH]; [reflexivity|]. cbn [read_lines].
  pose proof (read_line_other_total l) as H.
  destruct (read_line false l); cbn [is_panic] in H; try discriminate;
    destruct (read_lines false ls); cbn [bind is_panic] in *; easy.
Qed.

Lemma read_lines_total ls :
  match ls with l :: _ => rune_count l <= record_length | [] => True end ->
  is_panic (read_lines true ls) = false.
Proof.
  destruct ls as [|l ls]; [reflexivity|]. intros H. cbn [read_lines].
  pose proof (read_line_first_total l H) as H1. pose proof (read_lines_other_total ls) as H2.
  destruct (read_line true l); cbn [is_panic] in H1; try discriminate;
    destruct (read_lines false ls); cbn [bind is_panic] in *; easy.
Qed.

(* ---- optional sub-records *)

Lemma reversal_control_total {A} (d : A) c : is_panic (reversal_control d c) = false.
Proof. destruct c; reflexivity. Qed.

Lemma segment_service_total {F} (f : option F) : is_panic (segment_service f) = false.
Proof. destruct f; reflexivity. Qed.

Lemma deref_all_without_nil {A} (xs : list (option A)) : exists l, deref_all (without_nil xs) = Ok l.
Proof.
  induction xs as [|[a|] xs (l & IH)]; cbn [without_nil deref_all deref bind]; eauto.
  rewrite IH. cbn [bind]. eauto.
Qed.

Lemma json_entries_total {A} (xs : list (option A)) : is_panic (json_entries xs) = false.
Proof. unfold json_entries. destruct (deref_all_without_nil xs) as (l & ->). reflexivity. Qed.

(* without the filter a null element is a nil dereference (the code before fix "null elements") *)
Lemma json_entries_unfiltered_refuted : deref_all [Some 1; None; Some 3] = Panic.
Proof. reflexivity. Qed.

(* Phase 2, C13: File.Reversal of a batch / file that the validator model of C03 accepts is
   again accepted.  Every check of Batch.verify is discharged for the reversed batch:
   codes stay accepted entry codes (rev_table_sound), the swapped control totals are the
   totals calculateBatchAmounts computes for the flipped codes (direction_sound of Arith's
   tables + digit_dir flipped), header = control class = class of the new directions
   (fixups_sound), and count / hash / trace order / trace prefix / ODFI / number are those
   of the input because Reversal does not touch what they depend on. *)
From Coq Require Import ZArith NArith List Bool Lia.
From ACH Require Import ValidOut ValidOutFacts.
From ACH Require Import Bytes TxCodes RevTable Reversal ReversalFacts.
From ACH Require Export ValidReversal.
Open Scope Z_scope.

Module AT := ACH.Model.ArithTable.
Module AF := ACH.Model.ArithFacts.

(* EntryDetail.CreditOrDebit is the digit rule of TxCodes *)
Lemma credit_or_debit_dir c :
  AR.credit_or_debit c = match digit_dir c with TCredit => 1 | TDebit => 2 | TNone => 0 end.
Proof.
  unfold AR.credit_or_debit, digit_dir. destruct ((c <? 10) || (99 <? c)); [reflexivity|].
  destruct ((1 <=? c mod 10) && (c mod 10 <=? 4)); [reflexivity|]. destruct (5 <=? c mod 10); reflexivity.
Qed.

Lemma spec_dir c : 10 <= c <= 99 ->
  spec_is_credit AR.KStd c = target_eqb (digit_dir c) TCredit /\
  spec_is_debit AR.KStd c = target_eqb (digit_dir c) TDebit.
Proof.
  intros Hc. unfold spec_is_credit, spec_is_debit, digit_dir.
  replace ((c <? 10) || (99 <? c)) with false by (symmetry; apply orb_false_intro; [apply Z.ltb_ge|apply Z.ltb_ge]; lia).
  destruct ((1 <=? c mod 10) && (c mod 10 <=? 4)) eqn:E1; cbn [target_eqb].
  - split; [reflexivity|]. apply Z.leb_gt. apply andb_prop in E1 as [_ E1]. apply Z.leb_le in E1. lia.
  - destruct (5 <=? c mod 10); split; reflexivity.
Qed.

Section Rev.
Variables (A : AR.tables) (T : rtables).
Hypothesis HA : AT.tables_ok A = true.
Hypothesis HT : tables_ok T = true.
Hypothesis HS : rev_tables_agree A T = true.
Variable ep : N -> N -> rpay.

Local Notation arms := (rt_arms T).
Local Notation std := (rt_std T).

Lemma entry_code_std c : entry_code std c = true -> AT.std_code A c = true /\ 20 <= c < 60.
Proof.
  intros H. pose proof H as H'. unfold entry_code in H'. apply andb_prop in H' as [H' H3]. apply andb_prop in H' as [H1 H2].
  split; [|lia]. apply memz_In in H1. unfold rev_tables_agree in HS. rewrite forallb_forall in HS.
  specialize (HS c H1).  rewrite H in HS. exact HS.
Qed.

(* the totals calculateBatchAmounts computes: a reversed code counts to the other total *)
Lemma adds_rev c : reversible std c = true ->
  AR.adds_credit A AR.KStd (rev_code arms c) = AR.adds_debit A AR.KStd c /\
  AR.adds_debit A AR.KStd (rev_code arms c) = AR.adds_credit A AR.KStd c.
Proof.
  intros Hr. destruct (props T HT c Hr) as [_ Hdir Hsome Hcl _ _ _].
  destruct (entry_code_std c (reversible_entry_code _ _ Hr)) as [S1 R1].
  destruct (entry_code_std _ (reversible_entry_code _ _ Hcl)) as [S2 R2].
  destruct (AT.direction_sound A HA AR.KStd c ltac:(discriminate)) as [-> ->].
  destruct (AT.direction_sound A HA AR.KStd (rev_code arms c) ltac:(discriminate)) as [-> ->].
  rewrite S1, S2. cbn [andb].
  destruct (spec_dir c ltac:(lia)) as [-> ->]. destruct (spec_dir (rev_code arms c) ltac:(lia)) as [-> ->].
  rewrite Hdir. destruct (digit_dir c); cbn; tauto.
Qed.

Definition rcode : Z -> Z := rev_code arms.

Lemma r_entry_rev es :
  map (r_entry ep) (map (rev_entry arms) es) = map (recode rcode) (map (r_entry ep) es).
Proof. rewrite !map_map. apply map_ext. reflexivity. Qed.

Lemma sums_rev es : forallb (fun e => reversible std (e_code e)) es = true ->
  AR.calc_credit A AR.KStd (map (recode rcode) (map (r_entry ep) es)) = AR.calc_debit A AR.KStd (map (r_entry ep) es) /\
  AR.calc_debit A AR.KStd (map (recode rcode) (map (r_entry ep) es)) = AR.calc_credit A AR.KStd (map (r_entry ep) es).
Proof.
  unfold AR.calc_credit, AR.calc_debit. induction es as [|e es IH]; intros H; cbn [map AR.sum_where]; [split; reflexivity|].
  cbn [forallb] in H. apply andb_prop in H as [He H]. destruct (IH H) as [-> ->].
  cbn [recode r_entry AR.en_code AR.en_amount]. unfold rcode. destruct (adds_rev _ He) as [-> ->]. split; reflexivity.
Qed.

(* the reversed batch: both classes = class of the new directions, totals swapped *)
Lemma reversal_batch_shape d b : rb_entries b <> [] -> all_reversible T b = true ->
  let es' := map (rev_entry arms) (rb_entries b) in
  let cls := class_of (has_dir TCredit es') (has_dir TDebit es') in
  reversal_batch T d b = mkrbatch cls cls (rt_desc T) d (rb_credit b) (rb_debit b) es' /\
  has_dir TCredit es' || has_dir TDebit es' = true /\
  (forall e', In e' es' -> digit_dir (e_code e') <> TNone).
Proof.
  intros Hne Hr es' cls. unfold all_reversible in Hr. 
  assert (Hnil : es' <> []) by (subst es'; destruct (rb_entries b); [congruence|discriminate]).
  assert (Hdirs : forall e', In e' es' -> digit_dir (e_code e') <> TNone) by (apply (rev_entries_In T HT); exact Hr).
  assert (Hany : has_dir TCredit es' || has_dir TDebit es' = true) by (apply has_some_dir; assumption).
  split; [|split; assumption].
  unfold reversal_batch. rewrite (entry_flags_spec T HT (rb_entries b) Hr). fold es'.
  rewrite (fixups_sound _ (HT_fix T HT) _ _ Hany). reflexivity.
Qed.

Theorem reversal_batch_arith_valid d bp b :
  AR.validate_batch A (r_batch ep bp b) = AR.ROk -> all_reversible T b = true ->
  AR.validate_batch A (r_batch ep bp (reversal_batch T d b)) = AR.ROk.
Proof.
  intros Hv Hr.
  pose proof (AF.verify_facts A _ (AF.validate_batch_verify A _ Hv)) as F.
  destruct F as [Fne Fe Fc Fcl Fo Fn Fcnt Fasc Fd Fcr Fh Ft].
  cbn [r_batch AR.bt_kind AR.bt_class AR.bt_odfi AR.bt_number AR.bt_entries AR.bt_ctl
       AR.bc_class AR.bc_count AR.bc_hash AR.bc_debit AR.bc_credit AR.bc_odfi AR.bc_number] in *.
  assert (Hne : rb_entries b <> []) by (intros E; rewrite E in Fne; now apply Fne).
  destruct (reversal_batch_shape d b Hne Hr) as (Eb & Hany & Hdirs). cbv zeta in Eb, Hany, Hdirs.
  set (es' := map (rev_entry arms) (rb_entries b)) in *.
  set (cls := class_of (has_dir TCredit es') (has_dir TDebit es')) in *.
  rewrite Eb. unfold all_reversible in Hr. 
  destruct (sums_rev (rb_entries b) Hr) as [Scr Sdb].
  destruct (AT.constants_sound A HA) as (_ & _ & _ & _ & Kmix & Kcr & Kdb & Kadv).
  assert (Hcls : cls = 200 \/ cls = 220 \/ cls = 225).
  { unfold cls. destruct (has_dir TCredit es'), (has_dir TDebit es'); cbn in Hany |- *; auto; discriminate. }
  (* the accepted classes, from the input's control *)
  assert (Hclsok : AR.memz cls (AR.t_classes A) = true).
  { destruct (AT.tables_ok_parts A HA) as (_ & _ & _ & _ & _ & Hk). unfold AT.constants_ok in Hk.
    apply andb_prop in Hk as [_ Hss]. unfold AT.same_set in Hss. apply andb_prop in Hss as [_ Hss].
    rewrite forallb_forall in Hss. apply Hss. cbn [In]. destruct Hcls as [-> | [-> | ->]]; auto. }
  unfold AR.validate_bctl in Fc. cbn [AR.bc_class AR.bc_odfi AR.bc_debit AR.bc_credit] in Fc.
  ok_split.
  apply validate_batch_std_intro; [reflexivity| |].
  - constructor; cbn [r_batch rb_scc_h rb_scc_c rb_debit rb_credit rb_entries AR.bt_kind AR.bt_class AR.bt_odfi AR.bt_number
                      AR.bt_entries AR.bt_ctl AR.bc_class AR.bc_count AR.bc_hash AR.bc_debit AR.bc_credit AR.bc_odfi AR.bc_number];
      try assumption; try reflexivity; unfold es'; rewrite ?r_entry_rev.
    + intros E. apply map_eq_nil, map_eq_nil in E. congruence.
    + apply Forall_forall. intros x Hx. apply in_map_iff in Hx as (y & <- & Hy). apply in_map_iff in Hy as (e & <- & He).
      rewrite forallb_forall in Hr. specialize (Hr e He).
      destruct (props T HT _ Hr) as [_ _ _ Hcl _ _ _].
      destruct (entry_code_std _ (reversible_entry_code _ _ Hcl)) as [S R]. unfold AT.std_code in S. apply andb_prop in S as [S _].
      apply recode_validate_entry.
      * rewrite Forall_forall in Fe. apply Fe. now apply in_map.
      * cbn [r_entry AR.en_code]. unfold rcode. lia.
      * exact S.
    + unfold AR.validate_bctl. cbn [AR.bc_class AR.bc_odfi AR.bc_debit AR.bc_credit].
      repeat (rewrite andr_ok; split); try reflexivity; apply chk_intro; try assumption.
      apply negb_true_iff, Z.eqb_neq. lia.
    + now rewrite recode_count.
    + intros _. rewrite recode_ascending. now apply Fasc.
    + rewrite Sdb. exact Fcr.
    + rewrite Scr. exact Fd.
    + unfold AR.calc_hash in *. now rewrite recode_hash_sum.
    + unfold AR.trace_odfi_ok in *. cbn [r_batch rb_entries AR.bt_odfi AR.bt_entries] in *. fold es'. unfold es'. rewrite r_entry_rev. now rewrite recode_trace_prefix.
  - cbn [r_batch rb_entries AR.bt_entries]. apply Forall_forall. intros x Hx.
    apply in_map_iff in Hx as (e' & <- & He'). apply tran_code_split. cbn [AR.bt_class rb_scc_h].
    pose proof He' as Hin. unfold es' in Hin. apply in_map_iff in Hin as (e & <- & He).
    rewrite forallb_forall in Hr. specialize (Hr e He).
    destruct (props T HT _ Hr) as [_ _ _ Hcl _ _ _].
    destruct (entry_code_std _ (reversible_entry_code _ _ Hcl)) as [S R]. unfold AT.std_code in S. apply andb_prop in S as [_ S].
    split; [now apply negb_true_iff in S|].
    unfold class_dir_ok. rewrite Kadv, Kmix, Kcr, Kdb. cbn [r_entry AR.en_code rev_entry e_code].
    rewrite credit_or_debit_dir.
    destruct Hcls as [-> | [E | E]]; [reflexivity| |]; rewrite E; cbn.
    + (* credits only: no debit among the new codes *)
      assert (Hnd : has_dir TDebit es' = false).
      { unfold cls in E. destruct (has_dir TCredit es'), (has_dir TDebit es'); cbn in E; try reflexivity; discriminate. }
      pose proof (no_other_dir es' TCredit Hdirs ltac:(discriminate) Hnd) as Hall.
      unfold all_dir in Hall. rewrite forallb_forall in Hall. specialize (Hall _ He'). cbn [rev_entry e_code] in Hall.
      apply target_eqb_eq in Hall. now rewrite Hall.
    + assert (Hnc : has_dir TCredit es' = false).
      { unfold cls in E. destruct (has_dir TCredit es'), (has_dir TDebit es'); cbn in E; try reflexivity; discriminate. }
      pose proof (no_other_dir es' TDebit Hdirs ltac:(discriminate) Hnc) as Hall.
      unfold all_dir in Hall. rewrite forallb_forall in Hall. specialize (Hall _ He'). cbn [rev_entry e_code] in Hall.
      apply target_eqb_eq in Hall. now rewrite Hall.
Qed.

(* ---- file level ---------------------------------------------------------------------- *)

Lemma combine_map_r {X Y Z'} (f : Y -> Z') (l : list X) : forall (m : list Y),
  combine l (map f m) = map (fun p => (fst p, f (snd p))) (combine l m).
Proof. induction l as [|x l IH]; intros [|y m]; cbn [map combine]; [reflexivity..|]. now rewrite IH. Qed.

Lemma r_sum_bp (g : AR.bctl -> Z) (h : bpay -> Z) :
  (forall bp b, g (AR.bt_ctl (r_batch ep bp b)) = h bp) ->
  forall bps bs, length bps = length bs -> AR.sumz (fun x => g (AR.bt_ctl x)) (r_batches ep bps bs) = AR.sumz h bps.
Proof.
  intros Hg. unfold r_batches. induction bps as [|bp bps IH]; intros [|b bs] Hl; cbn [length] in Hl; try discriminate; [reflexivity|].
  cbn [combine map AR.sumz fst snd]. rewrite Hg, IH by lia. reflexivity.
Qed.

Lemma r_sum_debit bps : forall bs, length bps = length bs ->
  AR.sumz (fun x => AR.bc_debit (AR.bt_ctl x)) (r_batches ep bps bs) = sum_debit bs.
Proof.
  unfold r_batches. induction bps as [|bp bps IH]; intros [|b bs] Hl; cbn [length] in Hl; try discriminate; [reflexivity|].
  cbn [combine map AR.sumz fst snd sum_debit]. rewrite IH by lia. reflexivity.
Qed.

Lemma r_sum_credit bps : forall bs, length bps = length bs ->
  AR.sumz (fun x => AR.bc_credit (AR.bt_ctl x)) (r_batches ep bps bs) = sum_credit bs.
Proof.
  unfold r_batches. induction bps as [|bp bps IH]; intros [|b bs] Hl; cbn [length] in Hl; try discriminate; [reflexivity|].
  cbn [combine map AR.sumz fst snd sum_credit]. rewrite IH by lia. reflexivity.
Qed.

Lemma r_numbers bps : forall bs last, length bps = length bs ->
  AR.numbers_ascending last (r_batches ep bps bs) = AR.numbers_ascending last (map (fun bp => r_batch ep bp (mkrbatch 0 0 [] [] 0 0 [])) bps).
Proof.
  unfold r_batches. induction bps as [|bp bps IH]; intros [|b bs] last Hl; cbn [length] in Hl; try discriminate; [reflexivity|].
  cbn [combine map AR.numbers_ascending fst snd r_batch AR.bt_number]. destruct (bp_number bp <=? last); [reflexivity|]. apply IH. lia.
Qed.

Lemma r_batches_length bps bs : length bps = length bs -> length (r_batches ep bps bs) = length bs.
Proof. intros H. unfold r_batches. rewrite map_length, combine_length, H. apply Nat.min_id. Qed.

Lemma r_batches_std bps bs : existsb (fun b => match AR.bt_kind b with AR.KADV => true | _ => false end) (r_batches ep bps bs) = false.
Proof. unfold r_batches. induction (combine bps bs) as [|p l IH]; cbn [map existsb]; [reflexivity|]. exact IH. Qed.

Theorem reversal_file_arith_valid d t bps f :
  length bps = length (rf_batches f) -> rf_batches f <> [] ->
  AR.validate_file A (r_file A ep bps f) = AR.ROk ->
  forallb (all_reversible T) (rf_batches f) = true ->
  exists f', reversal_file T d t f = ROk f' /\ AR.validate_file A (r_file A ep bps f') = AR.ROk.
Proof.
  intros Hl Hne Hv Hr.
  set (bs := rf_batches f) in *. set (bs' := map (reversal_batch T d) bs).
  assert (Hl' : length bps = length bs') by (unfold bs'; now rewrite map_length).
  exists (mkrfile d t bs' (sum_debit bs') (sum_credit bs')). split.
  { unfold reversal_file. fold bs bs'. destruct bs' eqn:E; [|reflexivity].
    unfold bs' in E. apply map_eq_nil in E. congruence. }
  apply validate_file_facts in Hv; [|apply r_batches_std].
  apply validate_file_facts; [apply r_batches_std|].
  destruct Hv as [F1 F2 F3 F4 F5 F6 F7 F8].
  unfold r_file, AR.all_batches in *.
  cbn [AR.fl_batches AR.fl_iat AR.fl_ctl rf_batches rf_debit rf_credit AR.fc_batches AR.fc_count AR.fc_hash AR.fc_debit AR.fc_credit] in *.
  fold bs in F2, F3, F5, F6, F7. rewrite app_nil_r in *.
  rewrite r_sum_debit in F5 by assumption. rewrite r_sum_credit in F6 by assumption.
  destruct (sum_swapped T d bs) as [S1 S2]. fold bs' in S1, S2.
  assert (Ecount : AR.sumz (fun b => AR.bc_count (AR.bt_ctl b)) (r_batches ep bps bs')
                   = AR.sumz (fun b => AR.bc_count (AR.bt_ctl b)) (r_batches ep bps bs)).
  { rewrite (r_sum_bp AR.bc_count bp_count ltac:(reflexivity) bps bs' Hl'), (r_sum_bp AR.bc_count bp_count ltac:(reflexivity) bps bs Hl). reflexivity. }
  assert (Ehash : AR.sumz (fun b => AR.bc_hash (AR.bt_ctl b)) (r_batches ep bps bs')
                  = AR.sumz (fun b => AR.bc_hash (AR.bt_ctl b)) (r_batches ep bps bs)).
  { rewrite (r_sum_bp AR.bc_hash bp_hash ltac:(reflexivity) bps bs' Hl'), (r_sum_bp AR.bc_hash bp_hash ltac:(reflexivity) bps bs Hl). reflexivity. }
  assert (Elen : length (r_batches ep bps bs') = length (r_batches ep bps bs)).
  { rewrite !r_batches_length by assumption. unfold bs'. apply map_length. }
  constructor; unfold AR.all_batches;
    cbn [AR.fl_batches AR.fl_iat AR.fl_ctl AR.fc_batches AR.fc_count AR.fc_hash AR.fc_debit AR.fc_credit];
    rewrite ?app_nil_r.
  - cbn [length]. lia.
  - apply Forall_forall. intros x Hx. unfold r_batches, bs' in Hx.
    rewrite combine_map_r, map_map in Hx. apply in_map_iff in Hx as (p & <- & Hp). cbn [fst snd].
    apply reversal_batch_arith_valid.
    + rewrite Forall_forall in F2. apply F2. unfold r_batches. now apply (in_map (fun q => r_batch ep (fst q) (snd q))) in Hp.
    + rewrite forallb_forall in Hr. apply Hr. destruct p as [bp b]. now apply in_combine_r in Hp.
  - (* FileControl.Validate: the same conditions with the two totals exchanged *)
    rewrite Ecount, Ehash, Elen, S1, S2, <- F5, <- F6. now apply validate_fctl_swap.
  - reflexivity.
  - now rewrite r_sum_debit.
  - now rewrite r_sum_credit.
  - rewrite r_numbers by assumption. rewrite r_numbers in F7 by assumption. exact F7.
  - reflexivity.
Qed.

End Rev.

(* Phase 2, C11: abstraction from the SegmentFile model to the skeleton of the validator model
   Arith.  Definitions only.

   A Segment batch keeps one service class (header = control), number, an identification tag,
   the two control totals and entries (code, amount, id, trace).  ODFI is a function [sp] of the
   identification tag (the copied header fields), routing number / check digit / trace string /
   addenda count a function [ep] of the entry's (id, trace) — both untouched by SegmentFile for
   standard batches.  The model has no entry/addenda count and no entry hash in its control:
   the abstraction takes the tabulation for them (what Create writes for a fresh batch, and
   what a reused batch carries because the input validated: C03_batch_arith). *)
From ACH Require Import ValidOut.
From Coq Require Import ZArith NArith List Bool.
From ACH Require Import Bytes TxCodes RevTable SegTable Segment.
Open Scope Z_scope.

Module AR := ACH.Model.Arith.
Module VO := ACH.Model.ValidOut.

Record spay := mkspay { sp_rdfi : bytes; sp_check : bytes; sp_trace : bytes; sp_addenda : Z }.

Section Abs.
Variables (A : AR.tables) (ep : N -> N -> spay) (sp : N -> bytes).

Definition s_entry (e : entry) : AR.entry :=
  let p := ep (e_id e) (e_trace e) in
  AR.mkentry (e_code e) (e_amount e) (sp_rdfi p) (sp_check p) (sp_trace p) (sp_addenda p).

Definition s_batch_k (k : AR.kind) (b : sbatch) : AR.batch :=
  let es := map s_entry (sb_entries b) in
  let odfi := sp (sb_ident b) in
  AR.mkbatch k (sb_scc b) odfi (sb_num b) es
             (AR.mkbctl (sb_scc b) (AR.calc_count es) (AR.calc_hash A es) (sb_debit b) (sb_credit b) odfi (sb_num b)).

Definition s_batch := s_batch_k AR.KStd.
Definition s_ibatch := s_batch_k AR.KIAT.

Definition s_file (f : sfile) : AR.file :=
  let bs := map s_batch (sf_batches f) in
  let is := map s_ibatch (sf_iat f) in
  AR.mkfile bs is
    (AR.mkfctl (Z.of_nat (length bs) + Z.of_nat (length is))
               (AR.sumz (fun b => AR.bc_count (AR.bt_ctl b)) (bs ++ is))
               (AR.least_sig (AR.sumz (fun b => AR.bc_hash (AR.bt_ctl b)) (bs ++ is)) (AR.t_hash_digits A))
               (sf_debit f) (sf_credit f)).

End Abs.

(* the standard arithmetic lists of the segment tables are Arith's lists of
   Batch.calculateBatchAmounts, and every accepted code has two digits *)
Definition seg_tables_agree (A : AR.tables) (T : stables) : bool :=
  arms_known (st_amt_std T)
  && forallb (fun c => Bool.eqb (target_eqb (classify (st_amt_std T) c) TCredit) (AR.adds_credit A AR.KStd c)
                       && Bool.eqb (target_eqb (classify (st_amt_std T) c) TDebit) (AR.adds_debit A AR.KStd c))
             (all_codes (st_amt_std T) ++ AR.t_std_credit A ++ AR.t_std_debit A)
  && forallb (fun c => 10 <=? c) (AR.t_codes A).

(* The characters of a byte prefix of a well-formed UTF-8 string (the lemma that was
   missing for C04_truncation_bytes): the characters of the longest complete-character
   prefix followed by one U+FFFD per leftover byte (at most three). *)
From Coq Require Import List Lia ZifyN ZifyNat ZifyBool NArith Bool.
From ACH Require Import Utf8 Utf8Facts Utf8Enc RuneFacts Framing FramingBytes TruncUtf8.
Import ListNotations.
Open Scope N_scope.

(* ---- decoding an incomplete sequence ------------------------------------------- *)

Lemma seq_size_cont b : 128 <= b <= 191 -> seq_size b = 0%nat.
Proof. intros H. unfold seq_size. destruct (N.ltb_spec b 194); [reflexivity|lia]. Qed.

Lemma chunks_conts t : Forall (fun b => 128 <= b <= 191) t -> chunks t = map (fun b => (rune_error, [b])) t.
Proof.
  induction 1 as [|b t Hb _ IH]; [reflexivity|].
  rewrite chunks_hi by lia. unfold chunks_multi. rewrite (seq_size_cont b Hb). cbn [map]. now rewrite IH.
Qed.

Lemma seq_size_le4 b : (seq_size b <= 4)%nat.
Proof. pose proof (seq_size_spec b) as H. destruct (seq_size b) as [|[|[|[|[|n]]]]]; try lia; contradiction. Qed.

(* fewer bytes than the first byte announces: the first byte alone is an error *)
Lemma chunks_short b0 t : 128 <= b0 -> (S (length t) < seq_size b0)%nat ->
  chunks (b0 :: t) = (rune_error, [b0]) :: chunks t.
Proof.
  intros H0 Hl. rewrite chunks_hi by assumption. unfold chunks_multi.
  pose proof (seq_size_le4 b0) as H4.
  destruct (seq_size b0) as [|[|[|[|[|n]]]]]; try lia.
  - destruct t as [|b1 t]; [reflexivity|cbn [length] in Hl; lia].
  - destruct t as [|b1 [|b2 t]]; try reflexivity. cbn [length] in Hl. lia.
  - destruct t as [|b1 [|b2 [|b3 t]]]; try reflexivity. cbn [length] in Hl. lia.
Qed.

(* a multi-byte encoding: a first byte announcing its length, then continuation bytes *)
Lemma encode_rune_shape r : 128 <= r ->
  exists b0 cs, encode_rune r = b0 :: cs /\ 128 <= b0 /\ seq_size b0 = S (length cs) /\
                Forall (fun b => 128 <= b <= 191) cs.
Proof.
  intros Hr. unfold encode_rune.
  assert (Herr : exists b0 cs, [239; 191; 189] = b0 :: cs /\ 128 <= b0 /\ seq_size b0 = S (length cs) /\
                   Forall (fun b => 128 <= b <= 191) cs).
  { exists 239, [191; 189]. split; [reflexivity|]. split; [lia|]. split; [reflexivity|]. repeat constructor; lia. }
  destruct (r <? 128) eqn:E1; [apply N.ltb_lt in E1; lia|].
  destruct (r <? 2048) eqn:E2.
  { apply N.ltb_lt in E2. exists (192 + r / 64), [128 + r mod 64]. split; [reflexivity|]. split; [lia|].
    split; [apply seq_size_2; lia|]. repeat constructor; lia. }
  apply N.ltb_ge in E2.
  destruct ((55296 <=? r) && (r <=? 57343)) eqn:E3; [exact Herr|].
  destruct (r <? 65536) eqn:E4.
  { apply N.ltb_lt in E4. exists (224 + r / 4096), [128 + (r / 64) mod 64; 128 + r mod 64].
    split; [reflexivity|]. split; [lia|]. split; [apply seq_size_3; lia|]. repeat constructor; lia. }
  apply N.ltb_ge in E4.
  destruct (r <? 1114112) eqn:E5; [|exact Herr].
  apply N.ltb_lt in E5. exists (240 + r / 262144), [128 + (r / 4096) mod 64; 128 + (r / 64) mod 64; 128 + r mod 64].
  split; [reflexivity|]. split; [lia|]. split; [apply seq_size_4; lia|]. repeat constructor; lia.
Qed.

(* a strict, non-empty byte prefix of one encoded character decodes to one error per byte *)
Lemma chunks_strict_prefix r x y : encode_rune r = x ++ y -> x <> [] -> y <> [] ->
  chunks x = map (fun b => (rune_error, [b])) x /\ (length x < length (encode_rune r))%nat /\ (length x <= 3)%nat.
Proof.
  intros E Hx Hy.
  assert (Hlen : (length x < length (encode_rune r))%nat).
  { rewrite E, app_length. destruct y; [congruence|cbn [length]; lia]. }
  destruct (N.ltb_spec r 128) as [Hr|Hr].
  { exfalso. unfold encode_rune in Hlen. apply N.ltb_lt in Hr. rewrite Hr in Hlen. cbn [length] in Hlen.
    destruct x; [congruence|cbn [length] in Hlen; lia]. }
  destruct (encode_rune_shape r Hr) as (b0 & cs & Es & H0 & Hs & Hc).
  rewrite Es in E, Hlen |- *. destruct x as [|b x']; [congruence|]. cbn [app] in E. injection E as <- Ecs.
  cbn [length] in Hlen. rewrite Ecs in Hc. apply Forall_app in Hc as [Hx' _].
  pose proof (seq_size_le4 b0) as H4.
  split; [|split; [cbn [length]; lia|cbn [length]; lia]].
  rewrite chunks_short by (try assumption; lia). cbn [map]. now rewrite chunks_conts.
Qed.

Lemma map_const_repeat {A B} (u : B) (l : list A) : map (fun _ => u) l = repeat u (length l).
Proof. induction l as [|a l IH]; [reflexivity|]. cbn [map length repeat]. now rewrite IH. Qed.

Lemma chars_strict_prefix r x y : encode_rune r = x ++ y -> x <> [] -> y <> [] ->
  chars x = repeat U_b (length x) /\ (length x < length (encode_rune r))%nat /\ (length x <= 3)%nat.
Proof.
  intros E Hx Hy. destruct (chunks_strict_prefix r x y E Hx Hy) as (Hc & Hl & H3).
  split; [|split; assumption]. unfold chars. rewrite Hc, map_map. cbn [fst snd].
  change (rune_error =? rune_error) with true. cbv iota. apply map_const_repeat.
Qed.

(* ---- the characters of a well-formed string --------------------------------------- *)

Lemma chars_wf s : wf_utf8 s = true -> chars s = map encode_rune (runes s).
Proof.
  intros H. unfold chars. rewrite (chunks_wf s H), map_map. apply map_ext. intros r. cbn [fst snd].
  destruct (N.eqb_spec r rune_error) as [->|_]; reflexivity.
Qed.

Lemma chars_encode rs : forallb validb rs = true -> chars (encode rs) = map encode_rune rs.
Proof. intros H. rewrite (chars_wf _ (wf_encode rs)). now rewrite (runes_encode_valid rs H). Qed.

Lemma concat_map_encode rs : concat (map encode_rune rs) = encode rs.
Proof. unfold encode. now rewrite flat_map_concat_map. Qed.

Lemma validb_firstn n rs : forallb validb rs = true -> forallb validb (firstn n rs) = true.
Proof. apply RuneFacts.forallb_firstn. Qed.

(* ---- byte prefixes ------------------------------------------------------------------ *)

Local Open Scope nat_scope.

Theorem chars_firstn_encode rs : forallb validb rs = true -> forall k c j,
  k <= length (encode rs) -> split_at (map encode_rune rs) k = (c, j) ->
  chars (firstn k (encode rs)) = firstn c (map encode_rune rs) ++ repeat U_b j /\
  j <= 3 /\ c <= length rs /\
  (0 < j -> c < length rs /\ j < length (nth c (map encode_rune rs) [])) /\
  firstn k (encode rs) = encode (firstn c rs) ++ firstn j (nth c (map encode_rune rs) []).
Proof.
  induction rs as [|r rs IH]; intros Hv k c j Hk Hs.
  - cbn in Hk. replace k with 0 by lia. cbn in Hs. injection Hs as <- <-. cbn.
    repeat split; try lia; reflexivity.
  - cbn [forallb] in Hv. apply andb_prop in Hv as [Hr Hv].
    rewrite encode_cons in *. cbn [map split_at] in Hs. rewrite app_length in Hk.
    destruct (Nat.leb_spec (length (encode_rune r)) k) as [Hle|Hgt].
    + destruct (split_at (map encode_rune rs) (k - length (encode_rune r))) as [c' j'] eqn:Es.
      injection Hs as <- <-.
      destruct (IH Hv (k - length (encode_rune r)) c' j' ltac:(lia) Es) as (I1 & I2 & I3 & I4 & I5).
      rewrite firstn_app, firstn_all2 by lia.
      assert (Hw : wf_utf8 (encode_rune r) = true) by (rewrite <- (app_nil_r (encode_rune r)); apply (wf_encode [r])).
      split; [|split; [exact I2|split; [cbn [length]; lia|split]]].
      * assert (Ec : chars (encode_rune r) = [encode_rune r]).
        { assert (Hv1 : forallb validb [r] = true) by (cbn [forallb]; now rewrite Hr).
          pose proof (chars_encode [r] Hv1) as H1. unfold encode in H1. cbn [flat_map map] in H1.
          now rewrite app_nil_r in H1. }
        rewrite (chars_app_wf _ _ Hw), I1, Ec. reflexivity.
      * intros Hj. destruct (I4 Hj) as [A B]. cbn [length map nth]. split; [lia|exact B].
      * rewrite I5. cbn [firstn map nth]. rewrite encode_cons, <- app_assoc. reflexivity.
    + injection Hs as <- <-. rewrite firstn_app. replace (k - length (encode_rune r)) with 0 by lia.
      cbn [firstn]. rewrite app_nil_r. cbn [firstn map nth app length]. change (encode []) with (@nil N). cbn [app].
      destruct (Nat.eq_dec k 0) as [->|Hk0].
      * cbn. repeat split; try lia.
      * assert (E : encode_rune r = firstn k (encode_rune r) ++ skipn k (encode_rune r)) by (symmetry; apply firstn_skipn).
        assert (Hx : firstn k (encode_rune r) <> []).
        { intros H. apply (f_equal (@length N)) in H. rewrite firstn_length in H. cbn in H. lia. }
        assert (Hy : skipn k (encode_rune r) <> []).
        { intros H. apply (f_equal (@length N)) in H. rewrite skipn_length in H. cbn in H. lia. }
        destruct (chars_strict_prefix r _ _ E Hx Hy) as (C1 & C2 & C3).
        rewrite firstn_length in C1, C2, C3. replace (Nat.min k (length (encode_rune r))) with k in * by lia.
        repeat split; try lia. exact C1.
Qed.

Lemma length_chars_wf s : wf_utf8 s = true -> length (chars s) = rune_count s.
Proof. intros _. apply chars_length. Qed.

(* THE lemma: the characters bufio.ScanRunes yields for the first k bytes of a well-formed
   string are the c complete characters that fit, followed by one U+FFFD per leftover
   byte; the leftover bytes (at most 3) are a strict prefix of character number c *)
Theorem chars_firstn s k c j : wf_utf8 s = true -> k <= length s -> split_at (chars s) k = (c, j) ->
  chars (firstn k s) = firstn c (chars s) ++ repeat U_b j /\
  j <= 3 /\ c <= rune_count s /\
  (0 < j -> c < rune_count s /\ j < length (nth c (chars s) [])) /\
  firstn k s = concat (firstn c (chars s)) ++ firstn j (nth c (chars s) []).
Proof.
  intros Hw Hk Hs. destruct (wf_decompose s Hw) as (rs & Hv & -> & Hr).
  rewrite (chars_encode rs Hv) in *. rewrite rune_count_encode.
  destruct (chars_firstn_encode rs Hv k c j Hk Hs) as (A & B & C & D & E).
  repeat split; try assumption; try (apply D; assumption).
  rewrite E. f_equal. rewrite <- map_firstn || rewrite firstn_map. now rewrite concat_map_encode.
Qed.

Corollary chars_firstn_closed s k : wf_utf8 s = true -> k <= length s -> chars (firstn k s) = prefix_chars s k.
Proof.
  intros Hw Hk. unfold prefix_chars. destruct (split_at (chars s) k) as [c j] eqn:E.
  now destruct (chars_firstn s k c j Hw Hk E) as (A & _).
Qed.

(* on ASCII strings nothing is left over *)
Lemma split_at_ascii s k : asciib s = true -> k <= length s -> split_at (chars s) k = (k, 0).
Proof.
  intros Ha. assert (E : chars s = map (fun b => [b]) s).
  { unfold chars. rewrite (chunks_ascii s Ha), map_map. apply map_ext_in. intros b Hb. cbn [fst snd].
    unfold asciib in Ha. rewrite forallb_forall in Ha. specialize (Ha b Hb). apply N.ltb_lt in Ha.
    destruct (N.eqb_spec b rune_error) as [Eb|_]; [unfold rune_error in Eb; lia|reflexivity]. }
  rewrite E. clear E Ha. revert k. induction s as [|b s IH]; intros k Hk.
  - cbn in Hk. now replace k with 0 by lia.
  - cbn [map split_at length] in *. destruct k as [|k]; [reflexivity|].
    cbn [Nat.leb Nat.sub]. rewrite Nat.sub_0_r, (IH k) by lia. reflexivity.
Qed.

(* C04, truncation inside the file control record: when the record cut at column c
   (blank from c on) still carries the original values in all protected fields and the
   original entry/addenda count is not zero, then the cut lies behind the count column,
   hence behind the (unprotected) block count, and Parse assigns exactly the same
   values as for the original record: the reader builds an identical control record. *)
From Coq Require Import String List Lia NArith ZArith Bool.
From ACH Require Import TamperText TamperTextFacts TamperTextLift TruncBytes NumFacts FieldsFacts ArithFacts TamperFacts.
From ACH Require Import Utf8Enc.
Import ListNotations.
Local Open Scope string_scope.
Local Open Scope list_scope.
Local Open Scope nat_scope.

(* ------------------------------------------------------------------ *)
(* columns of ASCII lines and of cut lines                               *)

Lemma column_ascii x lo hi : asciib x = true -> column x lo hi = firstn (hi - lo) (skipn lo x).
Proof.
  intros H. unfold column, sub, units. rewrite (chunks_ascii x H), map_map. cbn [snd].
  change (map (fun b : N => [b]) x) with (S1 x). unfold S1. rewrite skipn_map, firstn_map. apply concat_S1.
Qed.

Lemma asciib_repeat_sp k : asciib (repeat sp k) = true.
Proof. apply RuneFacts.forallb_repeat. reflexivity. Qed.

Lemma cut_line_ascii x c : asciib x = true -> asciib (cut_line x c) = true.
Proof. intros H. unfold cut_line. rewrite asciib_app, (asciib_firstn c x H). apply asciib_repeat_sp. Qed.

Lemma cut_line_length x c : length x = 94 -> c <= 94 -> length (cut_line x c) = 94.
Proof. intros H Hc. unfold cut_line. rewrite app_length, firstn_length, repeat_length. lia. Qed.

Lemma cut_line_rune_count x c : asciib x = true -> length x = 94 -> c <= 94 -> rune_count (cut_line x c) = 94.
Proof. intros Ha Hl Hc. rewrite (rune_count_ascii _ (cut_line_ascii x c Ha)). now apply cut_line_length. Qed.

Section Columns.
Variables (x : bytes) (c : nat).
Hypothesis Ha : asciib x = true.
Hypothesis Hl : length x = 94.
Hypothesis Hc : c <= 94.

Lemma x_split : x = firstn c x ++ skipn c x.
Proof. symmetry. apply firstn_skipn. Qed.

(* columns entirely before the cut *)
Lemma column_cut_before lo hi : hi <= c -> column (cut_line x c) lo hi = column x lo hi.
Proof.
  intros H. rewrite (column_ascii _ lo hi (cut_line_ascii x c Ha)), (column_ascii x lo hi Ha).
  destruct (Nat.le_gt_cases lo hi) as [Hle|Hgt]; [|replace (hi - lo) with 0 by lia; reflexivity].
  unfold cut_line. rewrite x_split at 2. replace hi with (lo + (hi - lo)) in H by lia.
  apply firstn_skipn_prefix. rewrite firstn_length. lia.
Qed.

(* columns entirely behind the cut are blank *)
Lemma column_cut_behind lo hi : c <= lo -> hi <= 94 -> column (cut_line x c) lo hi = repeat sp (hi - lo).
Proof.
  intros H Hh. rewrite (column_ascii _ lo hi (cut_line_ascii x c Ha)). unfold cut_line.
  rewrite skipn_app, skipn_all2 by (rewrite firstn_length; lia). cbn [app].
  rewrite firstn_length. replace (Nat.min c (length x)) with c by lia.
  rewrite skipn_repeat, TruncFacts.firstn_repeat. f_equal. lia.
Qed.

(* a column containing the cut: its first characters, then blanks *)
Lemma column_cut_inside lo hi : lo < c < hi -> hi <= 94 ->
  column (cut_line x c) lo hi = firstn (c - lo) (column x lo hi) ++ repeat sp (hi - c).
Proof.
  intros H Hh. rewrite (column_ascii _ lo hi (cut_line_ascii x c Ha)), (column_ascii x lo hi Ha). unfold cut_line.
  rewrite skipn_app, firstn_app, skipn_length, !firstn_length.
  replace (lo - Nat.min c (length x)) with 0 by lia. cbn [skipn].
  replace (hi - lo - (Nat.min c (length x) - lo)) with (hi - c) by lia.
  rewrite TruncFacts.firstn_repeat. replace (Nat.min (hi - c) (94 - c)) with (hi - c) by lia. f_equal.
  (* the first c - lo characters *)
  apply nth_error_ext. intros i.
  destruct (Nat.lt_ge_cases i (c - lo)) as [Hi|Hi].
  - rewrite !nth_error_firstn_lt by lia. rewrite !nth_error_skipn_add. now rewrite nth_error_firstn_lt by lia.
  - rewrite (nth_error_firstn_ge _ (c - lo) i Hi).
    apply nth_error_None. rewrite firstn_length, skipn_length, firstn_length. lia.
Qed.

End Columns.

(* ------------------------------------------------------------------ *)
(* numeric columns that lost their tail                                   *)

Lemma parseNumField_blanks k : parseNumField (repeat sp k) = 0%Z.
Proof.
  unfold parseNumField. change (repeat sp k) with ([] ++ spaces k). rewrite trim_app_spaces by reflexivity. reflexivity.
Qed.

Lemma parseNumField_digits_blanks t k : digitsb t = true -> parseNumField (t ++ repeat sp k) = atoi t.
Proof.
  intros H. unfold parseNumField. change (repeat sp k) with (spaces k).
  rewrite trim_app_spaces by (apply wf_ascii, digitsb_ascii, H). now rewrite trim_digits.
Qed.

Lemma parseNumField_digits t : digitsb t = true -> parseNumField t = atoi t.
Proof. intros H. unfold parseNumField. now rewrite trim_digits. Qed.

Lemma digitsb_firstn n t : digitsb t = true -> digitsb (firstn n t) = true.
Proof. apply RuneFacts.forallb_firstn. Qed.

Lemma digitsb_skipn n t : digitsb t = true -> digitsb (skipn n t) = true.
Proof. apply forallb_skipn. Qed.

Lemma atoi_small t : digitsb t = true -> length t <= 18 -> atoi t = digits_val t 0.
Proof.
  intros Hd Hl. destruct t as [|b t]; [reflexivity|].
  rewrite NumFacts.atoi_digits by (try discriminate; exact Hd).
  pose proof (digits_val_bound (b :: t) Hd) as B.
  assert (10 ^ Z.of_nat (length (b :: t)) <= 10 ^ 18)%Z by (apply Z.pow_le_mono_r; lia).
  unfold max_int64. lia.
Qed.

(* a digit column of at most 18 characters, its first m (0 <= m < width) kept: the value
   is unchanged only if it is zero *)
Lemma truncated_number_same_only_zero t m : digitsb t = true -> length t <= 18 -> m < length t ->
  atoi (firstn m t) = atoi t -> atoi t = 0%Z.
Proof.
  intros Hd Hl Hm E.
  rewrite (atoi_small t Hd Hl) in *.
  rewrite (atoi_small _ (digitsb_firstn m t Hd)) in E by (rewrite firstn_length; lia).
  rewrite <- (firstn_skipn m t) in E at 2. rewrite <- (firstn_skipn m t).
  rewrite TamperFacts.digits_val_app in *.
  pose proof (digits_val_bound _ (digitsb_firstn m t Hd)) as B1.
  pose proof (digits_val_bound _ (digitsb_skipn m t Hd)) as B2.
  rewrite skipn_length in *.
  set (P := digits_val (firstn m t) 0) in *. set (R := digits_val (skipn m t) 0) in *.
  assert (Hp : (10 <= 10 ^ Z.of_nat (length t - m))%Z).
  { replace (length t - m) with (S (length t - m - 1)) by lia. rewrite Nat2Z.inj_succ, Z.pow_succ_r by lia.
    assert (0 < 10 ^ Z.of_nat (length t - m - 1))%Z by (apply Z.pow_pos_nonneg; lia). lia. }
  nia.
Qed.

(* ------------------------------------------------------------------ *)
(* the two file control layouts                                           *)

Definition pnf (x : bytes) (lo hi : nat) : Z := parseNumField (column x lo hi).

Lemma parse_fctl x : rune_count x = 94 ->
  parse L_FileControl x =
  [ ("BatchCount", VI (pnf x 1 7)); ("BlockCount", VI (pnf x 7 13)); ("EntryAddendaCount", VI (pnf x 13 21))
  ; ("EntryHash", VI (pnf x 21 31)); ("TotalDebitEntryDollarAmountInFile", VI (pnf x 31 43))
  ; ("TotalCreditEntryDollarAmountInFile", VI (pnf x 43 55)) ].
Proof. intros H. unfold parse. rewrite H. cbn [Nat.eqb]. reflexivity. Qed.

Lemma parse_adv_fctl x : rune_count x = 94 ->
  parse L_ADVFileControl x =
  [ ("BatchCount", VI (pnf x 1 7)); ("BlockCount", VI (pnf x 7 13)); ("EntryAddendaCount", VI (pnf x 13 21))
  ; ("EntryHash", VI (pnf x 21 31)); ("TotalDebitEntryDollarAmountInFile", VI (pnf x 31 51))
  ; ("TotalCreditEntryDollarAmountInFile", VI (pnf x 51 71)) ].
Proof. intros H. unfold parse. rewrite H. cbn [Nat.eqb]. reflexivity. Qed.

(* the columns of the debit and credit totals *)
Definition debit_hi (adv : bool) : nat := if adv then 51 else 43.
Definition credit_hi (adv : bool) : nat := if adv then 71 else 55.

Lemma parse_any_fctl adv x : rune_count x = 94 ->
  parse (fctl_layout adv) x =
  [ ("BatchCount", VI (pnf x 1 7)); ("BlockCount", VI (pnf x 7 13)); ("EntryAddendaCount", VI (pnf x 13 21))
  ; ("EntryHash", VI (pnf x 21 31)); ("TotalDebitEntryDollarAmountInFile", VI (pnf x 31 (debit_hi adv)))
  ; ("TotalCreditEntryDollarAmountInFile", VI (pnf x (debit_hi adv) (credit_hi adv))) ].
Proof. destruct adv; [apply parse_adv_fctl|apply parse_fctl]. Qed.

Theorem cut_ctl_identical adv x c :
  good_line x -> 1 <= c < 94 -> digitsb (column x 13 21) = true ->
  skel_fctl adv (cut_line x c) = skel_fctl adv x -> fc_count (skel_fctl adv x) <> 0%Z ->
  21 <= c /\ parse (fctl_layout adv) (cut_line x c) = parse (fctl_layout adv) x.
Proof.
  intros (Hl & Ha & _) Hc Hdig Hsk Hcnt.
  assert (Hrc : rune_count x = 94) by now rewrite (rune_count_ascii x Ha).
  assert (Hrc' : rune_count (cut_line x c) = 94) by (apply cut_line_rune_count; auto; lia).
  unfold skel_fctl in *. rewrite (parse_any_fctl adv _ Hrc'), (parse_any_fctl adv _ Hrc) in *.
  unfold fctl_of, geti in Hsk, Hcnt. cbn in Hsk, Hcnt. injection Hsk as E1 E2 E3 E4 E5.
  assert (Hlen : length (column x 13 21) = 8).
  { rewrite (column_ascii x 13 21 Ha), firstn_length, skipn_length. lia. }
  assert (Hc21 : 21 <= c).
  { destruct (Nat.le_gt_cases 21 c) as [H|H]; [exact H|]. exfalso. apply Hcnt.
    unfold pnf in E2 |- *. rewrite (parseNumField_digits (column x 13 21) Hdig) in *.
    destruct (Nat.le_gt_cases c 13) as [H13|H13].
    - rewrite (column_cut_behind x c Ha Hl ltac:(lia) 13 21 H13 ltac:(lia)), parseNumField_blanks in E2. now symmetry.
    - rewrite (column_cut_inside x c Ha Hl ltac:(lia) 13 21 ltac:(lia) ltac:(lia)) in E2.
      rewrite parseNumField_digits_blanks in E2 by now apply digitsb_firstn.
      apply (truncated_number_same_only_zero (column x 13 21) (c - 13)); auto; lia. }
  split; [exact Hc21|].
  unfold pnf in *.
  rewrite (column_cut_before x c Ha Hl ltac:(lia) 1 7), (column_cut_before x c Ha Hl ltac:(lia) 7 13) by lia.
  now rewrite E2, E3, E4, E5.
Qed.

(* file level: an accepted truncation inside the control record gives an identical parse *)
Theorem truncated_ctl_identical f c :
  ascii_records f -> 1 <= c < 94 -> digitsb (column (f_ctl f) 13 21) = true ->
  fc_count (fl_ctl (skel f)) <> 0%Z ->
  skel (with_ctl f (cut_line (f_ctl f) c)) = skel f ->
  parse (fctl_layout (adv_file f)) (cut_line (f_ctl f) c) = parse (fctl_layout (adv_file f)) (f_ctl f).
Proof.
  intros Hg Hc Hd Hcnt Hsk.
  assert (Hgl : good_line (f_ctl f)).
  { unfold ascii_records in Hg. rewrite Forall_forall in Hg. apply Hg. unfold record_lines.
    apply in_cons, in_or_app. right. now left. }
  apply (f_equal fl_ctl) in Hsk. unfold skel in Hsk, Hcnt. cbn [fl_ctl with_ctl f_batches f_ctl] in Hsk, Hcnt.
  fold (adv_file f) in Hsk.
  exact (proj2 (cut_ctl_identical (adv_file f) (f_ctl f) c Hgl Hc Hd Hsk Hcnt)).
Qed.

(* Control arithmetic of moov-io/ach validation (C03/C04): executable model of
   Batch.verify / IATBatch.verify / BatchADV.Validate / File.ValidateWith restricted
   to the integrity-protected fields, written in the order of the Go code.  The
   result of a validation is the FIRST failing rule.  Definitions only.

   Code tables (credit/debit lists, accepted transaction codes, service classes,
   field limits) are a parameter [T : tables]; the instance regenerated from the
   source of the run is Gen/Tables.v. *)
From ACH Require Export Utf8 Fields.
Open Scope Z_scope.

Inductive kind := KStd | KIAT | KADV.

Record tables := mktables {
  t_std_credit : list Z; t_std_debit : list Z;      (* Batch.calculateBatchAmounts *)
  t_iat_credit : list Z; t_iat_debit : list Z;      (* IATBatch.calculateBatchAmounts *)
  t_adv_credit : list Z; t_adv_debit : list Z;      (* Batch.calculateADVBatchAmounts *)
  t_codes : list Z;                                 (* StandardTransactionCode *)
  t_advcodes : list Z;                              (* first switch of ValidTranCodeForServiceClassCode *)
  t_classes : list Z;                               (* validator.isServiceClass *)
  t_mixed : Z; t_credits : Z; t_debits : Z; t_advclass : Z;
  t_hash_digits : Z;                                (* leastSignificantDigits(hash, N) *)
  t_amount_limit : Z;                               (* NachaEntryAmountLimit *)
  t_batch_limit : Z;                                (* NachaBatchDebitCreditLimit *)
  t_file_limit : Z }.                               (* NachaFileDebitCreditLimit *)

Record entry := mkentry {
  en_code : Z;          (* TransactionCode *)
  en_amount : Z;        (* Amount *)
  en_rdfi : bytes;      (* RDFIIdentification as stored *)
  en_check : bytes;     (* CheckDigit as stored *)
  en_trace : bytes;     (* TraceNumber as stored (ADV: unused) *)
  en_addenda : Z }.     (* number of addenda records attached to the entry *)

Record bctl := mkbctl {
  bc_class : Z; bc_count : Z; bc_hash : Z; bc_debit : Z; bc_credit : Z;
  bc_odfi : bytes; bc_number : Z }.

Record batch := mkbatch {
  bt_kind : kind;
  bt_class : Z;         (* header ServiceClassCode *)
  bt_odfi : bytes;      (* header ODFIIdentification *)
  bt_number : Z;        (* header BatchNumber *)
  bt_entries : list entry;
  bt_ctl : bctl }.

Record fctl := mkfctl { fc_batches : Z; fc_count : Z; fc_hash : Z; fc_debit : Z; fc_credit : Z }.

Record file := mkfile {
  fl_batches : list batch;   (* File.Batches *)
  fl_iat : list batch;       (* File.IATBatches *)
  fl_ctl : fctl }.           (* File.Control, or File.ADVControl for an ADV file *)

Inductive rule :=
| ROk
| RNoEntries | RCode | RAmount | RCheckDigit
| RClass | ROdfi | RNumber | RCount | RAscending | RDebit | RCredit | RHash | RTraceOdfi
| RAdvCode | RDirection
| RFBatchCount | RFCount | RFDebit | RFCredit | RFAscending | RFHash.

Definition andr (a b : rule) : rule := match a with ROk => b | _ => a end.
Infix ";;" := andr (at level 61, right associativity).
Definition chk (ok : bool) (r : rule) : rule := if ok then ROk else r.

Fixpoint first_fail {A} (f : A -> rule) (l : list A) : rule :=
  match l with
  | [] => ROk
  | x :: t => f x ;; first_fail f t
  end.

Definition memz (c : Z) (l : list Z) : bool := existsb (Z.eqb c) l.

(* ---- converters ------------------------------------------------------- *)

(* Go string comparison a <= b *)
Fixpoint bytes_leb (a b : bytes) : bool :=
  match a, b with
  | [], _ => true
  | _ :: _, [] => false
  | x :: a', y :: b' => if (x <? y)%N then true else if (y <? x)%N then false else bytes_leb a' b'
  end.

(* aba8 (batch.go) *)
Definition aba8 (r : bytes) : bytes :=
  let n := rune_count r in
  if (10 <? n)%nat then []
  else if (n =? 10)%nat then
    match r with
    | b :: t => if (b =? 48)%N || (b =? 49)%N then firstn 8 t else []
    | [] => []
    end
  else if negb (n =? 8)%nat && negb (n =? 9)%nat then []
  else firstn 8 r.

(* roundUp10 (validators.go) on the non-negative sums it is applied to *)
Definition roundUp10 (n : Z) : Z := (n + 9) / 10 * 10.

Definition weight (i : nat) : Z :=
  match (i mod 3)%nat with 0%nat => 3 | 1%nat => 7 | _ => 1 end.

(* the weighted sum loop of CalculateCheckDigit; None = a non-digit among the first 8 bytes *)
Fixpoint cd_sum (i : nat) (s : bytes) : option Z :=
  match s with
  | [] => Some 0
  | b :: t =>
      if (8 <=? i)%nat then Some 0
      else if is_digit b then
        match cd_sum (S i) t with
        | Some v => Some (weight i * Z.of_N (b - 48) + v)
        | None => None
        end
      else None
  end.

Definition calc_check_digit (s : bytes) : Z :=
  let n := rune_count s in
  if negb (n =? 8)%nat && negb (n =? 9)%nat then -1
  else match cd_sum 0 s with
       | Some v => roundUp10 v - v
       | None => -1
       end.

(* v % 10^digits (Go remainder truncates toward zero) *)
Definition least_sig (v digits : Z) : Z := Z.rem v (10 ^ digits).

(* ---- sums over the entries -------------------------------------------- *)

Definition credit_list (T : tables) (k : kind) : list Z :=
  match k with KStd => t_std_credit T | KIAT => t_iat_credit T | KADV => t_adv_credit T end.
Definition debit_list (T : tables) (k : kind) : list Z :=
  match k with KStd => t_std_debit T | KIAT => t_iat_debit T | KADV => t_adv_debit T end.

(* which total an entry is added to: the switch takes the first matching case
   (standard, IAT); the ADV loop has two independent ifs *)
Definition adds_credit (T : tables) (k : kind) (c : Z) : bool := memz c (credit_list T k).
Definition adds_debit (T : tables) (k : kind) (c : Z) : bool :=
  match k with
  | KADV => memz c (debit_list T k)
  | _ => negb (memz c (credit_list T k)) && memz c (debit_list T k)
  end.

Fixpoint sum_where (p : entry -> bool) (es : list entry) : Z :=
  match es with
  | [] => 0
  | e :: t => (if p e then en_amount e else 0) + sum_where p t
  end.

Definition calc_credit T k es := sum_where (fun e => adds_credit T k (en_code e)) es.
Definition calc_debit T k es := sum_where (fun e => adds_debit T k (en_code e)) es.

Fixpoint calc_count (es : list entry) : Z :=
  match es with [] => 0 | e :: t => 1 + en_addenda e + calc_count t end.

Fixpoint hash_sum (es : list entry) : Z :=
  match es with [] => 0 | e :: t => atoi (aba8 (en_rdfi e)) + hash_sum t end.

Definition calc_hash T es := least_sig (hash_sum es) (t_hash_digits T).

(* ---- record level: EntryDetail / IATEntryDetail / ADVEntryDetail .Validate -- *)

Definition rdfi_field (e : entry) : bytes := stringField (en_rdfi e) 8.

Definition check_digit_ok (k : kind) (e : entry) : bool :=
  let calc := calc_check_digit (rdfi_field e) in
  match k with
  | KADV => calc =? atoi (en_check e)               (* Atoi error ignored *)
  | _ => match atoi_opt (en_check e) with Some v => calc =? v | None => false end
  end.

Definition validate_entry (T : tables) (k : kind) (e : entry) : rule :=
  chk (negb (en_code e =? 0)) RCode ;;
  chk (match en_rdfi e with [] => false | _ => true end) RCheckDigit ;;
  chk (memz (en_code e) (t_codes T)) RCode ;;
  match k with
  | KStd => chk (0 <=? en_amount e) RAmount ;; chk (en_amount e <=? t_amount_limit T) RAmount
  | _ => ROk
  end ;;
  chk (check_digit_ok k e) RCheckDigit.

(* BatchControl.Validate / ADVBatchControl.Validate, protected fields only *)
Definition validate_bctl (T : tables) (k : kind) (c : bctl) : rule :=
  chk (negb (bc_class c =? 0)) RClass ;;
  chk (negb (bytes_eqb (bc_odfi c) (repeat zero 9))) ROdfi ;;
  match k with KADV => chk (match bc_odfi c with [] => false | _ => true end) ROdfi | _ => ROk end ;;
  chk (memz (bc_class c) (t_classes T)) RClass ;;
  match k with
  | KADV => ROk
  | _ => chk (bc_debit c <=? t_batch_limit T) RDebit ;; chk (bc_credit c <=? t_batch_limit T) RCredit
  end.

(* ---- batch level ------------------------------------------------------- *)

Fixpoint ascending (last : bytes) (es : list entry) : bool :=
  match es with
  | [] => true
  | e :: t => if bytes_leb (en_trace e) last then false else ascending (en_trace e) t
  end.

Definition ascending_init (k : kind) : bytes :=
  match k with KIAT => [45; 49]%N | _ => [48]%N end.      (* "-1" / "0" *)

Definition trace_prefix (k : kind) (e : entry) : bytes :=
  match k with
  | KIAT => firstn 8 (stringField (en_trace e) 15)
  | _ => if (8 <=? length (en_trace e))%nat then firstn 8 (en_trace e) else []
  end.

Definition trace_odfi_ok (k : kind) (b : batch) : bool :=
  match k with
  | KADV => true                                   (* loops over batch.Entries, empty for ADV *)
  | _ => forallb (fun e => bytes_eqb (stringField (bt_odfi b) 8) (trace_prefix k e)) (bt_entries b)
  end.

(* Batch.verify / IATBatch.verify *)
Definition verify (T : tables) (b : batch) : rule :=
  let k := bt_kind b in
  let c := bt_ctl b in
  let es := bt_entries b in
  chk (match es with [] => false | _ => true end) RNoEntries ;;
  first_fail (validate_entry T k) es ;;
  validate_bctl T k c ;;
  chk (bt_class b =? bc_class c) RClass ;;
  chk (bytes_eqb (bt_odfi b) (bc_odfi c)) ROdfi ;;
  chk (bt_number b =? bc_number c) RNumber ;;
  chk (calc_count es =? bc_count c) RCount ;;
  match k with KADV => ROk | _ => chk (ascending (ascending_init k) es) RAscending end ;;
  chk (calc_debit T k es =? bc_debit c) RDebit ;;
  chk (calc_credit T k es =? bc_credit c) RCredit ;;
  chk (calc_hash T es =? bc_hash c) RHash ;;
  chk (trace_odfi_ok k b) RTraceOdfi.

(* EntryDetail.CreditOrDebit: 1 = "C", 2 = "D", 0 = "" *)
Definition credit_or_debit (c : Z) : Z :=
  if (c <? 10) || (99 <? c) then 0
  else let u := c mod 10 in
       if (1 <=? u) && (u <=? 4) then 1 else if (5 <=? u) then 2 else 0.

(* Batch.ValidTranCodeForServiceClassCode *)
Definition tran_code_for_class (T : tables) (b : batch) (e : entry) : rule :=
  chk (negb (memz (en_code e) (t_advcodes T))) RAdvCode ;;
  if bt_class b =? t_advclass T then RClass
  else if bt_class b =? t_mixed T then ROk
  else if bt_class b =? t_credits T then chk (credit_or_debit (en_code e) =? 1) RDirection
  else if bt_class b =? t_debits T then chk (credit_or_debit (en_code e) =? 2) RDirection
  else ROk.

(* Batcher.Validate of the 21 standard SEC types, IATBatch.Validate, BatchADV.Validate *)
Definition validate_batch (T : tables) (b : batch) : rule :=
  match bt_kind b with
  | KStd => verify T b ;; first_fail (tran_code_for_class T b) (bt_entries b)
  | KIAT => verify T b ;; chk (negb (bt_class b =? t_advclass T)) RClass
  | KADV => chk (bt_class b =? t_advclass T) RClass ;; verify T b
  end.

(* ---- file level: File.ValidateWith(nil) ---------------------------------- *)

Definition is_adv_file (f : file) : bool :=
  existsb (fun b => match bt_kind b with KADV => true | _ => false end) (fl_batches f).

Fixpoint sumz {A} (g : A -> Z) (l : list A) : Z :=
  match l with [] => 0 | x :: t => g x + sumz g t end.

Definition all_batches (f : file) : list batch := fl_batches f ++ fl_iat f.

Fixpoint numbers_ascending (last : Z) (bs : list batch) : bool :=
  match bs with
  | [] => true
  | b :: t => if bt_number b <=? last then false else numbers_ascending (bt_number b) t
  end.

(* FileControl.Validate, protected fields only *)
Definition validate_fctl (T : tables) (c : fctl) : rule :=
  (if negb (fc_credit c =? 0) || negb (fc_debit c =? 0)
   then chk (negb (fc_batches c =? 0)) RFBatchCount ;; chk (negb (fc_count c =? 0)) RFCount ;;
        chk (negb (fc_hash c =? 0)) RFHash
   else ROk) ;;
  chk (fc_debit c <=? t_file_limit T) RFDebit ;; chk (fc_credit c <=? t_file_limit T) RFCredit.

(* ADVFileControl.Validate *)
Definition validate_adv_fctl (c : fctl) : rule :=
  chk (negb (fc_batches c =? 0)) RFBatchCount ;; chk (negb (fc_count c =? 0)) RFCount ;;
  chk (negb (fc_hash c =? 0)) RFHash.

Definition file_sums (T : tables) (f : file) (bs : list batch) : rule :=
  let c := fl_ctl f in
  chk (fc_count c =? sumz (fun b => bc_count (bt_ctl b)) bs) RFCount ;;
  chk (fc_debit c =? sumz (fun b => bc_debit (bt_ctl b)) bs) RFDebit ;;
  chk (fc_credit c =? sumz (fun b => bc_credit (bt_ctl b)) bs) RFCredit.

Definition file_hash_ok (T : tables) (f : file) (bs : list batch) : bool :=
  least_sig (sumz (fun b => bc_hash (bt_ctl b)) bs) (t_hash_digits T) =? fc_hash (fl_ctl f).

(* the code as it stands: IAT batches and the batches of an ADV file are NOT
   re-validated by File.ValidateWith (known findings, see docs/C03.md) *)
Definition validate_file (T : tables) (f : file) : rule :=
  let c := fl_ctl f in
  if is_adv_file f then
    chk (fc_batches c =? Z.of_nat (length (fl_batches f))) RFBatchCount ;;
    validate_adv_fctl c ;;
    file_sums T f (fl_batches f) ;;
    chk (file_hash_ok T f (fl_batches f)) RFHash
  else
    chk (fc_batches c =? Z.of_nat (length (fl_batches f)) + Z.of_nat (length (fl_iat f))) RFBatchCount ;;
    first_fail (validate_batch T) (fl_batches f) ;;
    validate_fctl T c ;;
    file_sums T f (all_batches f) ;;
    chk (numbers_ascending 0 (fl_batches f)) RFAscending ;;
    chk (file_hash_ok T f (all_batches f)) RFHash.

(* what Reader.Read followed by File.Validate enforces: every batch (of any kind)
   was validated when its control record was read *)
Definition read_validate (T : tables) (f : file) : rule :=
  first_fail (validate_batch T) (all_batches f) ;; validate_file T f.

Definition rule_code (r : rule) : Z :=
  match r with
  | ROk => 0 | RNoEntries => 1 | RCode => 2 | RAmount => 3 | RCheckDigit => 4
  | RClass => 5 | ROdfi => 6 | RNumber => 7 | RCount => 8 | RAscending => 9 | RDebit => 10 | RCredit => 11
  | RHash => 12 | RTraceOdfi => 13 | RAdvCode => 14 | RDirection => 15
  | RFBatchCount => 16 | RFCount => 17 | RFDebit => 18 | RFCredit => 19 | RFAscending => 20 | RFHash => 21
  end.

(* C12, phase 7 — what phase 6 left outside the whole-function model of ach.Flatten:

   1. IATBatch.Create = build() THEN Validate().  FlattenFull.create_iat is build + isCategory;
      here the validator is added: the Arith skeleton of the IAT batch build leaves
      ([iat_skeleton], kind KIAT of the validator model of C03: IATBatch.verify's service class /
      ODFI / batch number equalities, isBatchEntryCount, isSequenceAscending from "-1",
      isBatchAmount, isEntryHash, isTraceNumberODFI, record level checks of entries and control,
      ServiceClassCode != AutomatedAccountingAdvices), the sequence-number half of
      isAddendaSequence ([BuildIATFacts.seqs_okb]: every addenda record refers to its entry's
      trace number, Addenda17 / Addenda18 numbered 1, 2, ...), Validate's limits of two Addenda17
      and five Addenda18 records per entry, isCategory.  [create_iat_v] is Create with that
      validator; FlattenFullIATFacts proves that on the batches Flatten hands to AddToFile it
      accepts whatever build accepts, i.e. [create_iat_v = create_iat] there.

      What the validator reads beyond [ipay]: RDFIIdentification and CheckDigit as stored
      ([iq] of the entry identity; [ip_rdfi] must be Atoi(aba8) of that string).

   2. Files that mix ADV batches with others: the survivors of AddToFile by kind ([survivors])
      and the outcome class of File.Create in terms of them ([create_refuses]).

   Definitions only. *)
From ACH Require Import ValidOut.
From ACH Require Import FileCreateAll BuildIATFacts.
From ACH Require Import Bytes Fields Flatten FlattenFull.
Open Scope Z_scope.

(* ------------------------------------------------------------------ agreement of the regenerated tables *)

Definition lists_agree2 (a b : list Z) : bool :=
  forallb (fun c => Offsets.mem c b) a && forallb (fun c => Offsets.mem c a) b.

(* Arith's lists of IATBatch.calculateBatchAmounts are the lists of the tabulation table of C05;
   both cut the entry hash to ten digits *)
Definition iat_tables_agree (A : Arith.tables) (TT : BuildIAT.ttable) : bool :=
  lists_agree2 (Arith.t_iat_credit A) (BuildIAT.tt_iat_credit TT)
  && lists_agree2 (Arith.t_iat_debit A) (BuildIAT.tt_iat_debit TT)
  && (Arith.t_hash_digits A =? 10).

(* ------------------------------------------------------------------ the IAT validator on what build leaves *)

Record iqpay := mkiq {
  iq_rdfi : bytes;       (* IATEntryDetail.RDFIIdentification as stored *)
  iq_check : bytes }.    (* IATEntryDetail.CheckDigit as stored *)

Section FullIAT.
Variables (A : Arith.tables) (TT : BuildIAT.ttable).
Variables (hd : bytes -> hdrp) (ip : bytes -> ipay) (iq : bytes -> iqpay).

(* the Arith skeleton of an IAT entry after build: code and amount as build left them, routing
   number and check digit as stored, the trace number string (the stored string where build kept
   the number, the 15 digits SetTraceNumber writes where it assigned one), the number of addenda
   records isBatchEntryCount counts for it *)
Definition isk_entry (e : entry) (e' : BuildIAT.ientry) : Arith.entry :=
  let q := iq (e_core e) in
  Arith.mkentry (BuildIAT.ie_code e') (BuildIAT.ie_amount e') (iq_rdfi q) (iq_check q)
    (if BuildIAT.ie_trace e' =? tnum (e_trace e) then e_trace e else trace15 (BuildIAT.ie_trace e'))
    (BuildIAT.icount_one e' - 1).

Fixpoint isk_entries (es : list entry) (es' : list BuildIAT.ientry) : list Arith.entry :=
  match es, es' with
  | e :: r, e' :: r' => isk_entry e e' :: isk_entries r r'
  | _, _ => []
  end.

Definition iat_skeleton (b : batch) (b' : BuildIAT.ibatch) : Arith.batch :=
  let c := BuildIAT.ib_ctl b' in
  let od := hd_odfi (hd (b_sig b)) in
  Arith.mkbatch Arith.KIAT (BuildIAT.ib_svc b') od (BuildIAT.ib_num b') (isk_entries (b_entries b) (BuildIAT.ib_entries b'))
    (Arith.mkbctl (Offsets.c_svc c) (Offsets.c_count c) (Offsets.c_hash c) (Offsets.c_debit c) (Offsets.c_credit c) od (Offsets.c_num c)).

(* IATBatch.Validate: len(entry.Addenda17) > 2 / len(entry.Addenda18) > 5 are errors *)
Definition addenda_limits (e' : BuildIAT.ientry) : bool :=
  (BuildIAT.zlen (BuildIAT.ie_a17 e') <=? 2) && (BuildIAT.zlen (BuildIAT.ie_a18 e') <=? 5).

(* IATBatch.Validate on the state build left (a conjunction: the order of the checks does not
   matter for acceptance) *)
Definition iat_validate (b : batch) (b' : BuildIAT.ibatch) : bool :=
  ruleb (Arith.validate_batch A (iat_skeleton b b'))
  && forallb seqs_okb (BuildIAT.ib_entries b')
  && forallb addenda_limits (BuildIAT.ib_entries b')
  && is_category_iat b.

(* IATBatch.Create = build() then Validate() *)
Definition create_iat_v (b : batch) : option BuildIAT.ibatch :=
  match BuildIAT.iat_build TT (to_iat hd ip b) with
  | (true, b') => if iat_validate b b' then Some b' else None
  | _ => None
  end.

(* the abstract IAT batch: the entry as the caller holds it, tabulated by Arith's own recomputation
   (the IAT analogue of ValidFlatten.f_batch) *)
Definition fi_entry (e : entry) : Arith.entry :=
  let p := ip (e_core e) in let q := iq (e_core e) in
  Arith.mkentry (ip_code p) (e_amount e) (iq_rdfi q) (iq_check q) (e_trace e)
    (BuildIAT.icount_one (to_iat_entry ip e) - 1).

Definition fi_batch (b : batch) : Arith.batch :=
  tabulate A Arith.KIAT (hd_class (hd (b_sig b))) (hd_odfi (hd (b_sig b))) (b_num b) (map fi_entry (b_entries b)).

End FullIAT.

(* ------------------------------------------------------------------ ADV batches next to others *)

(* what AddToFile left in the new file, by kind: ADV batches and standard batches of f.Batches, IAT batches *)
Definition n_adv (ss : list FileCreateAll.sbatch) : nat := length (filter FileCreateAll.sb_is_adv ss).
Definition n_std (ss : list FileCreateAll.sbatch) : nat := length (filter (fun s => negb (FileCreateAll.sb_is_adv s)) ss).

(* File.Create refuses the new file: invalid file header; no batch at all (ErrFileNoBatches); an ADV
   batch next to a standard or an IAT batch (ErrFileADVOnly) *)
Definition create_refuses (hdr_ok : bool) (ss : list FileCreateAll.sbatch) (ibs : list BuildIAT.ibatch) : bool :=
  negb hdr_ok
  || ((n_adv ss + n_std ss + length ibs =? 0)%nat)
  || (negb (n_adv ss =? 0)%nat && negb ((n_std ss + length ibs =? 0)%nat)).

(* the part of [finish] up to File.Create: the survivors of AddToFile *)
Definition survivors (A : Arith.tables) (T : Offsets.otable) (TT : BuildIAT.ttable)
    (hd : bytes -> hdrp) (sp : bytes -> stdp) (ip : bytes -> ipay) (ap : bytes -> apay) (all : list batch)
    : list FileCreateAll.sbatch * list BuildIAT.ibatch :=
  add_all A T TT hd sp ip ap (map sort_entries (sort_by num_ltb all)).

(* ------------------------------------------------------------------ what the phase-7 correspondence compares *)

(* for every IAT batch AddToFile adds to the new file (file order): the Arith skeleton the validator
   sees and the validator's verdict *)
Definition iat_views (A : Arith.tables) (TT : BuildIAT.ttable) (hd : bytes -> hdrp) (ip : bytes -> ipay) (iq : bytes -> iqpay)
    (all : list batch) : list (Arith.batch * bool) :=
  flat_map (fun x => match b_kind x with
                     | Flatten.KIAT => match create_iat TT hd ip x with
                                       | Some b' => [(iat_skeleton hd iq x b', iat_validate A hd iq x b')]
                                       | None => []
                                       end
                     | Flatten.KStd => []
                     end) (map sort_entries (sort_by num_ltb all)).

Definition iat_views_stable A TT hd ip iq (inp : list batch) : list (Arith.batch * bool) :=
  iat_views A TT hd ip iq (all_batches (run (sort_by count_ltb inp))).

Definition iat_views_hint A TT hd ip iq (inp : list batch) (hint : list nat) : option (list (Arith.batch * bool)) :=
  if perm_hintb (length inp) hint && sorted_countb (apply_hint inp hint)
  then Some (iat_views A TT hd ip iq (all_batches (run (apply_hint inp hint))))
  else None.

(* IATBatch.Create on one batch: the skeleton of what it leaves, None = error *)
Definition create_iat_view A TT hd ip iq (x : batch) : option Arith.batch :=
  match create_iat_v A TT hd ip iq x with Some b' => Some (iat_skeleton hd iq x b') | None => None end.

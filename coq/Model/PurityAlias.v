(* C14, phase 5 — extended purity model (executable definitions only).

   1. State: the batches of Purity.v plus the ValidateOpts the file carries (nil, or its
      flags) — the second thing a validate request could plausibly change (seeded change
      C14_g merged the request's options into the stored file's by aliasing).
   2. Operations: the library operations of Purity.v plus the server's validate operation
      (service.ValidateFile = GetFile; f.ValidateWith(request options)), on one file and on a
      store of files addressed by id.
   3. Construction: NewBatch / AddBatch / File.Create / Reader.Read derived from the
      regenerated tables newbatch_cases, ctor_stmts, isadv_returns (Gen/EffectsAlias.v)
      instead of being postulated. *)
From Coq Require Import String List Bool NArith Arith.
Import ListNotations.
From ACH Require Import Bytes EffectTable Purity AliasTable.

(* ---------------------------------------------------------------- state *)

Record xfile := mkx {
  x_bats : file;                 (* File.Batches, as in Purity.v *)
  x_opts : option (list bool) }. (* File.validateOpts: nil, or the bool fields in declaration order *)

Definition xobserve (s : xfile) : list (option bytes * bool) * option (list bool) :=
  (observe (x_bats s), x_opts s).

(* ---------------------------------------------------------------- operations *)

Inductive xop :=
| XLib (o : op)                  (* an operation of Purity.v on the file *)
| XServerValidate (v : vflags).  (* GET/POST /files/{id}/validate on the stored file: f.ValidateWith(request opts);
                                    v = what the request's options and the header verdict decide *)

(* service.ValidateFile (server/service.go):
     f, err := s.GetFile(id); if err != nil { return ... }; return f.ValidateWith(opts)
   — the stored options are not consulted and not written *)
Definition xstep (s : xfile) (o : xop) : xfile :=
  match o with
  | XLib o => mkx (step (x_bats s) o) (x_opts s)
  | XServerValidate v => mkx (validate_step v (x_bats s)) (x_opts s)
  end.

(* the seeded change C14_g, as a model: the request's flags are OR-ed into the stored
   options through the alias (out := stored), then the file is validated *)
Definition or_opts (a b : list bool) : list bool := map (fun p => orb (fst p) (snd p)) (combine a b).
Definition xstep_aliasing (req : option (list bool)) (s : xfile) (v : vflags) : xfile :=
  match x_opts s, req with
  | Some st, Some rq => mkx (validate_step v (x_bats s)) (Some (or_opts st rq))
  | _, _ => mkx (validate_step v (x_bats s)) (x_opts s)
  end.

(* ---- the server's store: files by id (first match wins, as a Go map has one entry per key) *)
Definition store := list (bytes * xfile).

Fixpoint store_validate (id : bytes) (v : vflags) (st : store) : store :=
  match st with
  | [] => []                                   (* GetFile: ErrNotFound, nothing happens *)
  | (k, f) :: r => if bytes_eqb id k then (k, xstep f (XServerValidate v)) :: r
                   else (k, f) :: store_validate id v r
  end.

Definition store_observe (st : store) := map (fun kf => (fst kf, xobserve (snd kf))) st.
Definition store_ok (st : store) : bool := forallb (fun kf => prefix_inv (x_bats (snd kf))) st.

Definition request := (bytes * vflags)%type.
Definition serve (st : store) (rq : request) : store := store_validate (fst rq) (snd rq) st.

(* ---------------------------------------------------------------- effect instances of the alias table *)

Definition asem (c : aclass) (i : nat) (s : xfile) : xfile :=
  match c with
  | AFile c' => mkx (sem c' i (x_bats s)) (x_opts s)
  | ARequest | ALock => s
  end.

Definition arun (tr : list (aclass * nat)) (s : xfile) : xfile :=
  fold_left (fun s ci => asem (fst ci) (snd ci) s) tr s.

Definition lift_trace (tr : list (eclass * nat)) : list (aclass * nat) := map (fun ci => (AFile (fst ci), snd ci)) tr.

Definition xop_trace (s : xfile) (o : xop) : list (aclass * nat) :=
  match o with
  | XLib o => lift_trace (op_trace (x_bats s) o)
  | XServerValidate v => (ALock, 0) :: (ALock, 0) :: lift_trace (op_trace (x_bats s) (OValidateWith v))
  end.

(* ---------------------------------------------------------------- construction from the tables *)

Section Construction.
  Variable cases : list (string * string).          (* newbatch_cases *)
  Variable ctors : list (string * list string).     (* ctor_stmts *)

  (* NewBatch(bh) with bh.StandardEntryClassCode = sec: a batch (its Header is bh), or an error *)
  Definition new_batch_tab (sec : bytes) : option bat :=
    match new_batch_case cases ctors sec with
    | NBBatch ctl => Some (mkbat (Some sec) ctl)
    | NBError | NBUnknown => None
    end.

  (* AddBatch(NewBatch(bh)) for each header in turn; a failed NewBatch adds nothing *)
  Definition built_tab (secs : list bytes) : file :=
    flat_map (fun s => match new_batch_tab s with Some b => [b] | None => [] end) secs.

  Definition accepted (sec : bytes) : bool := match new_batch_tab sec with Some _ => true | None => false end.
End Construction.

(* one return of Reader.Read / File.Create, by its class in isadv_returns:
   the file it leaves and whether its error result is known to be non-nil.
   None: no execution ends there (the recover block of a function whose defers do not recover) *)
Definition run_return (c : string) (f : file) : option (file * bool) :=
  if String.eqb c "AfterIsADV" then Some (install f, false)
  else if String.eqb c "ErrNonNil" then Some (f, true)
  else if String.eqb c "RecoverBlockUnreachable" then None
  else Some (f, false).   (* unclassified: could return a nil error without having run IsADV *)

(* ---------------------------------------------------------------- mixed histories on the store
   (what the correspondence check runs): validate requests and library operations applied to a
   stored file through the pointer the store shares *)
Inductive srq :=
| SValidate (id : bytes) (v : vflags)   (* GET/POST /files/{id}/validate *)
| SLib (id : bytes) (o : op).           (* a library operation on the stored *File *)

Fixpoint store_apply (id : bytes) (o : xop) (st : store) : store :=
  match st with
  | [] => []
  | (k, f) :: r => if bytes_eqb id k then (k, xstep f o) :: r else (k, f) :: store_apply id o r
  end.

Definition serve_x (st : store) (rq : srq) : store :=
  match rq with
  | SValidate id v => store_apply id (XServerValidate v) st
  | SLib id o => store_apply id (XLib o) st
  end.

Fixpoint run_srqs (st : store) (rqs : list srq) : list store :=
  match rqs with
  | [] => []
  | rq :: t => let st' := serve_x st rq in st' :: run_srqs st' t
  end.

(* Gallina model of the ValidateOpts handling of merge.go (MergeFilesWith), an
   extension of Merge.v.  Executable definitions only (proofs: MergeOptsFacts.v).

   What is added to the model of Merge.v, literally from the source:
   - *ValidateOpts is [vopts] = option of (the vector of the boolean fields in
     declaration order, the identity of the CheckTransactionCode function);
     None is the nil pointer.  ValidateOpts.merge ([omerge]): nil on either side
     returns the other pointer, otherwise every boolean field is ORed and the
     function of [other] wins when it is not nil;
   - MergeFilesWith: the head out-file starts with incoming[0].GetValidation(),
     every other out-file (pickOutFile) with nil;
   - outFile.add: outFile.validateOpts = outFile.validateOpts.merge(incoming.GetValidation());
     per incoming batch  opts := file options merged with the options stored on
     the batch itself ([batch_in_opts]);  a new out-batch stores opts, a reused
     one stores b.validateOpts.merge(opts)  (the two pointer comparisons
     `batchOpts != opts`, `opts != b.validateOpts` of the source only skip a merge
     of a value with itself, which is the identity: omerge_idem);
   - convertToFiles: file.SetValidation(sorted.validateOpts) when not nil, for the
     first file of an out-file and for every file started at `overflow:`;
     batch.SetValidation(nextBatch.validateOpts) for both NewBatch calls;
   - Batch.Create on an output batch ([batch_create]): Batch.build gives an entry
     whose trace number does not start with the ODFI of the header (strconv.Atoi
     of the first 8 characters of the padded fields) a new trace number
     ODFI ++ position, unless the batch options hold BypassOriginValidation or
     CustomTraceNumbers; Batch.verify then requires ascending trace numbers
     (unless CustomTraceNumbers) and trace numbers starting with the ODFI (unless
     CustomTraceNumbers or BypassOriginValidation).
   Not modelled: pointer identity of the option values, the options stored on
   entries and addenda (the *EntryDetail is carried over unchanged), every other
   rule of Create/Validate (see docs/C08.md). *)
From Coq Require Import List NArith ZArith Bool.
From ACH Require Import Bytes Fields Merge.
Import ListNotations.
Open Scope Z_scope.

(* ---------------------------------------------------------------- option sets *)

Definition flags := list bool.   (* the bool fields of ValidateOpts, declaration order *)

(* field-wise ||; vectors of one struct type have one length, the other clauses make the
   function total without a length invariant *)
Fixpoint vor (a b : flags) : flags :=
  match a, b with
  | [], _ => b
  | _, [] => a
  | x :: a', y :: b' => (x || y) :: vor a' b'
  end.

Definition vget (i : nat) (a : flags) : bool := nth i a false.

Record opts := mkOpts {
  o_flags : flags;
  o_ctc : option N       (* CheckTransactionCode: None = nil, Some f = the function value f *)
}.
Definition vopts := option opts.   (* *ValidateOpts *)

(* func (v *ValidateOpts) merge(other *ValidateOpts) *ValidateOpts *)
Definition omerge (v other : vopts) : vopts :=
  match v with
  | None => other
  | Some a =>
      match other with
      | None => v
      | Some b =>
          Some (mkOpts (vor (o_flags a) (o_flags b))
                       (match o_ctc b with Some g => Some g | None => o_ctc a end))
      end
  end.

(* positions of the two fields Batch.build / Batch.verify read, among the bool fields
   (checked against the struct of this run: Oblig/C08OptsObl.v) *)
Definition ix_bypass_origin : nat := 2.
Definition ix_custom_trace : nat := 4.

Definition oflag (i : nat) (o : vopts) : bool :=
  match o with None => false | Some a => vget i (o_flags a) end.
Definition bypass (o : vopts) : bool := oflag ix_bypass_origin o.
Definition custom (o : vopts) : bool := oflag ix_custom_trace o.
(* Batch.build: `opts == nil` or `!opts.BypassOriginValidation && !opts.CustomTraceNumbers` => SetTraceNumber *)
Definition keeps_traces (o : vopts) : bool := bypass o || custom o.

(* ---------------------------------------------------------------- inputs *)

Record ibatcho := mkIBO {
  ibo_batch : ibatch;
  ibo_opts : vopts         (* the options stored on the batch (Batch.SetValidation) *)
}.
Record ifileo := mkIFO {
  fo_origin : bytes;
  fo_dest : bytes;
  fo_hid : N;
  fo_opts : vopts;         (* File.GetValidation() *)
  fo_batches : list ibatcho
}.

Definition erase_ifile (f : ifileo) : ifile :=
  mkIFile (fo_origin f) (fo_dest f) (fo_hid f) (map ibo_batch (fo_batches f)).

(* the options an incoming batch was validated with: opts := incoming.GetValidation().merge(batch options) *)
Definition batch_in_opts (fopts : vopts) (ib : ibatcho) : vopts := omerge fopts (ibo_opts ib).

(* ---------------------------------------------------------------- outFile.add *)

Record obatcho := mkOBO { obo_header : header; obo_entries : tmap; obo_opts : vopts }.
Record ofileo := mkOFO {
  ofo_origin : bytes; ofo_dest : bytes; ofo_hid : N;
  ofo_opts : vopts;
  ofo_batches : list obatcho
}.

Fixpoint place_o (h : header) (o : vopts) (e : entry) (bs : list obatcho) : list obatcho :=
  match bs with
  | [] => [mkOBO h (tm_set (e_trace e) e []) o]
  | b :: r =>
      if header_equal (obo_header b) h && negb (tm_contains (e_trace e) (obo_entries b))
      then mkOBO (obo_header b) (tm_set (e_trace e) e (obo_entries b)) (omerge (obo_opts b) o) :: r
      else b :: place_o h o e r
  end.

Definition add_batch_o (fopts : vopts) (bs : list obatcho) (ib : ibatcho) : list obatcho :=
  fold_left (fun acc e => place_o (ib_header (ibo_batch ib)) (batch_in_opts fopts ib) e acc)
            (ib_entries (ibo_batch ib)) bs.

Definition add_to_o (o : ofileo) (f : ifileo) : ofileo :=
  mkOFO (ofo_origin o) (ofo_dest o) (ofo_hid o)
        (omerge (ofo_opts o) (fo_opts f))
        (fold_left (add_batch_o (fo_opts f)) (fo_batches f) (ofo_batches o)).

Definition new_ofile_o (f : ifileo) (o : vopts) : ofileo :=
  mkOFO (fo_origin f) (fo_dest f) (fo_hid f) o [].

Definition same_route_o (o : ofileo) (f : ifileo) : bool :=
  bytes_eqb (fo_origin f) (ofo_origin o) && bytes_eqb (fo_dest f) (ofo_dest o).

Fixpoint add_file_o (st : list ofileo) (f : ifileo) : list ofileo :=
  match st with
  | [] => [add_to_o (new_ofile_o f None) f]
  | o :: r => if same_route_o o f then add_to_o o f :: r else o :: add_file_o r f
  end.

(* sorted := &outFile{header: incoming[0].Header, validateOpts: incoming[0].GetValidation()} *)
Definition build_state_o (fs : list ifileo) : list ofileo :=
  match fs with
  | [] => []
  | f0 :: _ => fold_left add_file_o fs [new_ofile_o f0 (fo_opts f0)]
  end.

(* ---------------------------------------------------------------- convertToFiles *)

Record rbatcho := mkRBO {
  rbo_number : Z;
  rbo_header : header;
  rbo_entries : list entry;   (* the entries as added with AddEntry (before Batch.Create) *)
  rbo_opts : vopts            (* batch.SetValidation(nextBatch.validateOpts) *)
}.
Record rfileo := mkRFO {
  rfo_origin : bytes; rfo_dest : bytes; rfo_hid : N;
  rfo_opts : vopts;           (* File.GetValidation() of the output file *)
  rfo_batches : list rbatcho
}.

Record cstateo := mkCO {
  co_out : list rfileo;
  co_fopts : vopts;           (* the options set on `file`, the output file being filled *)
  co_file : list rbatcho;
  co_bent : list entry;
  co_L : Z;
  co_D : Z;
  co_bn : Z
}.

Fixpoint renumber_o (seq : Z) (bs : list rbatcho) : list rbatcho :=
  match bs with
  | [] => []
  | b :: r =>
      (if rbo_number b <=? 1 then mkRBO seq (rbo_header b) (rbo_entries b) (rbo_opts b) else b)
      :: renumber_o (seq + 1) r
  end.

Definition create_file_o (o : ofileo) (fopts : vopts) (bs : list rbatcho) : rfileo :=
  mkRFO (ofo_origin o) (ofo_dest o) (ofo_hid o) fopts (renumber_o 1 bs).

Definition close_batch_o (hdr : header) (bo : vopts) (s : cstateo) : list rbatcho :=
  match co_bent s with
  | [] => co_file s
  | _ :: _ => co_file s ++ [mkRBO (co_bn s) hdr (co_bent s) bo]
  end.

Definition close_file_o (o : ofileo) (fopts : vopts) (bs : list rbatcho) (out : list rfileo) : list rfileo :=
  match bs with
  | [] => out
  | _ :: _ => out ++ [create_file_o o fopts bs]
  end.

(* file = NewFile(); ...; if sorted.validateOpts != nil { file.SetValidation(sorted.validateOpts) } *)
Definition new_file_opts (o : ofileo) : vopts := ofo_opts o.

Definition step_entry_o (c : conds) (M : Z) (o : ofileo) (hdr : header) (bo : vopts) (s : cstateo) (e : entry) : cstateo :=
  if exceeds c M (co_L s) (co_D s) e
  then mkCO (close_file_o o (co_fopts s) (close_batch_o hdr bo s) (co_out s)) (new_file_opts o) [] [e]
            (4 + (1 + e_addenda e)) (0 + e_amount e) (co_bn s + 1)
  else mkCO (co_out s) (co_fopts s) (co_file s) (co_bent s ++ [e])
            (co_L s + (1 + e_addenda e)) (co_D s + e_amount e) (co_bn s).

Definition step_batch_o (c : conds) (M : Z) (o : ofileo) (s : cstateo) (b : obatcho) : cstateo :=
  let s1 := mkCO (co_out s) (co_fopts s) (co_file s) [] (co_L s + 2) (co_D s) (co_bn s + 1) in
  let s2 := fold_left (step_entry_o c M o (obo_header b) (obo_opts b)) (map snd (obo_entries b)) s1 in
  mkCO (co_out s2) (co_fopts s2) (close_batch_o (obo_header b) (obo_opts b) s2) [] (co_L s2) (co_D s2) (co_bn s2).

Definition step_file_o (c : conds) (M : Z) (acc : list rfileo * Z) (o : ofileo) : list rfileo * Z :=
  let s0 := mkCO (fst acc) (new_file_opts o) [] [] 2 0 (snd acc) in
  let s1 := fold_left (step_batch_o c M o) (ofo_batches o) s0 in
  (close_file_o o (co_fopts s1) (co_file s1) (co_out s1), co_bn s1).

Definition convert_o (c : conds) (st : list ofileo) : list rfileo :=
  fst (fold_left (step_file_o c (effective_dollar c)) st ([], 0)).

Definition merge_files_o (fs : list ifileo) (c : conds) : list rfileo := convert_o c (build_state_o fs).

(* ---------------------------------------------------------------- Batch.Create on an output batch *)

(* strconv.Atoi(entry.TraceNumberField()[:8]), strconv.Atoi(batch.Header.ODFIIdentificationField()[:8]) *)
Definition trace_odfi (e : entry) : option Z := atoi_opt (firstn 8 (stringField (e_trace e) 15)).
Definition header_odfi (h : header) : option Z := atoi_opt (firstn 8 (stringField (h_odfi h) 8)).

(* EntryDetail.SetTraceNumber(ODFIIdentification, seq) *)
Definition set_trace (h : header) (seq : Z) (e : entry) : entry :=
  mkEntry (stringField (h_odfi h) 8 ++ numericField seq 7) (e_amount e) (e_addenda e) (e_id e).

(* the entry loop of Batch.build; None = one of the Atoi calls fails (build returns the error) *)
Fixpoint build_entries (h : header) (o : vopts) (seq : Z) (es : list entry) : option (list entry) :=
  match es with
  | [] => Some []
  | e :: r =>
      match trace_odfi e, header_odfi h with
      | Some p, Some q =>
          let e' := if negb (p =? q) && negb (keeps_traces o) then set_trace h seq e else e in
          match build_entries h o (seq + 1) r with
          | Some r' => Some (e' :: r')
          | None => None
          end
      | _, _ => None
      end
  end.

(* Batch.isSequenceAscending: lastSeq := "0"; entry.TraceNumber <= lastSeq is the error *)
Fixpoint seq_ascending (last : bytes) (es : list entry) : bool :=
  match es with
  | [] => true
  | e :: r => match bcmp (e_trace e) last with Gt => seq_ascending (e_trace e) r | _ => false end
  end.

(* Batch.isTraceNumberODFI, one entry *)
Definition trace_is_odfi (h : header) (e : entry) : bool :=
  bytes_eqb (stringField (h_odfi h) 8)
            (if (8 <=? length (e_trace e))%nat then firstn 8 (e_trace e) else []).

(* the two trace-number rules of Batch.verify *)
Definition verify_traces (h : header) (o : vopts) (es : list entry) : bool :=
  custom o || (seq_ascending [48%N] es && (bypass o || forallb (trace_is_odfi h) es)).

(* build, then verify; Some es' = the entries of the created batch *)
Definition batch_create (h : header) (o : vopts) (es : list entry) : option (list entry) :=
  match build_entries h o 1 es with
  | None => None
  | Some es' => if verify_traces h o es' then Some es' else None
  end.

Definition rbo_created (rb : rbatcho) : option (list entry) :=
  batch_create (rbo_header rb) (rbo_opts rb) (rbo_entries rb).

Definition is_some {A} (x : option A) : bool := match x with Some _ => true | None => false end.

(* MergeFilesWith returns the files (rather than the error of a Batch.Create) *)
Definition merge_created_ok (out : list rfileo) : bool :=
  forallb (fun g => forallb (fun rb => is_some (rbo_created rb)) (rfo_batches g)) out.

(* ---------------------------------------------------------------- erasure to the model of Merge.v *)

Definition erase_ob (b : obatcho) : obatch := mkOBatch (obo_header b) (obo_entries b).
Definition erase_of (o : ofileo) : ofile :=
  mkOFile (ofo_origin o) (ofo_dest o) (ofo_hid o) (map erase_ob (ofo_batches o)).
Definition erase_rb (b : rbatcho) : rbatch := mkRBatch (rbo_number b) (rbo_header b) (rbo_entries b).
Definition erase_rf (g : rfileo) : rfile :=
  mkRFile (rfo_origin g) (rfo_dest g) (rfo_hid g) (map erase_rb (rfo_batches g)).

(* C06 (phase 2) — proofs about the shape model of TotalOps.v: a small Hoare logic for the
   oracle/state monad, the well-formedness invariant of shapes, and totality (no PANIC for any
   oracle) of every operation on well-formed shapes, over call sequences. *)
From Coq Require Import List Bool Arith Lia.
Import ListNotations.
From ACH Require Import TotalOps.
Open Scope ops_scope.

(* ------------------------------------------------------------------ *)
(* Triples.  [safe m Q]: read-only code never panics and returns a value satisfying Q.
   [hoare P m Q E]: from a state satisfying P, m never panics, ends in a state satisfying
   Q (value returned) or E (error returned). *)

Definition safe {A} (m : R A) (Q : A -> Prop) : Prop :=
  forall o, match m tt o with OK a _ _ => Q a | ERR _ _ => True | PANIC => False end.

Definition hoare {S A} (P : S -> Prop) (m : M S A) (Q : A -> S -> Prop) (E : S -> Prop) : Prop :=
  forall s o, P s -> match m s o with OK a s' _ => Q a s' | ERR s' _ => E s' | PANIC => False end.

Definition top {A} : A -> Prop := fun _ => True.

Lemma safe_conseq {A} (m : R A) (Q Q' : A -> Prop) : safe m Q -> (forall a, Q a -> Q' a) -> safe m Q'.
Proof. intros H HQ o. specialize (H o). destruct (m tt o); auto. Qed.

Lemma safe_top {A} (m : R A) (Q : A -> Prop) : safe m Q -> safe m top.
Proof. intros H. eapply safe_conseq; [exact H|]. intros; exact I. Qed.

Lemma safe_of_top {A} (m : R A) (Q : A -> Prop) : safe m top -> (forall a, Q a) -> safe m Q.
Proof. intros H HQ. eapply safe_conseq; [exact H|]. intros a _. apply HQ. Qed.

Lemma safe_ret {A} (a : A) (Q : A -> Prop) : Q a -> safe (ret a) Q.
Proof. intros H o. exact H. Qed.

Lemma safe_fail {A} (Q : A -> Prop) : safe fail Q.
Proof. intros o. exact I. Qed.

Lemma safe_bind_fail {A B} (k : A -> R B) (Q : B -> Prop) : safe (bind fail k) Q.
Proof. intros o. exact I. Qed.

Lemma safe_bind {A B} (m : R A) (k : A -> R B) (Q : A -> Prop) (Q' : B -> Prop) :
  safe m Q -> (forall a, Q a -> safe (k a) Q') -> safe (bind m k) Q'.
Proof.
  intros Hm Hk o. unfold bind. specialize (Hm o). destruct (m tt o) as [a [] o'| |]; auto.
  - exact (Hk a Hm o').
Qed.

Lemma safe_assoc {A B C} (m : R A) (k1 : A -> R B) (k2 : B -> R C) (Q : C -> Prop) :
  safe (bind m (fun a => bind (k1 a) k2)) Q -> safe (bind (bind m k1) k2) Q.
Proof.
  intros H o. specialize (H o). unfold bind in *. destruct (m tt o) as [a [] o'| |]; auto.
Qed.

Lemma safe_flip (Q : bool -> Prop) : (forall b, Q b) -> safe flip Q.
Proof. intros H o. unfold flip. destruct o; apply H. Qed.

Lemma safe_bind_flip {B} (k : bool -> R B) (Q : B -> Prop) : (forall b, safe (k b) Q) -> safe (bind flip k) Q.
Proof. intros H. eapply safe_bind; [apply (safe_flip top); intros; exact I|]. intros a _. apply H. Qed.

Lemma safe_bind_guess {B} (g : bool) (k : bool -> R B) (Q : B -> Prop) : (forall b, safe (k b) Q) -> safe (bind (guess g) k) Q.
Proof.
  intros H. unfold guess. apply safe_assoc. apply safe_bind_flip. intros c. apply (H (if c then g else negb g)).
Qed.

Lemma safe_check (Q : unit -> Prop) : Q tt -> safe check Q.
Proof. intros H. unfold check. apply safe_bind_flip. intros [|]; [apply safe_ret; exact H|apply safe_fail]. Qed.

Lemma safe_bind_unit {B} (m : R unit) (k : unit -> R B) (Q : B -> Prop) : safe m top -> safe (k tt) Q -> safe (bind m k) Q.
Proof. intros Hm Hk. eapply safe_bind; [exact Hm|]. intros [] _. exact Hk. Qed.

Lemma safe_bind_check {B} (k : unit -> R B) (Q : B -> Prop) : safe (k tt) Q -> safe (bind check k) Q.
Proof. apply safe_bind_unit. apply safe_check. exact I. Qed.

Lemma safe_need (p : bool) (Q : unit -> Prop) : p = true -> Q tt -> safe (need p) Q.
Proof. intros -> H. apply safe_ret. exact H. Qed.

Lemma safe_bind_need {B} (p : bool) (k : unit -> R B) (Q : B -> Prop) : p = true -> safe (k tt) Q -> safe (bind (need p) k) Q.
Proof. intros Hp. apply safe_bind_unit. apply safe_need; [exact Hp|exact I]. Qed.

Lemma safe_bind_ret {A B} (a : A) (k : A -> R B) (Q : B -> Prop) : safe (k a) Q -> safe (bind (ret a) k) Q.
Proof. intros H o. exact (H o). Qed.

Lemma safe_when (c : bool) (m : R unit) : (c = true -> safe m top) -> safe (when c m) top.
Proof. intros H. destruct c; cbn [when]; [apply H; reflexivity|apply safe_ret; exact I]. Qed.

Lemma safe_forM {E} (l : list E) (f : E -> R unit) :
  (forall x, In x l -> safe (f x) top) -> safe (forM_ l f) top.
Proof.
  induction l as [|x t IH]; intros H; cbn [forM_].
  - apply safe_ret. exact I.
  - apply safe_bind_unit; [apply H; left; reflexivity|]. apply IH. intros y Hy. apply H. right. exact Hy.
Qed.

Lemma safe_try (m : R unit) : safe m top -> safe (try m) top.
Proof. intros H o. specialize (H o). unfold try. destruct (m tt o); auto. Qed.

(* ---- state triples *)

Lemma hoare_conseq {S A} (P P' : S -> Prop) (m : M S A) (Q Q' : A -> S -> Prop) (E E' : S -> Prop) :
  hoare P m Q E -> (forall s, P' s -> P s) -> (forall a s, Q a s -> Q' a s) -> (forall s, E s -> E' s) ->
  hoare P' m Q' E'.
Proof. intros H HP HQ HE s o Hs. specialize (H s o (HP s Hs)). destruct (m s o); auto. Qed.

Lemma hoare_ret {S A} (P : S -> Prop) (a : A) (Q : A -> S -> Prop) (E : S -> Prop) : (forall s, P s -> Q a s) -> hoare P (ret a) Q E.
Proof. intros H s o Hs. apply H. exact Hs. Qed.

Lemma hoare_fail {S A} (P : S -> Prop) (Q : A -> S -> Prop) (E : S -> Prop) : (forall s, P s -> E s) -> hoare P fail Q E.
Proof. intros H s o Hs. apply H. exact Hs. Qed.

Lemma hoare_bind {S A B} (P : S -> Prop) (m : M S A) (k : A -> M S B) (Q : A -> S -> Prop) (Q' : B -> S -> Prop) (E : S -> Prop) :
  hoare P m Q E -> (forall a, hoare (Q a) (k a) Q' E) -> hoare P (bind m k) Q' E.
Proof.
  intros Hm Hk s o Hs. unfold bind. specialize (Hm s o Hs). destruct (m s o) as [a s' o'| |]; auto.
  exact (Hk a s' o' Hm).
Qed.

Lemma hoare_get {S} (P : S -> Prop) (E : S -> Prop) : hoare P get (fun s0 s => s0 = s /\ P s) E.
Proof. intros s o Hs. split; [reflexivity|exact Hs]. Qed.

Lemma hoare_put {S} (P : S -> Prop) (s' : S) (Q : unit -> S -> Prop) (E : S -> Prop) : Q tt s' -> hoare P (put s') Q E.
Proof. intros H s o _. exact H. Qed.

Lemma hoare_flip {S} (P : S -> Prop) (E : S -> Prop) : hoare P flip (fun _ s => P s) E.
Proof. intros s o Hs. unfold flip. destruct o; exact Hs. Qed.

Lemma hoare_check {S} (P : S -> Prop) : hoare P check (fun _ s => P s) P.
Proof.
  unfold check. eapply hoare_bind; [apply hoare_flip|]. intros [|]; [apply hoare_ret|apply hoare_fail]; auto.
Qed.

Lemma hoare_ro {S A} (P : S -> Prop) (m : R A) (Q : A -> Prop) :
  safe m Q -> hoare P (ro m) (fun a s => Q a /\ P s) P.
Proof.
  intros H s o Hs. unfold ro. specialize (H o). destruct (m tt o); auto.
Qed.

Lemma hoare_try {S} (P : S -> Prop) (m : M S unit) (Q : unit -> S -> Prop) (E E' : S -> Prop) :
  hoare P m Q E' -> (forall s, E' s -> Q tt s) -> hoare P (try m) Q E.
Proof.
  intros H HE s o Hs. unfold try. specialize (H s o Hs). destruct (m s o) as [[] s' o'| |]; auto.
Qed.

Lemma hoare_zoom {S T A} (g : S -> T) (u : T -> S -> S) (m : M T A)
  (P : S -> Prop) (P' : T -> Prop) (Q' : A -> T -> Prop) (E' : T -> Prop) (Q : A -> S -> Prop) (E : S -> Prop) :
  hoare P' m Q' E' ->
  (forall s, P s -> P' (g s)) ->
  (forall s a t, P s -> Q' a t -> Q a (u t s)) ->
  (forall s t, P s -> E' t -> E (u t s)) ->
  hoare P (zoom g u m) Q E.
Proof.
  intros H HP HQ HE s o Hs. unfold zoom. specialize (H (g s) o (HP s Hs)).
  destruct (m (g s) o) as [a t o'|t o'|]; eauto.
Qed.

(* a local computation inside read-only code *)
Lemma safe_local {T A} (t0 : T) (m : M T A) (P : T -> Prop) (Q : A -> T -> Prop) (E : T -> Prop) :
  hoare P m Q E -> P t0 -> safe (local t0 m) (fun r => Q (fst r) (snd r)).
Proof.
  intros H H0 o. unfold local. specialize (H t0 o H0). destruct (m t0 o); auto.
Qed.

Lemma safe_local_try {T} (t0 : T) (m : M T unit) (P : T -> Prop) (Q : unit -> T -> Prop) (E : T -> Prop) :
  hoare P m Q E -> P t0 -> safe (local_try t0 m) (fun r => if fst r then Q tt (snd r) else E (snd r)).
Proof.
  intros H H0 o. unfold local_try. specialize (H t0 o H0). destruct (m t0 o) as [[] t o'|t o'|]; auto.
Qed.

(* element-wise invariant of a traversal with write-back *)
Lemma hoare_traverse {E} (m : M E unit) (I : E -> Prop) :
  hoare I m (fun _ => I) I ->
  hoare (Forall I) (traverse m) (fun _ => Forall I) (Forall I).
Proof.
  intros H l. induction l as [|x t IH]; intros o Hl; cbn [traverse].
  - constructor.
  - inversion Hl as [|? ? Hx Ht]; subst.
    specialize (H x o Hx). destruct (m x o) as [[] x' o'|x' o'|]; [|constructor; assumption|exact H].
    specialize (IH o' Ht). destruct (traverse m t o') as [[] t' o''|t' o''|]; [constructor; assumption|constructor; assumption|exact IH].
Qed.

Lemma hoare_on_some {T A} (m : M T A) (P : T -> Prop) (Q : A -> T -> Prop) (E : T -> Prop) :
  hoare P m Q E ->
  hoare (fun x => exists t, x = Some t /\ P t) (on_some m)
        (fun a x => exists t, x = Some t /\ Q a t) (fun x => exists t, x = Some t /\ E t).
Proof.
  intros H x o (t & -> & Ht). unfold on_some. specialize (H t o Ht).
  destruct (m t o) as [a t' o'|t' o'|]; eauto.
Qed.

(* ------------------------------------------------------------------ *)
(* stepping tactic for read-only code *)

Ltac safe_step :=
  lazymatch goal with
  | |- safe (bind (bind _ _) _) _ => apply safe_assoc
  | |- safe (bind check _) _ => apply safe_bind_check
  | |- safe (bind fail _) _ => apply safe_bind_fail
  | |- safe (bind flip _) _ => apply safe_bind_flip; intros ?
  | |- safe (bind (guess _) _) _ => apply safe_bind_guess; intros ?
  | |- safe (bind (ret _) _) _ => apply safe_bind_ret
  | |- safe (bind (need _) _) _ => apply safe_bind_need; [try assumption; try reflexivity|]
  | |- safe (bind (if ?c then _ else _) _) _ => destruct c eqn:?
  | |- safe (bind (match ?x with _ => _ end) _) _ => destruct x eqn:?
  | |- safe (if ?c then _ else _) _ => destruct c eqn:?
  | |- safe (match ?x with _ => _ end) _ => destruct x eqn:?
  | |- safe (ret _) _ => apply safe_ret; try exact I
  | |- safe fail _ => apply safe_fail
  | |- safe check _ => apply safe_check; try exact I
  | |- safe (need _) _ => apply safe_need; [try assumption; try reflexivity|try exact I]
  end.

(* ------------------------------------------------------------------ *)
(* batch.go: read-only functions on a well-formed batch *)

(* [strict] is fixed throughout: false for the general invariant, true when FlattenBatches is among the
   operations (every SEC code must then be one NewBatch accepts) *)
Section Strict.
Variable strict : bool.

Record bwf (b : batch) (h : header) : Prop := mkbwf {
  bw_h : b_header b = Some h;
  bw_c : if sec_eqb (h_sec h) ADV then b_adv b = true else b_control b = true;
  bw_e : forall oe, In oe (b_entries b) -> exists e, oe = Some e /\ all_true (e_a05 e) = true;
  bw_a : forall oa, In oa (b_adventries b) -> exists a, oa = Some a;
  bw_s : strict = true -> sec_valid (h_sec h) = true }.

Lemma wf_batch_bwf b : wf_batch_s strict b = true -> exists h, bwf b h.
Proof.
  unfold wf_batch_s. destruct (b_header b) as [h|] eqn:Hh; [|discriminate].
  intros H. apply andb_prop in H as [H Hs]. apply andb_prop in H as [H Ha]. apply andb_prop in H as [Hc He].
  exists h. split.
  5: { intros ->. exact Hs. }
  - exact Hh.
  - destruct (sec_eqb (h_sec h) ADV); exact Hc.
  - intros oe Hin. unfold wf_entries in He. rewrite forallb_forall in He. specialize (He oe Hin).
    destruct oe as [e|]; [|discriminate]. exists e. split; [reflexivity|exact He].
  - intros oa Hin. rewrite forallb_forall in Ha. specialize (Ha oa Hin).
    destruct oa as [a|]; [|discriminate]. exists a. reflexivity.
Qed.

Lemma bwf_wf_batch b h : bwf b h -> wf_batch_s strict b = true.
Proof.
  intros [Hh Hc He Ha Hs]. unfold wf_batch_s. rewrite Hh.
  apply andb_true_intro. split; [apply andb_true_intro; split; [apply andb_true_intro; split|]|].
  4: { destruct strict; [exact (Hs eq_refl)|reflexivity]. }
  - destruct (sec_eqb (h_sec h) ADV); exact Hc.
  - unfold wf_entries. apply forallb_forall. intros oe Hin. destruct (He oe Hin) as (e & -> & H). exact H.
  - apply forallb_forall. intros oa Hin. destruct (Ha oa Hin) as (a & ->). reflexivity.
Qed.

Section BatchRO.
Variables (b : batch) (h : header).
Hypothesis W : bwf b h.

Lemma header_of_safe : safe (header_of b) (fun h' => h' = h).
Proof. unfold header_of. rewrite (bw_h _ _ W). apply safe_ret. reflexivity. Qed.

Lemma berr_safe {A} (Q : A -> Prop) : safe (berr b) Q.
Proof. unfold berr. eapply safe_bind; [apply header_of_safe|]. intros ? _. apply safe_fail. Qed.

Lemma bind_berr_safe {A B} (k : A -> R B) (Q : B -> Prop) : safe (bind (berr b) k) Q.
Proof. eapply safe_bind; [apply (berr_safe (fun _ => False))|]. intros ? []. Qed.

Lemma is_adv_safe : safe (is_adv b) (fun r => r = sec_eqb (h_sec h) ADV).
Proof. unfold is_adv. eapply safe_bind; [apply header_of_safe|]. intros ? ->. apply safe_ret. reflexivity. Qed.

Lemma ctl_of : sec_eqb (h_sec h) ADV = false -> b_control b = true.
Proof. intros H. pose proof (bw_c _ _ W) as Hc. rewrite H in Hc. exact Hc. Qed.
Lemma adv_of : sec_eqb (h_sec h) ADV = true -> b_adv b = true.
Proof. intros H. pose proof (bw_c _ _ W) as Hc. rewrite H in Hc. exact Hc. Qed.

Lemma for_entries_safe (body : entry -> R unit) :
  (forall e, In (Some e) (b_entries b) -> all_true (e_a05 e) = true -> safe (body e) top) ->
  safe (for_entries b body) top.
Proof.
  intros H. unfold for_entries. apply safe_forM. intros oe Hin.
  destruct (bw_e _ _ W oe Hin) as (e & -> & He). apply H; assumption.
Qed.

Lemma for_adv_entries_safe (body : adv_entry -> R unit) :
  (forall a, In (Some a) (b_adventries b) -> safe (body a) top) -> safe (for_adv_entries b body) top.
Proof.
  intros H. unfold for_adv_entries. apply safe_forM. intros oa Hin.
  destruct (bw_a _ _ W oa Hin) as (a & ->). apply H; assumption.
Qed.

Lemma all_a05 (e : entry) (body : bool -> R unit) :
  all_true (e_a05 e) = true -> (forall p, p = true -> safe (body p) top) -> safe (forM_ (e_a05 e) body) top.
Proof.
  intros He H. apply safe_forM. intros p Hin. apply H.
  unfold all_true in He. rewrite forallb_forall in He. exact (He p Hin).
Qed.

End BatchRO.

(* steps that use the well-formedness fact W : bwf b h in the context *)
Ltac bstep W :=
  lazymatch goal with
  | |- safe (bind (header_of _) _) _ => eapply safe_bind; [apply (header_of_safe _ _ W)|intros ? ->]
  | |- safe (bind (is_adv _) _) _ => eapply safe_bind; [apply (is_adv_safe _ _ W)|intros ? ->]
  | |- safe (bind (berr _) _) _ => apply (bind_berr_safe _ _ W)
  | |- safe (berr _) _ => apply (berr_safe _ _ W)
  | |- safe (bind (need_control _) _) _ => unfold need_control
  | |- safe (bind (need_advcontrol _) _) _ => unfold need_advcontrol
  | |- safe (need_control _) _ => unfold need_control
  | |- safe (need_advcontrol _) _ => unfold need_advcontrol
  | |- safe (bind (when _ _) _) _ => apply safe_bind_unit; [apply safe_when; intros ?|]
  | |- safe (when _ _) _ => apply safe_when; intros ?
  | |- safe (bind (for_entries _ _) _) _ => apply safe_bind_unit; [apply (for_entries_safe _ _ W); intros ? ? ?|]
  | |- safe (for_entries _ _) _ => apply (for_entries_safe _ _ W); intros ? ? ?
  | |- safe (bind (for_adv_entries _ _) _) _ => apply safe_bind_unit; [apply (for_adv_entries_safe _ _ W); intros ? ?|]
  | |- safe (for_adv_entries _ _) _ => apply (for_adv_entries_safe _ _ W); intros ? ?
  | |- safe (bind (forM_ (e_a05 _) _) _) _ => apply safe_bind_unit; [apply all_a05; [assumption|intros ? ->]|]
  | |- safe (forM_ (e_a05 _) _) _ => apply all_a05; [assumption|intros ? ->]
  | _ => safe_step
  end.

Ltac bauto W := repeat (bstep W); try exact I.

Section BatchRO2.
Variables (b : batch) (h : header).
Hypothesis W : bwf b h.

Ltac ctl := first [ apply (ctl_of _ _ W); apply negb_true_iff; assumption
                  | apply (adv_of _ _ W); apply negb_false_iff; assumption
                  | apply (ctl_of _ _ W); assumption | apply (adv_of _ _ W); assumption ].

Lemma is_field_inclusion_safe : safe (is_field_inclusion b) top.
Proof. unfold is_field_inclusion. bauto W; ctl. Qed.

Lemma is_batch_entry_count_safe : safe (is_batch_entry_count b) top.
Proof. unfold is_batch_entry_count. bauto W; ctl. Qed.

Lemma is_sequence_ascending_safe : safe (is_sequence_ascending b) top.
Proof. unfold is_sequence_ascending. bauto W. Qed.

Lemma is_batch_amount_safe : safe (is_batch_amount b) top.
Proof. unfold is_batch_amount. bauto W; ctl. Qed.

Lemma calculate_entry_hash_safe : safe (calculate_entry_hash b) top.
Proof. unfold calculate_entry_hash. bauto W. Qed.

Lemma is_entry_hash_safe : safe (is_entry_hash b) top.
Proof.
  unfold is_entry_hash. apply safe_bind_unit; [apply calculate_entry_hash_safe|]. bauto W; ctl.
Qed.

Lemma is_originator_dne_safe : safe (is_originator_dne b) top.
Proof. unfold is_originator_dne. bauto W. Qed.

Lemma is_trace_number_odfi_safe : safe (is_trace_number_odfi b) top.
Proof. unfold is_trace_number_odfi. bauto W. Qed.

Lemma is_addenda_sequence_safe : safe (is_addenda_sequence b) top.
Proof. unfold is_addenda_sequence. bauto W. Qed.

Lemma is_category_safe : safe (is_category b) top.
Proof.
  unfold is_category. bstep W. bstep W.
  - destruct (b_entries b) as [|[e0|] t] eqn:He.
    + bauto W.
    + rewrite <- He. bauto W.
    + destruct (bw_e _ _ W None) as (? & ? & _); [rewrite He; left; reflexivity|discriminate].
  - destruct (b_adventries b) as [|[e0|] t] eqn:He.
    + bauto W.
    + rewrite <- He. bauto W.
    + destruct (bw_a _ _ W None) as (? & ?); [rewrite He; left; reflexivity|discriminate].
Qed.

Lemma verify_safe : safe (verify b) top.
Proof.
  unfold verify.
  apply safe_bind_unit; [destruct (b_entries b), (b_adventries b); bauto W|].
  apply safe_bind_unit.
  { intros o. pose proof (is_field_inclusion_safe o) as H.
    destruct (is_field_inclusion b tt o) as [a [] o'|[] o'|]; auto.
    exact (berr_safe _ _ W top o'). }
  bstep W.
  apply safe_bind_unit; [bauto W; ctl|].
  apply safe_bind_unit; [apply is_batch_entry_count_safe|].
  apply safe_bind_unit; [bauto W; apply is_sequence_ascending_safe|].
  apply safe_bind_unit; [apply is_batch_amount_safe|].
  apply safe_bind_unit; [apply is_entry_hash_safe|].
  apply safe_bind_unit; [apply is_originator_dne_safe|].
  apply safe_bind_unit.
  { bauto W. apply safe_bind_unit; [apply is_trace_number_odfi_safe|apply is_addenda_sequence_safe]. }
  apply is_category_safe.
Qed.

End BatchRO2.

Section BatchRO3.
Variables (b : batch) (h : header).
Hypothesis W : bwf b h.

(* when the forward inclusion check of an MTE / POS / SHR batch passes, Addenda02 is present *)
Definition incl_post (e : entry) : unit -> Prop :=
  fun _ => e_cat e = CFwd -> sec_group (h_sec h) = 1 -> e_a02 e = true.

Lemma inclusion_forward_safe e : safe (inclusion_forward b e) (fun _ => sec_group (h_sec h) = 1 -> e_a02 e = true).
Proof.
  unfold inclusion_forward. bstep W.
  destruct (sec_group (h_sec h)) as [|[|[|[|n]]]] eqn:Hg;
    try (apply safe_of_top; [bauto W|intros ? Hc; discriminate Hc]).
  destruct (e_a02 e) eqn:Ha.
  - apply safe_of_top; [bauto W|intros ? _; reflexivity].
  - cbn [negb]. bstep W.
Qed.

Lemma inclusion_noc_safe e : safe (inclusion_noc b e) top.
Proof. unfold inclusion_noc. bauto W. Qed.

Lemma inclusion_return_safe e : safe (inclusion_return b e) top.
Proof. unfold inclusion_return. bauto W. Qed.

Lemma addenda_inclusion_safe e : safe (addenda_inclusion b e) (incl_post e).
Proof.
  unfold addenda_inclusion, incl_post. destruct (e_cat e) eqn:Hc.
  - eapply safe_conseq; [apply inclusion_forward_safe|]. intros ? H _ Hg. exact (H Hg).
  - apply safe_of_top; [apply inclusion_noc_safe|]. intros ? Hx. discriminate Hx.
  - apply safe_of_top; [apply inclusion_return_safe|]. intros ? Hx. discriminate Hx.
  - apply safe_of_top; [apply inclusion_return_safe|]. intros ? Hx. discriminate Hx.
  - apply safe_of_top; [apply inclusion_return_safe|]. intros ? Hx. discriminate Hx.
  - apply safe_ret. intros Hx. discriminate Hx.
Qed.

Lemma valid_amount_safe e : safe (valid_amount b e) top.
Proof. unfold valid_amount. bauto W. Qed.

Lemma valid_trancode_safe e : safe (valid_trancode b e) top.
Proof. unfold valid_trancode. bauto W. Qed.

Lemma sec_eqb_eq x y : sec_eqb x y = true -> x = y.
Proof. unfold sec_eqb. intros H. apply Nat.eqb_eq in H. destruct x, y; cbn in H; try reflexivity; discriminate H. Qed.

Lemma cat_eqb_eq x y : cat_eqb x y = true -> x = y.
Proof. destruct x, y; cbn; intros H; try reflexivity; discriminate H. Qed.

Lemma validate_std_safe s : safe (validate_std s b) top.
Proof.
  unfold validate_std.
  apply safe_bind_unit; [apply (verify_safe _ _ W)|].
  apply safe_bind_unit; [bauto W|].
  bstep W.
  destruct (sec_eqb (h_sec h) s) eqn:Hs; [|bauto W].
  apply sec_eqb_eq in Hs. subst s.
  apply safe_bind_ret.
  apply safe_bind_unit.
  { apply safe_when. intros Hcor. apply sec_eqb_eq in Hcor.
    assert (Hna : sec_eqb (h_sec h) ADV = false) by (rewrite Hcor; reflexivity).
    bauto W; apply (ctl_of _ _ W Hna). }
  apply safe_bind_unit; [bauto W|].
  apply safe_bind_unit; [bauto W|].
  apply (for_entries_safe _ _ W). intros e Hin He.
  apply safe_bind_unit; [bauto W|].
  apply safe_bind_unit; [apply valid_amount_safe|].
  apply safe_bind_unit; [apply valid_trancode_safe|].
  eapply safe_bind; [apply addenda_inclusion_safe|]. intros [] Hpost.
  apply safe_bind_unit; [|bauto W].
  apply safe_when. intros Hc.
  assert (Ha : e_a02 e = true).
  { apply Hpost.
    - destruct (h_sec h); try discriminate Hc; apply cat_eqb_eq; exact Hc.
    - destruct (h_sec h); try discriminate Hc; reflexivity. }
  rewrite Ha. bauto W.
Qed.

Lemma validate_adv_safe : safe (validate_adv b) top.
Proof.
  unfold validate_adv. bstep W. bstep W; [|bauto W]. bstep W. bstep W; [|bauto W]. bstep W.
  apply safe_bind_unit; [bauto W|].
  apply safe_bind_unit; [apply (verify_safe _ _ W)|].
  bauto W.
Qed.

Lemma batch_validate_safe : safe (batch_validate b) top.
Proof.
  unfold batch_validate. destruct (b_kind b) as [|s].
  - apply safe_fail.
  - destruct s; first [apply validate_adv_safe | apply validate_std_safe].
Qed.

Lemma batch_category_safe : safe (batch_category b) top.
Proof.
  unfold batch_category.
  assert (H : forall l, (forall oe, In oe l -> exists e, oe = Some e) ->
     safe ((fix go (l : list (option entry)) : R unit :=
              match l with
              | [] => for_adv_entries b (fun _ => ret tt)
              | None :: _ => crash
              | Some e :: t => match e_cat e with CRet | CNOC => ret tt | _ => go t end
              end) l) top).
  { induction l as [|[e|] t IH]; intros Hl.
    - bauto W.
    - assert (Ht : forall oe, In oe t -> exists e, oe = Some e) by (intros; apply Hl; right; assumption).
      destruct (e_cat e); first [apply safe_ret; exact I | apply IH; exact Ht].
    - destruct (Hl None) as (? & ?); [left; reflexivity|discriminate]. }
  apply H. intros oe Hin. destruct (bw_e _ _ W oe Hin) as (e & -> & _). exists e. reflexivity.
Qed.

End BatchRO3.

(* ------------------------------------------------------------------ *)
(* state triples whose precondition pins the state to a known value *)

Definition st {S} (t : S) : S -> Prop := fun s => s = t.

Lemma hst_get {S B} (t : S) (k : S -> M S B) (Q : B -> S -> Prop) (E : S -> Prop) :
  hoare (st t) (k t) Q E -> hoare (st t) (bind get k) Q E.
Proof. intros H s o ->. unfold bind, get. exact (H t o eq_refl). Qed.

Lemma hst_put {S B} (t t' : S) (k : unit -> M S B) (Q : B -> S -> Prop) (E : S -> Prop) :
  hoare (st t') (k tt) Q E -> hoare (st t) (bind (put t') k) Q E.
Proof. intros H s o _. unfold bind, put. exact (H t' o eq_refl). Qed.

Lemma hst_put_end {S} (t t' : S) (Q : unit -> S -> Prop) (E : S -> Prop) : Q tt t' -> hoare (st t) (put t') Q E.
Proof. intros H s o _. exact H. Qed.

Lemma hst_ro {S A B} (t : S) (m : R A) (k : A -> M S B) (P : A -> Prop) (Q : B -> S -> Prop) (E : S -> Prop) :
  safe m P -> E t -> (forall a, P a -> hoare (st t) (k a) Q E) -> hoare (st t) (bind (ro m) k) Q E.
Proof.
  intros Hm HE Hk s o ->. unfold bind, ro. specialize (Hm o). destruct (m tt o) as [a [] o'|[] o'|]; auto.
  exact (Hk a Hm t o' eq_refl).
Qed.

Lemma hst_ro_end {S A} (t : S) (m : R A) (P : A -> Prop) (Q : A -> S -> Prop) (E : S -> Prop) :
  safe m P -> E t -> (forall a, P a -> Q a t) -> hoare (st t) (ro m) Q E.
Proof.
  intros Hm HE HQ s o ->. unfold ro. specialize (Hm o). destruct (m tt o) as [a [] o'|[] o'|]; auto.
Qed.

Lemma hst_flip {S B} (t : S) (k : bool -> M S B) (Q : B -> S -> Prop) (E : S -> Prop) :
  (forall c, hoare (st t) (k c) Q E) -> hoare (st t) (bind flip k) Q E.
Proof. intros H s o ->. unfold bind, flip. destruct o as [|c o']; [exact (H true t [] eq_refl)|exact (H c t o' eq_refl)]. Qed.

Lemma hst_guess {S B} (t : S) (g : bool) (k : bool -> M S B) (Q : B -> S -> Prop) (E : S -> Prop) :
  (forall c, hoare (st t) (k c) Q E) -> hoare (st t) (bind (guess g) k) Q E.
Proof.
  intros H s o ->. unfold bind, guess, bind, flip, ret.
  destruct o as [|c o']; [exact (H (if true then g else negb g) t [] eq_refl)|exact (H (if c then g else negb g) t o' eq_refl)].
Qed.

Lemma hst_check {S B} (t : S) (k : unit -> M S B) (Q : B -> S -> Prop) (E : S -> Prop) :
  E t -> hoare (st t) (k tt) Q E -> hoare (st t) (bind check k) Q E.
Proof.
  intros HE H s o ->. unfold bind, check, flip, bind, ret, fail.
  destruct o as [|[|] o']; [exact (H t [] eq_refl)|exact (H t o' eq_refl)|exact HE].
Qed.

Lemma hst_ret {S A} (t : S) (a : A) (Q : A -> S -> Prop) (E : S -> Prop) : Q a t -> hoare (st t) (ret a) Q E.
Proof. intros H s o ->. exact H. Qed.

Lemma hst_ret_bind {S A B} (t : S) (a : A) (k : A -> M S B) (Q : B -> S -> Prop) (E : S -> Prop) :
  hoare (st t) (k a) Q E -> hoare (st t) (bind (ret a) k) Q E.
Proof. intros H s o ->. exact (H t o eq_refl). Qed.

Lemma hst_fail {S A} (t : S) (Q : A -> S -> Prop) (E : S -> Prop) : E t -> hoare (st t) fail Q E.
Proof. intros H s o ->. exact H. Qed.

Lemma hst_need {S B} (t : S) (p : bool) (k : unit -> M S B) (Q : B -> S -> Prop) (E : S -> Prop) :
  p = true -> hoare (st t) (k tt) Q E -> hoare (st t) (bind (need p) k) Q E.
Proof. intros -> H s o ->. exact (H t o eq_refl). Qed.

Lemma hst_of {S A} (P : S -> Prop) (m : M S A) (Q : A -> S -> Prop) (E : S -> Prop) :
  (forall t, P t -> hoare (st t) m Q E) -> hoare P m Q E.
Proof. intros H s o Hs. exact (H s Hs s o eq_refl). Qed.

Lemma hst_call {S A B} (t : S) (P : S -> Prop) (m : M S A) (k : A -> M S B) (Q1 : A -> S -> Prop)
  (Q : B -> S -> Prop) (E : S -> Prop) :
  hoare P m Q1 E -> P t -> (forall a t', Q1 a t' -> hoare (st t') (k a) Q E) -> hoare (st t) (bind m k) Q E.
Proof.
  intros Hm HP Hk s o ->. unfold bind. specialize (Hm t o HP). destruct (m t o) as [a t' o'| |]; auto.
  exact (Hk a t' Hm t' o' eq_refl).
Qed.

(* ------------------------------------------------------------------ *)
(* batch.go: the functions that modify the batch keep it well-formed, whether they fail or not *)

Definition WB (b : batch) : Prop := wf_batch_s strict b = true.

Lemma bwf_set_entries b h es :
  bwf b h -> (forall oe, In oe es -> exists e, oe = Some e /\ all_true (e_a05 e) = true) -> bwf (set_entries es b) h.
Proof. intros [Hh Hc He Ha Hs] Hes. split; cbn; assumption. Qed.

Lemma bwf_set_control b h : bwf b h -> bwf (set_control true b) h.
Proof. intros [Hh Hc He Ha Hs]. split; cbn; try assumption. destruct (sec_eqb (h_sec h) ADV); [exact Hc|reflexivity]. Qed.

Lemma bwf_set_adv b h : bwf b h -> bwf (set_adv true b) h.
Proof. intros [Hh Hc He Ha Hs]. split; cbn; try assumption. destruct (sec_eqb (h_sec h) ADV); [reflexivity|exact Hc]. Qed.

Lemma bwf_set_scc b h c : bwf b h -> bwf (set_header (Some (mkheader (h_sec h) c)) b) (mkheader (h_sec h) c).
Proof. intros [Hh Hc He Ha Hs]. split; cbn; try assumption. reflexivity. Qed.

Lemma remove_offsets_safe b h l :
  bwf b h -> sec_eqb (h_sec h) ADV = false ->
  (forall oe, In oe l -> exists e, oe = Some e /\ all_true (e_a05 e) = true) ->
  safe (remove_offsets b l) (fun es => forall oe, In oe es -> In oe l).
Proof.
  intros W Hna. induction l as [|[e|] t IH]; intros Hl; cbn [remove_offsets].
  - apply safe_ret. intros oe [].
  - assert (Ht : forall oe, In oe t -> exists e, oe = Some e /\ all_true (e_a05 e) = true)
      by (intros; apply Hl; right; assumption).
    apply safe_bind_guess. intros [|].
    + eapply safe_bind; [apply IH; exact Ht|]. intros r Hr. apply safe_ret.
      intros oe [<-|Hin]; [left; reflexivity|right; apply Hr; exact Hin].
    + unfold need_control. apply safe_bind_need; [apply (ctl_of _ _ W Hna)|].
      eapply safe_conseq; [apply IH; exact Ht|]. intros r Hr oe Hin. right. apply Hr. exact Hin.
  - destruct (Hl None) as (? & ? & _); [left; reflexivity|discriminate].
Qed.

Lemma last_some {A} (l : list (option A)) (d : A) :
  (forall x, In x l -> exists a, x = Some a) -> exists a, last l (Some d) = Some a.
Proof.
  induction l as [|x t IH]; intros H; cbn [last].
  - exists d. reflexivity.
  - destruct t as [|y t'].
    + apply H. left. reflexivity.
    + apply IH. intros z Hz. apply H. right. exact Hz.
Qed.

Lemma upsert_offsets_inv : hoare WB upsert_offsets (fun _ => WB) WB.
Proof.
  apply hst_of. intros b Wb. destruct (wf_batch_bwf b Wb) as (h & W).
  unfold upsert_offsets. apply hst_get.
  destruct (b_offset b); cbn [negb]; [|apply hst_ret; exact Wb].
  eapply hst_ro; [apply (is_adv_safe _ _ W)|exact Wb|]. intros ? ->.
  destruct (sec_eqb (h_sec h) ADV) eqn:Hna; [apply hst_fail; exact Wb|].
  apply hst_check; [exact Wb|].
  eapply hst_ro; [apply (remove_offsets_safe _ _ _ W Hna); intros oe Hin; exact (bw_e _ _ W oe Hin)|exact Wb|].
  intros es Hes.
  assert (Hes' : forall oe, In oe es -> exists e, oe = Some e /\ all_true (e_a05 e) = true)
    by (intros oe Hin; exact (bw_e _ _ W oe (Hes oe Hin))).
  pose proof (bwf_set_entries _ _ es W Hes') as W1.
  apply hst_put.
  apply hst_check; [exact (bwf_wf_batch _ _ W1)|].
  assert (Hc0 : exists c0, (match es with [] => ret CFwd | None :: _ => crash | Some e :: _ => ret (e_cat e) end : M batch cat) = ret c0).
  { destruct es as [|[e|] t]; eauto. destruct (Hes' None) as (? & ? & _); [left; reflexivity|discriminate]. }
  destruct Hc0 as (c0 & ->). apply hst_ret_bind.
  destruct (last_some es (mkentry CFwd 0 false false false false false false [] false)) as (le & ->).
  { intros x Hx. destruct (Hes' x Hx) as (e & -> & _). eauto. }
  apply hst_ret_bind.
  apply hst_need; [apply (ctl_of _ _ W Hna)|].
  apply hst_guess. intros hasD. apply hst_guess. intros hasC. apply hst_flip. intros chk.
  eapply hst_ro; [apply (header_of_safe _ _ W)|exact (bwf_wf_batch _ _ W1)|]. intros ? ->.
  set (es1 := if hasD then es else es ++ [offset_entry c0 (if chk then 27 else 37)]).
  set (es2 := if hasC then es1 else es1 ++ [offset_entry c0 (if chk then 22 else 32)]).
  assert (Hes2 : forall oe, In oe es2 -> exists e, oe = Some e /\ all_true (e_a05 e) = true).
  { assert (Hes1 : forall oe, In oe es1 -> exists e, oe = Some e /\ all_true (e_a05 e) = true).
    { subst es1. destruct hasD; [exact Hes'|]. intros oe Hin. apply in_app_or in Hin as [Hin|[<-|[]]]; [exact (Hes' oe Hin)|].
      eexists. split; reflexivity. }
    subst es2. destruct hasC; [exact Hes1|]. intros oe Hin. apply in_app_or in Hin as [Hin|[<-|[]]]; [exact (Hes1 oe Hin)|].
    eexists. split; reflexivity. }
  pose proof (bwf_set_scc _ _ Mixed (bwf_set_entries _ _ es2 W Hes2)) as W2.
  apply hst_put.
  eapply hst_ro_end; [apply (calculate_entry_hash_safe _ _ W2)|exact (bwf_wf_batch _ _ W2)|].
  intros _ _. exact (bwf_wf_batch _ _ W2).
Qed.

Lemma build_inv : hoare WB build (fun _ => WB) WB.
Proof.
  apply hst_of. intros b Wb. destruct (wf_batch_bwf b Wb) as (h & W).
  unfold build. apply hst_get.
  eapply hst_ro with (P := top); [bauto W|exact Wb|intros _ _].
  eapply hst_ro with (P := top); [destruct (b_entries b), (b_adventries b); bauto W|exact Wb|intros _ _].
  eapply hst_ro; [apply (is_adv_safe _ _ W)|exact Wb|]. intros ? ->.
  destruct (sec_eqb (h_sec h) ADV) eqn:Hna; cbn [negb].
  - (* ADV *)
    eapply hst_call with (P := st b) (Q1 := fun _ => WB).
    + eapply hst_ro with (P := top); [bauto W|exact Wb|intros _ _].
      eapply hst_ro with (P := top); [|exact Wb|intros _ _].
      { bstep W. apply safe_bind_unit; [apply (calculate_entry_hash_safe _ _ W)|]. bauto W. }
      apply hst_put_end. exact (bwf_wf_batch _ _ (bwf_set_adv _ _ W)).
    + reflexivity.
    + intros _ t' Wt'. eapply hoare_conseq; [apply upsert_offsets_inv| | |]; auto.
      intros s ->. exact Wt'.
  - eapply hst_call with (P := st b) (Q1 := fun _ => WB).
    + eapply hst_ro with (P := top); [bauto W|exact Wb|intros _ _].
      eapply hst_ro with (P := top); [|exact Wb|intros _ _].
      { bstep W. apply safe_bind_unit; [apply (calculate_entry_hash_safe _ _ W)|]. bauto W. }
      apply hst_put_end. exact (bwf_wf_batch _ _ (bwf_set_control _ _ W)).
    + reflexivity.
    + intros _ t' Wt'. eapply hoare_conseq; [apply upsert_offsets_inv| | |]; auto.
      intros s ->. exact Wt'.
Qed.

Lemma batch_create_inv : hoare WB batch_create (fun _ => WB) WB.
Proof.
  apply hst_of. intros b Wb. unfold batch_create. apply hst_get.
  assert (H : hoare (st b) (build ;; b' <- get ;; ro (batch_validate b')) (fun _ => WB) WB).
  { eapply hst_call with (P := WB) (Q1 := fun _ => WB); [apply build_inv|exact Wb|].
    intros _ t' Wt'. apply hst_get. destruct (wf_batch_bwf t' Wt') as (h' & W').
    eapply hst_ro_end; [apply (batch_validate_safe _ _ W')|exact Wt'|]. intros _ _. exact Wt'. }
  destruct (b_kind b); [apply hst_fail; exact Wb|exact H].
Qed.

Lemma reverse_entries_safe l :
  (forall oe, In oe l -> exists e, oe = Some e /\ all_true (e_a05 e) = true) ->
  safe (reverse_entries l) (fun r => forall oe, In oe (fst r) -> exists e, oe = Some e /\ all_true (e_a05 e) = true).
Proof.
  induction l as [|[e|] t IH]; intros Hl; cbn [reverse_entries].
  - apply safe_ret. intros oe [].
  - eapply safe_bind; [apply IH; intros; apply Hl; right; assumption|].
    intros [t' [hc hd]] Hr. apply safe_ret. cbn [fst] in *.
    intros oe [<-|Hin]; [|exact (Hr oe Hin)].
    destruct (Hl (Some e)) as (e0 & [= <-] & He); [left; reflexivity|].
    eexists. split; [reflexivity|exact He].
  - destruct (Hl None) as (? & ? & _); [left; reflexivity|discriminate].
Qed.

Lemma reversal_batch_inv : hoare WB reversal_batch (fun _ => WB) WB.
Proof.
  apply hst_of. intros b Wb. destruct (wf_batch_bwf b Wb) as (h & W).
  unfold reversal_batch. apply hst_get.
  eapply hst_ro; [apply (header_of_safe _ _ W)|exact Wb|]. intros ? ->.
  eapply hst_ro; [apply reverse_entries_safe; intros oe Hin; exact (bw_e _ _ W oe Hin)|exact Wb|].
  intros [es [hc hd]] Hes. cbn [fst] in Hes.
  set (scc' := if hc && hd then Mixed else if hd then Debits else if hc then Credits else h_scc h).
  pose proof (bwf_set_scc _ _ scc' (bwf_set_control _ _ (bwf_set_entries _ _ es W Hes))) as W2.
  apply hst_put.
  destruct (b_kind b).
  - eapply hoare_conseq; [apply build_inv| | |]; auto. intros s ->. exact (bwf_wf_batch _ _ W2).
  - apply hst_ret. exact (bwf_wf_batch _ _ W2).
Qed.

(* ------------------------------------------------------------------ *)
(* iatBatch.go *)

Lemma safe_forM_post {E} (l : list E) (f : E -> R unit) (Rl : E -> Prop) :
  (forall x, In x l -> safe (f x) (fun _ => Rl x)) -> safe (forM_ l f) (fun _ => forall x, In x l -> Rl x).
Proof.
  induction l as [|x t IH]; intros H; cbn [forM_].
  - apply safe_ret. intros ? [].
  - eapply safe_bind; [apply H; left; reflexivity|]. intros [] Hx.
    eapply safe_conseq; [apply IH; intros y Hy; apply H; right; exact Hy|].
    intros [] Ht y [<-|Hy]; [exact Hx|exact (Ht y Hy)].
Qed.

Record iwf (b : iat_batch) (h : iat_header) : Prop := mkiwf {
  iw_h : ib_header b = Some h;
  iw_c : ib_control b = true;
  iw_e : forall oe, In oe (ib_entries b) -> exists e, oe = Some e /\ all_true (ie_a17 e) = true /\ all_true (ie_a18 e) = true }.

Definition WI (b : iat_batch) : Prop := wf_iat b = true.

Lemma wf_iat_iwf b : wf_iat b = true -> exists h, iwf b h.
Proof.
  unfold wf_iat. intros H. apply andb_prop in H as [H He]. apply andb_prop in H as [Hh Hc].
  destruct (ib_header b) as [h|] eqn:Hhd; [|discriminate]. exists h. split; [exact Hhd|exact Hc|].
  intros oe Hin. rewrite forallb_forall in He. specialize (He oe Hin). destruct oe as [e|]; [|discriminate].
  unfold wf_iat_entry in He. apply andb_prop in He as [H17 H18]. exists e. auto.
Qed.

Lemma iwf_wf_iat b h : iwf b h -> wf_iat b = true.
Proof.
  intros [Hh Hc He]. unfold wf_iat. rewrite Hh, Hc. cbn. apply forallb_forall. intros oe Hin.
  destruct (He oe Hin) as (e & -> & H17 & H18). unfold wf_iat_entry. rewrite H17, H18. reflexivity.
Qed.

Section IatRO.
Variables (b : iat_batch) (h : iat_header).
Hypothesis W : iwf b h.

Lemma ih_of_safe : safe (ih_of b) (fun h' => h' = h).
Proof. unfold ih_of. rewrite (iw_h _ _ W). apply safe_ret. reflexivity. Qed.

Lemma iberr_safe {A} (Q : A -> Prop) : safe (iberr b) Q.
Proof. unfold iberr. eapply safe_bind; [apply ih_of_safe|]. intros ? _. apply safe_fail. Qed.

Lemma bind_iberr_safe {A B} (k : A -> R B) (Q : B -> Prop) : safe (bind (iberr b) k) Q.
Proof. eapply safe_bind; [apply (iberr_safe (fun _ => False))|]. intros ? []. Qed.

Lemma for_iat_entries_safe (body : iat_entry -> R unit) :
  (forall e, In (Some e) (ib_entries b) -> all_true (ie_a17 e) = true -> all_true (ie_a18 e) = true -> safe (body e) top) ->
  safe (for_iat_entries b body) top.
Proof.
  intros H. unfold for_iat_entries. apply safe_forM. intros oe Hin.
  destruct (iw_e _ _ W oe Hin) as (e & -> & H17 & H18). apply H; assumption.
Qed.

Lemma for_iat_entries_post (body : iat_entry -> R unit) (Rl : iat_entry -> Prop) :
  (forall e, In (Some e) (ib_entries b) -> all_true (ie_a17 e) = true -> all_true (ie_a18 e) = true -> safe (body e) (fun _ => Rl e)) ->
  safe (for_iat_entries b body) (fun _ => forall e, In (Some e) (ib_entries b) -> Rl e).
Proof.
  intros H. unfold for_iat_entries.
  eapply safe_conseq.
  - apply (safe_forM_post _ _ (fun oe => match oe with Some e => Rl e | None => True end)).
    intros oe Hin. destruct (iw_e _ _ W oe Hin) as (e & -> & H17 & H18). apply H; assumption.
  - intros [] Hall e Hin. exact (Hall (Some e) Hin).
Qed.

Lemma all_bits (l : list bool) (body : bool -> R unit) :
  all_true l = true -> (forall p, p = true -> safe (body p) top) -> safe (forM_ l body) top.
Proof.
  intros He H. apply safe_forM. intros p Hin. apply H.
  unfold all_true in He. rewrite forallb_forall in He. exact (He p Hin).
Qed.

End IatRO.

Ltac istep W :=
  lazymatch goal with
  | |- safe (bind (ih_of _) _) _ => eapply safe_bind; [apply (ih_of_safe _ _ W)|intros ? ->]
  | |- safe (bind (iberr _) _) _ => apply (bind_iberr_safe _ _ W)
  | |- safe (iberr _) _ => apply (iberr_safe _ _ W)
  | |- safe (bind (need_ibcontrol _) _) _ => apply safe_bind_need; [exact (iw_c _ _ W)|]
  | |- safe (need_ibcontrol _) _ => apply safe_need; [exact (iw_c _ _ W)|exact I]
  | |- safe (bind (when _ _) _) _ => apply safe_bind_unit; [apply safe_when; intros ?|]
  | |- safe (when _ _) _ => apply safe_when; intros ?
  | |- safe (bind (for_iat_entries _ _) _) _ => apply safe_bind_unit; [apply (for_iat_entries_safe _ _ W); intros ? ? ? ?|]
  | |- safe (for_iat_entries _ _) _ => apply (for_iat_entries_safe _ _ W); intros ? ? ? ?
  | |- safe (bind (forM_ (ie_a17 _) _) _) _ => apply safe_bind_unit; [apply all_bits; [assumption|intros ? ->]|]
  | |- safe (bind (forM_ (ie_a18 _) _) _) _ => apply safe_bind_unit; [apply all_bits; [assumption|intros ? ->]|]
  | |- safe (forM_ (ie_a17 _) _) _ => apply all_bits; [assumption|intros ? ->]
  | |- safe (forM_ (ie_a18 _) _) _ => apply all_bits; [assumption|intros ? ->]
  | _ => safe_step
  end.
Ltac iauto W := repeat (istep W); try exact I.

Section IatRO2.
Variables (b : iat_batch) (h : iat_header).
Hypothesis W : iwf b h.

(* an entry that passed addendaFieldInclusion and is not a correction has its seven mandatory addenda *)
Definition mand (e : iat_entry) : Prop := ie_a98 e = false -> ie_mandatory e = true.

Lemma iat_addenda_inclusion_safe e : safe (iat_addenda_inclusion e) (fun _ => mand e).
Proof.
  unfold iat_addenda_inclusion, mand. destruct (ie_a98 e); [apply safe_ret; discriminate|].
  destruct (ie_mandatory e); [apply safe_ret; reflexivity|apply safe_fail].
Qed.

Lemma iat_is_field_inclusion_safe :
  safe (iat_is_field_inclusion b) (fun _ => forall e, In (Some e) (ib_entries b) -> mand e).
Proof.
  unfold iat_is_field_inclusion. istep W. istep W.
  eapply safe_bind.
  - apply (for_iat_entries_post _ _ W _ mand). intros e Hin H17 H18.
    apply safe_bind_check. eapply safe_bind; [apply iat_addenda_inclusion_safe|]. intros [] Hm.
    apply safe_of_top; [|intros _; exact Hm]. iauto W.
  - intros [] Hall. apply safe_of_top; [iauto W|]. intros _. exact Hall.
Qed.

Lemma iat_addenda_sequence_loop_safe l :
  (forall oe, In oe l -> exists e, oe = Some e /\ all_true (ie_a17 e) = true /\ all_true (ie_a18 e) = true /\ mand e) ->
  safe (iat_addenda_sequence_loop b l) top.
Proof.
  induction l as [|[e|] t IH]; intros Hl; cbn [iat_addenda_sequence_loop].
  - apply safe_ret. exact I.
  - destruct (Hl (Some e)) as (e0 & [= <-] & H17 & H18 & Hm); [left; reflexivity|].
    apply safe_bind_unit; [iauto W|].
    destruct (ie_a98 e) eqn:H98; [apply safe_ret; exact I|].
    specialize (Hm H98). unfold ie_mandatory in Hm.
    repeat (apply andb_prop in Hm as [Hm ?]).
    repeat (apply safe_bind_need; [assumption|apply safe_bind_unit; [iauto W|]]).
    apply safe_bind_unit; [iauto W|]. apply safe_bind_unit; [iauto W|].
    apply IH. intros oe Hin. apply Hl. right. exact Hin.
  - destruct (Hl None) as (? & ? & _); [left; reflexivity|discriminate].
Qed.

Lemma iat_is_category_safe : ib_entries b <> [] -> safe (iat_is_category b) top.
Proof.
  intros Hne. unfold iat_is_category. destruct (ib_entries b) as [|[e0|] t] eqn:He.
  - contradiction.
  - apply safe_forM. intros oe Hin.
    destruct (iw_e _ _ W oe) as (e & -> & _); [rewrite He; right; exact Hin|]. iauto W.
  - destruct (iw_e _ _ W None) as (? & ? & _); [rewrite He; left; reflexivity|discriminate].
Qed.

Lemma iat_verify_safe : safe (iat_verify b) top.
Proof.
  unfold iat_verify.
  eapply safe_bind with (Q := fun _ => ib_entries b <> []).
  { destruct (ib_entries b); [iauto W|apply safe_ret; discriminate]. }
  intros [] Hne.
  eapply safe_bind.
  { intros o. pose proof (iat_is_field_inclusion_safe o) as H.
    destruct (iat_is_field_inclusion b tt o) as [a [] o'|[] o'|]; [exact H| |exact H].
    exact (iberr_safe _ _ W (fun _ => forall e, In (Some e) (ib_entries b) -> mand e) o'). }
  intros [] Hmand.
  apply safe_bind_unit; [iauto W|].
  istep W. istep W. apply safe_bind_unit; [iauto W|].
  istep W. istep W. apply safe_bind_unit; [iauto W|].
  apply safe_bind_unit; [iauto W|].
  apply safe_bind_unit; [unfold iat_is_batch_entry_count; iauto W|].
  apply safe_bind_unit; [iauto W|].
  apply safe_bind_unit; [iauto W|].
  apply safe_bind_unit; [iauto W|].
  apply safe_bind_unit.
  { istep W. istep W. apply safe_bind_unit; [iauto W|].
    unfold iat_is_addenda_sequence. apply iat_addenda_sequence_loop_safe.
    intros oe Hin. destruct (iw_e _ _ W oe Hin) as (e & -> & H17 & H18).
    exists e. repeat split; try assumption. apply Hmand. exact Hin. }
  apply iat_is_category_safe. exact Hne.
Qed.

Lemma iat_validate_safe : safe (iat_validate b) top.
Proof.
  unfold iat_validate. apply safe_bind_unit; [apply iat_verify_safe|]. iauto W.
Qed.

End IatRO2.

Lemma iwf_set_control b h : iwf b h -> iwf (set_ib_control true b) h.
Proof. intros [Hh Hc He]. split; cbn; auto. Qed.

Lemma iat_build_inv : hoare WI iat_build (fun _ => WI) WI.
Proof.
  apply hst_of. intros b Wb. destruct (wf_iat_iwf b Wb) as (h & W).
  unfold iat_build. apply hst_get.
  eapply hst_ro with (P := top); [iauto W|exact Wb|intros _ _].
  eapply hst_ro with (P := top); [destruct (ib_entries b); iauto W|exact Wb|intros _ _].
  eapply hst_ro with (P := top); [|exact Wb|intros _ _].
  { apply (for_iat_entries_safe _ _ W). intros e Hin H17 H18.
    apply safe_bind_unit; [eapply safe_top; apply iat_addenda_inclusion_safe|]. iauto W. }
  apply hst_put.
  eapply hst_ro_end with (P := top); [iauto W|exact (iwf_wf_iat _ _ (iwf_set_control _ _ W))|].
  intros _ _. exact (iwf_wf_iat _ _ (iwf_set_control _ _ W)).
Qed.

Lemma iat_create_inv : hoare WI iat_create (fun _ => WI) WI.
Proof.
  apply hst_of. intros b Wb. unfold iat_create.
  eapply hst_call with (P := WI) (Q1 := fun _ => WI); [apply iat_build_inv|exact Wb|].
  intros _ t' Wt'. apply hst_get. destruct (wf_iat_iwf t' Wt') as (h' & W').
  eapply hst_ro_end; [apply (iat_validate_safe _ _ W')|exact Wt'|]. intros _ _. exact Wt'.
Qed.

(* ------------------------------------------------------------------ *)
(* file.go, writer.go, reversal.go on well-formed files *)

Definition WF (f : file) : Prop := wf_file_s strict f = true.

Record fwf (f : file) : Prop := mkfwf {
  fw_b : forall ob, In ob (f_batches f) -> exists b h, ob = Some b /\ bwf b h;
  fw_i : forall ib, In ib (f_iat f) -> exists h, iwf ib h }.

Lemma wf_file_fwf f : wf_file_s strict f = true -> fwf f.
Proof.
  unfold wf_file_s. intros H. apply andb_prop in H as [Hb Hi]. split.
  - intros ob Hin. rewrite forallb_forall in Hb. specialize (Hb ob Hin). destruct ob as [b|]; [|discriminate].
    destruct (wf_batch_bwf b Hb) as (h & W). eauto.
  - intros ib Hin. rewrite forallb_forall in Hi. exact (wf_iat_iwf ib (Hi ib Hin)).
Qed.

Lemma fwf_wf_file f : fwf f -> wf_file_s strict f = true.
Proof.
  intros [Hb Hi]. unfold wf_file_s. apply andb_true_intro. split; apply forallb_forall.
  - intros ob Hin. destruct (Hb ob Hin) as (b & h & -> & W). exact (bwf_wf_batch _ _ W).
  - intros ib Hin. destruct (Hi ib Hin) as (h & W). exact (iwf_wf_iat _ _ W).
Qed.

Lemma WF_batches f : WF f -> Forall (fun x => exists t, x = Some t /\ WB t) (f_batches f).
Proof.
  intros H. apply Forall_forall. intros ob Hin. destruct (fw_b _ (wf_file_fwf f H) ob Hin) as (b & h & -> & W).
  exists b. split; [reflexivity|exact (bwf_wf_batch _ _ W)].
Qed.

Lemma WF_iat f : WF f -> Forall WI (f_iat f).
Proof.
  intros H. apply Forall_forall. intros ib Hin. destruct (fw_i _ (wf_file_fwf f H) ib Hin) as (h & W).
  exact (iwf_wf_iat _ _ W).
Qed.

Lemma WF_intro bs is : Forall (fun x => exists t, x = Some t /\ WB t) bs -> Forall WI is -> WF (mkfile bs is).
Proof.
  intros Hb Hi. unfold WF, wf_file_s. cbn. apply andb_true_intro. split; apply forallb_forall.
  - intros ob Hin. rewrite Forall_forall in Hb. destruct (Hb ob Hin) as (b & -> & W). exact W.
  - intros ib Hin. rewrite Forall_forall in Hi. exact (Hi ib Hin).
Qed.

(* all batches carry another SEC code than ADV (IsADV returned false) / the code ADV *)
Definition nonadv (f : file) : Prop :=
  forall b h, In (Some b) (f_batches f) -> b_header b = Some h -> sec_eqb (h_sec h) ADV = false.
Definition alladv (f : file) : Prop :=
  forall b h, In (Some b) (f_batches f) -> b_header b = Some h -> sec_eqb (h_sec h) ADV = true.

(* File.IsADV leaves the first batch with a BatchControl, ADV or not *)
Definition head_ctl (f : file) : Prop :=
  match f_batches f with Some b :: _ => b_control b = true | _ => True end.

Lemma is_adv_loop_spec l o :
  Forall (fun x => exists t, x = Some t /\ WB t) l ->
  match is_adv_loop l o with
  | OK r l' _ => Forall (fun x => exists t, x = Some t /\ WB t) l' /\
                 match l' with Some b :: _ => b_control b = true | _ => True end /\
                 (r = false -> forall b h, In (Some b) l' -> b_header b = Some h -> sec_eqb (h_sec h) ADV = false)
  | ERR l' _ => Forall (fun x => exists t, x = Some t /\ WB t) l'
  | PANIC => False
  end.
Proof.
  induction l as [|x t IH]; intros Hl; cbn [is_adv_loop].
  - split; [constructor|]. split; [exact I|]. intros _ b h [].
  - inversion Hl as [|? ? (b & -> & Wb) Ht]; subst.
    destruct (wf_batch_bwf b Wb) as (h & W). rewrite (bw_h _ _ W).
    assert (W1 : WB (set_control true (set_header (Some h) b))).
    { apply (bwf_wf_batch _ h). destruct W as [Hh Hc He Ha Hs]. split; cbn; auto.
      destruct (sec_eqb (h_sec h) ADV); [exact Hc|reflexivity]. }
    destruct (sec_eqb (h_sec h) ADV) eqn:Hadv.
    + split; [constructor; [eauto|exact Ht]|]. split; [reflexivity|discriminate].
    + specialize (IH Ht). destruct (is_adv_loop t o) as [r t' o'|t' o'|]; [|constructor; [eauto|exact IH]|exact IH].
      destruct IH as (IH1 & _ & IH2). split; [constructor; [eauto|exact IH1]|]. split; [reflexivity|].
      intros Hr b' h' [[= <-]|Hin] Hh'.
      * cbn in Hh'. injection Hh' as <-. exact Hadv.
      * exact (IH2 Hr b' h' Hin Hh').
Qed.

Lemma file_is_adv_inv : hoare WF file_is_adv (fun r f => WF f /\ (r = false -> nonadv f)) WF.
Proof.
  intros f o Wf. unfold file_is_adv, zoom.
  pose proof (is_adv_loop_spec (f_batches f) o (WF_batches f Wf)) as H.
  destruct (is_adv_loop (f_batches f) o) as [r l' o'|l' o'|]; [|exact (WF_intro _ _ H (WF_iat f Wf))|exact H].
  destruct H as (H1 & _ & H2). split; [exact (WF_intro _ _ H1 (WF_iat f Wf))|].
  intros Hr b h Hin Hh. exact (H2 Hr b h Hin Hh).
Qed.

Lemma file_is_adv_head : hoare WF file_is_adv (fun r f => (WF f /\ head_ctl f) /\ (r = false -> nonadv f)) WF.
Proof.
  intros f o Wf. unfold file_is_adv, zoom.
  pose proof (is_adv_loop_spec (f_batches f) o (WF_batches f Wf)) as H.
  destruct (is_adv_loop (f_batches f) o) as [r l' o'|l' o'|]; [|exact (WF_intro _ _ H (WF_iat f Wf))|exact H].
  destruct H as (H1 & Hh & H2). split; [split; [exact (WF_intro _ _ H1 (WF_iat f Wf))|exact Hh]|].
  intros Hr b h Hin Hh'. exact (H2 Hr b h Hin Hh').
Qed.

Definition advp (adv : bool) (f : file) : Prop := if adv then alladv f else nonadv f.

Section FileRO.
Variable f : file.
Hypothesis W : fwf f.

Lemma for_batches_safe (m : batch -> R unit) :
  (forall b h, In (Some b) (f_batches f) -> bwf b h -> safe (m b) top) -> safe (for_batches f m) top.
Proof.
  intros H. unfold for_batches. apply safe_forM. intros ob Hin.
  destruct (fw_b _ W ob Hin) as (b & h & -> & Wb). exact (H b h Hin Wb).
Qed.

Lemma for_batches_post (m : batch -> R unit) (Rl : batch -> Prop) :
  (forall b h, In (Some b) (f_batches f) -> bwf b h -> safe (m b) (fun _ => Rl b)) ->
  safe (for_batches f m) (fun _ => forall b, In (Some b) (f_batches f) -> Rl b).
Proof.
  intros H. unfold for_batches. eapply safe_conseq.
  - apply (safe_forM_post _ _ (fun ob => match ob with Some b => Rl b | None => True end)).
    intros ob Hin. destruct (fw_b _ W ob Hin) as (b & h & -> & Wb). exact (H b h Hin Wb).
  - intros [] Hall b Hin. exact (Hall (Some b) Hin).
Qed.

Lemma for_iat_safe (m : iat_batch -> R unit) :
  (forall b h, In b (f_iat f) -> iwf b h -> safe (m b) top) -> safe (for_iat f m) top.
Proof.
  intros H. unfold for_iat. apply safe_forM. intros ib Hin. destruct (fw_i _ W ib Hin) as (h & Wi). exact (H ib h Hin Wi).
Qed.

Lemma need_control_nonadv b h : nonadv f -> In (Some b) (f_batches f) -> bwf b h -> b_control b = true.
Proof. intros Hn Hin Wb. apply (ctl_of _ _ Wb). exact (Hn b h Hin (bw_h _ _ Wb)). Qed.

Lemma need_adv_alladv b h : alladv f -> In (Some b) (f_batches f) -> bwf b h -> b_adv b = true.
Proof. intros Hn Hin Wb. apply (adv_of _ _ Wb). exact (Hn b h Hin (bw_h _ _ Wb)). Qed.

Ltac fctl := first [ eapply need_control_nonadv; eassumption | eapply need_adv_alladv; eassumption ].

Lemma controls_safe (adv : bool) :
  advp adv f ->
  safe (if negb adv then for_batches f need_control ;; for_iat f need_ibcontrol else for_batches f need_advcontrol) top.
Proof.
  intros Hk. destruct adv; cbn [negb]; unfold advp in Hk.
  - apply for_batches_safe. intros b h Hin Wb. unfold need_advcontrol. apply safe_need; [fctl|exact I].
  - apply safe_bind_unit.
    + apply for_batches_safe. intros b h Hin Wb. unfold need_control. apply safe_need; [fctl|exact I].
    + apply for_iat_safe. intros b h Hin Wi. iauto Wi.
Qed.

Lemma is_entry_addenda_count_safe adv : advp adv f -> safe (is_entry_addenda_count adv f) top.
Proof.
  intros Hk. unfold is_entry_addenda_count. apply safe_bind_unit; [apply controls_safe; exact Hk|].
  repeat safe_step.
Qed.

Lemma file_entry_hash_safe adv : advp adv f -> safe (file_entry_hash adv f) top.
Proof.
  intros Hk. unfold file_entry_hash. apply safe_bind_unit; [apply controls_safe; exact Hk|]. repeat safe_step.
Qed.

Lemma is_file_amount_safe adv : advp adv f -> safe (is_file_amount adv f) top.
Proof.
  intros Hk. unfold is_file_amount. apply safe_bind_unit; [|repeat safe_step].
  destruct adv; cbn [negb]; unfold advp in Hk.
  - apply for_batches_safe. intros b h Hin Wb. unfold need_advcontrol.
    apply safe_bind_need; [fctl|]. apply safe_need; [fctl|exact I].
  - apply safe_bind_unit.
    + apply for_batches_safe. intros b h Hin Wb. unfold need_control.
      apply safe_bind_need; [fctl|]. apply safe_need; [fctl|exact I].
    + apply for_iat_safe. intros b h Hin Wi. iauto Wi.
Qed.

Lemma file_sequence_ascending_safe : safe (file_sequence_ascending f) top.
Proof. unfold file_sequence_ascending. apply for_batches_safe. intros b h Hin Wb. bauto Wb. Qed.

Lemma validate_body_nonadv_safe : nonadv f ->
  safe (check ;; for_batches f batch_validate ;; (c <- flip ;; when c check) ;;
        is_entry_addenda_count false f ;; is_file_amount false f ;;
        (s <- flip ;; when s (file_sequence_ascending f)) ;; file_entry_hash false f) top.
Proof.
  intros Hn. apply safe_bind_check.
  apply safe_bind_unit; [apply for_batches_safe; intros b h _ Wb; exact (batch_validate_safe _ _ Wb)|].
  apply safe_bind_unit; [repeat safe_step; apply safe_when; intros; repeat safe_step|].
  apply safe_bind_unit; [apply (is_entry_addenda_count_safe false); exact Hn|].
  apply safe_bind_unit; [apply (is_file_amount_safe false); exact Hn|].
  apply safe_bind_unit; [safe_step; apply safe_when; intros; apply file_sequence_ascending_safe|].
  apply (file_entry_hash_safe false). exact Hn.
Qed.

Lemma validate_body_adv_safe :
  safe (for_batches f (fun b => h <- header_of b ;; if sec_eqb (h_sec h) ADV then ret tt else fail) ;;
        check ;; (c <- flip ;; when c check) ;;
        is_entry_addenda_count true f ;; is_file_amount true f ;; file_entry_hash true f) top.
Proof.
  eapply safe_bind.
  - apply (for_batches_post _ (fun b => forall h, b_header b = Some h -> sec_eqb (h_sec h) ADV = true)).
    intros b h Hin Wb. bstep Wb. destruct (sec_eqb (h_sec h) ADV) eqn:Hs; [|apply safe_fail].
    apply safe_ret. intros h' Hh'. rewrite (bw_h _ _ Wb) in Hh'. injection Hh' as <-. exact Hs.
  - intros [] Hall.
    assert (Ha : alladv f) by (intros b h Hin Hh; exact (Hall b Hin h Hh)).
    apply safe_bind_check.
    apply safe_bind_unit; [repeat safe_step; apply safe_when; intros; repeat safe_step|].
    apply safe_bind_unit; [apply (is_entry_addenda_count_safe true); exact Ha|].
    apply safe_bind_unit; [apply (is_file_amount_safe true); exact Ha|].
    apply (file_entry_hash_safe true). exact Ha.
Qed.

Lemma create_file_adv_safe : safe (create_file_adv f) top.
Proof.
  unfold create_file_adv. apply for_batches_safe. intros b h Hin Wb.
  bstep Wb. destruct (sec_eqb (h_sec h) ADV) eqn:Hs; [|bauto Wb].
  pose proof (adv_of _ _ Wb Hs) as Hadv. unfold need_advcontrol. rewrite Hadv. bauto Wb.
Qed.

Lemma create_body_nonadv_safe : nonadv f ->
  safe (for_batches f (fun b =>
          _ <- header_of b ;;
          (r <- flip ;; when (negb r) (_ <- header_of b ;; need_control b)) ;;
          need_control b ;; need_control b ;; need_control b ;; need_control b ;; need_control b) ;;
        for_iat f (fun b =>
          _ <- ih_of b ;;
          (r <- flip ;; when (negb r) (_ <- ih_of b ;; need_ibcontrol b)) ;;
          need_ibcontrol b ;; need_ibcontrol b ;; need_ibcontrol b ;; need_ibcontrol b ;; need_ibcontrol b)) top.
Proof.
  intros Hn. apply safe_bind_unit.
  - apply for_batches_safe. intros b h Hin Wb.
    pose proof (need_control_nonadv b h Hn Hin Wb) as Hc. unfold need_control. rewrite Hc. bauto Wb.
  - apply for_iat_safe. intros b h Hin Wi. iauto Wi.
Qed.

Lemma write_body_safe adv : safe (write_batch adv f ;; write_iat f ;; check ;; check) top.
Proof.
  apply safe_bind_unit; [|apply safe_bind_unit; [|repeat safe_step]].
  - unfold write_batch. apply for_batches_safe. intros b h Hin Wb.
    bstep Wb. bstep Wb. apply safe_bind_unit; [destruct adv; bauto Wb|].
    bstep Wb. destruct (sec_eqb (h_sec h) ADV) eqn:Hs; cbn [negb].
    + unfold need_advcontrol. rewrite (adv_of _ _ Wb Hs). bauto Wb.
    + unfold need_control. rewrite (ctl_of _ _ Wb Hs). bauto Wb.
  - unfold write_iat. apply for_iat_safe. intros b h Hin Wi. iauto Wi.
Qed.

End FileRO.

(* Validate and Create, with the extra fact that the first batch keeps / receives its BatchControl *)
Definition WFH (f : file) : Prop := WF f /\ head_ctl f.

Lemma file_validate_head : hoare WFH file_validate (fun _ => WFH) WF.
Proof.
  unfold file_validate.
  eapply hoare_bind; [apply hoare_flip|]. intros run. destruct run; cbn [negb]; [|apply hoare_ret; auto].
  eapply hoare_bind with (Q := fun _ => WFH).
  { eapply hoare_bind; [apply hoare_flip|]. intros [|]; cbn [when]; [|apply hoare_ret; auto].
    unfold check. eapply hoare_bind; [apply hoare_flip|]. intros [|]; [apply hoare_ret; auto|apply hoare_fail; intros s [Hs _]; exact Hs]. }
  intros _. eapply hoare_bind; [eapply hoare_conseq; [apply file_is_adv_head| | |]; [intros s [Hs _]; exact Hs|intros a s Hq; exact Hq|auto]|].
  intros adv.
  apply hst_of. intros f [[Wf Hh] Hn]. apply hst_get. pose proof (wf_file_fwf f Wf) as W.
  destruct adv; cbn [negb].
  - eapply hst_ro_end; [apply (validate_body_adv_safe f W)|exact Wf|]. intros _ _. split; assumption.
  - eapply hst_ro_end; [apply (validate_body_nonadv_safe f W (Hn eq_refl))|exact Wf|]. intros _ _. split; assumption.
Qed.

Lemma file_validate_inv : hoare WF file_validate (fun _ => WF) WF.
Proof.
  unfold file_validate.
  eapply hoare_bind; [apply hoare_flip|]. intros run. destruct run; cbn [negb]; [|apply hoare_ret; auto].
  eapply hoare_bind with (Q := fun _ => WF).
  { eapply hoare_bind; [apply hoare_flip|]. intros [|]; cbn [when]; [apply hoare_check|apply hoare_ret; auto]. }
  intros _. eapply hoare_bind; [apply file_is_adv_inv|]. intros adv.
  apply hst_of. intros f [Wf Hn]. apply hst_get. pose proof (wf_file_fwf f Wf) as W.
  destruct adv; cbn [negb].
  - eapply hst_ro_end; [apply (validate_body_adv_safe f W)|exact Wf|]. intros _ _. exact Wf.
  - eapply hst_ro_end; [apply (validate_body_nonadv_safe f W (Hn eq_refl))|exact Wf|]. intros _ _. exact Wf.
Qed.

Lemma file_create_head : hoare WF file_create (fun _ => WFH) WF.
Proof.
  unfold file_create.
  eapply hoare_bind; [apply hoare_flip|]. intros run.
  eapply hoare_bind; [apply hoare_get|]. intros f0.
  eapply hoare_bind with (Q := fun _ => WF).
  { destruct run; cbn [when]; [|apply hoare_ret; intros s [_ H]; exact H].
    eapply hoare_conseq with (P := WF) (Q := fun _ => WF) (E := WF); [|intros s [_ H]; exact H|auto|auto].
    eapply hoare_bind with (Q := fun _ => WF).
    { eapply hoare_bind; [apply hoare_flip|]. intros [|]; cbn [when]; [apply hoare_check|apply hoare_ret; auto]. }
    intros _. eapply hoare_bind; [apply hoare_flip|]. intros [|]; cbn [when]; [|apply hoare_ret; auto].
    destruct (f_batches f0), (f_iat f0); first [apply hoare_fail; auto | apply hoare_ret; auto]. }
  intros _. eapply hoare_bind; [apply file_is_adv_head|]. intros adv.
  apply hst_of. intros f [[Wf Hh] Hn]. apply hst_get. pose proof (wf_file_fwf f Wf) as W.
  destruct adv; cbn [negb].
  - eapply hst_ro_end; [apply (create_file_adv_safe f W)|exact Wf|]. intros _ _. split; assumption.
  - eapply hst_ro_end; [apply (create_body_nonadv_safe f W (Hn eq_refl))|exact Wf|]. intros _ _. split; assumption.
Qed.

Lemma file_create_inv : hoare WF file_create (fun _ => WF) WF.
Proof. eapply hoare_conseq; [apply file_create_head| | |]; auto. intros a s [Hs _]. exact Hs. Qed.

Lemma file_write_inv bypass : hoare WF (file_write bypass) (fun _ => WF) WF.
Proof.
  unfold file_write.
  eapply hoare_bind with (Q := fun _ => WF).
  { destruct bypass; cbn [negb when]; [apply hoare_ret; auto|apply file_validate_inv]. }
  intros ?. eapply hoare_bind; [apply hoare_check|]. intros ?.
  eapply hoare_bind; [apply file_is_adv_inv|]. intros adv.
  apply hst_of. intros f [Wf _]. apply hst_get.
  eapply hst_ro_end; [apply (write_body_safe f (wf_file_fwf f Wf))|exact Wf|]. intros _ _. exact Wf.
Qed.

Lemma each_batch_inv (m : M batch unit) : hoare WB m (fun _ => WB) WB -> hoare WF (each_batch m) (fun _ => WF) WF.
Proof.
  intros H. unfold each_batch.
  eapply hoare_zoom with (P' := Forall (fun x => exists t, x = Some t /\ WB t))
                         (Q' := fun _ => Forall (fun x => exists t, x = Some t /\ WB t))
                         (E' := Forall (fun x => exists t, x = Some t /\ WB t)).
  - apply hoare_traverse. apply hoare_on_some. exact H.
  - intros s Hs. exact (WF_batches s Hs).
  - intros s [] t Hs Ht. exact (WF_intro _ _ Ht (WF_iat s Hs)).
  - intros s t Hs Ht. exact (WF_intro _ _ Ht (WF_iat s Hs)).
Qed.

Lemma each_present_batch_inv (m : M batch unit) : hoare WB m (fun _ => WB) WB -> hoare WF (each_present_batch m) (fun _ => WF) WF.
Proof.
  intros H. unfold each_present_batch.
  eapply hoare_zoom with (P' := Forall (fun x => exists t, x = Some t /\ WB t))
                         (Q' := fun _ => Forall (fun x => exists t, x = Some t /\ WB t))
                         (E' := Forall (fun x => exists t, x = Some t /\ WB t)).
  - apply hoare_traverse. intros x o (t & -> & Ht).
    exact (hoare_on_some m WB (fun _ => WB) WB H (Some t) o (ex_intro _ t (conj eq_refl Ht))).
  - intros s Hs. exact (WF_batches s Hs).
  - intros s [] t Hs Ht. exact (WF_intro _ _ Ht (WF_iat s Hs)).
  - intros s t Hs Ht. exact (WF_intro _ _ Ht (WF_iat s Hs)).
Qed.

Lemma each_iat_inv (m : M iat_batch unit) : hoare WI m (fun _ => WI) WI -> hoare WF (each_iat m) (fun _ => WF) WF.
Proof.
  intros H. unfold each_iat.
  eapply hoare_zoom with (P' := Forall WI) (Q' := fun _ => Forall WI) (E' := Forall WI).
  - apply hoare_traverse. exact H.
  - intros s Hs. exact (WF_iat s Hs).
  - intros s [] t Hs Ht. exact (WF_intro _ _ (WF_batches s Hs) Ht).
  - intros s t Hs Ht. exact (WF_intro _ _ (WF_batches s Hs) Ht).
Qed.

Lemma file_reversal_inv : hoare WF file_reversal (fun _ => WF) WF.
Proof.
  unfold file_reversal. eapply hoare_bind; [apply each_batch_inv; apply reversal_batch_inv|].
  intros ?. apply file_create_inv.
Qed.

Lemma batches_create_inv : hoare WF batches_create (fun _ => WF) WF.
Proof.
  unfold batches_create. eapply hoare_bind.
  - apply each_present_batch_inv. eapply hoare_try; [apply batch_create_inv|auto].
  - intros ?. apply each_iat_inv. eapply hoare_try; [apply iat_create_inv|auto].
Qed.

Lemma batches_validate_inv : hoare WF batches_validate (fun _ => WF) WF.
Proof.
  unfold batches_validate. apply hst_of. intros f Wf. apply hst_get. pose proof (wf_file_fwf f Wf) as W.
  eapply hst_ro_end with (P := top); [|exact Wf|intros _ _; exact Wf].
  apply safe_bind_unit.
  - apply safe_forM. intros ob Hin. destruct (fw_b _ W ob Hin) as (b & h & -> & Wb).
    apply safe_try. exact (batch_validate_safe _ _ Wb).
  - apply (for_iat_safe f W). intros b h Hin Wi. apply safe_try. exact (iat_validate_safe _ _ Wi).
Qed.

(* ------------------------------------------------------------------ *)
(* operations that build new files: the files they build are well-formed *)

Definition OB (ob : option batch) : Prop := match ob with None => True | Some c => WB c end.

Definition wfe (l : list (option entry)) : Prop :=
  forall oe, In oe l -> exists e, oe = Some e /\ all_true (e_a05 e) = true.
Definition wfa (l : list (option adv_entry)) : Prop := forall oa, In oa l -> exists a, oa = Some a.

Lemma wfe_app l1 l2 : wfe l1 -> wfe l2 -> wfe (l1 ++ l2).
Proof. intros H1 H2 oe Hin. apply in_app_or in Hin as [Hin|Hin]; auto. Qed.
Lemma wfa_app l1 l2 : wfa l1 -> wfa l2 -> wfa (l1 ++ l2).
Proof. intros H1 H2 oe Hin. apply in_app_or in Hin as [Hin|Hin]; auto. Qed.
Lemma wfe_tail x l : wfe (x :: l) -> wfe l.
Proof. intros H oe Hin. apply H. right. exact Hin. Qed.
Lemma wfa_tail x l : wfa (x :: l) -> wfa l.
Proof. intros H oe Hin. apply H. right. exact Hin. Qed.
Lemma wfe_one e : wfe [Some e] -> all_true (e_a05 e) = true.
Proof. intros H. destruct (H (Some e)) as (e0 & [= <-] & He); [left; reflexivity|exact He]. Qed.

Lemma new_batch_WB h : (strict = true -> sec_valid (h_sec h) = true) -> OB (new_batch h).
Proof.
  intros Hs. unfold new_batch. destruct (sec_valid (h_sec h)) eqn:Hv; [|exact I].
  cbn. apply (bwf_wf_batch _ h). split; cbn; auto.
  - destruct (sec_eqb (h_sec h) ADV); reflexivity.
  - intros ? [].
  - intros ? [].
Qed.

Lemma WB_set_entries c es : WB c -> wfe es -> WB (set_entries es c).
Proof. intros Wc Hes. destruct (wf_batch_bwf c Wc) as (h & W). exact (bwf_wf_batch _ _ (bwf_set_entries _ _ es W Hes)). Qed.

Lemma WB_set_adventries c es : WB c -> wfa es -> WB (set_adventries es c).
Proof.
  intros Wc Hes. destruct (wf_batch_bwf c Wc) as (h & [Hh Hc He Ha Hs]). apply (bwf_wf_batch _ h). split; cbn; assumption.
Qed.

Lemma WB_entries c : WB c -> wfe (b_entries c).
Proof. intros Wc. destruct (wf_batch_bwf c Wc) as (h & W). exact (bw_e _ _ W). Qed.
Lemma WB_adventries c : WB c -> wfa (b_adventries c).
Proof. intros Wc. destruct (wf_batch_bwf c Wc) as (h & W). exact (bw_a _ _ W). Qed.

Lemma split_entries_safe l cb db :
  wfe l -> OB cb -> OB db -> safe (split_entries l cb db) (fun r => OB (fst r) /\ OB (snd r)).
Proof.
  revert cb db. induction l as [|[e|] t IH]; intros cb db Hl Hc Hd; cbn [split_entries].
  - apply safe_ret. split; assumption.
  - assert (He : wfe [Some e]) by (intros oe [<-|[]]; apply Hl; left; reflexivity).
    destruct (is_credit (e_code e)).
    + destruct cb as [c|]; [|apply safe_fail].
      apply IH; [exact (wfe_tail _ _ Hl)| |exact Hd].
      cbn. apply WB_set_entries; [exact Hc|]. apply wfe_app; [exact (WB_entries c Hc)|exact He].
    + destruct (is_debit (e_code e)).
      * destruct db as [d|]; [|apply safe_fail].
        apply IH; [exact (wfe_tail _ _ Hl)|exact Hc|].
        cbn. apply WB_set_entries; [exact Hd|]. apply wfe_app; [exact (WB_entries d Hd)|exact He].
      * apply IH; [exact (wfe_tail _ _ Hl)|exact Hc|exact Hd].
  - destruct (Hl None) as (? & ? & _); [left; reflexivity|discriminate].
Qed.

Lemma split_adv_entries_safe l cb db :
  wfa l -> OB cb -> OB db -> safe (split_adv_entries l cb db) (fun r => OB (fst r) /\ OB (snd r)).
Proof.
  revert cb db. induction l as [|[e|] t IH]; intros cb db Hl Hc Hd; cbn [split_adv_entries].
  - apply safe_ret. split; assumption.
  - assert (He : wfa [Some e]) by (intros oe [<-|[]]; eauto).
    destruct (adv_is_credit (ae_code e)).
    + destruct cb as [c|]; [|apply safe_fail].
      apply IH; [exact (wfa_tail _ _ Hl)| |exact Hd].
      cbn. apply WB_set_adventries; [exact Hc|]. apply wfa_app; [exact (WB_adventries c Hc)|exact He].
    + destruct (adv_is_debit (ae_code e)).
      * destruct db as [d|]; [|apply safe_fail].
        apply IH; [exact (wfa_tail _ _ Hl)|exact Hc|].
        cbn. apply WB_set_adventries; [exact Hd|]. apply wfa_app; [exact (WB_adventries d Hd)|exact He].
      * apply IH; [exact (wfa_tail _ _ Hl)|exact Hc|exact Hd].
  - destruct (Hl None) as (? & ?); [left; reflexivity|discriminate].
Qed.

Lemma WF_add_batch c f : WB c -> WF f -> WF (set_batches (f_batches f ++ [Some c]) f).
Proof.
  intros Wc Wf. apply WF_intro; [|exact (WF_iat f Wf)].
  apply Forall_app. split; [exact (WF_batches f Wf)|]. constructor; [eauto|constructor].
Qed.

Lemma WF_add_iat b f : WI b -> WF f -> WF (add_iat b f).
Proof.
  intros Wb Wf. apply WF_intro; [exact (WF_batches f Wf)|].
  apply Forall_app. split; [exact (WF_iat f Wf)|]. constructor; [exact Wb|constructor].
Qed.

Lemma WF_new_file : WF new_file.
Proof. reflexivity. Qed.

Lemma add_batch_safe ob f : OB ob -> WF f -> safe (add_batch ob f) WF.
Proof.
  intros Ho Wf. destruct ob as [c|]; cbn [add_batch]; [|apply safe_ret; exact Wf].
  destruct (wf_batch_bwf c Ho) as (h & W).
  apply safe_bind_unit; [apply (batch_category_safe _ _ W)|]. apply safe_ret. exact (WF_add_batch c f Ho Wf).
Qed.

Lemma create_and_add_safe ne ob f : OB ob -> WF f -> safe (create_and_add ne ob f) WF.
Proof.
  intros Ho Wf. destruct ob as [c|]; cbn [create_and_add]; [|apply safe_ret; exact Wf].
  destruct ne; [|apply safe_ret; exact Wf].
  eapply safe_bind; [apply (safe_local_try c batch_create WB (fun _ => WB) WB batch_create_inv Ho)|].
  intros [ok c'] Hc'. cbn [fst snd] in *. apply add_batch_safe; [|exact Wf]. destruct ok; exact Hc'.
Qed.

Lemma segment_batch_safe b cf df : WB b -> WF cf -> WF df ->
  safe (segment_batch b cf df) (fun r => WF (fst r) /\ WF (snd r)).
Proof.
  intros Wb Wc Wd. destruct (wf_batch_bwf b Wb) as (h & W). unfold segment_batch. bstep W.
  assert (Hnb : forall c, OB (new_batch (mkheader (h_sec h) c))) by (intros c; apply new_batch_WB; exact (bw_s _ _ W)).
  destruct (sec_eqb (h_sec h) ADV).
  - destruct (h_scc h); try (apply safe_ret; split; assumption).
    eapply safe_bind; [apply split_adv_entries_safe; [exact (bw_a _ _ W)|apply Hnb|apply Hnb]|].
    intros [cb db] [Hcb Hdb]. cbn [fst snd] in *.
    eapply safe_bind; [apply create_and_add_safe; [exact Hcb|exact Wc]|]. intros cf' Wcf'.
    eapply safe_bind; [apply create_and_add_safe; [exact Hdb|exact Wd]|]. intros df' Wdf'.
    apply safe_ret. split; assumption.
  - destruct (h_scc h); try (apply safe_ret; split; assumption).
    + eapply safe_bind; [apply split_entries_safe; [exact (bw_e _ _ W)|apply Hnb|apply Hnb]|].
      intros [cb db] [Hcb Hdb]. cbn [fst snd] in *.
      eapply safe_bind; [apply create_and_add_safe; [exact Hcb|exact Wc]|]. intros cf' Wcf'.
      eapply safe_bind; [apply create_and_add_safe; [exact Hdb|exact Wd]|]. intros df' Wdf'.
      apply safe_ret. split; assumption.
    + eapply safe_bind; [apply (add_batch_safe (Some b)); [exact Wb|exact Wc]|]. intros cf' Wcf'.
      apply safe_ret. split; assumption.
    + eapply safe_bind; [apply (add_batch_safe (Some b)); [exact Wb|exact Wd]|]. intros df' Wdf'.
      apply safe_ret. split; assumption.
Qed.

Lemma segment_batches_safe l cf df :
  Forall (fun x => exists t, x = Some t /\ WB t) l -> WF cf -> WF df ->
  safe (segment_batches l cf df) (fun r => WF (fst r) /\ WF (snd r)).
Proof.
  revert cf df. induction l as [|x t IH]; intros cf df Hl Wc Wd; cbn [segment_batches].
  - apply safe_ret. split; assumption.
  - inversion Hl as [|? ? (b & -> & Wb) Ht]; subst.
    eapply safe_bind; [apply segment_batch_safe; assumption|]. intros [c d] [Hc Hd]. cbn [fst snd] in *.
    apply IH; assumption.
Qed.

Lemma new_iat_batch_WI h : WI (new_iat_batch h).
Proof. reflexivity. Qed.

Definition wfi (l : list (option iat_entry)) : Prop :=
  forall oe, In oe l -> exists e, oe = Some e /\ all_true (ie_a17 e) = true /\ all_true (ie_a18 e) = true.

Lemma WI_entries b : WI b -> wfi (ib_entries b).
Proof. intros Wb. destruct (wf_iat_iwf b Wb) as (h & W). exact (iw_e _ _ W). Qed.

Lemma WI_set_entries b es : WI b -> wfi es -> WI (set_ib_entries es b).
Proof.
  intros Wb Hes. destruct (wf_iat_iwf b Wb) as (h & [Hh Hc He]). apply (iwf_wf_iat _ h). split; cbn; assumption.
Qed.

Lemma split_iat_entries_safe l cb db :
  wfi l -> WI cb -> WI db -> safe (split_iat_entries l cb db) (fun r => WI (fst r) /\ WI (snd r)).
Proof.
  revert cb db. induction l as [|[e|] t IH]; intros cb db Hl Hc Hd; cbn [split_iat_entries].
  - apply safe_ret. split; assumption.
  - assert (Ht : wfi t) by (intros oe Hin; apply Hl; right; exact Hin).
    assert (He : wfi [Some e]) by (intros oe [<-|[]]; apply Hl; left; reflexivity).
    destruct (is_credit (ie_code e)).
    + apply IH; [exact Ht| |exact Hd]. apply WI_set_entries; [exact Hc|].
      intros oe Hin. apply in_app_or in Hin as [Hin|Hin]; [exact (WI_entries cb Hc oe Hin)|exact (He oe Hin)].
    + destruct (is_debit (ie_code e)).
      * apply IH; [exact Ht|exact Hc|]. apply WI_set_entries; [exact Hd|].
        intros oe Hin. apply in_app_or in Hin as [Hin|Hin]; [exact (WI_entries db Hd oe Hin)|exact (He oe Hin)].
      * apply IH; assumption.
  - destruct (Hl None) as (? & ? & _); [left; reflexivity|discriminate].
Qed.

Lemma iat_create_and_add_safe b f : WI b -> WF f -> safe (iat_create_and_add b f) WF.
Proof.
  intros Wb Wf. unfold iat_create_and_add. destruct (nonempty (ib_entries b)); [|apply safe_ret; exact Wf].
  eapply safe_bind; [apply (safe_local_try b iat_create WI (fun _ => WI) WI iat_create_inv Wb)|].
  intros [ok b'] Hb'. cbn [fst snd] in *. apply safe_ret. apply WF_add_iat; [|exact Wf]. destruct ok; exact Hb'.
Qed.

Lemma segment_iat_safe l cf df :
  Forall WI l -> WF cf -> WF df -> safe (segment_iat l cf df) (fun r => WF (fst r) /\ WF (snd r)).
Proof.
  revert cf df. induction l as [|b t IH]; intros cf df Hl Wc Wd; cbn [segment_iat].
  - apply safe_ret. split; assumption.
  - inversion Hl as [|? ? Wb Ht]; subst. destruct (wf_iat_iwf b Wb) as (h & W).
    istep W.
    eapply safe_bind with (Q := fun r => WF (fst r) /\ WF (snd r)); [|intros [c d] [Hc Hd]; apply IH; assumption].
    destruct (ih_scc h); try (apply safe_ret; split; assumption).
    + eapply safe_bind; [apply split_iat_entries_safe; [exact (iw_e _ _ W)|apply new_iat_batch_WI|apply new_iat_batch_WI]|].
      intros [cb db] [Hcb Hdb]. cbn [fst snd] in *.
      eapply safe_bind; [apply iat_create_and_add_safe; [exact Hcb|exact Wc]|]. intros cf' Wcf'.
      eapply safe_bind; [apply iat_create_and_add_safe; [exact Hdb|exact Wd]|]. intros df' Wdf'.
      apply safe_ret. split; assumption.
    + apply safe_ret. split; [apply WF_add_iat; assumption|exact Wd].
    + apply safe_ret. split; [exact Wc|apply WF_add_iat; assumption].
Qed.

Lemma create_validate_inv : hoare WF (file_create ;; file_validate) (fun _ => WF) WF.
Proof. eapply hoare_bind; [apply file_create_inv|]. intros ?. apply file_validate_inv. Qed.

Lemma finish_file_safe f : WF f -> safe (finish_file f) WF.
Proof.
  intros Wf. unfold finish_file. destruct (nonempty_file f); [|apply safe_ret; exact Wf].
  eapply safe_bind; [apply (safe_local f _ WF (fun _ => WF) WF create_validate_inv Wf)|].
  intros [[] f'] Hf'. apply safe_ret. exact Hf'.
Qed.

Lemma file_segment_inv : hoare WF file_segment (fun r f => WF f /\ WF (fst r) /\ WF (snd r)) WF.
Proof.
  unfold file_segment. eapply hoare_bind; [apply file_validate_inv|]. intros ?.
  apply hst_of. intros f Wf. apply hst_get.
  eapply hst_ro_end with (P := fun r => WF (fst r) /\ WF (snd r)); [|exact Wf|intros r Hr; split; [exact Wf|exact Hr]].
  eapply safe_bind; [apply segment_batches_safe; [exact (WF_batches f Wf)|exact WF_new_file|exact WF_new_file]|].
  intros [c d] [Hc Hd]. cbn [fst snd] in *.
  eapply safe_bind; [apply segment_iat_safe; [exact (WF_iat f Wf)|exact Hc|exact Hd]|].
  intros [c' d'] [Hc' Hd']. cbn [fst snd] in *.
  eapply safe_bind; [apply finish_file_safe; exact Hc'|]. intros c'' Hc''.
  eapply safe_bind; [apply finish_file_safe; exact Hd'|]. intros d'' Hd''.
  apply safe_ret. split; assumption.
Qed.

(* ---- Flatten *)

Lemma copy_batch_WB h : (strict = true -> sec_valid (h_sec h) = true) -> WB (copy_batch h).
Proof.
  intros Hs. unfold copy_batch. pose proof (new_batch_WB h Hs) as Hnb.
  destruct (new_batch h) as [nb|] eqn:E; [exact Hnb|].
  unfold new_batch in E. destruct (sec_valid (h_sec h)) eqn:Hv; [discriminate|].
  apply (bwf_wf_batch _ h). split; cbn [b_header b_control b_adv b_entries b_adventries].
  - reflexivity.
  - destruct (sec_eqb (h_sec h) ADV) eqn:Ea; [|reflexivity].
    exfalso. destruct (h_sec h); cbn in Hv, Ea; congruence.
  - intros ? [].
  - intros ? [].
  - intros Hst. specialize (Hs Hst). rewrite Hv. exact Hs.
Qed.

Lemma all_some_safe {A} (l : list (option A)) : (forall x, In x l -> exists a, x = Some a) -> safe (all_some l) top.
Proof.
  intros H. unfold all_some. apply safe_forM. intros x Hin. destruct (H x Hin) as (a & ->). apply safe_ret. exact I.
Qed.

Lemma wfe_some l : wfe l -> forall x, In x l -> exists a, x = Some a.
Proof. intros H x Hin. destruct (H x Hin) as (e & -> & _). eauto. Qed.
Lemma wfi_some l : wfi l -> forall x, In x l -> exists a, x = Some a.
Proof. intros H x Hin. destruct (H x Hin) as (e & -> & _). eauto. Qed.

Lemma wfe_present l : wfe l -> wfe (present_entries l).
Proof. intros H oe Hin. unfold present_entries in Hin. apply filter_In in Hin as [Hin _]. exact (H oe Hin). Qed.

Lemma consume_into_safe b outs :
  WB b -> Forall WB outs ->
  safe (consume_into b outs) (fun r => match r with Some outs' => Forall WB outs' | None => True end).
Proof.
  intros Wb. induction outs as [|x t IH]; intros Ho; cbn [consume_into].
  - apply safe_ret. exact I.
  - inversion Ho as [|? ? Wx Wt]; subst.
    assert (Hrec : safe (r <- consume_into b t ;; ret (option_map (cons x) r))
                        (fun r => match r with Some outs' => Forall WB outs' | None => True end)).
    { eapply safe_bind; [apply IH; exact Wt|]. intros [r|] Hr; apply safe_ret; cbn; [constructor; assumption|exact I]. }
    destruct (same_header b x); [|exact Hrec].
    apply safe_bind_flip. intros [|]; [exact Hrec|].
    apply safe_ret. constructor; [|exact Wt].
    apply WB_set_adventries.
    + apply WB_set_entries; [exact Wx|]. apply wfe_app; [exact (WB_entries x Wx)|exact (wfe_present _ (WB_entries b Wb))].
    + cbn. apply wfa_app; [exact (WB_adventries x Wx)|exact (WB_adventries b Wb)].
Qed.

Lemma flatten_batches_safe l outs :
  Forall (fun x => exists t, x = Some t /\ WB t) l -> Forall WB outs ->
  safe (flatten_batches l outs) (Forall WB).
Proof.
  revert outs. induction l as [|x t IH]; intros outs Hl Ho; cbn [flatten_batches].
  - apply safe_ret. exact Ho.
  - inversion Hl as [|? ? (b & -> & Wb) Ht]; subst. destruct (wf_batch_bwf b Wb) as (h & W).
    bstep W. apply safe_bind_flip. intros nomatch.
    eapply safe_bind with (Q := fun r => match r with Some outs' => Forall WB outs' | None => True end).
    { destruct (nomatch || negb (existsb (same_header b) outs)); [apply safe_ret; exact I|].
      apply safe_bind_unit; [apply all_some_safe; exact (wfe_some _ (bw_e _ _ W))|].
      apply consume_into_safe; assumption. }
    intros [outs'|] Hr.
    + apply safe_bind_unit; [apply all_some_safe; exact (bw_a _ _ W)|]. apply IH; assumption.
    + pose proof (copy_batch_WB h (bw_s _ _ W)) as Hnb.
      apply safe_bind_unit; [apply all_some_safe; exact (bw_a _ _ W)|].
      apply IH; [exact Ht|]. apply Forall_app. split; [exact Ho|]. constructor; [|constructor].
      apply WB_set_adventries; [|exact (bw_a _ _ W)].
      apply WB_set_entries; [exact Hnb|exact (wfe_present _ (bw_e _ _ W))].
Qed.

Lemma flatten_iat_safe l outs : Forall WI l -> Forall WI outs -> safe (flatten_iat l outs) (Forall WI).
Proof.
  revert outs. induction l as [|b t IH]; intros outs Hl Ho; cbn [flatten_iat].
  - apply safe_ret. exact Ho.
  - inversion Hl as [|? ? Wb Ht]; subst. destruct (wf_iat_iwf b Wb) as (h & W).
    istep W. apply safe_bind_unit; [apply all_some_safe; exact (wfi_some _ (iw_e _ _ W))|].
    apply IH; [exact Ht|]. apply Forall_app. split; [exact Ho|]. constructor; [|constructor].
    apply (iwf_wf_iat _ h). split; cbn; [reflexivity|reflexivity|exact (iw_e _ _ W)].
Qed.

Lemma add_flattened_safe l nf : Forall WB l -> WF nf -> safe (add_flattened l nf) WF.
Proof.
  revert nf. induction l as [|b t IH]; intros nf Hl Wn; cbn [add_flattened].
  - apply safe_ret. exact Wn.
  - inversion Hl as [|? ? Wb Ht]; subst.
    eapply safe_bind; [apply (safe_local_try b batch_create WB (fun _ => WB) WB batch_create_inv Wb)|].
    intros [ok b'] Hb'. cbn [fst snd] in *. destruct ok.
    + eapply safe_bind; [apply (add_batch_safe (Some b')); [exact Hb'|exact Wn]|]. intros nf' Wn'. apply IH; assumption.
    + apply IH; assumption.
Qed.

Lemma add_flattened_iat_safe l nf : Forall WI l -> WF nf -> safe (add_flattened_iat l nf) WF.
Proof.
  revert nf. induction l as [|b t IH]; intros nf Hl Wn; cbn [add_flattened_iat].
  - apply safe_ret. exact Wn.
  - inversion Hl as [|? ? Wb Ht]; subst.
    eapply safe_bind; [apply (safe_local_try b iat_create WI (fun _ => WI) WI iat_create_inv Wb)|].
    intros [ok b'] Hb'. cbn [fst snd] in *. destruct ok.
    + apply IH; [exact Ht|]. apply WF_add_iat; assumption.
    + apply IH; assumption.
Qed.

Lemma file_flatten_safe f : WF f -> safe (file_flatten f) WF.
Proof.
  intros Wf. unfold file_flatten.
  apply safe_bind_unit.
  { apply safe_when. intros _. apply all_some_safe. intros x Hin.
    pose proof (WF_batches f Wf) as Hb. rewrite Forall_forall in Hb. destruct (Hb x Hin) as (b & -> & _). eauto. }
  eapply safe_bind; [apply flatten_batches_safe; [exact (WF_batches f Wf)|constructor]|]. intros outs Ho.
  eapply safe_bind; [apply flatten_iat_safe; [exact (WF_iat f Wf)|constructor]|]. intros iouts Hi.
  eapply safe_bind; [apply add_flattened_safe; [exact Ho|exact WF_new_file]|]. intros nf Wn.
  eapply safe_bind; [apply add_flattened_iat_safe; [exact Hi|exact Wn]|]. intros nf' Wn'.
  eapply safe_bind; [apply (safe_local nf' _ WF (fun _ => WF) WF create_validate_inv Wn')|].
  intros [[] nf''] Hn''. cbn [fst snd] in Hn''.
  repeat apply safe_bind_check. apply safe_ret. exact Hn''.
Qed.

(* ---- MergeFiles *)

(* a merged batch before NewBatch: header and well-formed entries *)
Definition MB (b : batch) : Prop :=
  exists h, b_header b = Some h /\ wfe (b_entries b) /\ (strict = true -> sec_valid (h_sec h) = true).

Lemma merge_add_safe l outs :
  Forall (fun x => exists t, x = Some t /\ WB t) l -> Forall MB outs -> safe (merge_add l outs) (Forall MB).
Proof.
  revert outs. induction l as [|x t IH]; intros outs Hl Ho; cbn [merge_add].
  - apply safe_ret. exact Ho.
  - inversion Hl as [|? ? (b & -> & Wb) Ht]; subst. destruct (wf_batch_bwf b Wb) as (h & W).
    rewrite (bw_h _ _ W).
    apply safe_bind_unit; [apply all_some_safe; exact (wfe_some _ (bw_e _ _ W))|].
    destruct (b_entries b) as [|e es] eqn:He; [apply IH; assumption|].
    apply IH; [exact Ht|]. apply Forall_app. split; [exact Ho|]. constructor; [|constructor].
    exists h. cbn. split; [reflexivity|]. split; [rewrite <- He; exact (bw_e _ _ W)|exact (bw_s _ _ W)].
Qed.

Lemma merge_files_add_safe l outs :
  Forall (fun x => exists f, x = Some f /\ WF f) l -> Forall MB outs -> safe (merge_files_add l outs) (Forall MB).
Proof.
  revert outs. induction l as [|x t IH]; intros outs Hl Ho; cbn [merge_files_add].
  - apply safe_ret. exact Ho.
  - inversion Hl as [|? ? (f & -> & Wf) Ht]; subst.
    eapply safe_bind; [apply merge_add_safe; [exact (WF_batches f Wf)|exact Ho]|]. intros outs' Ho'.
    apply IH; assumption.
Qed.

Lemma merge_convert_safe l nf : Forall MB l -> WF nf -> safe (merge_convert l nf) WF.
Proof.
  revert nf. induction l as [|b t IH]; intros nf Hl Wn; cbn [merge_convert].
  - apply safe_ret. exact Wn.
  - inversion Hl as [|? ? (h & Hh & He & Hs) Ht]; subst.
    unfold header_of. rewrite Hh. apply safe_bind_ret.
    pose proof (new_batch_WB h Hs) as Hnb.
    destruct (new_batch h) as [nb|]; [|apply safe_fail]. cbn [OB] in Hnb.
    eapply safe_bind.
    { apply (safe_local (set_entries (b_entries b) nb) batch_create WB (fun _ => WB) WB batch_create_inv).
      apply WB_set_entries; assumption. }
    intros [[] nb'] Hnb'. cbn [fst snd] in Hnb'.
    eapply safe_bind; [apply (add_batch_safe (Some nb')); [exact Hnb'|exact Wn]|]. intros nf' Wn'.
    apply IH; assumption.
Qed.

Lemma merge_files_safe fs :
  Forall (fun x => exists f, x = Some f /\ WF f) fs ->
  safe (merge_files fs) (fun r => match r with Some g => WF g | None => True end).
Proof.
  intros Hl. unfold merge_files. destruct fs as [|x t]; [apply safe_ret; exact I|].
  inversion Hl as [|? ? (f & -> & Wf) Ht]; subst.
  eapply safe_bind; [apply merge_files_add_safe; [exact Hl|constructor]|]. intros outs Ho.
  eapply safe_bind; [apply merge_convert_safe; [exact Ho|exact WF_new_file]|]. intros nf Wn.
  destruct (f_batches nf); [apply safe_ret; exact I|].
  eapply safe_bind; [apply (safe_local nf file_create WF (fun _ => WF) WF file_create_inv Wn)|].
  intros [[] g] Hg. apply safe_ret. exact Hg.
Qed.

(* ------------------------------------------------------------------ *)
(* every operation keeps a well-formed file well-formed and never panics (FlattenBatches needed [strict] until
   mergeableBatcher.Copy stopped dropping the error of NewBatch) *)

Lemma run_op_inv x : hoare WF (run_op x) (fun _ => WF) WF.
Proof.
  destruct x; cbn [run_op].
  - apply file_validate_inv.
  - apply file_create_inv.
  - apply file_write_inv.
  - apply file_write_inv.
  - unfold file_marshal. apply hoare_check.
  - eapply hoare_bind; [apply file_segment_inv|]. intros r. apply hoare_ret. intros s [Hs _]. exact Hs.
  - apply hst_of. intros f Wf. apply hst_get.
    eapply hst_ro; [apply (file_flatten_safe f Wf)|exact Wf|]. intros _ _. apply hst_ret. exact Wf.
  - apply hst_of. intros f Wf. apply hst_get.
    eapply hst_ro; [apply (merge_files_safe [Some f])|exact Wf|].
    + constructor; [eauto|constructor].
    + intros _ _. apply hst_ret. exact Wf.
  - apply file_reversal_inv.
  - apply batches_create_inv.
  - apply batches_validate_inv.
Qed.

Lemma run_ops_inv xs : hoare WF (run_ops xs) (fun _ => WF) WF.
Proof.
  induction xs as [|x t IH]; cbn [run_ops].
  - apply hoare_ret. auto.
  - eapply hoare_bind; [eapply hoare_try; [apply run_op_inv|auto]|]. intros ?. apply IH.
Qed.

(* … also when every operation continues on the file the previous one returned *)
Lemma run_op_result_inv x : hoare WF (run_op_result x) (fun _ => WF) WF.
Proof.
  destruct x; cbn [run_op_result]; try (apply run_op_inv).
  - eapply hoare_bind; [apply file_segment_inv|]. intros r.
    intros s o (_ & Hc & _). exact Hc.
  - apply hst_of. intros f Wf. apply hst_get.
    eapply hst_ro; [apply (file_flatten_safe f Wf)|exact Wf|]. intros g Wg. apply hst_put_end. exact Wg.
  - apply hst_of. intros f Wf. apply hst_get.
    eapply hst_ro; [apply (merge_files_safe [Some f])|exact Wf|].
    + constructor; [eauto|constructor].
    + intros [g|] Wg; [apply hst_put_end; exact Wg|apply hst_ret; exact Wf].
Qed.

Lemma run_ops_result_inv xs : hoare WF (run_ops_result xs) (fun _ => WF) WF.
Proof.
  induction xs as [|x t IH]; cbn [run_ops_result].
  - apply hoare_ret. auto.
  - eapply hoare_bind; [eapply hoare_try; [apply run_op_result_inv|auto]|]. intros ?. apply IH.
Qed.

End Strict.

(* ------------------------------------------------------------------ *)
(* The totality theorems *)

Lemma hoare_no_panic {S A} (P : S -> Prop) (m : M S A) Q E s o : hoare P m Q E -> P s -> panics (m s o) = false.
Proof. intros H Hs. specialize (H s o Hs). destruct (m s o); [reflexivity|reflexivity|contradiction]. Qed.

(* call sequences without FlattenBatches on a well-formed file, every oracle *)
Theorem ops_total_wf f xs o :
  wf_file f = true -> ~ In OFlatten xs -> panics (run_ops xs f o) = false.
Proof.
  intros Wf Hx. eapply (hoare_no_panic (WF false)); [apply run_ops_inv|exact Wf].
Qed.

(* every call sequence, FlattenBatches included, on a well-formed file *)
Theorem ops_total_all f xs o : wf_file f = true -> panics (run_ops xs f o) = false.
Proof. intros Wf. eapply (hoare_no_panic (WF false)); [apply run_ops_inv|exact Wf]. Qed.

Theorem ops_result_total_all f xs o : wf_file f = true -> panics (run_ops_result xs f o) = false.
Proof. intros Wf. eapply (hoare_no_panic (WF false)); [apply run_ops_result_inv|exact Wf]. Qed.

(* all operations when moreover every SEC code is one NewBatch accepts *)
Theorem ops_total_strict f xs o : wf_file_strict f = true -> panics (run_ops xs f o) = false.
Proof.
  intros Wf. eapply (hoare_no_panic (WF true)); [apply run_ops_inv|exact Wf].
Qed.

Theorem ops_result_total_strict f xs o : wf_file_strict f = true -> panics (run_ops_result xs f o) = false.
Proof.
  intros Wf. eapply (hoare_no_panic (WF true)); [apply run_ops_result_inv|exact Wf].
Qed.

Theorem ops_result_total_wf f xs o :
  wf_file f = true -> ~ In OFlatten xs -> panics (run_ops_result xs f o) = false.
Proof.
  intros Wf Hx. eapply (hoare_no_panic (WF false)); [apply run_ops_result_inv|exact Wf].
Qed.

(* ------------------------------------------------------------------ *)
(* the classes of ill-formed shapes are exhaustive: a shape in no class is well-formed *)

Lemma first_class_wf l : first_class l = ShWf -> forall c, In c l -> c = ShWf.
Proof.
  induction l as [|x t IH]; intros H c Hin; [destruct Hin|].
  cbn in H. destruct x; try discriminate H; destruct Hin as [<-|Hin]; try reflexivity; apply IH; assumption.
Qed.

Lemma batch_class_wf b : batch_class b = ShWf -> wf_batch b = true.
Proof.
  unfold batch_class, wf_batch, wf_batch_s. destruct (b_header b) as [h|]; [|discriminate].
  destruct (if sec_eqb (h_sec h) ADV then b_adv b else b_control b); cbn [negb]; [|discriminate].
  destruct (forallb present (b_entries b) && forallb present (b_adventries b)) eqn:Hp; cbn [negb]; [|discriminate].
  destruct (wf_entries (b_entries b)) eqn:He; cbn [negb]; [|discriminate].
  intros _. apply andb_prop in Hp as [_ Ha]. rewrite Ha. reflexivity.
Qed.

Lemma iat_class_wf b : iat_class b = ShWf -> wf_iat b = true.
Proof.
  unfold iat_class. destruct (present (ib_header b)); cbn [negb]; [|discriminate].
  destruct (ib_control b); cbn [negb]; [|discriminate].
  destruct (forallb present (ib_entries b)); cbn [negb]; [|discriminate].
  destruct (wf_iat b); cbn [negb]; [reflexivity|discriminate].
Qed.

Theorem file_class_wf f : file_class f = ShWf -> wf_file f = true.
Proof.
  intros H. unfold file_class in H. pose proof (first_class_wf _ H) as Hall.
  unfold wf_file, wf_file_s. apply andb_true_intro. split; apply forallb_forall.
  - intros ob Hin. destruct ob as [b|].
    + apply batch_class_wf. apply Hall. apply in_or_app. left. apply in_map_iff. exists (Some b). auto.
    + specialize (Hall ShNilBatcher). discriminate Hall. apply in_or_app. left. apply in_map_iff. exists None. auto.
  - intros ib Hin. apply iat_class_wf. apply Hall. apply in_or_app. right. apply in_map. exact Hin.
Qed.

(* C15 — proofs about the generic option-guard model (Model/OptMono.v). *)
From Coq Require Import List Bool String Arith Lia.
Import ListNotations.
From ACH Require Import OptMono.

(* ---------------------------------------------------------------- flags *)
Lemma flag_idx_inj a b : flag_idx a = flag_idx b -> a = b.
Proof. destruct a, b; cbn; intros H; try reflexivity; discriminate H. Qed.

Lemma flag_eqb_eq a b : flag_eqb a b = true <-> a = b.
Proof.
  unfold flag_eqb. rewrite Nat.eqb_eq. split; [apply flag_idx_inj|now intros ->].
Qed.

Lemma flag_eqb_refl a : flag_eqb a a = true.
Proof. now apply flag_eqb_eq. Qed.

Lemma all_flags_complete f : In f all_flags.
Proof. destruct f; cbn; tauto. Qed.

Lemma flag_of_name_name f : flag_of_name (flag_name f) = Some f.
Proof. destruct f; reflexivity. Qed.

Lemma opts_of_In l f : opts_of l f = true <-> In f l.
Proof.
  unfold opts_of. rewrite existsb_exists. split.
  - intros (g & Hg & E). apply flag_eqb_eq in E. now subst.
  - intros H. exists f. split; [exact H|apply flag_eqb_refl].
Qed.

(* ---------------------------------------------------------------- order *)
Lemma le_refl o : le o o.
Proof. intros f H; exact H. Qed.

Lemma le_trans a b c : le a b -> le b c -> le a c.
Proof. intros H1 H2 f H. apply H2, H1, H. Qed.

Lemma le_none o : le none_on o.
Proof. intros f H; discriminate H. Qed.

Lemma le_all o : le o all_on.
Proof. intros f _; reflexivity. Qed.

Lemma le_with_flag o f : le o (with_flag o f).
Proof. intros g H. unfold with_flag. rewrite H. apply orb_true_r. Qed.

Lemma le_opts_of l l' : incl l l' -> le (opts_of l) (opts_of l').
Proof. intros H f. rewrite !opts_of_In. apply H. Qed.

(* ---------------------------------------------------------------- skip *)
Lemma skip_app o a b : skip o (a ++ b) = skip o a || skip o b.
Proof. unfold skip. apply existsb_app. Qed.

Lemma skip_le o o' c : le o o' -> skip o c = true -> skip o' c = true.
Proof.
  intros Hle H. unfold skip in *. apply existsb_exists in H as (f & Hf & Ho).
  apply existsb_exists. exists f. split; [exact Hf|now apply Hle].
Qed.

Lemma forallb_skip_le o o' fs : le o o' ->
  forallb (skip o) fs = true -> forallb (skip o') fs = true.
Proof.
  intros Hle H. rewrite forallb_forall in *. intros c Hc. eapply skip_le; eauto.
Qed.

Lemma skip_all_but G F : skip (all_but G) F = negb (forallb (fun f => existsb (flag_eqb f) G) F).
Proof.
  unfold skip, all_but. induction F as [|f F IH]; [reflexivity|].
  cbn [existsb forallb]. rewrite IH. now rewrite negb_andb.
Qed.

(* ---------------------------------------------------------------- validators: CNF form *)
Lemma forallb_flat_map {A B} (p : B -> bool) (f : A -> list B) l :
  forallb p (flat_map f l) = forallb (fun a => forallb p (f a)) l.
Proof.
  induction l as [|a l IH]; [reflexivity|]. cbn [flat_map forallb]. now rewrite forallb_app, IH.
Qed.

Lemma forallb_ext' {A} (p q : A -> bool) l : (forall a, p a = q a) -> forallb p l = forallb q l.
Proof. intros H. induction l as [|a l IH]; [reflexivity|]. cbn [forallb]. now rewrite H, IH. Qed.

Lemma orb_forallb {A} (b : bool) (p : A -> bool) l :
  b || forallb p l = forallb (fun a => b || p a) l.
Proof.
  induction l as [|a l IH]; cbn [forallb]; [apply orb_true_r|].
  rewrite <- IH. destruct b; reflexivity.
Qed.

Lemma run_fails_ctx {X} (t : vt X) : forall ctx o x,
  skip o ctx || run t o x = forallb (skip o) (fails t ctx x).
Proof.
  induction t as [X|X c|X live s t IH|X a IHa b IHb|X Y p t IH|X Y p t IH|X c a IHa b IHb]; intros ctx o x; cbn [run fails].
  - cbn [forallb]. apply orb_true_r.
  - destruct (c x); cbn [forallb]; [apply orb_true_r|]. now rewrite orb_false_r, andb_true_r.
  - destruct (live x); cbn [andb orb].
    + rewrite <- IH, skip_app. cbn [skip existsb]. rewrite orb_false_r. now rewrite orb_assoc.
    + apply IH.
  - rewrite forallb_app, <- IHa, <- IHb. destruct (skip o ctx); reflexivity.
  - rewrite forallb_flat_map, orb_forallb. apply forallb_ext'. intros y. apply IH.
  - apply IH.
  - destruct (c x); [apply IHa|apply IHb].
Qed.

(* a validator accepts x under o exactly when every failing check is switched off by o *)
Theorem run_cnf {X} (t : vt X) o x : run t o x = forallb (skip o) (fails t [] x).
Proof. rewrite <- run_fails_ctx. reflexivity. Qed.

Theorem run_mono {X} (t : vt X) o o' x : le o o' -> run t o x = true -> run t o' x = true.
Proof. rewrite !run_cnf. apply forallb_skip_le. Qed.

Lemma fails_incl_clauses {X} (t : vt X) : forall ctx x, incl (fails t ctx x) (clauses t ctx).
Proof.
  induction t as [X|X c|X live s t IH|X a IHa b IHb|X Y p t IH|X Y p t IH|X c a IHa b IHb]; intros ctx x; cbn [fails clauses].
  - apply incl_nil_l.
  - destruct (c x); [apply incl_nil_l|apply incl_refl].
  - destruct (live x); [apply incl_appl, IH|apply incl_appr, IH].
  - apply incl_app; [apply incl_appl, IHa|apply incl_appr, IHb].
  - intros c Hc. apply in_flat_map in Hc as (y & _ & Hy). eapply IH, Hy.
  - apply IH.
  - destruct (c x); [apply incl_appl, IHa|apply incl_appr, IHb].
Qed.

Lemma run_seq {X} (ts : list (vt X)) o x : run (seq ts) o x = forallb (fun t => run t o x) ts.
Proof.
  induction ts as [|t ts IH]; [reflexivity|]. destruct ts as [|t' ts'].
  - cbn. now rewrite andb_true_r.
  - change (seq (t :: t' :: ts')) with (And t (seq (t' :: ts'))). cbn [run forallb]. now rewrite IH.
Qed.

(* ---------------------------------------------------------------- the machine *)
Lemma exec_cnf {S} (p : prog S) o : snd (exec o p) = forallb (skip o) (pfails p).
Proof.
  induction p as [s ok|X x t kok IHok kerr IHerr]; cbn [exec pfails].
  - destruct ok; reflexivity.
  - rewrite forallb_app, <- run_cnf. destruct (run t o x); cbn [snd andb]; [exact IHok|reflexivity].
Qed.

Lemma exec_okstate {S} (p : prog S) o : snd (exec o p) = true -> fst (exec o p) = okstate p.
Proof.
  induction p as [s ok|X x t kok IHok kerr IHerr]; cbn [exec okstate]; [reflexivity|].
  destruct (run t o x); cbn [snd fst]; [exact IHok|discriminate].
Qed.

Lemma pfails_incl_pclauses {S} (p : prog S) : incl (pfails p) (pclauses p).
Proof.
  induction p as [s ok|X x t kok IHok kerr IHerr]; cbn [pfails pclauses].
  - destruct ok; [apply incl_nil_l|apply incl_refl].
  - apply incl_app; [apply incl_appl, fails_incl_clauses|apply incl_appr, incl_appl, IHok].
Qed.

Section MachineFacts.
  Context {S L : Type}.
  Variable prep : S -> L -> prog S.
  Variable final : vt S.

  Lemma mrun_cnf o : forall ls s,
    snd (mrun prep o s ls) = forallb (skip o) (mfails_lines prep s ls)
    /\ (snd (mrun prep o s ls) = true -> fst (mrun prep o s ls) = mstate prep s ls).
  Proof.
    induction ls as [|l ls IH]; intros s; cbn [mrun mfails_lines mstate fst snd forallb]; [split; reflexivity|].
    rewrite forallb_app, <- exec_cnf.
    destruct (snd (exec o (prep s l))) eqn:E1; cbn [andb].
    - rewrite (exec_okstate _ _ E1). apply IH.
    - split; [reflexivity|discriminate].
  Qed.

  (* the reader accepts under o exactly when every check failing on the
     all-pass path of the text is switched off by o *)
  Theorem accept_cnf o s0 ls : accept prep final o s0 ls = forallb (skip o) (mfails prep final s0 ls).
  Proof.
    unfold accept, mfails. rewrite forallb_app. destruct (mrun_cnf o ls s0) as [H1 H2].
    rewrite <- H1. destruct (snd (mrun prep o s0 ls)) eqn:E; cbn [andb]; [|reflexivity].
    rewrite (H2 eq_refl). apply run_cnf.
  Qed.

  Theorem accept_mono o o' s0 ls : le o o' ->
    accept prep final o s0 ls = true -> accept prep final o' s0 ls = true.
  Proof. rewrite !accept_cnf. apply forallb_skip_le. Qed.

  Lemma mfails_incl family :
    (forall s l, incl (pclauses (prep s l)) family) -> incl (clauses final []) family ->
    forall s0 ls, incl (mfails prep final s0 ls) family.
  Proof.
    intros Hp Hf s0 ls. unfold mfails. apply incl_app.
    - revert s0. induction ls as [|l ls IH]; intros s0; cbn [mfails_lines]; [apply incl_nil_l|].
      apply incl_app; [|apply IH]. eapply incl_tran; [apply pfails_incl_pclauses|apply Hp].
    - eapply incl_tran; [apply fails_incl_clauses|exact Hf].
  Qed.
End MachineFacts.

(* ---------------------------------------------------------------- prediction *)
Lemma subset_refl (F : clause) : forallb (fun f => existsb (flag_eqb f) F) F = true.
Proof.
  apply forallb_forall. intros f Hf. apply existsb_exists. exists f. split; [exact Hf|apply flag_eqb_refl].
Qed.

(* A conjunction of clauses is determined by its values at the option sets
   "everything on except G", G in any family containing its clauses. *)
Theorem predict_correct (fs family : list clause) o :
  incl fs family ->
  forallb (skip o) fs = predict family (fun G => forallb (skip (all_but G)) fs) o.
Proof.
  intros Hincl. unfold predict.
  destruct (forallb (skip o) fs) eqn:E; symmetry.
  - apply forallb_forall. intros G _. destruct (skip o G) eqn:EG; [reflexivity|]. cbn [orb].
    apply forallb_forall. intros F HF. rewrite forallb_forall in E. specialize (E F HF).
    unfold skip in E. apply existsb_exists in E as (f & Hf & Hof).
    unfold skip. apply existsb_exists. exists f. split; [exact Hf|].
    unfold all_but. apply negb_true_iff. apply not_true_is_false. intros Hin.
    apply existsb_exists in Hin as (g & Hg & Eg). apply flag_eqb_eq in Eg. subst g.
    assert (skip o G = true) as C by (unfold skip; apply existsb_exists; eauto). congruence.
  - apply not_true_is_false. intros Hall. rewrite forallb_forall in Hall.
    assert (exists F, In F fs /\ skip o F = false) as (F & HF & HsF).
    { clear -E. induction fs as [|F fs IH]; [discriminate|]. cbn [forallb] in E.
      destruct (skip o F) eqn:EF.
      - destruct (IH E) as (F' & H1 & H2). exists F'. split; [now right|exact H2].
      - exists F. split; [now left|exact EF]. }
    specialize (Hall F (Hincl F HF)). rewrite HsF in Hall. cbn [orb] in Hall.
    rewrite forallb_forall in Hall. specialize (Hall F HF).
    rewrite skip_all_but, subset_refl in Hall. discriminate.
Qed.

Theorem run_predict {X} (t : vt X) family o x :
  incl (clauses t []) family ->
  run t o x = predict family (fun G => run t (all_but G) x) o.
Proof.
  intros H. rewrite run_cnf.
  rewrite (predict_correct (fails t [] x) family o).
  - unfold predict. apply forallb_ext'. intros G. now rewrite run_cnf.
  - eapply incl_tran; [apply fails_incl_clauses|exact H].
Qed.

Theorem accept_predict {S L} (prep : S -> L -> prog S) (final : vt S) family o s0 ls :
  incl (mfails prep final s0 ls) family ->
  accept prep final o s0 ls = predict family (fun G => accept prep final (all_but G) s0 ls) o.
Proof.
  intros H. rewrite accept_cnf, (predict_correct _ family o H).
  unfold predict. apply forallb_ext'. intros G. now rewrite accept_cnf.
Qed.

Lemma predict_l_spec family obs on :
  predict_l family (map obs family) on = predict family obs (opts_of on).
Proof.
  unfold predict_l, predict. induction family as [|G fam IH]; [reflexivity|].
  cbn [map combine forallb fst snd]. now rewrite IH.
Qed.

Lemma predict_mono family obs o o' : le o o' -> predict family obs o = true -> predict family obs o' = true.
Proof.
  intros Hle H. unfold predict in *. rewrite forallb_forall in *. intros G HG. specialize (H G HG).
  apply orb_prop in H as [H|H]; [|rewrite H; apply orb_true_r].
  now rewrite (skip_le _ _ _ Hle H).
Qed.

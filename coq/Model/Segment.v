(* Model of File.SegmentFile (file.go) over the regenerated tables.  Executable
   definitions only.  In the order of the Go code:
     Validate gate on the input; standard/ADV batches in order: ADV batch of
     class 280 split with the ADV lists into two fresh ADV batches, other batch
     by the service-class switch (mixed: two fresh batches of classes 220 / 225
     filled by the standard lists; 220 / 225: the SAME batch handed to the credit
     / debit file with its number and control; any other class: dropped); a
     fresh batch is added only if it received entries; IAT batches likewise with
     the IAT lists, entries of a split IAT batch getting new trace numbers 1..n;
     then per non-empty output: header data copied, File.Create (numbers <= 1
     replaced by the running sequence, controls summed), File.Validate.
   Fresh standard / ADV batches carry the number of the batch they are split off
   (createSegmentFileBatchHeader copies BatchNumber), fresh IAT batches number 1
   (NewIATBatchHeader), and the control tabulated by their own Create; errors of
   that Create are ignored by the Go code. *)
From Coq Require Import ZArith NArith List Bool.
Import ListNotations.
From ACH Require Import TxCodes RevTable SegTable.
Open Scope Z_scope.

Record sbatch := mksb {
  sb_adv : bool;            (* StandardEntryClassCode = ADV *)
  sb_scc : Z; sb_num : Z;
  sb_ident : N;             (* company / originator identification (stands for the copied header fields) *)
  sb_credit : Z; sb_debit : Z;   (* control totals *)
  sb_entries : list entry }.

Record sfile := mksf {
  sf_origin : N; sf_dest : N;
  sf_batches : list sbatch; sf_iat : list sbatch;
  sf_credit : Z; sf_debit : Z }.

Definition empty_file : sfile := mksf 0 0 [] [] 0 0.

Definition dir_of (cr : bool) : target := if cr then TCredit else TDebit.
Definition kind_of (b : sbatch) : bkind := if sb_adv b then KAdv else KStd.

Definition fresh (amt : list seg_arm) (adv : bool) (scc num : Z) (ident : N) (es : list entry) : list sbatch :=
  match es with
  | [] => []
  | _ => [mksb adv scc num ident (sum_dir amt TCredit es) (sum_dir amt TDebit es) es]
  end.

Fixpoint retrace (seq : N) (es : list entry) : list entry :=
  match es with
  | [] => []
  | e :: r => mkentry (e_code e) (e_amount e) (e_id e) seq :: retrace (seq + 1)%N r
  end.

(* what one batch of f.Batches contributes to the credit (cr = true) / debit file *)
Definition part (T : stables) (cr : bool) (b : sbatch) : list sbatch :=
  if sb_adv b then
    if sb_scc b =? 280
    then fresh (st_amt_adv T) true 280 (sb_num b) (sb_ident b) (filter (goes (st_seg_adv T) (dir_of cr)) (sb_entries b))
    else []
  else
    match scc_lookup (st_scc_std T) (sb_scc b) with
    | Some (SSplit c d) =>
        fresh (st_amt_std T) false (if cr then c else d) (sb_num b) (sb_ident b)
              (filter (goes (st_seg_std T) (dir_of cr)) (sb_entries b))
    | Some SReuseCredit => if cr then [b] else []
    | Some SReuseDebit => if cr then [] else [b]
    | _ => []
    end.

(* what one batch of f.IATBatches contributes *)
Definition ipart (T : stables) (cr : bool) (b : sbatch) : list sbatch :=
  match scc_lookup (st_scc_iat T) (sb_scc b) with
  | Some (SSplit c d) =>
      fresh (st_amt_iat T) false (if cr then c else d) 1 (sb_ident b)
            (retrace 1 (filter (goes (st_seg_iat T) (dir_of cr)) (sb_entries b)))
  | Some SReuseCredit => if cr then [b] else []
  | Some SReuseDebit => if cr then [] else [b]
  | _ => []
  end.

(* ---- File.Create *)

Fixpoint renumber (seq : Z) (bs : list sbatch) : list sbatch :=
  match bs with
  | [] => []
  | b :: r =>
      (if sb_num b <=? 1
       then mksb (sb_adv b) (sb_scc b) seq (sb_ident b) (sb_credit b) (sb_debit b) (sb_entries b)
       else b) :: renumber (seq + 1) r
  end.

Fixpoint tot_credit (bs : list sbatch) : Z := match bs with [] => 0 | b :: r => sb_credit b + tot_credit r end.
Fixpoint tot_debit (bs : list sbatch) : Z := match bs with [] => 0 | b :: r => sb_debit b + tot_debit r end.

Definition is_adv_file (bs : list sbatch) : bool := existsb sb_adv bs.

Inductive verr := VBatch | VTotals | VAscending.
Inductive serr := EInput (v : verr) | EAdvOnly | EOutput (v : verr).

(* None = ErrFileADVOnly *)
Definition create (origin dest : N) (bs is : list sbatch) : option sfile :=
  if is_adv_file bs then
    if forallb sb_adv bs
    then let bs' := renumber 1 bs in Some (mksf origin dest bs' is (tot_credit bs') (tot_debit bs'))
    else None
  else
    let bs' := renumber 1 bs in
    let is' := renumber (1 + Z.of_nat (length bs)) is in
    Some (mksf origin dest bs' is' (tot_credit bs' + tot_credit is') (tot_debit bs' + tot_debit is')).

(* ---- the fragment of File.Validate that matters here *)

(* Batch.verify + ValidTranCodeForServiceClassCode + isBatchAmount for a standard batch *)
Definition dir_wf (T : stables) (b : sbatch) : bool :=
  memz (sb_scc b) [200; 220; 225]
  && forallb (fun e => entry_code (st_codes T) (e_code e)) (sb_entries b)
  && implb (sb_scc b =? 220) (all_dir TCredit (sb_entries b))
  && implb (sb_scc b =? 225) (all_dir TDebit (sb_entries b)).

Definition ctl_wf (amt : list seg_arm) (b : sbatch) : bool :=
  match sb_entries b with [] => false | _ => true end
  && (sb_credit b =? sum_dir amt TCredit (sb_entries b))
  && (sb_debit b =? sum_dir amt TDebit (sb_entries b)).

Definition batch_ok (T : stables) (b : sbatch) : bool :=
  negb (sb_adv b) && ctl_wf (st_amt_std T) b && dir_wf T b.

Fixpoint ascending (last : Z) (ns : list Z) : bool :=
  match ns with [] => true | n :: r => (last <? n) && ascending n r end.

(* non-ADV file: every standard batch validates (IAT batches are NOT validated by
   File.Validate), file totals = sums over both lists, batch numbers of f.Batches
   ascending.  ADV file: only the file control is compared with the ADV controls. *)
Definition validate (T : stables) (f : sfile) : option verr :=
  if is_adv_file (sf_batches f) then
    if (sf_credit f =? tot_credit (sf_batches f)) && (sf_debit f =? tot_debit (sf_batches f)) then None else Some VTotals
  else
    if negb (forallb (batch_ok T) (sf_batches f)) then Some VBatch
    else if negb ((sf_credit f =? tot_credit (sf_batches f) + tot_credit (sf_iat f))
                  && (sf_debit f =? tot_debit (sf_batches f) + tot_debit (sf_iat f))) then Some VTotals
    else if negb (ascending 0 (map sb_num (sf_batches f))) then Some VAscending
    else None.

Inductive sres := SOk (cf df : sfile) | SErr (e : serr).

Definition finish (T : stables) (origin dest : N) (bs is : list sbatch) : sfile + serr :=
  match bs, is with
  | [], [] => inl empty_file
  | _, _ =>
      match create origin dest bs is with
      | None => inr EAdvOnly
      | Some g => match validate T g with None => inl g | Some v => inr (EOutput v) end
      end
  end.

Definition segment (T : stables) (f : sfile) : sres :=
  match validate T f with
  | Some v => SErr (EInput v)
  | None =>
      let out cr := finish T (sf_origin f) (sf_dest f)
                           (flat_map (part T cr) (sf_batches f)) (flat_map (ipart T cr) (sf_iat f)) in
      match out true with
      | inr e => SErr e
      | inl cf => match out false with inr e => SErr e | inl df => SOk cf df end
      end
  end.

(* ---- what the theorems speak about *)

Definition ids_of (bs : list sbatch) : list N := flat_map (fun b => map e_id (sb_entries b)) bs.
Definition file_ids (f : sfile) : list N := ids_of (sf_batches f) ++ ids_of (sf_iat f).

(* every entry of the file has direction [t] by the arithmetic lists of its batch kind *)
Definition batches_dir (amt : sbatch -> list seg_arm) (t : target) (bs : list sbatch) : bool :=
  forallb (fun b => forallb (goes (amt b) t) (sb_entries b)) bs.
Definition file_dir (T : stables) (t : target) (f : sfile) : bool :=
  batches_dir (fun b => amt_of T (kind_of b)) t (sf_batches f)
  && batches_dir (fun _ => st_amt_iat T) t (sf_iat f).

(* generator-side well-formedness of what File.Validate does not look at: IAT batches
   (class consistent with the entries, control tabulated) and ADV batches (class 280,
   ADV codes, control tabulated) *)
Definition iat_wf (T : stables) (b : sbatch) : bool :=
  negb (sb_adv b) && ctl_wf (st_amt_iat T) b && dir_wf T b.
Definition adv_wf (T : stables) (b : sbatch) : bool :=
  sb_adv b && ctl_wf (st_amt_adv T) b && (sb_scc b =? 280)
  && forallb (fun e => negb (target_eqb (classify (st_amt_adv T) (e_code e)) TNone)) (sb_entries b).

Definition input_wf (T : stables) (f : sfile) : bool :=
  forallb (iat_wf T) (sf_iat f)
  && (if is_adv_file (sf_batches f)
      then forallb (adv_wf T) (sf_batches f) && match sf_iat f with [] => true | _ => false end
      else true).

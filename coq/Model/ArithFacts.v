(* C03: soundness of the control arithmetic checks.  Every accepted batch / file
   satisfies the declarative equations of ArithSpec.v, for entry and batch lists
   of any length (structural induction). *)
From Coq Require Import Sorting.Sorted Lia ZifyBool ZifyNat ZifyN.
From ACH Require Export ArithTable.
Open Scope Z_scope.

(* ---- inversion of the first-failing-rule combinators --------------------- *)

Lemma andr_ok a b : a ;; b = ROk <-> a = ROk /\ b = ROk.
Proof.
  destruct a; cbn [andr]; split; intros H; try (now destruct H); try discriminate; auto.
Qed.

Lemma chk_true c r : chk c r = ROk -> r <> ROk -> c = true.
Proof. destruct c; cbn [chk]; intros H Hr; [reflexivity|congruence]. Qed.

Lemma chk_intro c r : c = true -> chk c r = ROk.
Proof. intros ->. reflexivity. Qed.

Lemma first_fail_ok {A} (f : A -> rule) l : first_fail f l = ROk <-> Forall (fun x => f x = ROk) l.
Proof.
  induction l as [|x l IH]; cbn [first_fail].
  - split; [constructor|reflexivity].
  - rewrite andr_ok, IH. split.
    + intros [H1 H2]. now constructor.
    + intros H. inversion H; subst. now split.
Qed.

Ltac ok_split :=
  repeat match goal with
  | H : _ ;; _ = ROk |- _ => apply andr_ok in H; destruct H
  | H : chk _ _ = ROk |- _ => apply chk_true in H; [|discriminate]
  end.

(* ---- digits ------------------------------------------------------------- *)

Lemma is_digit_range b : is_digit b = true -> 0 <= Z.of_N (b - 48) <= 9 /\ (48 <= b <= 57)%N.
Proof. unfold is_digit. intros H. apply andb_prop in H as [H1 H2]. lia. Qed.

Lemma digits_val_acc s : forall acc, digits_val s acc = acc * 10 ^ Z.of_nat (length s) + digits_val s 0.
Proof.
  induction s as [|b t IH]; intros acc; cbn [digits_val length].
  - cbn. lia.
  - rewrite IH, (IH (0 * 10 + _)). rewrite Nat2Z.inj_succ, Z.pow_succ_r by lia. ring.
Qed.

Lemma digits_val_bound s : forallb is_digit s = true -> 0 <= digits_val s 0 < 10 ^ Z.of_nat (length s).
Proof.
  induction s as [|b t IH]; intros H; cbn [digits_val length forallb] in *.
  - cbn. lia.
  - apply andb_prop in H as [Hb Ht]. specialize (IH Ht). apply is_digit_range in Hb as [Hb _].
    rewrite digits_val_acc. rewrite Nat2Z.inj_succ, Z.pow_succ_r by lia.
    set (p := 10 ^ Z.of_nat (length t)) in *. set (v := digits_val t 0) in *.
    set (d := Z.of_N (b - 48)) in *. nia.
Qed.

(* atoi is injective on digit strings of one width *)
Lemma digits_val_inj a : forall b, length a = length b ->
  forallb is_digit a = true -> forallb is_digit b = true ->
  digits_val a 0 = digits_val b 0 -> a = b.
Proof.
  induction a as [|x a IH]; intros [|y b] Hl Ha Hb Hv; cbn [length] in Hl; try discriminate; [reflexivity|].
  injection Hl as Hl. cbn [forallb] in Ha, Hb.
  apply andb_prop in Ha as [Hx Ha]. apply andb_prop in Hb as [Hy Hb].
  cbn [digits_val] in Hv. rewrite (digits_val_acc a), (digits_val_acc b) in Hv. rewrite <- Hl in Hv.
  pose proof (digits_val_bound a Ha) as Ba. pose proof (digits_val_bound b Hb) as Bb. rewrite <- Hl in Bb.
  apply is_digit_range in Hx as [Hx Hx']. apply is_digit_range in Hy as [Hy Hy'].
  set (p := 10 ^ Z.of_nat (length a)) in *.
  assert (Hp : 0 < p) by (apply Z.pow_pos_nonneg; lia).
  assert (E : Z.of_N (x - 48) = Z.of_N (y - 48)) by nia.
  assert (x = y) by lia. subst y.
  f_equal. apply IH; try assumption. nia.
Qed.

Lemma chunks_ascii s : forallb (fun b => (b <? 128)%N) s = true -> chunks s = map (fun b => (b, [b])) s.
Proof.
  induction s as [|b t IH]; intros H; [reflexivity|].
  cbn [forallb] in H. apply andb_prop in H as [Hb Ht]. cbn [chunks map]. rewrite Hb. now rewrite IH.
Qed.

Lemma digits_ascii s : forallb is_digit s = true -> forallb (fun b => (b <? 128)%N) s = true.
Proof.
  intros H. rewrite forallb_forall in *. intros b Hb. specialize (H b Hb).
  apply is_digit_range in H. lia.
Qed.

Lemma rune_count_digits s : forallb is_digit s = true -> rune_count s = length s.
Proof.
  intros H. unfold rune_count. rewrite chunks_ascii by now apply digits_ascii. apply map_length.
Qed.

Lemma stringField_digits8 s : digits8 s -> stringField s 8 = s.
Proof.
  intros [Hl Hd]. unfold stringField. rewrite (rune_count_digits s Hd), Hl. reflexivity.
Qed.

Lemma aba8_digits8 s : digits8 s -> aba8 s = s.
Proof.
  intros [Hl Hd]. unfold aba8. rewrite (rune_count_digits s Hd), Hl. change (firstn 8 s = s).
  rewrite <- Hl. apply firstn_all.
Qed.

Lemma atoi_unsigned b t : is_digit b = true ->
  atoi (b :: t) = (if forallb is_digit (b :: t)
                   then let v := digits_val (b :: t) 0 in if v <=? max_int64 then v else max_int64
                   else 0) /\
  atoi_opt (b :: t) = (if forallb is_digit (b :: t)
                       then let v := digits_val (b :: t) 0 in if v <=? max_int64 then Some v else None
                       else None).
Proof.
  intros H. apply is_digit_range in H as [_ H].
  assert (E : (b = 48 \/ b = 49 \/ b = 50 \/ b = 51 \/ b = 52 \/ b = 53 \/ b = 54 \/ b = 55 \/ b = 56 \/ b = 57)%N) by lia.
  repeat (destruct E as [E|E]; [subst b; split; reflexivity|]). subst b; split; reflexivity.
Qed.

Lemma atoi_digits s : s <> [] -> forallb is_digit s = true -> (length s <= 18)%nat ->
  atoi s = digits_val s 0 /\ atoi_opt s = Some (digits_val s 0).
Proof.
  intros Hne Hd Hl. destruct s as [|b t]; [congruence|].
  pose proof Hd as Hd'. cbn [forallb] in Hd'. apply andb_prop in Hd' as [Hb _].
  pose proof (digits_val_bound _ Hd) as B.
  assert (Hmax : digits_val (b :: t) 0 <= max_int64).
  { assert (10 ^ Z.of_nat (length (b :: t)) <= 10 ^ 18) by (apply Z.pow_le_mono_r; lia).
    unfold max_int64. lia. }
  destruct (atoi_unsigned b t Hb) as [-> ->]. rewrite Hd. cbv zeta.
  apply Z.leb_le in Hmax. rewrite Hmax. now split.
Qed.

Lemma atoi_digits8 s : digits8 s -> atoi s = digits_val s 0 /\ 0 <= digits_val s 0 < 10 ^ 8.
Proof.
  intros [Hl Hd]. split.
  - apply atoi_digits; [destruct s; [discriminate|congruence] | exact Hd | lia].
  - pose proof (digits_val_bound s Hd) as B. now rewrite Hl in B.
Qed.

(* ---- check digit: the loop equals the closed form ------------------------ *)

Lemma cd_sum_digits s : forall i, forallb is_digit s = true -> (i + length s <= 8)%nat ->
  cd_sum i s = Some (wsum i (digit_vals s)).
Proof.
  induction s as [|b t IH]; intros i Hd Hl; [reflexivity|].
  cbn [forallb length] in *. apply andb_prop in Hd as [Hb Ht].
  cbn [cd_sum digit_vals map wsum]. replace (8 <=? i)%nat with false by (symmetry; apply Nat.leb_gt; lia).
  rewrite Hb. fold (digit_vals t). rewrite IH by (assumption || lia). reflexivity.
Qed.

Lemma roundUp10_closed v : roundUp10 v - v = (10 - v mod 10) mod 10.
Proof. unfold roundUp10. Z.div_mod_to_equations. lia. Qed.

Lemma calc_check_digit_closed s : digits8 s -> calc_check_digit s = spec_check_digit (digit_vals s).
Proof.
  intros [Hl Hd]. unfold calc_check_digit. rewrite (rune_count_digits s Hd), Hl. cbn [Nat.eqb negb andb].
  rewrite cd_sum_digits by (assumption || lia). apply roundUp10_closed.
Qed.

Lemma spec_check_digit_range ds : 0 <= spec_check_digit ds <= 9.
Proof. unfold spec_check_digit. Z.div_mod_to_equations. lia. Qed.

(* ---- sums ---------------------------------------------------------------- *)

Lemma sum_where_ext p q es : Forall (fun e => p e = q e) es -> sum_where p es = sum_where q es.
Proof. induction 1 as [|e es He _ IH]; cbn [sum_where]; [reflexivity|]. now rewrite He, IH. Qed.

Lemma calc_count_spec es : calc_count es = spec_count es.
Proof. unfold spec_count. induction es as [|e es IH]; cbn [calc_count sumz]; lia. Qed.

Lemma hash_sum_wf es : Forall rdfi_wf es -> hash_sum es = sumz rdfi_num es /\ 0 <= hash_sum es <= Z.of_nat (length es) * 10 ^ 8.
Proof.
  induction 1 as [|e es He _ IH]; cbn [hash_sum sumz length]; [cbn; lia|].
  destruct IH as [IH1 IH2]. unfold rdfi_num, rdfi_field. unfold rdfi_wf in He.
  rewrite (stringField_digits8 _ He), (aba8_digits8 _ He).
  destruct (atoi_digits8 _ He) as [-> B]. rewrite IH1. split; [reflexivity|]. rewrite <- IH1. lia.
Qed.

Lemma sum_where_bound p es L : 0 <= L -> Forall (fun e => 0 <= en_amount e <= L) es ->
  0 <= sum_where p es <= Z.of_nat (length es) * L.
Proof.
  intros HL. induction 1 as [|e es He _ IH]; cbn [sum_where length]; [lia|].
  destruct (p e); nia.
Qed.

(* Go's int is 64 bit: with amounts that fit their 10 digit field and fewer than
   9*10^8 entries neither a total nor the routing-number sum can wrap, so
   modelling them in Z is exact *)
Theorem no_overflow_amounts p es :
  Forall (fun e => 0 <= en_amount e <= 10 ^ 10 - 1) es -> Z.of_nat (length es) < 9 * 10 ^ 8 ->
  0 <= sum_where p es < 2 ^ 63.
Proof.
  intros H Hn. pose proof (sum_where_bound p es (10 ^ 10 - 1) ltac:(lia) H) as B.
  assert (Z.of_nat (length es) * (10 ^ 10 - 1) < 2 ^ 63) by (change (2 ^ 63) with 9223372036854775808; lia). lia.
Qed.

Theorem no_overflow_hash es :
  Forall rdfi_wf es -> Z.of_nat (length es) < 9 * 10 ^ 8 -> 0 <= hash_sum es < 2 ^ 63.
Proof.
  intros H Hn. destruct (hash_sum_wf es H) as [_ B].
  assert (Z.of_nat (length es) * 10 ^ 8 < 2 ^ 63) by (change (2 ^ 63) with 9223372036854775808; lia). lia.
Qed.

(* ---- facts established by verify ------------------------------------------ *)

Record batch_facts (T : tables) (b : batch) : Prop := mkfacts {
  bf_nonempty : bt_entries b <> [];
  bf_entries : Forall (fun e => validate_entry T (bt_kind b) e = ROk) (bt_entries b);
  bf_ctl : validate_bctl T (bt_kind b) (bt_ctl b) = ROk;
  bf_class : bt_class b = bc_class (bt_ctl b);
  bf_odfi : bt_odfi b = bc_odfi (bt_ctl b);
  bf_number : bt_number b = bc_number (bt_ctl b);
  bf_count : calc_count (bt_entries b) = bc_count (bt_ctl b);
  bf_asc : bt_kind b <> KADV -> ascending (ascending_init (bt_kind b)) (bt_entries b) = true;
  bf_debit : calc_debit T (bt_kind b) (bt_entries b) = bc_debit (bt_ctl b);
  bf_credit : calc_credit T (bt_kind b) (bt_entries b) = bc_credit (bt_ctl b);
  bf_hash : calc_hash T (bt_entries b) = bc_hash (bt_ctl b);
  bf_trace : trace_odfi_ok (bt_kind b) b = true }.

Lemma verify_facts T b : verify T b = ROk -> batch_facts T b.
Proof.
  unfold verify. intros H. ok_split.
  match goal with H : first_fail _ _ = ROk |- _ => apply first_fail_ok in H end.
  repeat match goal with H : (_ =? _) = true |- _ => apply Z.eqb_eq in H end.
  match goal with H : bytes_eqb _ _ = true |- _ => apply bytes_eqb_eq in H end.
  constructor; try assumption.
  - destruct (bt_entries b); [discriminate|congruence].
  - intros Hk. destruct (bt_kind b); [| |congruence]; ok_split; assumption.
Qed.

Lemma validate_batch_verify T b : validate_batch T b = ROk -> verify T b = ROk.
Proof. unfold validate_batch. intros H. destruct (bt_kind b); ok_split; assumption. Qed.

Lemma validate_entry_facts T k e : validate_entry T k e = ROk ->
  memz (en_code e) (t_codes T) = true /\ check_digit_ok k e = true /\
  (k = KStd -> 0 <= en_amount e <= t_amount_limit T).
Proof.
  unfold validate_entry. intros H.
  destruct k; ok_split; (split; [assumption|split; [assumption|]]); intros Hk; try discriminate; lia.
Qed.

(* the ADV accounting codes 81..88 have no units-digit direction; standard batches
   refuse them, IAT batches do not (known finding), ADV batches need them *)
Definition codes_regular (T : tables) (k : kind) (es : list entry) : Prop :=
  match k with
  | KStd => True
  | KIAT => Forall (fun e => memz (en_code e) (t_advcodes T) = false) es
  | KADV => Forall (fun e => memz (en_code e) (t_advcodes T) = true) es
  end.

Lemma std_no_adv_codes T b : bt_kind b = KStd -> validate_batch T b = ROk ->
  Forall (fun e => memz (en_code e) (t_advcodes T) = false) (bt_entries b).
Proof.
  unfold validate_batch. intros -> H. ok_split.
  match goal with H : first_fail _ _ = ROk |- _ => apply first_fail_ok in H; rename H into Hc end.
  eapply Forall_impl; [|exact Hc]. intros e He. unfold tran_code_for_class in He. ok_split.
  now apply negb_true_iff.
Qed.

Section WithTables.
Variable T : tables.
Hypothesis HT : tables_ok T = true.

Lemma direction_agrees b : validate_batch T b = ROk -> codes_regular T (bt_kind b) (bt_entries b) ->
  Forall (fun e => adds_credit T (bt_kind b) (en_code e) = spec_is_credit (bt_kind b) (en_code e) /\
                   adds_debit T (bt_kind b) (en_code e) = spec_is_debit (bt_kind b) (en_code e)) (bt_entries b).
Proof.
  intros Hv Hreg. pose proof (verify_facts T b (validate_batch_verify T b Hv)) as F.
  pose proof (bf_entries T b F) as He.
  assert (Hcodes : Forall (fun e => memz (en_code e) (t_codes T) = true) (bt_entries b)).
  { eapply Forall_impl; [|exact He]. intros e H. now apply validate_entry_facts in H. }
  destruct (bt_kind b) eqn:Ek.
  - pose proof (std_no_adv_codes T b Ek Hv) as Hna.
    rewrite Forall_forall in *. intros e Hin.
    destruct (direction_sound T HT KStd (en_code e) ltac:(discriminate)) as [-> ->].
    unfold std_code. now rewrite (Hcodes e Hin), (Hna e Hin).
  - cbn in Hreg. rewrite Forall_forall in *. intros e Hin.
    destruct (direction_sound T HT KIAT (en_code e) ltac:(discriminate)) as [-> ->].
    unfold std_code. now rewrite (Hcodes e Hin), (Hreg e Hin).
  - cbn in Hreg. rewrite Forall_forall in *. intros e Hin.
    destruct (direction_sound_adv T HT (en_code e)) as [-> ->]. now rewrite (Hreg e Hin).
Qed.

Theorem batch_arith b : validate_batch T b = ROk -> codes_regular T (bt_kind b) (bt_entries b) ->
  bc_count (bt_ctl b) = spec_count (bt_entries b) /\
  bc_debit (bt_ctl b) = spec_debit (bt_kind b) (bt_entries b) /\
  bc_credit (bt_ctl b) = spec_credit (bt_kind b) (bt_entries b) /\
  bt_class b = bc_class (bt_ctl b) /\ bt_odfi b = bc_odfi (bt_ctl b) /\ bt_number b = bc_number (bt_ctl b) /\
  (Forall rdfi_wf (bt_entries b) -> bc_hash (bt_ctl b) = spec_hash (bt_entries b)).
Proof.
  intros Hv Hreg. pose proof (verify_facts T b (validate_batch_verify T b Hv)) as F.
  pose proof (direction_agrees b Hv Hreg) as Hd.
  destruct F as [_ _ _ Fc Fo Fn Fcnt _ Fd Fcr Fh _].
  repeat split; try assumption.
  - now rewrite <- Fcnt, calc_count_spec.
  - rewrite <- Fd. unfold calc_debit, spec_debit. apply sum_where_ext.
    eapply Forall_impl; [|exact Hd]. now intros e [_ H].
  - rewrite <- Fcr. unfold calc_credit, spec_credit. apply sum_where_ext.
    eapply Forall_impl; [|exact Hd]. now intros e [H _].
  - intros Hwf. rewrite <- Fh. unfold calc_hash, spec_hash, least_sig.
    destruct (constants_sound T HT) as (-> & _). destruct (hash_sum_wf _ Hwf) as [E B]. rewrite <- E.
    apply Z.rem_mod_nonneg; lia.
Qed.

Lemma credit_or_debit_1 c : credit_or_debit c = 1 -> units_in 1 4 c.
Proof.
  unfold credit_or_debit, units_in. destruct ((c <? 10) || (99 <? c)); [discriminate|].
  destruct ((1 <=? c mod 10) && (c mod 10 <=? 4)) eqn:E; [lia|]. destruct (5 <=? c mod 10); discriminate.
Qed.
Lemma credit_or_debit_2 c : credit_or_debit c = 2 -> units_in 5 9 c.
Proof.
  unfold credit_or_debit, units_in. destruct ((c <? 10) || (99 <? c)); [discriminate|].
  destruct ((1 <=? c mod 10) && (c mod 10 <=? 4)) eqn:E; [discriminate|].
  destruct (5 <=? c mod 10) eqn:E5; [|discriminate]. intros _. pose proof (Z.mod_pos_bound c 10). lia.
Qed.

Lemma ascending_sorted es : forall last, ascending last es = true -> Sorted bytes_lt (last :: map en_trace es).
Proof.
  induction es as [|e es IH]; intros last H; cbn [map].
  - constructor; constructor.
  - cbn [ascending] in H. destruct (bytes_leb (en_trace e) last) eqn:E; [discriminate|].
    constructor; [now apply IH|]. constructor. exact E.
Qed.

Definition check_value (k : kind) (e : entry) : option Z :=
  match k with KADV => Some (atoi (en_check e)) | _ => atoi_opt (en_check e) end.

Theorem batch_entries b : validate_batch T b = ROk ->
  (* check digit = closed form of the routing number *)
  Forall (fun e => rdfi_wf e -> check_value (bt_kind b) e = Some (spec_check_digit (digit_vals (en_rdfi e)))) (bt_entries b) /\
  (* traces strictly ascending (Go string order) and prefixed by the zero-padded ODFI *)
  (bt_kind b <> KADV -> Sorted bytes_lt (map en_trace (bt_entries b)) /\
     Forall (fun e => trace_prefix (bt_kind b) e = stringField (bt_odfi b) 8) (bt_entries b)) /\
  (* standard batches: amount range and credits-only / debits-only classes *)
  (bt_kind b = KStd ->
     Forall (fun e => 0 <= en_amount e < 10 ^ 10) (bt_entries b) /\
     (bt_class b = 220 -> Forall (fun e => units_in 1 4 (en_code e)) (bt_entries b)) /\
     (bt_class b = 225 -> Forall (fun e => units_in 5 9 (en_code e)) (bt_entries b))).
Proof.
  intros Hv. pose proof (verify_facts T b (validate_batch_verify T b Hv)) as F.
  pose proof (bf_entries T b F) as He.
  destruct (constants_sound T HT) as (_ & Hal & _ & _ & Hmix & Hcr & Hdb & Hadv).
  split; [|split].
  - eapply Forall_impl; [|exact He]. intros e H Hwf. apply validate_entry_facts in H as (_ & Hcd & _).
    unfold check_digit_ok, rdfi_field in Hcd. unfold rdfi_wf in Hwf.
    rewrite (stringField_digits8 _ Hwf), (calc_check_digit_closed _ Hwf) in Hcd.
    unfold check_value. destruct (bt_kind b).
    + destruct (atoi_opt (en_check e)); [|discriminate]. apply Z.eqb_eq in Hcd. now subst.
    + destruct (atoi_opt (en_check e)); [|discriminate]. apply Z.eqb_eq in Hcd. now subst.
    + apply Z.eqb_eq in Hcd. now rewrite Hcd.
  - intros Hk. split.
    + pose proof (ascending_sorted _ _ (bf_asc T b F Hk)) as S. now inversion S.
    + pose proof (bf_trace T b F) as Ht. unfold trace_odfi_ok in Ht.
      destruct (bt_kind b); [| |congruence]; rewrite forallb_forall in Ht; apply Forall_forall; intros e Hin;
        symmetry; apply bytes_eqb_eq; now apply Ht.
  - intros Ek. split; [|split].
    + eapply Forall_impl; [|exact He]. intros e H. apply validate_entry_facts in H as (_ & _ & Ha).
      rewrite Ek in Ha. specialize (Ha eq_refl). rewrite Hal in Ha. lia.
    + intros Hc. unfold validate_batch in Hv. rewrite Ek in Hv. ok_split.
      match goal with H : first_fail _ _ = ROk |- _ => apply first_fail_ok in H; rename H into Hf end.
      eapply Forall_impl; [|exact Hf]. intros e Htc. unfold tran_code_for_class in Htc. ok_split.
      rewrite Hc, Hadv, Hmix, Hcr in *. cbn in *. ok_split.
      match goal with H : (_ =? 1) = true |- _ => apply Z.eqb_eq in H; now apply credit_or_debit_1 end.
    + intros Hc. unfold validate_batch in Hv. rewrite Ek in Hv. ok_split.
      match goal with H : first_fail _ _ = ROk |- _ => apply first_fail_ok in H; rename H into Hf end.
      eapply Forall_impl; [|exact Hf]. intros e Htc. unfold tran_code_for_class in Htc. ok_split.
      rewrite Hc, Hadv, Hmix, Hcr, Hdb in *. cbn in *. ok_split.
      match goal with H : (_ =? 2) = true |- _ => apply Z.eqb_eq in H; now apply credit_or_debit_2 end.
Qed.

(* ---- file level ------------------------------------------------------------ *)

Definition file_sums_spec (f : file) (bs : list batch) : Prop :=
  fc_count (fl_ctl f) = sumz (fun b => bc_count (bt_ctl b)) bs /\
  fc_debit (fl_ctl f) = sumz (fun b => bc_debit (bt_ctl b)) bs /\
  fc_credit (fl_ctl f) = sumz (fun b => bc_credit (bt_ctl b)) bs /\
  fc_hash (fl_ctl f) = Z.rem (sumz (fun b => bc_hash (bt_ctl b)) bs) (10 ^ 10).

Lemma file_sums_inv f bs : file_sums T f bs = ROk -> file_hash_ok T f bs = true -> file_sums_spec f bs.
Proof.
  unfold file_sums, file_hash_ok, file_sums_spec, least_sig. intros H Hh. ok_split.
  destruct (constants_sound T HT) as (Hd & _). rewrite Hd in Hh.
  repeat match goal with H : (_ =? _) = true |- _ => apply Z.eqb_eq in H end.
  repeat split; congruence.
Qed.

Theorem file_arith f : validate_file T f = ROk -> is_adv_file f = false ->
  fc_batches (fl_ctl f) = Z.of_nat (length (fl_batches f)) + Z.of_nat (length (fl_iat f)) /\
  file_sums_spec f (all_batches f) /\
  Forall (fun b => validate_batch T b = ROk) (fl_batches f) /\
  numbers_ascending 0 (fl_batches f) = true.
Proof.
  unfold validate_file. intros H Ha. rewrite Ha in H. ok_split.
  match goal with H : first_fail _ _ = ROk |- _ => apply first_fail_ok in H end.
  match goal with H : (fc_batches _ =? _) = true |- _ => apply Z.eqb_eq in H end.
  repeat split; try assumption; now apply file_sums_inv.
Qed.

Theorem file_arith_adv f : validate_file T f = ROk -> is_adv_file f = true ->
  fc_batches (fl_ctl f) = Z.of_nat (length (fl_batches f)) /\ file_sums_spec f (fl_batches f).
Proof.
  unfold validate_file. intros H Ha. rewrite Ha in H. ok_split.
  match goal with H : (fc_batches _ =? _) = true |- _ => apply Z.eqb_eq in H end.
  split; [assumption|now apply file_sums_inv].
Qed.

Theorem read_validate_all f : read_validate T f = ROk ->
  Forall (fun b => validate_batch T b = ROk) (all_batches f) /\ validate_file T f = ROk.
Proof. unfold read_validate. intros H. ok_split. split; [now apply first_fail_ok|assumption]. Qed.

End WithTables.

Lemma bytes_leb_refl a : bytes_leb a a = true.
Proof. induction a as [|x a IH]; [reflexivity|]. cbn [bytes_leb]. now rewrite N.ltb_irrefl. Qed.

Lemma bytes_lt_irrefl a : ~ bytes_lt a a.
Proof. unfold bytes_lt. now rewrite bytes_leb_refl. Qed.

Lemma bytes_lt_trans a : forall b c, bytes_lt a b -> bytes_lt b c -> bytes_lt a c.
Proof.
  unfold bytes_lt. induction a as [|x a IH]; intros [|y b] [|z c] H1 H2; cbn [bytes_leb] in *; try discriminate; try reflexivity.
  destruct (y <? x)%N eqn:E1; [discriminate|]. destruct (x <? y)%N eqn:E2.
  - destruct (z <? y)%N eqn:E3; [discriminate|]. destruct (y <? z)%N eqn:E4.
    + replace (z <? x)%N with false by lia. replace (x <? z)%N with true by lia. reflexivity.
    + assert (y = z) by lia. subst z. rewrite E1, E2. reflexivity.
  - assert (x = y) by lia. subst y. destruct (z <? x)%N eqn:E3; [discriminate|].
    destruct (x <? z)%N eqn:E4; [reflexivity|]. eapply IH; eassumption.
Qed.

(* C06 — executable model of the partial operations of package ach
   (definitions only; proofs in TotalityFacts.v).

   A Go expression that can panic is modelled by a function into [res]: the
   bounds test the Go runtime performs is explicit and yields [Panic].  String
   indices are BYTE indices, as in Go, while several guards of the source
   count runes; the distance between the two is what the theorems bridge. *)
From Coq Require Import String.
From ACH Require Export Utf8 Fields.
Open Scope nat_scope.

Inductive res (A : Type) : Type :=
| Ok (a : A)
| Err            (* the Go code returns an error / an empty value *)
| Panic.         (* runtime panic: slice bounds / index out of range / nil dereference *)
Arguments Ok {A} a.
Arguments Err {A}.
Arguments Panic {A}.

Definition bind {A B} (r : res A) (f : A -> res B) : res B :=
  match r with Ok a => f a | Err => Err | Panic => Panic end.
Notation "x <- r ;; k" := (bind r (fun x => k)) (at level 61, r at next level, right associativity).

Definition is_panic {A} (r : res A) : bool := match r with Panic => true | _ => false end.

(* x[lo:hi] on strings, []rune and slices; an absent bound is None *)
Definition go_slice {A} (l : list A) (lo hi : option nat) : res (list A) :=
  let h := match hi with Some h => h | None => length l end in
  let w := match lo with Some n => n | None => 0 end in
  if (w <=? h) && (h <=? length l) then Ok (firstn (h - w) (skipn w l)) else Panic.

(* x[i] *)
Definition go_index {A} (l : list A) (i : nat) : res A :=
  match nth_error l i with Some a => Ok a | None => Panic end.

(* dereference of an optional sub-record *)
Definition deref {A} (p : option A) : res A := match p with Some a => Ok a | None => Panic end.

Definition sl {A} (l : list A) (lo hi : nat) := go_slice l (Some lo) (Some hi).

Definition b_sp : bytes := [32%N].
Definition is_empty (s : bytes) : bool := match s with [] => true | _ => false end.

(* ------------------------------------------------------------------ *)
(* entryDetail.go: sub-field accessors over IndividualName / IdentificationNumber.
   parseStringField = strings.TrimSpace. *)

(* TRC / XCK (guards added by fix 810e2e93) *)
Definition process_control (name : bytes) : res bytes :=
  if length name <? 6 then Ok [] else t <- sl name 0 6 ;; Ok (trim t).
Definition item_research (name : bytes) : res bytes :=
  if length name <? 22 then Ok [] else t <- sl name 6 22 ;; Ok (trim t).

(* POP: no guard in the source *)
Definition pop_check_serial (idn : bytes) : res bytes := t <- sl idn 0 9 ;; Ok (trim t).
Definition pop_terminal_city (idn : bytes) : res bytes := t <- sl idn 9 13 ;; Ok (trim t).
Definition pop_terminal_state (idn : bytes) : res bytes := t <- sl idn 13 15 ;; Ok (trim t).

(* SHR (guard added by fix a7fda2da) *)
Definition shr_card_exp (idn : bytes) : res bytes :=
  if length idn <? 4 then Ok (alphaField (trim idn) 4)
  else t <- sl idn 0 4 ;; Ok (alphaField (trim t) 4).
Definition shr_doc_ref (idn : bytes) : res bytes := t <- sl idn 4 15 ;; Ok (stringField t 11).

(* CTX / ATX *)
Definition catx_addenda_records (name : bytes) : res bytes :=
  if rune_count name <? 5 then Ok name else t <- go_slice name None (Some 4) ;; Ok (trim t).
Definition catx_receiving (name : bytes) : res bytes :=
  if rune_count name <? 4 then Ok [] else go_slice name (Some 4) None.
Definition catx_reserved (name : bytes) : res bytes := sl name 20 22.
Definition set_catx_addenda_records (i : Z) (name : bytes) : res bytes :=
  let count := numericField i 4 in
  if 4 <? rune_count name then t <- go_slice name (Some 4) None ;; Ok (count ++ t)
  else Ok (count ++ alphaField b_sp 16 ++ [32; 32]%N).
Definition set_catx_receiving (s name : bytes) : res bytes :=
  if 4 <? rune_count name then c <- go_slice name None (Some 4) ;; Ok (c ++ alphaField s 16 ++ [32; 32]%N)
  else Ok ([48; 48; 48; 48]%N ++ alphaField s 16 ++ [32; 32]%N).

(* SetRDFI of EntryDetail / ADVEntryDetail / IATEntryDetail *)
Definition set_rdfi (rdfi : bytes) : res (bytes * bytes) :=
  let s := stringField rdfi 9 in
  a <- go_slice s None (Some 8) ;; b <- sl s 8 9 ;; Ok (trim a, trim b).

(* addenda99.go *)
Definition iat_payment_amount (info : bytes) : res Z := t <- sl info 0 10 ;; Ok (parseNumField t).
Definition iat_addenda_information (info : bytes) : res bytes := t <- sl info 9 44 ;; Ok (alphaField t 34).
Definition a99_return_trace (info : bytes) : res bytes := sl info 3 18.
Definition a99_settlement_date (info : bytes) : res bytes := sl info 18 21.
Definition a99_reason_code (info : bytes) : res bytes := t <- sl info 21 23 ;; Ok (82%N :: t).
Definition a99_extra (info : bytes) : res bytes := go_slice info (Some 23) None.

(* batch.go aba8: rune count decides, bytes are sliced *)
Definition aba8 (rtn : bytes) : res bytes :=
  let n := rune_count rtn in
  if 10 <? n then Ok []
  else if n =? 10 then
    c <- go_index rtn 0 ;;
    if (c =? 48)%N || (c =? 49)%N then sl rtn 1 9 else Ok []
  else if negb (n =? 8) && negb (n =? 9) then Ok []
  else go_slice rtn None (Some 8).

(* addenda98.go first(size, data) *)
Definition first (size : nat) (data : bytes) : res bytes :=
  if rune_count data <? size then Ok (trim data)
  else t <- go_slice data None (Some size) ;; Ok (trim t).

(* ------------------------------------------------------------------ *)
(* the per-entry part of the batch validators that call the accessors *)

(* BatchTRC.Validate / BatchXCK.Validate *)
Definition trc_entry_check (name : bytes) : res unit :=
  p <- process_control name ;;
  if is_empty p then Err else
  r <- item_research name ;;
  if is_empty r then Err else Ok tt.

(* BatchSHR.Validate: month := SHRCardExpirationDateField()[0:2], year := …[2:4] *)
Definition shr_entry_check (idn : bytes) : res (bytes * bytes) :=
  e1 <- shr_card_exp idn ;; m <- sl e1 0 2 ;;
  e2 <- shr_card_exp idn ;; y <- sl e2 2 4 ;;
  Ok (trim m, trim y).

(* ------------------------------------------------------------------ *)
(* reader.go: what happens to one line between the scanner and the record parsers *)

Definition record_length : nat := 94.

Fixpoint ends_with_space (s : bytes) : bool :=
  match s with [] => false | [b] => (b =? 32)%N | _ :: t => ends_with_space t end.

(* strings.TrimSuffix(s, " ") *)
Definition trim_suffix_space (s : bytes) : bytes :=
  if ends_with_space s then removelast s else s.

(* trimSpacesFromLongLine: strings.TrimSuffix(s[:lineLength], " ") *)
Definition trim_long (s : bytes) : res bytes :=
  t <- go_slice s None (Some record_length) ;; Ok (trim_suffix_space t).

(* rightPadShortLine (counts characters since the C01 fix) *)
Definition right_pad (s : bytes) : res bytes :=
  let n := rune_count s in
  if record_length <? n then Err else Ok (s ++ spaces (record_length - n)).

Inductive rec_kind :=
| KFileHeader | KBatchHeaderIAT | KBatchHeader | KEntryDetail
| KAddenda (type_code change_code : bytes)
| KBatchControl | KFileControl | KPadding
| KUnknown.      (* NewErrUnknownRecordType *)

Definition iat_code : bytes := [73; 65; 84]%N.              (* "IAT" *)
Definition iatcor_code : bytes := [73; 65; 84; 67; 79; 82]%N.  (* "IATCOR" *)

(* parseLine + parseBH + the slices of parseAddenda/parseIATAddenda (r.line[1:3], r.line[3:6]),
   performed unconditionally here (the source performs them under state conditions) *)
Definition parse_line (line : bytes) : res rec_kind :=
  t <- go_slice line None (Some 1) ;;
  match t with
  | [49%N] => Ok KFileHeader
  | [53%N] =>
      (* parseBH since the C01 fix: columns counted in characters, guarded by len([]rune(line)) >= 53 *)
      let cs := map snd (chunks line) in
      if (53 <=? length cs)%nat
      then Ok (if bytes_eqb (concat (firstn 3 (skipn 50 cs))) iat_code
                  || bytes_eqb (trim (concat (firstn 16 (skipn 4 cs)))) iatcor_code
               then KBatchHeaderIAT else KBatchHeader)
      else Ok KBatchHeader
  | [54%N] => Ok KEntryDetail
  | [55%N] => tc <- sl line 1 3 ;; cc <- sl line 3 6 ;; Ok (KAddenda tc cc)
  | [56%N] => Ok KBatchControl
  | [57%N] => p <- go_slice line None (Some 2) ;;
              Ok (if bytes_eqb p [57; 57]%N then KPadding else KFileControl)
  | _ => _u <- go_slice line None (Some 1) ;; Ok KUnknown
  end.

(* processFixedWidthFile: `for i, c := range line { record += string(c); if i > 0 && (i+1)%94 == 0 {…} }`;
   i is the BYTE offset of the rune, string(c) re-encodes the decoded rune *)
Fixpoint fixed_width (cs : list (N * bytes)) (i : nat) (rec : bytes) (acc : list (bytes * rec_kind))
  : res (list (bytes * rec_kind)) :=
  match cs with
  | [] => Ok (rev acc)
  | (r, bs) :: rest =>
      let rec' := rec ++ encode_rune r in
      if (0 <? i) && ((i + 1) mod record_length =? 0)
      then k <- parse_line rec' ;; fixed_width rest (i + length bs) [] ((rec', k) :: acc)
      else fixed_width rest (i + length bs) rec' acc
  end.

(* Reader.readLine; [first] = (r.lineNum == 1).  Returns the lines handed to parseLine with their dispatch. *)
Definition read_line (first : bool) (line : bytes) : res (list (bytes * rec_kind)) :=
  let n := rune_count line in
  if first && (record_length <? n) then
    if negb (n mod record_length =? 0) then Err else fixed_width (chunks line) 0 [] []
  else if negb (n =? record_length) then
    l1 <- (if record_length <? n then trim_long line else Ok line) ;;
    l2 <- right_pad l1 ;;
    k <- parse_line l2 ;; Ok [(l2, k)]
  else k <- parse_line line ;; Ok [(line, k)].

(* all lines of a file; an error of one line does not stop the reader *)
Fixpoint read_lines (first : bool) (ls : list bytes) : res (list (list (bytes * rec_kind))) :=
  match ls with
  | [] => Ok []
  | l :: rest =>
      match read_line first l with
      | Panic => Panic
      | Err => t <- read_lines false rest ;; Ok ([] :: t)
      | Ok v => t <- read_lines false rest ;; Ok (v :: t)
      end
  end.

(* ------------------------------------------------------------------ *)
(* optional sub-records (nil-safety), as the code stands after the fix commits *)

(* reversal.go: bc := GetControl(); if bc == nil { bc = NewBatchControl() }; bc.TotalDebit… *)
Definition reversal_control {A} (dflt : A) (ctrl : option A) : res A :=
  deref (match ctrl with Some c => Some c | None => Some dflt end).

(* server: decodeSegmentFileRequest leaves file nil when the body has no "file" key;
   service.SegmentFile rejects nil before file.Create() *)
Definition segment_service {F} (file : option F) : res F :=
  match file with None => Err | Some f => deref (Some f) end.

(* file.go setBatchesFromJSON: nil entries dropped before build() dereferences each *)
Fixpoint without_nil {A} (xs : list (option A)) : list (option A) :=
  match xs with [] => [] | None :: t => without_nil t | Some a :: t => Some a :: without_nil t end.
Fixpoint deref_all {A} (xs : list (option A)) : res (list A) :=
  match xs with [] => Ok [] | x :: t => a <- deref x ;; r <- deref_all t ;; Ok (a :: r) end.
Definition json_entries {A} (xs : list (option A)) : res (list A) := deref_all (without_nil xs).

(* C06 — types of the table of partial operations the translator regenerates
   (Gen/PartialSites.v), the guard-formula semantics, the boolean checker and
   the generic soundness theorems:

     a slice / index site with literal bounds whose dominating guards imply a
     lower bound on the operand length that reaches the upper slice bound never
     panics, for ALL operand values satisfying the guards. *)
From Coq Require Import String List Bool Arith Lia.
Import ListNotations.
From ACH Require Import Utf8 Utf8Facts Fields Totality.
Open Scope nat_scope.

Inductive measure := MLen | MRune.
Inductive cmp := CLt | CLe | CGt | CGe | CEq | CNe.

(* condition of the source, restricted to what it says about one operand *)
Inductive gform :=
| FCmp (m : measure) (c : cmp) (n : nat)   (* len(x) c n  /  utf8.RuneCountInString(x) c n *)
| FAnd (a b : gform)
| FOr (a b : gform)
| FNot (a : gform)
| FOpaque.                                 (* anything else *)

Inductive operand :=
| OpPath                (* identifier / selector chain: string or slice value *)
| OpRunes               (* []rune(x) or a variable holding it; guards speak about x *)
| OpCall (f : string)   (* result of a method call without arguments, e.g. a padded …Field() accessor *)
| OpOther.

Record site := mksite {
  s_func : string;      (* pkg.Receiver.Func *)
  s_ord : nat;          (* ordinal inside the function *)
  s_kind : string;      (* slice | index | deref | unknown *)
  s_text : string;      (* normalised source text *)
  s_op : operand;
  s_lo : option nat;    (* literal bounds (index i: lo = i, hi = i+1) *)
  s_hi : option nat;
  s_guards : list gform;
  s_class : string }.   (* literal | symbolic | ranged | map-key | nil-checked | unchecked | unknown-… *)

(* ---- semantics of guard formulas on a string value *)

Definition cmp_eval (c : cmp) (a n : nat) : bool :=
  match c with
  | CLt => a <? n | CLe => a <=? n | CGt => n <? a | CGe => n <=? a
  | CEq => a =? n | CNe => negb (a =? n)
  end.

Definition cmp_neg (c : cmp) : cmp :=
  match c with CLt => CGe | CLe => CGt | CGt => CLe | CGe => CLt | CEq => CNe | CNe => CEq end.

Definition measure_of (m : measure) (x : bytes) : nat :=
  match m with MLen => length x | MRune => rune_count x end.

(* [sat x f v]: under some truth assignment of the opaque parts, f evaluates to v on x *)
Inductive sat (x : bytes) : gform -> bool -> Prop :=
| sat_cmp m c n : sat x (FCmp m c n) (cmp_eval c (measure_of m x) n)
| sat_and a b va vb : sat x a va -> sat x b vb -> sat x (FAnd a b) (va && vb)
| sat_or a b va vb : sat x a va -> sat x b vb -> sat x (FOr a b) (va || vb)
| sat_not a v : sat x a v -> sat x (FNot a) (negb v)
| sat_opaque v : sat x FOpaque v.

(* length of the operand: bytes of x, or runes of x for a []rune(x) operand *)
Definition oplen (ro : bool) (x : bytes) : nat := if ro then rune_count x else length x.

(* lower bound on the operand length implied by "measure c n" being true *)
Definition base (ro : bool) (m : measure) (c : cmp) (n : nat) : nat :=
  match ro, m with
  | true, MLen => 0      (* a byte count says nothing useful about the rune count from below *)
  | _, _ => match c with CGe => n | CGt => S n | CEq => n | CNe => if n =? 0 then 1 else 0 | _ => 0 end
  end.

Fixpoint lb (ro : bool) (pos : bool) (f : gform) : nat :=
  match f with
  | FCmp m c n => base ro m (if pos then c else cmp_neg c) n
  | FAnd a b => if pos then Nat.max (lb ro true a) (lb ro true b) else Nat.min (lb ro false a) (lb ro false b)
  | FOr a b => if pos then Nat.min (lb ro true a) (lb ro true b) else Nat.max (lb ro false a) (lb ro false b)
  | FNot a => lb ro (negb pos) a
  | FOpaque => 0
  end.

Definition lb_all (ro : bool) (gs : list gform) : nat :=
  fold_right (fun g acc => Nat.max (lb ro true g) acc) 0 gs.

Lemma cmp_neg_eval c a n : cmp_eval (cmp_neg c) a n = negb (cmp_eval c a n).
Proof.
  destruct c; cbn [cmp_neg cmp_eval];
    repeat match goal with |- context [?p <? ?q] => destruct (Nat.ltb_spec p q) end;
    repeat match goal with |- context [?p <=? ?q] => destruct (Nat.leb_spec p q) end;
    repeat match goal with |- context [?p =? ?q] => destruct (Nat.eqb_spec p q) end;
    cbn; try reflexivity; lia.
Qed.

Lemma base_sound ro m c n x :
  cmp_eval c (measure_of m x) n = true -> base ro m c n <= oplen ro x.
Proof.
  intros H. pose proof (rune_count_le x) as Hr.
  assert (Hm : ro = true /\ m = MLen \/ measure_of m x <= oplen ro x).
  { destruct ro, m; cbn [measure_of oplen]; auto; right; lia. }
  destruct Hm as [[-> ->]|Hm]; [cbn; lia|].
  assert (Hb : base ro m c n = match c with CGe => n | CGt => S n | CEq => n | CNe => if n =? 0 then 1 else 0 | _ => 0 end \/ base ro m c n = 0).
  { destruct ro, m; cbn [base]; auto. }
  destruct Hb as [Hb|Hb]; rewrite Hb; [|lia].
  destruct c; cbn [cmp_eval] in H; try lia.
  - apply Nat.ltb_lt in H. lia.
  - apply Nat.leb_le in H. lia.
  - apply Nat.eqb_eq in H. lia.
  - destruct (Nat.eqb_spec n 0) as [->|]; [|lia].
    destruct (Nat.eqb_spec (measure_of m x) 0); [discriminate|lia].
Qed.

Lemma lb_sound ro x f v : sat x f v -> lb ro v f <= oplen ro x.
Proof.
  intros H. induction H as [m c n | a b va vb _ IHa _ IHb | a b va vb _ IHa _ IHb | a v _ IH | v].
  - cbn [lb]. destruct (cmp_eval c (measure_of m x) n) eqn:E.
    + now apply base_sound.
    + apply base_sound with (c := cmp_neg c). rewrite cmp_neg_eval, E. reflexivity.
  - cbn [lb]. destruct va, vb; cbn [andb]; lia.
  - cbn [lb]. destruct va, vb; cbn [orb]; lia.
  - cbn [lb]. rewrite Bool.negb_involutive. exact IH.
  - destruct v; cbn; lia.
Qed.

Lemma lb_all_sound ro x gs : Forall (fun g => sat x g true) gs -> lb_all ro gs <= oplen ro x.
Proof.
  induction 1 as [|g gs Hg _ IH]; cbn [lb_all fold_right]; [lia|].
  pose proof (lb_sound ro x g true Hg). fold (lb_all ro gs). lia.
Qed.

(* ---- slices with literal bounds *)

Definition need (lo hi : option nat) : nat :=
  match hi with Some h => h | None => match lo with Some l => l | None => 0 end end.

Definition ordered (lo hi : option nat) : bool :=
  match lo, hi with Some a, Some b => a <=? b | _, _ => true end.

Lemma go_slice_ok {A} (l : list A) lo hi :
  ordered lo hi = true -> need lo hi <= length l -> is_panic (go_slice l lo hi) = false.
Proof.
  intros Ho Hn. unfold go_slice.
  destruct lo as [a|], hi as [b|]; cbn [need ordered] in *;
    try (apply Nat.leb_le in Ho);
    match goal with |- context [if ?c then _ else _] => destruct c eqn:E end; try reflexivity;
    exfalso; apply Bool.andb_false_iff in E as [E|E]; apply Nat.leb_gt in E; lia.
Qed.

Lemma go_slice_panics {A} (l : list A) lo hi :
  length l < need lo hi -> go_slice l lo hi = Panic.
Proof.
  intros Hn. unfold go_slice.
  destruct lo as [a|], hi as [b|]; cbn [need] in *;
    match goal with |- context [if ?c then _ else _] => destruct c eqn:E end; try reflexivity;
    exfalso; apply Bool.andb_true_iff in E as [E1 E2]; apply Nat.leb_le in E1, E2; lia.
Qed.

(* ---- padded field accessors *)

Definition conv_ok (conv : string) : bool :=
  String.eqb conv "alphaField" || String.eqb conv "stringField" || String.eqb conv "numericField".

Fixpoint lookup_width (f : string) (ws : list (string * (string * nat))) : option (string * nat) :=
  match ws with
  | [] => None
  | (k, v) :: rest => if String.eqb k f then Some v else lookup_width f rest
  end.

Lemma encode_rune_nonempty r : 1 <= length (encode_rune r).
Proof.
  unfold encode_rune.
  repeat match goal with |- context [if ?c then _ else _] => destruct c end; cbn; lia.
Qed.

Lemma encode_length_ge rs : length rs <= length (encode rs).
Proof.
  unfold encode. induction rs as [|r rs IH]; cbn [flat_map length]; [lia|].
  rewrite app_length. pose proof (encode_rune_nonempty r). lia.
Qed.

Lemma alphaField_length_ge s w : w <= length (alphaField s w).
Proof.
  unfold alphaField. destruct (Nat.ltb_spec w (rune_count s)) as [H|H].
  - unfold rune_prefix. etransitivity; [|apply encode_length_ge].
    rewrite firstn_length. unfold runes. rewrite map_length. fold (rune_count s). lia.
  - rewrite app_length. unfold spaces. rewrite repeat_length. pose proof (rune_count_le s). lia.
Qed.

Lemma stringField_length_ge s w : w <= length (stringField s w).
Proof.
  unfold stringField. destruct (Nat.ltb_spec w (rune_count s)) as [H|H].
  - unfold rune_prefix. etransitivity; [|apply encode_length_ge].
    rewrite firstn_length. unfold runes. rewrite map_length. fold (rune_count s). lia.
  - rewrite app_length. unfold zeros. rewrite repeat_length. pose proof (rune_count_le s). lia.
Qed.

Lemma numericField_length z w : length (numericField z w) = w.
Proof.
  unfold numericField. destruct (Nat.ltb_spec w (length (itoa z))) as [H|H].
  - rewrite skipn_length. lia.
  - rewrite app_length. unfold zeros. rewrite repeat_length. lia.
Qed.

(* ---- the checker *)

Definition is_kind (s : site) (k : string) : bool := String.eqb (s_kind s) k.
Definition is_class (s : site) (k : string) : bool := String.eqb (s_class s) k.

(* safety that follows from the table alone *)
Definition site_auto_safe (ws : list (string * (string * nat))) (s : site) : bool :=
  (is_kind s "slice" || is_kind s "index") && is_class s "literal" && ordered (s_lo s) (s_hi s) &&
  match s_op s with
  | OpPath => need (s_lo s) (s_hi s) <=? lb_all false (s_guards s)
  | OpRunes => need (s_lo s) (s_hi s) <=? lb_all true (s_guards s)
  | OpCall f =>
      match lookup_width f ws with
      | Some (conv, w) => conv_ok conv && (need (s_lo s) (s_hi s) <=? w) && (w <=? 94)
      | None => false
      end
  | OpOther => false
  end.

(* which sites carry an obligation at all *)
Definition site_needs (s : site) : bool :=
  if is_kind s "slice" then true
  else if is_kind s "index" then negb (is_class s "ranged" || is_class s "map-key")
  else if is_kind s "deref" then negb (is_class s "nil-checked")
  else true.   (* unknown syntax: always an obligation, never discharged automatically *)

Record acct := mkacct { a_func : string; a_text : string; a_why : string }.

Definition acct_matches (s : site) (a : acct) : bool :=
  String.eqb (a_func a) (s_func s) && String.eqb (a_text a) (s_text s).

Definition site_ok (ws : list (string * (string * nat))) (accounted : list acct) (s : site) : bool :=
  negb (site_needs s) || site_auto_safe ws s
  || (negb (String.eqb (s_kind s) "unknown") && existsb (acct_matches s) accounted).

Definition sites_covered ws accounted (t : list site) : bool := forallb (site_ok ws accounted) t.

(* every accounted entry still corresponds to a site of the current source *)
Definition accounted_live (accounted : list acct) (t : list site) : bool :=
  forallb (fun a => existsb (fun s => acct_matches s a) t) accounted.

(* ---- generic soundness *)

Theorem auto_safe_path ws s : site_auto_safe ws s = true -> s_op s = OpPath ->
  forall x : bytes, Forall (fun g => sat x g true) (s_guards s) ->
  is_panic (go_slice x (s_lo s) (s_hi s)) = false.
Proof.
  intros H Hop x Hg. unfold site_auto_safe in H. rewrite Hop in H.
  apply andb_prop in H as [H Hn]. apply andb_prop in H as [_ Ho].
  apply Nat.leb_le in Hn. apply go_slice_ok; [exact Ho|].
  pose proof (lb_all_sound false x _ Hg). cbn [oplen] in *. lia.
Qed.

Theorem auto_safe_runes ws s : site_auto_safe ws s = true -> s_op s = OpRunes ->
  forall x : bytes, Forall (fun g => sat x g true) (s_guards s) ->
  is_panic (go_slice (runes x) (s_lo s) (s_hi s)) = false.
Proof.
  intros H Hop x Hg. unfold site_auto_safe in H. rewrite Hop in H.
  apply andb_prop in H as [H Hn]. apply andb_prop in H as [_ Ho].
  apply Nat.leb_le in Hn. apply go_slice_ok; [exact Ho|].
  pose proof (lb_all_sound true x _ Hg). cbn [oplen] in *.
  unfold runes. rewrite map_length. fold (rune_count x). lia.
Qed.

(* the value a padded accessor returns, for every underlying field value *)
Definition conv_apply (conv : string) (v : bytes) (z : Z) (w : nat) : bytes :=
  if String.eqb conv "alphaField" then alphaField v w
  else if String.eqb conv "stringField" then stringField v w
  else numericField z w.

Theorem auto_safe_call ws s f : site_auto_safe ws s = true -> s_op s = OpCall f ->
  exists conv w, lookup_width f ws = Some (conv, w) /\
  forall (v : bytes) (z : Z), is_panic (go_slice (conv_apply conv v z w) (s_lo s) (s_hi s)) = false.
Proof.
  intros H Hop. unfold site_auto_safe in H. rewrite Hop in H.
  apply andb_prop in H as [H Hc]. apply andb_prop in H as [_ Ho].
  destruct (lookup_width f ws) as [[conv w]|]; [|discriminate].
  exists conv, w. split; [reflexivity|]. intros v z.
  apply andb_prop in Hc as [Hc _]. apply andb_prop in Hc as [_ Hn]. apply Nat.leb_le in Hn.
  apply go_slice_ok; [exact Ho|]. unfold conv_apply.
  destruct (String.eqb conv "alphaField"); [pose proof (alphaField_length_ge v w); lia|].
  destruct (String.eqb conv "stringField"); [pose proof (stringField_length_ge v w); lia|].
  rewrite numericField_length. lia.
Qed.

(* coverage: an obligation-carrying site is discharged by the table or listed *)
Theorem sites_covered_sound ws accounted t : sites_covered ws accounted t = true ->
  forall s, In s t -> site_needs s = true ->
  site_auto_safe ws s = true \/ exists a, In a accounted /\ a_func a = s_func s /\ a_text a = s_text s.
Proof.
  intros H s Hs Hn. unfold sites_covered in H. rewrite forallb_forall in H. specialize (H s Hs).
  unfold site_ok in H. rewrite Hn in H. cbn [negb orb] in H.
  apply orb_prop in H as [H|H]; [now left|right].
  apply andb_prop in H as [_ H]. apply existsb_exists in H as (a & Ha & Hm).
  unfold acct_matches in Hm. apply andb_prop in Hm as [H1 H2].
  apply String.eqb_eq in H1, H2. now exists a.
Qed.

(* an unguarded literal slice panics on a value one byte short of its bound *)
Theorem unguarded_witness lo hi : 0 < need lo hi ->
  go_slice (repeat 55%N (need lo hi - 1)) lo hi = Panic.
Proof. intros H. apply go_slice_panics. rewrite repeat_length. lia. Qed.

(* ---- the Gallina slicers of Totality.v carry the same bounds and guards as the source *)

Definition measure_eqb (a b : measure) : bool :=
  match a, b with MLen, MLen | MRune, MRune => true | _, _ => false end.
Definition cmp_eqb (a b : cmp) : bool :=
  match a, b with
  | CLt, CLt | CLe, CLe | CGt, CGt | CGe, CGe | CEq, CEq | CNe, CNe => true
  | _, _ => false
  end.
Fixpoint gform_eqb (a b : gform) : bool :=
  match a, b with
  | FCmp m c n, FCmp m' c' n' => measure_eqb m m' && cmp_eqb c c' && (n =? n')
  | FAnd x y, FAnd x' y' => gform_eqb x x' && gform_eqb y y'
  | FOr x y, FOr x' y' => gform_eqb x x' && gform_eqb y y'
  | FNot x, FNot x' => gform_eqb x x'
  | FOpaque, FOpaque => true
  | _, _ => false
  end.
Fixpoint gforms_eqb (a b : list gform) : bool :=
  match a, b with
  | [], [] => true
  | x :: a', y :: b' => gform_eqb x y && gforms_eqb a' b'
  | _, _ => false
  end.
Definition onat_eqb (a b : option nat) : bool :=
  match a, b with Some x, Some y => x =? y | None, None => true | _, _ => false end.

(* what the model assumes about one slice of the source *)
Record msite := mkmsite { m_func : string; m_lo : option nat; m_hi : option nat; m_guards : list gform }.

Definition msite_matches (m : msite) (s : site) : bool :=
  String.eqb (m_func m) (s_func s) && (is_kind s "slice" || is_kind s "index")
  && onat_eqb (m_lo m) (s_lo s) && onat_eqb (m_hi m) (s_hi s) && gforms_eqb (m_guards m) (s_guards s).

(* every modelled site is in the table with exactly these bounds and guards, and the modelled
   functions contain no further slice or index expression *)
Definition model_sites_ok (ms : list msite) (t : list site) : bool :=
  forallb (fun m => existsb (msite_matches m) t) ms
  && forallb (fun s => negb (is_kind s "slice" || is_kind s "index")
                       || negb (existsb (fun m => String.eqb (m_func m) (s_func s)) ms)
                       || existsb (fun m => msite_matches m s) ms) t.

(* C12, phase 4 — what file_flattener.go does with the ValidateOpts stored on the
   file and on its batches: the smallest extension of the model of Flatten.v.
   Executable definitions only (proofs: FlattenOptsFacts.v).

   Literally from the source (the statements are pinned by the regenerated table
   Gen/OptSites.v, checked in Oblig/C12OptsObl.v):
   - a batch carries the *ValidateOpts stored on it with SetValidation ([bo_opts];
     the option value and ValidateOpts.merge are those of the merge model,
     MergeOpts.vopts / MergeOpts.omerge: nil on either side returns the other
     value, otherwise the boolean fields are ORed and the CheckTransactionCode
     of [other] wins when it is not nil);
   - Copy(): NewBatch(&header) / NewIATBatch(&header) — a batch without options —
     followed by Consume(self);
   - Consume(c), behind the same type assertion as the transfer of the entries:
       m.batcher.SetValidation(batchValidation(m.batcher).merge(batchValidation(c)))
       m.iatBatch.SetValidation(m.iatBatch.validateOpts.merge(c.validateOpts))
     (since 41f38276; [consume_unfixed] is the code before it: no statement at all);
   - Flatten: newFile.SetValidation(originalFile.GetValidation()).
   Sorting, renumbering and the split into Batches / IATBatches move batches as a
   whole. *)
From Coq Require Import List ZArith Bool.
Import ListNotations.
From ACH Require Import Bytes Flatten.
From ACH Require MergeOpts.

Notation vopts := MergeOpts.vopts.
Notation omerge := MergeOpts.omerge.

Record batcho := mkBO { bo_batch : batch; bo_opts : vopts }.

Definition bo_kind (b : batcho) : kind := b_kind (bo_batch b).

(* m.Consume(c) *)
Definition consume_o (m c : batcho) : batcho :=
  if kind_eqb (bo_kind m) (bo_kind c)
  then mkBO (consume (bo_batch m) (bo_batch c)) (omerge (bo_opts m) (bo_opts c))
  else m.

(* the code before 41f38276: the entries are transferred, the options are not *)
Definition consume_unfixed (m c : batcho) : batcho :=
  mkBO (consume (bo_batch m) (bo_batch c)) (bo_opts m).

Section Loop.
  (* the Consume in force: [consume_o], or [consume_unfixed] for the refuted statement *)
  Variable cons : batcho -> batcho -> batcho.

  Definition copy_o (b : batcho) : batcho :=
    cons (mkBO (mkBatch (bo_kind b) (b_sig (bo_batch b)) (b_num (bo_batch b)) [] []) None) b.

  Fixpoint merge_into_o (b : batcho) (g : list batcho) : option (list batcho) :=
    match g with
    | [] => None
    | m :: g' =>
        if can_merge (bo_batch b) (bo_batch m) then Some (cons m b :: g')
        else match merge_into_o b g' with
             | Some g'' => Some (m :: g'')
             | None => None
             end
    end.

  Definition place_o (b : batcho) (g : list batcho) : list batcho :=
    match merge_into_o b g with
    | Some g' => g'
    | None => g ++ [copy_o b]
    end.

  Fixpoint step_o (b : batcho) (gs : list (bytes * list batcho)) : list (bytes * list batcho) :=
    match gs with
    | [] => [(b_sig (bo_batch b), place_o b [])]
    | (s, g) :: gs' =>
        if bytes_eqb s (b_sig (bo_batch b)) then (s, place_o b g) :: gs' else (s, g) :: step_o b gs'
    end.

  Definition run_o (order : list batcho) : list (bytes * list batcho) :=
    fold_left (fun gs b => step_o b gs) order [].
End Loop.

Definition all_batches_o (gs : list (bytes * list batcho)) : list batcho := concat (map snd gs).

(* ---- building the new file: the batch moves with its options *)
Definition on_batch (lt : batch -> batch -> bool) (a b : batcho) : bool := lt (bo_batch a) (bo_batch b).

Definition sort_entries_o (b : batcho) : batcho := mkBO (sort_entries (bo_batch b)) (bo_opts b).

Fixpoint renumber_o (n : Z) (l : list batcho) : list batcho :=
  match l with
  | [] => []
  | b :: l' =>
      mkBO (mkBatch (bo_kind b) (b_sig (bo_batch b)) n (b_entries (bo_batch b)) (b_adv (bo_batch b))) (bo_opts b)
      :: renumber_o (n + 1) l'
  end.

Definition finalize_o (all : list batcho) : list batcho :=
  let s := map sort_entries_o (sort_by (on_batch num_ltb) all) in
  renumber_o 1 (filter (fun b => is_std (bo_batch b)) s ++ filter (fun b => is_iat (bo_batch b)) s).

(* a file: the options stored on it and its batches (Batches, then IATBatches) *)
Record fileo := mkFO { fo_opts : vopts; fo_batches : list batcho }.

(* Flatten for at most 12 batches (stable order), and with the harness' order hint *)
Definition flatten_o_stable (f : fileo) : fileo :=
  mkFO (fo_opts f) (finalize_o (all_batches_o (run_o consume_o (sort_by (on_batch count_ltb) (fo_batches f))))).

Definition dummy_batcho : batcho := mkBO dummy_batch None.

Definition apply_hint_o (inp : list batcho) (hint : list nat) : list batcho :=
  map (fun i => nth i inp dummy_batcho) hint.

Definition flatten_o_hint (f : fileo) (hint : list nat) : option fileo :=
  if perm_hintb (length (fo_batches f)) hint && sorted_countb (map bo_batch (apply_hint_o (fo_batches f) hint))
  then Some (mkFO (fo_opts f) (finalize_o (all_batches_o (run_o consume_o (apply_hint_o (fo_batches f) hint)))))
  else None.

(* the code before 41f38276 *)
Definition flatten_unfixed_stable (f : fileo) : fileo :=
  mkFO (fo_opts f) (finalize_o (all_batches_o (run_o consume_unfixed (sort_by (on_batch count_ltb) (fo_batches f))))).

(* what the correspondence compares: the option value of every batch of the result,
   in the order of the result (the batches themselves are compared by C12's own
   correspondence), and the option value of the new file *)
Definition opts_view (f : fileo) : vopts * list vopts := (fo_opts f, map bo_opts (fo_batches f)).
Definition flatten_o_stable_view (f : fileo) : vopts * list vopts := opts_view (flatten_o_stable f).
Definition flatten_o_hint_view (f : fileo) (hint : list nat) : option (vopts * list vopts) :=
  option_map opts_view (flatten_o_hint f hint).

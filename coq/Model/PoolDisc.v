(* C19 — types of the table regenerated from the Go source (Gen/PoolTable.v), its
   boolean checker, and the generic soundness theorem: a thread that performs any
   sequence of calls to table-approved getBuffer users is a disciplined program of
   the pool machine (Pool.v), hence (PoolFacts.v) not interfered with. *)
From Coq Require Import String List Bool Arith.
Import ListNotations.
From ACH Require Import Pool PoolFacts.
Open Scope string_scope.

Record user := mkuser {
  u_func : string;            (* function holding the getBuffer() call, e.g. "EntryDetail.Parse" *)
  u_var : string;             (* the local variable the buffer is bound to *)
  u_defer_next : bool;        (* `defer saveBuffer(v)` is the statement right after `v := getBuffer()` *)
  u_top : bool;               (* ... and both are direct statements of the function body *)
  u_ops : list string;        (* methods invoked on v (source order) *)
  u_escapes : list string;    (* every other use of v: return, arg:f, assign, go, store, closure-escapes:f, ... *)
  u_unknown : bool }.         (* call site the translator could not classify *)

Record gvar := mkgvar {
  g_pkg : string;
  g_name : string;
  g_kind : string;
  g_writers : list string;    (* functions assigning it (or an element / field of it) outside its declaration and init() *)
  g_addr : list string;       (* functions taking its address *)
  g_passed : list string;     (* callees a map/slice/pointer-kind variable is handed to *)
  g_methods : list string }.  (* methods called on it *)

Definition mems (s : string) (l : list string) : bool := existsb (String.eqb s) l.

(* bytes.Buffer methods that neither expose the backing array nor retain the buffer *)
Definition write_ops : list string := ["Write"; "WriteString"; "WriteByte"; "WriteRune"; "Truncate"; "Grow"].
Definition read_ops : list string := ["String"; "Len"; "Cap"].
Definition allowed_op (m : string) : bool := mems m write_ops || mems m read_ops || String.eqb m "Reset".

Definition is_nil {A} (l : list A) : bool := match l with [] => true | _ => false end.

Definition user_ok (u : user) : bool :=
  u_defer_next u && u_top u && negb (u_unknown u) && forallb allowed_op (u_ops u) && is_nil (u_escapes u).

(* byteBufferPool is mentioned only by its declaration, getBuffer (Get) and saveBuffer (Put) *)
Definition prim_eqb (p q : string * string) : bool := String.eqb (fst p) (fst q) && String.eqb (snd p) (snd q).
Definition prims_ok (ps : list (string * string)) : bool :=
  forallb (fun p => existsb (prim_eqb p) [("<decl>", "decl"); ("getBuffer", "Get"); ("saveBuffer", "Put")]) ps
  && existsb (prim_eqb ("getBuffer", "Get")) ps && existsb (prim_eqb ("saveBuffer", "Put")) ps.

(* saveBuffer ends with Reset immediately followed by Put, and before that only harmless methods *)
Definition save_ok (ops : list string) : bool :=
  match rev ops with
  | "Put" :: "Reset" :: rest => forallb allowed_op rest
  | _ => false
  end.

Definition get_ok (rets : list string) : bool :=
  negb (is_nil rets) && forallb (fun r => String.eqb r "got" || String.eqb r "new") rets.
Definition new_ok (rets : list string) : bool :=
  negb (is_nil rets) && forallb (String.eqb "fresh") rets.

(* methods of types documented as safe for concurrent use (sync.Pool, *regexp.Regexp,
   go-kit/prometheus counters, error values) *)
Definition safe_methods : list string := ["Get"; "Put"; "MatchString"; "Error"; "With"; "Add"].

Definition gvar_ok (g : gvar) : bool :=
  is_nil (g_writers g) && is_nil (g_addr g) && is_nil (g_passed g)
  && forallb (fun m => mems m safe_methods) (g_methods g)
  && negb (String.eqb (g_kind g) "unknown").

(* the table must still list what the property is anchored in *)
Definition required_users : list string :=
  ["EntryDetail.Parse"; "EntryDetail.String"; "BatchHeader.Parse"; "BatchHeader.String";
   "FileControl.Parse"; "FileControl.String"; "Addenda98.String"; "Addenda99.String"; "Reader.Read"].
Definition required_globals : list (string * string) :=
  [("ach", "byteBufferPool"); ("ach", "spaceZeros"); ("ach", "stringZeros"); ("ach", "changeCodeDict");
   ("ach", "returnCodeDict"); ("server", "filesCreated"); ("server", "filesDeleted")].

Definition table_complete (us : list user) (gs : list gvar) : bool :=
  forallb (fun f => existsb (fun u => String.eqb (u_func u) f) us) required_users
  && forallb (fun p => existsb (fun g => String.eqb (g_pkg g) (fst p) && String.eqb (g_name g) (snd p)) gs) required_globals.

Definition users_ok (us : list user) : bool := forallb user_ok us.
Definition globals_ok (gs : list gvar) : bool := forallb gvar_ok gs.

Definition pool_table_ok (us : list user) (ps : list (string * string)) (sv gt nw : list string) (gs : list gvar) : bool :=
  users_ok us && prims_ok ps && save_ok sv && get_ok gt && new_ok nw && globals_ok gs && table_complete us gs.

(* ---- from table entries to programs of the pool machine ---- *)
Section Sound.
Variable Loc : Type.
Variable Glob : Type.
(* what each method does to the buffer / to the caller's private state: arbitrary *)
Variable fw : string -> string -> Loc -> buf -> buf.
Variable fr : string -> string -> Loc -> buf -> Loc.

(* one method call on the innermost held buffer; a method outside the allowed set is
   given an index that is out of scope (it may touch memory the caller does not own) *)
Definition op_stm (fn m : string) (k : stm Loc Glob) : stm Loc Glob :=
  if mems m write_ops then SWrite 0 (fw fn m) k
  else if mems m read_ops then SRead 0 (fr fn m) k
  else if String.eqb m "Reset" then SReset 0 k
  else SWrite 1 (fw fn m) k.

(* a call of user [u] followed by [k]: the borrow shape if the site has it, otherwise
   an access outside any borrow *)
Definition user_stm (u : user) (k : stm Loc Glob) : stm Loc Glob :=
  if u_defer_next u && u_top u && negb (u_unknown u) && is_nil (u_escapes u)
  then SBorrow (fold_right (op_stm (u_func u)) SDone (u_ops u)) k
  else SWrite 0 (fw (u_func u) "escape") k.

Definition thread_stm (calls : list user) : stm Loc Glob := fold_right user_stm SDone calls.
Definition thread_prog (calls : list user) : prog Loc Glob := compile 0 (thread_stm calls) PDone.

Lemma ops_wf fn ops : forallb allowed_op ops = true -> wf 1 (fold_right (op_stm fn) SDone ops) = true.
Proof.
  induction ops as [|m ops IH]; intros H; [reflexivity|].
  cbn [forallb] in H. apply andb_prop in H as [Hm H]. cbn [fold_right]. unfold op_stm.
  destruct (mems m write_ops) eqn:Ew; [cbn [wf]; apply andb_true_intro; split; [reflexivity|now apply IH]|].
  destruct (mems m read_ops) eqn:Er; [cbn [wf]; apply andb_true_intro; split; [reflexivity|now apply IH]|].
  destruct (String.eqb m "Reset") eqn:Es; [cbn [wf]; apply andb_true_intro; split; [reflexivity|now apply IH]|].
  unfold allowed_op in Hm. rewrite Ew, Er, Es in Hm. discriminate.
Qed.

Lemma user_stm_wf u k : user_ok u = true -> wf 0 k = true -> wf 0 (user_stm u k) = true.
Proof.
  unfold user_ok, user_stm. intros H Hk.
  apply andb_prop in H as [H He]. apply andb_prop in H as [H Ho].
  rewrite H, He. cbn [andb wf]. apply andb_true_intro. split; [now apply ops_wf|exact Hk].
Qed.

Lemma mem_user_ok us u : users_ok us = true -> In u us -> user_ok u = true.
Proof. unfold users_ok. rewrite forallb_forall. auto. Qed.

Theorem table_thread_disciplined us calls :
  users_ok us = true -> (forall u, In u calls -> In u us) -> disciplined (thread_prog calls) = true.
Proof.
  intros Hus Hin. unfold thread_prog. apply borrow_shape_disciplined.
  induction calls as [|u calls IH]; [reflexivity|].
  cbn [thread_stm fold_right]. apply user_stm_wf.
  - apply (mem_user_ok us); [exact Hus|]. apply Hin. now left.
  - apply IH. intros v Hv. apply Hin. now right.
Qed.

(* every goroutine runs any sequence of table users; under every schedule a finished
   goroutine holds exactly the result of its solo run, and the shared tables are intact *)
Theorem table_noninterference us (calls : tid -> list user) l0 G warm :
  users_ok us = true -> (forall t u, In u (calls t) -> In u us) ->
  forall sc,
    let g := run sc (ginit (fun t => thread_prog (calls t)) l0 G warm) in
    (forall t, pc (th g t) = PDone -> loc (th g t) = sloc (solo_final (thread_prog (calls t)) (l0 t) G)) /\
    glob g = G /\
    (forall b, In b (pool g) -> heap g b = []).
Proof.
  intros Hus Hin sc.
  assert (HP : forall t, disciplined (thread_prog (calls t)) = true).
  { intros t. apply (table_thread_disciplined us); [exact Hus|apply Hin]. }
  cbn zeta. split; [|split].
  - intros t Hd. now apply pool_final_result.
  - apply (pool_invariant Loc Glob _ l0 G warm HP sc).
  - intros b Hb. now apply (pool_invariant Loc Glob _ l0 G warm HP sc).
Qed.

End Sound.

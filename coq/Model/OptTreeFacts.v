(* C15 — proofs about the concrete option-guard model of the library (Model/OptTree.v). *)
From Coq Require Import List Bool String Arith.
Import ListNotations.
From ACH Require Import OptMono OptMonoFacts OptTree.

Lemma clause_eqb_eq a b : clause_eqb a b = true -> a = b.
Proof.
  unfold clause_eqb. revert b. induction a as [|x a IH]; intros [|y b]; cbn; try discriminate; [reflexivity|].
  intros H. apply andb_prop in H as [Hl H]. apply andb_prop in H as [Hxy H].
  apply flag_eqb_eq in Hxy. subst y. f_equal. apply IH. now rewrite Hl, H.
Qed.

Lemma incl_b_sound l m : incl_b l m = true -> incl l m.
Proof.
  unfold incl_b. rewrite forallb_forall. intros H c Hc. specialize (H c Hc).
  apply existsb_exists in H as (c' & Hc' & E). apply clause_eqb_eq in E. now subst.
Qed.

(* the clause inventory does not depend on the data *)
Lemma model_clauses_static D : model_clauses_of D = model_family.
Proof. reflexivity. Qed.

Lemma model_sites_static D : model_sites_of D = model_sites.
Proof. reflexivity. Qed.

Ltac incl_family := apply incl_b_sound; vm_compute; reflexivity.

Lemma leaf_clauses D k : incl (clauses (t_leaf D k) [] ++ [[]] ++ [[]]) model_family.
Proof. destruct k; incl_family. Qed.

(* every check the reader can run on a line carries a clause of the family *)
Lemma prep_clauses D s l : incl (pclauses (prep D s l)) model_family.
Proof.
  unfold prep, close_batch, close_iat, ok, bad.
  destruct (rectype_of D l).
  - destruct (s_header_unset D s); incl_family.
  - destruct (s_has_cur D s && s_cur_empty D s); [incl_family|].
    destruct (l_is_iat_header D l); [incl_family|].
    cbn [pclauses]. destruct (s_new_batch D _ _); incl_family.
  - destruct (s_has_iat D s); [incl_family|].
    destruct (negb (s_has_cur D s)); [incl_family|].
    destruct (s_cur_isADV D s); incl_family.
  - destruct (parse_addenda D s l) as [[[k r] s1]|]; [|incl_family].
    cbn [pclauses]. apply leaf_clauses.
  - destruct (s_has_cur D s).
    + destruct (s_cur_isADV D s); incl_family.
    + destruct (s_has_iat D s); incl_family.
  - destruct (f_isADV D (s_file D s)).
    + destruct (s_advcontrol_unset D s); incl_family.
    + destruct (s_control_unset D s); incl_family.
  - incl_family.
  - incl_family.
Qed.

Lemma final_clauses D : incl (clauses (t_final D) []) model_family.
Proof. incl_family. Qed.

Lemma ach_fails_in_family D s0 ls : incl (mfails (prep D) (t_final D) s0 ls) model_family.
Proof. apply mfails_incl; [apply prep_clauses|apply final_clauses]. Qed.

(* ---- the theorems about accept(O, text) *)
Theorem ach_accept_cnf D o s0 ls :
  ach_accept D o s0 ls = forallb (skip o) (mfails (prep D) (t_final D) s0 ls).
Proof. apply accept_cnf. Qed.

Theorem ach_accept_mono D o o' s0 ls :
  le o o' -> ach_accept D o s0 ls = true -> ach_accept D o' s0 ls = true.
Proof. apply accept_mono. Qed.

Theorem ach_accept_predict D o s0 ls :
  ach_accept D o s0 ls = predict model_family (fun G => ach_accept D (all_but G) s0 ls) o.
Proof. apply accept_predict, ach_fails_in_family. Qed.

(* the extracted driver computes exactly this prediction *)
Lemma flags_of_idx_idx l : flags_of_idx (map flag_idx l) = l.
Proof.
  induction l as [|f l IH]; [reflexivity|]. cbn [map flags_of_idx flat_map].
  change (flat_map _ (map flag_idx l)) with (flags_of_idx (map flag_idx l)). rewrite IH.
  destruct f; reflexivity.
Qed.

Theorem model_predict_spec D s0 ls (on : list flag) :
  model_predict (map (fun G => ach_accept D (all_but G) s0 ls) model_family) (map flag_idx on)
  = ach_accept D (opts_of on) s0 ls.
Proof.
  unfold model_predict. rewrite flags_of_idx_idx, predict_l_spec. symmetry. apply ach_accept_predict.
Qed.

(* the validators on their own (objects not produced by the reader) *)
Theorem file_validate_mono D o o' f :
  le o o' -> run (t_File_ValidateWith D) o f = true -> run (t_File_ValidateWith D) o' f = true.
Proof. apply run_mono. Qed.

Theorem batch_validate_mono D o o' b :
  le o o' -> run (t_Batch_Validate D) o b = true -> run (t_Batch_Validate D) o' b = true.
Proof. apply run_mono. Qed.

Theorem iat_batch_validate_mono D o o' b :
  le o o' -> run (t_IATBatch_Validate D) o b = true -> run (t_IATBatch_Validate D) o' b = true.
Proof. apply run_mono. Qed.

Theorem file_create_prelude_mono D o o' f :
  le o o' -> run (t_File_Create_prelude D) o f = true -> run (t_File_Create_prelude D) o' f = true.
Proof. apply run_mono. Qed.

(* ---- non-vacuity: an instance where the hypothesis holds, and where a flag matters *)
Definition demo_sig : Sig := base_sig false RFileHeader true.   (* one header line whose origin check fails *)

Example demo_strict :
  ach_accept demo_sig (opts_of [AllowMissingFileHeader]) tt [tt] = false
  /\ ach_accept demo_sig (opts_of [AllowMissingFileHeader; BypassOriginValidation]) tt [tt] = true
  /\ le (opts_of [AllowMissingFileHeader]) (opts_of [AllowMissingFileHeader; BypassOriginValidation]).
Proof.
  split; [vm_compute; reflexivity|]. split; [vm_compute; reflexivity|].
  apply le_opts_of. intros f [<-|[]]. now left.
Qed.

Example demo_accept_hypothesis :
  ach_accept unit_sig none_on tt [tt; tt] = true /\ le none_on (opts_of [CustomTraceNumbers]).
Proof. split; [vm_compute; reflexivity|apply le_none]. Qed.

Example demo_fails :
  mfails (prep demo_sig) (t_final demo_sig) tt [tt] = [[BypassOriginValidation]; [AllowMissingFileHeader]; [AllowMissingFileHeader; BypassOriginValidation]].
Proof. vm_compute. reflexivity. Qed.

(* a guard whose polarity is inverted (check runs only when the flag is ON) is not
   expressible as a tree; as a plain function it is not monotone: *)
Definition inverted_guard (o : opts) (check_digit_ok : bool) : bool :=
  negb (o AllowInvalidCheckDigit) || check_digit_ok.
Example inverted_guard_refuted :
  exists o o' x, le o o' /\ inverted_guard o x = true /\ inverted_guard o' x = false.
Proof.
  exists none_on, (opts_of [AllowInvalidCheckDigit]), false.
  split; [apply le_none|]. split; vm_compute; reflexivity.
Qed.

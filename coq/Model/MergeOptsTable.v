(* Types of the table the translator regenerates for the option part of the merge model
   (coq/Gen/MergeOptsGen.v from file.go, merge.go, batch.go, entryDetail.go), boolean
   checkers, and what a checked table says about the model's [omerge].

   - the struct ValidateOpts: its boolean fields, in declaration order, are the positions of
     the model's option vectors; the only other field is one function value;
   - ValidateOpts.merge: two nil guards returning the other operand, a literal that ORs every
     boolean field of the two operands, then "the function of v, overridden by the function
     of other" -- which is [omerge] read field by field ([merge_shape_sound]);
   - the places of merge.go that move option values around, compared with the list the model
     (MergeOpts.v) was written against (the two `batch.GetHeader().SetValidation(...)` calls
     give the new batch header the options of the header it is a copy of; header options are
     not part of the model);
   - the source of the trace-number code of Batch.build / Batch.verify, compared likewise. *)
From Coq Require Import String List Bool Arith NArith.
From ACH Require Import MergeOpts MergeOptsFacts.
Import ListNotations.
Open Scope string_scope.

Inductive mop := MOr (l r : string) | MAnd (l r : string) | MUnknown.

Record flow_site := mkflow { fl_func : string; fl_path : string; fl_kind : string; fl_text : string }.

Fixpoint slist_eqb (a b : list string) : bool :=
  match a, b with
  | [], [] => true
  | x :: a', y :: b' => String.eqb x y && slist_eqb a' b'
  | _, _ => false
  end.

Fixpoint spairs_eqb (a b : list (string * string)) : bool :=
  match a, b with
  | [], [] => true
  | (x, t) :: a', (y, u) :: b' => String.eqb x y && String.eqb t u && spairs_eqb a' b'
  | _, _ => false
  end.

Definition flow_eqb (a b : flow_site) : bool :=
  String.eqb (fl_func a) (fl_func b) && String.eqb (fl_path a) (fl_path b)
  && String.eqb (fl_kind a) (fl_kind b) && String.eqb (fl_text a) (fl_text b).

Fixpoint flows_eqb (a b : list flow_site) : bool :=
  match a, b with
  | [], [] => true
  | x :: a', y :: b' => flow_eqb x y && flows_eqb a' b'
  | _, _ => false
  end.

(* ---------------------------------------------------------------- the struct *)

Definition bool_fields (fs : list (string * string)) : list string :=
  map fst (filter (fun p => String.eqb (snd p) "bool") fs).
Definition other_fields (fs : list (string * string)) : list (string * string) :=
  filter (fun p => negb (String.eqb (snd p) "bool")) fs.

(* the two positions the model reads are the fields Batch.build / Batch.verify read;
   everything that is not a bool is the one function field *)
Definition struct_ok (fs : list (string * string)) : bool :=
  match nth_error (bool_fields fs) ix_bypass_origin, nth_error (bool_fields fs) ix_custom_trace with
  | Some a, Some b => String.eqb a "BypassOriginValidation" && String.eqb b "CustomTraceNumbers"
  | _, _ => false
  end
  && spairs_eqb (other_fields fs) [("CheckTransactionCode", "func")].

(* ---------------------------------------------------------------- ValidateOpts.merge *)

Definition mop_is_or (recv param : string) (m : mop) : bool :=
  match m with
  | MOr l r => (String.eqb l recv && String.eqb r param) || (String.eqb l param && String.eqb r recv)
  | _ => false
  end.

Definition merge_shape_ok (fs : list (string * string)) (recv param : string)
    (guards : list (string * string)) (lit : list (string * mop)) (post : list (string * string))
    (rest : list string) : bool :=
  negb (String.eqb recv param)
  (* if v == nil { return other }; if other == nil { return v } *)
  && spairs_eqb guards [(recv, param); (param, recv)]
  (* the literal names exactly the boolean fields, once each, every one as v.F || other.F *)
  && slist_eqb (map fst lit) (bool_fields fs)
  && forallb (fun p => mop_is_or recv param (snd p)) lit
  (* afterwards: the function of v, then overridden by the function of other *)
  && spairs_eqb post (flat_map (fun p => [(fst p, recv); (fst p, param)]) (other_fields fs))
  && match rest with [] => true | _ => false end.

(* reading of a checked table: the value of field number i of the result, and the function
   of the result, as the source computes them from the values of the operands *)
Definition src_merge_flag (lit : list (string * mop)) (i : nat) (a b : flags) : bool :=
  match nth_error lit i with
  | Some (_, MOr _ _) => vget i a || vget i b
  | Some (_, MAnd _ _) => vget i a && vget i b
  | _ => false
  end.

(* post = [(F, v); (F, other)]: out.F = v.F when not nil, then out.F = other.F when not nil *)
Definition src_merge_func (recv : string) (post : list (string * string)) (a b : option N) : option N :=
  fold_left (fun acc p => let x := if String.eqb (snd p) recv then a else b in
                          match x with Some g => Some g | None => acc end) post None.

Lemma merge_shape_flag fs recv param guards lit post rest i a b :
  merge_shape_ok fs recv param guards lit post rest = true ->
  (i < length lit)%nat ->
  src_merge_flag lit i (o_flags a) (o_flags b)
  = oflag i (omerge (Some a) (Some b)).
Proof.
  unfold merge_shape_ok. rewrite !andb_true_iff. intros (((((_ & _) & _) & Hall) & _) & _) Hi.
  unfold src_merge_flag. destruct (nth_error lit i) as [[f m]|] eqn:E.
  - rewrite forallb_forall in Hall. specialize (Hall (f, m) (nth_error_In _ _ E)). cbn [snd] in Hall.
    destruct m; try discriminate Hall. cbn [omerge oflag o_flags]. symmetry. apply vget_vor.
  - apply nth_error_None in E. exfalso. apply (Nat.lt_irrefl i). eapply Nat.lt_le_trans; eauto.
Qed.

Lemma spairs_eqb_eq a b : spairs_eqb a b = true -> a = b.
Proof.
  revert b. induction a as [|[x t] a IH]; intros [|[y u] b]; cbn [spairs_eqb]; try discriminate; [reflexivity|].
  rewrite !andb_true_iff. intros [[H1 H2] H3]. apply String.eqb_eq in H1, H2. subst. now rewrite (IH b H3).
Qed.

Lemma merge_shape_func fs recv param guards lit post rest a b :
  struct_ok fs = true ->
  merge_shape_ok fs recv param guards lit post rest = true ->
  Some (src_merge_func recv post (o_ctc a) (o_ctc b))
  = option_map o_ctc (omerge (Some a) (Some b)).
Proof.
  unfold struct_ok, merge_shape_ok. rewrite !andb_true_iff.
  intros [_ Hs] (((((Hne & _) & _) & _) & Hp) & _).
  apply spairs_eqb_eq in Hs. rewrite Hs in Hp. cbn [flat_map fst app] in Hp.
  apply spairs_eqb_eq in Hp. subst post.
  unfold src_merge_func. cbn [fold_left snd omerge option_map o_ctc].
  rewrite String.eqb_refl. apply negb_true_iff in Hne. rewrite String.eqb_sym in Hne. rewrite Hne.
  destruct (o_ctc b), (o_ctc a); reflexivity.
Qed.

(* ---------------------------------------------------------------- option flow of merge.go *)

(* the statements the model MergeOpts.v was written against *)
Definition expected_flow : list flow_site :=
  [ mkflow "MergeFilesWith" "" "literal outFile" "validateOpts: incoming[0].GetValidation()"
  ; mkflow "add" "" "stmt" "outFile.validateOpts = outFile.validateOpts.merge(incoming.GetValidation())"
  ; mkflow "add" "for" "stmt" "opts := incoming.GetValidation()"
  ; mkflow "add" "for/if" "cond" "batchOpts := batchValidation(incoming.Batches[j]); batchOpts != opts"
  ; mkflow "add" "for/if" "stmt" "opts = opts.merge(batchOpts)"
  ; mkflow "add" "for/for/if" "literal batch" "validateOpts: opts"
  ; mkflow "add" "for/for/else-if" "cond" "opts != b.validateOpts"
  ; mkflow "add" "for/for/else-if" "stmt" "b.validateOpts = b.validateOpts.merge(opts)"
  ; mkflow "convertToFiles" "for/if" "cond" "sorted.validateOpts != nil"
  ; mkflow "convertToFiles" "for/if" "stmt" "file.SetValidation(sorted.validateOpts)"
  ; mkflow "convertToFiles" "for/for" "stmt" "batch.SetValidation(nextBatch.validateOpts)"
  ; mkflow "convertToFiles" "for/for" "stmt" "batch.GetHeader().SetValidation(nextBatch.header.validateOpts)"
  ; mkflow "convertToFiles" "for/for/for@overflow/if" "cond" "sorted.validateOpts != nil"
  ; mkflow "convertToFiles" "for/for/for@overflow/if" "stmt" "file.SetValidation(sorted.validateOpts)"
  ; mkflow "convertToFiles" "for/for/for@overflow" "stmt" "batch.SetValidation(nextBatch.validateOpts)"
  ; mkflow "convertToFiles" "for/for/for@overflow" "stmt" "batch.GetHeader().SetValidation(nextBatch.header.validateOpts)" ].

Definition flow_ok (t : list flow_site) : bool := flows_eqb t expected_flow.

(* ---------------------------------------------------------------- trace-number code *)

Definition expected_pins : list (string * string) :=
  [ ("Batch.verify", "batch.validateOpts == nil || !batch.validateOpts.CustomTraceNumbers => batch.isSequenceAscending")
  ; ("Batch.verify", "batch.validateOpts == nil || !batch.validateOpts.CustomTraceNumbers => batch.isTraceNumberODFI,batch.isAddendaSequence")
  ; ("Batch.build", "if currentTraceNumberODFI != batchHeaderODFI { if opts := batch.validateOpts; opts == nil { entry.SetTraceNumber(batch.Header.ODFIIdentification, seq) } else { if !opts.BypassOriginValidation && !opts.CustomTraceNumbers { entry.SetTraceNumber(batch.Header.ODFIIdentification, seq) } } }")
  ; ("Batch.build:currentTraceNumberODFI", "currentTraceNumberODFI, err := strconv.Atoi(entry.TraceNumberField()[:8])")
  ; ("Batch.build:batchHeaderODFI", "batchHeaderODFI, err := strconv.Atoi(batch.Header.ODFIIdentificationField()[:8])")
  ; ("Batch.isSequenceAscending", "{ if !batch.IsADV() { lastSeq := ""0"" for _, entry := range batch.Entries { if batch.validateOpts == nil || !batch.validateOpts.CustomTraceNumbers { if entry.TraceNumber <= lastSeq { return batch.Error(""TraceNumber"", NewErrBatchAscending(lastSeq, entry.TraceNumber)) } } lastSeq = entry.TraceNumber } } return nil }")
  ; ("Batch.isTraceNumberODFI", "{ if batch.validateOpts != nil && batch.validateOpts.BypassOriginValidation { return nil } bhODFI := batch.Header.ODFIIdentificationField() for _, entry := range batch.Entries { var entryODFI string if len(entry.TraceNumber) >= 8 { entryODFI = entry.TraceNumber[:8] } if bhODFI != entryODFI { return batch.Error(""ODFIIdentificationField"", NewErrBatchTraceNumberNotODFI(bhODFI, entryODFI)) } } return nil }")
  ; ("EntryDetail.SetTraceNumber", "traceNumber := ed.stringField(ODFIIdentification, 8) + ed.numericField(seq, 7)")
  ; ("EntryDetail.SetTraceNumber:assign", "ed.TraceNumber = traceNumber") ].

Definition pins_ok (t : list (string * string)) : bool := spairs_eqb t expected_pins.

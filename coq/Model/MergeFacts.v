(* Facts about the merge model (coq/Model/Merge.v): conservation of entry
   identities, no mixing of routing pairs, limit invariants of convertToFiles,
   ascending batch numbers, sorted traces, maximal merging. *)
From Coq Require Import List NArith ZArith Bool Lia ZifyBool Permutation.
From ACH Require Import Bytes Merge.
Import ListNotations.
Open Scope Z_scope.

(* ================================================================ identities *)

Definition hkey_t := (Z * bytes * bytes * bytes * bytes * bytes * bytes)%type.
Definition hkey (h : header) : hkey_t :=
  (h_scc h, map upper (h_name h), h_cid h, h_sec h, h_desc h, h_eed h, h_odfi h).

Definition route_t := (bytes * bytes)%type.
Definition ident := (route_t * hkey_t * entry)%type.

Definition mkid (r : route_t) (h : header) (e : entry) : ident := (r, hkey h, e).

Definition if_route (f : ifile) : route_t := (if_origin f, if_dest f).
Definition of_route (o : ofile) : route_t := (of_origin o, of_dest o).
Definition rf_route (g : rfile) : route_t := (rf_origin g, rf_dest g).

Definition ids_ibatch (r : route_t) (ib : ibatch) : list ident := map (mkid r (ib_header ib)) (ib_entries ib).
Definition ids_ifile (f : ifile) : list ident := flat_map (ids_ibatch (if_route f)) (if_batches f).
Definition ids_in (fs : list ifile) : list ident := flat_map ids_ifile fs.

Definition ids_rbatch (r : route_t) (rb : rbatch) : list ident := map (mkid r (rb_header rb)) (rb_entries rb).
Definition ids_rbatches (r : route_t) (bs : list rbatch) : list ident := flat_map (ids_rbatch r) bs.
Definition ids_rfile (g : rfile) : list ident := ids_rbatches (rf_route g) (rf_batches g).
Definition ids_out (gs : list rfile) : list ident := flat_map ids_rfile gs.

Definition ids_obatch (r : route_t) (ob : obatch) : list ident := map (mkid r (ob_header ob)) (map snd (ob_entries ob)).
Definition ids_obatches (r : route_t) (bs : list obatch) : list ident := flat_map (ids_obatch r) bs.
Definition ids_ofile (o : ofile) : list ident := ids_obatches (of_route o) (of_batches o).
Definition ids_state (st : list ofile) : list ident := flat_map ids_ofile st.

(* ================================================================ keys *)

Lemma bcmp_eq a b : bcmp a b = Eq <-> a = b.
Proof.
  revert b; induction a as [|x a IH]; intros [|y b]; cbn; try (split; congruence).
  destruct (N.compare x y) eqn:Hc.
  - apply N.compare_eq_iff in Hc. subst y. rewrite IH. split; congruence.
  - split; [discriminate|]. intros H. injection H as -> ->. rewrite N.compare_refl in Hc. discriminate.
  - split; [discriminate|]. intros H. injection H as -> ->. rewrite N.compare_refl in Hc. discriminate.
Qed.

Lemma bcmp_refl a : bcmp a a = Eq.
Proof. now apply bcmp_eq. Qed.

Lemma bcmp_antisym a b : bcmp a b = CompOpp (bcmp b a).
Proof.
  revert b; induction a as [|x a IH]; intros [|y b]; cbn; try reflexivity.
  rewrite (N.compare_antisym y x). destruct (N.compare y x); cbn; auto.
Qed.

Lemma bcmp_gt_lt a b : bcmp a b = Gt -> bcmp b a = Lt.
Proof. intros H. rewrite bcmp_antisym, H. reflexivity. Qed.

Lemma bcmp_lt_gt a b : bcmp a b = Lt -> bcmp b a = Gt.
Proof. intros H. rewrite bcmp_antisym, H. reflexivity. Qed.

Lemma bcmp_trans a b c : bcmp a b = Lt -> bcmp b c = Lt -> bcmp a c = Lt.
Proof.
  revert b c; induction a as [|x a IH]; intros [|y b] [|z c]; cbn; try congruence.
  destruct (N.compare x y) eqn:Hxy; try discriminate.
  - apply N.compare_eq_iff in Hxy. subst y. destruct (N.compare x z); try congruence. apply IH.
  - intros _. destruct (N.compare y z) eqn:Hyz; try discriminate.
    + apply N.compare_eq_iff in Hyz. subst z. now rewrite Hxy.
    + intros _. rewrite N.compare_lt_iff in *. assert (H : (x < z)%N) by lia.
      apply N.compare_lt_iff in H. now rewrite H.
Qed.

Lemma is_eq_true c : is_eq c = true <-> c = Eq.
Proof. destruct c; cbn; split; congruence. Qed.

(* ================================================================ header equality *)

Lemma fold_eq_spec a b : fold_eq a b = true <-> map upper a = map upper b.
Proof. unfold fold_eq. apply bytes_eqb_eq. Qed.

Lemma header_equal_hkey a b : header_equal a b = true <-> hkey a = hkey b.
Proof.
  unfold header_equal, hkey.
  destruct (h_scc a =? h_scc b) eqn:E1; cbn [negb].
  2:{ split; [discriminate|]. intros H. injection H as H1 _. apply Z.eqb_neq in E1. contradiction. }
  apply Z.eqb_eq in E1.
  destruct (fold_eq (h_name a) (h_name b)) eqn:E2; cbn [negb].
  2:{ split; [discriminate|]. intros H. injection H as _ H2 _. apply fold_eq_spec in H2. congruence. }
  apply fold_eq_spec in E2.
  destruct (bytes_eqb (h_cid a) (h_cid b)) eqn:E3; cbn [negb].
  2:{ split; [discriminate|]. intros H. injection H as _ _ H3 _. apply bytes_eqb_eq in H3. congruence. }
  apply bytes_eqb_eq in E3.
  destruct (bytes_eqb (h_sec a) (h_sec b)) eqn:E4; cbn [negb].
  2:{ split; [discriminate|]. intros H. injection H as _ _ _ H4 _. apply bytes_eqb_eq in H4. congruence. }
  apply bytes_eqb_eq in E4.
  destruct (bytes_eqb (h_desc a) (h_desc b)) eqn:E5; cbn [negb].
  2:{ split; [discriminate|]. intros H. injection H as _ _ _ _ H5 _. apply bytes_eqb_eq in H5. congruence. }
  apply bytes_eqb_eq in E5.
  destruct (bytes_eqb (h_eed a) (h_eed b)) eqn:E6; cbn [negb].
  2:{ split; [discriminate|]. intros H. injection H as _ _ _ _ _ H6 _. apply bytes_eqb_eq in H6. congruence. }
  apply bytes_eqb_eq in E6.
  destruct (bytes_eqb (h_odfi a) (h_odfi b)) eqn:E7; cbn [negb].
  2:{ split; [discriminate|]. intros H. injection H as _ _ _ _ _ _ H7. apply bytes_eqb_eq in H7. congruence. }
  apply bytes_eqb_eq in E7.
  split; [intros _|reflexivity]. congruence.
Qed.

(* ================================================================ tree-map *)

Lemma tm_set_perm k v m : tm_contains k m = false -> Permutation (tm_set k v m) ((k, v) :: m).
Proof.
  induction m as [|[k' v'] r IH]; cbn; intros H.
  - apply Permutation_refl.
  - apply orb_false_iff in H as [H1 H2]. destruct (bcmp k k') eqn:Hc.
    + discriminate.
    + apply Permutation_refl.
    + eapply Permutation_trans; [apply perm_skip, IH, H2|apply perm_swap].
Qed.

Lemma tm_contains_set k k' v m : tm_contains k (tm_set k' v m) = is_eq (bcmp k k') || tm_contains k m.
Proof.
  induction m as [|[k2 v2] r IH]; cbn.
  - reflexivity.
  - destruct (bcmp k' k2) eqn:Hc; cbn.
    + apply bcmp_eq in Hc. subst k2. destruct (is_eq (bcmp k k')); reflexivity.
    + reflexivity.
    + rewrite IH. destruct (is_eq (bcmp k k')), (is_eq (bcmp k k2)); reflexivity.
Qed.

(* ================================================================ conservation: outFile.add *)

Lemma ids_obatches_app r a b : ids_obatches r (a ++ b) = ids_obatches r a ++ ids_obatches r b.
Proof. unfold ids_obatches. apply flat_map_app. Qed.

Lemma place_perm r h e bs :
  Permutation (ids_obatches r (place h e bs)) (mkid r h e :: ids_obatches r bs).
Proof.
  induction bs as [|b rest IH]; cbn [place].
  - cbn. apply Permutation_refl.
  - destruct (header_equal (ob_header b) h && negb (tm_contains (e_trace e) (ob_entries b))) eqn:Hc.
    + apply andb_prop in Hc as [Hh Hn]. apply negb_true_iff in Hn.
      apply header_equal_hkey in Hh.
      cbn [ids_obatches flat_map]. unfold ids_obatch at 1 3. cbn [ob_header ob_entries].
      change (mkid r h e :: ?x ++ ?y) with ((mkid r h e :: x) ++ y).
      apply Permutation_app_tail.
      assert (Hm : mkid r h e = mkid r (ob_header b) (snd (e_trace e, e))) by (unfold mkid; now rewrite Hh).
      rewrite Hm. rewrite <- !map_cons.
      apply Permutation_map, Permutation_map, tm_set_perm, Hn.
    + cbn [ids_obatches flat_map]. fold (ids_obatches r (place h e rest)). fold (ids_obatches r rest).
      eapply Permutation_trans; [apply Permutation_app_head, IH|].
      apply Permutation_sym, Permutation_middle.
Qed.

Lemma add_batch_perm r ib bs :
  Permutation (ids_obatches r (add_batch bs ib)) (ids_ibatch r ib ++ ids_obatches r bs).
Proof.
  unfold add_batch, ids_ibatch. generalize (ib_header ib) as h. intros h.
  revert bs. induction (ib_entries ib) as [|e es IH]; intros bs; cbn [fold_left map app].
  - apply Permutation_refl.
  - eapply Permutation_trans; [apply IH|].
    eapply Permutation_trans; [apply Permutation_app_head, place_perm|].
    apply Permutation_sym, Permutation_middle.
Qed.

Lemma add_batches_perm r ibs bs :
  Permutation (ids_obatches r (fold_left add_batch ibs bs)) (flat_map (ids_ibatch r) ibs ++ ids_obatches r bs).
Proof.
  revert bs. induction ibs as [|ib ibs IH]; intros bs; cbn [fold_left flat_map app].
  - apply Permutation_refl.
  - eapply Permutation_trans; [apply IH|].
    eapply Permutation_trans; [apply Permutation_app_head, add_batch_perm|].
    rewrite !app_assoc. apply Permutation_app_tail, Permutation_app_comm.
Qed.

Lemma same_route_eq o f : same_route o f = true -> of_route o = if_route f.
Proof.
  unfold same_route, of_route, if_route. intros H. apply andb_prop in H as [H1 H2].
  apply bytes_eqb_eq in H1, H2. congruence.
Qed.

Lemma add_to_perm o f :
  of_route o = if_route f -> Permutation (ids_ofile (add_to o f)) (ids_ifile f ++ ids_ofile o).
Proof.
  intros Hr. unfold ids_ofile, add_to, ids_ifile. cbn [of_batches].
  change (of_route (mkOFile (of_origin o) (of_dest o) (of_hid o) ?x)) with (of_route o).
  rewrite <- Hr. apply add_batches_perm.
Qed.

Lemma add_file_perm st f : Permutation (ids_state (add_file st f)) (ids_ifile f ++ ids_state st).
Proof.
  induction st as [|o rest IH]; cbn [add_file].
  - cbn [ids_state flat_map]. rewrite !app_nil_r.
    eapply Permutation_trans; [apply add_to_perm; reflexivity|].
    unfold ids_ofile at 1. cbn. now rewrite app_nil_r.
  - destruct (same_route o f) eqn:Hs.
    + cbn [ids_state flat_map]. fold (ids_state rest). rewrite app_assoc.
      apply Permutation_app_tail, add_to_perm, same_route_eq, Hs.
    + cbn [ids_state flat_map]. fold (ids_state rest). fold (ids_state (add_file rest f)).
      eapply Permutation_trans; [apply Permutation_app_head, IH|].
      rewrite !app_assoc. apply Permutation_app_tail, Permutation_app_comm.
Qed.

Lemma add_files_perm fs st :
  Permutation (ids_state (fold_left add_file fs st)) (ids_in fs ++ ids_state st).
Proof.
  revert st. induction fs as [|f fs IH]; intros st; cbn [fold_left ids_in flat_map app].
  - apply Permutation_refl.
  - fold (ids_in fs). eapply Permutation_trans; [apply IH|].
    eapply Permutation_trans; [apply Permutation_app_head, add_file_perm|].
    rewrite !app_assoc. apply Permutation_app_tail, Permutation_app_comm.
Qed.

Lemma build_state_perm fs : Permutation (ids_state (build_state fs)) (ids_in fs).
Proof.
  unfold build_state. destruct fs as [|f0 fs']; [apply Permutation_refl|].
  eapply Permutation_trans; [apply add_files_perm|].
  cbn [ids_state flat_map]. unfold ids_ofile at 1. cbn. now rewrite !app_nil_r.
Qed.

(* ================================================================ conservation: convertToFiles *)

Lemma ids_rbatches_app r a b : ids_rbatches r (a ++ b) = ids_rbatches r a ++ ids_rbatches r b.
Proof. unfold ids_rbatches. apply flat_map_app. Qed.

Lemma ids_out_app a b : ids_out (a ++ b) = ids_out a ++ ids_out b.
Proof. unfold ids_out. apply flat_map_app. Qed.

Lemma ids_rbatches_renumber r bs seq : ids_rbatches r (renumber seq bs) = ids_rbatches r bs.
Proof.
  revert seq. induction bs as [|b rest IH]; intros seq; cbn [renumber ids_rbatches flat_map]; [reflexivity|].
  fold (ids_rbatches r (renumber (seq + 1) rest)). fold (ids_rbatches r rest). rewrite IH.
  destruct (rb_number b <=? 1); reflexivity.
Qed.

Lemma ids_close_file o bs out :
  ids_out (close_file o bs out) = ids_out out ++ ids_rbatches (of_route o) bs.
Proof.
  unfold close_file. destruct bs as [|b rest].
  - cbn. now rewrite app_nil_r.
  - rewrite ids_out_app. cbn [ids_out flat_map]. rewrite app_nil_r.
    unfold ids_rfile, create_file. cbn [rf_batches]. 
    change (rf_route (mkRFile (of_origin o) (of_dest o) (of_hid o) ?x)) with (of_route o).
    now rewrite ids_rbatches_renumber.
Qed.

Lemma ids_close_batch r hdr s :
  ids_rbatches r (close_batch hdr s) = ids_rbatches r (c_file s) ++ map (mkid r hdr) (c_bent s).
Proof.
  unfold close_batch. destruct (c_bent s) as [|e es] eqn:He.
  - cbn. now rewrite app_nil_r.
  - rewrite ids_rbatches_app. cbn [ids_rbatches flat_map]. rewrite app_nil_r. reflexivity.
Qed.

(* everything emitted or pending in the accumulator, in order *)
Definition ids_cstate (o : ofile) (hdr : header) (s : cstate) : list ident :=
  ids_out (c_out s) ++ ids_rbatches (of_route o) (c_file s) ++ map (mkid (of_route o) hdr) (c_bent s).

Lemma step_entry_ids c M o hdr s e :
  ids_cstate o hdr (step_entry c M o hdr s e) = ids_cstate o hdr s ++ [mkid (of_route o) hdr e].
Proof.
  unfold step_entry, ids_cstate. destruct (exceeds c M (c_L s) (c_D s) e); cbn [c_out c_file c_bent].
  - rewrite ids_close_file, ids_close_batch. cbn. now rewrite <- !app_assoc.
  - rewrite map_app. cbn. now rewrite <- !app_assoc.
Qed.

Lemma fold_step_entry_ids c M o hdr es s :
  ids_cstate o hdr (fold_left (step_entry c M o hdr) es s) = ids_cstate o hdr s ++ map (mkid (of_route o) hdr) es.
Proof.
  revert s. induction es as [|e es IH]; intros s; cbn [fold_left map].
  - now rewrite app_nil_r.
  - rewrite IH, step_entry_ids, <- app_assoc. reflexivity.
Qed.

Definition ids_closed (o : ofile) (s : cstate) : list ident :=
  ids_out (c_out s) ++ ids_rbatches (of_route o) (c_file s).

Lemma step_batch_ids c M o s b :
  ids_closed o (step_batch c M o s b) = ids_closed o s ++ ids_obatch (of_route o) b.
Proof.
  unfold step_batch, ids_closed. cbn [c_out c_file].
  rewrite ids_close_batch.
  pose proof (fold_step_entry_ids c M o (ob_header b) (map snd (ob_entries b))
                (mkC (c_out s) (c_file s) [] (c_L s + 2) (c_D s) (c_bn s + 1))) as H.
  unfold ids_cstate in H. cbn [c_out c_file c_bent map] in H. rewrite app_nil_r in H.
  rewrite H. unfold ids_obatch. now rewrite <- app_assoc.
Qed.

Lemma fold_step_batch_ids c M o bs s :
  ids_closed o (fold_left (step_batch c M o) bs s) = ids_closed o s ++ ids_obatches (of_route o) bs.
Proof.
  revert s. induction bs as [|b bs IH]; intros s; cbn [fold_left ids_obatches flat_map].
  - now rewrite app_nil_r.
  - fold (ids_obatches (of_route o) bs). rewrite IH, step_batch_ids, <- app_assoc. reflexivity.
Qed.

Lemma step_file_ids c M acc o :
  ids_out (fst (step_file c M acc o)) = ids_out (fst acc) ++ ids_ofile o.
Proof.
  unfold step_file. cbn [fst]. rewrite ids_close_file.
  match goal with |- ids_out (c_out ?s1) ++ ids_rbatches _ (c_file ?s1) = _ => change (ids_closed o s1 = ids_out (fst acc) ++ ids_ofile o) end.
  rewrite fold_step_batch_ids. unfold ids_closed. cbn [c_out c_file]. cbn [ids_rbatches flat_map].
  now rewrite app_nil_r.
Qed.

Lemma fold_step_file_ids c M st acc :
  ids_out (fst (fold_left (step_file c M) st acc)) = ids_out (fst acc) ++ ids_state st.
Proof.
  revert acc. induction st as [|o st IH]; intros acc; cbn [fold_left ids_state flat_map].
  - now rewrite app_nil_r.
  - fold (ids_state st). rewrite IH, step_file_ids, <- app_assoc. reflexivity.
Qed.

(* convertToFiles emits the stored entries in exactly the stored order *)
Lemma convert_ids c st : ids_out (convert c st) = ids_state st.
Proof. unfold convert. rewrite fold_step_file_ids. reflexivity. Qed.

Lemma merge_conservation fs c : Permutation (ids_out (merge_files fs c)) (ids_in fs).
Proof. unfold merge_files. rewrite convert_ids. apply build_state_perm. Qed.

Lemma ids_in_perm fs fs' : Permutation fs fs' -> Permutation (ids_in fs) (ids_in fs').
Proof.
  intros H. unfold ids_in. induction H; cbn [flat_map].
  - apply Permutation_refl.
  - now apply Permutation_app_head.
  - rewrite !app_assoc. apply Permutation_app_tail, Permutation_app_comm.
  - eapply Permutation_trans; eauto.
Qed.

Lemma merge_order_independent fs fs' c :
  Permutation fs fs' -> Permutation (ids_out (merge_files fs c)) (ids_out (merge_files fs' c)).
Proof.
  intros H. eapply Permutation_trans; [apply merge_conservation|].
  eapply Permutation_trans; [apply ids_in_perm, H|]. apply Permutation_sym, merge_conservation.
Qed.

(* an entry of an output file comes from an input file with the same routing pair
   and from a batch whose header agrees on every field BatchHeader.Equal compares *)
Lemma merge_no_mixing fs c g rb e :
  In g (merge_files fs c) -> In rb (rf_batches g) -> In e (rb_entries rb) ->
  exists f ib, In f fs /\ In ib (if_batches f) /\ In e (ib_entries ib)
               /\ if_route f = rf_route g /\ hkey (ib_header ib) = hkey (rb_header rb).
Proof.
  intros Hg Hb He.
  assert (Hin : In (mkid (rf_route g) (rb_header rb) e) (ids_out (merge_files fs c))).
  { unfold ids_out. apply in_flat_map. exists g. split; [exact Hg|].
    unfold ids_rfile, ids_rbatches. apply in_flat_map. exists rb. split; [exact Hb|].
    unfold ids_rbatch. now apply in_map. }
  apply (Permutation_in _ (merge_conservation fs c)) in Hin.
  unfold ids_in in Hin. apply in_flat_map in Hin as (f & Hf & Hin).
  unfold ids_ifile in Hin. apply in_flat_map in Hin as (ib & Hib & Hin).
  unfold ids_ibatch in Hin. apply in_map_iff in Hin as (e' & Heq & He').
  unfold mkid in Heq. apply pair_equal_spec in Heq as [Heq ->]. apply pair_equal_spec in Heq as [Hr Hk].
  exists f, ib. repeat split; assumption.
Qed.

(* Facts about the merge model (coq/Model/Merge.v): conservation of entry
   identities, no mixing of routing pairs, limit invariants of convertToFiles,
   ascending batch numbers, sorted traces, maximal merging. *)
From Coq Require Import List NArith ZArith Bool Lia ZifyBool Permutation.
From ACH Require Import Bytes Merge.
Import ListNotations.
Open Scope Z_scope.

(* ================================================================ identities *)

Definition hkey_t := (Z * bytes * bytes * bytes * bytes * bytes * bytes)%type.
Definition hkey (h : header) : hkey_t :=
  (h_scc h, map upper (h_name h), h_cid h, h_sec h, h_desc h, h_eed h, h_odfi h).

Definition route_t := (bytes * bytes)%type.
Definition ident := (route_t * hkey_t * entry)%type.

Definition mkid (r : route_t) (h : header) (e : entry) : ident := (r, hkey h, e).

Definition if_route (f : ifile) : route_t := (if_origin f, if_dest f).
Definition of_route (o : ofile) : route_t := (of_origin o, of_dest o).
Definition rf_route (g : rfile) : route_t := (rf_origin g, rf_dest g).

Definition ids_ibatch (r : route_t) (ib : ibatch) : list ident := map (mkid r (ib_header ib)) (ib_entries ib).
Definition ids_ifile (f : ifile) : list ident := flat_map (ids_ibatch (if_route f)) (if_batches f).
Definition ids_in (fs : list ifile) : list ident := flat_map ids_ifile fs.

Definition ids_rbatch (r : route_t) (rb : rbatch) : list ident := map (mkid r (rb_header rb)) (rb_entries rb).
Definition ids_rbatches (r : route_t) (bs : list rbatch) : list ident := flat_map (ids_rbatch r) bs.
Definition ids_rfile (g : rfile) : list ident := ids_rbatches (rf_route g) (rf_batches g).
Definition ids_out (gs : list rfile) : list ident := flat_map ids_rfile gs.

Definition ids_obatch (r : route_t) (ob : obatch) : list ident := map (mkid r (ob_header ob)) (map snd (ob_entries ob)).
Definition ids_obatches (r : route_t) (bs : list obatch) : list ident := flat_map (ids_obatch r) bs.
Definition ids_ofile (o : ofile) : list ident := ids_obatches (of_route o) (of_batches o).
Definition ids_state (st : list ofile) : list ident := flat_map ids_ofile st.

(* ================================================================ keys *)

Lemma bcmp_eq a b : bcmp a b = Eq <-> a = b.
Proof.
  revert b; induction a as [|x a IH]; intros [|y b]; cbn; try (split; congruence).
  destruct (N.compare x y) eqn:Hc.
  - apply N.compare_eq_iff in Hc. subst y. rewrite IH. split; congruence.
  - split; [discriminate|]. intros H. injection H as -> ->. rewrite N.compare_refl in Hc. discriminate.
  - split; [discriminate|]. intros H. injection H as -> ->. rewrite N.compare_refl in Hc. discriminate.
Qed.

Lemma bcmp_refl a : bcmp a a = Eq.
Proof. now apply bcmp_eq. Qed.

Lemma bcmp_antisym a b : bcmp a b = CompOpp (bcmp b a).
Proof.
  revert b; induction a as [|x a IH]; intros [|y b]; cbn; try reflexivity.
  rewrite (N.compare_antisym y x). destruct (N.compare y x); cbn; auto.
Qed.

Lemma bcmp_gt_lt a b : bcmp a b = Gt -> bcmp b a = Lt.
Proof. intros H. rewrite bcmp_antisym, H. reflexivity. Qed.

Lemma bcmp_lt_gt a b : bcmp a b = Lt -> bcmp b a = Gt.
Proof. intros H. rewrite bcmp_antisym, H. reflexivity. Qed.

Lemma bcmp_trans a b c : bcmp a b = Lt -> bcmp b c = Lt -> bcmp a c = Lt.
Proof.
  revert b c; induction a as [|x a IH]; intros [|y b] [|z c]; cbn; try congruence.
  destruct (N.compare x y) eqn:Hxy; try discriminate.
  - apply N.compare_eq_iff in Hxy. subst y. destruct (N.compare x z); try congruence. apply IH.
  - intros _. destruct (N.compare y z) eqn:Hyz; try discriminate.
    + apply N.compare_eq_iff in Hyz. subst z. now rewrite Hxy.
    + intros _. rewrite N.compare_lt_iff in *. assert (H : (x < z)%N) by lia.
      apply N.compare_lt_iff in H. now rewrite H.
Qed.

Lemma is_eq_true c : is_eq c = true <-> c = Eq.
Proof. destruct c; cbn; split; congruence. Qed.

(* ================================================================ header equality *)

Lemma fold_eq_spec a b : fold_eq a b = true <-> map upper a = map upper b.
Proof. unfold fold_eq. apply bytes_eqb_eq. Qed.

Lemma header_equal_hkey a b : header_equal a b = true <-> hkey a = hkey b.
Proof.
  unfold header_equal, hkey.
  destruct (h_scc a =? h_scc b) eqn:E1; cbn [negb].
  2:{ split; [discriminate|]. intros H. injection H as H1 _. apply Z.eqb_neq in E1. contradiction. }
  apply Z.eqb_eq in E1.
  destruct (fold_eq (h_name a) (h_name b)) eqn:E2; cbn [negb].
  2:{ split; [discriminate|]. intros H. injection H as _ H2 _. apply fold_eq_spec in H2. congruence. }
  apply fold_eq_spec in E2.
  destruct (bytes_eqb (h_cid a) (h_cid b)) eqn:E3; cbn [negb].
  2:{ split; [discriminate|]. intros H. injection H as _ _ H3 _. apply bytes_eqb_eq in H3. congruence. }
  apply bytes_eqb_eq in E3.
  destruct (bytes_eqb (h_sec a) (h_sec b)) eqn:E4; cbn [negb].
  2:{ split; [discriminate|]. intros H. injection H as _ _ _ H4 _. apply bytes_eqb_eq in H4. congruence. }
  apply bytes_eqb_eq in E4.
  destruct (bytes_eqb (h_desc a) (h_desc b)) eqn:E5; cbn [negb].
  2:{ split; [discriminate|]. intros H. injection H as _ _ _ _ H5 _. apply bytes_eqb_eq in H5. congruence. }
  apply bytes_eqb_eq in E5.
  destruct (bytes_eqb (h_eed a) (h_eed b)) eqn:E6; cbn [negb].
  2:{ split; [discriminate|]. intros H. injection H as _ _ _ _ _ H6 _. apply bytes_eqb_eq in H6. congruence. }
  apply bytes_eqb_eq in E6.
  destruct (bytes_eqb (h_odfi a) (h_odfi b)) eqn:E7; cbn [negb].
  2:{ split; [discriminate|]. intros H. injection H as _ _ _ _ _ _ H7. apply bytes_eqb_eq in H7. congruence. }
  apply bytes_eqb_eq in E7.
  split; [intros _|reflexivity]. congruence.
Qed.

(* ================================================================ tree-map *)

Lemma tm_set_perm k v m : tm_contains k m = false -> Permutation (tm_set k v m) ((k, v) :: m).
Proof.
  induction m as [|[k' v'] r IH]; cbn; intros H.
  - apply Permutation_refl.
  - apply orb_false_iff in H as [H1 H2]. destruct (bcmp k k') eqn:Hc.
    + discriminate.
    + apply Permutation_refl.
    + eapply Permutation_trans; [apply perm_skip, IH, H2|apply perm_swap].
Qed.

Lemma tm_contains_set k k' v m : tm_contains k (tm_set k' v m) = is_eq (bcmp k k') || tm_contains k m.
Proof.
  induction m as [|[k2 v2] r IH]; cbn.
  - reflexivity.
  - destruct (bcmp k' k2) eqn:Hc; cbn.
    + apply bcmp_eq in Hc. subst k2. destruct (is_eq (bcmp k k')); reflexivity.
    + reflexivity.
    + rewrite IH. destruct (is_eq (bcmp k k')), (is_eq (bcmp k k2)); reflexivity.
Qed.

(* ================================================================ conservation: outFile.add *)

Lemma ids_obatches_app r a b : ids_obatches r (a ++ b) = ids_obatches r a ++ ids_obatches r b.
Proof. unfold ids_obatches. apply flat_map_app. Qed.

Lemma place_perm r h e bs :
  Permutation (ids_obatches r (place h e bs)) (mkid r h e :: ids_obatches r bs).
Proof.
  induction bs as [|b rest IH]; cbn [place].
  - cbn. apply Permutation_refl.
  - destruct (header_equal (ob_header b) h && negb (tm_contains (e_trace e) (ob_entries b))) eqn:Hc.
    + apply andb_prop in Hc as [Hh Hn]. apply negb_true_iff in Hn.
      apply header_equal_hkey in Hh.
      cbn [ids_obatches flat_map]. unfold ids_obatch at 1 3. cbn [ob_header ob_entries].
      change (mkid r h e :: ?x ++ ?y) with ((mkid r h e :: x) ++ y).
      apply Permutation_app_tail.
      assert (Hm : mkid r h e = mkid r (ob_header b) (snd (e_trace e, e))) by (unfold mkid; now rewrite Hh).
      rewrite Hm. rewrite <- !map_cons.
      apply Permutation_map, Permutation_map, tm_set_perm, Hn.
    + cbn [ids_obatches flat_map]. fold (ids_obatches r (place h e rest)). fold (ids_obatches r rest).
      eapply Permutation_trans; [apply Permutation_app_head, IH|].
      apply Permutation_sym, Permutation_middle.
Qed.

Lemma add_batch_perm r ib bs :
  Permutation (ids_obatches r (add_batch bs ib)) (ids_ibatch r ib ++ ids_obatches r bs).
Proof.
  unfold add_batch, ids_ibatch. generalize (ib_header ib) as h. intros h.
  revert bs. induction (ib_entries ib) as [|e es IH]; intros bs; cbn [fold_left map app].
  - apply Permutation_refl.
  - eapply Permutation_trans; [apply IH|].
    eapply Permutation_trans; [apply Permutation_app_head, place_perm|].
    apply Permutation_sym, Permutation_middle.
Qed.

Lemma add_batches_perm r ibs bs :
  Permutation (ids_obatches r (fold_left add_batch ibs bs)) (flat_map (ids_ibatch r) ibs ++ ids_obatches r bs).
Proof.
  revert bs. induction ibs as [|ib ibs IH]; intros bs; cbn [fold_left flat_map app].
  - apply Permutation_refl.
  - eapply Permutation_trans; [apply IH|].
    eapply Permutation_trans; [apply Permutation_app_head, add_batch_perm|].
    rewrite !app_assoc. apply Permutation_app_tail, Permutation_app_comm.
Qed.

Lemma same_route_eq o f : same_route o f = true -> of_route o = if_route f.
Proof.
  unfold same_route, of_route, if_route. intros H. apply andb_prop in H as [H1 H2].
  apply bytes_eqb_eq in H1, H2. congruence.
Qed.

Lemma add_to_perm o f :
  of_route o = if_route f -> Permutation (ids_ofile (add_to o f)) (ids_ifile f ++ ids_ofile o).
Proof.
  intros Hr. unfold ids_ofile, add_to, ids_ifile. cbn [of_batches].
  change (of_route (mkOFile (of_origin o) (of_dest o) (of_hid o) ?x)) with (of_route o).
  rewrite <- Hr. apply add_batches_perm.
Qed.

Lemma add_file_perm st f : Permutation (ids_state (add_file st f)) (ids_ifile f ++ ids_state st).
Proof.
  induction st as [|o rest IH]; cbn [add_file].
  - cbn [ids_state flat_map]. rewrite !app_nil_r.
    eapply Permutation_trans; [apply add_to_perm; reflexivity|].
    unfold ids_ofile at 1. cbn. now rewrite app_nil_r.
  - destruct (same_route o f) eqn:Hs.
    + cbn [ids_state flat_map]. fold (ids_state rest). rewrite app_assoc.
      apply Permutation_app_tail, add_to_perm, same_route_eq, Hs.
    + cbn [ids_state flat_map]. fold (ids_state rest). fold (ids_state (add_file rest f)).
      eapply Permutation_trans; [apply Permutation_app_head, IH|].
      rewrite !app_assoc. apply Permutation_app_tail, Permutation_app_comm.
Qed.

Lemma add_files_perm fs st :
  Permutation (ids_state (fold_left add_file fs st)) (ids_in fs ++ ids_state st).
Proof.
  revert st. induction fs as [|f fs IH]; intros st; cbn [fold_left ids_in flat_map app].
  - apply Permutation_refl.
  - fold (ids_in fs). eapply Permutation_trans; [apply IH|].
    eapply Permutation_trans; [apply Permutation_app_head, add_file_perm|].
    rewrite !app_assoc. apply Permutation_app_tail, Permutation_app_comm.
Qed.

Lemma build_state_perm fs : Permutation (ids_state (build_state fs)) (ids_in fs).
Proof.
  unfold build_state. destruct fs as [|f0 fs']; [apply Permutation_refl|].
  eapply Permutation_trans; [apply add_files_perm|].
  cbn [ids_state flat_map]. unfold ids_ofile at 1. cbn. now rewrite !app_nil_r.
Qed.

(* ================================================================ conservation: convertToFiles *)

Lemma ids_rbatches_app r a b : ids_rbatches r (a ++ b) = ids_rbatches r a ++ ids_rbatches r b.
Proof. unfold ids_rbatches. apply flat_map_app. Qed.

Lemma ids_out_app a b : ids_out (a ++ b) = ids_out a ++ ids_out b.
Proof. unfold ids_out. apply flat_map_app. Qed.

Lemma ids_rbatches_renumber r bs seq : ids_rbatches r (renumber seq bs) = ids_rbatches r bs.
Proof.
  revert seq. induction bs as [|b rest IH]; intros seq; cbn [renumber ids_rbatches flat_map]; [reflexivity|].
  fold (ids_rbatches r (renumber (seq + 1) rest)). fold (ids_rbatches r rest). rewrite IH.
  destruct (rb_number b <=? 1); reflexivity.
Qed.

Lemma ids_close_file o bs out :
  ids_out (close_file o bs out) = ids_out out ++ ids_rbatches (of_route o) bs.
Proof.
  unfold close_file. destruct bs as [|b rest].
  - cbn. now rewrite app_nil_r.
  - rewrite ids_out_app. cbn [ids_out flat_map]. rewrite app_nil_r.
    unfold ids_rfile, create_file. cbn [rf_batches]. 
    change (rf_route (mkRFile (of_origin o) (of_dest o) (of_hid o) ?x)) with (of_route o).
    now rewrite ids_rbatches_renumber.
Qed.

Lemma ids_close_batch r hdr s :
  ids_rbatches r (close_batch hdr s) = ids_rbatches r (c_file s) ++ map (mkid r hdr) (c_bent s).
Proof.
  unfold close_batch. destruct (c_bent s) as [|e es] eqn:He.
  - cbn. now rewrite app_nil_r.
  - rewrite ids_rbatches_app. cbn [ids_rbatches flat_map]. rewrite app_nil_r. reflexivity.
Qed.

(* everything emitted or pending in the accumulator, in order *)
Definition ids_cstate (o : ofile) (hdr : header) (s : cstate) : list ident :=
  ids_out (c_out s) ++ ids_rbatches (of_route o) (c_file s) ++ map (mkid (of_route o) hdr) (c_bent s).

Lemma step_entry_ids c M o hdr s e :
  ids_cstate o hdr (step_entry c M o hdr s e) = ids_cstate o hdr s ++ [mkid (of_route o) hdr e].
Proof.
  unfold step_entry, ids_cstate. destruct (exceeds c M (c_L s) (c_D s) e); cbn [c_out c_file c_bent].
  - rewrite ids_close_file, ids_close_batch. cbn. now rewrite <- !app_assoc.
  - rewrite map_app. cbn. now rewrite <- !app_assoc.
Qed.

Lemma fold_step_entry_ids c M o hdr es s :
  ids_cstate o hdr (fold_left (step_entry c M o hdr) es s) = ids_cstate o hdr s ++ map (mkid (of_route o) hdr) es.
Proof.
  revert s. induction es as [|e es IH]; intros s; cbn [fold_left map].
  - now rewrite app_nil_r.
  - rewrite IH, step_entry_ids, <- app_assoc. reflexivity.
Qed.

Definition ids_closed (o : ofile) (s : cstate) : list ident :=
  ids_out (c_out s) ++ ids_rbatches (of_route o) (c_file s).

Lemma step_batch_ids c M o s b :
  ids_closed o (step_batch c M o s b) = ids_closed o s ++ ids_obatch (of_route o) b.
Proof.
  unfold step_batch, ids_closed. cbn [c_out c_file].
  rewrite ids_close_batch.
  pose proof (fold_step_entry_ids c M o (ob_header b) (map snd (ob_entries b))
                (mkC (c_out s) (c_file s) [] (c_L s + 2) (c_D s) (c_bn s + 1))) as H.
  unfold ids_cstate in H. cbn [c_out c_file c_bent map] in H. rewrite app_nil_r in H.
  rewrite H. unfold ids_obatch. now rewrite <- app_assoc.
Qed.

Lemma fold_step_batch_ids c M o bs s :
  ids_closed o (fold_left (step_batch c M o) bs s) = ids_closed o s ++ ids_obatches (of_route o) bs.
Proof.
  revert s. induction bs as [|b bs IH]; intros s; cbn [fold_left ids_obatches flat_map].
  - now rewrite app_nil_r.
  - fold (ids_obatches (of_route o) bs). rewrite IH, step_batch_ids, <- app_assoc. reflexivity.
Qed.

Lemma step_file_ids c M acc o :
  ids_out (fst (step_file c M acc o)) = ids_out (fst acc) ++ ids_ofile o.
Proof.
  unfold step_file. cbn [fst]. rewrite ids_close_file.
  match goal with |- ids_out (c_out ?s1) ++ ids_rbatches _ (c_file ?s1) = _ => change (ids_closed o s1 = ids_out (fst acc) ++ ids_ofile o) end.
  rewrite fold_step_batch_ids. unfold ids_closed. cbn [c_out c_file]. cbn [ids_rbatches flat_map].
  now rewrite app_nil_r.
Qed.

Lemma fold_step_file_ids c M st acc :
  ids_out (fst (fold_left (step_file c M) st acc)) = ids_out (fst acc) ++ ids_state st.
Proof.
  revert acc. induction st as [|o st IH]; intros acc; cbn [fold_left ids_state flat_map].
  - now rewrite app_nil_r.
  - fold (ids_state st). rewrite IH, step_file_ids, <- app_assoc. reflexivity.
Qed.

(* convertToFiles emits the stored entries in exactly the stored order *)
Lemma convert_ids c st : ids_out (convert c st) = ids_state st.
Proof. unfold convert. rewrite fold_step_file_ids. reflexivity. Qed.

Lemma merge_conservation fs c : Permutation (ids_out (merge_files fs c)) (ids_in fs).
Proof. unfold merge_files. rewrite convert_ids. apply build_state_perm. Qed.

Lemma ids_in_perm fs fs' : Permutation fs fs' -> Permutation (ids_in fs) (ids_in fs').
Proof.
  intros H. unfold ids_in. induction H; cbn [flat_map].
  - apply Permutation_refl.
  - now apply Permutation_app_head.
  - rewrite !app_assoc. apply Permutation_app_tail, Permutation_app_comm.
  - eapply Permutation_trans; eauto.
Qed.

Lemma merge_order_independent fs fs' c :
  Permutation fs fs' -> Permutation (ids_out (merge_files fs c)) (ids_out (merge_files fs' c)).
Proof.
  intros H. eapply Permutation_trans; [apply merge_conservation|].
  eapply Permutation_trans; [apply ids_in_perm, H|]. apply Permutation_sym, merge_conservation.
Qed.

(* an entry of an output file comes from an input file with the same routing pair
   and from a batch whose header agrees on every field BatchHeader.Equal compares *)
Lemma merge_no_mixing fs c g rb e :
  In g (merge_files fs c) -> In rb (rf_batches g) -> In e (rb_entries rb) ->
  exists f ib, In f fs /\ In ib (if_batches f) /\ In e (ib_entries ib)
               /\ if_route f = rf_route g /\ hkey (ib_header ib) = hkey (rb_header rb).
Proof.
  intros Hg Hb He.
  assert (Hin : In (mkid (rf_route g) (rb_header rb) e) (ids_out (merge_files fs c))).
  { unfold ids_out. apply in_flat_map. exists g. split; [exact Hg|].
    unfold ids_rfile, ids_rbatches. apply in_flat_map. exists rb. split; [exact Hb|].
    unfold ids_rbatch. now apply in_map. }
  apply (Permutation_in _ (merge_conservation fs c)) in Hin.
  unfold ids_in in Hin. apply in_flat_map in Hin as (f & Hf & Hin).
  unfold ids_ifile in Hin. apply in_flat_map in Hin as (ib & Hib & Hin).
  unfold ids_ibatch in Hin. apply in_map_iff in Hin as (e' & Heq & He').
  unfold mkid in Heq. apply pair_equal_spec in Heq as [Heq ->]. apply pair_equal_spec in Heq as [Hr Hk].
  exists f, ib. repeat split; assumption.
Qed.

(* ================================================================ a generic invariant rule for convertToFiles *)

Section ConvertInvariant.
  Variables (c : conds) (M : Z).
  Variable Po : ofile -> Prop.                                   (* what is known about each out-file of the state *)
  Variable B : ofile -> header -> list entry -> cstate -> Prop.  (* inside a batch; the list = entries still to come *)
  Variable F : ofile -> cstate -> Prop.                          (* between batches *)
  Variable G : list rfile * Z -> Prop.                           (* between out-files *)
  Hypothesis file_start : forall o acc, Po o -> G acc -> F o (mkC (fst acc) [] [] 2 0 (snd acc)).
  Hypothesis batch_start : forall o b s, Po o -> In b (of_batches o) -> F o s ->
    B o (ob_header b) (map snd (ob_entries b)) (mkC (c_out s) (c_file s) [] (c_L s + 2) (c_D s) (c_bn s + 1)).
  Hypothesis entry_step : forall o h e rest s, Po o -> B o h (e :: rest) s -> B o h rest (step_entry c M o h s e).
  Hypothesis batch_end : forall o h s, Po o -> B o h [] s ->
    F o (mkC (c_out s) (close_batch h s) [] (c_L s) (c_D s) (c_bn s)).
  Hypothesis file_end : forall o s, Po o -> F o s -> G (close_file o (c_file s) (c_out s), c_bn s).

  Lemma inv_entries o h es s : Po o -> B o h es s -> B o h [] (fold_left (step_entry c M o h) es s).
  Proof.
    intros Ho. revert s. induction es as [|e es IH]; intros s Hs; cbn [fold_left]; [exact Hs|].
    apply IH. now apply entry_step.
  Qed.

  Lemma inv_batches o bs s : Po o -> incl bs (of_batches o) -> F o s -> F o (fold_left (step_batch c M o) bs s).
  Proof.
    intros Ho. revert s. induction bs as [|b bs IH]; intros s Hin Hs; cbn [fold_left]; [exact Hs|].
    apply IH; [intros x Hx; apply Hin; now right|].
    unfold step_batch. apply batch_end; [exact Ho|]. apply inv_entries; [exact Ho|].
    apply batch_start; [exact Ho| apply Hin; now left | exact Hs].
  Qed.

  Lemma inv_files st acc : Forall Po st -> G acc -> G (fold_left (step_file c M) st acc).
  Proof.
    revert acc. induction st as [|o st IH]; intros acc Hst Hacc; cbn [fold_left]; [exact Hacc|].
    inversion Hst as [|? ? Ho Hst']; subst. apply IH; [exact Hst'|].
    unfold step_file. apply file_end; [exact Ho|]. apply inv_batches; [exact Ho|apply incl_refl|].
    now apply file_start.
  Qed.
End ConvertInvariant.

(* ================================================================ sums *)

Lemma zsum_app a b : zsum (a ++ b) = zsum a + zsum b.
Proof. unfold zsum. induction a as [|x a IH]; cbn [app fold_right]; [lia|]. fold (zsum a) in *. lia. Qed.

Lemma batches_lines_app a b : batches_lines (a ++ b) = batches_lines a + batches_lines b.
Proof. unfold batches_lines. now rewrite map_app, zsum_app. Qed.

Lemma batches_amount_app a b : batches_amount (a ++ b) = batches_amount a + batches_amount b.
Proof. unfold batches_amount. now rewrite map_app, zsum_app. Qed.

Lemma batches_entries_app a b : batches_entries (a ++ b) = batches_entries a ++ batches_entries b.
Proof. unfold batches_entries. apply flat_map_app. Qed.

Lemma renumber_lines seq bs : batches_lines (renumber seq bs) = batches_lines bs.
Proof.
  unfold batches_lines. revert seq. induction bs as [|b r IH]; intros seq; cbn [renumber map zsum fold_right]; [reflexivity|].
  fold (zsum (map batch_lines (renumber (seq + 1) r))). fold (zsum (map batch_lines r)). rewrite IH.
  destruct (rb_number b <=? 1); reflexivity.
Qed.

Lemma renumber_amount seq bs : batches_amount (renumber seq bs) = batches_amount bs.
Proof.
  unfold batches_amount. revert seq. induction bs as [|b r IH]; intros seq; cbn [renumber map zsum fold_right]; [reflexivity|].
  fold (zsum (map batch_amount (renumber (seq + 1) r))). fold (zsum (map batch_amount r)). rewrite IH.
  destruct (rb_number b <=? 1); reflexivity.
Qed.

Lemma renumber_entries seq bs : batches_entries (renumber seq bs) = batches_entries bs.
Proof.
  unfold batches_entries. revert seq. induction bs as [|b r IH]; intros seq; cbn [renumber flat_map]; [reflexivity|].
  rewrite IH. destruct (rb_number b <=? 1); reflexivity.
Qed.

Lemma renumber_headers seq bs :
  map (fun rb => (rb_header rb, rb_entries rb)) (renumber seq bs) = map (fun rb => (rb_header rb, rb_entries rb)) bs.
Proof.
  revert seq. induction bs as [|b r IH]; intros seq; cbn [renumber map]; [reflexivity|].
  rewrite IH. destruct (rb_number b <=? 1); reflexivity.
Qed.

(* ================================================================ C09: limits *)

Definition nent (bs : list rbatch) : nat := length (batches_entries bs).

(* what the property demands of one output file (given as its batch list) *)
Definition lim_ok (c : conds) (M : Z) (bs : list rbatch) : Prop :=
  (0 < maxLines c -> 2 + batches_lines bs <= maxLines c \/ (nent bs <= 1)%nat) /\
  (0 < M -> batches_amount bs <= M \/ (nent bs <= 1)%nat) /\
  Forall (fun rb => rb_entries rb <> []) bs.

Definition out_ok (c : conds) (M : Z) (out : list rfile) : Prop :=
  Forall (fun g => lim_ok c M (rf_batches g) /\ rf_batches g <> []) out.

Definition lim_B (c : conds) (M : Z) (o : ofile) (h : header) (rest : list entry) (s : cstate) : Prop :=
  out_ok c M (c_out s) /\ lim_ok c M (c_file s) /\
  2 + batches_lines (c_file s) + 2 + zsum (map entry_lines (c_bent s)) <= c_L s /\
  batches_amount (c_file s) + zsum (map e_amount (c_bent s)) = c_D s /\
  (c_bent s <> [] -> 0 < maxLines c -> c_L s <= maxLines c \/ (nent (c_file s) + length (c_bent s) <= 1)%nat) /\
  (c_bent s <> [] -> 0 < M -> c_D s <= M \/ (nent (c_file s) + length (c_bent s) <= 1)%nat).

Definition lim_F (c : conds) (M : Z) (o : ofile) (s : cstate) : Prop :=
  out_ok c M (c_out s) /\ lim_ok c M (c_file s) /\
  2 + batches_lines (c_file s) <= c_L s /\ batches_amount (c_file s) = c_D s.

Lemma lim_ok_nil c M : lim_ok c M [].
Proof. unfold lim_ok, nent. cbn. repeat split; auto. Qed.

Lemma lim_ok_renumber c M seq bs : lim_ok c M bs -> lim_ok c M (renumber seq bs).
Proof.
  unfold lim_ok, nent. rewrite renumber_lines, renumber_amount, renumber_entries.
  intros (H1 & H2 & H3). repeat split; auto.
  clear H1 H2. revert seq. induction H3 as [|b r Hb Hr IH]; intros seq; cbn [renumber]; constructor; auto.
  destruct (rb_number b <=? 1); exact Hb.
Qed.

Lemma lim_close_batch c M o h rest s :
  lim_B c M o h rest s ->
  lim_ok c M (close_batch h s) /\ 2 + batches_lines (close_batch h s) <= c_L s /\
  batches_amount (close_batch h s) = c_D s.
Proof.
  intros (Hout & (Hl & Hd & Hne) & HL & HD & HbL & HbD). unfold close_batch.
  destruct (c_bent s) as [|e es] eqn:Hb.
  - cbn [map zsum fold_right] in HL, HD. repeat split; auto; lia.
  - assert (Hnn : e :: es <> []) by discriminate.
    specialize (HbL Hnn). specialize (HbD Hnn).
    set (nb := mkRBatch (c_bn s) h (e :: es)).
    assert (E1 : batches_lines [nb] = 2 + zsum (map entry_lines (e :: es))).
    { unfold batches_lines, batch_lines, nb. cbn [map zsum fold_right rb_entries]. lia. }
    assert (E2 : batches_amount [nb] = zsum (map e_amount (e :: es))).
    { unfold batches_amount, batch_amount, nb. cbn [map zsum fold_right rb_entries]. lia. }
    assert (E3 : batches_entries [nb] = e :: es).
    { unfold batches_entries, nb. cbn [flat_map rb_entries]. apply app_nil_r. }
    unfold lim_ok, nent. rewrite batches_lines_app, batches_amount_app, batches_entries_app, app_length, E1, E2, E3.
    unfold nent in HbL, HbD.
    repeat split.
    + intros Hpos. destruct (HbL Hpos) as [H|H]; [left; lia|right; exact H].
    + intros Hpos. destruct (HbD Hpos) as [H|H]; [left; lia|right; exact H].
    + apply Forall_app. split; [exact Hne|]. constructor; [cbn; discriminate|constructor].
    + lia.
    + lia.
Qed.

Lemma out_ok_close_file c M o bs out :
  out_ok c M out -> lim_ok c M bs -> out_ok c M (close_file o bs out).
Proof.
  intros Hout Hbs. unfold close_file. destruct bs as [|b r]; [exact Hout|].
  apply Forall_app. split; [exact Hout|]. constructor; [|constructor].
  unfold create_file. cbn [rf_batches]. split; [now apply lim_ok_renumber|].
  cbn [renumber]. discriminate.
Qed.

Lemma lim_entry_step c M o h e rest s :
  lim_B c M o h (e :: rest) s -> lim_B c M o h rest (step_entry c M o h s e).
Proof.
  intros Hs. pose proof (lim_close_batch _ _ _ _ _ _ Hs) as (Hcb & _ & _).
  destruct Hs as (Hout & Hf & HL & HD & HbL & HbD).
  unfold step_entry. destruct (exceeds c M (c_L s) (c_D s) e) eqn:Hex.
  - unfold lim_B. cbn [c_out c_file c_bent c_L c_D].
    split; [now apply out_ok_close_file|]. split; [apply lim_ok_nil|].
    unfold batches_lines, batches_amount, nent, batches_entries. cbn [map zsum fold_right flat_map length].
    unfold entry_lines. repeat split; try lia; intros _ _; right; lia.
  - unfold lim_B. cbn [c_out c_file c_bent c_L c_D].
    split; [exact Hout|]. split; [exact Hf|].
    rewrite !map_app, !zsum_app. cbn [map zsum fold_right]. unfold entry_lines at 2.
    unfold exceeds in Hex.
    repeat split; try lia; intros _ Hpos; left; lia.
Qed.

Lemma convert_limits c st : out_ok c (effective_dollar c) (convert c st).
Proof.
  unfold convert. set (M := effective_dollar c).
  apply (inv_files c M (fun _ => True) (lim_B c M) (lim_F c M) (fun acc => out_ok c M (fst acc))).
  - intros o acc _ Hacc. unfold lim_F. cbn [c_out c_file c_L c_D].
    split; [exact Hacc|]. split; [apply lim_ok_nil|]. unfold batches_lines, batches_amount. cbn. lia.
  - intros o b s _ _ (Hout & Hf & HL & HD). unfold lim_B. cbn [c_out c_file c_bent c_L c_D map zsum fold_right].
    split; [exact Hout|]. split; [exact Hf|]. split; [lia|]. split; [lia|].
    split; intros Hn; now contradiction Hn.
  - intros o h e rest s _. apply lim_entry_step.
  - intros o h s _ Hs. pose proof (lim_close_batch _ _ _ _ _ _ Hs) as (Hcb & HL & HD).
    destruct Hs as (Hout & _). unfold lim_F. cbn [c_out c_file c_L c_D].
    split; [exact Hout|]. split; [exact Hcb|]. split; assumption.
  - intros o s _ (Hout & Hf & _). cbn [fst]. now apply out_ok_close_file.
  - apply Forall_forall. intros; exact I.
  - constructor.
Qed.

Lemma merge_limits fs c g :
  In g (merge_files fs c) ->
  (0 < maxLines c -> file_lines g <= maxLines c \/ length (file_entries g) = 1%nat) /\
  (0 < effective_dollar c -> file_amount g <= effective_dollar c \/ length (file_entries g) = 1%nat) /\
  rf_batches g <> [] /\ Forall (fun rb => rb_entries rb <> []) (rf_batches g).
Proof.
  intros Hg. pose proof (convert_limits c (build_state fs)) as H.
  unfold out_ok in H. rewrite Forall_forall in H. specialize (H g Hg) as ((Hl & Hd & Hne) & Hnb).
  assert (Hpos : (1 <= length (file_entries g))%nat).
  { unfold file_entries, batches_entries. destruct (rf_batches g) as [|b r]; [contradiction|].
    inversion Hne as [|? ? Hb _]; subst. cbn [flat_map]. rewrite app_length.
    destruct (rb_entries b); [contradiction|cbn; lia]. }
  unfold file_lines, file_amount. unfold nent in Hl, Hd. fold (file_entries g) in Hl, Hd.
  repeat split; auto.
  - intros Hp. destruct (Hl Hp) as [?|?]; [left; assumption|right; lia].
  - intros Hp. destruct (Hd Hp) as [?|?]; [left; assumption|right; lia].
Qed.

Lemma effective_dollar_spec c :
  (maxDollar c < 0 -> effective_dollar c = maxDollar c) /\
  (0 <= maxDollar c -> 0 < effective_dollar c <= nacha_limit) /\
  (0 < maxDollar c <= nacha_limit -> effective_dollar c = maxDollar c).
Proof. unfold effective_dollar, nacha_limit. repeat split; intros; destruct (maxDollar c =? 0) eqn:?, (999999999999 <? maxDollar c) eqn:?; cbn; lia. Qed.

(* ================================================================ C09: ascending batch numbers *)

(* strictly ascending and all above lo *)
Fixpoint asc (lo : Z) (l : list Z) : Prop :=
  match l with
  | [] => True
  | x :: r => lo < x /\ asc x r
  end.

Lemma asc_last_le lo l x y : asc lo (l ++ [x]) -> x <= y -> asc lo (l ++ [y]).
Proof. revert lo. induction l as [|a l IH]; intros lo; cbn; intros [H1 H2] Hxy; split; try lia; auto. Qed.

Lemma asc_snoc lo l x y : asc lo (l ++ [x]) -> x < y -> asc lo ((l ++ [x]) ++ [y]).
Proof. revert lo. induction l as [|a l IH]; intros lo; cbn; intros [H1 H2] Hxy; repeat split; try lia; auto. Qed.

Lemma asc_prefix lo l x : asc lo (l ++ [x]) -> asc lo l.
Proof. revert lo. induction l as [|a l IH]; intros lo; cbn; [auto|]. intros [H1 H2]. split; eauto. Qed.

Lemma asc_last_gt lo l x : asc lo (l ++ [x]) -> lo < x.
Proof. revert lo. induction l as [|a l IH]; intros lo; cbn; intros [H1 H2]; [lia|]. specialize (IH _ H2). lia. Qed.

Lemma renumber_id lo seq bs : asc lo (map rb_number bs) -> 1 <= seq <= lo + 1 -> renumber seq bs = bs.
Proof.
  revert lo seq. induction bs as [|b r IH]; intros lo seq; cbn [map asc renumber]; [reflexivity|].
  intros [H1 H2] Hs. rewrite (IH (rb_number b) (seq + 1) H2) by lia.
  destruct (rb_number b <=? 1) eqn:Hn; [|reflexivity].
  assert (seq = rb_number b) as -> by lia. destruct b; reflexivity.
Qed.

Definition nums (bs : list rbatch) : list Z := map rb_number bs.

Definition out_num (out : list rfile) : Prop := Forall (fun g => asc 0 (nums (rf_batches g))) out.

Lemma nums_close_batch h s :
  nums (close_batch h s) = nums (c_file s) \/ nums (close_batch h s) = nums (c_file s) ++ [c_bn s].
Proof.
  unfold close_batch, nums. destruct (c_bent s); [now left|right]. now rewrite map_app.
Qed.

Lemma out_num_close_file o bs out : out_num out -> asc 0 (nums bs) -> out_num (close_file o bs out).
Proof.
  intros Hout Hbs. unfold close_file. destruct bs as [|b r]; [exact Hout|].
  apply Forall_app. split; [exact Hout|]. constructor; [|constructor].
  unfold create_file. cbn [rf_batches]. rewrite (renumber_id 0 1 (b :: r) Hbs) by lia. exact Hbs.
Qed.

Lemma convert_numbers c st : out_num (convert c st).
Proof.
  unfold convert. set (M := effective_dollar c).
  apply (inv_files c M (fun _ => True)
           (fun o h rest s => out_num (c_out s) /\ asc 0 (nums (c_file s) ++ [c_bn s]))
           (fun o s => out_num (c_out s) /\ asc 0 (nums (c_file s) ++ [c_bn s + 1]))
           (fun acc => out_num (fst acc) /\ 0 <= snd acc)).
  - intros o acc _ [Hout Hbn]. cbn [c_out c_file c_bn nums map app asc]. split; [exact Hout|]. split; [lia|exact I].
  - intros o b s _ _ [Hout Hn]. cbn [c_out c_file c_bn]. split; assumption.
  - intros o h e rest s _ [Hout Hn]. unfold step_entry. destruct (exceeds c M (c_L s) (c_D s) e).
    + cbn [c_out c_file c_bn nums map app asc]. pose proof (asc_last_gt _ _ _ Hn) as Hpos.
      split; [|split; [lia|exact I]]. apply out_num_close_file; [exact Hout|].
      destruct (nums_close_batch h s) as [-> | ->]; [eapply asc_prefix; exact Hn|exact Hn].
    + cbn [c_out c_file c_bn]. split; assumption.
  - intros o h s _ [Hout Hn]. cbn [c_out c_file c_bn]. split; [exact Hout|].
    destruct (nums_close_batch h s) as [-> | ->].
    + eapply asc_last_le; [exact Hn|lia].
    + apply asc_snoc; [exact Hn|lia].
  - intros o s _ [Hout Hn]. cbn [fst snd]. pose proof (asc_last_gt _ _ _ Hn). split; [|lia].
    apply out_num_close_file; [exact Hout|]. eapply asc_prefix; exact Hn.
  - apply Forall_forall. intros; exact I.
  - cbn. split; [constructor|lia].
Qed.

Lemma merge_numbers fs c g : In g (merge_files fs c) -> asc 0 (map rb_number (rf_batches g)).
Proof.
  intros Hg. pose proof (convert_numbers c (build_state fs)) as H. unfold out_num in H.
  rewrite Forall_forall in H. exact (H g Hg).
Qed.

(* ================================================================ C09: ascending unique traces *)

(* adjacent entries strictly ascending by trace number in Go's string order *)
Fixpoint tasc (l : list entry) : Prop :=
  match l with
  | [] => True
  | x :: r => match r with [] => True | y :: _ => bcmp (e_trace x) (e_trace y) = Lt end /\ tasc r
  end.

Lemma tasc_app_l a b : tasc (a ++ b) -> tasc a.
Proof.
  induction a as [|x a IH]; cbn [app tasc]; [auto|]. intros [H1 H2]. split; [|auto].
  destruct a as [|y a]; [exact I|exact H1].
Qed.

Lemma tasc_app_r a b : tasc (a ++ b) -> tasc b.
Proof. induction a as [|x a IH]; cbn [app]; [auto|]. intros H. apply IH. cbn [tasc] in H. apply H. Qed.

(* tasc is strict sortedness: any two positions are ordered *)
Lemma tasc_all_lt x l : tasc (x :: l) -> Forall (fun y => bcmp (e_trace x) (e_trace y) = Lt) l.
Proof.
  revert x. induction l as [|y l IH]; intros x H; [constructor|].
  destruct H as [Hxy Hl]. constructor; [exact Hxy|].
  specialize (IH y Hl). eapply Forall_impl; [|exact IH]. cbn. intros z Hz. eapply bcmp_trans; eauto.
Qed.

Definition lb (x : bytes) (m : tmap) : Prop := match m with [] => True | (k, _) :: _ => bcmp x k = Lt end.

Fixpoint ksorted (m : tmap) : Prop :=
  match m with
  | [] => True
  | (k, _) :: r => lb k r /\ ksorted r
  end.

Lemma lb_set x k v m : lb x m -> bcmp x k = Lt -> lb x (tm_set k v m).
Proof. destruct m as [|[k2 v2] r]; cbn; [auto|]. intros H1 H2. destruct (bcmp k k2); cbn; auto. Qed.

Lemma tm_set_sorted k v m : ksorted m -> ksorted (tm_set k v m).
Proof.
  induction m as [|[k2 v2] r IH]; cbn [tm_set ksorted]; [cbn; auto|].
  intros [H1 H2]. destruct (bcmp k k2) eqn:Hc.
  - apply bcmp_eq in Hc. subst k2. cbn [ksorted]. split; assumption.
  - cbn [ksorted lb]. repeat split; assumption.
  - cbn [ksorted]. split; [|auto]. apply lb_set; [exact H1|now apply bcmp_gt_lt].
Qed.

Definition tm_wf (m : tmap) : Prop := ksorted m /\ Forall (fun p => fst p = e_trace (snd p)) m.

Lemma tm_set_keys k v m :
  k = e_trace v -> Forall (fun p => fst p = e_trace (snd p)) m -> Forall (fun p => fst p = e_trace (snd p)) (tm_set k v m).
Proof.
  intros Hk. induction m as [|[k2 v2] r IH]; cbn [tm_set]; intros H.
  - constructor; [exact Hk|constructor].
  - inversion H as [|? ? Hh Ht]; subst. destruct (bcmp (e_trace v) k2); constructor; auto.
Qed.

Lemma tm_wf_set e m : tm_wf m -> tm_wf (tm_set (e_trace e) e m).
Proof. intros [H1 H2]. split; [now apply tm_set_sorted|now apply tm_set_keys]. Qed.

Lemma tm_wf_tasc m : tm_wf m -> tasc (map snd m).
Proof.
  intros [H1 H2]. induction m as [|[k v] r IH]; cbn [map tasc]; [exact I|].
  inversion H2 as [|? ? Hk Hr]; subst. destruct H1 as [Hlb Hs]. split; [|auto].
  destruct r as [|[k2 v2] r2]; [exact I|]. cbn [map snd]. cbn [lb] in Hlb.
  inversion Hr as [|? ? Hk2 _]; subst. cbn [fst snd] in *. now rewrite <- Hk, <- Hk2.
Qed.

Definition batches_wf (bs : list obatch) : Prop := Forall (fun ob => tm_wf (ob_entries ob)) bs.
Definition state_wf (st : list ofile) : Prop := Forall (fun o => batches_wf (of_batches o)) st.

Lemma place_wf h e bs : batches_wf bs -> batches_wf (place h e bs).
Proof.
  unfold batches_wf. induction bs as [|b r IH]; cbn [place]; intros H.
  - constructor; [|constructor]. cbn [ob_entries]. apply tm_wf_set. split; [exact I|constructor].
  - inversion H as [|? ? Hb Hr]; subst.
    destruct (header_equal (ob_header b) h && negb (tm_contains (e_trace e) (ob_entries b))).
    + constructor; [|exact Hr]. cbn [ob_entries]. now apply tm_wf_set.
    + constructor; auto.
Qed.

Lemma add_batch_wf ib bs : batches_wf bs -> batches_wf (add_batch bs ib).
Proof.
  unfold add_batch. revert bs. induction (ib_entries ib) as [|e es IH]; intros bs H; cbn [fold_left]; [exact H|].
  apply IH, place_wf, H.
Qed.

Lemma add_to_wf o f : batches_wf (of_batches o) -> batches_wf (of_batches (add_to o f)).
Proof.
  unfold add_to. cbn [of_batches]. generalize (of_batches o) as bs.
  induction (if_batches f) as [|ib ibs IH]; intros bs H; cbn [fold_left]; [exact H|].
  apply IH, add_batch_wf, H.
Qed.

Lemma add_file_wf st f : state_wf st -> state_wf (add_file st f).
Proof.
  unfold state_wf. induction st as [|o r IH]; cbn [add_file]; intros H.
  - constructor; [|constructor]. apply add_to_wf. constructor.
  - inversion H as [|? ? Ho Hr]; subst. destruct (same_route o f).
    + constructor; [now apply add_to_wf|exact Hr].
    + constructor; auto.
Qed.

Lemma build_state_wf fs : state_wf (build_state fs).
Proof.
  unfold build_state. destruct fs as [|f0 fs']; [constructor|].
  assert (H : state_wf [new_ofile f0]) by (constructor; [constructor|constructor]).
  revert H. generalize [new_ofile f0] as st. generalize (f0 :: fs') as fs.
  induction fs as [|f fs IH]; intros st H; cbn [fold_left]; [exact H|]. apply IH, add_file_wf, H.
Qed.

Definition btr (bs : list rbatch) : Prop := Forall (fun rb => tasc (rb_entries rb)) bs.
Definition out_tr (out : list rfile) : Prop := Forall (fun g => btr (rf_batches g)) out.

Lemma btr_renumber seq bs : btr bs -> btr (renumber seq bs).
Proof.
  unfold btr. intros H. revert seq. induction H as [|b r Hb Hr IH]; intros seq; cbn [renumber]; constructor; auto.
  destruct (rb_number b <=? 1); exact Hb.
Qed.

Lemma out_tr_close_file o bs out : out_tr out -> btr bs -> out_tr (close_file o bs out).
Proof.
  intros Hout Hbs. unfold close_file. destruct bs as [|b r]; [exact Hout|].
  apply Forall_app. split; [exact Hout|]. constructor; [|constructor].
  unfold create_file. cbn [rf_batches]. now apply btr_renumber.
Qed.

Lemma btr_close_batch h s : btr (c_file s) -> tasc (c_bent s) -> btr (close_batch h s).
Proof.
  intros Hf Hb. unfold close_batch. destruct (c_bent s) as [|e es] eqn:He; [exact Hf|].
  apply Forall_app. split; [exact Hf|]. constructor; [exact Hb|constructor].
Qed.

Lemma convert_traces c st :
  Forall (fun o => Forall (fun ob => tasc (map snd (ob_entries ob))) (of_batches o)) st -> out_tr (convert c st).
Proof.
  intros Hst. unfold convert. set (M := effective_dollar c).
  apply (inv_files c M (fun o => Forall (fun ob => tasc (map snd (ob_entries ob))) (of_batches o))
           (fun o h rest s => out_tr (c_out s) /\ btr (c_file s) /\ tasc (c_bent s ++ rest))
           (fun o s => out_tr (c_out s) /\ btr (c_file s))
           (fun acc => out_tr (fst acc))).
  - intros o acc _ Hacc. cbn [c_out c_file]. split; [exact Hacc|constructor].
  - intros o b s Ho Hb [Hout Hf]. cbn [c_out c_file c_bent app]. repeat split; try assumption.
    rewrite Forall_forall in Ho. now apply Ho.
  - intros o h e rest s _ (Hout & Hf & Hb). unfold step_entry. destruct (exceeds c M (c_L s) (c_D s) e).
    + cbn [c_out c_file c_bent]. split; [|split; [constructor|]].
      * apply out_tr_close_file; [exact Hout|]. apply btr_close_batch; [exact Hf|]. eapply tasc_app_l; exact Hb.
      * apply tasc_app_r in Hb. exact Hb.
    + cbn [c_out c_file c_bent]. repeat split; try assumption. now rewrite <- app_assoc.
  - intros o h s _ (Hout & Hf & Hb). cbn [c_out c_file]. split; [exact Hout|].
    apply btr_close_batch; [exact Hf|]. rewrite app_nil_r in Hb. exact Hb.
  - intros o s _ [Hout Hf]. cbn [fst]. now apply out_tr_close_file.
  - exact Hst.
  - constructor.
Qed.

Lemma merge_traces fs c g rb : In g (merge_files fs c) -> In rb (rf_batches g) -> tasc (rb_entries rb).
Proof.
  intros Hg Hb. assert (H : out_tr (merge_files fs c)).
  { apply convert_traces. pose proof (build_state_wf fs) as Hw. unfold state_wf, batches_wf in Hw.
    eapply Forall_impl; [|exact Hw]. cbn. intros o Ho. eapply Forall_impl; [|exact Ho]. cbn.
    intros ob. apply tm_wf_tasc. }
  unfold out_tr, btr in H. rewrite Forall_forall in H. specialize (H g Hg).
  rewrite Forall_forall in H. exact (H rb Hb).
Qed.

(* ================================================================ C09: maximal merging when no limit binds *)

(* the conversion without any overflow: one output file per out-file of the state,
   holding one batch per stored batch, numbered consecutively *)
Fixpoint numbered (bn : Z) (bs : list obatch) : list rbatch :=
  match bs with
  | [] => []
  | b :: r =>
      match map snd (ob_entries b) with
      | [] => []
      | e :: es => [mkRBatch (bn + 1) (ob_header b) (e :: es)]
      end ++ numbered (bn + 1) r
  end.

Definition plain_step (acc : list rfile * Z) (o : ofile) : list rfile * Z :=
  (close_file o (numbered (snd acc) (of_batches o)) (fst acc), snd acc + Z.of_nat (length (of_batches o))).

Definition plain (st : list ofile) : list rfile := fst (fold_left plain_step st ([], 0)).

Definition ob_list (b : obatch) : list entry := map snd (ob_entries b).
Definition ob_lines (b : obatch) : Z := 2 + zsum (map entry_lines (ob_list b)).
Definition ob_amount (b : obatch) : Z := zsum (map e_amount (ob_list b)).

(* "no limit binds" for one out-file of the state: its whole content fits *)
Definition fits (c : conds) (M : Z) (o : ofile) : Prop :=
  (0 < maxLines c -> 2 + zsum (map ob_lines (of_batches o)) <= maxLines c) /\
  (0 < M -> zsum (map ob_amount (of_batches o)) <= M).

Definition entry_nonneg (e : entry) : Prop := 0 <= e_addenda e /\ 0 <= e_amount e.
Definition ofile_nonneg (o : ofile) : Prop := Forall (fun b => Forall entry_nonneg (ob_list b)) (of_batches o).

Lemma zsum_lines_nonneg es : Forall entry_nonneg es -> 0 <= zsum (map entry_lines es).
Proof.
  induction 1 as [|e es [Ha _] _ IH]; cbn [map zsum fold_right]; [lia|]. fold (zsum (map entry_lines es)).
  unfold entry_lines at 1. lia.
Qed.

Lemma zsum_amount_nonneg es : Forall entry_nonneg es -> 0 <= zsum (map e_amount es).
Proof.
  induction 1 as [|e es [_ Ha] _ IH]; cbn [map zsum fold_right]; [lia|]. fold (zsum (map e_amount es)). lia.
Qed.

Lemma entries_noover c M o h es : forall s,
  Forall entry_nonneg es ->
  (0 < maxLines c -> c_L s + zsum (map entry_lines es) <= maxLines c) ->
  (0 < M -> c_D s + zsum (map e_amount es) <= M) ->
  fold_left (step_entry c M o h) es s
  = mkC (c_out s) (c_file s) (c_bent s ++ es) (c_L s + zsum (map entry_lines es)) (c_D s + zsum (map e_amount es)) (c_bn s).
Proof.
  induction es as [|e es IH]; intros s Hnn HL HD; cbn [fold_left map zsum fold_right].
  - rewrite app_nil_r, !Z.add_0_r. destruct s; reflexivity.
  - cbn [map zsum fold_right] in HL, HD. fold (zsum (map entry_lines es)) in *. fold (zsum (map e_amount es)) in *.
    inversion Hnn as [|? ? He Hes]; subst.
    pose proof (zsum_lines_nonneg es Hes) as P1. pose proof (zsum_amount_nonneg es Hes) as P2.
    destruct He as [He1 He2]. unfold entry_lines at 1 in HL.
    assert (Hex : exceeds c M (c_L s) (c_D s) e = false) by (unfold exceeds; lia).
    unfold step_entry at 2. rewrite Hex. rewrite IH; cbn [c_out c_file c_bent c_L c_D c_bn]; try assumption; try lia.
    rewrite <- app_assoc. cbn [app]. unfold entry_lines at 2. f_equal; lia.
Qed.

Lemma batches_noover c M o bs : forall s,
  c_bent s = [] ->
  Forall (fun b => Forall entry_nonneg (ob_list b)) bs ->
  (0 < maxLines c -> c_L s + zsum (map ob_lines bs) <= maxLines c) ->
  (0 < M -> c_D s + zsum (map ob_amount bs) <= M) ->
  fold_left (step_batch c M o) bs s
  = mkC (c_out s) (c_file s ++ numbered (c_bn s) bs) [] (c_L s + zsum (map ob_lines bs))
        (c_D s + zsum (map ob_amount bs)) (c_bn s + Z.of_nat (length bs)).
Proof.
  induction bs as [|b bs IH]; intros s Hb Hnn HL HD.
  - cbn [fold_left numbered map zsum fold_right length Z.of_nat]. rewrite app_nil_r, !Z.add_0_r.
    destruct s; cbn in Hb; subst; reflexivity.
  - cbn [fold_left map zsum fold_right] in *. fold (zsum (map ob_lines bs)) in *. fold (zsum (map ob_amount bs)) in *.
    inversion Hnn as [|? ? Hb0 Hbs]; subst.
    pose proof (zsum_lines_nonneg _ Hb0) as P1. pose proof (zsum_amount_nonneg _ Hb0) as P2.
    assert (Q1 : 0 <= zsum (map ob_lines bs)).
    { clear -Hbs. induction Hbs as [|x l Hx _ IHl]; cbn [map zsum fold_right]; [lia|].
      fold (zsum (map ob_lines l)). pose proof (zsum_lines_nonneg _ Hx). unfold ob_lines at 1. lia. }
    assert (Q2 : 0 <= zsum (map ob_amount bs)).
    { clear -Hbs. induction Hbs as [|x l Hx _ IHl]; cbn [map zsum fold_right]; [lia|].
      fold (zsum (map ob_amount l)). pose proof (zsum_amount_nonneg _ Hx). unfold ob_amount at 1. lia. }
    unfold ob_lines at 1 in HL. unfold ob_amount at 1 in HD.
    unfold step_batch at 2. fold (ob_list b).
    rewrite entries_noover; cbn [c_out c_file c_bent c_L c_D c_bn app]; try assumption; try lia.
    rewrite IH; cbn [c_out c_file c_bent c_L c_D c_bn]; try reflexivity; try assumption.
    + unfold close_batch. cbn [c_bent c_file c_bn numbered]. fold (ob_list b).
      unfold ob_lines at 2, ob_amount at 2. cbn [length].
      destruct (ob_list b) as [|e es]; cbn [app]; [f_equal; try lia; now rewrite app_nil_r|].
      rewrite <- app_assoc. cbn [app]. f_equal; lia.
    + intros Hp. specialize (HL Hp). lia.
    + intros Hp. specialize (HD Hp). lia.
Qed.

Lemma step_file_noover c M acc o :
  fits c M o -> ofile_nonneg o -> step_file c M acc o = plain_step acc o.
Proof.
  intros [HL HD] Hnn. unfold step_file, plain_step.
  rewrite batches_noover; cbn [c_out c_file c_bent c_L c_D c_bn app]; try reflexivity; try assumption.
Qed.

Lemma convert_noover c st :
  Forall (fun o => fits c (effective_dollar c) o /\ ofile_nonneg o) st -> convert c st = plain st.
Proof.
  unfold convert, plain. generalize (@nil rfile, 0) as acc.
  induction st as [|o st IH]; intros acc H; cbn [fold_left]; [reflexivity|].
  inversion H as [|? ? [Hf Hn] Hst]; subst. rewrite step_file_noover by assumption. now apply IH.
Qed.

(* ---- the tree-map state: one out-file per routing pair *)

Lemma same_route_false o f : same_route o f = false -> of_route o <> if_route f.
Proof.
  unfold same_route, of_route, if_route. intros H Heq. injection Heq as H1 H2.
  assert (bytes_eqb (if_origin f) (of_origin o) = true) as E1 by (apply bytes_eqb_eq; congruence).
  assert (bytes_eqb (if_dest f) (of_dest o) = true) as E2 by (apply bytes_eqb_eq; congruence).
  rewrite E1, E2 in H. discriminate.
Qed.

Lemma add_file_routes st f :
  (In (if_route f) (map of_route st) /\ map of_route (add_file st f) = map of_route st) \/
  (~ In (if_route f) (map of_route st) /\ map of_route (add_file st f) = map of_route st ++ [if_route f]).
Proof.
  induction st as [|o r IH]; cbn [add_file map app].
  - right. split; [intros []|reflexivity].
  - destruct (same_route o f) eqn:Hs.
    + left. split; [left; now apply same_route_eq|]. reflexivity.
    + apply same_route_false in Hs. destruct IH as [[Hin Heq]|[Hnin Heq]].
      * left. split; [now right|]. cbn [map]. now rewrite Heq.
      * right. split; [intros [H|H]; [now apply Hs|now apply Hnin]|]. cbn [map]. now rewrite Heq.
Qed.

Lemma build_state_routes fs : NoDup (map of_route (build_state fs)).
Proof.
  unfold build_state. destruct fs as [|f0 fs']; [constructor|].
  assert (H : NoDup (map of_route [new_ofile f0])) by (cbn; constructor; [intros []|constructor]).
  revert H. generalize [new_ofile f0] as st. generalize (f0 :: fs') as fs.
  induction fs as [|f fs IH]; intros st H; cbn [fold_left]; [exact H|]. apply IH.
  destruct (add_file_routes st f) as [[_ ->]|[Hnin ->]]; [exact H|].
  eapply Permutation_NoDup; [apply Permutation_cons_append|]. now constructor.
Qed.

(* ---- the tree-map state: batches with Equal headers exist only because traces collide *)

(* b was not merged into the earlier batch a although the headers are Equal: every trace
   number of b is already present in a *)
Definition collides (a b : obatch) : Prop :=
  header_equal (ob_header a) (ob_header b) = true ->
  forall k, tm_contains k (ob_entries b) = true -> tm_contains k (ob_entries a) = true.

Definition coll_ok (bs : list obatch) : Prop := ForallOrdPairs collides bs.

Lemma header_equal_trans a b c :
  header_equal a b = true -> header_equal b c = true -> header_equal a c = true.
Proof. rewrite !header_equal_hkey. congruence. Qed.

Lemma place_forall (Q : obatch -> Prop) h e bs :
  Forall Q bs ->
  (forall b, Q b -> header_equal (ob_header b) h = true ->
             Q (mkOBatch (ob_header b) (tm_set (e_trace e) e (ob_entries b)))) ->
  Q (mkOBatch h (tm_set (e_trace e) e [])) ->
  Forall Q (place h e bs).
Proof.
  intros Hbs Hupd Hnew. induction Hbs as [|b r Hb Hr IH]; cbn [place].
  - constructor; [exact Hnew|constructor].
  - destruct (header_equal (ob_header b) h && negb (tm_contains (e_trace e) (ob_entries b))) eqn:Hc.
    + apply andb_prop in Hc as [Hh _]. constructor; [now apply Hupd|exact Hr].
    + constructor; [exact Hb|exact IH].
Qed.

Lemma place_coll h e bs : coll_ok bs -> coll_ok (place h e bs).
Proof.
  unfold coll_ok. induction 1 as [|a l Ha Hl IH]; cbn [place].
  - constructor; [constructor|constructor].
  - destruct (header_equal (ob_header a) h && negb (tm_contains (e_trace e) (ob_entries a))) eqn:Hc.
    + (* inserted into a: a only grows *)
      constructor; [|exact Hl]. eapply Forall_impl; [|exact Ha]. intros x Hx. unfold collides in *.
      cbn [ob_header ob_entries]. intros Hh k Hk. rewrite tm_contains_set. rewrite (Hx Hh k Hk). apply orb_true_r.
    + (* a skipped: Equal header implies a already holds the trace *)
      assert (Hskip : header_equal (ob_header a) h = true -> tm_contains (e_trace e) (ob_entries a) = true).
      { intros Hh. rewrite Hh in Hc. cbn in Hc. now apply negb_false_iff in Hc. }
      constructor; [|exact IH]. apply place_forall; [exact Ha| |].
      * intros b Hb Hbh. unfold collides in *. cbn [ob_header ob_entries]. intros Hab k Hk.
        rewrite tm_contains_set in Hk. apply orb_prop in Hk as [Hk|Hk]; [|now apply Hb].
        apply is_eq_true, bcmp_eq in Hk. subst k. apply Hskip. eapply header_equal_trans; eassumption.
      * unfold collides. cbn [ob_header ob_entries tm_set tm_contains]. intros Hah k Hk.
        rewrite orb_false_r in Hk. apply is_eq_true, bcmp_eq in Hk. subst k. now apply Hskip.
Qed.

Definition batches_nonempty (bs : list obatch) : Prop := Forall (fun b => ob_entries b <> []) bs.

Lemma tm_set_nonempty k v m : tm_set k v m <> [].
Proof. destruct m as [|[k2 v2] r]; cbn; [discriminate|]. destruct (bcmp k k2); discriminate. Qed.

Lemma place_nonempty h e bs : batches_nonempty bs -> batches_nonempty (place h e bs).
Proof.
  intros H. apply place_forall; [exact H| |]; intros; cbn [ob_entries]; apply tm_set_nonempty.
Qed.

Definition batches_good (bs : list obatch) : Prop := coll_ok bs /\ batches_nonempty bs.

Lemma add_to_good o f : batches_good (of_batches o) -> batches_good (of_batches (add_to o f)).
Proof.
  unfold add_to. cbn [of_batches]. generalize (of_batches o) as bs.
  induction (if_batches f) as [|ib ibs IH]; intros bs H; cbn [fold_left]; [exact H|]. apply IH.
  unfold add_batch. revert bs H. induction (ib_entries ib) as [|e es IHe]; intros bs H; cbn [fold_left]; [exact H|].
  apply IHe. destruct H as [H1 H2]. split; [now apply place_coll|now apply place_nonempty].
Qed.

Lemma add_file_good st f :
  Forall (fun o => batches_good (of_batches o)) st -> Forall (fun o => batches_good (of_batches o)) (add_file st f).
Proof.
  induction st as [|o r IH]; cbn [add_file]; intros H.
  - constructor; [|constructor]. apply add_to_good. split; constructor.
  - inversion H as [|? ? Ho Hr]; subst. destruct (same_route o f).
    + constructor; [now apply add_to_good|exact Hr].
    + constructor; auto.
Qed.

Lemma build_state_good fs : Forall (fun o => batches_good (of_batches o)) (build_state fs).
Proof.
  unfold build_state. destruct fs as [|f0 fs']; [constructor|].
  assert (H : Forall (fun o => batches_good (of_batches o)) [new_ofile f0]).
  { constructor; [split; constructor|constructor]. }
  revert H. generalize [new_ofile f0] as st. generalize (f0 :: fs') as fs.
  induction fs as [|f fs IH]; intros st H; cbn [fold_left]; [exact H|]. apply IH, add_file_good, H.
Qed.

(* When no limit binds on the merged content: the result is the plain conversion of a state
   that has one out-file per routing pair, whose Equal-header batches all collide on traces. *)
Lemma merge_maximal fs c :
  Forall (fun o => fits c (effective_dollar c) o /\ ofile_nonneg o) (build_state fs) ->
  merge_files fs c = plain (build_state fs) /\
  NoDup (map of_route (build_state fs)) /\
  Forall (fun o => coll_ok (of_batches o) /\ batches_nonempty (of_batches o)) (build_state fs).
Proof.
  intros H. split; [now apply convert_noover|]. split; [apply build_state_routes|apply build_state_good].
Qed.

(* what "collides" means on trace numbers: membership of the key *)
Lemma tm_contains_in k m : tm_contains k m = true <-> exists v, In (k, v) m.
Proof.
  induction m as [|[k2 v2] r IH]; cbn [tm_contains].
  - split; [discriminate|intros [v []]].
  - rewrite orb_true_iff, IH, is_eq_true, bcmp_eq. split.
    + intros [->|[v Hv]]; [exists v2; now left|exists v; now right].
    + intros [v [Hv|Hv]]; [left; congruence|right; now exists v].
Qed.

(* ================================================================ C09: validity, relative to the validator *)

Section Validity.
  (* [entry_ok k e]: entry e is admissible in a batch whose header has identity key k (transaction
     code against service class, SEC specific entry rules, trace prefix = ODFI, ...);
     [batch_valid h es]: Batch.Create succeeds on header h with entries es and the result validates.
     Both belong to the validator model (C03/C06); here they are parameters. *)
  Variable entry_ok : hkey_t -> entry -> Prop.
  Variable batch_valid : header -> list entry -> Prop.
  Hypothesis batch_valid_intro : forall h es,
    es <> [] -> tasc es -> (forall e, In e es -> entry_ok (hkey h) e) -> batch_valid h es.

  Lemma merge_valid_relative fs c :
    (forall f ib e, In f fs -> In ib (if_batches f) -> In e (ib_entries ib) -> entry_ok (hkey (ib_header ib)) e) ->
    forall g rb, In g (merge_files fs c) -> In rb (rf_batches g) -> batch_valid (rb_header rb) (rb_entries rb).
  Proof.
    intros Hin g rb Hg Hrb. apply batch_valid_intro.
    - pose proof (merge_limits fs c g Hg) as (_ & _ & _ & Hne). rewrite Forall_forall in Hne. now apply Hne.
    - eapply merge_traces; eassumption.
    - intros e He. destruct (merge_no_mixing fs c g rb e Hg Hrb He) as (f & ib & Hf & Hib & Hie & _ & Hk).
      rewrite <- Hk. eapply Hin; eassumption.
  Qed.
End Validity.

(* Phase 2, C13: abstraction from the Reversal model to the skeleton of the validator
   model Arith.  Definitions only.

   The Reversal model keeps of a batch the two service classes, description, date, the
   two control totals and per entry (code, amount, id, trace).  Everything else Arith
   looks at is never touched by File.Reversal and travels as an opaque payload:
   per batch [bpay] (header ODFI and number; control count, hash, ODFI, number), per entry
   a function [ep] of the two fields Reversal leaves alone (id, trace) giving routing
   number, check digit, trace string and addenda count.  [rev_entry] preserves id and
   trace, so the payload of a reversed entry is the payload of the original by
   construction; the batch payloads are carried position by position
   ([reversal_file] maps over the batches).

   The file control fields the model lacks (batch count, entry/addenda count, hash) are
   what File.Create writes: the tabulation of the batch controls (C05_file_create_valid). *)
From ACH Require Import ValidOut.
From Coq Require Import ZArith NArith List Bool.
From ACH Require Import Bytes TxCodes RevTable Reversal.
Open Scope Z_scope.

Module AR := ACH.Model.Arith.

Record bpay := mkbpay {
  bp_odfi : bytes; bp_number : Z;                                   (* header *)
  bp_count : Z; bp_hash : Z; bp_codfi : bytes; bp_cnumber : Z }.    (* control *)

Record rpay := mkrpay { rp_rdfi : bytes; rp_check : bytes; rp_trace : bytes; rp_addenda : Z }.

Definition r_entry (ep : N -> N -> rpay) (e : entry) : AR.entry :=
  let p := ep (e_id e) (e_trace e) in
  AR.mkentry (e_code e) (e_amount e) (rp_rdfi p) (rp_check p) (rp_trace p) (rp_addenda p).

Definition r_batch (ep : N -> N -> rpay) (bp : bpay) (b : rbatch) : AR.batch :=
  AR.mkbatch AR.KStd (rb_scc_h b) (bp_odfi bp) (bp_number bp) (map (r_entry ep) (rb_entries b))
             (AR.mkbctl (rb_scc_c b) (bp_count bp) (bp_hash bp) (rb_debit b) (rb_credit b) (bp_codfi bp) (bp_cnumber bp)).

Definition r_batches (ep : N -> N -> rpay) (bps : list bpay) (bs : list rbatch) : list AR.batch :=
  map (fun p => r_batch ep (fst p) (snd p)) (combine bps bs).

Definition r_file (A : AR.tables) (ep : N -> N -> rpay) (bps : list bpay) (f : rfile) : AR.file :=
  let bs := r_batches ep bps (rf_batches f) in
  AR.mkfile bs []
    (AR.mkfctl (Z.of_nat (length bs))
               (AR.sumz (fun b => AR.bc_count (AR.bt_ctl b)) bs)
               (AR.least_sig (AR.sumz (fun b => AR.bc_hash (AR.bt_ctl b)) bs) (AR.t_hash_digits A))
               (rf_debit f) (rf_credit f)).

(* the standard-code list of the reversal tables is accepted by Arith's tables as
   non-ADV entry codes *)
Definition rev_tables_agree (A : AR.tables) (T : rtables) : bool :=
  forallb (fun c => implb (entry_code (rt_std T) c)
                          (AR.memz c (AR.t_codes A) && negb (AR.memz c (AR.t_advcodes A)))) (rt_std T).

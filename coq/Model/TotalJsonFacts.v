(* C06 (phase 2) — proofs about TotalJson.v: the JSON post-processing never panics, whatever the decoded
   document holds, and returns well-formed files; the 18 routes keep the repository well-formed and
   never panic. *)
From Coq Require Import List Bool Arith Lia.
Import ListNotations.
From ACH Require Import TotalOps TotalOpsFacts TotalJson.
Open Scope ops_scope.

(* the stepping tactics of TotalOpsFacts.v (local to its section), with the [strict] argument *)
Ltac bstep W :=
  lazymatch goal with
  | |- safe (bind (header_of _) _) _ => eapply safe_bind; [apply (header_of_safe _ _ _ W)|intros ? ->]
  | |- safe (bind (is_adv _) _) _ => eapply safe_bind; [apply (is_adv_safe _ _ _ W)|intros ? ->]
  | |- safe (bind (berr _) _) _ => apply (bind_berr_safe _ _ _ W)
  | |- safe (berr _) _ => apply (berr_safe _ _ _ W)
  | |- safe (bind (need_control _) _) _ => unfold need_control
  | |- safe (bind (need_advcontrol _) _) _ => unfold need_advcontrol
  | |- safe (need_control _) _ => unfold need_control
  | |- safe (need_advcontrol _) _ => unfold need_advcontrol
  | |- safe (bind (when _ _) _) _ => apply safe_bind_unit; [apply safe_when; intros ?|]
  | |- safe (when _ _) _ => apply safe_when; intros ?
  | |- safe (bind (for_entries _ _) _) _ => apply safe_bind_unit; [apply (for_entries_safe _ _ _ W); intros ? ? ?|]
  | |- safe (for_entries _ _) _ => apply (for_entries_safe _ _ _ W); intros ? ? ?
  | |- safe (bind (for_adv_entries _ _) _) _ => apply safe_bind_unit; [apply (for_adv_entries_safe _ _ _ W); intros ? ?|]
  | |- safe (for_adv_entries _ _) _ => apply (for_adv_entries_safe _ _ _ W); intros ? ?
  | |- safe (bind (forM_ (e_a05 _) _) _) _ => apply safe_bind_unit; [apply all_a05; [assumption|intros ? ->]|]
  | |- safe (forM_ (e_a05 _) _) _ => apply all_a05; [assumption|intros ? ->]
  | _ => safe_step
  end.

Ltac bauto W := repeat (bstep W); try exact I.

Ltac istep W :=
  lazymatch goal with
  | |- safe (bind (ih_of _) _) _ => eapply safe_bind; [apply (ih_of_safe _ _ W)|intros ? ->]
  | |- safe (bind (iberr _) _) _ => apply (bind_iberr_safe _ _ W)
  | |- safe (iberr _) _ => apply (iberr_safe _ _ W)
  | |- safe (bind (need_ibcontrol _) _) _ => apply safe_bind_need; [exact (iw_c _ _ W)|]
  | |- safe (need_ibcontrol _) _ => apply safe_need; [exact (iw_c _ _ W)|exact I]
  | |- safe (bind (when _ _) _) _ => apply safe_bind_unit; [apply safe_when; intros ?|]
  | |- safe (when _ _) _ => apply safe_when; intros ?
  | |- safe (bind (for_iat_entries _ _) _) _ => apply safe_bind_unit; [apply (for_iat_entries_safe _ _ W); intros ? ? ? ?|]
  | |- safe (for_iat_entries _ _) _ => apply (for_iat_entries_safe _ _ W); intros ? ? ? ?
  | |- safe (bind (forM_ (ie_a17 _) _) _) _ => apply safe_bind_unit; [apply all_bits; [assumption|intros ? ->]|]
  | |- safe (bind (forM_ (ie_a18 _) _) _) _ => apply safe_bind_unit; [apply all_bits; [assumption|intros ? ->]|]
  | |- safe (forM_ (ie_a17 _) _) _ => apply all_bits; [assumption|intros ? ->]
  | |- safe (forM_ (ie_a18 _) _) _ => apply all_bits; [assumption|intros ? ->]
  | _ => safe_step
  end.
Ltac iauto W := repeat (istep W); try exact I.

Section Strict.
Variable strict : bool.
Notation bwf := (bwf strict).
Notation WB := (WB strict).
Notation WF := (WF strict).

(* a batch as setBatchesFromJSON hands it to build(): header, no nil entry / addenda; the controls may be nil *)
Definition PB (b : batch) : Prop :=
  exists h, b_header b = Some h /\ wfe (b_entries b) /\ wfa (b_adventries b) /\ (strict = true -> sec_valid (h_sec h) = true).

Definition both (b : batch) : batch := set_control true (set_adv true b).

Lemma PB_bwf b : PB b -> exists h, bwf (both b) h.
Proof.
  intros (h & Hh & He & Ha & Hs). exists h. split; cbn; auto. destruct (sec_eqb (h_sec h) ADV); reflexivity.
Qed.

(* the read-only blocks of build() never read the controls: they are convertible to the same blocks
   on [both b], for which the lemmas about well-formed batches apply *)
Ltac to_both b :=
  lazymatch goal with
  | |- safe ?m ?Q =>
      let f := eval pattern b in m in
      lazymatch f with ?g _ => change (safe (g (both b)) Q); cbv beta end
  end.

Lemma build_pre : hoare PB build (fun _ => WB) (fun _ => True).
Proof.
  apply hst_of. intros b Pb. destruct (PB_bwf b Pb) as (h & W).
  destruct Pb as (h0 & Hh & He & Ha & Hs).
  assert (h0 = h) as -> by (pose proof (bw_h _ _ _ W) as Hx; cbn in Hx; congruence).
  unfold build. apply hst_get.
  eapply hst_ro with (P := top); [to_both b; bauto W|exact I|intros _ _].
  eapply hst_ro with (P := top); [|exact I|intros _ _].
  { to_both b. destruct (b_entries (both b)), (b_adventries (both b)); bauto W. }
  eapply hst_ro; [exact (is_adv_safe _ _ _ W)|exact I|]. intros ? ->.
  destruct (sec_eqb (h_sec h) ADV) eqn:Hna; cbn [negb].
  - eapply hst_call with (P := st b) (Q1 := fun _ => WB).
    + eapply hst_ro with (P := top); [to_both b; bauto W|exact I|intros _ _].
      eapply hst_ro with (P := top); [|exact I|intros _ _].
      { to_both b. bstep W. apply safe_bind_unit; [apply (calculate_entry_hash_safe _ _ _ W)|]. bauto W. }
      apply hst_put_end. apply (bwf_wf_batch _ _ h). split; cbn; auto. rewrite Hna. reflexivity.
    + reflexivity.
    + intros _ t' Wt'. eapply hoare_conseq; [apply (upsert_offsets_inv strict)| | |]; auto.
      intros s ->. exact Wt'.
  - eapply hst_call with (P := st b) (Q1 := fun _ => WB).
    + eapply hst_ro with (P := top); [to_both b; bauto W|exact I|intros _ _].
      eapply hst_ro with (P := top); [|exact I|intros _ _].
      { to_both b. bstep W. apply safe_bind_unit; [apply (calculate_entry_hash_safe _ _ _ W)|]. bauto W. }
      apply hst_put_end. apply (bwf_wf_batch _ _ h). split; cbn; auto. rewrite Hna. reflexivity.
    + reflexivity.
    + intros _ t' Wt'. eapply hoare_conseq; [apply (upsert_offsets_inv strict)| | |]; auto.
      intros s ->. exact Wt'.
Qed.

(* an IAT batch as setBatchesFromJSON hands it to build() *)
Definition PI (b : iat_batch) : Prop := exists h, ib_header b = Some h /\ wfi (ib_entries b).
Definition ctl (b : iat_batch) : iat_batch := set_ib_control true b.

Lemma PI_iwf b : PI b -> exists h, iwf (ctl b) h.
Proof. intros (h & Hh & He). exists h. split; cbn; auto. Qed.

Ltac to_ctl b :=
  lazymatch goal with
  | |- safe ?m ?Q =>
      let f := eval pattern b in m in
      lazymatch f with ?g _ => change (safe (g (ctl b)) Q); cbv beta end
  end.

Lemma iat_build_pre : hoare PI iat_build (fun _ => WI) (fun _ => True).
Proof.
  apply hst_of. intros b Pb. destruct (PI_iwf b Pb) as (h & W).
  unfold iat_build. apply hst_get.
  eapply hst_ro with (P := top); [to_ctl b; iauto W|exact I|intros _ _].
  eapply hst_ro with (P := top); [to_ctl b; destruct (ib_entries (ctl b)); iauto W|exact I|intros _ _].
  eapply hst_ro with (P := top); [|exact I|intros _ _].
  { to_ctl b. apply (for_iat_entries_safe _ _ W). intros e Hin H17 H18.
    apply safe_bind_unit; [eapply safe_top; apply iat_addenda_inclusion_safe|]. iauto W. }
  apply hst_put.
  eapply hst_ro_end with (P := top); [to_ctl b; iauto W|exact I|].
  intros _ _. exact (iwf_wf_iat _ _ W).
Qed.

(* ---- setBatchesFromJSON *)

Lemma wfe_json (c : bool) l : wfe (map (option_map (fun e => if c then clear_off (strip_a05 e) else strip_a05 e)) (without_nil l)).
Proof.
  intros oe Hin. apply in_map_iff in Hin as (x & <- & Hx). unfold without_nil in Hx.
  apply filter_In in Hx as [_ Hp]. destruct x as [e|]; [|discriminate]. eexists. split; [reflexivity|].
  destruct c; cbn; unfold all_true; apply forallb_forall; intros p Hp'; apply filter_In in Hp' as [_ Hp']; exact Hp'.
Qed.

Lemma wfa_json {A} (l : list (option A)) : forall oa, In oa (without_nil l) -> exists a, oa = Some a.
Proof. intros oa Hin. apply filter_In in Hin as [_ Hp]. destruct oa as [a|]; [eauto|discriminate]. Qed.

Lemma wfi_json l : wfi (map (option_map strip_iat) (without_nil l)).
Proof.
  intros oe Hin. apply in_map_iff in Hin as (x & <- & Hx). unfold without_nil in Hx.
  apply filter_In in Hx as [_ Hp]. destruct x as [e|]; [|discriminate]. exists (strip_iat e). split; [reflexivity|].
  cbn. split; unfold all_true; apply forallb_forall; intros p Hp'; apply filter_In in Hp' as [_ Hp']; exact Hp'.
Qed.

Lemma WB_set_kind k b : WB b -> WB (set_kind k b).
Proof. intros H. exact H. Qed.

Definition WBs (l : list (option batch)) : Prop := Forall (fun x => exists t, x = Some t /\ WB t) l.

(* under [strict] the document may only use SEC codes NewBatch accepts *)
Definition doc_secs (l : list (option batch)) : Prop :=
  strict = true -> forall b h, In (Some b) l -> b_header b = Some h -> sec_valid (h_sec h) = true.

Lemma json_batches_safe l acc : doc_secs l -> WBs acc -> safe (json_batches l acc) WBs.
Proof.
  revert acc. induction l as [|[b|] t IH]; intros acc Hd Ha; cbn [json_batches].
  - apply safe_ret. exact Ha.
  - assert (Hd' : doc_secs t) by (intros Hs b' h' Hin Hh'; exact (Hd Hs b' h' (or_intror Hin) Hh')).
    destruct (b_header b) as [h|] eqn:Hh; [|apply IH; assumption].
    eapply safe_bind.
    { apply (safe_local _ build PB (fun _ => WB) (fun _ => True) build_pre).
      exists h. cbn. split; [exact Hh|]. split; [apply wfe_json|]. split; [exact (wfa_json _)|].
      intros Hs. exact (Hd Hs b h (or_introl eq_refl) Hh). }
    intros [[] b2] Hb2. cbn [fst snd] in *. apply IH; [exact Hd'|].
    apply Forall_app. split; [exact Ha|]. constructor; [|constructor]. eexists. split; [reflexivity|].
    apply WB_set_kind. exact Hb2.
  - apply IH; [|exact Ha]. intros Hs b' h' Hin Hh'. exact (Hd Hs b' h' (or_intror Hin) Hh').
Qed.

Lemma json_iat_safe l acc : Forall WI acc -> safe (json_iat l acc) (Forall WI).
Proof.
  revert acc. induction l as [|b t IH]; intros acc Ha; cbn [json_iat].
  - apply safe_ret. exact Ha.
  - destruct (ib_header b) as [h|] eqn:Hh; [|apply IH; exact Ha].
    eapply safe_bind.
    { apply (safe_local _ iat_build PI (fun _ => WI) (fun _ => True) iat_build_pre).
      exists h. cbn. split; [exact Hh|apply wfi_json]. }
    intros [[] b2] Hb2. cbn [fst snd] in *. apply IH.
    apply Forall_app. split; [exact Ha|]. constructor; [exact Hb2|constructor].
Qed.

(* FileFromJSONWith never panics; every file it returns (with or without error) is well-formed, and when
   it returns no error File.IsADV has given the first batch a BatchControl *)
Lemma file_from_json_safe j : doc_secs (f_batches j) ->
  safe (file_from_json j) (fun r => WF (fst r) /\ (snd r = true -> head_ctl (fst r))).
Proof.
  intros Hd. unfold file_from_json.
  eapply safe_bind; [apply json_batches_safe; [exact Hd|constructor]|]. intros bs Hbs.
  eapply safe_bind; [apply json_iat_safe; constructor|]. intros is His.
  pose proof (WF_intro strict bs is Hbs His) as Wf. pose proof (wf_file_fwf _ _ Wf) as W.
  apply safe_bind_unit; [apply (for_batches_safe _ _ W); intros b h _ Wb; bauto Wb|].
  apply safe_bind_unit; [apply (for_iat_safe _ _ W); intros b h _ Wi; iauto Wi|].
  eapply safe_bind.
  { apply (safe_local_try _ _ WF (fun _ => WFH strict) WF); [|exact Wf].
    eapply hoare_bind; [apply file_is_adv_inv|]. intros ?.
    eapply hoare_bind with (Q := fun _ => WF).
    { eapply hoare_conseq; [apply hoare_check| | |]; [intros s [Hs _]; exact Hs|auto|auto]. }
    intros ?. eapply hoare_bind; [apply file_is_adv_inv|]. intros ?.
    eapply hoare_bind with (Q := fun _ => WFH strict).
    { eapply hoare_conseq; [apply file_create_head| | |]; [intros s [Hs _]; exact Hs|auto|auto]. }
    intros ?. apply file_validate_head. }
  intros [ok f'] Hf'. cbn [fst snd] in *. apply safe_ret. cbn [fst snd].
  destruct ok; [destruct Hf' as [H1 H2]; split; [exact H1|intros _; exact H2]|split; [exact Hf'|discriminate]].
Qed.

(* ------------------------------------------------------------------ *)
(* package server *)

Definition WR (r : repo) : Prop := Forall (fun p => WF (snd p)) r.

Lemma find_file_WF id r f : WR r -> find_file id r = Some f -> WF f.
Proof.
  induction r as [|[k g] t IH]; intros Hr Hf; cbn [find_file] in Hf; [discriminate|].
  inversion Hr as [|? ? Hg Ht]; subst. destruct (Nat.eqb k id); [injection Hf as <-; exact Hg|exact (IH Ht Hf)].
Qed.

Lemma replace_file_WR id f r : WR r -> WF f -> WR (replace_file id f r).
Proof.
  induction r as [|[k g] t IH]; intros Hr Hf; cbn [replace_file]; [constructor|].
  inversion Hr as [|? ? Hg Ht]; subst.
  destruct (Nat.eqb k id); [constructor; [exact Hf|exact Ht]|constructor; [exact Hg|exact (IH Ht Hf)]].
Qed.

Lemma store_file_WR id f r : WR r -> WF f -> WR (store_file id f r).
Proof.
  intros Hr Hf. unfold store_file. destruct (find_file id r); [exact Hr|].
  apply Forall_app. split; [exact Hr|]. constructor; [exact Hf|constructor].
Qed.

Lemma delete_file_WR id r : WR r -> WR (delete_file id r).
Proof.
  induction r as [|[k g] t IH]; intros Hr; cbn [delete_file]; [constructor|].
  inversion Hr as [|? ? Hg Ht]; subst. destruct (Nat.eqb k id); [exact (IH Ht)|constructor; [exact Hg|exact (IH Ht)]].
Qed.

Lemma on_file_hoare {A} id (m : M file A) (Q : A -> Prop) :
  hoare WF m (fun a f => WF f /\ Q a) WF -> hoare WR (on_file id m) (fun a r => WR r /\ Q a) WR.
Proof.
  intros H r o Hr. unfold on_file. destruct (find_file id r) as [f|] eqn:Hf; [|exact Hr].
  specialize (H f o (find_file_WF id r f Hr Hf)). destruct (m f o) as [a f' o'|f' o'|]; [|exact (replace_file_WR _ _ _ Hr H)|exact H].
  destruct H as [H1 H2]. split; [exact (replace_file_WR _ _ _ Hr H1)|exact H2].
Qed.

Lemma on_file_inv id (m : M file unit) : hoare WF m (fun _ => WF) WF -> hoare WR (on_file id m) (fun _ => WR) WR.
Proof.
  intros H. eapply hoare_conseq; [apply (on_file_hoare id m (fun _ => True))| | |]; auto.
  - eapply hoare_conseq; [exact H| | |]; auto.
  - intros a s [Hs _]. exact Hs.
Qed.

Lemma doc_ok_secs j : doc_ok strict j = true -> doc_secs (f_batches j).
Proof.
  intros H Hs b h Hin Hh. unfold doc_ok in H. rewrite Hs in H. cbn in H. unfold secs_valid in H.
  rewrite forallb_forall in H. specialize (H (Some b) Hin). cbn in H. rewrite Hh in H. exact H.
Qed.

Lemma hoare_encode {S} (P : S -> Prop) : hoare P encode (fun _ => P) P.
Proof. apply hoare_check. Qed.

Lemma hoare_modify {S} (P P' : S -> Prop) (g : S -> S) (E : S -> Prop) :
  (forall s, P s -> P' (g s)) -> hoare P (modify g) (fun _ => P') E.
Proof. intros H s o Hs. exact (H s Hs). Qed.

Lemma try_on_file_inv id (m : M file unit) : hoare WF m (fun _ => WF) WF -> hoare WR (try (on_file id m)) (fun _ => WR) WR.
Proof. intros H. eapply hoare_try; [apply on_file_inv; exact H|auto]. Qed.

Lemma batch_ids_safe f : WF f -> safe (batch_ids f) top.
Proof.
  intros Wf. unfold batch_ids. apply all_some_safe. intros x Hin.
  pose proof (WF_batches _ f Wf) as Hb. rewrite Forall_forall in Hb. destruct (Hb x Hin) as (b & -> & _). eauto.
Qed.

Lemma create_batch_inv b : WB b -> b_control b = true -> hoare WF (create_batch (Some b)) (fun _ => WF) WF.
Proof.
  intros Wb Hc. destruct (wf_batch_bwf _ b Wb) as (h & W). unfold create_batch.
  apply hst_of. intros f Wf.
  eapply hst_ro with (P := top); [bstep W; unfold need_control; rewrite Hc; apply safe_ret; exact I|exact Wf|intros _ _].
  apply hst_get.
  eapply hst_ro with (P := top); [apply batch_ids_safe; exact Wf|exact Wf|intros _ _].
  apply hst_flip. intros [|]; [|apply hst_fail; exact Wf].
  eapply hst_ro; [apply (add_batch_safe strict (Some b) f Wb Wf)|exact Wf|]. intros f' Wf'. apply hst_put_end. exact Wf'.
Qed.

Lemma balance_file_inv : hoare WF balance_file (fun _ => WF) WF.
Proof.
  unfold balance_file. eapply hoare_bind; [apply file_create_inv|]. intros ?.
  eapply hoare_bind; [|intros ?; apply file_create_inv].
  apply each_batch_inv. eapply hoare_bind with (Q := fun _ => WB); [|intros ?; apply batch_create_inv].
  apply hoare_modify. intros b Wb. destruct (wf_batch_bwf _ b Wb) as (h & [Hh Hc He Ha Hs]).
  apply (bwf_wf_batch _ _ h). split; cbn; assumption.
Qed.

Lemma segment_on_file_inv : hoare WF (file_create ;; file_segment) (fun r f => WF f /\ (WF (fst r) /\ WF (snd r))) WF.
Proof. eapply hoare_bind; [apply file_create_inv|]. intros ?. apply file_segment_inv. Qed.

Lemma flatten_on_file_inv : strict = true ->
  hoare WF (file_create ;; f <- get ;; ro (file_flatten f)) (fun g f => WF f /\ WF g) WF.
Proof.
  intros Hs. eapply hoare_bind; [apply file_create_inv|]. intros ?.
  apply hst_of. intros f Wf. apply hst_get.
  eapply hst_ro_end; [apply (file_flatten_safe strict f Wf)|exact Wf|]. intros g Wg. split; assumption.
Qed.

Lemma body_file_inv b : body_ok strict b = true ->
  forall r o, WR r ->
  match (match b with
         | BJson doc =>
             fun r o => match file_from_json doc tt o with
                        | OK (f, _) _ o' => OK f r o'
                        | ERR _ o' => OK new_file r o'
                        | PANIC => PANIC
                        end
         | BText f => ret f
         | BNoFile => ret new_file
         end : M repo file) r o with
  | OK f r' _ => WR r' /\ WF f
  | ERR r' _ => WR r'
  | PANIC => False
  end.
Proof.
  intros Hb r o Hr. destruct b as [doc|f|]; cbn [body_ok] in Hb.
  - pose proof (file_from_json_safe doc (doc_ok_secs doc Hb) o) as H.
    destruct (file_from_json doc tt o) as [[f ok] [] o'|[] o'|]; [|split; [exact Hr|exact (WF_new_file strict)]|exact H].
    destruct H as [H _]. split; [exact Hr|exact H].
  - split; [exact Hr|exact Hb].
  - split; [exact Hr|exact (WF_new_file strict)].
Qed.

Lemma handle_inv x : route_ok strict x = true -> hoare WR (handle x) (fun _ => WR) WR.
Proof.
  intros Hx. destruct x; cbn [handle route_ok] in *.
  - apply hoare_ret; auto.
  - apply hoare_ret; auto.
  - apply hoare_encode.
  - (* create file *)
    eapply hoare_bind with (Q := fun f r => WR r /\ WF f).
    { intros r o Hr. exact (body_file_inv b Hx r o Hr). }
    intros f. eapply hoare_bind with (Q := fun _ => WR); [|intros ?; apply hoare_encode].
    intros r o [Hr Hf]. exact (store_file_WR _ _ _ Hr Hf).
  - eapply hoare_bind with (Q := fun _ => WR); [|intros ?; apply hoare_encode].
    intros r o Hr. pose proof (on_file_inv id (ret tt) (hoare_ret _ tt _ _ (fun s H => H)) r o Hr) as H.
    destruct (on_file id (ret tt) r o); auto.
  - eapply hoare_bind; [apply try_on_file_inv; apply file_create_inv|]. intros ?. apply hoare_encode.
  - eapply hoare_bind; [apply try_on_file_inv|intros ?; apply hoare_encode].
    eapply hoare_bind; [apply file_create_inv|]. intros ?. apply file_write_inv.
  - eapply hoare_bind; [apply try_on_file_inv; apply file_validate_inv|]. intros ?. apply hoare_encode.
  - eapply hoare_bind; [apply try_on_file_inv; apply file_validate_inv|]. intros ?. apply hoare_encode.
  - eapply hoare_bind with (Q := fun _ => WR); [|intros ?; apply hoare_encode].
    apply hoare_modify. intros r Hr. exact (delete_file_WR _ _ Hr).
  - (* create batch *)
    intros r o Hr.
    pose proof (file_from_json_safe doc (doc_ok_secs doc Hx) o) as H.
    destruct (file_from_json doc tt o) as [[f ok] [] o'|[] o'|]; [|exact Hr|exact H].
    destruct H as [Wf Hh]. cbn [fst snd] in *. destruct ok; [|exact Hr]. specialize (Hh eq_refl).
    destruct (f_batches f) as [|ob [|ob2 t]] eqn:Hbs; [exact Hr| |exact Hr].
    pose proof (WF_batches _ f Wf) as Hb. rewrite Hbs in Hb. inversion Hb as [|? ? (b & -> & Wb) _]; subst.
    unfold head_ctl in Hh. rewrite Hbs in Hh.
    destruct (wf_batch_bwf _ b Wb) as (h & W).
    assert (H : hoare WR (ro (batch_validate b) ;; try (on_file id (create_batch (Some b))) ;; encode) (fun _ => WR) WR).
    { eapply hoare_bind with (Q := fun _ => WR).
      - eapply hoare_conseq; [apply (hoare_ro WR _ top (batch_validate_safe _ _ _ W))| | |]; auto. intros a s [_ Hs]. exact Hs.
      - intros ?. eapply hoare_bind; [apply try_on_file_inv; apply create_batch_inv; assumption|]. intros ?. apply hoare_encode. }
    exact (H r o' Hr).
  - eapply hoare_bind; [apply try_on_file_inv|intros ?; apply hoare_encode].
    apply hst_of. intros f Wf. apply hst_get. eapply hst_ro_end with (P := top); [apply safe_ret; exact I|exact Wf|intros _ _; exact Wf].
  - eapply hoare_bind; [apply try_on_file_inv|intros ?; apply hoare_encode].
    apply hst_of. intros f Wf. apply hst_get. eapply hst_ro_end with (P := top); [apply batch_ids_safe; exact Wf|exact Wf|intros _ _; exact Wf].
  - eapply hoare_bind; [apply try_on_file_inv|intros ?; apply hoare_encode].
    apply hst_of. intros f Wf. apply hst_get. eapply hst_ro_end with (P := top); [apply batch_ids_safe; exact Wf|exact Wf|intros _ _; exact Wf].
  - destruct offset_ok; [|apply hoare_encode].
    eapply hoare_bind with (Q := fun r s => WR s /\ match r with Some g => WF g | None => True end).
    { intros r o Hr.
      assert (Hb : hoare WF (balance_file ;; get) (fun g f => WF f /\ WF g) WF).
      { eapply hoare_bind; [apply balance_file_inv|]. intros ?. intros s o' Hs. split; exact Hs. }
      pose proof (on_file_hoare id _ WF Hb r o Hr) as H.
      destruct (on_file id (balance_file ;; get) r o) as [g r' o'|r' o'|]; [exact H|split; [exact H|exact I]|exact H]. }
    intros [g|]; (eapply hoare_bind with (Q := fun _ => WR); [|intros ?; apply hoare_encode]).
    + intros r o [Hr Hg]. exact (store_file_WR _ _ _ Hr Hg).
    + apply hoare_ret. intros s [Hs _]. exact Hs.
  - (* segment a stored file *)
    eapply hoare_bind with (Q := fun r s => WR s /\ match r with Some (c, d) => WF c /\ WF d | None => True end).
    { intros r o Hr.
      pose proof (on_file_hoare id _ (fun cd => WF (fst cd) /\ WF (snd cd)) segment_on_file_inv r o Hr) as H.
      destruct (on_file id (file_create ;; file_segment) r o) as [[c d] r' o'|r' o'|]; [|split; [exact H|exact I]|exact H].
      destruct H as [H1 H2]. split; [exact H1|exact H2]. }
    intros [[c d]|]; (eapply hoare_bind with (Q := fun _ => WR); [|intros ?; apply hoare_encode]).
    + eapply hoare_bind with (Q := fun _ s => WR s /\ WF d).
      * intros r o [Hr [Hc Hd]]. unfold store_segmented. destruct (nonempty_file c); (split; [|exact Hd]); [exact (store_file_WR _ _ _ Hr Hc)|exact Hr].
      * intros ?. intros r o [Hr Hd]. unfold store_segmented. destruct (nonempty_file d); [exact (store_file_WR _ _ _ Hr Hd)|exact Hr].
    + apply hoare_ret. intros s [Hs _]. exact Hs.
  - (* segment a file from the body *)
    eapply hoare_bind with (Q := fun fo r => WR r /\ match fo with Some f => WF f | None => True end).
    { intros r o Hr. destruct b as [doc|f|]; cbn [body_ok] in Hx.
      - pose proof (file_from_json_safe doc (doc_ok_secs doc Hx) o) as H.
        destruct (file_from_json doc tt o) as [[f ok] [] o'|[] o'|]; [|exact Hr|exact H].
        destruct H as [H _]. destruct ok; [split; [exact Hr|exact H]|exact Hr].
      - split; [exact Hr|exact Hx].
      - split; [exact Hr|exact I]. }
    intros [f|]; [|eapply hoare_conseq; [apply hoare_encode| | |]; [intros s [Hs _]; exact Hs|auto|auto]].
    eapply hoare_bind with (Q := fun r s => WR s /\ match r with Some (c, d) => WF c /\ WF d | None => True end).
    { intros r o [Hr Wf]. pose proof (segment_on_file_inv f o Wf) as H.
      destruct ((file_create ;; file_segment) f o) as [[c d] f' o'|f' o'|]; [|split; [exact Hr|exact I]|exact H].
      destruct H as [_ H2]. split; [exact Hr|exact H2]. }
    intros [[c d]|]; (eapply hoare_bind with (Q := fun _ => WR); [|intros ?; apply hoare_encode]).
    + eapply hoare_bind with (Q := fun _ s => WR s /\ WF d).
      * intros r o [Hr [Hc Hd]]. unfold store_segmented. destruct (nonempty_file c); (split; [|exact Hd]); [exact (store_file_WR _ _ _ Hr Hc)|exact Hr].
      * intros ?. intros r o [Hr Hd]. unfold store_segmented. destruct (nonempty_file d); [exact (store_file_WR _ _ _ Hr Hd)|exact Hr].
    + apply hoare_ret. intros s [Hs _]. exact Hs.
  - (* flatten *)
    eapply hoare_bind with (Q := fun r s => WR s /\ match r with Some g => WF g | None => True end).
    { intros r o Hr.
      pose proof (on_file_hoare id _ WF (flatten_on_file_inv Hx) r o Hr) as H.
      destruct (on_file id (file_create ;; f <- get ;; ro (file_flatten f)) r o) as [g r' o'|r' o'|]; [|split; [exact H|exact I]|exact H].
      exact H. }
    intros [g|]; (eapply hoare_bind with (Q := fun _ => WR); [|intros ?; apply hoare_encode]).
    + intros r o [Hr Hg]. exact (store_file_WR _ _ _ Hr Hg).
    + apply hoare_ret. intros s [Hs _]. exact Hs.
Qed.

Lemma serve_inv xs : forallb (route_ok strict) xs = true -> hoare WR (serve xs) (fun _ => WR) WR.
Proof.
  induction xs as [|x t IH]; intros Hx; cbn [serve].
  - apply hoare_ret. auto.
  - cbn in Hx. apply andb_prop in Hx as [H1 H2].
    eapply hoare_bind; [eapply hoare_try; [apply handle_inv; exact H1|auto]|]. intros ?. apply IH. exact H2.
Qed.

End Strict.

(* ------------------------------------------------------------------ *)
(* The theorems *)

(* FileFromJSON / FileFromJSONWith after the struct decoding: no panic for ANY decoded document
   (every pointer may be nil, every array element null), every oracle *)
Theorem json_total j o : panics (file_from_json j tt o) = false.
Proof.
  pose proof (file_from_json_safe false j) as H.
  assert (Hd : doc_secs false (f_batches j)) by (intros Hs; discriminate Hs).
  specialize (H Hd o). destruct (file_from_json j tt o); [reflexivity|reflexivity|contradiction].
Qed.

(* … and what it returns is a well-formed file, on which every operation but FlattenBatches is total *)
Theorem json_result_wf j o f ok s o' : file_from_json j tt o = OK (f, ok) s o' -> wf_file f = true.
Proof.
  intros H. pose proof (file_from_json_safe false j) as Hs.
  assert (Hd : doc_secs false (f_batches j)) by (intros Hx; discriminate Hx).
  specialize (Hs Hd o). rewrite H in Hs. exact (proj1 Hs).
Qed.

(* request lists against a repository of well-formed files *)
Theorem handlers_total strict r xs o :
  Forall (fun p => wf_file_s strict (snd p) = true) r ->
  forallb (route_ok strict) xs = true ->
  panics (serve xs r o) = false.
Proof.
  intros Hr Hx. eapply (hoare_no_panic (WR strict)); [apply serve_inv; exact Hx|exact Hr].
Qed.

(* Proofs about the Reversal model: for every batch / file over arbitrary entry
   lists, given the three reflection obligations on the regenerated tables. *)
From Coq Require Import ZArith NArith List Bool Lia.
Import ListNotations.
From ACH Require Import Bytes TxCodes RevTable Reversal.
Open Scope Z_scope.

Definition all_reversible (T : rtables) (b : rbatch) : bool :=
  forallb (fun e => reversible (rt_std T) (e_code e)) (rb_entries b).

Definition tables_ok (T : rtables) : bool :=
  rev_table_ok (rt_arms T) (rt_std T) (rt_pre T) && fixups_ok (rt_fix T) && amount_ok (rt_amt T) (rt_std T)
  && negb (is_prenote_desc (rt_desc T)).

Lemma reversible_entry_code std c : reversible std c = true -> entry_code std c = true.
Proof. unfold reversible. intros H. now apply andb_prop in H as [H _]. Qed.

Lemma amount_ok_dir amt std c : amount_ok amt std = true -> entry_code std c = true ->
  classify amt c = digit_dir c.
Proof.
  intros Hok Hc. unfold amount_ok in Hok. apply andb_prop in Hok as [_ Hall].
  rewrite forallb_forall in Hall.
  assert (Hin : In c std).
  { unfold entry_code in Hc. apply andb_prop in Hc as [Hc _]. apply andb_prop in Hc as [Hc _]. now apply memz_In. }
  specialize (Hall c Hin). rewrite Hc in Hall. cbn [implb] in Hall. now apply target_eqb_eq.
Qed.

Section WithTables.
  Variable T : rtables.
  Hypothesis HT : tables_ok T = true.

  Let arms := rt_arms T.
  Let std := rt_std T.
  Let pre := rt_pre T.
  Let amt := rt_amt T.

  Lemma HT_all : rev_table_ok arms std pre = true /\ fixups_ok (rt_fix T) = true /\ amount_ok amt std = true
                 /\ is_prenote_desc (rt_desc T) = false.
  Proof.
    unfold tables_ok in HT. apply andb_prop in HT as [H H4]. apply andb_prop in H as [H H3].
    apply andb_prop in H as [H1 H2]. repeat split; try assumption. now destruct (is_prenote_desc (rt_desc T)).
  Qed.
  Lemma HT_tab : rev_table_ok arms std pre = true. Proof. apply HT_all. Qed.
  Lemma HT_fix : fixups_ok (rt_fix T) = true. Proof. apply HT_all. Qed.
  Lemma HT_amt : amount_ok amt std = true. Proof. apply HT_all. Qed.
  Lemma HT_desc : is_prenote_desc (rt_desc T) = false. Proof. apply HT_all. Qed.

  Definition props c (H : reversible std c = true) := rev_table_sound arms std pre HT_tab c H.

  Lemma rev_dir c : reversible std c = true ->
    classify amt (rev_code arms c) = opposite (digit_dir c) /\ classify amt c = digit_dir c.
  Proof.
    intros H. destruct (props c H) as [_ Hdir _ Hcl _ _ _]. split.
    - rewrite <- Hdir. apply (amount_ok_dir amt std); [apply HT_amt|now apply reversible_entry_code].
    - apply (amount_ok_dir amt std); [apply HT_amt|now apply reversible_entry_code].
  Qed.

  Lemma goes_rev t e : reversible std (e_code e) = true -> t <> TNone ->
    goes amt t (rev_entry arms e) = goes amt (opposite t) e.
  Proof.
    intros H Ht. unfold goes. cbn [rev_entry e_code]. destruct (rev_dir _ H) as [-> ->].
    destruct (props _ H) as [_ _ Hs _ _ _ _].
    destruct (digit_dir (e_code e)), t; cbn; congruence.
  Qed.

  Lemma sum_dir_rev t es : forallb (fun e => reversible std (e_code e)) es = true -> t <> TNone ->
    sum_dir amt t (map (rev_entry arms) es) = sum_dir amt (opposite t) es.
  Proof.
    intros Hall Ht. induction es as [|e r IH]; [reflexivity|].
    cbn [forallb] in Hall. apply andb_prop in Hall as [He Hr].
    cbn [map sum_dir]. rewrite (goes_rev t e He Ht), (IH Hr). reflexivity.
  Qed.

  Lemma entry_flags_spec es : forallb (fun e => reversible std (e_code e)) es = true ->
    entry_flags arms es = (has_dir TCredit (map (rev_entry arms) es), has_dir TDebit (map (rev_entry arms) es)).
  Proof.
    intros Hall. induction es as [|e r IH]; [reflexivity|].
    cbn [forallb] in Hall. apply andb_prop in Hall as [He Hr].
    cbn [entry_flags map has_dir existsb]. rewrite (IH Hr).
    destruct (props _ He) as [_ _ _ _ _ Hf _]. rewrite Hf. reflexivity.
  Qed.

  (* every reversed code has a direction *)
  Lemma rev_has_dir e : reversible std (e_code e) = true ->
    digit_dir (e_code (rev_entry arms e)) <> TNone.
  Proof.
    intros H. destruct (props _ H) as [_ Hd Hs _ _ _ _]. cbn [rev_entry e_code]. rewrite Hd.
    destruct (digit_dir (e_code e)); cbn; congruence.
  Qed.

  Lemma no_other_dir es t : (forall e, In e es -> digit_dir (e_code e) <> TNone) -> t <> TNone ->
    has_dir (opposite t) es = false -> all_dir t es = true.
  Proof.
    intros Hd Ht Hno. induction es as [|e r IH]; [reflexivity|].
    cbn [has_dir existsb] in Hno. apply orb_false_elim in Hno as [He Hr].
    assert (Hrest : all_dir t r = true) by (apply IH; [intros x Hx; apply Hd; now right|exact Hr]).
    unfold all_dir in *. cbn [forallb]. rewrite Hrest, andb_true_r. specialize (Hd e (or_introl eq_refl)).
    destruct (digit_dir (e_code e)), t; cbn in *; congruence.
  Qed.

  Lemma has_some_dir es : es <> [] -> (forall e, In e es -> digit_dir (e_code e) <> TNone) ->
    has_dir TCredit es || has_dir TDebit es = true.
  Proof.
    intros Hne Hd. destruct es as [|e r]; [congruence|].
    specialize (Hd e (or_introl eq_refl)). cbn [has_dir existsb].
    destruct (digit_dir (e_code e)); cbn; try congruence; try reflexivity; apply orb_true_r.
  Qed.

  Lemma rev_entries_In es : forallb (fun e => reversible std (e_code e)) es = true ->
    forall e', In e' (map (rev_entry arms) es) -> digit_dir (e_code e') <> TNone.
  Proof.
    intros Hall e' Hin. apply in_map_iff in Hin as (e & <- & He).
    rewrite forallb_forall in Hall. now apply rev_has_dir, Hall.
  Qed.

  Record batch_reversed (d : bytes) (b b' : rbatch) : Prop := {
    br_amounts : map e_amount (rb_entries b') = map e_amount (rb_entries b);
    br_ids : map e_id (rb_entries b') = map e_id (rb_entries b);
    br_traces : map e_trace (rb_entries b') = map e_trace (rb_entries b);
    br_codes : codes b' = map (rev_code arms) (codes b);
    br_flipped : Forall (fun c => rev_code arms c / 10 = c / 10
                                  /\ digit_dir (rev_code arms c) = opposite (digit_dir c)
                                  /\ digit_dir c <> TNone
                                  /\ entry_code std (rev_code arms c) = true) (codes b);
    br_debit : rb_debit b' = rb_credit b;
    br_credit : rb_credit b' = rb_debit b;
    br_class_h : rb_scc_h b' = class_of (has_dir TCredit (rb_entries b')) (has_dir TDebit (rb_entries b'));
    br_class_c : rb_scc_c b' = rb_scc_h b';
    br_desc : rb_desc b' = rt_desc T;
    br_date : rb_date b' = d;
    br_valid : rbatch_valid T b' = true;
    br_closed : all_reversible T b' = true }.

  Lemma map_rev_field {A} (f : entry -> A) es :
    (forall e, f (rev_entry arms e) = f e) -> map f (map (rev_entry arms) es) = map f es.
  Proof. intros H. rewrite map_map. apply map_ext. exact H. Qed.

  Theorem reversal_batch_correct d b :
    rbatch_valid T b = true -> all_reversible T b = true -> is_prenote_desc (rb_desc b) = false ->
    batch_reversed d b (reversal_batch T d b).
  Proof.
    intros Hv Hr Hnp. unfold all_reversible in Hr. fold std in Hr.
    unfold rbatch_valid in Hv.
    apply andb_prop in Hv as [Hv Hamounts]. apply andb_prop in Hv as [Hv Hdeb].
    apply andb_prop in Hv as [Hv Hcred]. apply andb_prop in Hv as [Hv _].
    apply andb_prop in Hv as [Hv _]. apply andb_prop in Hv as [Hv _].
    apply andb_prop in Hv as [Hv _]. apply andb_prop in Hv as [Hne _].
    apply Z.eqb_eq in Hdeb, Hcred.
    set (es := rb_entries b) in *.
    set (es' := map (rev_entry arms) es).
    assert (Hnil : es' <> []).
    { subst es'. destruct es; [discriminate|cbn; congruence]. }
    assert (Hdirs : forall e', In e' es' -> digit_dir (e_code e') <> TNone) by (apply rev_entries_In; exact Hr).
    assert (Hany : has_dir TCredit es' || has_dir TDebit es' = true) by (apply has_some_dir; assumption).
    assert (Eb : reversal_batch T d b =
                 mkrbatch (class_of (has_dir TCredit es') (has_dir TDebit es'))
                          (class_of (has_dir TCredit es') (has_dir TDebit es'))
                          (rt_desc T) d (rb_credit b) (rb_debit b) es').
    { unfold reversal_batch. fold arms es. rewrite (entry_flags_spec es Hr). fold es'.
      rewrite (fixups_sound _ HT_fix _ _ Hany). reflexivity. }
    rewrite Eb.
    constructor; cbn [rb_entries rb_debit rb_credit rb_scc_h rb_scc_c rb_desc rb_date codes]; try reflexivity.
    - apply map_rev_field. reflexivity.
    - apply map_rev_field. reflexivity.
    - apply map_rev_field. reflexivity.
    - unfold codes. cbn [rb_entries]. fold es. subst es'. rewrite !map_map. reflexivity.
    - unfold codes. fold es. apply Forall_forall. intros c Hc. apply in_map_iff in Hc as (e & <- & He).
      rewrite forallb_forall in Hr. specialize (Hr e He).
      destruct (props _ Hr) as [H1 H2 H3 H4 _ _ _]. repeat split; auto. now apply reversible_entry_code.
    - (* validity of the reversed batch *)
      unfold rbatch_valid. cbn [rb_entries rb_debit rb_credit rb_scc_h rb_scc_c rb_desc].
      fold amt std pre.
      assert (Hclosed : forallb (fun e => reversible std (e_code e)) es' = true).
      { apply forallb_forall. intros e' Hin. apply in_map_iff in Hin as (e & <- & He).
        rewrite forallb_forall in Hr. specialize (Hr e He).
        destruct (props _ Hr) as [_ _ _ H4 _ _ _]. exact H4. }
      repeat (apply andb_true_intro; split).
      + destruct es'; [congruence|reflexivity].
      + apply Z.eqb_refl.
      + destruct (has_dir TCredit es'), (has_dir TDebit es'); cbn in Hany |- *; try reflexivity; discriminate.
      + apply forallb_forall. intros e' Hin. rewrite forallb_forall in Hclosed.
        now apply reversible_entry_code, Hclosed.
      + destruct (has_dir TDebit es') eqn:Ed.
        * destruct (has_dir TCredit es'); reflexivity.
        * destruct (has_dir TCredit es') eqn:Ec; cbn in Hany; [|discriminate].
          cbn. apply (no_other_dir es' TCredit); [exact Hdirs|congruence|exact Ed].
      + destruct (has_dir TCredit es') eqn:Ec.
        * destruct (has_dir TDebit es'); reflexivity.
        * destruct (has_dir TDebit es') eqn:Ed; cbn in Hany; [|discriminate].
          cbn. apply (no_other_dir es' TDebit); [exact Hdirs|congruence|exact Ec].
      + apply Z.eqb_eq. subst es'. rewrite (sum_dir_rev TCredit es Hr); [|congruence]. exact Hdeb.
      + apply Z.eqb_eq. subst es'. rewrite (sum_dir_rev TDebit es Hr); [|congruence]. exact Hcred.
      + apply forallb_forall. intros e' Hin. apply in_map_iff in Hin as (e & <- & He).
        rewrite forallb_forall in Hamounts. specialize (Hamounts e He).
        rewrite forallb_forall in Hr. specialize (Hr e He).
        destruct (props _ Hr) as [_ _ _ _ _ _ Hp].
        rewrite Hnp in Hamounts. rewrite HT_desc.
        unfold amount_rule in *. cbn [rev_entry e_code e_amount]. fold arms pre. rewrite Hp. exact Hamounts.
    - unfold all_reversible. cbn [rb_entries]. fold std.
      apply forallb_forall. intros e' Hin. apply in_map_iff in Hin as (e & <- & He).
      rewrite forallb_forall in Hr. specialize (Hr e He).
      destruct (props _ Hr) as [_ _ _ H4 _ _ _]. exact H4.
  Qed.

  (* reversing twice restores the transaction codes *)
  Theorem reversal_twice_codes d1 d2 b : all_reversible T b = true ->
    codes (reversal_batch T d2 (reversal_batch T d1 b)) = codes b.
  Proof.
    intros Hr. unfold all_reversible in Hr. fold std in Hr.
    assert (E : forall d x, codes (reversal_batch T d x) = map (rev_code arms) (codes x)).
    { intros d x. unfold reversal_batch, codes. fold arms.
      destruct (entry_flags arms (rb_entries x)) as [hc hd].
      destruct (match apply_fixups (rt_fix T) hc hd with Some p => p | None => (rb_scc_h x, rb_scc_c x) end) as [sh sc].
      cbn [rb_entries]. rewrite !map_map. reflexivity. }
    rewrite !E. unfold codes. rewrite !map_map.
    rewrite <- (map_id (rb_entries b)) at 2. rewrite map_map.
    apply map_ext_in. intros e He. rewrite forallb_forall in Hr. specialize (Hr e He).
    destruct (props _ Hr) as [_ _ _ _ Hi _ _]. exact Hi.
  Qed.

  (* ---- file level *)

  Lemma sum_swapped d bs :
    sum_debit (map (reversal_batch T d) bs) = sum_credit bs /\
    sum_credit (map (reversal_batch T d) bs) = sum_debit bs.
  Proof.
    induction bs as [|b r [IH1 IH2]]; [split; reflexivity|].
    cbn [map sum_debit sum_credit]. rewrite IH1, IH2.
    assert (E : rb_debit (reversal_batch T d b) = rb_credit b /\ rb_credit (reversal_batch T d b) = rb_debit b).
    { unfold reversal_batch. destruct (entry_flags (rt_arms T) (rb_entries b)) as [hc hd].
      destruct (match apply_fixups (rt_fix T) hc hd with Some p => p | None => (rb_scc_h b, rb_scc_c b) end) as [sh sc].
      split; reflexivity. }
    destruct E as [-> ->]. split; reflexivity.
  Qed.

  (* every batch holds reversible codes only and is not described PRENOTE *)
  Definition file_reversible (f : rfile) : bool :=
    forallb (fun b => all_reversible T b && negb (is_prenote_desc (rb_desc b))) (rf_batches f).

  Record file_reversed (d t : bytes) (f f' : rfile) : Prop := {
    fr_batches : Forall2 (batch_reversed d) (rf_batches f) (rf_batches f');
    fr_date : rf_date f' = d;
    fr_time : rf_time f' = t;
    fr_debit : rf_debit f' = rf_credit f;
    fr_credit : rf_credit f' = rf_debit f;
    fr_valid : rfile_valid T f' = true }.

  Theorem reversal_file_correct d t f :
    rfile_valid T f = true -> file_reversible f = true ->
    exists f', reversal_file T d t f = ROk f' /\ file_reversed d t f f'.
  Proof.
    intros Hv Hr. unfold rfile_valid in Hv.
    apply andb_prop in Hv as [Hv Hc]. apply andb_prop in Hv as [Hv Hd]. apply andb_prop in Hv as [Hne Hbs].
    apply Z.eqb_eq in Hc, Hd. unfold file_reversible in Hr.
    set (bs := rf_batches f) in *.
    set (bs' := map (reversal_batch T d) bs).
    assert (Hn : bs' <> []) by (subst bs'; destruct bs; [discriminate|cbn; congruence]).
    exists (mkrfile d t bs' (sum_debit bs') (sum_credit bs')). split.
    - unfold reversal_file. fold bs bs'. destruct bs'; [congruence|reflexivity].
    - assert (HF : Forall2 (batch_reversed d) bs bs').
      { subst bs'. clear Hn Hne Hc Hd. induction bs as [|b r IH]; [constructor|].
        cbn [forallb] in Hbs, Hr. apply andb_prop in Hbs as [Hb Hbs]. apply andb_prop in Hr as [Hrb Hr].
        apply andb_prop in Hrb as [Hrb Hnp].
        cbn [map]. constructor; [apply reversal_batch_correct; [exact Hb|exact Hrb|now destruct (is_prenote_desc (rb_desc b))]|now apply IH]. }
      destruct (sum_swapped d bs) as [S1 S2].
      constructor; cbn [rf_batches rf_date rf_time rf_debit rf_credit]; try reflexivity.
      + exact HF.
      + fold bs'. subst bs'. rewrite S1. now rewrite Hc.
      + fold bs'. subst bs'. rewrite S2. now rewrite Hd.
      + unfold rfile_valid. cbn [rf_batches rf_debit rf_credit]. rewrite !Z.eqb_refl, !andb_true_r.
        apply andb_true_intro. split; [destruct bs'; [congruence|reflexivity]|].
        apply forallb_forall. intros b' Hin.
        clear -HF Hin. induction HF as [|b x l l' Hbx _ IH]; [destruct Hin|].
        destruct Hin as [<-|Hin]; [apply (br_valid _ _ _ Hbx)|now apply IH].
  Qed.
End WithTables.

(* C06 (phase 5) — the byte-level reader of phase 1 composed with the shape-level reader. *)
From Coq Require Import List Bool.
Import ListNotations.
From ACH Require Totality TotalityFacts.
From ACH Require Import Utf8 TotalOps TotalOpsFacts ReaderShape ReaderShapeFacts ReaderText.

(* Reading any list of physical lines (the first one of at most 94 runes, as the loop of Read cuts it):
   the byte level does not panic — no slice of readLine / parseLine / parseBH / the addenda code columns is
   out of range — and yields the dispatched records; and whatever data those records carry (every
   shape-level line sequence that refines the dispatch, every answer, every oracle), the state machine
   does not panic either and returns a well-formed file. *)
Theorem read_text_total (bs : list Bytes.bytes) :
  match bs with l :: _ => rune_count l <= Totality.record_length | [] => True end ->
  exists recs, Totality.read_lines true bs = Totality.Ok recs /\
    forall (skip : bool) (ls : list rline) (fin : ans) (o : list bool),
      refines_all (dispatched recs) ls = true ->
      panics (reader_read ls fin (init skip) o) = false /\
      forall v s o', reader_read ls fin (init skip) o = OK v s o' -> wf_file_strict (r_file s) = true.
Proof.
  intros H. pose proof (TotalityFacts.read_lines_total bs H) as Hp.
  assert (Hok : forall first l, (exists r, Totality.read_lines first l = Totality.Ok r) \/ Totality.read_lines first l = Totality.Panic).
  { intros first l. revert first. induction l as [|x t IH]; intros first; cbn [Totality.read_lines]; [left; eauto|].
    destruct (Totality.read_line first x); [| |right; reflexivity];
      (destruct (IH false) as [(r & ->) | ->]; [left; cbn; eauto|right; reflexivity]). }
  destruct (Hok true bs) as [(recs & Hr)|Hr]; [|rewrite Hr in Hp; discriminate Hp].
  exists recs. split; [exact Hr|]. intros skip ls fin o _. split.
  - apply reader_total.
  - intros v s o' Hs. exact (proj1 (reader_result_wf skip ls fin o v s o' Hs)).
Qed.

(* the premise is satisfiable with every record type: a well-formed PPD file, line by line *)
Definition sample_kinds : list Totality.rec_kind :=
  [Totality.KFileHeader; Totality.KBatchHeader; Totality.KEntryDetail; Totality.KAddenda [48; 53]%N [32; 32; 32]%N;
   Totality.KBatchControl; Totality.KFileControl; Totality.KPadding].

(* Byte-exact model of the ENR / DNE payment-information path of achcli describe:
     batchENR.go  ParseENRPaymentInformation, ENRPaymentInformation.String
     batchDNE.go  ParseDNEPaymentInformation, DNEPaymentInformation.String
     cmd/achcli/describe/file.go  dumpAddenda05 (parse, mask the parsed fields, print String())
   String() REASSEMBLES the value it prints: the consumer branch splits the (masked)
   name with strings.Fields, moves the last word to the front and joins with '*'; the
   business branch prints the first 15 runes (%15.15s, TrimSpace), a '*', and - when
   the name has more than 15 runes - %7.7s of the BYTE slice name[15:].
   Definitions only (so the model still runs when a proof breaks). *)
From ACH Require Export Mask Fields.
Open Scope N_scope.

Definition bslash : N := 92.   (* '\\' *)

(* ---------- library functions used by the Go code ---------- *)

(* strings.TrimSuffix(s, `\`) *)
Definition trim_bslash (s : bytes) : bytes :=
  match rev s with
  | b :: r => if b =? bslash then rev r else s
  | [] => s
  end.

(* strings.Split(s, "*"): always at least one part *)
Fixpoint split_star (s : bytes) : list bytes :=
  match s with
  | [] => [[]]
  | b :: t =>
      if b =? star then [] :: split_star t
      else match split_star t with
           | x :: r => (b :: x) :: r
           | [] => [[b]]
           end
  end.

(* strings.EqualFold(s, t) for a literal t that is one ASCII letter other than
   K/k/S/s (those have non-ASCII fold partners): s is that letter in either case *)
Definition fold_letter_ok (c : N) : bool :=
  (((65 <=? c) && (c <=? 90)) || ((97 <=? c) && (c <=? 122)))
  && negb (c =? 75) && negb (c =? 107) && negb (c =? 83) && negb (c =? 115).
Definition other_case (c : N) : N := if c <? 97 then c + 32 else c - 32.
Definition equal_fold_letter (s : bytes) (c : N) : bool :=
  bytes_eqb s [c] || bytes_eqb s [other_case c].

(* fmt's %W.Ps applied to a string: keep the first P runes (cut at a rune
   boundary of Go's decoding: an invalid byte is one rune), then pad with blanks
   on the left up to W runes *)
Definition trunc_runes (p : nat) (s : bytes) : bytes := concat (map snd (firstn p (chunks s))).
Definition fmt_s (w p : nat) (s : bytes) : bytes :=
  let t := trunc_runes p s in spaces (w - rune_count t) ++ t.

(* ---------- ENR ---------- *)

Record enr_info := mk_enr {
  e_tx : Z;            (* TransactionCode *)
  e_rdfi : bytes;      (* RDFIIdentification *)
  e_check : bytes;     (* CheckDigit *)
  e_acct : bytes;      (* DFIAccountNumber *)
  e_ident : bytes;     (* IndividualIdentification *)
  e_name : bytes;      (* IndividualName *)
  e_code : bytes }.    (* EnrolleeClassificationCode *)

Definition is_business (code : bytes) : bool := equal_fold_letter code 66.   (* EqualFold(code, "B") *)

(* ParseENRPaymentInformation (None = the error return) *)
Definition parse_enr (pri : bytes) : option enr_info :=
  match split_star (trim_bslash pri) with
  | [p0; p1; p2; p3; p4; p5; p6; p7] =>
      match atoi_opt p0 with
      | Some tx =>
          Some (mk_enr tx p1 p2 p3 p4
                  (if is_business p7 then p5 ++ p6 else p6 ++ sp :: p5) p7)
      | None => None
      end
  | _ => None
  end.

(* append(nameParts[len-1:], nameParts[:len-1]...) when len > 1 *)
Definition surname_first (xs : list bytes) : list bytes :=
  if (1 <? length xs)%nat
  then skipn (length xs - 1) xs ++ firstn (length xs - 1) xs
  else xs.

(* the local variable individualName of ENRPaymentInformation.String *)
Definition enr_name_out (name code : bytes) : bytes :=
  if is_business code then
    let first := trim (fmt_s 15 15 name) ++ [star] in
    if (15 <? rune_count name)%nat then first ++ trim (fmt_s 7 7 (skipn 15 name)) else first
  else join [star] (surname_first (fields name)).

(* what String() prints, one element per '*'-separated position of the format
   `%v*%v*%v*%v*%v*%v*%v\` (the name element contains a '*' of its own) *)
Definition enr_printed (i : enr_info) : list bytes :=
  [itoa (e_tx i); e_rdfi i; e_check i; e_acct i; e_ident i;
   enr_name_out (e_name i) (e_code i); e_code i ++ [bslash]].

Definition enr_string (i : enr_info) : bytes := join [star] (enr_printed i).

(* dumpAddenda05, case *ach.BatchENR: mask the parsed fields under the flags *)
Definition mask_enr (names accts : bool) (i : enr_info) : enr_info :=
  mk_enr (e_tx i) (e_rdfi i) (e_check i)
    (if accts then maskNumber (e_acct i) else e_acct i)
    (if accts then maskNumber (e_ident i) else e_ident i)
    (if names then maskName (e_name i) else e_name i)
    (e_code i).

(* the PaymentRelatedInformation cell printed for an addenda of an ENR batch;
   a value that does not parse is printed as the raw 80-column field *)
Definition describe_enr (names accts : bool) (pri : bytes) : bytes :=
  match parse_enr pri with
  | Some i => enr_string (mask_enr names accts i)
  | None => alphaField pri 80
  end.

Definition enr_wellformed (pri : bytes) : bool :=
  match parse_enr pri with Some _ => true | None => false end.

(* ---------- DNE ---------- *)

Definition two_digits (a b : N) : option Z :=
  if is_digit a && is_digit b then Some (Z.of_N ((a - 48) * 10 + (b - 48))) else None.

(* the two-digit year "06" of package time: atoi with an optional sign, then
   >= 69 -> 19xx else 20xx *)
Definition dne_year (a b : N) : option Z :=
  let y := if (a =? 45) || (a =? 43)
           then (if is_digit b then Some (if a =? 45 then (- Z.of_N (b - 48))%Z else Z.of_N (b - 48)) else None)
           else two_digits a b in
  match y with
  | Some v => Some (if (69 <=? v)%Z then (v + 1900)%Z else (v + 2000)%Z)
  | None => None
  end.

Definition is_leap (y : Z) : bool :=
  ((y mod 4 =? 0) && (negb (y mod 100 =? 0) || (y mod 400 =? 0)))%Z.

Definition days_in (m y : Z) : Z :=
  (if m =? 2 then (if is_leap y then 29 else 28)
   else if (m =? 4) || (m =? 6) || (m =? 9) || (m =? 11) then 30 else 31)%Z.

Definition two (z : Z) : bytes :=
  let n := Z.to_N z in [48 + n / 10; 48 + n mod 10].

(* time.Parse("010206", s) followed by Format("010206"): None = parse error *)
Definition dne_date (s : bytes) : option bytes :=
  match s with
  | [m1; m2; d1; d2; y1; y2] =>
      match two_digits m1 m2, two_digits d1 d2, dne_year y1 y2 with
      | Some m, Some d, Some y =>
          if ((1 <=? m) && (m <=? 12) && (1 <=? d) && (d <=? days_in m y))%Z
          then Some (two m ++ two d ++ two (y mod 100)%Z)
          else None
      | _, _, _ => None
      end
  | _ => None
  end.

Record dne_info := mk_dne {
  d_date : bytes;     (* DateOfDeath, as Format("010206") prints it *)
  d_ssn : bytes;      (* CustomerSSN *)
  d_amount : bytes }. (* Amount *)

Definition parse_dne (pri : bytes) : option dne_info :=
  match split_star (trim_bslash pri) with
  | [_; f1; _; f3; _; f5] =>
      match dne_date f1 with
      | Some d => Some (mk_dne d f3 f5)
      | None => None
      end
  | _ => None
  end.

Definition lit_date_of_death : bytes := [68; 65; 84; 69; 32; 79; 70; 32; 68; 69; 65; 84; 72].   (* "DATE OF DEATH" *)
Definition lit_customer_ssn : bytes := [67; 85; 83; 84; 79; 77; 69; 82; 32; 83; 83; 78].        (* "CUSTOMER SSN" *)
Definition lit_amount : bytes := [65; 77; 79; 85; 78; 84].                                       (* "AMOUNT" *)

(* `DATE OF DEATH*%s*CUSTOMER SSN*%s*AMOUNT*%s\` *)
Definition dne_printed (i : dne_info) : list bytes :=
  [lit_date_of_death; d_date i; lit_customer_ssn; d_ssn i; lit_amount; d_amount i ++ [bslash]].

Definition dne_string (i : dne_info) : bytes := join [star] (dne_printed i).

(* dumpAddenda05, case *ach.BatchDNE: `if opts.MaskNames || opts.MaskAccountNumbers` *)
Definition mask_dne (names accts : bool) (i : dne_info) : dne_info :=
  mk_dne (d_date i) (if names || accts then maskNumber (d_ssn i) else d_ssn i) (d_amount i).

Definition describe_dne (names accts : bool) (pri : bytes) : bytes :=
  match parse_dne pri with
  | Some i => dne_string (mask_dne names accts i)
  | None => alphaField pri 80
  end.

Definition dne_wellformed (pri : bytes) : bool :=
  match parse_dne pri with Some _ => true | None => false end.

(* ---------- hypotheses of the theorems, as booleans ---------- *)

Definition nostar (w : bytes) : bool := forallb (fun b => negb (b =? star)) w.
Definition noblank (w : bytes) : bool := forallb (fun b => negb (b =? sp)) w.

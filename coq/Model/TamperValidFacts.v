(* C04, phase 6: pieces for the transfer of the text-level theorems to the validating reader.

     read_file_needs_ctl   a list of lines without a file control line ('9', not starting "99") is
                           never read as a file by the typed reader (with or without validation)
     lines_written         the lines Reader.Read frames from a written text are the physical lines
     lines_prefix_u        ... from a byte prefix of it: the whole lines before the cut and the cut line
                           (Model/TruncUtf8Facts.v read_text_prefix_u with the lines exposed)          *)
From Coq Require Import String List NArith ZArith Bool Lia.
From ACH Require Import Arith DispatchFacts FileStructFacts ReaderSkel ReaderSkelFacts.
From ACH Require Import TamperText TamperTextFacts FramingFacts TruncFacts TruncBytes TruncUtf8 TruncUtf8Facts.
Import ListNotations.
Local Open Scope nat_scope.
Local Open Scope list_scope.

Section NoCtl.
Variable T : list layout.

Ltac fin := let H := fresh in intros H; injection H as <-; right; split; reflexivity.

Lemma dstep_keeps_ctl s l s' : dstep T (Some s) l = Some s' ->
  (rtype l = T9 /\ starts99 l = false) \/ (d_ctl s' = d_ctl s /\ d_actl s' = d_actl s).
Proof.
  unfold dstep. destruct (negb (rune_count l =? 94)); [discriminate|]. cbv zeta.
  destruct (rtype l =? T1)%N.
  { unfold step1. destruct (d_hdr s); [discriminate|]. destruct (read_rec T "FileHeader" l); [fin|discriminate]. }
  destruct (rtype l =? T5)%N.
  { unfold step5. destruct (d_cur s); [discriminate|]. destruct (iat_line l).
    - destruct (read_rec T "IATBatchHeader" l); [fin|discriminate].
    - destruct (read_rec T "BatchHeader" l) as [h|]; [|discriminate].
      destruct (existsb (bytes_eqb (sec_of h)) newbatch_secs); [fin|discriminate]. }
  destruct (rtype l =? T6)%N.
  { unfold step6. destruct (d_icur s) as [c|].
    - unfold lift_icur. destruct (ctx_entry T iat_fl c l); [fin|discriminate].
    - destruct (d_cur s) as [c|]; [|discriminate]. unfold lift_cur. destruct (ctx_entry T (cur_fl (fst c)) c l); [fin|discriminate]. }
  destruct (rtype l =? T7)%N.
  { unfold step7, step7_iat. destruct (d_cur s) as [c|].
    - destruct (not_iatcor (fst c)).
      + unfold lift_cur. destruct (ctx_addenda T (cur_fl (fst c)) c l); [fin|discriminate].
      + destruct (d_icur s) as [c'|]; [|discriminate]. unfold lift_icur. destruct (ctx_addenda T iat_fl c' l); [fin|discriminate].
    - destruct (d_icur s) as [c'|]; [|discriminate]. unfold lift_icur. destruct (ctx_addenda T iat_fl c' l); [fin|discriminate]. }
  destruct (rtype l =? T8)%N.
  { unfold step8. destruct (d_cur s) as [c|].
    - destruct (ctx_close T (cur_fl (fst c)) c l); [fin|discriminate].
    - destruct (d_icur s) as [[h [|e es]]|]; try discriminate.
      destruct (ctx_close T iat_fl (h, e :: es) l); [fin|discriminate]. }
  destruct (rtype l =? T9)%N eqn:E9; [|discriminate].
  unfold step9. rewrite pad_starts99. destruct (starts99 l).
  - fin.
  - intros _. left. split; [now apply N.eqb_eq|reflexivity].
Qed.

Definition not_ctl (l : bytes) : Prop := rtype l <> T9 \/ starts99 l = true.

Lemma fold_keeps_ctl ls : forall s s', Forall not_ctl ls -> fold_left (dstep T) ls (Some s) = Some s' ->
  d_ctl s' = d_ctl s /\ d_actl s' = d_actl s.
Proof.
  induction ls as [|l ls IH]; intros s s' Hls H.
  - cbn in H. injection H as <-. now split.
  - inversion Hls as [|? ? Hl Hrest]; subst. cbn [fold_left] in H.
    destruct (dstep T (Some s) l) as [s1|] eqn:E1; [|rewrite dstep_none in H; discriminate].
    destruct (dstep_keeps_ctl s l s1 E1) as [[H9 H99]|[A B]].
    + destruct Hl as [Hl|Hl]; [contradiction|congruence].
    + destruct (IH s1 s' Hrest H) as [A' B']. split; congruence.
Qed.

(* no file control line: no file *)
Theorem read_file_needs_ctl ls : Forall not_ctl ls -> read_file T ls = None.
Proof.
  intros Hls. unfold read_file. destruct (fold_left (dstep T) ls (Some d_init)) as [s|] eqn:E; [|reflexivity].
  destruct (fold_keeps_ctl ls d_init s Hls E) as [A B]. cbn [d_init d_ctl d_actl] in A, B.
  unfold d_finish. rewrite A, B. destruct (d_hdr s), (d_cur s), (d_icur s), (any_adv (d_std s)); reflexivity.
Qed.

End NoCtl.

(* ---- the lines the reader frames from a written text ---- *)
Lemma map_norm_ulines ls : Forall uline ls -> map norm_line ls = map NLine ls.
Proof.
  induction 1 as [|l ls Hl _ IH]; [reflexivity|]. cbn [map]. rewrite IH. f_equal.
  unfold norm_line. destruct Hl as (_ & H94 & _). now rewrite H94.
Qed.

Lemma lines_written le ls : le_ok le -> Forall uline ls -> all_lines (read_lines (text_of le ls)) = Some ls.
Proof.
  intros Hle Hls. unfold read_lines. destruct (frame_ulines le ls Hle Hls [] 0) as [n' E].
  rewrite app_nil_r in E. cbn [frame map Nat.ltb Nat.leb] in E. rewrite app_nil_r in E.
  rewrite <- (map_map snd norm_line), E, (map_norm_ulines ls Hls). apply all_lines_NLine.
Qed.

Lemma lines_prefix_u le ls k : le_ok le -> Forall uline ls -> k < length (text_of le ls) ->
  exists i c j, i < length ls /\ c <= 94 /\ j <= 3 /\
    (0 < j -> c < 94 /\ j < length (nth c (chars (nth i ls [])) [])) /\
    all_lines (read_lines (firstn k (text_of le ls))) = Some (firstn i ls ++ tail_u (nth i ls []) c j).
Proof.
  intros Hle Hls Hk. destruct (firstn_text le ls k Hk) as (i & p & q & Hi & E & Hpq & Hq).
  assert (Hli : uline (nth i ls [])) by (rewrite Forall_forall in Hls; apply Hls, nth_In, Hi).
  assert (Hfi : Forall uline (firstn i ls)) by now apply Forall_firstn.
  destruct (frame_prefix_u le (firstn i ls) _ p q 0 Hle Hfi Hli Hpq Hq) as (c & j & Hc & Hj & Hcj & Efr).
  exists i, c, j. split; [exact Hi|]. split; [exact Hc|]. split; [exact Hj|]. split; [exact Hcj|].
  unfold read_lines. rewrite E, Efr. now rewrite all_lines_NLine.
Qed.

(* C06 (phase 2) — types of the type-aware site table the translator regenerates (Gen/OpSites.v),
   the coverage list that ties the shape model (TotalOps.v, TotalJson.v) to it, and the boolean
   checkers the obligations of C06OpsObl.v evaluate. *)
From Coq Require Import String List Bool Arith.
Import ListNotations.
From ACH Require Import PartialTable.
Open Scope string_scope.

Record osite := mkosite {
  o_func : string;      (* pkg.Receiver.Func *)
  o_ord : nat;
  o_kind : string;      (* deref | index | unknown *)
  o_text : string;      (* normalised source text of the selector / index expression *)
  o_path : string;      (* the operand: the pointer that is dereferenced / the value that is indexed *)
  o_type : string;      (* its declared type, "?" when not resolved *)
  o_class : string }.   (* value | nil-checked | nil-safe | pointer | untyped | map | loop-bound | sort-less | last | other *)

(* one optional pointer a function of the source dereferences without a dominating nil test of its own,
   the number of places where it does so, and the definition of the shape model that performs (or
   guards) the dereference *)
Record cover := mkcover { c_func : string; c_path : string; c_count : nat; c_model : string }.

Definition is_ptr (s : osite) : bool :=
  String.eqb (o_kind s) "deref" && (String.eqb (o_class s) "pointer" || String.eqb (o_class s) "untyped").

Definition cover_matches (s : osite) (c : cover) : bool :=
  String.eqb (c_func c) (o_func s) && String.eqb (c_path c) (o_path s).

Definition count_sites (f p : string) (t : list osite) : nat :=
  length (filter (fun s => is_ptr s && String.eqb (o_func s) f && String.eqb (o_path s) p) t).

(* every unguarded optional dereference (and every construct the translator did not understand) inside
   a function the model transcribes is in the coverage list … *)
Definition covered_ok (funcs : list string) (cv : list cover) (t : list osite) : bool :=
  forallb (fun s => negb (existsb (String.eqb (o_func s)) funcs)
                    || (negb (String.eqb (o_kind s) "unknown")
                        && (negb (is_ptr s) || existsb (cover_matches s) cv))) t.

(* … with exactly the recorded number of occurrences (an added or removed dereference of the same pointer
   changes the count), and every function of the list exists *)
Definition cover_exact (funcs : list string) (cv : list cover) (t : list osite) : bool :=
  forallb (fun c => Nat.eqb (count_sites (c_func c) (c_path c) t) (c_count c) && Nat.ltb 0 (c_count c)
                    && existsb (String.eqb (c_func c)) funcs) cv.

(* the reasons of PartialAccounted.accounted that name a class of this table are what the table says *)
Definition prefix (p s : string) : bool := String.prefix p s.

Definition class_of_reason (why : string) : option (list string) :=
  if prefix "value:" why then Some ["value"]
  else if prefix "map:" why then Some ["map"]
  else if prefix "nil-safe:" why then Some ["nil-safe"]
  else if prefix "loop-bound:" why then Some ["loop-bound"]
  else if prefix "sort-less:" why then Some ["sort-less"; "ranged"]
  else if prefix "last:" why then Some ["last"]
  else if prefix "ops-model:" why then Some ["pointer"; "untyped"]
  else None.

Definition acct_refined_ok (cv : list cover) (t : list osite) (a : acct) : bool :=
  match class_of_reason (a_why a) with
  | None => true
  | Some classes =>
      let ss := filter (fun s => String.eqb (o_func s) (a_func a) && String.eqb (o_text s) (a_text a)) t in
      negb (match ss with [] => true | _ => false end)
      && forallb (fun s => existsb (String.eqb (o_class s)) classes
                           && (negb (prefix "ops-model:" (a_why a)) || existsb (cover_matches s) cv)) ss
  end.

Definition refined_ok (cv : list cover) (accounted : list acct) (t : list osite) : bool :=
  forallb (acct_refined_ok cv t) accounted.

Definition count_reason (p : string) (accounted : list acct) : nat :=
  length (filter (fun a => prefix p (a_why a)) accounted).

(* the generic validator of the shape model stands for every Batcher implementation *)
Definition batchers_ok (expected : list string) (bt : list (string * (bool * bool))) : bool :=
  Nat.eqb (length bt) (length expected)
  && forallb (fun n => existsb (fun x => String.eqb (fst x) n && fst (snd x) && snd (snd x)) bt) expected.

Definition nil_safe_ok (needed have : list string) : bool :=
  forallb (fun n => existsb (String.eqb n) have) needed.

(* soundness of the coverage checker: what [covered_ok] returning true means *)
Theorem covered_sound funcs cv t : covered_ok funcs cv t = true ->
  forall s, In s t -> In (o_func s) funcs -> is_ptr s = true ->
  exists c, In c cv /\ c_func c = o_func s /\ c_path c = o_path s.
Proof.
  intros H s Hs Hf Hp. unfold covered_ok in H. rewrite forallb_forall in H. specialize (H s Hs).
  assert (Hin : existsb (String.eqb (o_func s)) funcs = true).
  { apply existsb_exists. exists (o_func s). split; [exact Hf|apply String.eqb_refl]. }
  rewrite Hin in H. cbn [negb orb] in H. apply andb_prop in H as [_ H]. rewrite Hp in H. cbn [negb orb] in H.
  apply existsb_exists in H as (c & Hc & Hm). unfold cover_matches in Hm. apply andb_prop in Hm as [H1 H2].
  apply String.eqb_eq in H1, H2. exists c. auto.
Qed.

(* C12, phase 6 — the WHOLE of ach.Flatten (file_flattener.go) as one executable function,
   composed from the consolidation model (Flatten.v) and the Create models of C05:
   Offsets.build (Batch.build, standard batches), BuildIAT.iat_build (IATBatch.build),
   BuildADV.adv_build (ADV branch of Batch.build), FileCreateAll.file_create_all (File.Create
   over Batches / IATBatches / ADV files), and the validator model of C03 (Arith.validate_batch,
   Arith.validate_fctl).  Definitions only.

   What Flatten does after the consolidation loop, in source order:
     sort.Slice(allBatches) by batch number;
     for each: AddToFile = sort the entries by trace number; Create (build + Validate, which ends
       with isCategory); ON ERROR THE BATCH IS NOT ADDED and Flatten ignores the error;
       Header.BatchNumber = 0; AddBatch / AddIATBatch;
     newFile.Create()   -> error (ErrFileNoBatches when nothing was added, ...);
     newFile.Validate() -> error;
     three comparisons with the control record of the ORIGINAL file -> ErrFlattenChanged....

   The Flatten model keeps the entry identity opaque ([e_core]); what Create reads beyond the
   model's own fields is a function of it (payload functions, as in ValidFlatten.v):
     [hd] of the header signature: service class, ODFI (string / integer), header valid, SEC = ADV;
     [sp] of a standard entry: transaction code, routing number, check digit, "named OFFSET";
     [ip] of an IAT entry: code, Atoi(aba8(RDFI)), which addenda records are present;
     [ap] of an ADV entry: code, Atoi(aba8(RDFI)), Addenda99 present.
   The trace number Create works with is the integer its digits denote ([tnum]). *)
From ACH Require Import ValidOut.
From ACH Require Import FileCreateAll.
From ACH Require Import Bytes Fields Flatten.
From Coq Require Import Permutation Sorted.
Open Scope Z_scope.

(* (no module aliases: monolithic extraction cannot follow them; Offsets / BuildIAT / BuildADV /
   FileCreateAll / Arith names are written qualified, the unqualified ones are Flatten's) *)

(* ------------------------------------------------------------------ categories *)

Definition cat_forward : N := 0%N.
Definition cat_return : N := 1%N.

Definition is_nil {X} (l : list X) : bool := match l with [] => true | _ => false end.

(* Batch.isCategory: category := Entries[0].Category; with more than one entry the loop runs
   from i = 0, skips NOC entries and compares the others with [category]; ADV batches look at
   ADVEntries (no NOC exemption); a batch without (ADV) entries is ErrBatchNoEntries *)
Definition is_category_std (adv : bool) (b : batch) : bool :=
  if negb adv then
    match b_entries b with
    | [] => false
    | e0 :: r =>
        if is_nil r then true
        else forallb (fun e => (e_cat e =? cat_noc)%N || (e_cat e =? e_cat e0)%N) (b_entries b)
    end
  else
    match b_adv b with
    | [] => false
    | a0 :: r =>
        if is_nil r then true
        else forallb (fun a => (e_cat a =? e_cat a0)%N) (b_adv b)
    end.

(* IATBatch.isCategory: category := GetEntries()[0].Category (reached only after build, which
   refuses an empty batch: modelled as false); the loop runs from i = 1 *)
Definition is_category_iat (b : batch) : bool :=
  match b_entries b with
  | [] => false
  | e0 :: r => forallb (fun e => (e_cat e =? cat_noc)%N || (e_cat e =? e_cat e0)%N) r
  end.

(* Batch.Category() on a batch that holds entries (the cached field is consulted only when
   Entries is empty): the category of the first Return / NOC entry, then of the first such ADV
   entry, Forward otherwise — a DishonoredReturn batch reports Forward *)
Definition is_ret_noc (c : N) : bool := (c =? cat_return)%N || (c =? cat_noc)%N.

Definition batch_category (b : batch) : N :=
  match find (fun e => is_ret_noc (e_cat e)) (b_entries b) with
  | Some e => e_cat e
  | None => match find (fun a => is_ret_noc (e_cat a)) (b_adv b) with
            | Some a => e_cat a
            | None => cat_forward
            end
  end.

(* the category rule of a file, entry level: one category per batch ... *)
Definition cat_pure (b : batch) : Prop :=
  (forall e e', In e (b_entries b) -> In e' (b_entries b) -> e_cat e = e_cat e') /\
  (forall a a', In a (b_adv b) -> In a' (b_adv b) -> e_cat a = e_cat a').

Definition head_cat (b : batch) : N :=
  match b_entries b with e :: _ => e_cat e | [] => match b_adv b with a :: _ => e_cat a | [] => cat_forward end end.

(* ... and batches with equal header signatures hold the same category *)
Definition cat_rule (inp : list batch) : Prop :=
  Forall cat_pure inp /\
  (forall a b, In a inp -> In b inp -> b_sig a = b_sig b -> head_cat a = head_cat b) /\
  Forall (fun b => b_entries b = [] \/ b_adv b = []) inp.

(* ------------------------------------------------------------------ payloads *)

Record hdrp := mkhdrp {
  hd_class : Z;          (* Header.ServiceClassCode *)
  hd_odfi : bytes;       (* Header.ODFIIdentification as stored *)
  hd_ok : bool;          (* Header.Validate() == nil *)
  hd_adv : bool;         (* Header.StandardEntryClassCode == ADV (Batch.IsADV) *)
  hd_odfi_z : Z;         (* Atoi(Header.ODFIIdentificationField()[:8]) *)
  hd_odfi_num : bool }.  (* ... returns no error *)

Record stdp := mkstdp {
  sp_code : Z;           (* TransactionCode *)
  sp_rdfi : bytes;       (* RDFIIdentification as stored *)
  sp_check : bytes;      (* CheckDigit as stored *)
  sp_off : bool }.       (* strings.EqualFold(IndividualName, "OFFSET") *)

Record ipay := mkipay {
  ip_code : Z; ip_rdfi : Z; ip_tr_num : bool;
  ip_mand : list bool;   (* Addenda10 .. Addenda16 present *)
  ip_n17 : nat; ip_n18 : nat; ip_a98 : bool; ip_a99 : bool }.

Record apay := mkapay { ap_code : Z; ap_rdfi : Z; ap_a99 : bool }.

(* the control record of the file that is being flattened, as far as Flatten reads it *)
Record fin := mkfin { i_hdr_ok : bool; i_count : Z; i_debit : Z; i_credit : Z }.

Inductive fclass :=
  | FOk
  | FErrCreate      (* newFile.Create() failed: ErrFileNoBatches, ADV mixed with other batches *)
  | FErrValidate    (* newFile.Validate() failed *)
  | FErrCount | FErrDebit | FErrCredit.   (* ErrFlattenChanged... *)

Definition zero_ctl : Offsets.control := Offsets.mkctl 0 0 0 0 0 0.
Definition zero_fctl : Offsets.fctl := Offsets.mkfctl 0 0 0 0 0 0.

Definition a_fctl (c : Offsets.fctl) : Arith.fctl :=
  Arith.mkfctl (Offsets.fc_batches c) (Offsets.fc_count c) (Offsets.fc_hash c) (Offsets.fc_debit c) (Offsets.fc_credit c).

Section Full.
Variables (A : Arith.tables) (T : Offsets.otable) (TT : BuildIAT.ttable).
Variables (hd : bytes -> hdrp) (sp : bytes -> stdp) (ip : bytes -> ipay) (ap : bytes -> apay).

(* the integer Create works with: Atoi(TraceNumberField()) (left padding with zeros does not
   change the value) *)
Definition tnum (t : bytes) : Z := atoi t.

(* ---- standard batches: NewBatch(header) + AddEntry... as an Offsets batch (no offset account:
   Copy() builds the new batch from the header alone) *)
Definition to_off_entry (e : entry) : Offsets.entry :=
  let p := sp (e_core e) in
  Offsets.mkentry (sp_code p) (e_amount e) (sp_off p) (tnum (e_trace e)) (Z.of_N (e_addenda e))
             (atoi (Arith.aba8 (sp_rdfi p))).

Definition to_off (b : batch) : Offsets.batch :=
  Offsets.mkbatch (hd_ok (hd (b_sig b))) (hd_odfi_z (hd (b_sig b))) (hd_class (hd (b_sig b))) (b_num b)
             (map to_off_entry (b_entries b)) zero_ctl None.

(* the Arith skeleton of what build left: the entry as stored (routing number, check digit), its
   trace number string — the stored string where build kept the number, the 15 digits
   SetTraceNumber writes where build assigned one —, the control record field by field, the ODFI
   string of the header in header and control *)
Definition sk_entry (e : entry) (e' : Offsets.entry) : Arith.entry :=
  let p := sp (e_core e) in
  Arith.mkentry (Offsets.e_code e') (Offsets.e_amount e') (sp_rdfi p) (sp_check p)
             (if Offsets.e_trace e' =? tnum (e_trace e) then e_trace e else trace15 (Offsets.e_trace e'))
             (Offsets.e_addenda e').

Fixpoint sk_entries (es : list entry) (es' : list Offsets.entry) : list Arith.entry :=
  match es, es' with
  | e :: r, e' :: r' => sk_entry e e' :: sk_entries r r'
  | _, _ => []
  end.

Definition off_skeleton (b : batch) (b' : Offsets.batch) : Arith.batch :=
  let c := Offsets.b_ctl b' in
  let od := hd_odfi (hd (b_sig b)) in
  Arith.mkbatch Arith.KStd (Offsets.b_svc b') od (Offsets.b_num b') (sk_entries (b_entries b) (Offsets.b_entries b'))
             (Arith.mkbctl (Offsets.c_svc c) (Offsets.c_count c) (Offsets.c_hash c) (Offsets.c_debit c) (Offsets.c_credit c) od (Offsets.c_num c)).

Definition ruleb (r : Arith.rule) : bool := match r with Arith.ROk => true | _ => false end.

(* Batch<SEC>.Create = build() then Validate() (verify ... isCategory last) *)
Definition create_std (b : batch) : option Offsets.batch :=
  match Offsets.build T (to_off b) with
  | Offsets.Ret true b' =>
      if ruleb (Arith.validate_batch A (off_skeleton b b')) && is_category_std false b then Some b' else None
  | _ => None
  end.

(* ---- ADV batches *)
Definition to_adv_entry (a : entry) : BuildADV.aentry :=
  let p := ap (e_core a) in BuildADV.mkae (ap_code p) (e_amount a) (ap_rdfi p) (ap_a99 p) 0.

Definition to_adv (b : batch) : BuildADV.abatch :=
  BuildADV.mkab (hd_ok (hd (b_sig b))) (negb (is_nil (b_entries b))) (hd_class (hd (b_sig b))) (b_num b)
          (map to_adv_entry (b_adv b)) zero_ctl false.

Definition create_adv (b : batch) : option BuildADV.abatch :=
  match BuildADV.adv_build TT (to_adv b) with
  | (true, a') => if is_category_std true b then Some a' else None
  | _ => None
  end.

(* ---- IAT batches *)
Definition to_iat_entry (e : entry) : BuildIAT.ientry :=
  let p := ip (e_core e) in
  BuildIAT.mkie (ip_code p) (e_amount e) (ip_tr_num p) (tnum (e_trace e)) (ip_rdfi p)
          (map (fun present : bool => if present then Some 0 else None) (ip_mand p))
          (repeat (0, 0) (ip_n17 p)) (repeat (0, 0) (ip_n18 p)) (ip_a98 p) (ip_a99 p).

Definition to_iat (b : batch) : BuildIAT.ibatch :=
  BuildIAT.mkib (hd_ok (hd (b_sig b))) (hd_odfi_num (hd (b_sig b))) (hd_odfi_z (hd (b_sig b)))
          (hd_class (hd (b_sig b))) (b_num b) (map to_iat_entry (b_entries b)) zero_ctl None.

Definition create_iat (b : batch) : option BuildIAT.ibatch :=
  match BuildIAT.iat_build TT (to_iat b) with
  | (true, b') => if is_category_iat b then Some b' else None
  | _ => None
  end.

(* m.batcher.GetHeader().BatchNumber = 0 (the control keeps the number Create copied) *)
Definition std_hdr0 (b : Offsets.batch) : Offsets.batch :=
  Offsets.mkbatch (Offsets.b_hdr_ok b) (Offsets.b_odfi b) (Offsets.b_svc b) 0 (Offsets.b_entries b) (Offsets.b_ctl b) (Offsets.b_off b).
Definition adv_hdr0 (a : BuildADV.abatch) : BuildADV.abatch :=
  BuildADV.mkab (BuildADV.ab_hdr_ok a) (BuildADV.ab_std_entries a) (BuildADV.ab_svc a) 0 (BuildADV.ab_entries a) (BuildADV.ab_ctl a) (BuildADV.ab_off a).
Definition iat_hdr0 (b : BuildIAT.ibatch) : BuildIAT.ibatch :=
  BuildIAT.mkib (BuildIAT.ib_hdr_ok b) (BuildIAT.ib_odfi_num b) (BuildIAT.ib_odfi b) (BuildIAT.ib_svc b) 0 (BuildIAT.ib_entries b) (BuildIAT.ib_ctl b) (BuildIAT.ib_opts b).

(* AddToFile over the sorted list; a batch whose Create fails is skipped *)
Fixpoint add_all (l : list batch) : list FileCreateAll.sbatch * list BuildIAT.ibatch :=
  match l with
  | [] => ([], [])
  | b :: r =>
      let (ss, ibs) := add_all r in
      match b_kind b with
      | Flatten.KStd =>
          if hd_adv (hd (b_sig b))
          then match create_adv b with Some a => (FileCreateAll.SAdv (adv_hdr0 a) :: ss, ibs) | None => (ss, ibs) end
          else match create_std b with Some x => (FileCreateAll.SStd (std_hdr0 x) :: ss, ibs) | None => (ss, ibs) end
      | Flatten.KIAT =>
          match create_iat b with Some x => (ss, iat_hdr0 x :: ibs) | None => (ss, ibs) end
      end
  end.

(* FileControl.Validate resp. ADVFileControl.Validate of the new file (the batches were validated
   by their Create; the sums File.Validate re-checks are those File.Create just wrote) *)
Definition file_ctl_ok (f : FileCreateAll.afile) : bool :=
  if FileCreateAll.file_is_adv f then ruleb (Arith.validate_adv_fctl (a_fctl (FileCreateAll.af_actl f)))
  else ruleb (Arith.validate_fctl A (a_fctl (FileCreateAll.af_ctl f))).

(* everything after the consolidation loop; [all] = the consolidated batches as collected from
   the map *)
Definition finish (inf : fin) (all : list batch) : fclass * FileCreateAll.afile :=
  let s := map sort_entries (sort_by num_ltb all) in
  let (ss, ibs) := add_all s in
  let f0 := FileCreateAll.mkaf (i_hdr_ok inf) (FileCreateAll.mkfo false false false) ss ibs zero_fctl zero_fctl in
  match FileCreateAll.file_create_all TT f0 with
  | (false, f) => (FErrCreate, f)
  | (true, f) =>
      if negb (file_ctl_ok f) then (FErrValidate, f)
      else if negb (i_count inf =? Offsets.fc_count (FileCreateAll.af_ctl f)) then (FErrCount, f)
      else if negb (i_debit inf =? Offsets.fc_debit (FileCreateAll.af_ctl f)) then (FErrDebit, f)
      else if negb (i_credit inf =? Offsets.fc_credit (FileCreateAll.af_ctl f)) then (FErrCredit, f)
      else (FOk, f)
  end.

(* Go's processing order for at most 12 batches / under a checked hint (Flatten.v) *)
Definition flatten_full_stable (inf : fin) (inp : list batch) : fclass * FileCreateAll.afile :=
  finish inf (all_batches (run (sort_by count_ltb inp))).

Definition flatten_full_hint (inf : fin) (inp : list batch) (hint : list nat) : option (fclass * FileCreateAll.afile) :=
  if perm_hintb (length inp) hint && sorted_countb (apply_hint inp hint)
  then Some (finish inf (all_batches (run (apply_hint inp hint))))
  else None.

(* the specification: some admissible processing order, some iteration order of the map *)
Definition flatten_full_spec (inf : fin) (inp : list batch) (r : fclass * FileCreateAll.afile) : Prop :=
  exists order all, admissible inp order /\ Permutation all (all_batches (run order)) /\ r = finish inf all.

End Full.

(* Model of Batch.build / Batch.upsertOffsets (batch.go), File.Create (file.go)
   and of call histories over them.  Definitions only (the model still runs
   when a proof breaks).

   What is kept of an EntryDetail is exactly what build/upsertOffsets/Create
   read or write: transaction code, amount, "IndividualName equals OFFSET under
   strings.EqualFold", trace number (as the integer its 15 digits denote, 0 for
   the empty string), number of addenda records (addendaCount) and the integer
   strconv.Atoi(aba8(RDFIIdentification)) that enters the entry hash.

   The parts of upsertOffsets / calculateBatchAmounts that are data (code lists,
   the slice bound of the removal statement, the [i--], the transaction codes of
   the two offset entries) are parameters ([otable]) which the translator
   regenerates from the source on every run (coq/Gen/OffsetTable.v). *)
From ACH Require Export Bytes.
Open Scope Z_scope.

(* ------------------------------------------------------------------ tables *)

Inductive tailform := TailSucc (* Entries[i+1:] *) | TailDouble (* Entries[i+i:] *) | TailSame (* Entries[i:] *) | TailOther.
Inductive okind := Checking | Savings | BadKind.

Record otable := mkotable {
  t_credit : list Z;        (* calculateBatchAmounts, first case: added to credit *)
  t_debit : list Z;         (* second case: added to debit *)
  t_rm_credit : list Z;     (* removal loop: codes whose amount is taken off the credit total; all others off the debit total *)
  t_tail : tailform;        (* low bound of the tail slice in  append(b.Entries[:i], b.Entries[?:]...) *)
  t_redo : bool;            (* the removal branch ends with i-- *)
  t_deb_chk : Z; t_deb_sav : Z;   (* transaction code of the debit offset per account type *)
  t_cre_chk : Z; t_cre_sav : Z;   (* transaction code of the credit offset per account type *)
  t_unknown : bool }.             (* the translator met a statement shape it does not know in one of the two functions *)

(* ------------------------------------------------------------------ data *)

Record entry := mkentry {
  e_code : Z; e_amount : Z; e_off : bool; e_trace : Z; e_addenda : Z; e_rdfi : Z }.

Record control := mkctl {
  c_svc : Z; c_num : Z; c_count : Z; c_hash : Z; c_credit : Z; c_debit : Z }.

Record offcfg := mkoff { o_routing_ok : bool; o_kind : okind; o_rdfi : Z }.

Record batch := mkbatch {
  b_hdr_ok : bool;          (* Header.Validate() == nil *)
  b_odfi : Z;               (* Atoi(Header.ODFIIdentificationField()[:8]) *)
  b_svc : Z;                (* Header.ServiceClassCode *)
  b_num : Z;                (* Header.BatchNumber *)
  b_entries : list entry;
  b_ctl : control;
  b_off : option offcfg }.

(* result of a Go call: returned (ok = nil error) with the state it left, or did not return *)
Inductive res (A : Type) := Ret (ok : bool) (a : A) | Panic | Hang.
Arguments Ret {A} ok a.
Arguments Panic {A}.
Arguments Hang {A}.

Definition P7 : Z := 10000000.
Definition P10 : Z := 10000000000.
Definition P15 : Z := 1000000000000000.
Definition mixed : Z := 200.   (* MixedDebitsAndCredits *)

Definition mem (c : Z) (l : list Z) : bool := existsb (Z.eqb c) l.

Fixpoint sumf (f : entry -> Z) (es : list entry) : Z :=
  match es with [] => 0 | e :: r => f e + sumf f r end.

(* calculateBatchAmounts: a Go switch takes the first matching case *)
Definition cr_amt (T : otable) (e : entry) : Z := if mem (e_code e) (t_credit T) then e_amount e else 0.
Definition db_amt (T : otable) (e : entry) : Z :=
  if mem (e_code e) (t_credit T) then 0 else if mem (e_code e) (t_debit T) then e_amount e else 0.
Definition credits T es := sumf (cr_amt T) es.
Definition debits T es := sumf (db_amt T) es.
Definition count (es : list entry) : Z := sumf (fun e => 1 + e_addenda e) es.
(* calculateEntryHash: leastSignificantDigits(sum, 10) = sum % 10^10 (Go %, truncated) *)
Definition hash (es : list entry) : Z := Z.rem (sumf e_rdfi es) P10.

(* Atoi(TraceNumberField()[:8]); stringField keeps the first 15 runes of a longer string *)
Definition trace_odfi (t : Z) : Z := if t <? P15 then t / P7 else t / (10 * P7).

Definition set_trace (e : entry) (t : Z) : entry :=
  mkentry (e_code e) (e_amount e) (e_off e) t (e_addenda e) (e_rdfi e).

(* the trace loop of build (validateOpts == nil): SetTraceNumber(ODFI, seq) where the
   first eight digits differ from the header's ODFI; numericField keeps the last 7 digits of seq *)
Fixpoint retrace (odfi seq : Z) (es : list entry) : list entry :=
  match es with
  | [] => []
  | e :: r => (if trace_odfi (e_trace e) =? odfi then e else set_trace e (odfi * P7 + seq mod P7))
              :: retrace odfi (seq + 1) r
  end.

(* lastTraceNumber *)
Definition last_trace (es : list entry) : Z := match rev es with [] => 0 | e :: _ => e_trace e end.

(* ------------------------------------------------------------------ upsertOffsets *)

Definition sub_one (T : otable) (e : entry) (c : control) : control :=
  if mem (e_code e) (t_rm_credit T)
  then mkctl (c_svc c) (c_num c) (c_count c - 1) (c_hash c) (c_credit c - e_amount e) (c_debit c)
  else mkctl (c_svc c) (c_num c) (c_count c - 1) (c_hash c) (c_credit c) (c_debit c - e_amount e).

Definition tail_start (f : tailform) (i : nat) : option nat :=
  match f with TailSucc => Some (S i) | TailDouble => Some (i + i)%nat | TailSame => Some i | TailOther => None end.

Inductive loopres := LDone (es : list entry) (c : control) | LPanic | LHang.

(* for i := 0; i < len(b.Entries); i++ { if OFFSET { fix control; Entries = append(Entries[:i], Entries[tail:]...); i-- } }
   — one unit of fuel per iteration; [i--] followed by the loop's [i++] leaves i unchanged *)
Fixpoint remove_loop (T : otable) (fuel : nat) (i : nat) (es : list entry) (c : control) : loopres :=
  match fuel with
  | O => LHang
  | S fuel' =>
    if (i <? length es)%nat then
      match nth_error es i with
      | None => LPanic
      | Some e =>
        if e_off e then
          match tail_start (t_tail T) i with
          | Some lo =>
              if (lo <=? length es)%nat
              then remove_loop T fuel' (if t_redo T then i else S i) (firstn i es ++ skipn lo es) (sub_one T e c)
              else LPanic   (* slice bounds out of range *)
          | None => LPanic
          end
        else remove_loop T fuel' (S i) es c
      end
    else LDone es c
  end.

Definition loop_fuel (es : list entry) : nat := (2 * length es + 2)%nat.

Definition deb_code (T : otable) (k : okind) : Z :=
  match k with Checking => t_deb_chk T | Savings => t_deb_sav T | BadKind => 0 end.
Definition cre_code (T : otable) (k : okind) : Z :=
  match k with Checking => t_cre_chk T | Savings => t_cre_sav T | BadKind => 0 end.

(* the part of upsertOffsets after the removal loop, for a valid account type *)
Definition add_offsets (T : otable) (o : offcfg) (b : batch) (es : list entry) (c : control) : batch :=
  let last := last_trace es in
  let damt := c_credit c in
  let camt := c_debit c in
  let dED := mkentry (deb_code T (o_kind o)) damt true (last + 1) 0 (o_rdfi o) in
  let cED := mkentry (cre_code T (o_kind o)) camt true (last + (if damt =? 0 then 1 else 2)) 0 (o_rdfi o) in
  let es1 := if damt =? 0 then es else es ++ [dED] in
  let es2 := if camt =? 0 then es1 else es1 ++ [cED] in
  let n1 := if damt =? 0 then c_count c else c_count c + 1 in
  let n2 := if camt =? 0 then n1 else n1 + 1 in
  let db := if damt =? 0 then c_debit c else c_debit c + damt in
  let cr := if camt =? 0 then c_credit c else c_credit c + camt in
  mkbatch (b_hdr_ok b) (b_odfi b) mixed (b_num b) es2
          (mkctl mixed (c_num c) n2 (hash es2) cr db) (b_off b).

Definition with_es_ctl (b : batch) (es : list entry) (c : control) : batch :=
  mkbatch (b_hdr_ok b) (b_odfi b) (b_svc b) (b_num b) es c (b_off b).

Definition upsert (T : otable) (b : batch) : res batch :=
  match b_off b with
  | None => Ret true b
  | Some o =>
    if negb (o_routing_ok o) then Ret false b
    else match remove_loop T (loop_fuel (b_entries b)) 0 (b_entries b) (b_ctl b) with
         | LPanic => Panic
         | LHang => Hang
         | LDone es c =>
             match o_kind o with
             | BadKind => Ret false (with_es_ctl b es c)
             | _ => Ret true (add_offsets T o b es c)
             end
         end
  end.

(* Batch.build, non-ADV branch, validateOpts == nil *)
Definition build (T : otable) (b : batch) : res batch :=
  if negb (b_hdr_ok b) then Ret false b
  else match b_entries b with
       | [] => Ret false b
       | _ =>
         let es := retrace (b_odfi b) 1 (b_entries b) in
         let c := mkctl (b_svc b) (b_num b) (count es) (hash es) (credits T es) (debits T es) in
         upsert T (with_es_ctl b es c)
       end.

Fixpoint iter_build (T : otable) (n : nat) (b : batch) : res batch :=
  match n with
  | O => Ret true b
  | S n' => match build T b with Ret true b' => iter_build T n' b' | x => x end
  end.

(* ------------------------------------------------------------------ File.Create *)

Record fctl := mkfctl {
  fc_batches : Z; fc_blocks : Z; fc_count : Z; fc_hash : Z; fc_debit : Z; fc_credit : Z }.

Record file := mkfile { f_hdr_ok : bool; f_batches : list batch; f_ctl : fctl }.

Definition set_num (b : batch) (n : Z) : batch :=
  mkbatch (b_hdr_ok b) (b_odfi b) (b_svc b) n (b_entries b)
          (mkctl (c_svc (b_ctl b)) n (c_count (b_ctl b)) (c_hash (b_ctl b)) (c_credit (b_ctl b)) (c_debit (b_ctl b)))
          (b_off b).

(* "create ascending batch numbers unless batch number has been provided": only numbers <= 1 are replaced *)
Fixpoint renumber (seq : Z) (bs : list batch) : list batch :=
  match bs with
  | [] => []
  | b :: r => (if b_num b <=? 1 then set_num b seq else b) :: renumber (seq + 1) r
  end.

Fixpoint sumb (f : batch -> Z) (bs : list batch) : Z :=
  match bs with [] => 0 | b :: r => f b + sumb f r end.

Definition file_control (bs : list batch) : fctl :=
  let recs := 2 + sumb (fun b => 2 + c_count (b_ctl b)) bs in
  mkfctl (Z.of_nat (length bs))
         (if Z.rem recs 10 =? 0 then Z.quot recs 10 else Z.quot recs 10 + 1)
         (sumb (fun b => c_count (b_ctl b)) bs)
         (Z.rem (sumb (fun b => c_hash (b_ctl b)) bs) P10)
         (sumb (fun b => c_debit (b_ctl b)) bs)
         (sumb (fun b => c_credit (b_ctl b)) bs).

Definition file_create (f : file) : res file :=
  if negb (f_hdr_ok f) then Ret false f
  else match f_batches f with
       | [] => Ret false f
       | _ => let bs := renumber 1 (f_batches f) in Ret true (mkfile (f_hdr_ok f) bs (file_control bs))
       end.

(* ------------------------------------------------------------------ histories *)

Inductive op := BatchCreate (i : nat) | AddEntry (i : nat) (e : entry) | FileCreate.

Fixpoint upd {A} (l : list A) (i : nat) (x : A) : list A :=
  match l, i with
  | [], _ => []
  | _ :: r, O => x :: r
  | y :: r, S j => y :: upd r j x
  end.

Definition add_entry (b : batch) (e : entry) : batch :=
  mkbatch (b_hdr_ok b) (b_odfi b) (b_svc b) (b_num b) (b_entries b ++ [e]) (b_ctl b) (b_off b).

Definition with_batches (f : file) (bs : list batch) : file := mkfile (f_hdr_ok f) bs (f_ctl f).

Definition step (T : otable) (o : op) (f : file) : res file :=
  match o with
  | FileCreate => file_create f
  | AddEntry i e =>
      match nth_error (f_batches f) i with
      | None => Ret true f
      | Some b => Ret true (with_batches f (upd (f_batches f) i (add_entry b e)))
      end
  | BatchCreate i =>
      match nth_error (f_batches f) i with
      | None => Ret true f
      | Some b =>
          match build T b with
          | Ret ok b' => Ret ok (with_batches f (upd (f_batches f) i b'))
          | Panic => Panic
          | Hang => Hang
          end
      end
  end.

(* a Go program that ignores returned errors and goes on; a panic or a hang ends it *)
Definition run (T : otable) (ops : list op) (f : file) : res file :=
  fold_left (fun acc o => match acc with Ret _ f' => step T o f' | x => x end) ops (Ret true f).

(* ------------------------------------------------------------------ checkers *)

Definition subset (a b : list Z) : bool := forallb (fun c => mem c b) a.
Definition disjoint (a b : list Z) : bool := forallb (fun c => negb (mem c b)) a.

Definition kind_ok (T : otable) (k : okind) : bool :=
  mem (cre_code T k) (t_rm_credit T) && negb (mem (deb_code T k) (t_credit T)) && mem (deb_code T k) (t_debit T).

(* what the theorems need of the regenerated table: the removal statement is
   [Entries[i+1:]] followed by [i--]; what the removal loop books against the credit
   total is counted as credit by calculateBatchAmounts; no code is in both lists;
   the offsets get a debit code resp. a credit code that the loop recognises; the two
   lists of calculateBatchAmounts are the NACHA credit and debit codes *)
(* the NACHA transaction codes: second digit 1..4 credit, 5..9 debit (loan accounts: 55, 56 only) *)
Definition nacha_credit : list Z := [21; 22; 23; 24; 31; 32; 33; 34; 41; 42; 43; 44; 51; 52; 53; 54].
Definition nacha_debit : list Z := [26; 27; 28; 29; 36; 37; 38; 39; 46; 47; 48; 49; 55; 56].
Definition same_set (a b : list Z) : bool := subset a b && subset b a.

Definition table_ok (T : otable) : bool :=
  negb (t_unknown T)
  && same_set (t_credit T) nacha_credit && same_set (t_debit T) nacha_debit
  && match t_tail T with TailSucc => true | _ => false end
  && t_redo T
  && subset (t_rm_credit T) (t_credit T)
  && disjoint (t_credit T) (t_debit T)
  && kind_ok T Checking && kind_ok T Savings.

(* an entry named OFFSET that the removal loop books the way calculateBatchAmounts
   counted it: no addenda, and either one of the loop's credit codes or a debit code *)
Definition wf_entryb (T : otable) (e : entry) : bool :=
  negb (e_off e)
  || ((e_addenda e =? 0)
      && (mem (e_code e) (t_rm_credit T)
          || (negb (mem (e_code e) (t_credit T)) && mem (e_code e) (t_debit T)))).

Definition wf_entries (T : otable) (es : list entry) : bool := forallb (wf_entryb T) es.

Definition nonoff (e : entry) : bool := negb (e_off e).

Definition ctl_okb (T : otable) (b : batch) : bool :=
  let c := b_ctl b in let es := b_entries b in
  (c_count c =? count es) && (c_hash c =? hash es) && (c_credit c =? credits T es)
  && (c_debit c =? debits T es) && (c_svc c =? b_svc b) && (c_num c =? b_num b).

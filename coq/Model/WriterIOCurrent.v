(* The policies the model is run with on this source tree (definitions only, so the
   extracted model still builds when an obligation about the table breaks).  They are
   stored evaluated, so the extraction does not drag the string-keyed table along. *)
From Coq Require Import String List NArith.
From ACH Require Import Bytes BufIO WriterIOTable WriterIO.

Definition current_wpolicy : wpolicy := Eval vm_compute in policy_of writer_sites writer_threshold.
Definition current_rpolicy : rpolicy := Eval vm_compute in rpolicy_of reader_facts.

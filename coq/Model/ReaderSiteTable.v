(* C06 (phase 5) — which site kind of the reader model (ReaderShape.rsite) stands for which
   dereference / index expression of reader.go.

   [reader_functions]: the methods of ach.Reader that ReaderShape.v transcribes.  Every site of the
   type-aware table regenerated from the source (Gen/OpSites.v) that lies in one of them and is not
   discharged by its type alone — a dereference of a possibly-nil pointer, an index the translator could
   not bound, anything it did not understand — must be listed in [reader_cover] with its number of
   occurrences and the site kind of the model that performs it; the safety of a site kind is
   ReaderShapeFacts.site_safe (from the named invariant clauses) and reader_inv (the clauses hold in
   every reachable state).  A new, removed or moved dereference in reader.go makes the obligations of
   C06ReaderObl.v false. *)
From Coq Require Import String List Bool Arith.
Import ListNotations.
From ACH Require Import PartialTable OpSiteTable ReaderShape.
Open Scope string_scope.

Definition reader_functions : list string := [
  "ach.Reader.Read";
  "ach.Reader.readLine";
  "ach.Reader.processFixedWidthFile";
  "ach.Reader.parseLine";
  "ach.Reader.parseBH";
  "ach.Reader.parseED";
  "ach.Reader.parseEDAddenda";
  "ach.Reader.parseFileHeader";
  "ach.Reader.parseBatchHeader";
  "ach.Reader.parseEntryDetail";
  "ach.Reader.parseAddenda";
  "ach.Reader.parseADVAddenda";
  "ach.Reader.parseBatchControl";
  "ach.Reader.parseFileControl";
  "ach.Reader.parseIATBatchHeader";
  "ach.Reader.parseIATEntryDetail";
  "ach.Reader.parseIATAddenda";
  "ach.Reader.switchIATAddenda";
  "ach.Reader.mandatoryOptionalIATAddenda";
  "ach.Reader.nocIATAddenda";
  "ach.Reader.returnIATAddenda";
  "ach.Reader.addCurrentBatch";
  "ach.Reader.addIATCurrentBatch";
  "ach.setOffsetCategory" ].

Record rcover := mkrcover { rc_func : string; rc_path : string; rc_count : nat; rc_site : rsite }.

Definition reader_cover : list rcover := [
  mkrcover "ach.Reader.parseEDAddenda" "r.currentBatch.GetHeader()" 1 SCurHeader;
  mkrcover "ach.Reader.parseEntryDetail" "r.currentBatch.GetHeader()" 1 SCurHeader;
  mkrcover "ach.Reader.parseAddenda" "r.currentBatch.GetHeader()" 1 SCurHeader;
  mkrcover "ach.Reader.parseAddenda" "r.currentBatch.GetEntries()" 13 SCurLastEntry;
  mkrcover "ach.Reader.parseADVAddenda" "r.currentBatch.GetADVEntries()" 3 SCurLastAdvEntry;
  mkrcover "ach.Reader.parseBatchControl" "r.currentBatch.GetHeader()" 1 SCurHeader;
  mkrcover "ach.Reader.parseBatchControl" "r.currentBatch.GetADVControl()" 2 SCurAdvControl;
  mkrcover "ach.Reader.parseBatchControl" "r.currentBatch.GetControl()" 2 SCurControl;
  mkrcover "ach.Reader.parseBatchControl" "r.IATCurrentBatch.GetControl()" 2 SIatControl;
  mkrcover "ach.Reader.parseIATAddenda" "r.IATCurrentBatch.GetEntries()" 1 SIatLastEntry;
  mkrcover "ach.Reader.mandatoryOptionalIATAddenda" "r.IATCurrentBatch.Entries" 9 SIatLastEntry;
  mkrcover "ach.Reader.nocIATAddenda" "r.IATCurrentBatch.Entries" 2 SIatLastEntry;
  mkrcover "ach.Reader.returnIATAddenda" "r.IATCurrentBatch.Entries" 2 SIatLastEntry ].

Definition site_name (k : rsite) : string :=
  match k with
  | SCurHeader => "SCurHeader" | SCurControl => "SCurControl" | SCurAdvControl => "SCurAdvControl"
  | SCurLastEntry => "SCurLastEntry" | SCurLastAdvEntry => "SCurLastAdvEntry"
  | SIatControl => "SIatControl" | SIatLastEntry => "SIatLastEntry"
  end.

(* a site of the table that its type / syntactic class does not discharge *)
Definition needs_invariant (s : osite) : bool :=
  is_ptr s
  || (String.eqb (o_kind s) "index" && (String.eqb (o_class s) "other" || String.eqb (o_class s) "last"))
  || String.eqb (o_kind s) "unknown".

Definition in_funcs (funcs : list string) (s : osite) : bool := existsb (String.eqb (o_func s)) funcs.

Definition rcover_matches (s : osite) (c : rcover) : bool :=
  String.eqb (rc_func c) (o_func s) && String.eqb (rc_path c) (o_path s).

(* every such site inside a transcribed reader function is performed by a site kind of the model … *)
Definition reader_covered_ok (funcs : list string) (cv : list rcover) (t : list osite) : bool :=
  forallb (fun s => negb (in_funcs funcs s) || negb (needs_invariant s)
                    || (negb (String.eqb (o_kind s) "unknown") && existsb (rcover_matches s) cv)) t.

Definition count_rsites (f p : string) (t : list osite) : nat :=
  length (filter (fun s => needs_invariant s && String.eqb (o_func s) f && String.eqb (o_path s) p) t).

(* … with exactly the recorded number of occurrences, in a function of the list *)
Definition reader_cover_exact (funcs : list string) (cv : list rcover) (t : list osite) : bool :=
  forallb (fun c => Nat.eqb (count_rsites (rc_func c) (rc_path c) t) (rc_count c) && Nat.ltb 0 (rc_count c)
                    && existsb (String.eqb (rc_func c)) funcs) cv.

(* the entries of PartialAccounted.accounted whose reason is "reader-model: <site kind> …" name a site of
   the table that needs the invariant, and the site kind the cover gives it *)
Definition acct_reader_ok (cv : list rcover) (t : list osite) (a : acct) : bool :=
  if prefix "reader-model:" (a_why a) then
    let ss := filter (fun s => String.eqb (o_func s) (a_func a) && String.eqb (o_text s) (a_text a)) t in
    negb (match ss with [] => true | _ => false end)
    && forallb (fun s => needs_invariant s
                         && existsb (fun c => rcover_matches s c
                                              && prefix ("reader-model: " ++ site_name (rc_site c) ++ " ") (a_why a)) cv) ss
  else true.

Definition reader_accounted_ok (cv : list rcover) (accounted : list acct) (t : list osite) : bool :=
  forallb (acct_reader_ok cv t) accounted.

(* how many sites of the table the cover accounts for *)
Definition cover_total (cv : list rcover) : nat := fold_right (fun c n => rc_count c + n) 0 cv.

(* soundness of the coverage checker *)
Theorem reader_covered_sound funcs cv t : reader_covered_ok funcs cv t = true ->
  forall s, In s t -> In (o_func s) funcs -> needs_invariant s = true ->
  exists c, In c cv /\ rc_func c = o_func s /\ rc_path c = o_path s.
Proof.
  intros H s Hs Hf Hn. unfold reader_covered_ok in H. rewrite forallb_forall in H. specialize (H s Hs).
  assert (Hin : in_funcs funcs s = true).
  { apply existsb_exists. exists (o_func s). split; [exact Hf|apply String.eqb_refl]. }
  rewrite Hin, Hn in H. cbn [negb orb] in H. apply andb_prop in H as [_ H].
  apply existsb_exists in H as (c & Hc & Hm). unfold rcover_matches in Hm. apply andb_prop in Hm as [H1 H2].
  apply String.eqb_eq in H1, H2. exists c. auto.
Qed.

(* C04, truncation at EVERY byte offset of the written text for files whose record
   lines are arbitrary well-formed UTF-8 (94 characters each): the lift of
   TruncBytes.truncation_bytes from ASCII records to multi-byte characters.

   A cut inside a multi-byte character leaves 1..3 bytes of it; bufio.ScanRunes yields
   one U+FFFD for each (Utf8Prefix.chars_firstn).  The reader then sees the c complete
   characters of the line followed by j U+FFFD characters — one short line that is
   padded, or, when c + j > 94, a full line and a second line holding the remaining
   U+FFFD characters (an unknown record type).  The record dispatch of the result:
     - before the file control record: no control record, no file;
     - inside the file control record: the file with its control record replaced by
       cut_ctl ctl c j (or no file, when a second line spilled over);
     - inside the 9-filler: as in the ASCII case (the filler is ASCII). *)
From Coq Require Import List Lia ZArith Bool NArith.
From ACH Require Import TamperText TamperTextFacts FramingFacts FramingBytes FileStructFacts TruncFacts TamperFacts TruncBytes.
From ACH Require Import Utf8Enc RuneFacts TruncUtf8 Utf8Prefix TruncCtl NumFacts.
Import ListNotations.
Local Open Scope nat_scope.

(* a record line as the writer produces it: 94 characters of well-formed UTF-8 *)
Definition uline (l : bytes) : Prop :=
  wf_utf8 l = true /\ rune_count l = 94 /\ no_nl_bytes l = true /\ blank_line l = false.
Definition utf8_records (f : fileS) : Prop := Forall uline (record_lines f).

Lemma good_uline l : good_line l -> uline l.
Proof.
  intros (Hl & Ha & Hn & Hb). repeat split; try assumption.
  - now apply wf_ascii.
  - now rewrite (rune_count_ascii l Ha).
Qed.

Lemma ascii_utf8_records f : ascii_records f -> utf8_records f.
Proof. intros H. eapply Forall_impl; [|exact H]. exact good_uline. Qed.

(* ------------------------------------------------------------------ *)
(* characters of well-formed lines                                       *)

Lemma uline_chars_nl l : uline l -> Forall not_nl (chars l).
Proof.
  intros (Hw & _ & Hn & _). apply Forall_forall. intros c Hc. unfold not_nl.
  destruct (is_nl c) eqn:E; [|reflexivity]. exfalso.
  assert (Hin : forall b, In b c -> In b l).
  { intros b Hb. rewrite <- (chars_wf_concat l Hw). apply in_concat. now exists c. }
  unfold no_nl_bytes in Hn. rewrite forallb_forall in Hn.
  unfold is_nl in E. apply orb_prop in E as [E|E]; apply bytes_eqb_eq in E; subst c.
  - specialize (Hn 10%N (Hin 10%N (or_introl eq_refl))). discriminate Hn.
  - specialize (Hn 13%N (Hin 13%N (or_introl eq_refl))). cbn in Hn. discriminate Hn.
Qed.

Lemma uline_chars_length l : uline l -> length (chars l) = 94.
Proof. intros (_ & H & _). now rewrite chars_length. Qed.

Lemma uline_full l : uline l -> full (chars l).
Proof. intros H. split; [now apply uline_chars_length|now apply uline_chars_nl]. Qed.

Lemma U_not_nl : not_nl U_b.
Proof. reflexivity. Qed.

Lemma le_ascii le : le_ok le -> asciib le = true.
Proof. intros [->| ->]; reflexivity. Qed.

Lemma frame_uline l le rest n : uline l -> le_ok le ->
  frame (chars (l ++ le) ++ rest) [] 0 n = (S n, l) :: frame rest [] 0 (S n).
Proof.
  intros Hu Hle. pose proof Hu as (Hw & _ & _ & Hb).
  rewrite (chars_app_wf l le Hw), (chars_ascii le (le_ascii le Hle)), <- app_assoc.
  rewrite (frame_full _ _ _ (uline_full l Hu)), (chars_wf_concat l Hw). unfold emit. rewrite Hb.
  now rewrite (frame_skip_le le rest (S n) Hle).
Qed.

Lemma wf_line_le l le : uline l -> le_ok le -> wf_utf8 (l ++ le) = true.
Proof. intros (Hw & _) Hle. apply wf_app; [exact Hw|apply wf_ascii, le_ascii, Hle]. Qed.

Lemma wf_text_of le ls : le_ok le -> Forall uline ls -> wf_utf8 (text_of le ls) = true.
Proof.
  intros Hle. induction 1 as [|l ls Hl _ IH]; [reflexivity|].
  change (text_of le (l :: ls)) with ((l ++ le) ++ text_of le ls). apply wf_app; [now apply wf_line_le|exact IH].
Qed.

Lemma frame_ulines le ls : le_ok le -> Forall uline ls -> forall rest n,
  exists n', map snd (frame (chars (text_of le ls) ++ rest) [] 0 n) = ls ++ map snd (frame rest [] 0 n').
Proof.
  intros Hle. induction 1 as [|l ls Hl _ IH]; intros rest n; [now exists n|].
  change (text_of le (l :: ls)) with ((l ++ le) ++ text_of le ls).
  rewrite (chars_app_wf _ _ (wf_line_le l le Hl Hle)), <- app_assoc.
  rewrite (frame_uline l le _ n Hl Hle). cbn [map snd app].
  destruct (IH rest (S n)) as [n' E]. exists n'. now rewrite E.
Qed.

(* ------------------------------------------------------------------ *)
(* the cut line                                                          *)

Lemma concat_repeat_U k : concat (repeat U_b k) = encode (repeat rune_error k).
Proof. induction k as [|k IH]; [reflexivity|]. cbn [repeat concat]. now rewrite IH, encode_cons. Qed.

Lemma runes_length s : length (runes s) = rune_count s.
Proof. unfold runes, rune_count. apply map_length. Qed.

Lemma cut_chars_encode l c j : wf_utf8 l = true ->
  cut_chars l c j = encode (firstn c (runes l) ++ repeat rune_error j).
Proof.
  intros Hw. unfold cut_chars. rewrite (chars_wf l Hw), firstn_map, concat_map_encode, concat_repeat_U.
  now rewrite encode_app.
Qed.

Lemma cut_chars_rune_count l c j : wf_utf8 l = true -> c <= rune_count l -> rune_count (cut_chars l c j) = c + j.
Proof.
  intros Hw Hc. rewrite (cut_chars_encode l c j Hw), rune_count_encode, app_length, firstn_length, repeat_length, runes_length. lia.
Qed.

Lemma cut_chars_all l : uline l -> cut_chars l 94 0 = l.
Proof.
  intros Hu. pose proof Hu as (Hw & _). unfold cut_chars. cbn [repeat concat]. rewrite app_nil_r.
  rewrite firstn_all2 by (rewrite (uline_chars_length l Hu); lia). now apply chars_wf_concat.
Qed.

Lemma space_rune_error : space_rune rune_error = false.
Proof. reflexivity. Qed.

Lemma cut_chars_not_blank l c j : wf_utf8 l = true -> 0 < j -> blank_line (cut_chars l c j) = false.
Proof.
  intros Hw Hj. rewrite (cut_chars_encode l c j Hw). unfold blank_line. rewrite runes_encode, map_app, forallb_app.
  destruct j as [|j]; [lia|]. cbn [repeat map forallb].
  change (Utf8Enc.norm rune_error) with rune_error. rewrite space_rune_error. cbn [andb]. apply andb_false_r.
Qed.

Lemma repeat_U_not_blank k : 0 < k -> blank_line (concat (repeat U_b k)) = false.
Proof.
  intros Hk. rewrite concat_repeat_U. unfold blank_line. rewrite runes_encode.
  destruct k as [|k]; [lia|]. cbn [repeat map forallb]. change (Utf8Enc.norm rune_error) with rune_error. now rewrite space_rune_error.
Qed.

Lemma repeat_U_rune_count k : rune_count (concat (repeat U_b k)) = k.
Proof. now rewrite concat_repeat_U, rune_count_encode, repeat_length. Qed.

Lemma norm_line_pad94 x : rune_count x <= 94 -> norm_line x = NLine (pad94 x).
Proof.
  intros H. unfold norm_line, pad94. cbv zeta.
  destruct (Nat.eqb_spec (rune_count x) 94) as [E|E].
  - rewrite E. cbn [Nat.sub repeat]. now rewrite app_nil_r.
  - destruct (Nat.ltb_spec 94 (rune_count x)); [lia|reflexivity].
Qed.

Lemma pad94_full x : rune_count x = 94 -> pad94 x = x.
Proof. intros H. unfold pad94. rewrite H. cbn [Nat.sub repeat]. apply app_nil_r. Qed.

Lemma tail_u_full l : uline l -> tail_u l 94 0 = [l].
Proof.
  intros Hu. unfold tail_u. cbn [Nat.add Nat.eqb Nat.leb]. rewrite (cut_chars_all l Hu).
  destruct Hu as (_ & H & _). now rewrite (pad94_full l H).
Qed.

(* ------------------------------------------------------------------ *)
(* framing of the characters of a cut line                               *)

Lemma firstn_chars_length l c : uline l -> c <= 94 -> length (firstn c (chars l)) = c.
Proof. intros Hu Hc. rewrite firstn_length, (uline_chars_length l Hu). lia. Qed.

Lemma Forall_repeat {A} (P : A -> Prop) x k : P x -> Forall P (repeat x k).
Proof. intros H. apply Forall_forall. intros y Hy. apply repeat_spec in Hy. now subst. Qed.

Lemma cut_not_nl l c j : uline l -> Forall not_nl (firstn c (chars l) ++ repeat U_b j).
Proof.
  intros Hu. apply Forall_app. split; [apply Forall_firstn, uline_chars_nl, Hu|apply Forall_repeat, U_not_nl].
Qed.

Lemma frame_eof cs n : Forall not_nl cs -> 0 < length cs < 94 -> frame cs [] 0 n = [(n, concat cs)].
Proof.
  intros Hn Hl. pose proof (frame_accumulate cs [] [] 0 n Hn ltac:(lia)) as E. rewrite app_nil_r in E. rewrite E.
  cbn [frame app Nat.add]. destruct (Nat.ltb_spec 0 (length cs)); [reflexivity|lia].
Qed.

Lemma frame_tail_u l c j n : uline l -> c <= 94 -> j <= 3 -> (0 < j -> c < 94) ->
  map (fun x => norm_line (snd x)) (frame (firstn c (chars l) ++ repeat U_b j) [] 0 n) = map NLine (tail_u l c j).
Proof.
  intros Hu Hc Hj Hcj. pose proof Hu as (Hw & H94 & _ & Hnb).
  set (cs := firstn c (chars l) ++ repeat U_b j).
  assert (Hlen : length cs = c + j) by (unfold cs; now rewrite app_length, firstn_chars_length, repeat_length).
  assert (Hnl : Forall not_nl cs) by now apply cut_not_nl.
  assert (Hcat : concat cs = cut_chars l c j) by (unfold cs, cut_chars; now rewrite concat_app).
  unfold tail_u.
  destruct (Nat.eqb_spec (c + j) 0) as [E0|E0].
  { destruct cs; [reflexivity|cbn [length] in Hlen; lia]. }
  destruct (Nat.leb_spec (c + j) 94) as [Hle|Hgt].
  - assert (Hrc : rune_count (cut_chars l c j) <= 94) by (rewrite cut_chars_rune_count by (assumption || lia); lia).
    destruct (Nat.eq_dec (c + j) 94) as [E94|E94].
    + assert (Hfull : full cs) by (split; [lia|exact Hnl]).
      rewrite <- (app_nil_r cs), (frame_full cs [] n Hfull), Hcat. unfold emit.
      assert (Hb : blank_line (cut_chars l c j) = false).
      { destruct (Nat.eq_dec j 0) as [->|Hj0].
        - replace c with 94 by lia. now rewrite (cut_chars_all l Hu).
        - apply cut_chars_not_blank; [assumption|lia]. }
      rewrite Hb. cbn [frame Nat.ltb Nat.leb map snd]. now rewrite (norm_line_pad94 _ Hrc).
    + rewrite (frame_eof cs n Hnl) by lia. cbn [map snd]. now rewrite Hcat, (norm_line_pad94 _ Hrc).
  - (* a full line and a second line of U+FFFD characters *)
    assert (Hc94 : c < 94) by (destruct j; [lia|apply Hcj; lia]).
    assert (Hsplit : cs = (firstn c (chars l) ++ repeat U_b (94 - c)) ++ repeat U_b (c + j - 94)).
    { unfold cs. rewrite <- app_assoc, <- repeat_app. do 2 f_equal. lia. }
    assert (Hfull : full (firstn c (chars l) ++ repeat U_b (94 - c))).
    { split; [rewrite app_length, firstn_chars_length, repeat_length by assumption; lia|now apply cut_not_nl]. }
    rewrite Hsplit, (frame_full _ _ n Hfull), concat_app. fold (cut_chars l c (94 - c)). unfold emit.
    rewrite (cut_chars_not_blank l c (94 - c) Hw) by lia.
    rewrite (frame_eof (repeat U_b (c + j - 94)) (S n)) by (try apply Forall_repeat, U_not_nl; rewrite repeat_length; lia).
    cbn [map snd]. rewrite !norm_line_pad94; [reflexivity| |].
    + rewrite repeat_U_rune_count. lia.
    + rewrite cut_chars_rune_count by (assumption || lia). lia.
Qed.

(* the lines the reader sees for  text_of le ls ++ p  when p is a strict prefix of l ++ le *)
Lemma frame_prefix_u le ls l p q n : le_ok le -> Forall uline ls -> uline l ->
  l ++ le = p ++ q -> q <> [] ->
  exists c j, c <= 94 /\ j <= 3 /\ (0 < j -> c < 94 /\ j < length (nth c (chars l) [])) /\
    map (fun x => norm_line (snd x)) (frame (chars (text_of le ls ++ p)) [] 0 n) = map NLine (ls ++ tail_u l c j).
Proof.
  intros Hle Hls Hl E Hq. pose proof Hl as (Hw & H94 & Hnl & Hnb).
  assert (Hnorm : forall x, uline x -> norm_line x = NLine x).
  { intros x (_ & Hx & _). unfold norm_line. cbv zeta. now rewrite Hx. }
  assert (Hmap : forall xs, Forall uline xs -> map norm_line xs = map NLine xs).
  { induction 1 as [|x xs Hx _ IH]; [reflexivity|]. cbn [map]. now rewrite (Hnorm x Hx), IH. }
  rewrite (chars_app_wf _ p (wf_text_of le ls Hle Hls)).
  destruct (frame_ulines le ls Hle Hls (chars p) n) as [n' Efr].
  assert (Hred : forall tl, map (fun x => norm_line (snd x)) (frame (chars p) [] 0 n') = map NLine tl ->
            map (fun x => norm_line (snd x)) (frame (chars (text_of le ls) ++ chars p) [] 0 n) = map NLine (ls ++ tl)).
  { intros tl Ht. rewrite <- (map_map snd norm_line) in *. rewrite Efr, !map_app, (Hmap ls Hls), Ht. reflexivity. }
  assert (Hp : p = firstn (length p) (l ++ le)) by (rewrite E, firstn_app, Nat.sub_diag, firstn_all; cbn; now rewrite app_nil_r).
  destruct (Nat.lt_ge_cases (length p) (length l)) as [Hlt|Hge].
  - (* inside the line *)
    assert (Hp' : p = firstn (length p) l).
    { rewrite Hp at 1. rewrite firstn_app. replace (length p - length l) with 0 by lia. cbn [firstn]. now rewrite app_nil_r. }
    destruct (split_at (chars l) (length p)) as [c j] eqn:Es.
    destruct (chars_firstn l (length p) c j Hw ltac:(lia) Es) as (C1 & C2 & C3 & C4 & _).
    rewrite H94 in C3, C4. exists c, j. split; [exact C3|]. split; [exact C2|]. split; [exact C4|].
    apply Hred. rewrite Hp', C1. apply frame_tail_u; try assumption. intros Hj. now apply C4.
  - (* the whole line, and possibly the CR of a CRLF *)
    assert (Hsplit : p = l ++ firstn (length p - length l) le).
    { rewrite Hp at 1. rewrite firstn_app, firstn_all2 by lia. reflexivity. }
    set (x := firstn (length p - length l) le) in *.
    assert (Hx : le = x ++ q).
    { rewrite Hsplit, <- app_assoc in E. now apply app_inv_head in E. }
    exists 94, 0. split; [lia|]. split; [lia|]. split; [lia|].
    apply Hred. rewrite (tail_u_full l Hl). rewrite Hsplit, (chars_app_wf l x Hw).
    assert (Hxa : asciib x = true).
    { pose proof (le_ascii le Hle) as A. rewrite Hx, asciib_app in A. now apply andb_prop in A as [A _]. }
    rewrite (chars_ascii x Hxa), (frame_full _ _ _ (uline_full l Hl)), (chars_wf_concat l Hw). unfold emit. rewrite Hnb.
    destruct (le_prefix le x q Hle Hx Hq) as [->| ->].
    + cbn [S1 map frame Nat.ltb Nat.leb snd]. now rewrite (Hnorm l Hl).
    + rewrite frame_tail_cr. cbn [map snd]. now rewrite (Hnorm l Hl).
Qed.

(* reading a truncated text = dispatching the whole lines before the cut and the cut line *)
Theorem read_text_prefix_u le ls k : le_ok le -> Forall uline ls -> k < length (text_of le ls) ->
  exists i c j, i < length ls /\ c <= 94 /\ j <= 3 /\
    (0 < j -> c < 94 /\ j < length (nth c (chars (nth i ls [])) [])) /\
    read_text (firstn k (text_of le ls)) = read_struct (firstn i ls ++ tail_u (nth i ls []) c j).
Proof.
  intros Hle Hls Hk. destruct (firstn_text le ls k Hk) as (i & p & q & Hi & E & Hpq & Hq).
  assert (Hli : uline (nth i ls [])) by (rewrite Forall_forall in Hls; apply Hls, nth_In, Hi).
  assert (Hfi : Forall uline (firstn i ls)) by now apply Forall_firstn.
  destruct (frame_prefix_u le (firstn i ls) _ p q 0 Hle Hfi Hli Hpq Hq) as (c & j & Hc & Hj & Hcj & Efr).
  exists i, c, j. split; [exact Hi|]. split; [exact Hc|]. split; [exact Hj|]. split; [exact Hcj|].
  unfold read_text, read_lines. rewrite E, Efr. now rewrite all_lines_NLine.
Qed.

(* ------------------------------------------------------------------ *)
(* first bytes of the cut lines                                          *)

Lemma hd_app_ne {A} (d : A) (a b : list A) : a <> [] -> hd d (a ++ b) = hd d a.
Proof. destruct a; [congruence|reflexivity]. Qed.

Lemma encode_rune_ne r : encode_rune r <> [].
Proof.
  unfold encode_rune.
  repeat match goal with |- context [if ?c then _ else _] => destruct c end; discriminate.
Qed.

Lemma chars_ne s : wf_utf8 s = true -> Forall (fun c => c <> []) (chars s).
Proof.
  intros Hw. rewrite (chars_wf s Hw). apply Forall_forall. intros c Hc. apply in_map_iff in Hc as (r & <- & _).
  apply encode_rune_ne.
Qed.

(* the complete characters are a byte prefix of the line *)
Lemma concat_firstn_chars l c : wf_utf8 l = true -> c <= rune_count l ->
  exists n, c <= n /\ concat (firstn c (chars l)) = firstn n l.
Proof.
  intros Hw Hc. exists (length (concat (firstn c (chars l)))). split.
  - assert (G : forall cs : list char, Forall (fun x => x <> []) cs -> length cs <= length (concat cs)).
    { induction 1 as [|x cs Hx _ IH]; [cbn; lia|]. cbn [concat length]. rewrite app_length.
      destruct x; [congruence|cbn [length]; lia]. }
    pose proof (G (firstn c (chars l)) (Forall_firstn _ c _ (chars_ne l Hw))) as B.
    rewrite firstn_length, chars_length in B. lia.
  - set (a := concat (firstn c (chars l))).
    assert (El : a ++ concat (skipn c (chars l)) = l).
    { unfold a. rewrite <- concat_app, firstn_skipn. now apply chars_wf_concat. }
    transitivity (firstn (length a) (a ++ concat (skipn c (chars l)))); [|now rewrite El].
    rewrite firstn_app, Nat.sub_diag, firstn_all. cbn [firstn]. now rewrite app_nil_r.
Qed.

Lemma rtype_cut_u l c j : uline l -> 1 <= c <= 94 -> rtype (pad94 (cut_chars l c j)) = rtype l.
Proof.
  intros Hu Hc. pose proof Hu as (Hw & H94 & _).
  destruct (concat_firstn_chars l c Hw ltac:(lia)) as (n & Hn & E).
  unfold rtype, pad94, cut_chars. rewrite E.
  assert (Hl : l <> []) by (intros ->; cbn in H94; discriminate).
  destruct l as [|b l']; [congruence|]. destruct n as [|n]; [lia|]. reflexivity.
Qed.

Lemma rtype_cut_u0 l j : 0 < j -> rtype (pad94 (cut_chars l 0 j)) = 239%N.
Proof. intros Hj. destruct j as [|j]; [lia|]. reflexivity. Qed.

Lemma rtype_U_line k : 0 < k -> rtype (pad94 (concat (repeat U_b k))) = 239%N.
Proof. intros Hk. destruct k as [|k]; [lia|]. reflexivity. Qed.

(* no line of the tail of a record that is not a file control is a file control *)
Lemma tail_u_not_ctl l c j : uline l -> c <= 94 -> rtype l <> T9 ->
  Forall (fun x => rtype x <> T9) (tail_u l c j).
Proof.
  intros Hu Hc Ht. unfold tail_u.
  destruct (Nat.eqb_spec (c + j) 0) as [E0|E0]; [constructor|].
  assert (H239 : 239%N <> T9) by discriminate.
  destruct (Nat.leb_spec (c + j) 94) as [Hle|Hgt].
  - constructor; [|constructor]. destruct (Nat.eq_dec c 0) as [->|Hc0].
    + rewrite rtype_cut_u0 by lia. exact H239.
    + rewrite rtype_cut_u by (assumption || lia). exact Ht.
  - constructor; [|constructor; [|constructor]].
    + destruct (Nat.eq_dec c 0) as [->|Hc0].
      * rewrite rtype_cut_u0 by lia. exact H239.
      * rewrite rtype_cut_u by (assumption || lia). exact Ht.
    + rewrite rtype_U_line by lia. exact H239.
Qed.

Lemma starts99_firstn2 x y n : 2 <= n -> 2 <= length x -> starts99 (firstn n x ++ y) = starts99 x.
Proof.
  intros Hn Hx. destruct x as [|a [|b x]]; cbn [length] in Hx; try lia.
  destruct n as [|[|n]]; try lia. reflexivity.
Qed.

(* a control line starts with the single character '9' *)
Lemma ctl_first_char l : rtype l = T9 -> exists t, l = T9 :: t /\ chars l = [T9] :: chars t.
Proof.
  intros H. destruct l as [|b t]; [discriminate|]. unfold rtype in H. cbn [hd] in H. subst b.
  exists t. split; [reflexivity|]. unfold chars. rewrite chunks_1 by (unfold T9; lia). reflexivity.
Qed.

Lemma starts99_cut_u l c j : uline l -> rtype l = T9 -> starts99 l = false -> 1 <= c <= 94 -> c + j <= 94 ->
  starts99 (pad94 (cut_chars l c j)) = false.
Proof.
  intros Hu Ht H99 Hc Hcj. pose proof Hu as (Hw & H94 & _).
  destruct (Nat.eq_dec c 1) as [->|Hc1].
  - destruct (ctl_first_char l Ht) as (t & -> & Ec). unfold pad94, cut_chars. rewrite Ec.
    cbn [firstn concat app]. destruct j as [|j].
    + cbn [repeat concat app].
      assert (R : rune_count [T9] = 1) by reflexivity. rewrite R. reflexivity.
    + reflexivity.
  - destruct (concat_firstn_chars l c Hw ltac:(lia)) as (n & Hn & E).
    unfold pad94, cut_chars. rewrite E, <- app_assoc.
    rewrite starts99_firstn2; [exact H99|lia|].
    pose proof (rune_count_le l). lia.
Qed.

(* ------------------------------------------------------------------ *)
(* record dispatch of the truncated line list                            *)

Lemma tail_u_ascii l c : asciib l = true -> length l = 94 -> c <= 94 -> tail_u l c 0 = tail_of l c.
Proof.
  intros Ha Hl Hc. unfold tail_u, tail_of. rewrite Nat.add_0_r.
  destruct (Nat.eqb_spec c 0) as [E0|E0]; [reflexivity|].
  destruct (Nat.leb_spec c 94); [|lia]. f_equal.
  unfold pad94, cut_chars, cut_line. cbn [repeat concat]. rewrite app_nil_r.
  rewrite (chars_ascii l Ha). unfold S1. rewrite firstn_map. fold (S1 (firstn c l)). rewrite concat_S1.
  rewrite (rune_count_ascii _ (asciib_firstn c l Ha)), firstn_length. do 2 f_equal. lia.
Qed.

Lemma rstep_unknown s x : rtype x = 239%N -> rstep (Some s) x = None.
Proof. intros H. unfold rstep. rewrite H. reflexivity. Qed.

Section DispatchU.
Variable f : fileS.
Hypothesis Htyped : file_typed f = true.
Hypothesis H99 : starts99 (f_ctl f) = false.
Hypothesis Hu : Forall uline (record_lines f).

Let body := f_hdr f :: flat_map batch_lines (f_batches f).
Let m := length body.

Lemma record_lines_body_u : record_lines f = body ++ [f_ctl f].
Proof. reflexivity. Qed.

Lemma length_record_lines_u : length (record_lines f) = S m.
Proof. rewrite record_lines_body_u, app_length. cbn. unfold m. lia. Qed.

Lemma ctl_T9_u : rtype (f_ctl f) = T9.
Proof. unfold file_typed in Htyped. apply andb_prop in Htyped as [_ H]. now apply N.eqb_eq in H. Qed.

Lemma uline_ctl : uline (f_ctl f).
Proof. rewrite Forall_forall in Hu. apply Hu. rewrite record_lines_body_u. apply in_or_app. right. now left. Qed.

Lemma typed_with_ctl ctl' : rtype ctl' = T9 -> file_typed (with_ctl f ctl') = true.
Proof.
  intros H. unfold file_typed in *. cbn [with_ctl f_hdr f_batches f_ctl]. apply andb_prop in Htyped as [H12 _].
  rewrite H12, H. reflexivity.
Qed.

Theorem dispatch_truncated_u i c j : i < length (physical_lines f) -> c <= 94 -> j <= 3 ->
  (0 < j -> c < 94 /\ j < length (nth c (chars (nth i (physical_lines f) [])) [])) ->
  let r := read_struct (firstn i (physical_lines f) ++ tail_u (nth i (physical_lines f) []) c j) in
  r = None \/ r = Some f \/
  (i = m /\ 1 <= c < 94 /\ c + j <= 94 /\ r = Some (with_ctl f (cut_ctl (f_ctl f) c j))).
Proof.
  intros Hi Hc Hj Hcj r.
  destruct (Nat.eq_dec (c + j) 0) as [E0|E0].
  - (* the cut is at a line boundary *)
    assert (Et : tail_u (nth i (physical_lines f) []) c j = []) by (unfold tail_u; now rewrite E0).
    subst r. rewrite Et, app_nil_r.
    destruct (Nat.le_gt_cases (length (record_lines f)) i) as [Hge|Hlt].
    + right. left. now apply truncated_filler_same.
    + left. unfold physical_lines. rewrite firstn_app. replace (i - length (record_lines f)) with 0 by lia.
      cbn [firstn]. rewrite app_nil_r. now apply truncated_lines_rejected.
  - destruct (Nat.lt_trichotomy i m) as [Hlt|[Heq|Hgt]].
    + (* inside a record before the file control: no control record at all *)
      left. subst r. apply no_ctl_no_file.
      assert (Hb : Forall (fun l => rtype l <> T9) body) by now apply body_not_ctl.
      assert (Hnth : nth i (physical_lines f) [] = nth i body []).
      { unfold physical_lines. rewrite record_lines_body_u, <- app_assoc, app_nth1 by (fold m; lia). reflexivity. }
      assert (Hfirst : firstn i (physical_lines f) = firstn i body).
      { unfold physical_lines. rewrite record_lines_body_u, <- app_assoc, firstn_app. fold m.
        replace (i - m) with 0 by lia. cbn [firstn]. now rewrite app_nil_r. }
      rewrite Hnth, Hfirst. apply Forall_app. split; [now apply Forall_firstn|].
      assert (Hin : In (nth i body []) body) by (apply nth_In; fold m; lia).
      apply tail_u_not_ctl; [|exact Hc|].
      * rewrite Forall_forall in Hu. apply Hu. rewrite record_lines_body_u. apply in_or_app. now left.
      * rewrite Forall_forall in Hb. now apply Hb.
    + (* inside the file control record *)
      assert (Hnth : nth i (physical_lines f) [] = f_ctl f).
      { unfold physical_lines. rewrite record_lines_body_u, <- app_assoc, app_nth2 by (fold m; lia). fold m.
        rewrite Heq, Nat.sub_diag. reflexivity. }
      assert (Hfirst : firstn i (physical_lines f) = body).
      { unfold physical_lines. rewrite record_lines_body_u, <- app_assoc, firstn_app. fold m.
        rewrite Heq, Nat.sub_diag. cbn [firstn]. rewrite app_nil_r. unfold m. apply firstn_all. }
      rewrite Hnth in Hcj.
      destruct (ctl_first_char (f_ctl f) ctl_T9_u) as (t & Et & Ec).
      assert (Hc1 : 1 <= c).
      { destruct (Nat.eq_dec c 0) as [->|]; [|lia]. exfalso. destruct (Hcj ltac:(lia)) as [_ B].
        rewrite Ec in B. cbn [nth length] in B. lia. }
      unfold tail_u in r. destruct (Nat.eqb_spec (c + j) 0) as [|_]; [lia|].
      destruct (Nat.leb_spec (c + j) 94) as [Hle|Hgt].
      * set (ctl' := pad94 (cut_chars (f_ctl f) c j)) in *.
        assert (Hr : r = read_struct (record_lines (with_ctl f ctl') ++ repeat nines 0)).
        { subst r. rewrite Hnth, Hfirst. cbn [repeat]. now rewrite app_nil_r. }
        assert (Ht' : file_typed (with_ctl f ctl') = true).
        { apply typed_with_ctl. unfold ctl'. rewrite rtype_cut_u by (try apply uline_ctl; lia). apply ctl_T9_u. }
        assert (H99' : starts99 (f_ctl (with_ctl f ctl')) = false).
        { cbn [with_ctl f_ctl]. unfold ctl'. apply starts99_cut_u; try assumption; try lia; [apply uline_ctl|apply ctl_T9_u]. }
        rewrite (read_struct_written _ 0 Ht' H99') in Hr.
        destruct (Nat.eq_dec c 94) as [->|Hc94].
        -- right. left. rewrite Hr. unfold ctl'. replace j with 0 by lia. rewrite (cut_chars_all _ uline_ctl).
           destruct uline_ctl as (_ & R & _). rewrite (pad94_full _ R). unfold with_ctl. now destruct f.
        -- right. right. split; [exact Heq|]. split; [lia|]. split; [exact Hle|exact Hr].
      * (* the U+FFFD characters spill into a second line: unknown record type *)
        left. subst r. rewrite Hnth, Hfirst.
        set (L1 := pad94 (cut_chars (f_ctl f) c (94 - c))). set (L2 := pad94 (concat (repeat U_b (c + j - 94)))).
        assert (Hc94 : c < 94) by (destruct j; [lia|apply Hcj; lia]).
        assert (Ht' : file_typed (with_ctl f L1) = true).
        { apply typed_with_ctl. unfold L1. rewrite rtype_cut_u by (try apply uline_ctl; lia). apply ctl_T9_u. }
        assert (H99' : starts99 (f_ctl (with_ctl f L1)) = false).
        { cbn [with_ctl f_ctl]. unfold L1. apply starts99_cut_u; try assumption; try lia; [apply uline_ctl|apply ctl_T9_u]. }
        change (body ++ [L1; L2]) with (body ++ [L1] ++ [L2]). rewrite app_assoc.
        change (body ++ [L1]) with (record_lines (with_ctl f L1)).
        unfold read_struct. fold init_state. rewrite fold_rstep_app, (fold_record_lines _ Ht' H99'). cbn [fold_left].
        rewrite rstep_unknown; [reflexivity|]. unfold L2. apply rtype_U_line. lia.
    + (* inside a 9-filler line: ASCII, nothing is left over *)
      assert (Hlen : length (physical_lines f) = S m + pad_count (S m)).
      { unfold physical_lines. now rewrite app_length, repeat_length, length_record_lines_u. }
      assert (Hnth : nth i (physical_lines f) [] = nines).
      { unfold physical_lines. rewrite app_nth2 by (rewrite length_record_lines_u; lia).
        apply nth_repeat_lt. rewrite length_record_lines_u. lia. }
      assert (Hfirst : firstn i (physical_lines f) = record_lines f ++ repeat nines (i - S m)).
      { unfold physical_lines. rewrite firstn_app, firstn_all2 by (rewrite length_record_lines_u; lia).
        rewrite length_record_lines_u, firstn_repeat. f_equal. f_equal. rewrite Hlen in Hi. lia. }
      rewrite Hnth in Hcj.
      assert (Hj0 : j = 0).
      { destruct j as [|j]; [reflexivity|]. exfalso. destruct (Hcj ltac:(lia)) as [Hc94 B].
        assert (Ha : asciib nines = true) by reflexivity.
        rewrite (chars_ascii nines Ha) in B. unfold S1 in B.
        assert (Hn : c < length nines) by (cbn; lia).
        rewrite (nth_indep _ [] (single 0%N)) in B by (rewrite map_length; exact Hn).
        rewrite map_nth in B. cbn [single length] in B. lia. }
      subst j. rewrite Nat.add_0_r in E0.
      assert (Ha : asciib nines = true) by reflexivity.
      subst r. rewrite Hnth, Hfirst, (tail_u_ascii nines c Ha eq_refl Hc). unfold tail_of.
      destruct (Nat.eqb_spec c 0) as [|_]; [lia|].
      unfold read_struct. fold init_state.
      rewrite !fold_rstep_app, (fold_record_lines f Htyped H99), r_fillers. cbn [fold_left].
      destruct (Nat.eq_dec c 1) as [->|Hc1].
      * left. destruct cut_nines_1 as [A B]. now rewrite (rstep_second_ctl (mkR (Some (f_hdr f)) (rev (f_batches f)) None (Some (f_ctl f))) _ (f_ctl f) A B eq_refl).
      * right. left. destruct (cut_nines c ltac:(lia)) as [A B]. rewrite (rstep_skip _ _ A B).
        rewrite rev_involutive. now destruct f.
Qed.

End DispatchU.

(* ------------------------------------------------------------------ *)
(* every byte offset, arbitrary well-formed records                      *)

Lemma physical_u f : utf8_records f -> Forall uline (physical_lines f).
Proof.
  intros H. unfold physical_lines. apply Forall_app. split; [exact H|].
  apply Forall_repeat. exact (good_uline nines nines_good).
Qed.

Theorem truncation_bytes_u f le k :
  le_ok le -> file_typed f = true -> starts99 (f_ctl f) = false -> utf8_records f ->
  k < length (write le f) ->
  let r := read_text (firstn k (write le f)) in
  r = None \/ r = Some f \/
  exists c j, 1 <= c < 94 /\ c + j <= 94 /\ j <= 3 /\ (0 < j -> j < length (nth c (chars (f_ctl f)) [])) /\
              r = Some (with_ctl f (cut_ctl (f_ctl f) c j)).
Proof.
  intros Hle Ht H99 Hg Hk r. subst r. rewrite write_text_of in *.
  destruct (read_text_prefix_u le (physical_lines f) k Hle (physical_u f Hg) Hk) as (i & c & j & Hi & Hc & Hj & Hcj & E).
  rewrite E.
  destruct (dispatch_truncated_u f Ht H99 Hg i c j Hi Hc Hj Hcj) as [H|[H|(Hm & Hc' & Hle' & H)]]; [now left|now right; left|].
  right. right. exists c, j. split; [exact Hc'|]. split; [exact Hle'|]. split; [exact Hj|]. split; [|exact H].
  intros Hj0. destruct (Hcj Hj0) as [_ B]. rewrite Hm in B.
  assert (Hnth : nth (length (f_hdr f :: flat_map batch_lines (f_batches f))) (physical_lines f) [] = f_ctl f).
  { unfold physical_lines, record_lines. rewrite app_comm_cons, <- app_assoc, app_nth2 by lia. now rewrite Nat.sub_diag. }
  now rewrite Hnth in B.
Qed.

Section VerdictU.
Variable T : tables.
Hypothesis HT : tables_ok T = true.

(* truncation at every byte offset of a file with arbitrary well-formed UTF-8 records:
   no file, or the file itself, or a file that differs only in its control record
   (c complete characters, then j U+FFFD characters, then blanks) and is then either
   rejected or carries the original values in all protected control fields *)
Theorem truncation_bytes_u_verdict f le k :
  le_ok le -> file_typed f = true -> starts99 (f_ctl f) = false -> utf8_records f ->
  read_validate T (skel f) = ROk -> k < length (write le f) ->
  let r := read_text (firstn k (write le f)) in
  r = None \/ r = Some f \/
  exists c j, 1 <= c < 94 /\ c + j <= 94 /\ j <= 3 /\ (0 < j -> j < length (nth c (chars (f_ctl f)) [])) /\
    r = Some (with_ctl f (cut_ctl (f_ctl f) c j)) /\
    (read_validate T (skel (with_ctl f (cut_ctl (f_ctl f) c j))) <> ROk \/
     skel (with_ctl f (cut_ctl (f_ctl f) c j)) = skel f).
Proof.
  intros Hle Ht H99 Hg Hv Hk r.
  destruct (truncation_bytes_u f le k Hle Ht H99 Hg Hk) as [H|[H|(c & j & Hc & Hcj & Hj & Hjj & H)]]; [now left|now right; left|].
  right. right. exists c, j. repeat (split; [assumption|]).
  destruct (rule_eq_dec (read_validate T (skel (with_ctl f (cut_ctl (f_ctl f) c j)))) ROk) as [E|E]; [|now left].
  right. rewrite skel_with_ctl. rewrite (replaced_ctl_verdict T HT f _ Hv E).
  unfold skel, set_fctl. reflexivity.
Qed.

(* a layout of constant ASCII text and numeric renderers writes ASCII for every record *)
Lemma render_numeric_ascii L r : numeric_layout L = true -> asciib (render L r) = true.
Proof.
  unfold numeric_layout, render. induction (l_segs L) as [|s segs IH]; intros H; [reflexivity|].
  cbn [forallb] in H. apply andb_prop in H as [Hs Hr]. cbn [map concat]. rewrite asciib_app, (IH Hr), andb_true_r.
  destruct s; try discriminate Hs; cbn [render_seg numeric_seg] in *.
  - exact Hs.
  - apply NumFacts.numericField_ascii.
  - apply NumFacts.itoa_ascii.
Qed.

(* the file control record the library writes is ASCII (digits and blanks): then nothing
   is ever left over inside it and the cut record is TruncBytes' cut_line *)
Lemma cut_ctl_ascii l c j : asciib l = true -> length l = 94 -> c < 94 ->
  (0 < j -> j < length (nth c (chars l) [])) -> j = 0 /\ cut_ctl l c j = cut_line l c.
Proof.
  intros Ha Hl Hc Hj.
  assert (Hj0 : j = 0).
  { destruct j as [|j]; [reflexivity|]. exfalso. specialize (Hj ltac:(lia)).
    rewrite (chars_ascii l Ha) in Hj. unfold S1 in Hj.
    rewrite (nth_indep _ [] (single 0%N)) in Hj by (rewrite map_length; lia).
    rewrite map_nth in Hj. cbn [single length] in Hj. lia. }
  split; [exact Hj0|]. subst j.
  pose proof (tail_u_ascii l c Ha Hl ltac:(lia)) as E. unfold tail_u, tail_of in E. rewrite Nat.add_0_r in E.
  destruct (Nat.eqb_spec c 0) as [->|Hc0].
  - unfold cut_ctl, pad94, cut_chars, cut_line. cbn [firstn concat repeat app]. reflexivity.
  - destruct (Nat.leb_spec c 94); [|lia]. now injection E.
Qed.

Corollary truncation_bytes_ascii_ctl f le k :
  le_ok le -> file_typed f = true -> starts99 (f_ctl f) = false -> utf8_records f ->
  asciib (f_ctl f) = true ->
  read_validate T (skel f) = ROk -> k < length (write le f) ->
  let r := read_text (firstn k (write le f)) in
  r = None \/ r = Some f \/
  exists c, 1 <= c < 94 /\ r = Some (with_ctl f (cut_line (f_ctl f) c)) /\
    (read_validate T (skel (with_ctl f (cut_line (f_ctl f) c))) <> ROk \/
     skel (with_ctl f (cut_line (f_ctl f) c)) = skel f).
Proof.
  intros Hle Ht H99 Hg Ha Hv Hk r.
  destruct (truncation_bytes_u_verdict f le k Hle Ht H99 Hg Hv Hk) as [H|[H|(c & j & Hc & Hcj & Hj & Hjj & H & V)]]; [now left|now right; left|].
  right. right. exists c. split; [exact Hc|].
  assert (Hl : length (f_ctl f) = 94).
  { assert (U : uline (f_ctl f)).
    { unfold utf8_records in Hg. rewrite Forall_forall in Hg. apply Hg. unfold record_lines. right. apply in_or_app. right. now left. }
    destruct U as (_ & R & _). now rewrite (rune_count_ascii _ Ha) in R. }
  destruct (cut_ctl_ascii (f_ctl f) c j Ha Hl ltac:(lia) Hjj) as [_ E]. rewrite E in H, V. split; assumption.
Qed.

(* ... in particular when the control record is what String() writes *)
Corollary truncation_bytes_written_ctl f le k adv rc :
  numeric_layout (fctl_layout adv) = true ->
  le_ok le -> file_typed f = true -> starts99 (f_ctl f) = false -> utf8_records f ->
  f_ctl f = render (fctl_layout adv) rc ->
  read_validate T (skel f) = ROk -> k < length (write le f) ->
  let r := read_text (firstn k (write le f)) in
  r = None \/ r = Some f \/
  exists c, 1 <= c < 94 /\ r = Some (with_ctl f (cut_line (f_ctl f) c)) /\
    (read_validate T (skel (with_ctl f (cut_line (f_ctl f) c))) <> ROk \/
     skel (with_ctl f (cut_line (f_ctl f) c)) = skel f).
Proof.
  intros HL Hle Ht H99 Hg Ec. apply truncation_bytes_ascii_ctl; try assumption.
  rewrite Ec. now apply render_numeric_ascii.
Qed.

End VerdictU.

(* the accepted cut of an ASCII control record of a file with arbitrary UTF-8 records:
   TruncCtl.truncated_ctl_identical without ascii_records *)
Lemma uline_ascii_good l : uline l -> asciib l = true -> good_line l.
Proof.
  intros (_ & R & Hn & Hb) Ha. rewrite (rune_count_ascii l Ha) in R. repeat split; assumption.
Qed.

Theorem truncated_ctl_identical_u f c :
  utf8_records f -> asciib (f_ctl f) = true -> 1 <= c < 94 -> digitsb (column (f_ctl f) 13 21) = true ->
  fc_count (fl_ctl (skel f)) <> 0%Z ->
  skel (with_ctl f (cut_line (f_ctl f) c)) = skel f ->
  parse (fctl_layout (adv_file f)) (cut_line (f_ctl f) c) = parse (fctl_layout (adv_file f)) (f_ctl f).
Proof.
  intros Hg Ha Hc Hd Hcnt Hsk.
  assert (Hgl : good_line (f_ctl f)).
  { apply uline_ascii_good; [|exact Ha]. unfold utf8_records in Hg. rewrite Forall_forall in Hg. apply Hg.
    unfold record_lines. apply in_cons, in_or_app. right. now left. }
  apply (f_equal fl_ctl) in Hsk. unfold skel in Hsk, Hcnt. cbn [fl_ctl with_ctl f_batches f_ctl] in Hsk, Hcnt.
  fold (adv_file f) in Hsk.
  exact (proj2 (cut_ctl_identical (adv_file f) (f_ctl f) c Hgl Hc Hd Hsk Hcnt)).
Qed.

(* C04, text level: replacing one digit in a protected column of a record line
   changes the parsed value of exactly that field (any layout accepted by
   [layout_ok], any column accepted by [pcol_ok]); composed with the tamper
   theorems of TamperFacts.v this gives: a text that reads as a valid file reads as
   an invalid one after any such replacement. *)
From Coq Require Import String List Lia ZArith Bool.
From ACH Require Import TamperText LayoutFacts FieldsFacts NumFacts ArithFacts.
Import ListNotations.
Local Open Scope nat_scope.

(* ------------------------------------------------------------------ *)
(* lists: one replaced element seen through a window                   *)

Lemma nth_error_ext {A} (a : list A) : forall b, (forall i, nth_error a i = nth_error b i) -> a = b.
Proof.
  induction a as [|x a IH]; intros [|y b] H.
  - reflexivity.
  - specialize (H 0). discriminate.
  - specialize (H 0). discriminate.
  - pose proof (H 0) as H0. cbn in H0. injection H0 as ->. f_equal. apply IH. intros i. exact (H (S i)).
Qed.

Lemma nth_error_firstn_lt {A} (l : list A) : forall k i, i < k -> nth_error (firstn k l) i = nth_error l i.
Proof.
  induction l as [|x l IH]; intros k i Hi.
  - rewrite firstn_nil. reflexivity.
  - destruct k as [|k]; [lia|]. destruct i as [|i]; [reflexivity|]. cbn [firstn nth_error]. apply IH. lia.
Qed.

Lemma nth_error_firstn_ge {A} (l : list A) k i : k <= i -> nth_error (firstn k l) i = None.
Proof. intros H. apply nth_error_None. rewrite firstn_length. lia. Qed.

Lemma nth_error_skipn_add {A} (l : list A) : forall k i, nth_error (skipn k l) i = nth_error l (k + i).
Proof.
  induction l as [|x l IH]; intros k i.
  - rewrite skipn_nil. assert (E : forall n, nth_error (@nil A) n = None) by (intros []; reflexivity). now rewrite !E.
  - destruct k as [|k]; [reflexivity|]. cbn [skipn Nat.add nth_error]. apply IH.
Qed.

Definition window {A} (l : list A) (lo hi : nat) : list A := firstn (hi - lo) (skipn lo l).

Lemma nth_error_window {A} (l : list A) lo hi i :
  nth_error (window l lo hi) i = if i <? hi - lo then nth_error l (lo + i) else None.
Proof.
  unfold window. destruct (Nat.ltb_spec i (hi - lo)) as [H|H].
  - rewrite nth_error_firstn_lt by exact H. apply nth_error_skipn_add.
  - now apply nth_error_firstn_ge.
Qed.

Lemma length_window {A} (l : list A) lo hi : hi <= length l -> length (window l lo hi) = hi - lo.
Proof. intros H. unfold window. rewrite firstn_length, skipn_length. lia. Qed.

Lemma length_set_nth {A} n (x : A) l : length (set_nth n x l) = length l.
Proof.
  unfold set_nth. destruct (Nat.ltb_spec n (length l)) as [H|H]; [|reflexivity].
  rewrite app_length. cbn [length]. rewrite firstn_length, skipn_length. lia.
Qed.

Lemma nth_error_set_nth {A} n (x : A) l i :
  nth_error (set_nth n x l) i = if (i =? n) && (n <? length l) then Some x else nth_error l i.
Proof.
  unfold set_nth. destruct (Nat.ltb_spec n (length l)) as [H|H]; [|now rewrite andb_false_r].
  rewrite andb_true_r. destruct (Nat.eqb_spec i n) as [->|Hne].
  - rewrite nth_error_app2 by (rewrite firstn_length; lia). rewrite firstn_length.
    replace (n - Nat.min n (length l)) with 0 by lia. reflexivity.
  - destruct (Nat.lt_ge_cases i n) as [Hlt|Hge].
    + rewrite nth_error_app1 by (rewrite firstn_length; lia). now apply nth_error_firstn_lt.
    + rewrite nth_error_app2 by (rewrite firstn_length; lia). rewrite firstn_length.
      replace (i - Nat.min n (length l)) with (S (i - S n)) by lia. cbn [nth_error].
      rewrite nth_error_skipn_add. f_equal. lia.
Qed.

Lemma set_nth_map {A B} (g : A -> B) n x l : set_nth n (g x) (map g l) = map g (set_nth n x l).
Proof.
  unfold set_nth. rewrite map_length. destruct (n <? length l); [|reflexivity].
  rewrite map_app. cbn [map]. now rewrite firstn_map, skipn_map.
Qed.

(* a window that does not contain the replaced position is unchanged; one that does
   has the element replaced at the relative position *)
Lemma window_set_nth_out {A} n (x : A) l lo hi : n < lo \/ hi <= n ->
  window (set_nth n x l) lo hi = window l lo hi.
Proof.
  intros H. apply nth_error_ext. intros i. rewrite !nth_error_window.
  destruct (Nat.ltb_spec i (hi - lo)) as [Hi|Hi]; [|reflexivity].
  rewrite nth_error_set_nth. destruct (Nat.eqb_spec (lo + i) n) as [E|E]; [lia|reflexivity].
Qed.

Lemma window_set_nth_in {A} n (x : A) l lo hi : lo <= n < hi -> hi <= length l ->
  window (set_nth n x l) lo hi = set_nth (n - lo) x (window l lo hi).
Proof.
  intros H Hl. apply nth_error_ext. intros i.
  rewrite nth_error_set_nth, !nth_error_window, nth_error_set_nth, length_window by exact Hl.
  destruct (Nat.ltb_spec i (hi - lo)) as [Hi|Hi].
  - destruct (Nat.ltb_spec n (length l)) as [_|Hn]; [|lia].
    destruct (Nat.ltb_spec (n - lo) (hi - lo)) as [_|Hn]; [|lia].
    destruct (Nat.eqb_spec (lo + i) n) as [E|E], (Nat.eqb_spec i (n - lo)) as [E'|E']; try lia; reflexivity.
  - destruct (Nat.eqb_spec i (n - lo)) as [E'|E']; [lia|reflexivity].
Qed.

Lemma set_nth_same {A} n (x : A) l d : nth n l d = x -> set_nth n x l = l.
Proof.
  intros H. apply nth_error_ext. intros i. rewrite nth_error_set_nth.
  destruct (Nat.eqb_spec i n) as [->|E]; [|reflexivity].
  destruct (Nat.ltb_spec n (length l)) as [Hn|Hn]; [|reflexivity].
  cbn [andb]. rewrite (nth_error_nth' l d Hn). now rewrite H.
Qed.

Lemma set_nth_neq {A} n (x : A) l d : n < length l -> nth n l d <> x -> set_nth n x l <> l.
Proof.
  intros Hn Hne E. apply Hne. assert (H : nth_error (set_nth n x l) n = nth_error l n) by now rewrite E.
  rewrite nth_error_set_nth, Nat.eqb_refl in H. destruct (Nat.ltb_spec n (length l)) as [_|H']; [|lia].
  cbn [andb] in H. rewrite (nth_error_nth' l d Hn) in H. now injection H as <-.
Qed.

Lemma forallb_set_nth {A} (p : A -> bool) n x l : p x = true -> forallb p l = true -> forallb p (set_nth n x l) = true.
Proof.
  intros Hx Hl. apply forallb_forall. intros y Hy. apply In_nth_error in Hy as [i Hi].
  rewrite nth_error_set_nth in Hi. destruct ((i =? n) && (n <? length l)); [injection Hi as <-; exact Hx|].
  rewrite forallb_forall in Hl. apply Hl. eapply nth_error_In; eauto.
Qed.

(* ------------------------------------------------------------------ *)
(* lines as rune lists                                                  *)

Lemma units_encode rs : valid rs = true -> units IRune (encode rs) = map encode_rune rs.
Proof. intros H. unfold units. rewrite (chunks_encode_valid rs H), map_map. reflexivity. Qed.

Lemma concat_map_encode_rune rs : concat (map encode_rune rs) = encode rs.
Proof. unfold encode. now rewrite flat_map_concat_map. Qed.

Lemma encode_rune_ascii d : (d <? 128)%N = true -> encode_rune d = [d].
Proof. intros H. unfold encode_rune. now rewrite H. Qed.

Lemma validb_ascii d : (d <? 128)%N = true -> validb d = true.
Proof. intros H. apply N.ltb_lt in H. apply validb_true. left. lia. Qed.

Lemma valid_set_nth n d rs : validb d = true -> valid rs = true -> valid (set_nth n d rs) = true.
Proof. apply forallb_set_nth. Qed.

Lemma set_digit_encode rs col d : valid rs = true -> (d <? 128)%N = true ->
  set_digit (encode rs) col d = encode (set_nth col d rs).
Proof.
  intros Hv Hd. unfold set_digit. rewrite (units_encode rs Hv), <- (encode_rune_ascii d Hd), set_nth_map.
  apply concat_map_encode_rune.
Qed.

Lemma column_encode rs lo hi : valid rs = true -> column (encode rs) lo hi = encode (window rs lo hi).
Proof.
  intros Hv. unfold column, sub, window. rewrite (units_encode rs Hv), skipn_map, firstn_map.
  apply concat_map_encode_rune.
Qed.

Lemma valid_window rs lo hi : valid rs = true -> valid (window rs lo hi) = true.
Proof.
  intros H. unfold window. apply valid_firstn. unfold valid in *.
  rewrite <- (firstn_skipn lo rs), forallb_app in H. now apply andb_prop in H as [_ H].
Qed.

(* an ASCII column consists of one-byte characters *)
Lemma encode_ascii_inv rs : valid rs = true -> asciib (encode rs) = true -> encode rs = rs.
Proof.
  induction rs as [|r rs IH]; [reflexivity|]. intros Hv Ha. unfold valid in Hv. cbn [forallb] in Hv.
  apply andb_prop in Hv as [Hr Hv]. rewrite encode_cons in Ha |- *.
  unfold asciib in Ha. rewrite forallb_app in Ha. apply andb_prop in Ha as [Ha1 Ha2].
  rewrite (IH Hv Ha2).
  destruct (r <? 128)%N eqn:E; [now rewrite (encode_rune_ascii r E)|].
  exfalso. apply N.ltb_ge in E. unfold encode_rune in Ha1.
  destruct (r <? 128)%N eqn:E1; [apply N.ltb_lt in E1; lia|].
  destruct (r <? 2048)%N; [cbn [forallb] in Ha1; apply andb_prop in Ha1 as [Ha1 _]; apply N.ltb_lt in Ha1; lia|].
  destruct ((55296 <=? r)%N && (r <=? 57343)%N); [discriminate|].
  destruct (r <? 65536)%N; [cbn [forallb] in Ha1; apply andb_prop in Ha1 as [Ha1 _]; apply N.ltb_lt in Ha1; lia|].
  destruct (r <? 1114112)%N; [cbn [forallb] in Ha1; apply andb_prop in Ha1 as [Ha1 _]; apply N.ltb_lt in Ha1; lia|].
  discriminate.
Qed.

Lemma digitsb_asciib s : digitsb s = true -> asciib s = true.
Proof. apply digitsb_ascii. Qed.

Lemma column_digits_window rs lo hi : valid rs = true -> digitsb (column (encode rs) lo hi) = true ->
  window rs lo hi = column (encode rs) lo hi.
Proof.
  intros Hv Hd. rewrite (column_encode rs lo hi Hv) in *. symmetry.
  apply encode_ascii_inv; [now apply valid_window|now apply digitsb_asciib].
Qed.

Lemma is_digit_lt128 d : is_digit d = true -> (d <? 128)%N = true.
Proof. apply is_digit_ascii. Qed.

(* the line after the replacement: same length, still well formed, and every
   column window either untouched or with one digit replaced *)
Lemma set_digit_wf rs col d : valid rs = true -> is_digit d = true ->
  wf_utf8 (set_digit (encode rs) col d) = true /\ rune_count (set_digit (encode rs) col d) = length rs.
Proof.
  intros Hv Hd. rewrite (set_digit_encode rs col d Hv (is_digit_lt128 d Hd)).
  split; [apply wf_encode|]. now rewrite rune_count_encode, length_set_nth.
Qed.

Lemma column_set_digit_out rs col d lo hi : valid rs = true -> is_digit d = true -> col < lo \/ hi <= col ->
  column (set_digit (encode rs) col d) lo hi = column (encode rs) lo hi.
Proof.
  intros Hv Hd Hc. pose proof (is_digit_lt128 d Hd) as Hd'.
  rewrite (set_digit_encode rs col d Hv Hd').
  rewrite !column_encode by (try apply valid_set_nth; auto using validb_ascii).
  now rewrite window_set_nth_out.
Qed.

Lemma column_set_digit_in rs col d lo hi : valid rs = true -> is_digit d = true ->
  lo <= col < hi -> hi <= length rs -> digitsb (column (encode rs) lo hi) = true ->
  column (set_digit (encode rs) col d) lo hi = set_nth (col - lo) d (column (encode rs) lo hi)
  /\ digitsb (set_nth (col - lo) d (column (encode rs) lo hi)) = true.
Proof.
  intros Hv Hd Hc Hl Hdig. pose proof (is_digit_lt128 d Hd) as Hd'.
  rewrite (set_digit_encode rs col d Hv Hd').
  rewrite column_encode by (apply valid_set_nth; auto using validb_ascii).
  rewrite window_set_nth_in by assumption.
  rewrite (column_digits_window rs lo hi Hv Hdig).
  assert (D : digitsb (set_nth (col - lo) d (column (encode rs) lo hi)) = true) by now apply forallb_set_nth.
  split; [|exact D]. apply encode_ascii. now apply digitsb_asciib.
Qed.

(* ------------------------------------------------------------------ *)
(* values of a digit column before and after the replacement            *)

Lemma atoi_set_digit text j d :
  digitsb text = true -> j < length text -> is_digit d = true -> nth j text 0%N <> d ->
  (digits_val text 0 < max_int64)%Z -> atoi (set_nth j d text) <> atoi text.
Proof.
  intros Ht Hj Hd Hne Hmax.
  assert (Ht' : digitsb (set_nth j d text) = true) by now apply forallb_set_nth.
  assert (N1 : text <> []) by (destruct text; [cbn in Hj; lia|discriminate]).
  assert (N2 : set_nth j d text <> []).
  { intros E. apply (f_equal (@length N)) in E. rewrite length_set_nth in E. destruct text; [congruence|discriminate]. }
  rewrite (NumFacts.atoi_digits _ N1 Ht), (NumFacts.atoi_digits _ N2 Ht').
  assert (Hv : digits_val (set_nth j d text) 0 <> digits_val text 0).
  { intros E. apply (set_nth_neq j d text 0%N Hj Hne). apply digits_val_inj; auto. apply length_set_nth. }
  lia.
Qed.

Lemma conv_num_digits cv text : is_num_chain cv = true -> digitsb text = true ->
  conv_value cv text = Some (VI (atoi text)).
Proof. intros H Hd. rewrite (conv_value_num cv text H). unfold parseNumField. now rewrite trim_digits. Qed.

Lemma conv_str_digits cv text : is_nil cv || is_trim_chain cv = true -> digitsb text = true ->
  conv_value cv text = Some (VS text).
Proof.
  intros H Hd. apply orb_prop in H as [H|H].
  - apply is_nil_spec in H. subst. reflexivity.
  - rewrite (conv_value_trim cv text H). now rewrite trim_digits.
Qed.

(* ------------------------------------------------------------------ *)
(* Parse of the tampered line                                           *)

Section Tamper.
Variable L : layout.
Variable p : pcol.
Hypothesis HL : p_layout p = L.
Hypothesis Hok : layout_ok L = true.
Hypothesis Hp : pcol_ok p = true.

Let f := p_field p.
Let lo := p_lo p.
Let hi := p_hi p.

Lemma pcol_facts : exists c,
  l_ix L = IRune /\ find_key (l_cuts L) f = Some c /\ c_const c = None /\ c_lo c = lo /\ c_hi c = hi /\
  lo < hi <= 94 /\ kind_conv_ok (p_kind p) (c_conv c) = true /\ isolated (l_cuts L) f lo hi = true /\
  exists s, aligned_seg L c = Some s /\ kind_seg_ok (p_kind p) f (hi - lo) s = true.
Proof.
  unfold pcol_ok in Hp. rewrite HL in Hp. fold f lo hi in Hp.
  apply andb_prop in Hp as [Hix H]. destruct (find_key (l_cuts L) f) as [c|]; [|discriminate].
  apply andb_prop in H as [H Kseg]. apply andb_prop in H as [H Kiso]. apply andb_prop in H as [H Kconv].
  apply andb_prop in H as [H Kle]. apply andb_prop in H as [H Klt]. apply andb_prop in H as [H Khi].
  apply andb_prop in H as [Hreal Klo].
  exists c. destruct (aligned_seg L c) as [s|]; [|discriminate].
  apply Nat.eqb_eq in Klo, Khi. apply Nat.ltb_lt in Klt. apply Nat.leb_le in Kle.
  repeat split; auto; try lia.
  - destruct (l_ix L); [reflexivity|discriminate].
  - unfold is_real in Hreal. now destruct (c_const c).
  - now exists s.
Qed.

Variable rs : list N.
Hypothesis Hv : valid rs = true.
Hypothesis Hlen : length rs = 94.
Let line := encode rs.

Variable j : nat.
Variable d : N.
Hypothesis Hj : j < hi - lo.
Hypothesis Hd : is_digit d = true.
Let line' := set_digit line (lo + j) d.

Lemma parse_line_encode rs' : valid rs' = true -> length rs' = 94 ->
  parse L (encode rs') = flat_map (parse_cut (units IRune (encode rs'))) (l_cuts L).
Proof.
  intros V Hl. destruct pcol_facts as (c & Hix & _). unfold parse.
  now rewrite rune_count_encode, Hl, Nat.eqb_refl, Hix.
Qed.

Lemma line'_encode : line' = encode (set_nth (lo + j) d rs) /\ valid (set_nth (lo + j) d rs) = true
  /\ length (set_nth (lo + j) d rs) = 94.
Proof.
  unfold line', line. rewrite (set_digit_encode rs _ d Hv (is_digit_lt128 d Hd)).
  split; [reflexivity|]. split; [apply valid_set_nth; auto using validb_ascii, is_digit_lt128|].
  now rewrite length_set_nth.
Qed.

Lemma lookup_parse_assigned rs' g : valid rs' = true -> length rs' = 94 ->
  lookup (parse L (encode rs')) g = assigned (units IRune (encode rs')) (l_cuts L) g.
Proof.
  intros V Hl. rewrite (parse_line_encode rs' V Hl).
  destruct (layout_ok_facts L Hok) as [cs F].
  now destruct (lookup_parse (units IRune (encode rs')) (l_cuts L) g (ok_cut_keys _ _ F)) as [-> _].
Qed.

(* every other field parses to the same value *)
Theorem tamper_other_fields g : g <> f -> lookup (parse L line') g = lookup (parse L line) g.
Proof.
  intros Hg. destruct line'_encode as (E' & V' & L').
  destruct pcol_facts as (c & Hix & Hfk & Hconst & Hclo & Hchi & Hrange & _ & Hiso & _).
  rewrite E', (lookup_parse_assigned _ g V' L'). unfold line. rewrite (lookup_parse_assigned rs g Hv Hlen).
  unfold assigned. destruct (find_key (l_cuts L) g) as [c'|] eqn:Eg; [|reflexivity].
  apply find_key_in in Eg as [Hin Hk]. unfold parse_cut.
  destruct (c_const c') as [bs|] eqn:Ec; [reflexivity|].
  destruct (String.eqb (c_field c') "") eqn:Ee; [reflexivity|].
  assert (Hsub : sub (units IRune (encode (set_nth (lo + j) d rs))) (c_lo c') (c_hi c')
                 = sub (units IRune (encode rs)) (c_lo c') (c_hi c')).
  { unfold isolated in Hiso. rewrite forallb_forall in Hiso. specialize (Hiso c' Hin).
    unfold is_real in Hiso. rewrite Ec in Hiso. cbn [negb orb] in Hiso.
    assert (Hnk : has_key f c' = false).
    { unfold has_key. rewrite Hk. apply String.eqb_neq. congruence. }
    rewrite Hnk in Hiso. cbn [orb] in Hiso.
    rewrite <- (set_digit_encode rs (lo + j) d Hv (is_digit_lt128 d Hd)).
    apply (column_set_digit_out rs (lo + j) d (c_lo c') (c_hi c') Hv Hd).
    apply orb_prop in Hiso as [H|H]; apply Nat.leb_le in H; lia. }
  now rewrite Hsub.
Qed.

(* the protected field itself: the conversion of the column with the digit replaced *)
Hypothesis Hdig : digitsb (column line lo hi) = true.

Theorem tamper_this_field : exists c, find_key (l_cuts L) f = Some c /\
  lookup (parse L line) f = conv_value (c_conv c) (column line lo hi) /\
  lookup (parse L line') f = conv_value (c_conv c) (set_nth j d (column line lo hi)) /\
  digitsb (set_nth j d (column line lo hi)) = true.
Proof.
  destruct line'_encode as (E' & V' & L').
  destruct pcol_facts as (c & Hix & Hfk & Hconst & Hclo & Hchi & Hrange & _ & _ & _).
  exists c. split; [exact Hfk|].
  assert (Hkey : cut_key c = Some f) by (apply find_key_in in Hfk; tauto).
  assert (Hne : String.eqb (c_field c) "" = false /\ c_field c = f).
  { unfold cut_key in Hkey. rewrite Hconst in Hkey. destruct (String.eqb (c_field c) ""); [discriminate|].
    split; [reflexivity|congruence]. }
  destruct Hne as [Hne Hcf].
  destruct (column_set_digit_in rs (lo + j) d lo hi Hv Hd ltac:(lia) ltac:(lia) Hdig) as [Hcol Hdig'].
  replace (lo + j - lo) with j in Hcol, Hdig' by lia.
  assert (A : forall rs', valid rs' = true -> length rs' = 94 ->
              lookup (parse L (encode rs')) f = conv_value (c_conv c) (column (encode rs') lo hi)).
  { intros rs' V Hl. rewrite (lookup_parse_assigned rs' f V Hl). unfold assigned. rewrite Hfk.
    unfold parse_cut. rewrite Hconst, Hne, Hclo, Hchi, Hcf. fold (column (encode rs') lo hi).
    destruct (conv_value (c_conv c) (column (encode rs') lo hi)) as [v|]; [apply lookup_single|reflexivity]. }
  split; [exact (A rs Hv Hlen)|]. split; [|exact Hdig'].
  rewrite E', (A _ V' L'), <- E'. fold line in Hcol. unfold line'. now rewrite Hcol.
Qed.

(* the parsed value of the protected field before and after, by kind of column *)
Definition field_change (k : ckind) (before after : option value) (text text' : bytes) : Prop :=
  match k with
  | CKNum => before = Some (VI (atoi text)) /\ after = Some (VI (atoi text')) /\ atoi text' <> atoi text
  | CKStr => before = Some (VS text) /\ after = Some (VS text') /\ text' <> text
  end.

Hypothesis Hne : nth j (column line lo hi) 0%N <> d.
Hypothesis Hmax : p_kind p = CKNum -> (digits_val (column line lo hi) 0 < max_int64)%Z.

Theorem digit_changes_field :
  rune_count line' = 94 /\ wf_utf8 line' = true /\
  (forall g, g <> f -> lookup (parse L line') g = lookup (parse L line) g) /\
  field_change (p_kind p) (lookup (parse L line) f) (lookup (parse L line') f)
               (column line lo hi) (set_nth j d (column line lo hi)).
Proof.
  destruct (set_digit_wf rs (lo + j) d Hv Hd) as [W R]. fold line line' in W, R.
  split; [now rewrite R|]. split; [exact W|]. split; [exact tamper_other_fields|].
  destruct tamper_this_field as (c & Hfk & Hb & Ha & Hdig').
  destruct pcol_facts as (c0 & _ & Hfk0 & _ & _ & _ & Hrange & Hconv & _).
  rewrite Hfk in Hfk0. injection Hfk0 as <-.
  assert (Hlen' : length (column line lo hi) = hi - lo).
  { unfold line. rewrite <- (column_digits_window rs lo hi Hv Hdig). apply length_window. lia. }
  unfold field_change. destruct (p_kind p) eqn:Ek; cbn [kind_conv_ok] in Hconv.
  - rewrite Hb, Ha, !conv_num_digits by assumption. repeat split.
    apply atoi_set_digit; auto. lia.
  - rewrite Hb, Ha, !conv_str_digits by assumption. repeat split.
    apply (set_nth_neq j d _ 0%N); [lia|exact Hne].
Qed.

End Tamper.

(* ------------------------------------------------------------------ *)
(* the same for any well-formed line of 94 characters                   *)

Theorem line_digit_changes_field p line j d :
  layout_ok (p_layout p) = true -> pcol_ok p = true ->
  wf_utf8 line = true -> rune_count line = 94 ->
  j < p_hi p - p_lo p -> is_digit d = true ->
  digitsb (column line (p_lo p) (p_hi p)) = true ->
  nth j (column line (p_lo p) (p_hi p)) 0%N <> d ->
  (p_kind p = CKNum -> (digits_val (column line (p_lo p) (p_hi p)) 0 < max_int64)%Z) ->
  let line' := set_digit line (p_lo p + j) d in
  rune_count line' = 94 /\ wf_utf8 line' = true /\
  (forall g, g <> p_field p -> lookup (parse (p_layout p) line') g = lookup (parse (p_layout p) line) g) /\
  field_change (p_kind p) (lookup (parse (p_layout p) line) (p_field p)) (lookup (parse (p_layout p) line') (p_field p))
               (column line (p_lo p) (p_hi p)) (set_nth j d (column line (p_lo p) (p_hi p))).
Proof.
  intros Hok Hp Hwf Hn Hj Hd Hdig Hne Hmax.
  destruct (wf_decompose line Hwf) as (rs & Hv & -> & _).
  rewrite rune_count_encode in Hn.
  exact (digit_changes_field (p_layout p) p eq_refl Hok Hp rs Hv Hn j d Hj Hd Hdig Hne Hmax).
Qed.

(* ------------------------------------------------------------------ *)
(* ... and for a record written through its layout                      *)

(* the value of the protected field in the record being written *)
Definition col_value_ok (p : pcol) (r : recval) : Prop :=
  match p_kind p with
  | CKNum => (0 <= geti r (p_field p) < max_int64)%Z
  | CKStr => digitsb (gets r (p_field p)) = true /\ length (gets r (p_field p)) = p_hi p - p_lo p
  end.

Lemma digits_val_numericField z w : (0 <= z)%Z -> (digits_val (numericField z w) 0 <= z)%Z.
Proof.
  intros Hz. rewrite (numericField_dec z w Hz), digits_val_dec.
  pose proof (p10_pos w) as Hp. pose proof (N.mod_le (Z.to_N z) (p10 w) ltac:(lia)) as Hm. lia.
Qed.

Lemma digits_val_itoa z : (0 <= z)%Z -> digits_val (itoa z) 0 = z.
Proof.
  intros Hz. destruct (itoa_nonneg z Hz) as (k & _ & -> & Hlt).
  rewrite digits_val_dec, N.mod_small by exact Hlt. lia.
Qed.

Lemma rendered_column p r :
  layout_ok (p_layout p) = true -> pcol_ok p = true -> fitsb (p_layout p) r = true -> col_value_ok p r ->
  wf_utf8 (render (p_layout p) r) = true /\ rune_count (render (p_layout p) r) = 94 /\
  digitsb (column (render (p_layout p) r) (p_lo p) (p_hi p)) = true /\
  (p_kind p = CKNum -> (digits_val (column (render (p_layout p) r) (p_lo p) (p_hi p)) 0 < max_int64)%Z) /\
  (p_kind p = CKNum -> atoi (column (render (p_layout p) r) (p_lo p) (p_hi p)) = digits_val (column (render (p_layout p) r) (p_lo p) (p_hi p)) 0).
Proof.
  intros Hok Hp Hfit Hval. set (L := p_layout p) in *.
  split; [now apply render_wf|]. split; [now apply render_width|].
  destruct (pcol_facts L p eq_refl Hp) as (c & Hix & Hfk & Hconst & Hclo & Hchi & Hrange & _ & _ & s & Hal & Hseg).
  pose proof Hfk as Hfk'. apply find_key_in in Hfk' as [Hin Hkey].
  assert (Hcf : c_field c = p_field p /\ c_field c <> ""%string).
  { unfold cut_key in Hkey. rewrite Hconst in Hkey. destruct (String.eqb_spec (c_field c) ""); [discriminate|].
    split; [congruence|assumption]. }
  destruct Hcf as [Hcf Hnz].
  destruct (parse_render L r Hok Hfit c Hin Hconst Hnz) as (s' & Hal' & Hs' & _ & Hsub & _).
  rewrite Hal in Hal'. injection Hal' as <-.
  rewrite Hix, Hclo, Hchi in Hsub. fold (column (render L r) (p_lo p) (p_hi p)) in Hsub. rewrite Hsub.
  assert (Hint : seg_intb r s = true).
  { unfold fitsb in Hfit. apply andb_prop in Hfit as [_ Hi]. rewrite forallb_forall in Hi. now apply Hi. }
  unfold col_value_ok in Hval. unfold kind_seg_ok in Hseg.
  destruct (p_kind p) eqn:Ek, s as [bs|g w|g w|g w|g|g|n h|src]; try discriminate Hseg.
  - (* SNum *)
    apply andb_prop in Hseg as [Hg Hw]. apply String.eqb_eq in Hg. apply Nat.eqb_eq in Hw. subst g. cbn [render_seg].
    pose proof (digits_val_numericField (geti r (p_field p)) w ltac:(lia)) as B.
    split; [apply numericField_digits; lia|]. split; [intros _; lia|]. intros _.
    assert (Hne : numericField (geti r (p_field p)) w <> []).
    { intros E. apply (f_equal (@length N)) in E. rewrite numericField_length in E. cbn in E.
      lia. }
    rewrite (NumFacts.atoi_digits _ Hne) by (apply numericField_digits; lia). lia.
  - (* SItoa *)
    apply String.eqb_eq in Hseg. subst g. cbn [render_seg].
    rewrite (digits_val_itoa (geti r (p_field p))) by lia.
    split; [apply itoa_digits; lia|]. split; [intros _; lia|]. intros _.
    rewrite (NumFacts.atoi_digits _ (itoa_nonempty _)) by (apply itoa_digits; lia).
    rewrite (digits_val_itoa (geti r (p_field p))) by lia. lia.
  - (* SStr *)
    apply andb_prop in Hseg as [Hg Hw]. apply String.eqb_eq in Hg. apply Nat.eqb_eq in Hw. subst g w.
    cbn [render_seg]. destruct Hval as [Hd Hl].
    rewrite stringField_exact by (rewrite (rune_count_digits _ Hd); exact Hl).
    split; [exact Hd|]. split; discriminate.
  - (* SRaw *)
    apply String.eqb_eq in Hseg. subst g. cbn [render_seg]. destruct Hval as [Hd Hl].
    split; [exact Hd|]. split; discriminate.
Qed.

Theorem rendered_digit_changes_field p r j d :
  layout_ok (p_layout p) = true -> pcol_ok p = true -> fitsb (p_layout p) r = true -> col_value_ok p r ->
  j < p_hi p - p_lo p -> is_digit d = true ->
  let L := p_layout p in
  let line := render L r in
  let text := column line (p_lo p) (p_hi p) in
  nth j text 0%N <> d ->
  let line' := set_digit line (p_lo p + j) d in
  rune_count line' = 94 /\ wf_utf8 line' = true /\
  (forall g, g <> p_field p -> lookup (parse L line') g = lookup (parse L line) g) /\
  field_change (p_kind p) (lookup (parse L line) (p_field p)) (lookup (parse L line') (p_field p))
               text (set_nth j d text).
Proof.
  intros Hok Hp Hfit Hval Hj Hd L line text Hne.
  destruct (rendered_column p r Hok Hp Hfit Hval) as (Hwf & Hn & Hdig & Hmax & _).
  exact (line_digit_changes_field p line j d Hok Hp Hwf Hn Hj Hd Hdig Hne Hmax).
Qed.

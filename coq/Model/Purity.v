(* C14 — purity of the read-only operations: executable model (definitions only).

   State: the part of an ach.File that the heap writes found by the SSA effect analysis
   (Gen/Effects.v) can touch.  After the repair of the in-place trim in
   FileHeader.ImmediateDestinationField / ImmediateOriginField the only stores into the
   file are Batch.SetHeader / Batch.SetControl, called by File.IsADV for a batch whose
   Header / Control pointer is nil.  So the state is, per element of File.Batches,
   whether the header pointer is nil (and its StandardEntryClassCode otherwise, which
   steers the early return of IsADV) and whether the control pointer is nil.  Everything
   else of the file is never written by these operations (that is what the effect table
   says) and is left out. *)
From Coq Require Import List Bool NArith Arith.
Import ListNotations.
From ACH Require Import Bytes EffectTable.

Record bat := mkbat {
  b_hdr : option bytes;   (* None: Header == nil; Some sec: Header.StandardEntryClassCode *)
  b_ctl : bool }.         (* Control != nil *)

Definition file := list bat.   (* File.Batches, in order *)

Definition adv : bytes := [65; 68; 86]%N.        (* "ADV" *)
Definition default_sec : bytes := [].            (* NewBatchHeader() leaves the SEC code "" *)

(* File.IsADV (file.go):
     for i := range f.Batches {
       if v := f.Batches[i].GetHeader(); v == nil { f.Batches[i].SetHeader(NewBatchHeader()) }
       if v := f.Batches[i].GetControl(); v == nil { f.Batches[i].SetControl(NewBatchControl()) }
       if f.Batches[i].GetHeader().StandardEntryClassCode == ADV { return true }
     }
     return false *)
Definition fill_hdr (b : bat) : bat :=
  match b_hdr b with None => mkbat (Some default_sec) (b_ctl b) | Some _ => b end.
Definition fill_ctl (b : bat) : bat := if b_ctl b then b else mkbat (b_hdr b) true.
Definition fill (b : bat) : bat := fill_ctl (fill_hdr b).
Definition is_adv (b : bat) : bool :=
  match b_hdr b with Some s => bytes_eqb s adv | None => false end.

Fixpoint isADV (bs : file) : file * bool :=
  match bs with
  | [] => ([], false)
  | b :: t =>
      let b' := fill b in
      if is_adv b' then (b' :: t, true)
      else let r := isADV t in (b' :: fst r, snd r)
  end.

Definition install (f : file) : file := fst (isADV f).

(* what the harness observes of one Validate call: the option bits that decide whether
   IsADV is reached, the verdict of FileHeader.ValidateWith and the overall verdict *)
Record vflags := mkv {
  v_skipAll : bool;        (* opts.SkipAll *)
  v_allowMissing : bool;   (* opts.AllowMissingFileHeader *)
  v_hdrOk : bool;          (* f.Header.ValidateWith(opts) == nil *)
  v_ok : bool }.           (* the whole ValidateWith(opts) returned nil *)

Inductive op :=
| OValidate (v : vflags)         (* f.Validate() = f.ValidateWith(f.validateOpts) *)
| OValidateWith (v : vflags)     (* f.ValidateWith(opts) *)
| OBatchValidate (i : nat)       (* f.Batches[i].Validate() *)
| OString (r : nat)              (* String() of the r-th record of the file *)
| OMarshalJSON                   (* json.Marshal(f) *)
| OWriteBypass                   (* Writer{BypassValidation: true}.Write(f) *)
| OWriteValidating (v : vflags). (* NewWriter(w).Write(f) *)

(* File.ValidateWith: SkipAll returns at once; a header error returns before IsADV;
   otherwise IsADV runs (and whatever follows stores nothing) *)
Definition validate_step (v : vflags) (f : file) : file :=
  if v_skipAll v then f
  else if negb (v_allowMissing v) && negb (v_hdrOk v) then f
  else install f.

(* Writer.Write: Validate unless bypassed (an error returns), then the header line,
   then file.IsADV(), then the batches (rendering stores nothing) *)
Definition write_step (f : file) : file := install f.

Definition step (f : file) (o : op) : file :=
  match o with
  | OValidate v => validate_step v f
  | OValidateWith v => validate_step v f
  | OBatchValidate _ => f
  | OString _ => f
  | OMarshalJSON => f
  | OWriteBypass => write_step f
  | OWriteValidating v =>
      let f1 := validate_step v f in
      if v_ok v then write_step f1 else f1
  end.

(* states after each operation of a history *)
Fixpoint run_ops (f : file) (ops : list op) : list file :=
  match ops with
  | [] => []
  | o :: t => let f' := step f o in f' :: run_ops f' t
  end.

(* the observation: what json.Marshal(f) and the NACHA rendering show of the modelled
   state — "batchHeader": null or an object with its standardEntryClassCode,
   "batchControl": null or an object; the writer prints a header / control line per
   non-nil pointer *)
Definition observe (f : file) : list (option bytes * bool) := map (fun b => (b_hdr b, b_ctl b)) f.

(* invariant: no nil header / control *)
Definition inv_bat (b : bat) : bool := match b_hdr b with Some _ => b_ctl b | None => false end.
Definition inv (f : file) : bool := forallb inv_bat f.

(* the exact condition: no nil pointer up to and including the first ADV batch *)
Fixpoint prefix_inv (f : file) : bool :=
  match f with
  | [] => true
  | b :: t => inv_bat b && (is_adv b || prefix_inv t)
  end.

(* files of the constructors: every element of File.Batches is made by NewBatch(bh) with
   bh != nil (batch.go NewBatch -> NewBatchXXX).  Every NewBatchXXX sets Control =
   NewBatchControl() — except NewBatchADV, which sets only ADVControl and leaves Control nil. *)
Definition new_batch (sec : bytes) : bat := mkbat (Some sec) (negb (bytes_eqb sec adv)).
Definition built (secs : list bytes) : file := map new_batch secs.   (* AddBatch(NewBatch(bh)) ... *)

(* File.Create, once past its header / batch-count checks, calls f.IsADV() (everything else
   it does rewrites counts and sums, not these pointers); Reader.Read builds its batches
   with NewBatch as well and ends with r.File.IsADV() (unless the line limit or a scanner
   error cuts it short); FileFromJSON calls IsADV and Create *)
Definition created (secs : list bytes) : file := install (built secs).
Definition reader_file (secs : list bytes) : file := install (built secs).

Definition no_adv (secs : list bytes) : bool := forallb (fun s => negb (bytes_eqb s adv)) secs.

(* ---- semantics of the table's effect classes, for the trace theorem *)
Fixpoint upd (i : nat) (g : bat -> bat) (f : file) : file :=
  match f, i with
  | [], _ => []
  | b :: t, O => g b :: t
  | b :: t, S j => b :: upd j g t
  end.

(* an instance of an effect: its class and the index of the batch it is applied to *)
Definition sem (c : eclass) (i : nat) (f : file) : file :=
  match c with
  | CInstallHeader => upd i fill_hdr f
  | CInstallControl => upd i fill_ctl f
  | CWriterState | CReadOnlyExt | CPool => f
  end.

Definition run (tr : list (eclass * nat)) (f : file) : file :=
  fold_left (fun s ci => sem (fst ci) (snd ci) s) tr f.

(* the instances File.IsADV performs, in order *)
Fixpoint isADV_trace (k : nat) (bs : file) : list (eclass * nat) :=
  match bs with
  | [] => []
  | b :: t => (CInstallHeader, k) :: (CInstallControl, k) ::
              (if is_adv (fill b) then [] else isADV_trace (S k) t)
  end.

Definition op_trace (f : file) (o : op) : list (eclass * nat) :=
  match o with
  | OValidate v | OValidateWith v =>
      if v_skipAll v then [] else if negb (v_allowMissing v) && negb (v_hdrOk v) then [] else isADV_trace 0 f
  | OBatchValidate _ | OString _ | OMarshalJSON => []
  | OWriteBypass => isADV_trace 0 f
  | OWriteValidating v =>
      let t1 := if v_skipAll v then [] else if negb (v_allowMissing v) && negb (v_hdrOk v) then [] else isADV_trace 0 f in
      if v_ok v then t1 ++ isADV_trace 0 (run t1 f) else t1
  end.

(* C14, phase 5 — what the oracle's two observations (JSON tree, NACHA text) can and cannot see.

   1. [hidden t]: the struct fields of a JSON type tree (Gen/JsonTags.v, regenerated from the
      struct tags) that json.Marshal does not write (no key) AND that no String() / ...Field()
      renderer of the struct reads (f_rendered = false).  A change confined to such a field is
      invisible in both observations; the regenerated list is compared with [expected_hidden]
      by reflection, and the oracle's reflective deep dump (all fields, exported or not) is what
      covers them.
   2. [enc] (the executable model of the encoder, Model/JsonCodec.v) ignores exactly the
      key-less fields of a struct: two values that agree on the fields with a key encode alike.
   3. The observation of the modelled state as a JSON tree and as NACHA record lines, through
      [enc] on the type tree restricted to what the model holds, and the proof that it
      determines the modelled state (so "observation unchanged" in the oracle is "modelled
      state unchanged"). *)
From Coq Require Import String List Bool NArith ZArith.
Import ListNotations.
From ACH Require Import Bytes JsonCodec EffectTable Purity PurityAlias.
Open Scope string_scope.
Open Scope list_scope.

(* ---- 1. fields neither encoded nor rendered *)
Fixpoint hidden (t : ty) : list (string * string) :=
  match t with
  | TStruct n fs =>
      (fix go (fs : list (fmeta * ty)) : list (string * string) :=
         match fs with
         | [] => []
         | (m, ft) :: r =>
             (match f_enc m with
              | None => if f_rendered m then [] else [(n, f_name m)]
              | Some _ => hidden ft
              end) ++ go r
         end) fs
  | TPtr t' => hidden t'
  | TSlice t' => hidden t'
  | _ => []
  end.

(* fields without a key that a renderer does read: visible in the NACHA text only *)
Fixpoint text_only (t : ty) : list (string * string) :=
  match t with
  | TStruct n fs =>
      (fix go (fs : list (fmeta * ty)) : list (string * string) :=
         match fs with
         | [] => []
         | (m, ft) :: r =>
             (match f_enc m with
              | None => if f_rendered m then [(n, f_name m)] else []
              | Some _ => text_only ft
              end) ++ go r
         end) fs
  | TPtr t' => text_only t'
  | TSlice t' => text_only t'
  | _ => []
  end.

Definition pair_eqb2 (a b : string * string) : bool := String.eqb (fst a) (fst b) && String.eqb (snd a) (snd b).
Fixpoint dedup (l : list (string * string)) : list (string * string) :=
  match l with
  | [] => []
  | x :: r => if existsb (pair_eqb2 x) r then dedup r else x :: dedup r
  end.
Definition same_set (a b : list (string * string)) : bool :=
  forallb (fun x => existsb (pair_eqb2 x) b) a && forallb (fun x => existsb (pair_eqb2 x) a) b.

(* ---- 2. values that agree on the fields with a key *)
Fixpoint agree_keyed (fs : list (fmeta * ty)) (vs vs' : list val) : Prop :=
  match fs, vs, vs' with
  | (m, _) :: fs', x :: r, x' :: r' =>
      (match f_enc m with Some _ => x = x' | None => True end) /\ agree_keyed fs' r r'
  | [], _, _ => True
  | _ :: _, [], [] => True
  | _, _, _ => False
  end.

(* ---- 3. the modelled state as a Go value of a restricted File type, and its two observations *)
Definition mkkey (name key : string) : fmeta := mkF name (Some key) (Some key) false None false.

Definition T_absHeader : ty := TStruct "BatchHeader" [ (mkkey "StandardEntryClassCode" "standardEntryClassCode", TStr) ].
Definition T_absControl : ty := TStruct "BatchControl" [].
Definition T_absBatch : ty :=
  TStruct "Batch" [ (mkkey "Header" "batchHeader", TPtr T_absHeader); (mkkey "Control" "batchControl", TPtr T_absControl) ].
Definition T_absOpts : ty := TSlice TBool.   (* the bool fields of ValidateOpts in declaration order *)
Definition T_absFile : ty :=
  TStruct "File" [ (mkkey "Batches" "batches", TSlice (TPtr T_absBatch)); (mkkey "validateOpts" "validateOpts", TPtr T_absOpts) ].

Definition val_of_bat (b : bat) : val :=
  VRec [ (match b_hdr b with None => VNil | Some s => VRec [VStr s] end);
         (if b_ctl b then VRec [] else VNil) ].
Definition val_of_x (s : xfile) : val :=
  VRec [ VArr (map val_of_bat (x_bats s));
         (match x_opts s with None => VNil | Some l => VArr (map VBool l) end) ].

Definition obs_json (s : xfile) : json := enc T_absFile (val_of_x s).

(* Writer.Write prints one header line per non-nil header ("5" + ... SEC code at its column)
   and one control line per non-nil control ("8" ...); of the modelled state the text shows *)
Definition obs_lines (s : xfile) : list bytes :=
  flat_map (fun b => (match b_hdr b with Some sec => (53%N :: sec) :: nil | None => nil end)
                     ++ (if b_ctl b then (56%N :: nil) :: nil else nil)) (x_bats s).

Definition obs (s : xfile) : json * list bytes := (obs_json s, obs_lines s).

(* reading the modelled state back from the JSON tree *)
Definition bat_of_json (j : json) : option bat :=
  match j with
  | JObj [(_, h); (_, c)] =>
      match h, c with
      | JNull, JNull => Some (mkbat None false)
      | JNull, JObj _ => Some (mkbat None true)
      | JObj [(_, JStr s)], JNull => Some (mkbat (Some s) false)
      | JObj [(_, JStr s)], JObj _ => Some (mkbat (Some s) true)
      | _, _ => None
      end
  | _ => None
  end.
Fixpoint opt_all {A} (l : list (option A)) : option (list A) :=
  match l with
  | [] => Some []
  | Some x :: r => match opt_all r with Some r' => Some (x :: r') | None => None end
  | None :: _ => None
  end.
Definition bool_of_json (j : json) : option bool := match j with JBool b => Some b | _ => None end.
Definition x_of_json (j : json) : option xfile :=
  match j with
  | JObj [(_, JArr bs); (_, o)] =>
      match opt_all (map bat_of_json bs) with
      | Some bats =>
          match o with
          | JNull => Some (mkx bats None)
          | JArr l => match opt_all (map bool_of_json l) with Some l' => Some (mkx bats (Some l')) | None => None end
          | _ => None
          end
      | None => None
      end
  | _ => None
  end.

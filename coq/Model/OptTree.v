(* C15 — the validators and the reader of moov-io/ach as option-guard trees.

   Every data check (field syntax, totals, hashes, ...) is an abstract boolean
   function of an abstract record type: the theorems hold for ALL such
   functions, hence also when they depend on the options that are held fixed
   (SkipAll = false, RequireABAOrigin, PreserveSpaces, CheckTransactionCode).
   What is concrete is what the property is about: which check is guarded by
   which flag at which site, how guards nest, and how the reader's control flow
   depends on verdicts.  The guard sites are compared with the table the
   translator regenerates from the source (Oblig/C15Obl.v).

   Checks are combined by conjunction: the order in which Go reports the first
   error is immaterial for accept/reject. *)
From Coq Require Import List Bool String.
Import ListNotations.
From ACH Require Import OptMono.
Open Scope string_scope.

(* leaf records: one Validate() with at most one guarded group of checks *)
Inductive rkind :=
| KBatchHeader | KBatchControl | KADVBatchControl | KIATBatchHeader
| KFileControl | KADVFileControl | KADVEntry | KIATEntry
| KA02 | KA05 | KA98 | KA98R | KA99 | KA99D | KA99C
| KA10 | KA11 | KA12 | KA13 | KA14 | KA15 | KA16 | KA17 | KA18.

Definition leaf_site (k : rkind) : option site :=
  match k with
  | KBatchHeader => Some (mksite "BatchHeader.Validate" AllowSpecialCharacters 1)
  | KBatchControl => Some (mksite "BatchControl.Validate" AllowSpecialCharacters 1)
  | KADVBatchControl => Some (mksite "ADVBatchControl.Validate" AllowSpecialCharacters 1)
  | KIATBatchHeader => Some (mksite "IATBatchHeader.Validate" AllowSpecialCharacters 1)
  | KFileControl | KADVFileControl => None
  | KADVEntry => Some (mksite "ADVEntryDetail.Validate" AllowSpecialCharacters 1)
  | KIATEntry => Some (mksite "IATEntryDetail.Validate" AllowSpecialCharacters 1)
  | KA02 => Some (mksite "Addenda02.Validate" AllowSpecialCharacters 1)
  | KA05 => Some (mksite "Addenda05.Validate" AllowSpecialCharacters 1)
  | KA98 | KA98R => None
  | KA99 => Some (mksite "Addenda99.Validate" CustomReturnCodes 1)
  | KA99D => Some (mksite "Addenda99Dishonored.Validate" CustomReturnCodes 1)
  | KA99C => Some (mksite "Addenda99Contested.Validate" CustomReturnCodes 1)
  | KA10 => Some (mksite "Addenda10.Validate" AllowSpecialCharacters 1)
  | KA11 => Some (mksite "Addenda11.Validate" AllowSpecialCharacters 1)
  | KA12 => Some (mksite "Addenda12.Validate" AllowSpecialCharacters 1)
  | KA13 => Some (mksite "Addenda13.Validate" AllowSpecialCharacters 1)
  | KA14 => Some (mksite "Addenda14.Validate" AllowSpecialCharacters 1)
  | KA15 => Some (mksite "Addenda15.Validate" AllowSpecialCharacters 1)
  | KA16 => Some (mksite "Addenda16.Validate" AllowSpecialCharacters 1)
  | KA17 => Some (mksite "Addenda17.Validate" AllowSpecialCharacters 1)
  | KA18 => Some (mksite "Addenda18.Validate" AllowSpecialCharacters 1)
  end.

Definition all_kinds : list rkind :=
  [KBatchHeader; KBatchControl; KADVBatchControl; KIATBatchHeader; KFileControl; KADVFileControl;
   KADVEntry; KIATEntry; KA02; KA05; KA98; KA98R; KA99; KA99D; KA99C;
   KA10; KA11; KA12; KA13; KA14; KA15; KA16; KA17; KA18].

Definition entry_addenda_kinds : list rkind := [KA02; KA05; KA98; KA98R; KA99; KA99D; KA99C].
Definition iat_addenda_kinds : list rkind := [KA10; KA11; KA12; KA13; KA14; KA15; KA16; KA17; KA18; KA98; KA99].

(* record types of the input lines *)
Inductive rectype := RFileHeader | RBatchHeader | REntry | RAddenda | RBatchControl | RFileControl | RPadding | RUnknown.

(* The data: abstract types, projections, checks and the reader's structural
   (option independent) operations. *)
Record Sig : Type := {
  Rec : Type;  FH : Type;  Entry : Type;  Batch : Type;  IATBatch : Type;  File : Type;
  St : Type;   Line : Type;

  (* [x_live]: the record's validateOpts pointer is set *)
  r_live : Rec -> bool;   r_plain : rkind -> Rec -> bool;   r_guarded : rkind -> Rec -> bool;

  fh_live : FH -> bool;   fh_incl : FH -> bool;   fh_basic : FH -> bool;
  fh_origin : FH -> bool; fh_dest : FH -> bool;   fh_special : FH -> bool;

  e_live : Entry -> bool; e_basic : Entry -> bool; e_special : Entry -> bool; e_checkdigit : Entry -> bool;
  e_addenda : rkind -> Entry -> list Rec;

  b_live : Batch -> bool; b_isADV : Batch -> bool; b_isCTX : Batch -> bool;
  b_header : Batch -> Rec; b_control : Batch -> Rec; b_advcontrol : Batch -> Rec;
  b_entries : Batch -> list Entry; b_adventries : Batch -> list Rec; adv_addenda99 : Rec -> list Rec;
  b_has_entries : Batch -> bool;
  b_scc_eq : Batch -> bool; b_cid_eq : Batch -> bool; b_odfi_eq : Batch -> bool; b_num_eq : Batch -> bool;
  b_adv_scc_eq : Batch -> bool; b_adv_odfi_eq : Batch -> bool; b_adv_num_eq : Batch -> bool;
  b_count_eq : Batch -> bool; b_adv_count_eq : Batch -> bool; b_ascending : Batch -> bool;
  b_amount : Batch -> bool; b_hash : Batch -> bool; b_dne : Batch -> bool;
  b_trace_odfi : Batch -> bool; b_addenda_seq : Batch -> bool; b_category : Batch -> bool;
  b_sec_checks : Batch -> bool;          (* the SEC-specific rules of BatchXXX.Validate *)
  be_ctx_count : Batch * Entry -> bool;  (* BatchCTX: addenda count = indicator *)
  be_noc : Batch * Entry -> bool; be_return : Batch * Entry -> bool; be_prenote : Batch * Entry -> bool;
  be_amount_zero : Batch * Entry -> bool; be_zero_remittance : Batch * Entry -> bool;

  ib_live : IATBatch -> bool; ib_header : IATBatch -> Rec; ib_control : IATBatch -> Rec;
  ib_entries : IATBatch -> list Rec; ie_addenda : rkind -> Rec -> list Rec; ie_incl : Rec -> bool;
  ib_has_entries : IATBatch -> bool; ib_scc_eq : IATBatch -> bool; ib_odfi_eq : IATBatch -> bool;
  ib_num_eq : IATBatch -> bool; ib_cid_special : IATBatch -> bool; ib_count_eq : IATBatch -> bool;
  ib_ascending : IATBatch -> bool; ib_amount : IATBatch -> bool; ib_hash : IATBatch -> bool;
  ib_trace_odfi : IATBatch -> bool; ib_addenda_seq : IATBatch -> bool; ib_category : IATBatch -> bool;
  ib_rules : IATBatch -> bool;

  f_live : File -> bool; f_isADV : File -> bool; f_header : File -> FH;
  f_batches : File -> list Batch; f_control : File -> Rec; f_advcontrol : File -> Rec;
  f_batchcount : File -> bool; f_adv_batchcount : File -> bool;
  f_eac : File -> bool; f_adv_eac : File -> bool; f_amount : File -> bool; f_adv_amount : File -> bool;
  f_ascending : File -> bool; f_hash : File -> bool; f_adv_hash : File -> bool;
  f_has_batches : File -> bool;

  (* reader: record type of a line, structural tests on the state, parsers, state updates *)
  rectype_of : Line -> rectype;
  s_file : St -> File;
  s_header_unset : St -> bool; s_control_unset : St -> bool; s_advcontrol_unset : St -> bool;
  s_has_cur : St -> bool; s_cur_empty : St -> bool; s_cur_isADV : St -> bool; s_has_iat : St -> bool;
  s_flush_cur : St -> St;                                  (* AddBatch of the batch in progress *)
  l_is_iat_header : Line -> bool;
  parse_fh : St -> Line -> FH;        s_set_header : St -> FH -> St;
  parse_bh : St -> Line -> Rec;       s_new_batch : St -> Rec -> option St;   (* NewBatch may reject the SEC code *)
  parse_iat_bh : St -> Line -> Rec;   s_new_iat : St -> Rec -> St;
  parse_entry : St -> Line -> Entry;  s_add_entry : St -> Entry -> St;
  parse_adventry : St -> Line -> Rec; s_add_adventry : St -> Rec -> St;
  parse_iatentry : St -> Line -> Rec; s_add_iatentry : St -> Rec -> St;
  (* addenda: None = structural error (no entry, indicator not 1); kind, record, state after attaching it *)
  parse_addenda : St -> Line -> option (rkind * Rec * St);
  parse_bc : St -> Line -> St;        (* batch control parsed into the batch in progress *)
  s_cur_control : St -> Rec;  s_cur_batch : St -> Batch;  s_close_batch : St -> St;
  s_iat_control : St -> Rec;  s_iat_batch : St -> IATBatch;  s_close_iat : St -> St;
  parse_fc : St -> Line -> St
}.

Section Trees.
  Variable D : Sig.

  (* a leaf record's Validate(): unguarded checks, and the checks its one flag guards *)
  Definition t_leaf (k : rkind) : vt (Rec D) :=
    match leaf_site k with
    | Some s => And (Chk (r_plain D k)) (Skip (r_live D) s (Chk (r_guarded D k)))
    | None => Chk (r_plain D k)
    end.

  (* FileHeader.ValidateWith(opts) / fieldInclusion; [plive]: the opts argument is set
     (Validate() passes fh.validateOpts, File.ValidateWith its own non-nil argument) *)
  Definition t_FileHeader (plive : FH D -> bool) : vt (FH D) :=
    seq [ Skip (fh_live D) (mksite "FileHeader.fieldInclusion" AllowMissingFileHeader 1) (Chk (fh_incl D));
          Chk (fh_basic D);
          Skip plive (mksite "FileHeader.ValidateWith" BypassOriginValidation 1) (Chk (fh_origin D));
          Skip plive (mksite "FileHeader.ValidateWith" BypassDestinationValidation 1) (Chk (fh_dest D));
          Skip (fh_live D) (mksite "FileHeader.ValidateWith" AllowSpecialCharacters 1) (Chk (fh_special D)) ].

  Definition t_Entry : vt (Entry D) :=
    seq [ Chk (e_basic D);
          Skip (e_live D) (mksite "EntryDetail.Validate" AllowSpecialCharacters 1) (Chk (e_special D));
          Skip (e_live D) (mksite "EntryDetail.Validate" AllowInvalidCheckDigit 1) (Chk (e_checkdigit D)) ].

  Definition t_entry_with_addenda : vt (Entry D) :=
    And t_Entry (seq (map (fun k => Each (e_addenda D k) (t_leaf k)) entry_addenda_kinds)).

  Definition t_Batch_isFieldInclusion : vt (Batch D) :=
    And (On (b_header D) (t_leaf KBatchHeader))
        (Ite (b_isADV D)
           (And (Each (b_adventries D) (And (t_leaf KADVEntry) (Each (adv_addenda99 D) (t_leaf KA99))))
                (On (b_advcontrol D) (t_leaf KADVBatchControl)))
           (And (Each (b_entries D) t_entry_with_addenda)
                (On (b_control D) (t_leaf KBatchControl)))).

  Definition t_Batch_isBatchEntryCount : vt (Batch D) :=
    Ite (b_isADV D)
      (Skip (b_live D) (mksite "Batch.isBatchEntryCount" UnequalAddendaCounts 2) (Chk (b_adv_count_eq D)))
      (Skip (b_live D) (mksite "Batch.isBatchEntryCount" UnequalAddendaCounts 1) (Chk (b_count_eq D))).

  Definition t_Batch_isSequenceAscending : vt (Batch D) :=
    Ite (b_isADV D) Pass
      (Skip (b_live D) (mksite "Batch.isSequenceAscending" CustomTraceNumbers 1) (Chk (b_ascending D))).

  Definition t_Batch_isTraceNumberODFI : vt (Batch D) :=
    Skip (b_live D) (mksite "Batch.isTraceNumberODFI" BypassOriginValidation 1) (Chk (b_trace_odfi D)).

  Definition t_Batch_verify : vt (Batch D) :=
    seq [ Chk (b_has_entries D);
          t_Batch_isFieldInclusion;
          Ite (b_isADV D)
            (seq [ Skip (b_live D) (mksite "Batch.verify" UnequalServiceClassCode 2) (Chk (b_adv_scc_eq D));
                   Chk (b_adv_odfi_eq D); Chk (b_adv_num_eq D) ])
            (seq [ Skip (b_live D) (mksite "Batch.verify" UnequalServiceClassCode 1) (Chk (b_scc_eq D));
                   Skip (b_live D) (mksite "Batch.verify" BypassCompanyIdentificationMatch 1) (Chk (b_cid_eq D));
                   Chk (b_odfi_eq D); Chk (b_num_eq D) ]);
          t_Batch_isBatchEntryCount;
          Skip (b_live D) (mksite "Batch.verify" CustomTraceNumbers 1) t_Batch_isSequenceAscending;
          Chk (b_amount D); Chk (b_hash D); Chk (b_dne D);
          Skip (b_live D) (mksite "Batch.verify" CustomTraceNumbers 2)
            (And t_Batch_isTraceNumberODFI (Chk (b_addenda_seq D)));
          Chk (b_category D) ].

  Definition be_live (p : Batch D * Entry D) : bool := b_live D (fst p).

  Definition t_ValidAmountForCodes : vt (Batch D * Entry D) :=
    Skip be_live (mksite "Batch.ValidAmountForCodes" AllowInvalidAmounts 1)
      (Ite (be_noc D) (Chk (be_amount_zero D))
         (Ite (be_return D) Pass
            (Ite (be_prenote D) (Chk (be_amount_zero D))
               (Ite (be_amount_zero D)
                  (Skip be_live (mksite "Batch.ValidAmountForCodes" AllowZeroEntryAmount 1) (Chk (be_zero_remittance D)))
                  Pass)))).

  Definition pairs (b : Batch D) : list (Batch D * Entry D) := map (pair b) (b_entries D b).

  (* BatchXXX.Validate *)
  Definition t_Batch_Validate : vt (Batch D) :=
    seq [ t_Batch_verify;
          Chk (b_sec_checks D);
          Ite (b_isADV D) Pass
            (Each pairs
               (And (Ite (fun p => b_isCTX D (fst p))
                       (Skip be_live (mksite "BatchCTX.Validate" UnequalAddendaCounts 1) (Chk (be_ctx_count D)))
                       Pass)
                    t_ValidAmountForCodes)) ].

  Definition t_iat_entry : vt (Rec D) :=
    seq [ t_leaf KIATEntry; Chk (ie_incl D);
          seq (map (fun k => Each (ie_addenda D k) (t_leaf k)) iat_addenda_kinds) ].

  Definition t_IATBatch_verify : vt (IATBatch D) :=
    seq [ Chk (ib_has_entries D);
          On (ib_header D) (t_leaf KIATBatchHeader);
          Each (ib_entries D) t_iat_entry;
          On (ib_control D) (t_leaf KBatchControl);
          Skip (ib_live D) (mksite "IATBatch.verify" UnequalServiceClassCode 1) (Chk (ib_scc_eq D));
          Chk (ib_odfi_eq D); Chk (ib_num_eq D);
          Skip (ib_live D) (mksite "IATBatch.verify" AllowSpecialCharacters 1) (Chk (ib_cid_special D));
          Skip (ib_live D) (mksite "IATBatch.isBatchEntryCount" UnequalAddendaCounts 1) (Chk (ib_count_eq D));
          Skip (ib_live D) (mksite "IATBatch.verify" CustomTraceNumbers 1)
            (Skip (ib_live D) (mksite "IATBatch.isSequenceAscending" CustomTraceNumbers 1) (Chk (ib_ascending D)));
          Chk (ib_amount D); Chk (ib_hash D);
          Skip (ib_live D) (mksite "IATBatch.verify" CustomTraceNumbers 2)
            (And (Skip (ib_live D) (mksite "IATBatch.isTraceNumberODFI" BypassOriginValidation 1) (Chk (ib_trace_odfi D)))
                 (Chk (ib_addenda_seq D)));
          Chk (ib_category D) ].

  Definition t_IATBatch_Validate : vt (IATBatch D) := And t_IATBatch_verify (Chk (ib_rules D)).

  (* File.ValidateWith(opts), opts non-nil, SkipAll off.  IAT batches are not
     re-validated here (the code loops over f.Batches only), ADV files neither. *)
  Definition t_File_ValidateWith : vt (File D) :=
    And (Skip always (mksite "File.ValidateWith" AllowMissingFileHeader 1) (On (f_header D) (t_FileHeader always)))
        (Ite (f_isADV D)
           (seq [ Chk (f_adv_batchcount D);
                  Skip always (mksite "File.ValidateWith" AllowMissingFileControl 2) (On (f_advcontrol D) (t_leaf KADVFileControl));
                  Skip (f_live D) (mksite "File.isEntryAddendaCount" UnequalAddendaCounts 2) (Chk (f_adv_eac D));
                  Chk (f_adv_amount D); Chk (f_adv_hash D) ])
           (seq [ Chk (f_batchcount D);
                  Each (f_batches D) t_Batch_Validate;
                  Skip always (mksite "File.ValidateWith" AllowMissingFileControl 1) (On (f_control D) (t_leaf KFileControl));
                  Skip (f_live D) (mksite "File.isEntryAddendaCount" UnequalAddendaCounts 1) (Chk (f_eac D));
                  Chk (f_amount D);
                  Skip always (mksite "File.ValidateWith" AllowUnorderedBatchNumbers 1)
                    (Skip (f_live D) (mksite "File.isSequenceAscending" CustomTraceNumbers 1) (Chk (f_ascending D)));
                  Chk (f_hash D) ])).

  (* the validation prelude of File.Create (not part of accepting a text) *)
  Definition t_File_Create_prelude : vt (File D) :=
    And (Skip (f_live D) (mksite "File.Create" AllowMissingFileHeader 1) (On (f_header D) (t_FileHeader (fh_live D))))
        (Skip (f_live D) (mksite "File.Create" AllowZeroBatches 1) (Chk (f_has_batches D))).

  (* ---- the reader.  [ok s] / [bad s]: line consumed without / with an error recorded. *)
  Definition ok (s : St D) : prog (St D) := Done s true.
  Definition bad (s : St D) : prog (St D) := Done s false.

  (* case batchControlPos of parseLine: the control record is validated, then the batch
     is added to the file and validated as a whole *)
  Definition close_batch (s1 : St D) : prog (St D) :=
    Check (s_cur_batch D s1) t_Batch_Validate (ok (s_close_batch D s1)) (bad (s_close_batch D s1)).
  Definition close_iat (s1 : St D) : prog (St D) :=
    Check (s_iat_batch D s1) t_IATBatch_Validate (ok (s_close_iat D s1)) (bad (s_close_iat D s1)).

  Definition prep (s : St D) (l : Line D) : prog (St D) :=
    match rectype_of D l with
    | RFileHeader =>
        if s_header_unset D s then
          let fh := parse_fh D s l in
          Check fh (t_FileHeader (fh_live D)) (ok (s_set_header D s fh)) (bad (s_set_header D s fh))
        else bad s
    | RBatchHeader =>
        if s_has_cur D s && s_cur_empty D s then bad s
        else
          let s1 := if s_has_cur D s then s_flush_cur D s else s in
          if l_is_iat_header D l then
            let bh := parse_iat_bh D s1 l in
            Check bh (t_leaf KIATBatchHeader) (ok (s_new_iat D s1 bh)) (bad s1)
          else
            let bh := parse_bh D s1 l in
            Check bh (t_leaf KBatchHeader)
              (match s_new_batch D s1 bh with Some s2 => ok s2 | None => bad s1 end) (bad s1)
    | REntry =>
        if s_has_iat D s then
          let e := parse_iatentry D s l in Check e (t_leaf KIATEntry) (ok (s_add_iatentry D s e)) (bad s)
        else if negb (s_has_cur D s) then bad s
        else if s_cur_isADV D s then
          let e := parse_adventry D s l in Check e (t_leaf KADVEntry) (ok (s_add_adventry D s e)) (bad s)
        else
          let e := parse_entry D s l in Check e t_Entry (ok (s_add_entry D s e)) (bad s)
    | RAddenda =>
        match parse_addenda D s l with
        | None => bad s
        | Some (k, r, s1) => Check r (t_leaf k) (ok s1) (bad s)
        end
    | RBatchControl =>
        if s_has_cur D s then
          let s1 := parse_bc D s l in
          Check (s_cur_control D s1) (t_leaf (if s_cur_isADV D s then KADVBatchControl else KBatchControl))
            (close_batch s1) (bad s1)
        else if s_has_iat D s then
          let s1 := parse_bc D s l in
          Check (s_iat_control D s1) (t_leaf KBatchControl) (close_iat s1) (bad s1)
        else bad s
    | RFileControl =>
        if f_isADV D (s_file D s) then
          if s_advcontrol_unset D s then
            let s1 := parse_fc D s l in Check (f_advcontrol D (s_file D s1)) (t_leaf KADVFileControl) (ok s1) (bad s1)
          else bad s
        else
          if s_control_unset D s then
            let s1 := parse_fc D s l in Check (f_control D (s_file D s1)) (t_leaf KFileControl) (ok s1) (bad s1)
          else bad s
    | RPadding => ok s
    | RUnknown => bad s
    end.

  (* after the last line: a batch still in progress is added, the missing
     header / control tests of Reader.Read, then File.ValidateWith *)
  Definition s_final (s : St D) : St D := if s_has_cur D s then s_flush_cur D s else s.
  Definition sf_live (s : St D) : bool := f_live D (s_file D s).

  Definition t_final : vt (St D) :=
    On s_final
      (seq [ Ite (s_header_unset D)
               (Skip sf_live (mksite "Reader.Read" AllowMissingFileHeader 1) (Chk (fun _ => false))) Pass;
             Ite (fun s => f_isADV D (s_file D s))
               (Skip sf_live (mksite "Reader.Read" AllowMissingFileControl 2) (Chk (fun s => negb (s_advcontrol_unset D s))))
               (Skip sf_live (mksite "Reader.Read" AllowMissingFileControl 1) (Chk (fun s => negb (s_control_unset D s))));
             On (s_file D) t_File_ValidateWith ]).

  (* accept(O, text): Reader.SetValidation(O); Read; File.ValidateWith(O) *)
  Definition ach_accept (o : opts) (s0 : St D) (ls : list (Line D)) : bool :=
    accept prep t_final o s0 ls.
End Trees.

(* ---- static inventory (independent of the data) *)
Definition dedup_sites (l : list site) : list site :=
  fold_right (fun s acc =>
     if existsb (fun s' => String.eqb (s_func s) (s_func s') && flag_eqb (s_flag s) (s_flag s') && Nat.eqb (s_occ s) (s_occ s')) acc
     then acc else s :: acc) [] l.

Definition clause_eqb (a b : clause) : bool :=
  Nat.eqb (List.length a) (List.length b) && forallb (fun p => flag_eqb (fst p) (snd p)) (combine a b).

Definition incl_b (l m : list clause) : bool := forallb (fun c => existsb (clause_eqb c) m) l.

Definition model_sites_of (D : Sig) : list site :=
  dedup_sites (sites (t_final D) ++ sites (t_File_Create_prelude D)
               ++ sites (t_IATBatch_Validate D) ++ sites (t_Entry D) ++ sites (t_FileHeader D (fh_live D))
               ++ flat_map (fun k => sites (t_leaf D k)) all_kinds).

(* every clause a check of the reader can carry *)
Definition model_clauses_of (D : Sig) : list clause :=
  [] :: clauses (t_final D) [] ++ clauses (t_FileHeader D (fh_live D)) [] ++ clauses (t_Entry D) []
     ++ clauses (t_Batch_Validate D) [] ++ clauses (t_IATBatch_Validate D) []
     ++ flat_map (fun k => clauses (t_leaf D k) []) all_kinds.

(* a data-free instance, to compute the inventory *)
Definition base_sig (origin_ok : bool) (rt : rectype) (hdr_unset : bool) : Sig := {|
  Rec := unit; FH := unit; Entry := unit; Batch := unit; IATBatch := unit; File := unit; St := unit; Line := unit;
  r_live := fun _ => true; r_plain := fun _ _ => true; r_guarded := fun _ _ => true;
  fh_live := fun _ => true; fh_incl := fun _ => true; fh_basic := fun _ => true;
  fh_origin := fun _ => origin_ok; fh_dest := fun _ => true; fh_special := fun _ => true;
  e_live := fun _ => true; e_basic := fun _ => true; e_special := fun _ => true; e_checkdigit := fun _ => true;
  e_addenda := fun _ _ => [];
  b_live := fun _ => true; b_isADV := fun _ => false; b_isCTX := fun _ => false;
  b_header := fun _ => tt; b_control := fun _ => tt; b_advcontrol := fun _ => tt;
  b_entries := fun _ => []; b_adventries := fun _ => []; adv_addenda99 := fun _ => [];
  b_has_entries := fun _ => true;
  b_scc_eq := fun _ => true; b_cid_eq := fun _ => true; b_odfi_eq := fun _ => true; b_num_eq := fun _ => true;
  b_adv_scc_eq := fun _ => true; b_adv_odfi_eq := fun _ => true; b_adv_num_eq := fun _ => true;
  b_count_eq := fun _ => true; b_adv_count_eq := fun _ => true; b_ascending := fun _ => true;
  b_amount := fun _ => true; b_hash := fun _ => true; b_dne := fun _ => true;
  b_trace_odfi := fun _ => true; b_addenda_seq := fun _ => true; b_category := fun _ => true;
  b_sec_checks := fun _ => true; be_ctx_count := fun _ => true;
  be_noc := fun _ => false; be_return := fun _ => false; be_prenote := fun _ => false;
  be_amount_zero := fun _ => false; be_zero_remittance := fun _ => true;
  ib_live := fun _ => true; ib_header := fun _ => tt; ib_control := fun _ => tt;
  ib_entries := fun _ => []; ie_addenda := fun _ _ => []; ie_incl := fun _ => true;
  ib_has_entries := fun _ => true; ib_scc_eq := fun _ => true; ib_odfi_eq := fun _ => true;
  ib_num_eq := fun _ => true; ib_cid_special := fun _ => true; ib_count_eq := fun _ => true;
  ib_ascending := fun _ => true; ib_amount := fun _ => true; ib_hash := fun _ => true;
  ib_trace_odfi := fun _ => true; ib_addenda_seq := fun _ => true; ib_category := fun _ => true;
  ib_rules := fun _ => true;
  f_live := fun _ => true; f_isADV := fun _ => false; f_header := fun _ => tt;
  f_batches := fun _ => []; f_control := fun _ => tt; f_advcontrol := fun _ => tt;
  f_batchcount := fun _ => true; f_adv_batchcount := fun _ => true;
  f_eac := fun _ => true; f_adv_eac := fun _ => true; f_amount := fun _ => true; f_adv_amount := fun _ => true;
  f_ascending := fun _ => true; f_hash := fun _ => true; f_adv_hash := fun _ => true;
  f_has_batches := fun _ => true;
  rectype_of := fun _ => rt;
  s_file := fun _ => tt;
  s_header_unset := fun _ => hdr_unset; s_control_unset := fun _ => false; s_advcontrol_unset := fun _ => false;
  s_has_cur := fun _ => false; s_cur_empty := fun _ => false; s_cur_isADV := fun _ => false; s_has_iat := fun _ => false;
  s_flush_cur := fun s => s; l_is_iat_header := fun _ => false;
  parse_fh := fun _ _ => tt; s_set_header := fun s _ => s;
  parse_bh := fun _ _ => tt; s_new_batch := fun s _ => Some s;
  parse_iat_bh := fun _ _ => tt; s_new_iat := fun s _ => s;
  parse_entry := fun _ _ => tt; s_add_entry := fun s _ => s;
  parse_adventry := fun _ _ => tt; s_add_adventry := fun s _ => s;
  parse_iatentry := fun _ _ => tt; s_add_iatentry := fun s _ => s;
  parse_addenda := fun _ _ => None;
  parse_bc := fun s _ => s;
  s_cur_control := fun _ => tt; s_cur_batch := fun _ => tt; s_close_batch := fun s => s;
  s_iat_control := fun _ => tt; s_iat_batch := fun _ => tt; s_close_iat := fun s => s;
  parse_fc := fun s _ => s
|}.

Definition unit_sig : Sig := base_sig true RPadding false.

Definition model_sites : list site := model_sites_of unit_sig.

(* the clause family of the model (with repetitions, in tree order) *)
Definition model_family : list clause := model_clauses_of unit_sig.

(* for the harness: each clause as the list of its flag numbers *)
Definition model_family_idx : list (list nat) := map (map flag_idx) model_family.
Definition flag_of_idx (n : nat) : option flag := nth_error all_flags n.
Definition flags_of_idx (l : list nat) : list flag :=
  flat_map (fun n => match flag_of_idx n with Some f => [f] | None => [] end) l.

(* the function the extracted driver runs: prediction of accept(on) from the
   observations obs (one per clause of model_family, in order) *)
Definition model_predict (obs : list bool) (on : list nat) : bool :=
  predict_l model_family obs (flags_of_idx on).

(* C04, phase 7: truncation of a written text, for the validating (typed) reader.

   Model/TruncUtf8Facts.v dispatch_truncated_u says what the STRUCTURAL reader makes of the lines of a
   byte prefix: no file, the file, or the file with a cut control record.  The typed reader is in
   general more permissive than the structural one, so "no file" does not transfer by itself; it is
   proved here along the same case analysis, with the REASON of each case exposed ([cut_class]):

     CutNoCtl    no line of the prefix is a control line ('9')          -> no File.Control: no file
     CutSpill    the last line starts with U+FFFD (the cut control record spilt into a second line)
                                                                          -> unknown record type
     CutSecond   the records, some filler lines, then a filler line cut after its first character
                 ("9" and 93 blanks): a second file control record        -> refused by both readers
     CutFiller   the records, some filler lines, possibly a filler line cut after >= 2 characters
                 (starts "99": padding)                                   -> the same lines as the file
     CutCtl      the control record cut after c characters (and j bytes) -> the file with that control

   and the typed reader ([dstep] of Codec/Dispatch.v, [g_dstep] of Codec/ReaderValid.v) on the three
   rejecting classes and on padding lines. *)
From Coq Require Import String List Lia ZArith Bool NArith.
From ACH Require Import TamperText TamperTextFacts FramingFacts FramingBytes FileStructFacts TruncFacts TamperFacts TruncBytes.
From ACH Require Import Utf8Enc RuneFacts TruncUtf8 Utf8Prefix TruncCtl NumFacts TruncUtf8Facts.
From ACH Require Import DispatchFacts ReaderSkel ReaderSkelFacts TamperValidFacts.
Import ListNotations.
Local Open Scope nat_scope.
Local Open Scope list_scope.

(* a line the readers skip as final-block padding *)
Definition padl (x : bytes) : Prop := rune_count x = 94 /\ rtype x = T9 /\ starts99 x = true.

Lemma padl_nines : padl nines.
Proof. repeat split; reflexivity. Qed.

Lemma padl_cut_nines c : 2 <= c <= 94 -> padl (cut_line nines c).
Proof.
  intros H. destruct (cut_nines c H) as [A B]. split; [|now split].
  assert (Ha : asciib (cut_line nines c) = true).
  { unfold cut_line. rewrite asciib_app, (asciib_firstn c nines eq_refl). cbn [andb].
    unfold asciib. apply forallb_forall. intros x Hx. apply repeat_spec in Hx. now subst. }
  rewrite (rune_count_ascii _ Ha). unfold cut_line. rewrite app_length, firstn_length, repeat_length.
  change (length nines) with 94. lia.
Qed.

Section Why.
Variable f : fileS.
Hypothesis Htyped : file_typed f = true.
Hypothesis H99 : starts99 (f_ctl f) = false.
Hypothesis Hu : Forall uline (record_lines f).

Let body := f_hdr f :: flat_map batch_lines (f_batches f).
Let m := length body.

Inductive cut_class (L : list bytes) : Prop :=
| CutNoCtl : Forall (fun l => rtype l <> T9) L -> cut_class L
| CutSpill (pre : list bytes) (x : bytes) : L = pre ++ [x] -> rtype x = 239%N -> cut_class L
| CutSecond (n : nat) (x : bytes) : L = record_lines f ++ repeat nines n ++ [x] -> rtype x = T9 -> starts99 x = false ->
    cut_class L
| CutFiller (n : nat) (tl : list bytes) : L = record_lines f ++ repeat nines n ++ tl -> Forall padl tl ->
    read_struct L = Some f -> cut_class L
| CutCtl (c j : nat) : 1 <= c <= 94 -> c + j <= 94 -> j <= 3 ->
    (0 < j -> j < length (nth c (chars (f_ctl f)) [])) ->
    L = body ++ [cut_ctl (f_ctl f) c j] ->
    read_struct L = Some (with_ctl f (cut_ctl (f_ctl f) c j)) -> cut_class L.

Lemma rec_body : record_lines f = body ++ [f_ctl f].
Proof. reflexivity. Qed.

Lemma len_rec : length (record_lines f) = S m.
Proof. rewrite rec_body, app_length. cbn [length]. unfold m. lia. Qed.

Theorem dispatch_truncated_u_why i c j : i < length (physical_lines f) -> c <= 94 -> j <= 3 ->
  (0 < j -> c < 94 /\ j < length (nth c (chars (nth i (physical_lines f) [])) [])) ->
  cut_class (firstn i (physical_lines f) ++ tail_u (nth i (physical_lines f) []) c j).
Proof.
  intros Hi Hc Hj Hcj.
  pose proof (ctl_T9_u f Htyped) as Hc9. pose proof (uline_ctl f Hu) as Huc.
  destruct (Nat.eq_dec (c + j) 0) as [E0|E0].
  - (* the cut is at a line boundary *)
    assert (Et : tail_u (nth i (physical_lines f) []) c j = []) by (unfold tail_u; now rewrite E0).
    rewrite Et, app_nil_r.
    destruct (Nat.le_gt_cases (length (record_lines f)) i) as [Hge|Hlt].
    + assert (EL : firstn i (physical_lines f)
                   = record_lines f ++ repeat nines (Nat.min (i - length (record_lines f)) (pad_count (length (record_lines f)))) ++ []).
      { unfold physical_lines. rewrite firstn_app, firstn_all2 by exact Hge. now rewrite firstn_repeat, app_nil_r. }
      apply (CutFiller _ _ [] EL); [constructor|]. rewrite EL, app_nil_r. now apply read_struct_written.
    + apply CutNoCtl. unfold physical_lines. rewrite firstn_app. replace (i - length (record_lines f)) with 0 by lia.
      cbn [firstn]. rewrite app_nil_r. rewrite len_rec in Hlt. rewrite rec_body, firstn_app.
      replace (i - length body) with 0 by (fold m; lia). cbn [firstn]. rewrite app_nil_r.
      apply Forall_firstn. now apply TruncFacts.body_not_ctl.
  - destruct (Nat.lt_trichotomy i m) as [Hlt|[Heq|Hgt]].
    + (* inside a record before the file control *)
      apply CutNoCtl.
      assert (Hb : Forall (fun l => rtype l <> T9) body) by now apply TruncFacts.body_not_ctl.
      assert (Hnth : nth i (physical_lines f) [] = nth i body []).
      { unfold physical_lines. rewrite rec_body, <- app_assoc, app_nth1 by (fold m; lia). reflexivity. }
      assert (Hfirst : firstn i (physical_lines f) = firstn i body).
      { unfold physical_lines. rewrite rec_body, <- app_assoc, firstn_app. fold m.
        replace (i - m) with 0 by lia. cbn [firstn]. now rewrite app_nil_r. }
      rewrite Hnth, Hfirst. apply Forall_app. split; [now apply Forall_firstn|].
      assert (Hin : In (nth i body []) body) by (apply nth_In; fold m; lia).
      apply tail_u_not_ctl; [|exact Hc|].
      * rewrite Forall_forall in Hu. apply Hu. rewrite rec_body. apply in_or_app. now left.
      * rewrite Forall_forall in Hb. now apply Hb.
    + (* inside the file control record *)
      assert (Hnth : nth i (physical_lines f) [] = f_ctl f).
      { unfold physical_lines. rewrite rec_body, <- app_assoc, app_nth2 by (fold m; lia). fold m.
        rewrite Heq, Nat.sub_diag. reflexivity. }
      assert (Hfirst : firstn i (physical_lines f) = body).
      { unfold physical_lines. rewrite rec_body, <- app_assoc, firstn_app. fold m.
        rewrite Heq, Nat.sub_diag. cbn [firstn]. rewrite app_nil_r. unfold m. apply firstn_all. }
      rewrite Hnth in Hcj |- *. rewrite Hfirst.
      destruct (ctl_first_char (f_ctl f) Hc9) as (t & Et & Ec).
      assert (Hc1 : 1 <= c).
      { destruct (Nat.eq_dec c 0) as [->|]; [|lia]. exfalso. destruct (Hcj ltac:(lia)) as [_ B].
        rewrite Ec in B. cbn [nth length] in B. lia. }
      unfold tail_u. destruct (Nat.eqb_spec (c + j) 0) as [|_]; [lia|].
      destruct (Nat.leb_spec (c + j) 94) as [Hle|Hgt].
      * fold (cut_ctl (f_ctl f) c j). set (ctl' := cut_ctl (f_ctl f) c j).
        assert (Ht' : file_typed (with_ctl f ctl') = true).
        { apply (typed_with_ctl f Htyped). unfold ctl', cut_ctl. rewrite rtype_cut_u by (assumption || lia). exact Hc9. }
        assert (H99' : starts99 (f_ctl (with_ctl f ctl')) = false).
        { cbn [with_ctl f_ctl]. unfold ctl', cut_ctl. apply starts99_cut_u; try assumption; lia. }
        assert (Hjj : 0 < j -> j < length (nth c (chars (f_ctl f)) [])) by (intros Hj0; now apply Hcj).
        pose proof (read_struct_written _ 0 Ht' H99') as Hr. cbn [repeat] in Hr. rewrite app_nil_r in Hr.
        exact (CutCtl _ c j ltac:(lia) Hle Hj Hjj eq_refl Hr).
      * (* the U+FFFD characters spill into a second line *)
        apply (CutSpill _ (body ++ [pad94 (cut_chars (f_ctl f) c (94 - c))]) (pad94 (concat (repeat U_b (c + j - 94))))).
        -- now rewrite <- app_assoc.
        -- apply rtype_U_line. lia.
    + (* inside a 9-filler line *)
      assert (Hlen : length (physical_lines f) = S m + pad_count (S m)).
      { unfold physical_lines. now rewrite app_length, repeat_length, len_rec. }
      assert (Hnth : nth i (physical_lines f) [] = nines).
      { unfold physical_lines. rewrite app_nth2 by (rewrite len_rec; lia).
        apply nth_repeat_lt. rewrite len_rec. lia. }
      assert (Hfirst : firstn i (physical_lines f) = record_lines f ++ repeat nines (i - S m)).
      { unfold physical_lines. rewrite firstn_app, firstn_all2 by (rewrite len_rec; lia).
        rewrite len_rec, firstn_repeat. f_equal. f_equal. rewrite Hlen in Hi. lia. }
      rewrite Hnth in Hcj |- *.
      assert (Hj0 : j = 0).
      { destruct j as [|j]; [reflexivity|]. exfalso. destruct (Hcj ltac:(lia)) as [Hc94 B].
        assert (Ha : asciib nines = true) by reflexivity.
        rewrite (chars_ascii nines Ha) in B. unfold S1 in B.
        assert (Hn : c < length nines) by (cbn; lia).
        rewrite (nth_indep _ [] (single 0%N)) in B by (rewrite map_length; exact Hn).
        rewrite map_nth in B. cbn [single length] in B. lia. }
      subst j. rewrite Nat.add_0_r in E0.
      assert (Ha : asciib nines = true) by reflexivity.
      rewrite Hfirst, (tail_u_ascii nines c Ha eq_refl Hc). unfold tail_of.
      destruct (Nat.eqb_spec c 0) as [|_]; [lia|]. rewrite <- app_assoc.
      destruct (Nat.eq_dec c 1) as [->|Hc1].
      * destruct cut_nines_1 as [A B]. now apply (CutSecond _ (i - S m) (cut_line nines 1)).
      * apply (CutFiller _ (i - S m) [cut_line nines c] eq_refl).
        -- constructor; [apply padl_cut_nines; lia|constructor].
        -- destruct (cut_nines c ltac:(lia)) as [A B].
           unfold read_struct. fold init_state.
           rewrite !fold_rstep_app, (fold_record_lines f Htyped H99), r_fillers. cbn [fold_left].
           rewrite (rstep_skip _ _ A B). cbn. rewrite rev_involutive. now destruct f.
Qed.

End Why.

(* ------------------------------------------------------------------ *)
(* the typed reader on the rejecting classes                             *)

Section Typed.
Variable T : list layout.

Lemma dstep_unknown st x : rtype x = 239%N -> dstep T st x = None.
Proof.
  intros H. destruct st as [s|]; [|reflexivity]. unfold dstep. rewrite H.
  destruct (negb (rune_count x =? 94)); reflexivity.
Qed.

Lemma read_file_spill pre x : rtype x = 239%N -> read_file T (pre ++ [x]) = None.
Proof.
  intros H. unfold read_file. rewrite fold_left_app. cbn [fold_left]. now rewrite (dstep_unknown _ x H).
Qed.

Lemma not_T9_not_ctl ls : Forall (fun l => rtype l <> T9) ls -> Forall not_ctl ls.
Proof. intros H. eapply Forall_impl; [|exact H]. intros l Hl. now left. Qed.

(* the control slot File.IsADV() selects is filled *)
Definition ctl_set (s : dstate) : Prop :=
  if any_adv (d_std s) then d_actl s <> None else d_ctl s <> None.

Lemma dstep_ctl_sets s l s' : rtype l = T9 -> starts99 l = false -> dstep T (Some s) l = Some s' -> ctl_set s'.
Proof.
  intros H9 H99. unfold dstep. destruct (negb (rune_count l =? 94)); [discriminate|]. cbv zeta. rewrite H9.
  cbn [N.eqb T1 T5 T6 T7 T8 T9 Pos.eqb]. unfold step9. rewrite pad_starts99, H99. unfold ctl_set.
  destruct (any_adv (d_std s)) eqn:Ea.
  - destruct (d_actl s); [discriminate|]. destruct (read_rec T "ADVFileControl" l); [|discriminate].
    intros E. injection E as <-. cbn [d_std d_actl]. rewrite Ea. discriminate.
  - destruct (d_ctl s); [discriminate|]. destruct (read_rec T "FileControl" l); [|discriminate].
    intros E. injection E as <-. cbn [d_std d_ctl]. rewrite Ea. discriminate.
Qed.

Lemma dstep_pad s l : padl l -> dstep T (Some s) l = Some s.
Proof.
  intros (Hn & H9 & H99). unfold dstep. rewrite Hn, Nat.eqb_refl. cbn [negb]. cbv zeta. rewrite H9.
  cbn [N.eqb T1 T5 T6 T7 T8 T9 Pos.eqb]. unfold step9. now rewrite pad_starts99, H99.
Qed.

Lemma fold_dstep_pads ls : Forall padl ls -> forall s, fold_left (dstep T) ls (Some s) = Some s.
Proof. induction 1 as [|l ls Hl _ IH]; intros s; [reflexivity|]. cbn [fold_left]. now rewrite (dstep_pad s l Hl). Qed.

Lemma dstep_second_ctl s l : rtype l = T9 -> starts99 l = false -> ctl_set s -> dstep T (Some s) l = None.
Proof.
  intros H9 H99 Hs. unfold dstep. destruct (negb (rune_count l =? 94)); [reflexivity|]. cbv zeta. rewrite H9.
  cbn [N.eqb T1 T5 T6 T7 T8 T9 Pos.eqb]. unfold step9. rewrite pad_starts99, H99. unfold ctl_set in Hs.
  destruct (any_adv (d_std s)).
  - destruct (d_actl s); [reflexivity|congruence].
  - destruct (d_ctl s); [reflexivity|congruence].
Qed.

(* a control record, filler lines, and a second control record: Read fails *)
Lemma read_file_second_ctl pre ctl n x : rtype ctl = T9 -> starts99 ctl = false -> rtype x = T9 -> starts99 x = false ->
  read_file T ((pre ++ [ctl]) ++ repeat nines n ++ [x]) = None.
Proof.
  intros C9 C99 X9 X99. unfold read_file. rewrite !fold_left_app. cbn [fold_left].
  destruct (fold_left (dstep T) pre (Some d_init)) as [s0|]; [|now rewrite !dstep_none].
  destruct (dstep T (Some s0) ctl) as [s1|] eqn:E1; [|now rewrite dstep_none].
  rewrite (fold_dstep_pads (repeat nines n)) by (apply Forall_repeat, padl_nines).
  now rewrite (dstep_second_ctl s1 x X9 X99 (dstep_ctl_sets s0 ctl s1 C9 C99 E1)).
Qed.

End Typed.

(* ------------------------------------------------------------------ *)
(* the validating reader skips padding lines                             *)

Section Pads.
Variable T : list layout.
Variable ok : recordR -> bool.
Variable bok : kind -> batchR -> bool.

Lemma g_dstep_pad st l : padl l -> g_dstep T ok bok (Some st) l = Some st.
Proof.
  intros (Hn & H9 & H99). destruct st as [s lg]. unfold g_dstep. rewrite Hn, Nat.eqb_refl. cbn [negb].
  cbv zeta. rewrite H9. cbn [N.eqb T1 T5 T6 T7 T8 T9 Pos.eqb]. unfold h_step9. now rewrite pad_starts99, H99.
Qed.

Lemma g_fold_pads ls : Forall padl ls -> forall st, fold_left (g_dstep T ok bok) ls (Some st) = Some st.
Proof. induction 1 as [|l ls Hl _ IH]; intros st; [reflexivity|]. cbn [fold_left]. now rewrite (g_dstep_pad st l Hl). Qed.

Lemma g_fold_none ls : fold_left (g_dstep T ok bok) ls None = None.
Proof. induction ls as [|l ls IH]; [reflexivity|exact IH]. Qed.

(* Reader.Read does not see trailing padding lines *)
Lemma g_read_file_pads A P : Forall padl P -> g_read_file T ok bok (A ++ P) = g_read_file T ok bok A.
Proof.
  intros HP. unfold g_read_file. rewrite fold_left_app.
  destruct (fold_left (g_dstep T ok bok) A (Some (d_init, false))) as [st|]; [now rewrite (g_fold_pads P HP)|now rewrite g_fold_none].
Qed.

End Pads.

(* ------------------------------------------------------------------ *)
(* the lines of a prefix that ends inside a filler line                   *)

Lemma cut_line_norm c : 0 < c < 94 -> norm_line (firstn c nines) = NLine (cut_line nines c).
Proof.
  intros Hc. assert (Ha : asciib (firstn c nines) = true) by (apply asciib_firstn; reflexivity).
  unfold norm_line. cbv zeta. rewrite (rune_count_ascii _ Ha), firstn_length. change (length nines) with 94.
  replace (Nat.min c 94) with c by lia.
  destruct (Nat.eqb_spec c 94); [lia|]. destruct (Nat.ltb_spec 94 c); [lia|]. reflexivity.
Qed.

Lemma lines_filler_prefix le A c : le_ok le -> Forall uline A -> c <= 94 ->
  all_lines (read_lines (text_of le A ++ firstn c nines)) = Some (A ++ tail_of nines c).
Proof.
  intros Hle HA Hc. unfold read_lines.
  assert (Ha : asciib (firstn c nines) = true) by (apply asciib_firstn; reflexivity).
  rewrite (chars_app_wf _ _ (wf_text_of le A Hle HA)), (chars_ascii _ Ha).
  destruct (frame_ulines le A Hle HA (S1 (firstn c nines)) 0) as [n' E].
  rewrite <- (map_map snd norm_line), E, map_app, (map_norm_ulines A HA).
  assert (Et : map norm_line (map snd (frame (S1 (firstn c nines)) [] 0 n')) = map NLine (tail_of nines c)).
  { unfold tail_of. destruct (Nat.eqb_spec c 0) as [->|Hc0]; [reflexivity|].
    destruct (Nat.eq_dec c 94) as [->|Hc94].
    - change (firstn 94 nines) with nines. rewrite <- (app_nil_r (S1 nines)).
      rewrite (frame_full (S1 nines) [] n' (good_full nines nines_good)), concat_S1. reflexivity.
    - rewrite frame_tail_short; [|apply no_nl_firstn; reflexivity|rewrite firstn_length; change (length nines) with 94; lia].
      cbn [map snd]. rewrite cut_line_norm by lia. reflexivity. }
  rewrite Et, <- map_app. apply all_lines_NLine.
Qed.

(* ... inside any ASCII record line (the file control record the library writes) *)
Lemma cut_good_norm l c : good_line l -> 0 < c < 94 -> norm_line (firstn c l) = NLine (cut_line l c).
Proof.
  intros (Hl & Ha & _) Hc. assert (Ha' : asciib (firstn c l) = true) by now apply asciib_firstn.
  unfold norm_line. cbv zeta. rewrite (rune_count_ascii _ Ha'), firstn_length, Hl.
  replace (Nat.min c 94) with c by lia.
  destruct (Nat.eqb_spec c 94); [lia|]. destruct (Nat.ltb_spec 94 c); [lia|]. reflexivity.
Qed.

Lemma lines_good_prefix le A l c : le_ok le -> Forall uline A -> good_line l -> c <= 94 ->
  all_lines (read_lines (text_of le A ++ firstn c l)) = Some (A ++ tail_of l c).
Proof.
  intros Hle HA Hg Hc. pose proof Hg as (Hl & Hasc & Hnl & Hb). unfold read_lines.
  assert (Ha : asciib (firstn c l) = true) by now apply asciib_firstn.
  rewrite (chars_app_wf _ _ (wf_text_of le A Hle HA)), (chars_ascii _ Ha).
  destruct (frame_ulines le A Hle HA (S1 (firstn c l)) 0) as [n' E].
  rewrite <- (map_map snd norm_line), E, map_app, (map_norm_ulines A HA).
  assert (Et : map norm_line (map snd (frame (S1 (firstn c l)) [] 0 n')) = map NLine (tail_of l c)).
  { unfold tail_of. destruct (Nat.eqb_spec c 0) as [->|Hc0]; [reflexivity|].
    destruct (Nat.eq_dec c 94) as [->|Hc94].
    - rewrite firstn_all2 by lia. rewrite <- (app_nil_r (S1 l)).
      rewrite (frame_full (S1 l) [] n' (good_full l Hg)), concat_S1. unfold emit. rewrite Hb.
      cbn [frame Nat.ltb Nat.leb map snd]. rewrite (cut_line_all l Hl).
      unfold norm_line. cbv zeta. now rewrite (rune_count_ascii l Hasc), Hl.
    - rewrite frame_tail_short; [|now apply no_nl_firstn|rewrite firstn_length, Hl; lia].
      cbn [map snd]. rewrite (cut_good_norm l c Hg) by lia. reflexivity. }
  rewrite Et, <- map_app. apply all_lines_NLine.
Qed.

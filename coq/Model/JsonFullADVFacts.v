(* C07 (phase 7) — facts about the explicit ADV conditions (JsonFullADV.v):
   A. reflexivity of the tree equality tests; keys of a node;
   B. the ADV loop of Batch.build: [build_adv_entries_ok], [build_adv_entries_out];
   C. [adv_built_of_explicit]: the explicit conditions imply the opaque "build gives back the control and changes
      nothing else"; [adv_build_idem]: Batch.build is idempotent on ADV batches (what build produced is tabulated);
   D. [adv_tabulated_tabulated], [catx_clean_adv]: the grouped hypotheses of C07_roundtrip from the explicit ones;
   E. File.UnmarshalJSON: [unmarshal_own_opts]. *)
From Coq Require Import String Ascii List Bool ZArith NArith Lia.
Import ListNotations.
From ACH Require Import Bytes JsonCodec JsonCodecFacts JsonSurvive JsonPostTable Layout LayoutOk LayoutFacts CustomFacts FileStruct.
From ACH Require Import JsonFile JsonFileFacts JsonFileCurrent JsonFull JsonFullFacts JsonFullADV JsonPost.
Local Open Scope string_scope.
Local Open Scope list_scope.

(* ------------------------------------------------------------ A. equality tests, keys *)

Lemma bytes_eqb_same a : bytes_eqb a a = true.
Proof. apply bytes_eqb_eq. reflexivity. Qed.

Lemma value_eqb_refl a : value_eqb a a = true.
Proof. destruct a; cbn [value_eqb]; [apply bytes_eqb_same | apply Z.eqb_refl]. Qed.

Lemma recval_eqb_refl a : recval_eqb a a = true.
Proof.
  induction a as [|[f v] a IH]; cbn [recval_eqb]; [reflexivity|].
  rewrite String.eqb_refl, value_eqb_refl, IH. reflexivity.
Qed.

Lemma rtree_eqb_refl a : rtree_eqb a a = true.
Proof.
  induction a as [n s k IH] using rtree_ind'.
  rewrite rtree_eqb_unfold, String.eqb_refl, recval_eqb_refl. cbn [andb].
  induction IH as [|[g ns] k Hns _ IHk]; [reflexivity|].
  cbn [kids_eqb]. rewrite String.eqb_refl, IHk, andb_true_r. cbn [andb snd] in *.
  induction Hns as [|x xs Hx _ IHxs]; [reflexivity|].
  cbn [nodes_eqb]. rewrite Hx, IHxs. reflexivity.
Qed.

Lemma trees_eqb_refl l : trees_eqb l l = true.
Proof. induction l as [|x l IH]; [reflexivity|]. cbn [trees_eqb]. rewrite rtree_eqb_refl, IH. reflexivity. Qed.

Definition kkey (ks : list (string * list rtree)) (k : string) : bool := existsb (fun p => String.eqb (fst p) k) ks.

Lemma kset_same ks k : kkey ks k = true -> kset ks k (kget ks k) = ks.
Proof.
  induction ks as [|[g ns] ks IH]; [discriminate|].
  unfold kkey. cbn [existsb fst kget kset]. intros H.
  rewrite (String.eqb_sym g k) in H. destruct (String.eqb k g) eqn:Ekg; [reflexivity|].
  cbn [orb] in H. f_equal. apply IH. exact H.
Qed.

Lemma kkey_kset_same ks k ns : kkey (kset ks k ns) k = true.
Proof.
  induction ks as [|[g old] ks IH]; unfold kkey in *; cbn [kset].
  - cbn [existsb fst]. rewrite String.eqb_refl. reflexivity.
  - destruct (String.eqb k g) eqn:Ekg; cbn [existsb fst].
    + rewrite String.eqb_sym, Ekg. reflexivity.
    + rewrite IH. apply orb_true_r.
Qed.

Lemma kkey_kset_mono ks k ns k' : kkey ks k' = true -> kkey (kset ks k ns) k' = true.
Proof.
  induction ks as [|[g old] ks IH]; unfold kkey in *; cbn [kset]; [discriminate|].
  cbn [existsb fst]. intros H. destruct (String.eqb k g) eqn:Ekg; cbn [existsb fst].
  - exact H.
  - apply orb_prop in H as [H|H]; [rewrite H; reflexivity|]. rewrite (IH H). apply orb_true_r.
Qed.

Lemma has_key_set_kid_same r k ns : has_key (set_kid r k ns) k = true.
Proof. unfold has_key, set_kid. cbn [rkids]. apply kkey_kset_same. Qed.

Lemma has_key_set_kid_mono r k ns k' : has_key r k' = true -> has_key (set_kid r k ns) k' = true.
Proof. unfold has_key, set_kid. cbn [rkids]. apply kkey_kset_mono. Qed.

Lemma has_key_sset r f s k : has_key (sset r f s) k = has_key r k.
Proof. reflexivity. Qed.

Lemma has_key_decor o b k : has_key b k = true -> has_key (decor o b) k = true.
Proof. intros H. unfold decor. apply has_key_set_kid_mono. rewrite has_key_sset. exact H. Qed.

Lemma set_kid_eq r k ns : has_key r k = true -> kid r k = ns -> set_kid r k ns = r.
Proof.
  intros Hk <-. unfold set_kid, kid. rewrite kset_same by exact Hk. apply rt_eta.
Qed.

(* ------------------------------------------------------------ B. the ADV loop of Batch.build *)

Lemma build_adv_entries_ok es : forall seq, adv_seq_ok seq es = true -> build_adv_entries seq es = Good es.
Proof.
  induction es as [|e r IH]; intros seq H; [reflexivity|].
  cbn [adv_seq_ok] in H. apply andb_prop in H as [H H3]. apply andb_prop in H as [H1 H2].
  apply negb_true_iff in H1. cbn [build_adv_entries]. rewrite H1, (IH _ H3). cbn [bind].
  rewrite iset_same by exact H2. reflexivity.
Qed.

Lemma has_int_iset e f z : has_int f z (iset e f z) = true.
Proof. unfold has_int, iset. cbn [rscal]. rewrite lookup_rset, String.eqb_refl. apply Z.eqb_refl. Qed.

Lemma build_adv_entries_out es : forall seq es',
  build_adv_entries seq es = Good es' ->
  adv_seq_ok seq es' = true /\ map (fun e => kid e "Addenda99") es' = map (fun e => kid e "Addenda99") es.
Proof.
  induction es as [|e r IH]; intros seq es' H; cbn [build_adv_entries] in H.
  - injection H as <-. split; reflexivity.
  - destruct (9999 <? seq + 1)%Z eqn:G; [discriminate|].
    destruct (build_adv_entries (seq + 1) r) as [r'|st] eqn:Er; cbn [bind] in H; [|discriminate].
    injection H as <-. destruct (IH _ _ Er) as [A B]. split.
    + cbn [adv_seq_ok]. rewrite G, A, has_int_iset. reflexivity.
    + cbn [map]. rewrite kid_iset, B. reflexivity.
Qed.

Lemma adv_count_ext es : forall es',
  map (fun e => kid e "Addenda99") es' = map (fun e => kid e "Addenda99") es -> adv_count es' = adv_count es.
Proof.
  unfold adv_count. generalize 0%Z.
  induction es as [|e r IH]; intros a [|e' r'] H; try discriminate; [reflexivity|].
  cbn [map] in H. injection H as H1 H2. cbn [fold_left]. rewrite H1. apply IH. exact H2.
Qed.

Lemma map_nil_iff {A B} (f : A -> B) l l' : map f l' = map f l -> (l' = [] <-> l = []).
Proof. destruct l, l'; cbn; intros H; try discriminate; split; intros; try reflexivity; discriminate. Qed.

(* ------------------------------------------------------------ C. explicit conditions and Batch.build *)

Section AdvExplicitFacts.
  Variable E : penv.

  (* the control of the ADV branch with the count taken over [advs] and the sums over the renumbered [advs'] *)
  Definition adv_control_2 (h : rtree) (advs advs' : list rtree) : rtree :=
    let c0 := pe_new_adv_batch_control E in
    let c1 := iset c0 "ServiceClassCode" (iget h "ServiceClassCode") in
    let c2 := sset c1 "ACHOperatorData" (sget h "CompanyName") in
    let c3 := sset c2 "ODFIIdentification" (sget h "ODFIIdentification") in
    let c4 := iset c3 "BatchNumber" (iget h "BatchNumber") in
    let c5 := iset c4 "EntryAddendaCount" (adv_count advs) in
    let c6 := iset c5 "EntryHash" (entry_hash advs') in
    let c7 := iset c6 "TotalCreditEntryDollarAmount" (adv_amount adv_credit_codes advs') in
    iset c7 "TotalDebitEntryDollarAmount" (adv_amount adv_debit_codes advs').

  Lemma adv_control_2_same h advs : adv_control_2 h advs advs = adv_control_of E h advs.
  Proof. reflexivity. Qed.

  Definition no_entries (b : rtree) : bool :=
    match kid b "Entries", kid b "ADVEntries" with [], [] => true | _, _ => false end.

  Lemma build_batch_adv o b :
    pe_batch_header_valid E o (header_of b) = true ->
    sec_is (header_of b) "ADV" = true ->
    no_entries b = false ->
    build_batch E o b =
      bind (build_adv_entries 1 (kid b "ADVEntries")) (fun advs' =>
        match kid b "offset" with
        | [] => Good (set_kid (set_kid b "ADVEntries" advs') "ADVControl"
                              [adv_control_2 (header_of b) (kid b "ADVEntries") advs'])
        | _ => Bad "build:offset-adv"
        end).
  Proof.
    intros Hv Hs Hn. unfold build_batch. cbv zeta. rewrite Hv, Hs. cbn [negb].
    unfold no_entries in Hn.
    destruct (kid b "Entries") as [|e0 es]; destruct (kid b "ADVEntries") as [|a0 advs]; try discriminate; reflexivity.
  Qed.

  (* what a successful build of an ADV batch tells about its input *)
  Lemma build_batch_adv_inv o b b' :
    sec_is (header_of b) "ADV" = true -> build_batch E o b = Good b' ->
    pe_batch_header_valid E o (header_of b) = true /\ no_entries b = false.
  Proof.
    intros Hs H. unfold build_batch in H. cbv zeta in H.
    destruct (pe_batch_header_valid E o (header_of b)) eqn:Hv; cbn [negb] in H; [|discriminate].
    split; [reflexivity|]. unfold no_entries.
    destruct (kid b "Entries") as [|e0 es]; destruct (kid b "ADVEntries") as [|a0 advs]; try reflexivity; discriminate.
  Qed.

  Theorem adv_built_of_explicit o b c : adv_batch_explicit E o b c = true -> adv_batch_built E o b c = true.
  Proof.
    unfold adv_batch_explicit. cbv zeta. intros H. repeat (apply andb_prop in H as [H ?]).
    rename H into Hv, H0 into Hc, H1 into Hkey, H2 into Hoff, H3 into Hseq, H4 into Hsec, H5 into Hne.
    apply trees_eqb_eq in Hc. apply negb_true_iff in Hne.
    unfold adv_batch_built.
    rewrite build_batch_adv.
    2:{ rewrite header_of_decor. exact Hv. }
    2:{ rewrite header_of_decor. exact Hsec. }
    2:{ unfold no_entries. rewrite !kid_decor by str_neq. exact Hne. }
    rewrite header_of_decor. rewrite !kid_decor by str_neq.
    rewrite (build_adv_entries_ok _ _ Hseq). cbn [bind].
    destruct (kid b "offset"); [|discriminate].
    rewrite (set_kid_eq (decor o b) "ADVEntries" (kid b "ADVEntries")).
    2:{ apply has_key_decor. exact Hkey. }
    2:{ apply kid_decor. str_neq. }
    rewrite adv_control_2_same, Hc. apply rtree_eqb_refl.
  Qed.

  (* Batch.build is idempotent on ADV batches: what build produced satisfies "tabulated" *)
  Theorem adv_build_idem o b b' :
    sec_is (header_of b) "ADV" = true -> build_batch E o b = Good b' -> build_batch E o b' = Good b'.
  Proof.
    intros Hs H. destruct (build_batch_adv_inv o b b' Hs H) as [Hv Hn].
    rewrite (build_batch_adv o b Hv Hs Hn) in H.
    destruct (build_adv_entries 1 (kid b "ADVEntries")) as [advs'|st] eqn:Eb; cbn [bind] in H; [|discriminate].
    destruct (kid b "offset") eqn:Eoff; [|discriminate]. injection H as <-.
    set (c := adv_control_2 (header_of b) (kid b "ADVEntries") advs').
    set (b' := set_kid (set_kid b "ADVEntries" advs') "ADVControl" [c]).
    destruct (build_adv_entries_out _ _ _ Eb) as [Hseq Hmap].
    assert (Kh : header_of b' = header_of b).
    { unfold header_of, b'. rewrite !kid_set_kid_ne by str_neq. reflexivity. }
    assert (Ka : kid b' "ADVEntries" = advs').
    { unfold b'. rewrite kid_set_kid_ne by str_neq. apply kid_set_kid_eq. }
    assert (Ke : kid b' "Entries" = kid b "Entries").
    { unfold b'. rewrite !kid_set_kid_ne by str_neq. reflexivity. }
    assert (Ko : kid b' "offset" = []).
    { unfold b'. rewrite !kid_set_kid_ne by str_neq. exact Eoff. }
    assert (Kc : kid b' "ADVControl" = [c]) by (unfold b'; apply kid_set_kid_eq).
    rewrite build_batch_adv.
    2:{ rewrite Kh. exact Hv. }
    2:{ rewrite Kh. exact Hs. }
    2:{ unfold no_entries in *. rewrite Ke, Ka. destruct (kid b "Entries"); [|reflexivity].
        destruct (kid b "ADVEntries") as [|a0 r0]; [discriminate|].
        destruct advs'; [|reflexivity]. cbn in Hmap. discriminate. }
    rewrite Ka, Kh, Ko, (build_adv_entries_ok _ _ Hseq). cbn [bind].
    assert (Hc : adv_control_2 (header_of b) advs' advs' = c).
    { unfold c, adv_control_2. rewrite (adv_count_ext _ _ Hmap). reflexivity. }
    rewrite Hc.
    rewrite (set_kid_eq b' "ADVEntries" advs').
    2:{ unfold b'. apply has_key_set_kid_mono, has_key_set_kid_same. }
    2:{ exact Ka. }
    rewrite (set_kid_eq b' "ADVControl" [c]); [reflexivity | unfold b'; apply has_key_set_kid_same | exact Kc].
  Qed.

  (* hence: what the ADV branch of build returns satisfies the explicit conditions, with the control it stored *)
  Corollary adv_built_after_build o b b' :
    sec_is (header_of b) "ADV" = true -> build_batch E o b = Good b' ->
    match build_batch E o b' with Good b'' => rtree_eqb b'' b' | Bad _ => false end = true.
  Proof. intros Hs H. rewrite (adv_build_idem o b b' Hs H). apply rtree_eqb_refl. Qed.
End AdvExplicitFacts.

(* ------------------------------------------------------------ D. the grouped hypotheses from the explicit ones *)

Lemma forallb2_impl {A B} (p q : A -> B -> bool) xs : forall ys,
  (forall x y, p x y = true -> q x y = true) -> forallb2 p xs ys = true -> forallb2 q xs ys = true.
Proof.
  induction xs as [|x xs IH]; intros [|y ys] Hpq H; try discriminate; [reflexivity|].
  cbn [forallb2] in *. apply andb_prop in H as [H1 H2]. rewrite (Hpq _ _ H1), (IH ys Hpq H2). reflexivity.
Qed.

Lemma exists_of_all {A} (p : A -> bool) l : l <> [] -> forallb p l = true -> existsb p l = true.
Proof. destruct l as [|x l]; [congruence|]. cbn. intros _ H. apply andb_prop in H as [H _]. rewrite H. reflexivity. Qed.

Section AdvHypsFacts.
  Variable fhv bhv : fhv_t.
  Variable fv : rtree -> bool.
  Let E := env_cur fhv bhv fv.

  Lemma adv_tabulated_tabulated v :
    adv_tabulated fhv bhv fv v = true -> is_adv_file (tree_of_file v) = true /\ tabulated fhv bhv fv v = true.
  Proof.
    intros H. unfold adv_tabulated in H. cbv zeta in H. repeat (apply andb_prop in H as [H ?]).
    rename H into Hne, H0 into Hfc, H1 into Hnum, H2 into Hb, H3 into Hadv, H4 into Hiat.
    assert (A : is_adv_file (tree_of_file v) = true).
    { unfold is_adv_file. apply exists_of_all; [|exact Hadv]. destruct (kid (tree_of_file v) "Batches"); [discriminate | congruence]. }
    split; [exact A|]. unfold tabulated. cbv zeta. rewrite A, Hne, Hiat, Hadv, Hnum, Hfc.
    rewrite (forallb2_impl _ _ _ _ (adv_built_of_explicit (env_cur fhv bhv fv) _) Hb). reflexivity.
  Qed.

  (* an ADV batch is neither CTX nor ATX: the name-packing heuristic of setBatchesFromJSON cannot fire *)
  Lemma catx_clean_adv v :
    forallb (fun b => sec_is (header_of b) "ADV") (kid (tree_of_file v) "Batches") = true -> catx_clean v = true.
  Proof.
    intros H. unfold catx_clean. rewrite forallb_forall in *. intros b Hb. specialize (H b Hb).
    unfold sec_is in H. apply bytes_eqb_eq in H.
    replace (existsb (sec_is (header_of b)) (pt_catx json_post_table)) with false; [reflexivity|].
    symmetry. unfold sec_is. rewrite H. vm_compute. reflexivity.
  Qed.

  Lemma adv_tabulated_all_adv v :
    adv_tabulated fhv bhv fv v = true ->
    forallb (fun b => sec_is (header_of b) "ADV") (kid (tree_of_file v) "Batches") = true.
  Proof.
    intros H. unfold adv_tabulated in H. cbv zeta in H. repeat (apply andb_prop in H as [H ?]). assumption.
  Qed.
End AdvHypsFacts.

(* ------------------------------------------------------------ E. File.UnmarshalJSON *)

Lemma final_opts_self fields x : final_opts fields x x = final_opts fields [] x.
Proof. destruct x; reflexivity. Qed.

Lemma post_passed_ext E p1 p2 d :
  final_opts (pe_merge_fields E) p1 (kid d "validateOpts") = final_opts (pe_merge_fields E) p2 (kid d "validateOpts") ->
  post E p1 d = post E p2 d.
Proof. intros H. unfold post. rewrite H. reflexivity. Qed.

(* a receiver without options: the document's own options are passed, which changes nothing *)
Theorem unmarshal_own_opts fhv bhv fv j : unmarshal_file fhv bhv fv [] j = from_json fhv bhv fv [] j.
Proof.
  unfold unmarshal_file, from_json, post_cur, doc_opts. apply post_passed_ext. apply final_opts_self.
Qed.

(* a receiver with options: they replace the document's (as options passed to FileFromJSONWith do) *)
Theorem unmarshal_receiver_opts fhv bhv fv o os j :
  unmarshal_file fhv bhv fv (o :: os) j = from_json fhv bhv fv (o :: os) j.
Proof. reflexivity. Qed.

(* C07 (phase 7) — ADV files in the file-level round trip, with EXPLICIT readiness conditions
   (executable definitions only; proofs are in JsonFullADVFacts.v).

   JsonFull.v states the ADV case of C07_roundtrip under [tabulated], which for an ADV batch is the opaque condition
   "Batch.build, run on the decoded batch, gives back the original's ADV control and changes nothing else"
   ([adv_batch_built]: it mentions the function the theorem is about).  Here the same condition is spelled out on the
   records themselves:

   adv_control_of h advs    the ADVBatchControl the ADV branch of Batch.build assembles from the batch header and the
                            ADV entries (NewADVBatchControl(), five header copies, count, hash, the two ADV sums)
   adv_seq_ok 1 advs        SequenceNumber of the i-th ADVEntryDetail is i, fewer than 9999 entries
   adv_batch_explicit       header accepted, ADV entries present, SEC code ADV, sequence numbers, no offset, the stored
                            ADV control IS adv_control_of
   adv_tabulated v          the file-level condition on a File value: every batch explicit, numbering and the ADV file
                            control as createFileADV computes them
   unmarshal_file           File.UnmarshalJSON (pointer receiver): the receiver's options, if any, are passed to FileFromJSONWith,
                            otherwise the options of the document itself
   upd_fld / upd_nth        edits of a typed value by field name / slice index (to derive the refuted witnesses from
                            the generated ADV file of Oblig/C07FullObl.v)
   adv_src_ok               checker of the table regenerated from the ADV statements of the source (Gen/JsonADV.v) *)
From Coq Require Import String Ascii List Bool ZArith NArith.
Import ListNotations.
From ACH Require Import Bytes JsonCodec JsonSurvive JsonPostTable Layout FileStruct JsonFile JsonFileCurrent JsonFull.
From ACH Require Import JsonTags JsonPost.
Local Open Scope string_scope.
Local Open Scope list_scope.

(* ------------------------------------------------------------ A. what Batch.build computes for an ADV batch *)

Definition adv_amount (codes : list Z) (es : list rtree) : Z :=
  zsum (fun e => if zmem (iget e "TransactionCode") codes then iget e "Amount" else 0%Z) es.

Definition has_key (b : rtree) (k : string) : bool := existsb (fun p => String.eqb (fst p) k) (rkids b).

(* SequenceNumber = position (from [seq]); the loop fails once seq + 1 exceeds 9999 *)
Fixpoint adv_seq_ok (seq : Z) (es : list rtree) : bool :=
  match es with
  | [] => true
  | e :: r => negb (9999 <? seq + 1)%Z && has_int "SequenceNumber" seq e && adv_seq_ok (seq + 1)%Z r
  end.

Section AdvExplicit.
  Variable E : penv.

  Definition adv_control_of (h : rtree) (advs : list rtree) : rtree :=
    let c0 := pe_new_adv_batch_control E in
    let c1 := iset c0 "ServiceClassCode" (iget h "ServiceClassCode") in
    let c2 := sset c1 "ACHOperatorData" (sget h "CompanyName") in
    let c3 := sset c2 "ODFIIdentification" (sget h "ODFIIdentification") in
    let c4 := iset c3 "BatchNumber" (iget h "BatchNumber") in
    let c5 := iset c4 "EntryAddendaCount" (adv_count advs) in
    let c6 := iset c5 "EntryHash" (entry_hash advs) in
    let c7 := iset c6 "TotalCreditEntryDollarAmount" (adv_amount adv_credit_codes advs) in
    iset c7 "TotalDebitEntryDollarAmount" (adv_amount adv_debit_codes advs).

  (* [b]: the batch as it survives JSON (no ADV control); [c]: the ADV control the original holds *)
  Definition adv_batch_explicit (o : list rtree) (b : rtree) (c : list rtree) : bool :=
    let h := header_of b in
    let advs := kid b "ADVEntries" in
    pe_batch_header_valid E o h
    && negb (match kid b "Entries", advs with [], [] => true | _, _ => false end)
    && sec_is h "ADV"
    && adv_seq_ok 1 advs
    && match kid b "offset" with [] => true | _ => false end
    && has_key b "ADVEntries"
    && trees_eqb c [adv_control_of h advs].
End AdvExplicit.

(* ------------------------------------------------------------ B. the hypothesis on a File value *)

Section AdvHyps.
  Variable fhv bhv : fhv_t.
  Variable fv : rtree -> bool.
  Let E := env_cur fhv bhv fv.

  Definition adv_tabulated (v : val) : bool :=
    let d := tree_of_file v in
    let o := kid d "validateOpts" in
    let bs := kid d "Batches" in
    let cs := batch_adv_controls v in
    match bs with [] => false | _ => true end
    && match kid d "IATBatches" with [] => true | _ => false end
    && forallb (fun b => sec_is (header_of b) "ADV") bs
    && forallb2 (adv_batch_explicit E o) bs cs
    && numbered_adv 1 bs cs
    && fc_matches_adv E cs (file_adv_control v).

  (* File.UnmarshalJSON (pointer receiver) on a receiver holding the options [cur] ([] = nil): if the receiver has none, the options of
     the document are read (readValidateOpts) and stored on it; then FileFromJSONWith(p, f.validateOpts) *)
  Definition doc_opts (j : json) : list rtree := kid (view hidp_cur T_File (dec T_File (start T_File) j)) "validateOpts".

  Definition unmarshal_file (cur : list rtree) (j : json) : pres :=
    from_json fhv bhv fv (match cur with [] => doc_opts j | _ => cur end) j.
End AdvHyps.

(* the hypotheses of C07_roundtrip_adv evaluated on a file value (validators as in [roundtrip_hyps]) *)
Definition adv_hyps (hv : bool) (v : val) : bool :=
  typed T_File v
  && in_domain v
  && valid (fun _ _ => hv) (fun _ _ => true) (fun _ => true) v
  && adv_tabulated (fun _ _ => hv) (fun _ _ => true) (fun _ => true) v
  && a98_clean v.

(* what File.UnmarshalJSON leaves in the receiver: the new file, or (any error) the receiver as it was except for the
   options, which a receiver without options has taken from the document before FileFromJSONWith ran;
   [fvv]: the verdict of File.Validate on the file FileFromJSONWith built *)
Definition unmarshal_run (hv fvv : bool) (cur : list rtree) (v : val) : option rtree * list rtree :=
  (match unmarshal_file (fun _ _ => hv) (fun _ _ => true) (fun _ => fvv) cur (to_json v) with
   | POk f => Some f
   | PInvalid _ | PErr _ => None
   end,
   match cur with [] => doc_opts (to_json v) | _ => cur end).

(* ------------------------------------------------------------ C. edits of a typed value *)

Fixpoint set_field (fs : list (fmeta * ty)) (vs : list val) (f : string) (g : ty -> val -> val) : list val :=
  match fs, vs with
  | (m, ft) :: fs', x :: vs' => if String.eqb (f_name m) f then g ft x :: vs' else x :: set_field fs' vs' f g
  | _, _ => vs
  end.

Definition upd_fld (f : string) (g : ty -> val -> val) (t : ty) (v : val) : val :=
  match t, v with
  | TStruct _ fs, VRec vs => VRec (set_field fs vs f g)
  | TPtr (TStruct _ fs), VRec vs => VRec (set_field fs vs f g)
  | _, _ => v
  end.

Fixpoint set_nth {A} (i : nat) (g : A -> A) (l : list A) : list A :=
  match l, i with
  | [], _ => []
  | x :: r, O => g x :: r
  | x :: r, S j => x :: set_nth j g r
  end.

Definition upd_nth (i : nat) (g : ty -> val -> val) (t : ty) (v : val) : val :=
  match t, v with
  | TSlice t', VArr xs => VArr (set_nth i (g t') xs)
  | _, _ => v
  end.

Definition put (x : val) : ty -> val -> val := fun _ _ => x.

(* ------------------------------------------------------------ D. the regenerated ADV statements of the source *)

(* translator/jsonadv.go → Gen/JsonADV.v: one entry per statement, as (function or branch, target, source expression) *)
Record adv_src := {
  as_build_adv : list (string * string);        (* ADV branch of Batch.build: assignments to the fresh ADVBatchControl, in order *)
  as_build_ctor : string;                       (* the constructor the control starts from *)
  as_build_loop : list string;                  (* statements of the loop over batch.ADVEntries *)
  as_build_store : string;                      (* where the control is stored *)
  as_amounts : list (string * list string);     (* calculateADVBatchAmounts: accumulator -> constants of its condition *)
  as_create_adv : list (string * string);       (* createFileADV: assignments to the fresh ADVFileControl *)
  as_create_sums : list (string * string);      (* createFileADV: accumulator -> the ADVBatchControl field it adds *)
  as_create_guard : list string;                (* createFileADV: error exits *)
  as_from_json_adv : list string;               (* FileFromJSONWith: the statements of the two `else` branches of !out.IsADV() *)
  as_set_adv_type : list string;                (* setADVEntryRecordType: guard and assignment *)
  as_is_adv : list string;                      (* File.IsADV: the condition that makes it return true *)
  as_adv_loop_call : list string;               (* setBatchesFromJSON: the loop over batch.ADVEntries and what precedes build *)
  as_unmarshal : list string                    (* File.UnmarshalJSON: the statements *)
}.

Fixpoint strs_eqb (a b : list string) : bool :=
  match a, b with
  | [], [] => true
  | x :: a', y :: b' => String.eqb x y && strs_eqb a' b'
  | _, _ => false
  end.

Fixpoint pairs_eqb (a b : list (string * string)) : bool :=
  match a, b with
  | [], [] => true
  | (x, y) :: a', (x', y') :: b' => String.eqb x x' && String.eqb y y' && pairs_eqb a' b'
  | _, _ => false
  end.

Fixpoint amounts_eqb (a b : list (string * list string)) : bool :=
  match a, b with
  | [], [] => true
  | (x, y) :: a', (x', y') :: b' => String.eqb x x' && strs_eqb y y' && amounts_eqb a' b'
  | _, _ => false
  end.

(* what the model implements (adv_control_of, build_adv_entries, adv_count, create_adv, post, set_adv_category, unmarshal_file) *)
Definition adv_src_model : adv_src := {|
  as_build_adv :=
    [ ("validateOpts", "batch.validateOpts");
      ("ServiceClassCode", "batch.Header.ServiceClassCode");
      ("ACHOperatorData", "batch.Header.CompanyName");
      ("ODFIIdentification", "batch.Header.ODFIIdentification");
      ("BatchNumber", "batch.Header.BatchNumber");
      ("EntryAddendaCount", "entryCount");
      ("EntryHash", "batch.calculateEntryHash()");
      ("TotalCreditEntryDollarAmount,TotalDebitEntryDollarAmount", "batch.calculateADVBatchAmounts()") ];
  as_build_ctor := "NewADVBatchControl()";
  as_build_loop :=
    [ "entryCount++"; "if entry.Addenda99 != nil { entryCount++ }"; "batch.ADVEntries[i].SequenceNumber = seq"; "seq++";
      "if seq > 9999 { return }" ];
  as_build_store := "batch.ADVControl = bcADV";
  as_amounts :=
    [ ("credit", ["CreditForDebitsOriginated"; "CreditForCreditsReceived"; "CreditForCreditsRejected"; "CreditSummary"]);
      ("debit", ["DebitForCreditsOriginated"; "DebitForDebitsReceived"; "DebitForDebitsRejectedBatches"; "DebitSummary"]) ];
  as_create_adv :=
    [ ("ID", "f.ID"); ("BatchCount", "batchSeq - 1"); ("BlockCount", "blocks(totalRecordsInFile)");
      ("EntryAddendaCount", "fileEntryAddendaCount");
      ("EntryHash", "fc.converters.leastSignificantDigits(fileEntryHashSum, 10)");
      ("TotalDebitEntryDollarAmountInFile", "totalDebitAmount");
      ("TotalCreditEntryDollarAmountInFile", "totalCreditAmount") ];
  as_create_sums :=
    [ ("fileEntryAddendaCount", "EntryAddendaCount"); ("totalRecordsInFile", "2 + EntryAddendaCount");
      ("fileEntryHashSum", "EntryHash"); ("totalDebitAmount", "TotalDebitEntryDollarAmount");
      ("totalCreditAmount", "TotalCreditEntryDollarAmount") ];
  as_create_guard := [ "len(f.IATBatches) > 0"; "batch.GetHeader().StandardEntryClassCode != ADV" ];
  as_from_json_adv :=
    [ "advControl := advFileControl{ ADVControl: NewADVFileControl(), }"; "decode(&advControl)";
      "out.ADVControl = advControl.ADVControl"; "out.ADVControl.BatchCount = len(out.Batches)" ];
  as_set_adv_type := [ "if e.Addenda99 == nil"; "e.Category = CategoryForward" ];
  as_is_adv := [ "f.Batches[i].GetHeader().StandardEntryClassCode == ADV" ];
  as_adv_loop_call := [ "batch.ADVEntries = withoutNil(batch.ADVEntries)"; "range batch.ADVEntries: setADVEntryRecordType(e)"; "batch.build()" ];
  as_unmarshal :=
    [ "if f.validateOpts == nil { opts, err := readValidateOpts(p) if err != nil { return err } f.SetValidation(opts) }";
      "file, err := FileFromJSONWith(p, f.validateOpts)"; "if err != nil { return err }"; "if file != nil { *f = *file }" ]
|}.

Definition adv_src_ok (s : adv_src) : bool :=
  pairs_eqb (as_build_adv s) (as_build_adv adv_src_model)
  && String.eqb (as_build_ctor s) (as_build_ctor adv_src_model)
  && strs_eqb (as_build_loop s) (as_build_loop adv_src_model)
  && String.eqb (as_build_store s) (as_build_store adv_src_model)
  && amounts_eqb (as_amounts s) (as_amounts adv_src_model)
  && pairs_eqb (as_create_adv s) (as_create_adv adv_src_model)
  && pairs_eqb (as_create_sums s) (as_create_sums adv_src_model)
  && strs_eqb (as_create_guard s) (as_create_guard adv_src_model)
  && strs_eqb (as_from_json_adv s) (as_from_json_adv adv_src_model)
  && strs_eqb (as_set_adv_type s) (as_set_adv_type adv_src_model)
  && strs_eqb (as_is_adv s) (as_is_adv adv_src_model)
  && strs_eqb (as_adv_loop_call s) (as_adv_loop_call adv_src_model)
  && strs_eqb (as_unmarshal s) (as_unmarshal adv_src_model).

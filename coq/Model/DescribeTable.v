(* Types of the table regenerated from cmd/achcli/describe (Gen/Describe.v),
   its boolean well-formedness checker and the generic soundness theorem:
   a protected value is printed only through its mask function. *)
From Coq Require Import String List Bool.
Import ListNotations.
From ACH Require Import Utf8 Mask.
Open Scope string_scope.

Record guard := mkguard { g_flags : list string; g_fn : string }.
Record cell := mkcell {
  c_func : string;            (* function of describe/file.go holding the Fprintf *)
  c_srcs : list string;       (* every accessor / field / callee name the printed value derives from *)
  c_kind : string;
  c_guards : list guard;      (* `if opts.F1 || opts.F2 { v = fn(v) }` statements before the print, in order *)
  c_unknown : bool }.

Definition mem (s : string) (l : list string) : bool := existsb (String.eqb s) l.

(* protected sources: required Opts flag and mask function *)
Definition protect (src : string) : option (string * string) :=
  if mem src ["DFIAccountNumberField"; "DFIAccountNumber"; "ENR.DFIAccountNumber";
              "ENR.IndividualIdentification"; "IndividualIdentification";
              "DNE.CustomerSSN"; "CustomerSSN"]
  then Some ("MaskAccountNumbers", "maskNumber")
  else if mem src ["IndividualNameField"; "IndividualName"; "ENR.IndividualName"]
  then Some ("MaskNames", "maskName")
  else if mem src ["CorrectedData"; "CorrectedDataField"]
  then Some ("MaskCorrectedData", "maskNumber")
  else None.

Definition guard_fires (on : string -> bool) (g : guard) : bool :=
  existsb (fun f => String.eqb f "always" || on f) (g_flags g).

Definition apply_fn (fn : string) (v : bytes) : bytes :=
  if String.eqb fn "maskNumber" then maskNumber v
  else if String.eqb fn "maskName" then maskName v
  else v.

(* the value a cell prints for the underlying field value [v] under the option set [on] *)
Definition eval_cell (on : string -> bool) (c : cell) (v : bytes) : bytes :=
  fold_left (fun acc g => if guard_fires on g then apply_fn (g_fn g) acc else acc) (c_guards c) v.

(* checker: a cell deriving from a protected source must (a) be recognised,
   (b) carry only guards that apply the required mask function, (c) have one
   guard whose disjunction mentions the required flag *)
Definition src_ok (c : cell) (src : string) : bool :=
  match protect src with
  | None => true
  | Some (flag, fn) =>
      forallb (fun g => String.eqb (g_fn g) fn) (c_guards c)
      && existsb (fun g => mem flag (g_flags g) || mem "always" (g_flags g)) (c_guards c)
  end.

Definition cell_ok (c : cell) : bool := negb (c_unknown c) && forallb (src_ok c) (c_srcs c).
Definition cells_ok (t : list cell) : bool := forallb cell_ok t.

(* the table must still mention every protected source the property lists
   (a translator that silently loses track of one would otherwise pass) *)
Definition covers (t : list cell) (src : string) : bool := existsb (fun c => mem src (c_srcs c)) t.
Definition required_sources : list string :=
  ["DFIAccountNumberField"; "IndividualNameField"; "CorrectedData";
   "ENR.DFIAccountNumber"; "ENR.IndividualIdentification"; "ENR.IndividualName"; "DNE.CustomerSSN"].
Definition table_complete (t : list cell) : bool := forallb (covers t) required_sources.

(* command-line flags: -mask switches every Opts mask flag on, and each
   specific flag switches its own *)
Definition flag_map_ok (m : list (string * list string)) : bool :=
  forallb (fun p : string * string =>
     match find (fun e : string * list string => String.eqb (fst e) (fst p)) m with
     | Some (_, fl) => mem "flagMask" fl && mem (snd p) fl
     | None => false
     end)
  [("MaskAccountNumbers", "flagMaskAccounts"); ("MaskNames", "flagMaskNames");
   ("MaskCorrectedData", "flagMaskCorrectedData")].

Lemma fold_guards_masked on fn gs v :
  forallb (fun g => String.eqb (g_fn g) fn) gs = true ->
  existsb (guard_fires on) gs = true ->
  exists s', fold_left (fun acc g => if guard_fires on g then apply_fn (g_fn g) acc else acc) gs v
             = apply_fn fn s'.
Proof.
  revert v. induction gs as [|g gs IH]; intros v Hall Hex; [discriminate|].
  cbn [forallb] in Hall. apply andb_prop in Hall as [Hg Hall].
  apply String.eqb_eq in Hg. cbn [fold_left existsb] in *.
  destruct (existsb (guard_fires on) gs) eqn:Erest.
  - now apply IH.
  - rewrite orb_false_r in Hex. rewrite Hex, Hg.
    assert (Hid : forall w, fold_left (fun acc g0 => if guard_fires on g0 then apply_fn (g_fn g0) acc else acc) gs w = w).
    { clear -Erest. induction gs as [|g' gs IH]; intros w; [reflexivity|].
      cbn [existsb] in Erest. apply orb_false_elim in Erest as [E1 E2].
      cbn [fold_left]. rewrite E1. now apply IH. }
    rewrite Hid. now exists v.
Qed.

Lemma mem_In s l : mem s l = true -> In s l.
Proof.
  unfold mem. intros H. apply existsb_exists in H as (x & Hx & E). apply String.eqb_eq in E. now subst.
Qed.

Theorem cells_sound t : cells_ok t = true ->
  forall c src flag fn on v, In c t -> In src (c_srcs c) -> protect src = Some (flag, fn) ->
  on flag = true -> exists s', eval_cell on c v = apply_fn fn s'.
Proof.
  intros Hok c src flag fn on v Hc Hsrc Hp Hon.
  unfold cells_ok in Hok. rewrite forallb_forall in Hok. specialize (Hok c Hc).
  unfold cell_ok in Hok. apply andb_prop in Hok as [_ Hs]. rewrite forallb_forall in Hs.
  specialize (Hs src Hsrc). unfold src_ok in Hs. rewrite Hp in Hs. apply andb_prop in Hs as [Hall Hex].
  unfold eval_cell. apply fold_guards_masked; [exact Hall|].
  apply existsb_exists in Hex as (g & Hg & Hm). apply existsb_exists. exists g. split; [exact Hg|].
  unfold guard_fires. apply existsb_exists. apply orb_prop in Hm as [Hm|Hm]; apply mem_In in Hm.
  - exists flag. split; [exact Hm|]. rewrite Hon. apply orb_true_r.
  - exists "always". split; [exact Hm|]. reflexivity.
Qed.

(* C04 at the level of the TEXT: the pieces that connect the written bytes to the
   arithmetic skeleton of Model/Arith.v.

     set_digit          replace the character in one column of a record line
     pcol / pcol_ok     the table of integrity protected columns and its checker
                        against the regenerated layouts (Gen/Layouts.v)
     skel_*             the skeleton (Arith.file) of a structured list of record
                        lines (FileStruct.fileS), every line parsed with the layout
                        the reader uses for it (reader.go parseBH / parseEntryDetail /
                        parseBatchControl / parseFileControl)
     read_text          framing (Framing.read_lines) + record dispatch
                        (FileStruct.read_struct) of a byte text
     text_verdict       read_text + skeleton + read_validate (extracted, run against
                        Reader.Read + File.Validate)

   Definitions only. *)
From Coq Require Import String List NArith ZArith Bool.
From ACH Require Export LayoutOk Layouts Arith FileStruct Framing.
Import ListNotations.
Local Open Scope string_scope.
Local Open Scope nat_scope.

(* ---- one character of a line ------------------------------------------------ *)

Definition set_nth {A} (n : nat) (x : A) (l : list A) : list A :=
  if n <? List.length l then (firstn n l ++ x :: skipn (S n) l)%list else l.

(* columns are counted in characters (runes), as Parse does *)
Definition set_digit (line : bytes) (col : nat) (d : N) : bytes :=
  concat (set_nth col [d] (units IRune line)).

(* the characters [lo, hi) of a line *)
Definition column (line : bytes) (lo hi : nat) : bytes := sub (units IRune line) lo hi.

(* ---- protected columns -------------------------------------------------------- *)

Inductive ckind := CKNum | CKStr.     (* read with parseNumField / kept as a (trimmed) string *)

(* the record classes that carry protected fields, and the layout the reader parses them with *)
Inductive rclass := RCEntry (k : kind) | RCBatchCtl (k : kind) | RCBatchHdr (k : kind) | RCFileCtl (adv : bool).

Definition entry_layout (k : kind) : layout :=
  match k with KStd => L_EntryDetail | KIAT => L_IATEntryDetail | KADV => L_ADVEntryDetail end.
Definition bctl_layout (k : kind) : layout :=
  match k with KADV => L_ADVBatchControl | _ => L_BatchControl end.
Definition hdr_layout (k : kind) : layout :=
  match k with KIAT => L_IATBatchHeader | _ => L_BatchHeader end.
Definition fctl_layout (adv : bool) : layout := if adv then L_ADVFileControl else L_FileControl.

Definition class_layout (c : rclass) : layout :=
  match c with
  | RCEntry k => entry_layout k
  | RCBatchCtl k => bctl_layout k
  | RCBatchHdr k => hdr_layout k
  | RCFileCtl adv => fctl_layout adv
  end.

Record pcol := mkpcol { p_class : rclass; p_field : string; p_lo : nat; p_hi : nat; p_kind : ckind }.
Definition p_layout (p : pcol) : layout := class_layout (p_class p).

Definition kind_conv_ok (k : ckind) (cv : list string) : bool :=
  match k with
  | CKNum => is_num_chain cv
  | CKStr => is_nil cv || is_trim_chain cv
  end.

(* String() writes the column with a numeric / digit-string renderer *)
Definition kind_seg_ok (k : ckind) (f : string) (w : nat) (s : seg) : bool :=
  match k, s with
  | CKNum, SNum g w' => String.eqb f g && (w' =? w)
  | CKNum, SItoa g => String.eqb f g
  | CKStr, SStr g w' => String.eqb f g && (w' =? w)
  | CKStr, SRaw g => String.eqb f g
  | _, _ => false
  end.

(* no other real cut reads a column of [lo, hi) *)
Definition isolated (cuts : list cut) (f : string) (lo hi : nat) : bool :=
  forallb (fun c => negb (is_real c) || has_key f c || (c_hi c <=? lo) || (hi <=? c_lo c)) cuts.

Definition pcol_ok (p : pcol) : bool :=
  let L := p_layout p in
  let f := p_field p in
  is_irune (l_ix L) &&
  match find_key (l_cuts L) f with
  | Some c =>
      is_real c && (c_lo c =? p_lo p) && (c_hi c =? p_hi p) && (p_lo p <? p_hi p) && (p_hi p <=? 94)
      && kind_conv_ok (p_kind p) (c_conv c)
      && isolated (l_cuts L) f (p_lo p) (p_hi p)
      && match aligned_seg L c with
         | Some s => kind_seg_ok (p_kind p) f (p_hi p - p_lo p) s
         | None => false
         end
  | None => false
  end.

(* the table: record class (the batch kind selects EntryDetail / IATEntryDetail /
   ADVEntryDetail, BatchControl / ADVBatchControl, BatchHeader / IATBatchHeader, FileControl /
   ADVFileControl), field, columns [lo, hi) zero based, kind.  Checked against
   Gen/Layouts.v by reflection (Oblig/C04TextObl.v): a moved or re-typed column makes
   [pcol_ok] false. *)
Definition protected_columns : list pcol :=
  [ mkpcol (RCEntry KStd) "Amount" 29 39 CKNum
  ; mkpcol (RCEntry KStd) "RDFIIdentification" 3 11 CKStr
  ; mkpcol (RCEntry KStd) "CheckDigit" 11 12 CKStr
  ; mkpcol (RCEntry KIAT) "Amount" 29 39 CKNum
  ; mkpcol (RCEntry KIAT) "RDFIIdentification" 3 11 CKStr
  ; mkpcol (RCEntry KIAT) "CheckDigit" 11 12 CKStr
  ; mkpcol (RCEntry KADV) "Amount" 27 39 CKNum
  ; mkpcol (RCEntry KADV) "RDFIIdentification" 3 11 CKStr
  ; mkpcol (RCEntry KADV) "CheckDigit" 11 12 CKStr
  ; mkpcol (RCBatchCtl KStd) "ServiceClassCode" 1 4 CKNum
  ; mkpcol (RCBatchCtl KStd) "EntryAddendaCount" 4 10 CKNum
  ; mkpcol (RCBatchCtl KStd) "EntryHash" 10 20 CKNum
  ; mkpcol (RCBatchCtl KStd) "TotalDebitEntryDollarAmount" 20 32 CKNum
  ; mkpcol (RCBatchCtl KStd) "TotalCreditEntryDollarAmount" 32 44 CKNum
  ; mkpcol (RCBatchCtl KStd) "ODFIIdentification" 79 87 CKStr
  ; mkpcol (RCBatchCtl KStd) "BatchNumber" 87 94 CKNum
  ; mkpcol (RCBatchCtl KIAT) "ServiceClassCode" 1 4 CKNum
  ; mkpcol (RCBatchCtl KIAT) "EntryAddendaCount" 4 10 CKNum
  ; mkpcol (RCBatchCtl KIAT) "EntryHash" 10 20 CKNum
  ; mkpcol (RCBatchCtl KIAT) "TotalDebitEntryDollarAmount" 20 32 CKNum
  ; mkpcol (RCBatchCtl KIAT) "TotalCreditEntryDollarAmount" 32 44 CKNum
  ; mkpcol (RCBatchCtl KIAT) "ODFIIdentification" 79 87 CKStr
  ; mkpcol (RCBatchCtl KIAT) "BatchNumber" 87 94 CKNum
  ; mkpcol (RCBatchCtl KADV) "ServiceClassCode" 1 4 CKNum
  ; mkpcol (RCBatchCtl KADV) "EntryAddendaCount" 4 10 CKNum
  ; mkpcol (RCBatchCtl KADV) "EntryHash" 10 20 CKNum
  ; mkpcol (RCBatchCtl KADV) "TotalDebitEntryDollarAmount" 20 40 CKNum
  ; mkpcol (RCBatchCtl KADV) "TotalCreditEntryDollarAmount" 40 60 CKNum
  ; mkpcol (RCBatchCtl KADV) "ODFIIdentification" 79 87 CKStr
  ; mkpcol (RCBatchCtl KADV) "BatchNumber" 87 94 CKNum
  ; mkpcol (RCBatchHdr KStd) "ODFIIdentification" 79 87 CKStr
  ; mkpcol (RCBatchHdr KStd) "BatchNumber" 87 94 CKNum
  ; mkpcol (RCBatchHdr KIAT) "ODFIIdentification" 79 87 CKStr
  ; mkpcol (RCBatchHdr KIAT) "BatchNumber" 87 94 CKNum
  ; mkpcol (RCBatchHdr KADV) "ODFIIdentification" 79 87 CKStr
  ; mkpcol (RCBatchHdr KADV) "BatchNumber" 87 94 CKNum
  ; mkpcol (RCFileCtl false) "BatchCount" 1 7 CKNum
  ; mkpcol (RCFileCtl false) "EntryAddendaCount" 13 21 CKNum
  ; mkpcol (RCFileCtl false) "EntryHash" 21 31 CKNum
  ; mkpcol (RCFileCtl false) "TotalDebitEntryDollarAmountInFile" 31 43 CKNum
  ; mkpcol (RCFileCtl false) "TotalCreditEntryDollarAmountInFile" 43 55 CKNum
  ; mkpcol (RCFileCtl true) "BatchCount" 1 7 CKNum
  ; mkpcol (RCFileCtl true) "EntryAddendaCount" 13 21 CKNum
  ; mkpcol (RCFileCtl true) "EntryHash" 21 31 CKNum
  ; mkpcol (RCFileCtl true) "TotalDebitEntryDollarAmountInFile" 31 51 CKNum
  ; mkpcol (RCFileCtl true) "TotalCreditEntryDollarAmountInFile" 51 71 CKNum ].

(* ---- the skeleton of a structured list of record lines ------------------------- *)

Definition IAT_b : bytes := [73; 65; 84]%N.                    (* "IAT" *)
Definition ADV_b : bytes := [65; 68; 86]%N.                    (* "ADV" *)
Definition IATCOR_b : bytes := [73; 65; 84; 67; 79; 82]%N.     (* "IATCOR" *)

(* reader.go parseBH: `r.line[50:53] == IAT || strings.TrimSpace(r.line[04:20]) == IATCOR`
   (byte slices); otherwise NewBatch on the parsed header: SEC code ADV gives a BatchADV *)
Definition kind_of_hdr (line : bytes) : kind :=
  if bytes_eqb (firstn 3 (skipn 50 line)) IAT_b || bytes_eqb (trim (firstn 16 (skipn 4 line))) IATCOR_b
  then KIAT
  else if bytes_eqb (gets (parse L_BatchHeader line) "StandardEntryClassCode") ADV_b then KADV
  else KStd.

(* the protected fields of a parsed record (a field Parse did not assign is the Go zero value) *)
Definition entry_of (k : kind) (r : recval) (addenda : Z) : entry :=
  mkentry (geti r "TransactionCode") (geti r "Amount") (gets r "RDFIIdentification") (gets r "CheckDigit")
          (match k with KADV => []%list | _ => gets r "TraceNumber" end) addenda.

Definition bctl_of (r : recval) : bctl :=
  mkbctl (geti r "ServiceClassCode") (geti r "EntryAddendaCount") (geti r "EntryHash")
         (geti r "TotalDebitEntryDollarAmount") (geti r "TotalCreditEntryDollarAmount")
         (gets r "ODFIIdentification") (geti r "BatchNumber").

Definition fctl_of (r : recval) : fctl :=
  mkfctl (geti r "BatchCount") (geti r "EntryAddendaCount") (geti r "EntryHash")
         (geti r "TotalDebitEntryDollarAmountInFile") (geti r "TotalCreditEntryDollarAmountInFile").

Definition skel_entry (k : kind) (e : entryS) : entry :=
  entry_of k (parse (entry_layout k) (e_rec e)) (Z.of_nat (List.length (e_addenda e))).

Definition skel_batch (b : batchS) : batch :=
  let k := kind_of_hdr (b_hdr b) in
  let h := parse (hdr_layout k) (b_hdr b) in
  mkbatch k (geti h "ServiceClassCode") (gets h "ODFIIdentification") (geti h "BatchNumber")
          (map (skel_entry k) (b_entries b))
          (bctl_of (parse (bctl_layout k) (b_ctl b))).

Definition is_iat (b : batchS) : bool := match kind_of_hdr (b_hdr b) with KIAT => true | _ => false end.
Definition is_adv (b : batchS) : bool := match kind_of_hdr (b_hdr b) with KADV => true | _ => false end.

(* File.IsADV() at the time the file control is parsed *)
Definition adv_file (f : fileS) : bool := existsb is_adv (f_batches f).

Definition skel_fctl (adv : bool) (line : bytes) : fctl := fctl_of (parse (fctl_layout adv) line).

(* File.Batches holds the standard and ADV batches, File.IATBatches the IAT batches *)
Definition skel (f : fileS) : file :=
  mkfile (map skel_batch (filter (fun b => negb (is_iat b)) (f_batches f)))
         (map skel_batch (filter is_iat (f_batches f)))
         (skel_fctl (adv_file f) (f_ctl f)).

(* ---- reading a text -------------------------------------------------------------- *)

Fixpoint all_lines (ns : list norm) : option (list bytes) :=
  match ns with
  | [] => Some []
  | NLine l :: rest => match all_lines rest with Some ls => Some (l :: ls) | None => None end
  | NWrongLength :: _ => None
  end.

(* framing, padding of short lines, record dispatch *)
Definition read_text (text : bytes) : option fileS :=
  match all_lines (read_lines text) with
  | Some ls => read_struct ls
  | None => None
  end.


Definition with_ctl (f : fileS) (ctl : bytes) : fileS := mkFile (f_hdr f) (f_batches f) ctl.

(* ---- tampering one line of a structured file ---------------------------------------- *)

Inductive site := SEntry (bi ei : nat) | SBatchCtl (bi : nat) | SBatchHdr (bi : nat) | SFileCtl.

Definition upd_nth {A} (n : nat) (g : A -> A) (l : list A) : list A :=
  match nth_error l n with Some x => set_nth n (g x) l | None => l end.

Definition site_line (f : fileS) (s : site) : option bytes :=
  match s with
  | SEntry bi ei =>
      match nth_error (f_batches f) bi with
      | Some b => option_map e_rec (nth_error (b_entries b) ei)
      | None => None
      end
  | SBatchCtl bi => option_map b_ctl (nth_error (f_batches f) bi)
  | SBatchHdr bi => option_map b_hdr (nth_error (f_batches f) bi)
  | SFileCtl => Some (f_ctl f)
  end.

(* the record class of the line (hence the layout the reader parses it with) *)
Definition site_class (f : fileS) (s : site) : option rclass :=
  match s with
  | SEntry bi _ => option_map (fun b => RCEntry (kind_of_hdr (b_hdr b))) (nth_error (f_batches f) bi)
  | SBatchCtl bi => option_map (fun b => RCBatchCtl (kind_of_hdr (b_hdr b))) (nth_error (f_batches f) bi)
  | SBatchHdr bi => option_map (fun b => RCBatchHdr (kind_of_hdr (b_hdr b))) (nth_error (f_batches f) bi)
  | SFileCtl => Some (RCFileCtl (adv_file f))
  end.

Definition map_line (f : fileS) (s : site) (g : bytes -> bytes) : fileS :=
  match s with
  | SEntry bi ei =>
      mkFile (f_hdr f)
             (upd_nth bi (fun b => mkBatch (b_hdr b)
                                           (upd_nth ei (fun e => mkEntry (g (e_rec e)) (e_addenda e)) (b_entries b))
                                           (b_ctl b)) (f_batches f))
             (f_ctl f)
  | SBatchCtl bi =>
      mkFile (f_hdr f) (upd_nth bi (fun b => mkBatch (b_hdr b) (b_entries b) (g (b_ctl b))) (f_batches f)) (f_ctl f)
  | SBatchHdr bi =>
      mkFile (f_hdr f) (upd_nth bi (fun b => mkBatch (g (b_hdr b)) (b_entries b) (b_ctl b)) (f_batches f)) (f_ctl f)
  | SFileCtl => with_ctl f (g (f_ctl f))
  end.

Definition tamper (f : fileS) (s : site) (col : nat) (d : N) : fileS := map_line f s (fun l => set_digit l col d).

(* a record line whose characters from column c on were cut off, as the reader pads it *)
Definition cut_line (line : bytes) (c : nat) : bytes := (firstn c line ++ repeat sp (94 - c))%list.

(* the text of a file: every physical line followed by the line ending *)
Definition LF_b : bytes := [10]%N.
Definition CRLF_b : bytes := [13; 10]%N.

(* what Reader.Read + File.Validate decide about a text, on the protected fields:
   None = no file; Some (skeleton, first failing rule) *)
Definition text_verdict (T : tables) (text : bytes) : option (file * rule) :=
  match read_text text with
  | Some f => let s := skel f in Some (s, read_validate T s)
  | None => None
  end.

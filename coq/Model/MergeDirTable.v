(* C10 — types and boolean checkers for the tables the translator regenerates from merge.go
   (coq/Gen/MergeDirGen.v), with the generic statements they give. *)
From Coq Require Import String List Bool.
Import ListNotations.
From ACH Require Import Bytes Walk WalkFacts.

Record send_site := mkSend {
  s_func : string;      (* enclosing function *)
  s_chan : string;      (* channel expression *)
  s_guarded : bool;     (* is the send a case of a select that also has a `<-X.Done()` case *)
  s_done : string       (* X *)
}.

(* a write of a parser goroutine to the accumulator the merger goroutine reads *)
Record shared_write := mkShared {
  sw_func : string;     (* enclosing function *)
  sw_target : string;   (* assigned expression, or method called on the accumulator *)
  sw_guard : string     (* "once:X" (inside X.Do(func(){...}), X a *sync.Once), "none", "unknown" *)
}.

(* the protocol model lets the merger read the seeded header only after the seeding parser finished and treats
   the seeding as one atomic step that happens once: every write is inside a sync.Once, and there is one *)
Definition once_guarded (w : shared_write) : bool := String.eqb (String.substring 0 5 (sw_guard w)) "once:".
Definition shared_writes_ok (l : list shared_write) : bool :=
  match l with [] => false | _ => forallb once_guarded l end.

Definition has_chan (c : string) (l : list send_site) : bool :=
  existsb (fun s => String.eqb (s_chan s) c) l.

(* the protocol model's [sel]: both hand-offs exist and every send can be abandoned once the
   errgroup context is canceled *)
Definition shape_sel (l : list send_site) (group_ctx : bool) : bool :=
  group_ctx && forallb s_guarded l && has_chan "discoveredPaths" l && has_chan "mergableFiles" l.

(* the listing loop of walkDir runs to the end: no return except error propagation / cancellation *)
Definition loop_complete (early : list string) : bool := match early with [] => true | _ => false end.

Definition acceptor_ok (t : list (bytes * acceptance)) (d : acceptance) (tag_ok : bool) : bool :=
  tag_ok && table_agrees t d.

Theorem acceptor_ok_sound t d tag_ok :
  acceptor_ok t d tag_ok = true -> forall p, accept_with t d p = spec_accept p.
Proof. unfold acceptor_ok. intros H. apply andb_prop in H as [_ H]. now apply table_agrees_sound. Qed.

(* C14, phase 5 — proofs about the observation. *)
From Coq Require Import String List Bool NArith ZArith.
Import ListNotations.
From ACH Require Import Bytes JsonCodec EffectTable Purity PurityFacts PurityAlias PurityObs.

(* the encoder ignores the key-less fields of a struct *)
Lemma enc_struct_agree n fs : forall vs vs', agree_keyed fs vs vs' ->
  enc (TStruct n fs) (VRec vs) = enc (TStruct n fs) (VRec vs').
Proof.
  intros vs vs' H. cbn [enc]. f_equal. revert vs vs' H.
  induction fs as [|[m ft] fs IH]; intros vs vs' H.
  - destruct vs, vs'; reflexivity.
  - destruct vs as [|x r], vs' as [|x' r']; cbn [agree_keyed] in H; try reflexivity; try contradiction.
    destruct H as [Hx Hr]. destruct (f_enc m) as [k|].
    + subst x'. destruct (f_omit m && is_empty x); [apply IH; exact Hr|]. f_equal. apply IH. exact Hr.
    + apply IH. exact Hr.
Qed.

(* state unchanged => observation unchanged *)
Lemma obs_of_eq s s' : s = s' -> obs s = obs s'.
Proof. now intros ->. Qed.

Lemma enc_bat b : bat_of_json (enc T_absBatch (val_of_bat b)) = Some b.
Proof. destruct b as [[s|] [|]]; reflexivity. Qed.

Lemma enc_bats bs : opt_all (map bat_of_json (map (enc (TPtr T_absBatch)) (map val_of_bat bs))) = Some bs.
Proof.
  induction bs as [|b t IH]; [reflexivity|].
  change (opt_all (bat_of_json (enc T_absBatch (val_of_bat b)) ::
                   map bat_of_json (map (enc (TPtr T_absBatch)) (map val_of_bat t))) = Some (b :: t)).
  rewrite enc_bat. cbn [opt_all]. now rewrite IH.
Qed.

Lemma enc_bools l : opt_all (map bool_of_json (map (enc TBool) (map VBool l))) = Some l.
Proof.
  induction l as [|b t IH]; [reflexivity|].
  change (opt_all (Some b :: map bool_of_json (map (enc TBool) (map VBool t))) = Some (b :: t)).
  cbn [opt_all]. now rewrite IH.
Qed.

(* the JSON observation determines the modelled state *)
Lemma x_of_obs_json s : x_of_json (obs_json s) = Some s.
Proof.
  destruct s as [bs o]. unfold obs_json, val_of_x. cbn [x_bats x_opts].
  destruct o as [l|].
  - change (x_of_json (JObj [("batches"%string, JArr (map (enc (TPtr T_absBatch)) (map val_of_bat bs)));
                             ("validateOpts"%string, JArr (map (enc TBool) (map VBool l)))]) = Some (mkx bs (Some l))).
    cbn [x_of_json]. rewrite enc_bats, enc_bools. reflexivity.
  - change (x_of_json (JObj [("batches"%string, JArr (map (enc (TPtr T_absBatch)) (map val_of_bat bs)));
                             ("validateOpts"%string, JNull)]) = Some (mkx bs None)).
    cbn [x_of_json]. rewrite enc_bats. reflexivity.
Qed.

Lemma obs_json_inj s s' : obs_json s = obs_json s' -> s = s'.
Proof.
  intros H. assert (E : x_of_json (obs_json s) = x_of_json (obs_json s')) by now rewrite H.
  rewrite !x_of_obs_json in E. now injection E.
Qed.

Lemma obs_inj s s' : obs s = obs s' -> s = s'.
Proof. intros H. apply (f_equal fst) in H. unfold obs in H. cbn [fst] in H. exact (obs_json_inj s s' H). Qed.

Lemma obs_iff s s' : obs s = obs s' <-> xobserve s = xobserve s'.
Proof.
  split.
  - intros H. now rewrite (obs_inj s s' H).
  - intros H. destruct s as [b o], s' as [b' o']. unfold xobserve in H. cbn [x_bats x_opts] in H.
    injection H as Hb Ho. apply observe_inj in Hb. now subst.
Qed.

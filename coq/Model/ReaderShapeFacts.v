(* C06 (phase 5) — proofs about the shape model of ach.Reader (ReaderShape.v):
   the invariant [inv] holds in every state the reader reaches, for every line sequence, every per-line
   answer and every oracle; under it none of the reader's own dereference sites panics ([site_safe]) and
   none of the operations it calls on the batch it built does; the file it holds — at any point and when
   Read returns, with or without error — is well-formed, so every operation sequence and every route
   that continues on it is total. *)
From Coq Require Import List Bool Arith Lia.
Import ListNotations.
From ACH Require Import TotalOps TotalOpsFacts TotalJson TotalJsonFacts ReaderShape.
Open Scope ops_scope.

(* ------------------------------------------------------------------ *)
(* lists: the last element *)

Lemma rev_cons_in {A} (l : list A) x t : rev l = x :: t -> In x l.
Proof. intros H. apply in_rev. rewrite H. left. reflexivity. Qed.

Lemma rev_nil_nil {A} (l : list A) : rev l = [] -> l = [].
Proof. intros H. rewrite <- (rev_involutive l), H. reflexivity. Qed.

Lemma last_present_all {A} (l : list (option A)) :
  (forall x, In x l -> exists a, x = Some a) -> l <> [] -> last_present l = true.
Proof.
  intros Hl Hne. unfold last_present. destruct (rev l) as [|x t] eqn:Hr.
  - elim Hne. exact (rev_nil_nil l Hr).
  - destruct (Hl x (rev_cons_in l x t Hr)) as (a & ->). reflexivity.
Qed.

Lemma upd_last_in {A} (g : A -> A) (l : list (option A)) y :
  In y (upd_last g l) -> In y l \/ exists x, In (Some x) l /\ y = Some (g x).
Proof.
  unfold upd_last. destruct (rev l) as [|[x|] t] eqn:Hr; intros Hin; auto.
  apply in_app_or in Hin as [Hin|[<-|[]]].
  - left. apply in_rev. rewrite Hr. right. apply in_rev. exact Hin.
  - right. exists x. split; [exact (rev_cons_in l _ _ Hr)|reflexivity].
Qed.

Lemma upd_last_nonempty {A} (g : A -> A) (l : list (option A)) : l <> [] -> upd_last g l <> [].
Proof.
  intros Hne. unfold upd_last. destruct (rev l) as [|[x|] t] eqn:Hr; auto.
  intros H. apply app_eq_nil in H as [_ H]. discriminate H.
Qed.

(* ------------------------------------------------------------------ *)
(* the invariant as a proposition *)

Definition WB1 := WB true.
Definition WF1 := WF true.

Record Inv (s : rstate) : Prop := mkInv {
  i_cur : forall b, r_cur s = Some b -> WB1 b;
  i_ctl : present (ic_header (r_iat s)) = true -> ic_control (r_iat s) = true;
  i_ent : forall l, ic_entries (r_iat s) = Some l -> present (ic_header (r_iat s)) = true /\ l <> [] /\ wfi l;
  i_file : WF1 (r_file s) }.

Lemma wfi_forallb l :
  forallb (fun oe => match oe with Some e => wf_iat_entry e | None => false end) l = true <-> wfi l.
Proof.
  split.
  - intros H oe Hin. rewrite forallb_forall in H. specialize (H oe Hin). destruct oe as [e|]; [|discriminate].
    unfold wf_iat_entry in H. apply andb_prop in H as [H1 H2]. eauto.
  - intros H. apply forallb_forall. intros oe Hin. destruct (H oe Hin) as (e & -> & H1 & H2).
    unfold wf_iat_entry. rewrite H1, H2. reflexivity.
Qed.

(* the four clauses about the current batch together are TotalOps.wf_batch_s true *)
Lemma cur_clauses_wf s b : r_cur s = Some b ->
  (holds ClCurHeader s && holds ClCurControl s && holds ClCurEntries s && holds ClCurSec s) = wf_batch_s true b.
Proof.
  intros H. unfold holds, wf_batch_s. rewrite H. destruct (b_header b) as [h|]; cbn [present negb orb].
  - destruct (if sec_eqb (h_sec h) ADV then b_adv b else b_control b); cbn [andb]; [|reflexivity].
    destruct (wf_entries (b_entries b)); cbn [andb]; [|reflexivity].
    destruct (forallb present (b_adventries b)); reflexivity.
  - reflexivity.
Qed.

Lemma inv_Inv s : inv s = true <-> Inv s.
Proof.
  unfold inv, all_clauses. cbn [forallb]. rewrite andb_true_r.
  split.
  - intros H. apply andb_prop in H as [C1 H]. apply andb_prop in H as [C2 H]. apply andb_prop in H as [C3 H].
    apply andb_prop in H as [C4 H]. apply andb_prop in H as [C5 H]. apply andb_prop in H as [C6 H].
    apply andb_prop in H as [C7 C8].
    split.
    + intros b Hb. unfold WB1, WB. rewrite <- (cur_clauses_wf s b Hb). rewrite C1, C2, C3, C4. reflexivity.
    + intros Hh. unfold holds in C5. apply andb_prop in C5 as [C5 _]. rewrite Hh in C5. exact C5.
    + intros l Hl. unfold holds in C5, C6, C7. rewrite Hl in *. cbn [present negb orb] in C5.
      apply andb_prop in C5 as [_ C5]. split; [exact C5|]. split.
      * intros ->. discriminate C6.
      * apply wfi_forallb. exact C7.
    + exact C8.
  - intros [Hc Hk He Hf].
    assert (Hcur : holds ClCurHeader s && holds ClCurControl s && holds ClCurEntries s && holds ClCurSec s = true).
    { destruct (r_cur s) as [b|] eqn:Hb.
      - rewrite (cur_clauses_wf s b Hb). exact (Hc b eq_refl).
      - unfold holds. rewrite Hb. reflexivity. }
    apply andb_prop in Hcur as [Hcur C4]. apply andb_prop in Hcur as [Hcur C3]. apply andb_prop in Hcur as [C1 C2].
    rewrite C1, C2, C3, C4. cbn [andb]. apply andb_true_intro. split; [|apply andb_true_intro; split; [|apply andb_true_intro; split; [|exact Hf]]].
    + unfold holds. destruct (present (ic_header (r_iat s))) eqn:Hh; cbn [negb orb].
      * rewrite (Hk eq_refl). cbn [andb]. apply orb_true_r.
      * cbn [andb]. destruct (ic_entries (r_iat s)) as [l|] eqn:Hl; [|reflexivity].
        destruct (He l eq_refl) as [H _]. discriminate H.
    + unfold holds. destruct (ic_entries (r_iat s)) as [[|x l]|] eqn:Hl; try reflexivity.
      destruct (He [] eq_refl) as (_ & H & _). elim H. reflexivity.
    + unfold holds. destruct (ic_entries (r_iat s)) as [l|] eqn:Hl; [|reflexivity].
      apply wfi_forallb. exact (proj2 (proj2 (He l eq_refl))).
Qed.

Lemma Inv_init skip : Inv (init skip).
Proof. split; cbn; try discriminate. reflexivity. Qed.

(* ------------------------------------------------------------------ *)
(* every site is discharged by its clauses *)

Theorem site_safe k s :
  (forall c, In c (site_clauses k) -> holds c s = true) -> site_guard k s = true -> site_ok k s = true.
Proof.
  intros Hc Hg. destruct k; cbn [site_clauses site_guard site_ok] in *.
  - pose proof (Hc ClCurHeader (or_introl eq_refl)) as H. unfold holds in H.
    destruct (r_cur s); [exact H|discriminate Hg].
  - pose proof (Hc ClCurHeader (or_introl eq_refl)) as H1.
    pose proof (Hc ClCurControl (or_intror (or_introl eq_refl))) as H2. unfold holds in H1, H2. unfold cur_header in Hg.
    destruct (r_cur s) as [b|]; [|discriminate Hg]. cbn [present andb] in Hg.
    destruct (b_header b) as [h|]; [|discriminate H1]. apply negb_true_iff in Hg. rewrite Hg in H2. exact H2.
  - pose proof (Hc ClCurHeader (or_introl eq_refl)) as H1.
    pose proof (Hc ClCurControl (or_intror (or_introl eq_refl))) as H2. unfold holds in H1, H2. unfold cur_header in Hg.
    destruct (r_cur s) as [b|]; [|discriminate Hg]. cbn [present andb] in Hg.
    destruct (b_header b) as [h|]; [|discriminate H1]. rewrite Hg in H2. exact H2.
  - pose proof (Hc ClCurEntries (or_introl eq_refl)) as H. unfold holds in H.
    destruct (r_cur s) as [b|]; [|discriminate Hg]. apply andb_prop in H as [H _].
    apply last_present_all.
    + intros x Hin. unfold wf_entries in H. rewrite forallb_forall in H. specialize (H x Hin).
      destruct x as [e|]; [eauto|discriminate].
    + intros E. rewrite E in Hg. discriminate Hg.
  - pose proof (Hc ClCurEntries (or_introl eq_refl)) as H. unfold holds in H.
    destruct (r_cur s) as [b|]; [|discriminate Hg]. apply andb_prop in H as [_ H].
    apply last_present_all.
    + intros x Hin. rewrite forallb_forall in H. specialize (H x Hin). destruct x as [e|]; [eauto|discriminate].
    + intros E. rewrite E in Hg. discriminate Hg.
  - pose proof (Hc ClIatBuilt (or_introl eq_refl)) as H. unfold holds in H.
    apply andb_prop in Hg as [_ Hg]. apply andb_prop in H as [H1 H2]. rewrite Hg in H2. cbn [negb orb] in H2.
    rewrite H2 in H1. exact H1.
  - pose proof (Hc ClIatNonempty (or_introl eq_refl)) as H1.
    pose proof (Hc ClIatEntries (or_intror (or_introl eq_refl))) as H2. unfold holds in H1, H2.
    destruct (ic_entries (r_iat s)) as [l|]; [|discriminate Hg].
    apply last_present_all.
    + intros x Hin. rewrite forallb_forall in H2. specialize (H2 x Hin). destruct x as [e|]; [eauto|discriminate].
    + intros ->. discriminate H1.
Qed.

(* … in particular under the whole invariant *)
Lemma site_safe_inv k s : inv s = true -> site_guard k s = true -> site_ok k s = true.
Proof.
  intros Hi. apply site_safe. intros c _. unfold inv in Hi. rewrite forallb_forall in Hi. apply Hi.
  destruct c; cbn; auto 10.
Qed.

Lemma hst_deref {B} (t : rstate) (k : rsite) (kont : unit -> M rstate B) Q E :
  Inv t -> site_guard k t = true -> hoare (st t) (kont tt) Q E -> hoare (st t) (bind (deref k) kont) Q E.
Proof.
  intros Hi Hg H s o ->. unfold bind, deref, get. cbn.
  rewrite (site_safe_inv k t (proj2 (inv_Inv t) Hi) Hg). exact (H t o eq_refl).
Qed.

(* ------------------------------------------------------------------ *)
(* well-formedness of what the reader installs *)

Lemma WB1_bwf b : WB1 b -> exists h, bwf true b h.
Proof. apply wf_batch_bwf. Qed.

Lemma WB1_cur_header s b h : r_cur s = Some b -> bwf true b h -> cur_header s = h.
Proof. intros Hb W. unfold cur_header. rewrite Hb, (bw_h _ _ _ W). reflexivity. Qed.

Lemma wfe_fresh code off : wfe [Some (fresh_entry code off)].
Proof. intros oe [<-|[]]. eexists. split; reflexivity. Qed.

Lemma wfa_fresh code : wfa [Some (fresh_adv code)].
Proof. intros oa [<-|[]]. eexists. reflexivity. Qed.

Lemma wfi_fresh code : wfi [Some (fresh_iat code)].
Proof. intros oe [<-|[]]. eexists. repeat split. Qed.

Lemma wfi_app l1 l2 : wfi l1 -> wfi l2 -> wfi (l1 ++ l2).
Proof. intros H1 H2 oe Hin. apply in_app_or in Hin as [Hin|Hin]; auto. Qed.

Lemma std_effect_wf t g e : std_effect t = Some g -> all_true (e_a05 e) = true -> all_true (e_a05 (g e)) = true.
Proof.
  intros Ht He. destruct t as [| | | | | | | | | | |[|]|[| |]|]; try discriminate Ht; injection Ht as <-; cbn; try exact He.
  unfold all_true in *. rewrite forallb_app, He. reflexivity.
Qed.

Lemma iat_effect_wf t g e : iat_effect t = Some g ->
  all_true (ie_a17 e) = true /\ all_true (ie_a18 e) = true ->
  all_true (ie_a17 (g e)) = true /\ all_true (ie_a18 (g e)) = true.
Proof.
  intros Ht [H17 H18]. destruct t; try discriminate Ht; injection Ht as <-; cbn; split; try assumption;
    unfold all_true in *; rewrite forallb_app; [rewrite H17|rewrite H18]; reflexivity.
Qed.

Lemma wfe_upd_last g l : (forall e, all_true (e_a05 e) = true -> all_true (e_a05 (g e)) = true) -> wfe l -> wfe (upd_last g l).
Proof.
  intros Hg Hl y Hin. apply upd_last_in in Hin as [Hin|(x & Hx & ->)]; [exact (Hl y Hin)|].
  destruct (Hl _ Hx) as (e & [= <-] & He). eexists. split; [reflexivity|exact (Hg _ He)].
Qed.

Lemma wfa_upd_last g l : wfa l -> wfa (upd_last g l).
Proof.
  intros Hl y Hin. apply upd_last_in in Hin as [Hin|(x & Hx & ->)]; [exact (Hl y Hin)|eauto].
Qed.

Lemma wfi_upd_last g l :
  (forall e, all_true (ie_a17 e) = true /\ all_true (ie_a18 e) = true ->
             all_true (ie_a17 (g e)) = true /\ all_true (ie_a18 (g e)) = true) -> wfi l -> wfi (upd_last g l).
Proof.
  intros Hg Hl y Hin. apply upd_last_in in Hin as [Hin|(x & Hx & ->)]; [exact (Hl y Hin)|].
  destruct (Hl _ Hx) as (e & [= <-] & He). eexists. split; [reflexivity|exact (Hg _ He)].
Qed.

(* the IAT batch the reader hands to the file *)
Lemma Inv_ic_batch s l : Inv s -> ic_entries (r_iat s) = Some l -> WI (ic_batch (r_iat s)).
Proof.
  intros [_ Hk He _] Hl. destruct (He l Hl) as (Hh & _ & Hw). unfold WI, wf_iat, ic_batch. rewrite Hl. cbn.
  rewrite Hh, (Hk Hh). cbn. apply wfi_forallb. exact Hw.
Qed.

(* setOffsetCategory keeps the batch well-formed *)
Lemma first_category_safe l : wfe l -> safe (first_category l) top.
Proof.
  induction l as [|[e|] t IH]; intros Hl; cbn [first_category].
  - apply safe_ret. exact I.
  - destruct (e_cat e); try (apply safe_ret; exact I); apply IH; exact (wfe_tail _ _ Hl).
  - destruct (Hl None) as (? & ? & _); [left; reflexivity|discriminate].
Qed.

Lemma first_adv_category_safe l : wfa l -> safe (first_adv_category l) top.
Proof.
  induction l as [|[e|] t IH]; intros Hl; cbn [first_adv_category].
  - apply safe_ret. exact I.
  - destruct (ae_cat e); try (apply safe_ret; exact I); apply IH; exact (wfa_tail _ _ Hl).
  - destruct (Hl None) as (? & ?); [left; reflexivity|discriminate].
Qed.

Lemma category_of_safe b : WB1 b -> safe (category_of b) top.
Proof.
  intros Wb. unfold category_of. destruct (b_entries b) as [|x t] eqn:He; [apply safe_ret; exact I|].
  eapply safe_bind; [apply first_category_safe; rewrite <- He; exact (WB_entries true b Wb)|].
  intros [c|] _; [apply safe_ret; exact I|].
  eapply safe_bind; [apply first_adv_category_safe; exact (WB_adventries true b Wb)|].
  intros ? _. apply safe_ret. exact I.
Qed.

Lemma mark_offsets_safe l : wfe l -> safe (mark_offsets l) wfe.
Proof.
  induction l as [|[e|] t IH]; intros Hl; cbn [mark_offsets].
  - apply safe_ret. intros ? [].
  - eapply safe_bind; [apply IH; exact (wfe_tail _ _ Hl)|]. intros r Hr. apply safe_ret.
    intros oe [<-|Hin]; [|exact (Hr oe Hin)].
    destruct (Hl (Some e) (or_introl eq_refl)) as (e0 & [= <-] & He0).
    eexists. split; [reflexivity|]. destruct (cat_eqb (e_cat e) CFwd && e_off e); exact He0.
  - destruct (Hl None) as (? & ? & _); [left; reflexivity|discriminate].
Qed.

Lemma set_offset_category_safe b : WB1 b -> safe (set_offset_category b) WB1.
Proof.
  intros Wb. unfold set_offset_category.
  eapply safe_bind; [apply category_of_safe; exact Wb|]. intros c _.
  destruct (cat_eqb c CRet); [|apply safe_ret; exact Wb].
  eapply safe_bind; [apply mark_offsets_safe; exact (WB_entries true b Wb)|]. intros es Hes.
  apply safe_ret. exact (WB_set_entries true b es Wb Hes).
Qed.

(* ------------------------------------------------------------------ *)
(* the transitions keep the invariant, in the OK and in the ERR outcome, and never panic *)

Definition keeps (m : M rstate unit) : Prop := hoare Inv m (fun _ => Inv) Inv.

Lemma keeps_st m t : keeps m -> Inv t -> hoare (st t) m (fun _ => Inv) Inv.
Proof. intros H Ht s o ->. exact (H t o Ht). Qed.

Lemma Inv_set_cur_none s : Inv s -> Inv (set_cur None s).
Proof. intros [Hc Hk He Hf]. split; cbn; auto. discriminate. Qed.

Lemma Inv_set_cur s b : Inv s -> WB1 b -> Inv (set_cur (Some b) s).
Proof. intros [Hc Hk He Hf] Wb. split; cbn; auto. intros ? [= <-]. exact Wb. Qed.

Lemma Inv_set_ari x s : Inv s -> Inv (set_ari x s).
Proof. intros [Hc Hk He Hf]. split; cbn; auto. Qed.
Lemma Inv_set_iatcor x s : Inv s -> Inv (set_iatcor x s).
Proof. intros [Hc Hk He Hf]. split; cbn; auto. Qed.
Lemma Inv_set_iat_ari x s : Inv s -> Inv (set_iat_ari x s).
Proof. intros [Hc Hk He Hf]. split; cbn; auto. Qed.
Lemma Inv_set_rfile f s : Inv s -> WF1 f -> Inv (set_rfile f s).
Proof. intros [Hc Hk He Hf] Wf. split; cbn; auto. Qed.

Lemma add_batch_file_keeps b : WB1 b -> keeps (add_batch_file b).
Proof.
  intros Wb. unfold keeps, add_batch_file. apply hst_of. intros s Hs. apply hst_get.
  destruct (r_skip s); [apply hst_ret; exact Hs|].
  eapply hst_ro; [apply (add_batch_safe true (Some b)); [exact Wb|exact (i_file s Hs)]|exact Hs|].
  intros f' Wf'. apply hst_put_end. exact (Inv_set_rfile f' s Hs Wf').
Qed.

Lemma flush_for_header_keeps : keeps flush_for_header.
Proof.
  unfold keeps, flush_for_header. apply hst_of. intros s Hs. apply hst_get.
  destruct (r_cur s) as [b|] eqn:Hb; [|apply hst_ret; exact Hs].
  destruct (b_entries b); [apply hst_fail; exact Hs|].
  apply hst_put. apply keeps_st; [|exact (Inv_set_cur_none s Hs)].
  apply add_batch_file_keeps. exact (i_cur s Hs b Hb).
Qed.

Lemma parse_batch_header_keeps a h c : keeps (parse_batch_header a h c).
Proof.
  unfold keeps, parse_batch_header. destruct (negb (a_ok a)); [apply hoare_fail; auto|].
  pose proof (new_batch_WB true h) as Hn. unfold new_batch in *.
  destruct (sec_valid (h_sec h)) eqn:Hv; [|apply hoare_fail; auto].
  intros s o Hs. cbn. apply Inv_set_ari, Inv_set_iatcor, Inv_set_cur; [exact Hs|]. apply Hn. reflexivity.
Qed.

Lemma parse_iat_header_keeps a h : keeps (parse_iat_header a h).
Proof.
  unfold keeps, parse_iat_header. destruct (negb (a_ok a)); [apply hoare_fail; auto|].
  intros s o [Hc Hk He Hf]. cbn. split; cbn; auto. discriminate.
Qed.

Lemma parse_ed_keeps a code off ari acode aari icode iari : keeps (parse_ed a code off ari acode aari icode iari).
Proof.
  unfold keeps, parse_ed. apply hst_of. intros s Hs. apply hst_get.
  destruct (present (ic_header (r_iat s))) eqn:Hh.
  - destruct (negb (a_ok a)); [apply hst_fail; exact Hs|]. apply hst_put_end.
    apply Inv_set_iat_ari. destruct Hs as [Hc Hk He Hf]. split; cbn; auto.
    intros l [= <-]. split; [exact Hh|]. destruct (ic_entries (r_iat s)) as [l0|] eqn:Hl.
    + split; [intros E; apply app_eq_nil in E as [_ E]; discriminate E|].
      apply wfi_app; [exact (proj2 (proj2 (He l0 eq_refl)))|apply wfi_fresh].
    + split; [discriminate|apply wfi_fresh].
  - destruct (r_cur s) as [b|] eqn:Hb; [|apply hst_fail; exact Hs].
    pose proof (i_cur s Hs b Hb) as Wb. destruct (WB1_bwf b Wb) as (h & W).
    apply hst_deref; [exact Hs|cbn; rewrite Hb; reflexivity|].
    rewrite (WB1_cur_header s b h Hb W).
    destruct (negb (sec_eqb (h_sec h) ADV)); (destruct (negb (a_ok a)); [apply hst_fail; exact Hs|]); apply hst_put_end;
      apply Inv_set_ari, Inv_set_cur; try exact Hs.
    + apply WB_set_entries; [exact Wb|]. apply wfe_app; [exact (WB_entries true b Wb)|apply wfe_fresh].
    + apply WB_set_adventries; [exact Wb|]. apply wfa_app; [exact (WB_adventries true b Wb)|apply wfa_fresh].
Qed.

Lemma parse_adv_addenda_keeps a : keeps (parse_adv_addenda a).
Proof.
  unfold keeps, parse_adv_addenda. apply hst_of. intros s Hs. apply hst_get.
  destruct (r_cur s) as [b|] eqn:Hb; [|apply hst_fail; exact Hs].
  pose proof (i_cur s Hs b Hb) as Wb. destruct (WB1_bwf b Wb) as (h & W).
  destruct (b_adventries b) as [|x t] eqn:Ha; [apply hst_fail; exact Hs|]. rewrite <- Ha.
  apply hst_deref; [exact Hs|cbn; rewrite Hb, Ha; reflexivity|].
  destruct (negb (r_ari s)).
  - eapply hst_ro_end; [apply (berr_safe true b h W (fun _ => False))|exact Hs|]. intros ? [].
  - destruct (negb (a_ok a)); [apply hst_fail; exact Hs|]. apply hst_put_end. apply Inv_set_cur; [exact Hs|].
    apply WB_set_adventries; [exact Wb|]. apply wfa_upd_last. exact (WB_adventries true b Wb).
Qed.

Lemma parse_addenda_keeps a t : keeps (parse_addenda a t).
Proof.
  unfold keeps, parse_addenda. apply hst_of. intros s Hs. apply hst_get.
  destruct (r_cur s) as [b|] eqn:Hb; [|apply hst_fail; exact Hs].
  pose proof (i_cur s Hs b Hb) as Wb. destruct (WB1_bwf b Wb) as (h & W).
  apply hst_deref; [exact Hs|cbn; rewrite Hb; reflexivity|].
  rewrite (WB1_cur_header s b h Hb W).
  destruct (negb (sec_eqb (h_sec h) ADV)).
  - destruct (b_entries b) as [|x l] eqn:He; [apply hst_fail; exact Hs|]. rewrite <- He.
    apply hst_deref; [exact Hs|cbn; rewrite Hb, He; reflexivity|].
    destruct (negb (r_ari s)).
    + eapply hst_ro_end; [apply (berr_safe true b h W (fun _ => False))|exact Hs|]. intros ? [].
    + destruct (std_effect t) as [g|] eqn:Hg; [|apply hst_ret; exact Hs].
      destruct (negb (a_ok a)); [apply hst_fail; exact Hs|]. apply hst_put_end. apply Inv_set_cur; [exact Hs|].
      apply WB_set_entries; [exact Wb|]. apply wfe_upd_last; [intros e; exact (std_effect_wf t g e Hg)|exact (WB_entries true b Wb)].
  - apply keeps_st; [apply parse_adv_addenda_keeps|exact Hs].
Qed.

Lemma parse_iat_addenda_keeps a t : keeps (parse_iat_addenda a t).
Proof.
  unfold keeps, parse_iat_addenda. apply hst_of. intros s Hs. apply hst_get.
  destruct (ic_entries (r_iat s)) as [l|] eqn:Hl; [|apply hst_fail; exact Hs].
  apply hst_deref; [exact Hs|cbn; rewrite Hl; reflexivity|].
  destruct (negb (r_iat_ari s)); [apply hst_fail; exact Hs|].
  destruct (iat_effect t) as [g|] eqn:Hg; [|apply hst_ret; exact Hs].
  destruct (negb (a_ok a)); [apply hst_fail; exact Hs|]. apply hst_put_end.
  destruct Hs as [Hc Hk He Hf]. destruct (He l Hl) as (Hh & Hne & Hw). split; cbn; auto.
  intros ? [= <-]. split; [exact Hh|]. split; [apply upd_last_nonempty; exact Hne|].
  apply wfi_upd_last; [intros e; exact (iat_effect_wf t g e Hg)|exact Hw].
Qed.

Lemma parse_ed_addenda_keeps a t : keeps (parse_ed_addenda a t).
Proof.
  unfold keeps, parse_ed_addenda. apply hst_of. intros s Hs. apply hst_get.
  assert (Hk : forall c : bool, hoare (st s) (if c then parse_addenda a t else parse_iat_addenda a t) (fun _ => Inv) Inv).
  { intros c. apply keeps_st; [|exact Hs].
    destruct c; [apply parse_addenda_keeps|apply parse_iat_addenda_keeps]. }
  destruct (r_cur s) as [b|] eqn:Hb.
  - apply hoare_bind with (Q := fun _ => st s); [|intros c; exact (Hk c)].
    apply hst_deref; [exact Hs|cbn; rewrite Hb; reflexivity|]. apply hst_ret. reflexivity.
  - apply hst_ret_bind. exact (Hk false).
Qed.

Lemma parse_batch_control_keeps a : hoare Inv (parse_batch_control a) (fun _ s => Inv s /\ (r_cur s = None -> ic_entries (r_iat s) <> None)) Inv.
Proof.
  unfold parse_batch_control. apply hst_of. intros s Hs. apply hst_get.
  destruct (r_cur s) as [b|] eqn:Hb.
  - pose proof (i_cur s Hs b Hb) as Wb. destruct (WB1_bwf b Wb) as (h & W).
    apply hst_deref; [exact Hs|cbn; rewrite Hb; reflexivity|].
    rewrite (WB1_cur_header s b h Hb W).
    assert (Hend : hoare (st s) (if a_ok a then ret tt else fail) (fun _ s0 => Inv s0 /\ (r_cur s0 = None -> ic_entries (r_iat s0) <> None)) Inv).
    { destruct (a_ok a); [apply hst_ret|apply hst_fail; exact Hs]. split; [exact Hs|]. rewrite Hb. discriminate. }
    destruct (sec_eqb (h_sec h) ADV) eqn:Hadv.
    + apply hst_deref; [exact Hs| |exact Hend]. cbn. rewrite Hb. cbn. rewrite (WB1_cur_header s b h Hb W). exact Hadv.
    + apply hst_deref; [exact Hs| |exact Hend]. cbn. rewrite Hb. cbn. rewrite (WB1_cur_header s b h Hb W), Hadv. reflexivity.
  - destruct (ic_entries (r_iat s)) as [l|] eqn:Hl; [|apply hst_fail; exact Hs].
    apply hst_deref; [exact Hs|cbn; rewrite Hb, Hl; reflexivity|].
    destruct (a_ok a); [apply hst_ret|apply hst_fail; exact Hs]. split; [exact Hs|]. rewrite Hl. discriminate.
Qed.

Lemma maybe_validate_batch_keeps a b : WB1 b -> keeps (maybe_validate_batch a b).
Proof.
  intros Wb. unfold keeps, maybe_validate_batch. destruct (a_bv a); [|apply hoare_ret; auto].
  destruct (WB1_bwf b Wb) as (h & W).
  eapply hoare_conseq; [apply (hoare_ro Inv _ top); apply (batch_validate_safe true b h W)|auto|intros ? ? [_ H]; exact H|auto].
Qed.

Lemma maybe_validate_iat_keeps a b : WI b -> keeps (maybe_validate_iat a b).
Proof.
  intros Wb. unfold keeps, maybe_validate_iat. destruct (a_bv a); [|apply hoare_ret; auto].
  destruct (wf_iat_iwf b Wb) as (h & W).
  eapply hoare_conseq; [apply (hoare_ro Inv _ top); apply (iat_validate_safe b h W)|auto|intros ? ? [_ H]; exact H|auto].
Qed.

Lemma line_batch_control_keeps a : keeps (line_batch_control a).
Proof.
  unfold keeps, line_batch_control. eapply hoare_bind; [apply parse_batch_control_keeps|]. intros [].
  apply hst_of. intros s [Hs Hne]. apply hst_get.
  destruct (r_cur s) as [b|] eqn:Hb.
  - pose proof (i_cur s Hs b Hb) as Wb. apply hst_put.
    pose proof (Inv_set_cur_none s Hs) as Hs'.
    eapply hst_ro; [apply set_offset_category_safe; exact Wb|exact Hs'|]. intros b' Wb'.
    apply keeps_st; [|exact Hs'].
    eapply hoare_bind; [apply add_batch_file_keeps; exact Wb'|]. intros ?. apply maybe_validate_batch_keeps. exact Wb'.
  - destruct (ic_entries (r_iat s)) as [l|] eqn:Hl; [|elim (Hne eq_refl); reflexivity].
    pose proof (Inv_ic_batch s l Hs Hl) as Wi.
    apply hst_put.
    assert (Hs' : Inv (set_riat ic_blank s)).
    { destruct Hs as [Hc Hk He Hf]. split; cbn; auto; discriminate. }
    apply keeps_st; [|exact Hs'].
    eapply hoare_bind with (Q := fun _ => Inv); [|intros ?; apply maybe_validate_iat_keeps; exact Wi].
    cbn [r_skip set_riat]. destruct (r_skip s); [apply hoare_ret; auto|].
    intros s0 o Hs0. cbn. apply Inv_set_rfile; [exact Hs0|]. apply WF_add_iat; [exact Wi|exact (i_file s0 Hs0)].
Qed.

Lemma file_is_adv_keeps : hoare Inv (zoom r_file set_rfile file_is_adv) (fun _ => Inv) Inv.
Proof.
  eapply hoare_zoom; [apply (file_is_adv_inv true)| | |].
  - intros s Hs. exact (i_file s Hs).
  - intros s r f Hs [Wf _]. exact (Inv_set_rfile f s Hs Wf).
  - intros s f Hs Wf. exact (Inv_set_rfile f s Hs Wf).
Qed.

Lemma parse_file_control_keeps a : keeps (parse_file_control a).
Proof.
  unfold keeps, parse_file_control. eapply hoare_bind; [apply file_is_adv_keeps|]. intros ?.
  destruct (a_ok a); [apply hoare_ret|apply hoare_fail]; auto.
Qed.

Theorem step_keeps x : keeps (step x).
Proof.
  unfold keeps, step. destruct x as [l a]. cbn [fst snd]. destruct l.
  - unfold parse_file_header. destruct (a_ok a); [apply hoare_ret|apply hoare_fail]; auto.
  - eapply hoare_bind; [apply flush_for_header_keeps|]. intros ?. apply parse_batch_header_keeps.
  - eapply hoare_bind; [apply flush_for_header_keeps|]. intros ?. apply parse_iat_header_keeps.
  - apply parse_ed_keeps.
  - apply parse_ed_addenda_keeps.
  - apply line_batch_control_keeps.
  - apply parse_file_control_keeps.
  - apply hoare_ret. auto.
  - apply hoare_fail. auto.
Qed.

Lemma caught_keeps m : keeps m -> hoare Inv (caught m) (fun _ => Inv) (fun _ => False).
Proof.
  intros H s o Hs. unfold caught. specialize (H s o Hs). destruct (m s o); auto.
Qed.

Theorem read_lines_keeps ls : hoare Inv (read_lines ls) (fun _ => Inv) (fun _ => False).
Proof.
  induction ls as [|x t IH]; cbn [read_lines].
  - apply hoare_ret. auto.
  - eapply hoare_bind; [apply caught_keeps, step_keeps|]. intros e.
    eapply hoare_bind; [apply IH|]. intros r. apply hoare_ret. auto.
Qed.

Lemma finish_keeps fin : keeps (finish fin).
Proof.
  unfold keeps, finish. apply hst_of. intros s Hs. apply hst_get.
  apply hoare_bind with (Q := fun _ => Inv).
  - destruct (r_cur s) as [b|] eqn:Hb; [|apply hst_ret; exact Hs].
    apply hst_put. apply keeps_st; [|exact (Inv_set_cur_none s Hs)].
    apply add_batch_file_keeps. exact (i_cur s Hs b Hb).
  - intros _. eapply hoare_bind; [apply file_is_adv_keeps|]. intros ?.
    destruct (a_ok fin); [apply hoare_ret|apply hoare_fail]; auto.
Qed.

Theorem reader_read_keeps ls fin : hoare Inv (reader_read ls fin) (fun _ => Inv) (fun _ => False).
Proof.
  unfold reader_read. eapply hoare_bind; [apply read_lines_keeps|]. intros oks.
  eapply hoare_bind; [apply caught_keeps, finish_keeps|]. intros e. apply hoare_ret. auto.
Qed.

Lemma reader_read_keeps' ls fin : hoare Inv (reader_read ls fin) (fun _ => Inv) Inv.
Proof. eapply hoare_conseq; [apply reader_read_keeps|auto|auto|intros ? []]. Qed.

(* ------------------------------------------------------------------ *)
(* The theorems *)

(* states the reader can be in between two lines: any prefix may be all that is read (r.maxLines) *)
Definition reachable (s : rstate) : Prop :=
  exists skip ls o v o', read_lines ls (init skip) o = OK v s o'.

Theorem reader_inv s : reachable s -> inv s = true.
Proof.
  intros (skip & ls & o & v & o' & H). apply inv_Inv.
  pose proof (read_lines_keeps ls (init skip) o (Inv_init skip)) as K. rewrite H in K. exact K.
Qed.

(* in every reachable state, every site whose guard the code has tested is safe *)
Theorem reader_sites_total s k : reachable s -> site_guard k s = true -> site_ok k s = true.
Proof. intros Hr. apply site_safe_inv, reader_inv, Hr. Qed.

(* no transition panics from a reachable state: none of the seven site kinds, none of the operations on
   the batch the reader built *)
Theorem reader_step_total s x o : reachable s -> panics (step x s o) = false.
Proof.
  intros Hr. eapply (hoare_no_panic Inv); [apply step_keeps|]. apply inv_Inv, reader_inv, Hr.
Qed.

Theorem reader_total skip ls fin o : panics (reader_read ls fin (init skip) o) = false.
Proof. eapply (hoare_no_panic Inv); [apply reader_read_keeps|apply Inv_init]. Qed.

Theorem reader_hinted_total skip ls : read_hinted ls (init skip) <> None.
Proof.
  assert (H : forall ls s, Inv s -> read_hinted ls s <> None).
  { induction ls0 as [|[x o] t IH]; intros s Hs; cbn [read_hinted]; [discriminate|].
    pose proof (step_keeps x s o Hs) as K. destruct (step x s o) as [[] s' o'|s' o'|]; [| |contradiction];
      specialize (IH s' K); destruct (read_hinted t s'); try discriminate; elim IH; reflexivity. }
  apply H, Inv_init.
Qed.

Lemma wf_strict_weaken f : wf_file_strict f = true -> wf_file f = true.
Proof.
  unfold wf_file_strict, wf_file, wf_file_s. intros H. apply andb_prop in H as [Hb Hi].
  apply andb_true_intro. split; [|exact Hi]. apply forallb_forall. intros ob Hin.
  rewrite forallb_forall in Hb. specialize (Hb ob Hin). destruct ob as [b|]; [|discriminate].
  unfold wf_batch_s in *. destruct (b_header b); [|discriminate].
  apply andb_prop in Hb as [Hb _]. rewrite Hb. reflexivity.
Qed.

(* the file the reader holds is well-formed whenever it may hand it out: after any prefix of the lines
   (ErrFileTooLong returns r.File as it is) … *)
Theorem reader_file_wf s : reachable s -> wf_file_strict (r_file s) = true.
Proof. intros Hr. exact (i_file s (proj1 (inv_Inv s) (reader_inv s Hr))). Qed.

(* … and when Read returns, whether it reports errors or not *)
Theorem reader_result_wf skip ls fin o v s o' :
  reader_read ls fin (init skip) o = OK v s o' -> wf_file_strict (r_file s) = true /\ wf_file (r_file s) = true.
Proof.
  intros H. pose proof (reader_read_keeps ls fin (init skip) o (Inv_init skip)) as K. rewrite H in K.
  split; [exact (i_file s K)|exact (wf_strict_weaken _ (i_file s K))].
Qed.

Theorem reader_never_err skip ls fin o s o' : reader_read ls fin (init skip) o <> ERR s o'.
Proof.
  intros H. pose proof (reader_read_keeps ls fin (init skip) o (Inv_init skip)) as K. rewrite H in K. exact K.
Qed.

(* read any text, then run any operation sequence on the file Read returned *)
Theorem text_then_ops_total skip ls fin xs o : panics (read_then_ops ls fin xs (init skip) o) = false.
Proof.
  eapply (hoare_no_panic Inv) with (Q := fun _ => Inv) (E := Inv); [|apply Inv_init].
  unfold read_then_ops. eapply hoare_bind; [apply reader_read_keeps'|].
  intros ?. eapply hoare_zoom; [apply (run_ops_inv true xs)| | |].
  - intros s Hs. exact (i_file s Hs).
  - intros s r f Hs Wf. exact (Inv_set_rfile f s Hs Wf).
  - intros s f Hs Wf. exact (Inv_set_rfile f s Hs Wf).
Qed.

(* ---- server *)

Section Strict.
Variable strict : bool.

Lemma WF1_WF f : WF1 f -> WF strict f.
Proof. intros H. destruct strict; [exact H|exact (wf_strict_weaken f H)]. Qed.

Lemma read_text_inv ls fin :
  hoare (WR strict) (read_text ls fin) (fun v r => WR strict r /\ WF strict (fst v)) (WR strict).
Proof.
  intros r o Hr. unfold read_text.
  pose proof (reader_read_keeps ls fin (init false) o (Inv_init false)) as K.
  destruct (reader_read ls fin (init false) o) as [v s o'|s o'|]; [|contradiction|exact K].
  split; [exact Hr|]. apply WF1_WF. exact (i_file s K).
Qed.

Lemma wf_body f : WF strict f -> route_ok strict (RCreateFile 0 (BText f)) = true.
Proof. intros H. exact H. Qed.

Lemma handle_t_inv x : troute_ok strict x = true -> hoare (WR strict) (handle_t x) (fun _ => WR strict) (WR strict).
Proof.
  intros Hx. destruct x as [x|id ls fin|ls fin cid did]; cbn [handle_t troute_ok] in *.
  - apply andb_prop in Hx as [Hx _]. apply handle_inv. exact Hx.
  - eapply hoare_bind; [apply read_text_inv|]. intros v.
    apply hst_of. intros r [Hr Hf]. eapply hoare_conseq; [apply (handle_inv strict (RCreateFile id (BText (fst v)))); exact Hf| | |]; auto.
    intros ? ->. exact Hr.
  - eapply hoare_bind; [apply read_text_inv|]. intros v.
    apply hst_of. intros r [Hr Hf]. destruct (snd v); [|apply hst_fail; exact Hr].
    eapply hoare_conseq; [apply (handle_inv strict (RSegment (BText (fst v)) cid did)); exact Hf| | |]; auto.
    intros ? ->. exact Hr.
Qed.

Lemma serve_t_inv xs : forallb (troute_ok strict) xs = true -> hoare (WR strict) (serve_t xs) (fun _ => WR strict) (WR strict).
Proof.
  induction xs as [|x t IH]; intros Hx; cbn [serve_t].
  - apply hoare_ret. auto.
  - cbn in Hx. apply andb_prop in Hx as [H1 H2].
    eapply hoare_bind; [eapply hoare_try; [apply handle_t_inv; exact H1|auto]|]. intros ?. apply IH. exact H2.
Qed.

End Strict.

(* request lists over the 18 routes, NACHA-text bodies being ANY line sequence read by the reader model *)
Theorem handlers_total_text strict r xs o :
  Forall (fun p => wf_file_s strict (snd p) = true) r ->
  forallb (troute_ok strict) xs = true ->
  panics (serve_t xs r o) = false.
Proof.
  intros Hr Hx. eapply (hoare_no_panic (WR strict)); [apply serve_t_inv; exact Hx|exact Hr].
Qed.

(* Proofs about the ENR / DNE payment-information model (C20, phase 2):
   the reassembly done by String() shows no blank-free, asterisk-free byte string
   that was not already a substring of one of the (masked) fields it is given. *)
From Coq Require Import Lia.
From ACH Require Import Utf8 Utf8Facts Mask MaskFacts Fields PaymentInfo.
Open Scope N_scope.

(* ---------- substrings ---------- *)

Lemma substring_refl l : substring l l.
Proof. exists [], []. now rewrite app_nil_r. Qed.

Lemma substring_trans a b c : substring a b -> substring b c -> substring a c.
Proof.
  intros (p1 & q1 & ->) (p2 & q2 & ->). exists (p2 ++ p1), (q1 ++ q2).
  now rewrite <- !app_assoc.
Qed.

Lemma substring_app_l w a b : substring w a -> substring w (a ++ b).
Proof. intros (p & q & ->). exists p, (q ++ b). now rewrite <- !app_assoc. Qed.

Lemma substring_app_r w a b : substring w b -> substring w (a ++ b).
Proof. intros (p & q & ->). exists (a ++ p), q. now rewrite <- !app_assoc. Qed.

Lemma substring_cons w x l : substring w l -> substring w (x :: l).
Proof. intros H. now apply (substring_app_r w [x] l). Qed.

Lemma substring_nil_inv w : substring w [] -> w = [].
Proof.
  intros (p & q & H). symmetry in H. apply app_eq_nil in H as [_ H].
  now apply app_eq_nil in H as [H _].
Qed.

(* a string that does not contain the byte [c] cannot straddle it *)
Lemma prefix_notin (w a : bytes) (c : N) (b post : bytes) :
  ~ In c w -> a ++ c :: b = w ++ post -> exists post', a = w ++ post'.
Proof.
  revert a. induction w as [|x w IH]; intros a Hc H; [now exists a|].
  destruct a as [|y a]; cbn [app] in H.
  - injection H as -> _. exfalso. apply Hc. now left.
  - injection H as -> H. apply IH in H as [post' ->]; [now exists post'|].
    intros Hin. apply Hc. now right.
Qed.

Lemma substring_app_sep (w a : bytes) (c : N) (b : bytes) :
  w <> [] -> ~ In c w -> substring w (a ++ c :: b) -> substring w a \/ substring w b.
Proof.
  intros Hne Hc. induction a as [|x a IH]; intros (pre & post & H).
  - cbn [app] in H. destruct pre as [|y pre]; cbn [app] in H.
    + destruct w as [|z w]; [contradiction|]. cbn [app] in H. injection H as <- _.
      exfalso. apply Hc. now left.
    + injection H as _ H. right. now exists pre, post.
  - destruct pre as [|y pre]; cbn [app] in H.
    + change (x :: a ++ c :: b) with ((x :: a) ++ c :: b) in H.
      apply (prefix_notin w (x :: a) c b post Hc) in H as [post' ->].
      left. now exists [], post'.
    + injection H as _ H.
      destruct (IH (ex_intro _ pre (ex_intro _ post H))) as [Ha|Hb].
      * left. now apply substring_cons.
      * now right.
Qed.

Lemma substring_join_nosep c xs w :
  w <> [] -> ~ In c w -> substring w (join [c] xs) -> exists x, In x xs /\ substring w x.
Proof.
  intros Hne Hc. induction xs as [|x xs IH]; intros H.
  - cbn [join] in H. apply substring_nil_inv in H. contradiction.
  - destruct xs as [|y xs'].
    + cbn [join] in H. exists x. split; [now left|exact H].
    + change (join [c] (x :: y :: xs')) with (x ++ c :: join [c] (y :: xs')) in H.
      apply substring_app_sep in H as [H|H]; try assumption.
      * exists x. split; [now left|exact H].
      * destruct (IH H) as (z & Hz & Hs). exists z. split; [now right|exact Hs].
Qed.

(* a blank-free string inside blanks ++ t is inside t *)
Lemma substring_spaces w k t :
  w <> [] -> ~ In sp w -> substring w (spaces k ++ t) -> substring w t.
Proof.
  intros Hne Hs. induction k as [|k IH]; intros H; [exact H|].
  change (spaces (S k) ++ t) with ([] ++ sp :: (spaces k ++ t)) in H.
  apply substring_app_sep in H as [H|H]; try assumption.
  - apply substring_nil_inv in H. contradiction.
  - now apply IH.
Qed.

(* ---------- the boolean hypotheses ---------- *)

Lemma nostar_notin w : nostar w = true -> ~ In star w.
Proof.
  unfold nostar. rewrite forallb_forall. intros H Hin. apply H in Hin.
  now rewrite N.eqb_refl in Hin.
Qed.

Lemma noblank_nospace w : noblank w = true -> nospace w.
Proof.
  unfold noblank, nospace. rewrite forallb_forall. intros H Hin. apply H in Hin.
  now rewrite N.eqb_refl in Hin.
Qed.

Lemma nospace_noblank w : nospace w -> noblank w = true.
Proof.
  unfold noblank, nospace. intros H. apply forallb_forall. intros x Hx.
  destruct (N.eqb_spec x sp) as [->|]; [contradiction|reflexivity].
Qed.

Lemma nostar_app a b : nostar (a ++ b) = nostar a && nostar b.
Proof. unfold nostar. apply forallb_app. Qed.

Lemma nostar_app_intro a b : nostar a = true -> nostar b = true -> nostar (a ++ b) = true.
Proof. intros Ha Hb. now rewrite nostar_app, Ha, Hb. Qed.

Lemma nostar_substring w l : nostar l = true -> substring w l -> nostar w = true.
Proof.
  intros H (p & q & ->). rewrite !nostar_app in H.
  apply andb_prop in H as [_ H]. now apply andb_prop in H as [H _].
Qed.

Lemma nostar_nth w j : nostar w = true -> (j < length w)%nat -> nth j w 0 <> star.
Proof.
  intros H Hj E. apply (nostar_notin w H). rewrite <- E. now apply nth_In.
Qed.

(* ---------- library functions: results are substrings of the argument ---------- *)

Lemma trunc_runes_substring p s : substring (trunc_runes p s) s.
Proof.
  exists [], (concat (map snd (skipn p (chunks s)))). cbn [app]. unfold trunc_runes.
  rewrite <- concat_app, <- map_app, firstn_skipn. symmetry. apply chunks_concat.
Qed.

Lemma drop_space_suffix cs : exists p, cs = p ++ drop_space cs.
Proof.
  induction cs as [|[r bs] cs IH]; [now exists []|]. cbn [drop_space].
  destruct (is_space r).
  - destruct IH as [p Hp]. exists ((r, bs) :: p). cbn [app]. now rewrite <- Hp.
  - now exists [].
Qed.

Lemma trim_substring s : substring (trim s) s.
Proof.
  unfold trim. destruct (drop_space_suffix (chunks s)) as [p Hp].
  set (m := drop_space (chunks s)) in *.
  destruct (drop_space_suffix (rev m)) as [q Hq].
  set (core := drop_space (rev m)) in *.
  assert (Hm : m = rev core ++ rev q).
  { rewrite <- (rev_involutive m), Hq. apply rev_app_distr. }
  exists (concat (map snd p)), (concat (map snd (rev q))).
  rewrite <- !concat_app, <- !map_app, <- Hm, <- Hp. symmetry. apply chunks_concat.
Qed.

Lemma skipn_substring {A} n (l : list A) : exists p, l = p ++ skipn n l.
Proof. exists (firstn n l). symmetry. apply firstn_skipn. Qed.

Lemma fmt_trim_substring wd p s w :
  w <> [] -> ~ In sp w -> substring w (trim (fmt_s wd p s)) -> substring w s.
Proof.
  intros Hne Hs H.
  assert (H1 : substring w (fmt_s wd p s)) by (eapply substring_trans; [exact H|apply trim_substring]).
  unfold fmt_s in H1. apply substring_spaces in H1; try assumption.
  eapply substring_trans; [exact H1|apply trunc_runes_substring].
Qed.

(* every word returned by strings.Fields is a substring of the argument *)
Lemma fields_aux_substring cs cur x :
  In x (fields_aux cs cur) -> substring x (cur ++ concat (map snd cs)).
Proof.
  revert cur. induction cs as [|[r bs] cs IH]; intros cur H; cbn [fields_aux] in H.
  - cbn [map concat]. rewrite app_nil_r. destruct cur as [|c cur']; [contradiction|].
    destruct H as [<-|[]]. apply substring_refl.
  - cbn [map concat snd]. destruct (is_space_rune r).
    + destruct cur as [|c cur'].
      * apply IH in H. cbn [app] in *. now apply substring_app_r.
      * destruct H as [<-|H]; [apply substring_app_l, substring_refl|].
        apply IH in H. cbn [app] in H. now apply substring_app_r, substring_app_r.
    + apply IH in H. now rewrite <- app_assoc in H.
Qed.

Lemma fields_substring s x : In x (fields s) -> substring x s.
Proof.
  intros H. apply fields_aux_substring in H. cbn [app] in H. now rewrite chunks_concat in H.
Qed.

Lemma surname_first_In xs x : In x (surname_first xs) -> In x xs.
Proof.
  unfold surname_first. destruct (1 <? length xs)%nat; [|easy].
  intros H. rewrite <- (firstn_skipn (length xs - 1) xs).
  apply in_app_or in H as [H|H]; apply in_or_app; [now right|now left].
Qed.

(* ---------- split: the parsed parts contain no asterisk ---------- *)

Lemma split_star_nostar s : Forall (fun p => nostar p = true) (split_star s).
Proof.
  induction s as [|b t IH]; cbn [split_star]; [repeat constructor|].
  destruct (b =? star) eqn:E.
  - constructor; [reflexivity|exact IH].
  - destruct (split_star t) as [|x r]; [repeat constructor; cbn; now rewrite E|].
    inversion IH as [|? ? Hx Hr]; subst. constructor; [|exact Hr].
    cbn [nostar forallb]. rewrite E. exact Hx.
Qed.

Lemma parse_enr_nostar pri i : parse_enr pri = Some i ->
  nostar (e_rdfi i) = true /\ nostar (e_check i) = true /\ nostar (e_acct i) = true /\
  nostar (e_ident i) = true /\ nostar (e_name i) = true /\ nostar (e_code i) = true.
Proof.
  unfold parse_enr. pose proof (split_star_nostar (trim_bslash pri)) as F.
  destruct (split_star (trim_bslash pri)) as [|p0 [|p1 [|p2 [|p3 [|p4 [|p5 [|p6 [|p7 [|? ?]]]]]]]]]; try discriminate.
  destruct (atoi_opt p0) as [tx|]; [|discriminate]. intros H. injection H as <-.
  repeat match goal with H : Forall _ (_ :: _) |- _ => inversion H; clear H; subst end.
  cbn [e_rdfi e_check e_acct e_ident e_name e_code]. repeat split; try assumption.
  destruct (is_business p7); repeat apply nostar_app_intro; try assumption; reflexivity.
Qed.

Lemma parse_dne_nostar pri i : parse_dne pri = Some i ->
  nostar (d_ssn i) = true /\ nostar (d_amount i) = true.
Proof.
  unfold parse_dne. pose proof (split_star_nostar (trim_bslash pri)) as F.
  destruct (split_star (trim_bslash pri)) as [|p0 [|p1 [|p2 [|p3 [|p4 [|p5 [|? ?]]]]]]]; try discriminate.
  destruct (dne_date p1) as [d|]; [|discriminate]. intros H. injection H as <-.
  repeat match goal with H : Forall _ (_ :: _) |- _ => inversion H; clear H; subst end.
  cbn [d_ssn d_amount]. now split.
Qed.

(* ---------- the reassembly of the name ---------- *)

(* String() shows no blank-free, asterisk-free string that is not already in
   the IndividualName it is given - for both branches, all byte strings *)
Theorem enr_name_out_substring name code w :
  w <> [] -> nospace w -> nostar w = true ->
  substring w (enr_name_out name code) -> substring w name.
Proof.
  intros Hne Hs Hst H. apply nostar_notin in Hst. unfold enr_name_out in H.
  destruct (is_business code).
  - cbv zeta in H. destruct (15 <? rune_count name)%nat.
    + rewrite <- app_assoc in H. cbn [app] in H.
      apply substring_app_sep in H as [H|H]; try assumption.
      * now apply fmt_trim_substring in H.
      * apply fmt_trim_substring in H; try assumption.
        destruct (skipn_substring 15 name) as [p Hp]. rewrite Hp. now apply substring_app_r.
    + apply substring_app_sep in H as [H|H]; try assumption.
      * now apply fmt_trim_substring in H.
      * apply substring_nil_inv in H. contradiction.
  - apply substring_join_nosep in H as (x & Hx & Hw); try assumption.
    apply surname_first_In, fields_substring in Hx.
    eapply substring_trans; eassumption.
Qed.

Lemma length3_ne (w : bytes) : (3 <= length w)%nat -> w <> [].
Proof. intros H ->. cbn in H. lia. Qed.

(* with the name masked before String(), nothing of three or more bytes survives *)
Theorem enr_name_out_hides name code w :
  nospace w -> nostar w = true -> (3 <= length w)%nat ->
  ~ substring w (enr_name_out (maskName name) code).
Proof.
  intros Hs Hst Hl H. apply enr_name_out_substring in H; try assumption; [|now apply length3_ne].
  revert H. apply (maskName_hides name w 2 Hs); [lia|]. apply nostar_nth; [assumption|lia].
Qed.

(* ---------- the whole printed string ---------- *)

Lemma enr_string_fields i w :
  w <> [] -> nostar w = true -> substring w (enr_string i) ->
  exists f, In f (enr_printed i) /\ substring w f.
Proof. intros Hne Hst. apply substring_join_nosep; [assumption|now apply nostar_notin]. Qed.

Lemma dne_string_fields i w :
  w <> [] -> nostar w = true -> substring w (dne_string i) ->
  exists f, In f (dne_printed i) /\ substring w f.
Proof. intros Hne Hst. apply substring_join_nosep; [assumption|now apply nostar_notin]. Qed.

(* the fields String() prints next to the name / next to the two numbers *)
Definition enr_beside_name (i : enr_info) : list bytes :=
  [itoa (e_tx i); e_rdfi i; e_check i; e_acct i; e_ident i; e_code i ++ [bslash]].
Definition enr_beside_numbers (i : enr_info) : list bytes :=
  [itoa (e_tx i); e_rdfi i; e_check i; enr_name_out (e_name i) (e_code i); e_code i ++ [bslash]].
Definition enr_unprotected (i : enr_info) : list bytes :=
  [itoa (e_tx i); e_rdfi i; e_check i; e_code i ++ [bslash]].
Definition dne_beside_ssn (i : dne_info) : list bytes :=
  [lit_date_of_death; d_date i; lit_customer_ssn; lit_amount; d_amount i ++ [bslash]].

Lemma count_sig_le_length l : (count_sig l <= length l)%nat.
Proof.
  induction l as [|x l IH]; [cbn; lia|]. rewrite count_sig_cons. cbn [length].
  destruct (sig x); lia.
Qed.

Lemma count_sig_ne v : (5 <= count_sig v)%nat -> v <> [].
Proof. intros H ->. cbn in H. lia. Qed.

Theorem enr_name_hidden pri i accts w :
  parse_enr pri = Some i ->
  nospace w -> nostar w = true -> (3 <= length w)%nat ->
  substring w (describe_enr true accts pri) ->
  exists f, In f (enr_beside_name (mask_enr true accts i)) /\ substring w f.
Proof.
  intros Hp Hs Hst Hl H. unfold describe_enr in H. rewrite Hp in H.
  apply enr_string_fields in H as (f & Hf & Hw); [|now apply length3_ne|assumption].
  unfold enr_printed in Hf. cbn [In] in Hf.
  destruct Hf as [<-|[<-|[<-|[<-|[<-|[<-|[<-|[]]]]]]]].
  all: try (eexists; split; [|exact Hw]; cbn [enr_beside_name In]; tauto).
  exfalso. cbn [mask_enr e_name e_code] in Hw. now apply enr_name_out_hides in Hw.
Qed.

(* every blank-free substring of the parsed name of three or more bytes - in
   particular every word of the name and of its two components - is covered:
   the asterisk-freeness is a consequence of the parse *)
Corollary enr_name_words_hidden pri i accts w :
  parse_enr pri = Some i ->
  substring w (e_name i) -> nospace w -> (3 <= length w)%nat ->
  substring w (describe_enr true accts pri) ->
  exists f, In f (enr_beside_name (mask_enr true accts i)) /\ substring w f.
Proof.
  intros Hp Hsub Hs Hl. apply (enr_name_hidden pri i accts w Hp Hs); [|assumption].
  apply parse_enr_nostar in Hp as (_ & _ & _ & _ & Hn & _).
  now apply (nostar_substring w (e_name i)).
Qed.

Theorem enr_numbers_hidden pri i names v :
  parse_enr pri = Some i ->
  nostar v = true -> (5 <= count_sig v)%nat ->
  substring v (describe_enr names true pri) ->
  exists f, In f (enr_beside_numbers (mask_enr names true i)) /\ substring v f.
Proof.
  intros Hp Hst Hc H. unfold describe_enr in H. rewrite Hp in H.
  apply enr_string_fields in H as (f & Hf & Hw); [|now apply count_sig_ne|assumption].
  unfold enr_printed in Hf. cbn [In] in Hf.
  destruct Hf as [<-|[<-|[<-|[<-|[<-|[<-|[<-|[]]]]]]]].
  all: try (eexists; split; [|exact Hw]; cbn [enr_beside_numbers In]; tauto).
  all: exfalso; cbn [mask_enr e_acct e_ident] in Hw; revert Hw; now apply maskNumber_hides_long.
Qed.

(* the values actually protected: the account number and the identification
   (or any part of them with five significant bytes) *)
Corollary enr_account_hidden pri i names v :
  parse_enr pri = Some i ->
  substring v (e_acct i) \/ substring v (e_ident i) -> (5 <= count_sig v)%nat ->
  substring v (describe_enr names true pri) ->
  exists f, In f (enr_beside_numbers (mask_enr names true i)) /\ substring v f.
Proof.
  intros Hp Hsub Hc. apply (enr_numbers_hidden pri i names v Hp); [|assumption].
  apply parse_enr_nostar in Hp as (_ & _ & Ha & Hi & _ & _).
  destruct Hsub as [Hsub|Hsub];
    [apply (nostar_substring v (e_acct i))|apply (nostar_substring v (e_ident i))]; assumption.
Qed.

(* both flags on (achcli -mask): a blank-free, asterisk-free string with five
   significant bytes can only come from the unprotected fields *)
Theorem enr_all_hidden pri i w :
  parse_enr pri = Some i ->
  nospace w -> nostar w = true -> (5 <= count_sig w)%nat ->
  substring w (describe_enr true true pri) ->
  exists f, In f (enr_unprotected i) /\ substring w f.
Proof.
  intros Hp Hs Hst Hc H.
  assert (Hl : (3 <= length w)%nat).
  { pose proof (count_sig_le_length w). lia. }
  destruct (enr_name_hidden pri i true w Hp Hs Hst Hl H) as (f & Hf & Hw).
  cbn [enr_beside_name In mask_enr e_tx e_rdfi e_check e_acct e_ident e_code] in Hf.
  destruct Hf as [<-|[<-|[<-|[<-|[<-|[<-|[]]]]]]].
  all: try (eexists; split; [|exact Hw]; cbn [enr_unprotected In]; tauto).
  all: exfalso; revert Hw; now apply maskNumber_hides_long.
Qed.

Theorem dne_ssn_hidden pri i names accts v :
  parse_dne pri = Some i -> names || accts = true ->
  nostar v = true -> (5 <= count_sig v)%nat ->
  substring v (describe_dne names accts pri) ->
  exists f, In f (dne_beside_ssn i) /\ substring v f.
Proof.
  intros Hp Hfl Hst Hc H. unfold describe_dne in H. rewrite Hp in H.
  apply dne_string_fields in H as (f & Hf & Hw); [|now apply count_sig_ne|assumption].
  unfold dne_printed in Hf. cbn [In] in Hf.
  destruct Hf as [<-|[<-|[<-|[<-|[<-|[<-|[]]]]]]].
  all: try (eexists; split; [|exact Hw]; cbn [dne_beside_ssn In mask_dne d_date d_amount]; tauto).
  exfalso. cbn [mask_dne d_ssn] in Hw. rewrite Hfl in Hw. revert Hw. now apply maskNumber_hides_long.
Qed.

Corollary dne_customer_ssn_hidden pri i names accts v :
  parse_dne pri = Some i -> names || accts = true ->
  substring v (d_ssn i) -> (5 <= count_sig v)%nat ->
  substring v (describe_dne names accts pri) ->
  exists f, In f (dne_beside_ssn i) /\ substring v f.
Proof.
  intros Hp Hfl Hsub Hc. apply (dne_ssn_hidden pri i names accts v Hp Hfl); [|assumption].
  apply parse_dne_nostar in Hp as [Hs _]. now apply (nostar_substring v (d_ssn i)).
Qed.

(* the scope boundary: a value that does not parse is printed as the raw field,
   whatever the flags *)
Lemma describe_enr_malformed names accts pri :
  enr_wellformed pri = false -> describe_enr names accts pri = alphaField pri 80.
Proof. unfold enr_wellformed, describe_enr. now destruct (parse_enr pri). Qed.

Lemma describe_dne_malformed names accts pri :
  dne_wellformed pri = false -> describe_dne names accts pri = alphaField pri 80.
Proof. unfold dne_wellformed, describe_dne. now destruct (parse_dne pri). Qed.

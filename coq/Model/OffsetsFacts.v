(* Facts about the build / upsertOffsets / File.Create model. *)
From Coq Require Import Lia ZifyBool ZifyNat.
From ACH Require Import Offsets.
Open Scope Z_scope.

(* ------------------------------------------------------------------ lists *)

Lemma mem_In c l : mem c l = true <-> In c l.
Proof.
  unfold mem. rewrite existsb_exists. split.
  - intros (x & Hx & He). apply Z.eqb_eq in He. now subst.
  - intros H. exists c. split; [assumption|apply Z.eqb_refl].
Qed.

Lemma subset_mem a b c : subset a b = true -> mem c a = true -> mem c b = true.
Proof.
  unfold subset. intros Hs Hc. rewrite forallb_forall in Hs. apply Hs. now apply mem_In.
Qed.

Lemma disjoint_mem a b c : disjoint a b = true -> mem c a = true -> mem c b = false.
Proof.
  unfold disjoint. intros Hs Hc. rewrite forallb_forall in Hs.
  apply mem_In in Hc. apply Hs in Hc. now destruct (mem c b).
Qed.

Lemma firstn_length_app {A} (a b : list A) : firstn (length a) (a ++ b) = a.
Proof. induction a as [|x a IH]; cbn; [now destruct b|now rewrite IH]. Qed.

Lemma skipn_S_length_app {A} (a : list A) x b : skipn (S (length a)) (a ++ x :: b) = b.
Proof. induction a as [|y a IH]; cbn; [reflexivity|exact IH]. Qed.

Lemma nth_error_length_app {A} (a : list A) x b : nth_error (a ++ x :: b) (length a) = Some x.
Proof. induction a as [|y a IH]; cbn; [reflexivity|exact IH]. Qed.

Lemma sumf_app f a b : sumf f (a ++ b) = sumf f a + sumf f b.
Proof. induction a as [|x a IH]; cbn [sumf app]; [lia|rewrite IH; lia]. Qed.

Lemma filter_idem {A} (f : A -> bool) l : filter f (filter f l) = filter f l.
Proof.
  induction l as [|x l IH]; cbn; [reflexivity|].
  destruct (f x) eqn:E; cbn; [rewrite E, IH; reflexivity|exact IH].
Qed.

Lemma filter_all_false {A} (f : A -> bool) l : forallb (fun x => negb (f x)) l = true -> filter f l = [].
Proof.
  induction l as [|x l IH]; cbn; [reflexivity|]. intros H. apply andb_prop in H as [H1 H2].
  destruct (f x); [discriminate|now apply IH].
Qed.

Lemma filter_all_true {A} (f : A -> bool) l : forallb f l = true -> filter f l = l.
Proof.
  induction l as [|x l IH]; cbn; [reflexivity|]. intros H. apply andb_prop in H as [H1 H2].
  rewrite H1, IH; auto.
Qed.

Lemma forallb_filter {A} (f g : A -> bool) l : forallb g l = true -> forallb g (filter f l) = true.
Proof.
  induction l as [|x l IH]; cbn; [reflexivity|]. intros H. apply andb_prop in H as [H1 H2].
  destruct (f x); cbn; [rewrite H1|]; auto.
Qed.

Lemma forallb_filter_self {A} (f : A -> bool) l : forallb f (filter f l) = true.
Proof. induction l as [|x l IH]; cbn; [reflexivity|]. destruct (f x) eqn:E; cbn; [rewrite E|]; auto. Qed.

(* ------------------------------------------------------------------ the table *)

Record table_good (T : otable) : Prop := {
  tg_tail : t_tail T = TailSucc;
  tg_redo : t_redo T = true;
  tg_sub : subset (t_rm_credit T) (t_credit T) = true;
  tg_dis : disjoint (t_credit T) (t_debit T) = true;
  tg_chk : kind_ok T Checking = true;
  tg_sav : kind_ok T Savings = true }.

Lemma table_ok_good T : table_ok T = true -> table_good T.
Proof.
  unfold table_ok. intros H.
  repeat (apply andb_prop in H as [H ?]).
  constructor; try assumption.
  destruct (t_tail T); try discriminate; reflexivity.
Qed.

Lemma kind_codes T k : table_good T -> k <> BadKind ->
  mem (cre_code T k) (t_rm_credit T) = true /\ mem (cre_code T k) (t_credit T) = true /\
  mem (deb_code T k) (t_credit T) = false /\ mem (deb_code T k) (t_debit T) = true.
Proof.
  intros G Hk.
  assert (Hok : kind_ok T k = true) by (destruct k; [apply G|apply G|congruence]).
  unfold kind_ok in Hok. apply andb_prop in Hok as [Hok H3]. apply andb_prop in Hok as [H1 H2].
  repeat split; auto.
  - eapply subset_mem; [apply G|exact H1].
  - now destruct (mem (deb_code T k) (t_credit T)).
Qed.

(* ------------------------------------------------------------------ the removal loop *)

Fixpoint sub_offs (T : otable) (es : list entry) (c : control) : control :=
  match es with
  | [] => c
  | e :: r => sub_offs T r (if e_off e then sub_one T e c else c)
  end.

(* with [Entries[i+1:]] and [i--] the loop terminates within len+1 iterations, never
   slices out of range, and leaves exactly the entries not named OFFSET, in order *)
Lemma loop_spec T : t_tail T = TailSucc -> t_redo T = true ->
  forall fuel pre suf c, (length suf < fuel)%nat ->
  remove_loop T fuel (length pre) (pre ++ suf) c = LDone (pre ++ filter nonoff suf) (sub_offs T suf c).
Proof.
  intros Ht Hr. induction fuel as [|fuel IH]; intros pre suf c Hf; [lia|].
  cbn [remove_loop]. destruct suf as [|e suf].
  - rewrite app_nil_r, Nat.ltb_irrefl. cbn. now rewrite app_nil_r.
  - assert (Hlt : (length pre <? length (pre ++ e :: suf))%nat = true).
    { apply Nat.ltb_lt. rewrite app_length. cbn. lia. }
    rewrite Hlt, nth_error_length_app. cbn [length] in Hf.
    destruct (e_off e) eqn:Eo.
    + rewrite Ht. cbn [tail_start].
      assert (Hle : (S (length pre) <=? length (pre ++ e :: suf))%nat = true).
      { apply Nat.leb_le. rewrite app_length. cbn. lia. }
      rewrite Hle, Hr, firstn_length_app, skipn_S_length_app.
      rewrite IH by lia. cbn [filter sub_offs]. unfold nonoff at 2. rewrite Eo. reflexivity.
    + replace (S (length pre)) with (length (pre ++ [e])) by (rewrite app_length; cbn; lia).
      replace (pre ++ e :: suf) with ((pre ++ [e]) ++ suf) by (rewrite <- app_assoc; reflexivity).
      rewrite IH by lia. cbn [filter sub_offs]. unfold nonoff at 2. rewrite Eo. cbn [negb].
      rewrite <- app_assoc. reflexivity.
Qed.

Lemma loop_total T es c : t_tail T = TailSucc -> t_redo T = true ->
  remove_loop T (loop_fuel es) 0 es c = LDone (filter nonoff es) (sub_offs T es c).
Proof.
  intros Ht Hr. apply (loop_spec T Ht Hr (loop_fuel es) [] es c). unfold loop_fuel. lia.
Qed.

Definition off_cr (T : otable) (e : entry) : Z :=
  if e_off e then (if mem (e_code e) (t_rm_credit T) then e_amount e else 0) else 0.
Definition off_db (T : otable) (e : entry) : Z :=
  if e_off e then (if mem (e_code e) (t_rm_credit T) then 0 else e_amount e) else 0.
Definition off_n (e : entry) : Z := if e_off e then 1 else 0.

Lemma sub_offs_fields T es : forall c,
  c_credit (sub_offs T es c) = c_credit c - sumf (off_cr T) es /\
  c_debit (sub_offs T es c) = c_debit c - sumf (off_db T) es /\
  c_count (sub_offs T es c) = c_count c - sumf off_n es /\
  c_svc (sub_offs T es c) = c_svc c /\ c_num (sub_offs T es c) = c_num c.
Proof.
  induction es as [|e es IH]; intros c; cbn [sub_offs sumf].
  - repeat split; lia.
  - destruct (IH (if e_off e then sub_one T e c else c)) as (H1 & H2 & H3 & H4 & H5).
    rewrite H1, H2, H3, H4, H5. unfold off_cr, off_db, off_n, sub_one.
    destruct (e_off e); [destruct (mem (e_code e) (t_rm_credit T))|]; cbn [c_credit c_debit c_count c_svc c_num];
      repeat split; lia.
Qed.

(* ------------------------------------------------------------------ well-formed OFFSET entries *)

Lemma wf_entries_app T a b : wf_entries T (a ++ b) = wf_entries T a && wf_entries T b.
Proof. unfold wf_entries. apply forallb_app. Qed.

Lemma wf_split T e : table_good T -> wf_entryb T e = true ->
  cr_amt T e = (if nonoff e then cr_amt T e else 0) + off_cr T e /\
  db_amt T e = (if nonoff e then db_amt T e else 0) + off_db T e /\
  1 + e_addenda e = (if nonoff e then 1 + e_addenda e else 0) + off_n e.
Proof.
  intros G H. unfold wf_entryb in H. unfold nonoff, off_cr, off_db, off_n.
  destruct (e_off e); cbn [negb] in *; [|repeat split; lia].
  cbn [orb] in H. apply andb_prop in H as [Ha H]. apply Z.eqb_eq in Ha.
  unfold cr_amt, db_amt.
  destruct (mem (e_code e) (t_rm_credit T)) eqn:Erm.
  - rewrite (subset_mem _ _ _ (tg_sub T G) Erm). repeat split; lia.
  - cbn [orb] in H. apply andb_prop in H as [Hc Hd].
    destruct (mem (e_code e) (t_credit T)); [discriminate|]. rewrite Hd. repeat split; lia.
Qed.

Lemma sums_split T es : table_good T -> wf_entries T es = true ->
  credits T es = credits T (filter nonoff es) + sumf (off_cr T) es /\
  debits T es = debits T (filter nonoff es) + sumf (off_db T) es /\
  count es = count (filter nonoff es) + sumf off_n es.
Proof.
  intros G. unfold credits, debits, count. induction es as [|e es IH]; intros H; cbn [filter sumf].
  - repeat split; lia.
  - cbn [wf_entries forallb] in H. apply andb_prop in H as [He H].
    destruct (IH H) as (I1 & I2 & I3). destruct (wf_split T e G He) as (S1 & S2 & S3).
    destruct (nonoff e); cbn [sumf]; repeat split; lia.
Qed.

(* ------------------------------------------------------------------ trace assignment *)

Definition odfi_ok (odfi : Z) : Prop := 0 <= odfi < 100000000.

Definition has_prefix (odfi : Z) (e : entry) : bool := trace_odfi (e_trace e) =? odfi.

Lemma trace_prefix odfi s : odfi_ok odfi -> trace_odfi (odfi * P7 + s mod P7) = odfi.
Proof.
  intros Ho. unfold odfi_ok in Ho. unfold trace_odfi.
  assert (Hm : 0 <= s mod P7 < P7) by (apply Z.mod_pos_bound; unfold P7; lia).
  assert (Hlt : odfi * P7 + s mod P7 <? P15 = true).
  { apply Z.ltb_lt. unfold P7, P15 in *. lia. }
  rewrite Hlt, Z.div_add_l by (unfold P7; lia). rewrite Z.div_small by assumption. lia.
Qed.

Lemma retrace_length odfi es : forall s, length (retrace odfi s es) = length es.
Proof. induction es as [|e es IH]; intros s; cbn; [reflexivity|now rewrite IH]. Qed.

Lemma retrace_app odfi a b : forall s,
  retrace odfi s (a ++ b) = retrace odfi s a ++ retrace odfi (s + Z.of_nat (length a)) b.
Proof.
  induction a as [|e a IH]; intros s; cbn [retrace app length].
  - f_equal. lia.
  - rewrite IH. do 3 f_equal. lia.
Qed.

Lemma retrace_prefix odfi es : odfi_ok odfi -> forall s, forallb (has_prefix odfi) (retrace odfi s es) = true.
Proof.
  intros Ho. induction es as [|e es IH]; intros s; cbn [retrace forallb]; [reflexivity|].
  rewrite IH, andb_true_r. unfold has_prefix.
  destruct (trace_odfi (e_trace e) =? odfi) eqn:E; [exact E|].
  cbn [set_trace e_trace]. rewrite trace_prefix by assumption. apply Z.eqb_refl.
Qed.

Lemma retrace_fix odfi es : forallb (has_prefix odfi) es = true -> forall s, retrace odfi s es = es.
Proof.
  induction es as [|e es IH]; intros H s; cbn [retrace]; [reflexivity|].
  cbn [forallb] in H. apply andb_prop in H as [He H]. unfold has_prefix in He. rewrite He, IH; auto.
Qed.

(* retrace touches only the trace number *)
Lemma retrace_map_fields odfi es : forall s,
  map (fun e => (e_code e, e_amount e, e_off e, e_addenda e, e_rdfi e)) (retrace odfi s es)
  = map (fun e => (e_code e, e_amount e, e_off e, e_addenda e, e_rdfi e)) es.
Proof.
  induction es as [|e es IH]; intros s; cbn [retrace map]; [reflexivity|].
  rewrite IH. f_equal. destruct (trace_odfi (e_trace e) =? odfi); reflexivity.
Qed.

Lemma retrace_wf T odfi es : forall s, wf_entries T (retrace odfi s es) = wf_entries T es.
Proof.
  induction es as [|e es IH]; intros s; cbn [retrace wf_entries forallb]; [reflexivity|].
  unfold wf_entries in IH. rewrite IH. f_equal.
  destruct (trace_odfi (e_trace e) =? odfi); reflexivity.
Qed.

Lemma retrace_off_all odfi es : forallb e_off es = true -> forall s, forallb e_off (retrace odfi s es) = true.
Proof.
  induction es as [|e es IH]; intros H s; cbn [retrace forallb]; [reflexivity|].
  cbn [forallb] in H. apply andb_prop in H as [He H]. rewrite IH by assumption.
  destruct (trace_odfi (e_trace e) =? odfi); cbn [set_trace e_off]; now rewrite He.
Qed.

(* pre-set traces (first eight digits = the header's ODFI) are kept *)
Lemma retrace_keeps odfi es : forall s i e, nth_error es i = Some e -> has_prefix odfi e = true ->
  nth_error (retrace odfi s es) i = Some e.
Proof.
  induction es as [|x es IH]; intros s i e Hn Hp; destruct i; cbn in Hn; try discriminate.
  - injection Hn as ->. cbn [retrace nth_error]. unfold has_prefix in Hp. now rewrite Hp.
  - cbn [retrace nth_error]. now apply IH.
Qed.

(* absent traces get ODFI*10^7 + position *)
Lemma retrace_assigns odfi es : forall s i e, nth_error es i = Some e -> has_prefix odfi e = false ->
  nth_error (retrace odfi s es) i = Some (set_trace e (odfi * P7 + (s + Z.of_nat i) mod P7)).
Proof.
  induction es as [|x es IH]; intros s i e Hn Hp; destruct i; cbn [nth_error] in Hn; try discriminate.
  - injection Hn as ->. cbn [retrace nth_error]. unfold has_prefix in Hp. rewrite Hp.
    replace (s + Z.of_nat 0) with s by lia. reflexivity.
  - cbn [retrace nth_error]. rewrite (IH (s + 1) i e Hn Hp).
    replace (s + 1 + Z.of_nat i) with (s + Z.of_nat (S i)) by lia. reflexivity.
Qed.

(* ------------------------------------------------------------------ build: specification *)

Definition body (b : batch) : list entry := filter nonoff (retrace (b_odfi b) 1 (b_entries b)).

Definition ctl_of (T : otable) (b : batch) (es : list entry) : control :=
  mkctl (b_svc b) (b_num b) (count es) (hash es) (credits T es) (debits T es).

(* the batch a build with a valid offset configuration produces *)
Definition offset_result (T : otable) (o : offcfg) (b : batch) : batch :=
  add_offsets T o b (body b) (ctl_of T b (body b)).

Lemma add_offsets_ext T o b1 b2 es c1 c2 :
  b_hdr_ok b1 = b_hdr_ok b2 -> b_odfi b1 = b_odfi b2 -> b_num b1 = b_num b2 -> b_off b1 = b_off b2 ->
  c_num c1 = c_num c2 -> c_count c1 = c_count c2 -> c_credit c1 = c_credit c2 -> c_debit c1 = c_debit c2 ->
  add_offsets T o b1 es c1 = add_offsets T o b2 es c2.
Proof.
  intros H1 H2 H3 H4 H5 H6 H7 H8. unfold add_offsets. now rewrite H1, H2, H3, H4, H5, H6, H7, H8.
Qed.

Lemma build_no_offset T b : b_hdr_ok b = true -> b_entries b <> [] -> b_off b = None ->
  build T b = Ret true (with_es_ctl b (retrace (b_odfi b) 1 (b_entries b))
                                    (ctl_of T b (retrace (b_odfi b) 1 (b_entries b)))).
Proof.
  intros Hh He Ho. unfold build. rewrite Hh. cbn [negb].
  destruct (b_entries b) as [|e es] eqn:E; [congruence|].
  unfold upsert. cbn [with_es_ctl b_off]. rewrite Ho. reflexivity.
Qed.

Lemma build_offset T b o : table_good T ->
  b_hdr_ok b = true -> b_entries b <> [] -> b_off b = Some o -> o_routing_ok o = true -> o_kind o <> BadKind ->
  wf_entries T (b_entries b) = true ->
  build T b = Ret true (offset_result T o b).
Proof.
  intros G Hh He Ho Hr Hk Hwf. unfold build. rewrite Hh. cbn [negb].
  destruct (b_entries b) as [|e0 es0] eqn:E; [congruence|]. rewrite <- E in Hwf |- *.
  set (es := retrace (b_odfi b) 1 (b_entries b)).
  unfold upsert. cbn [with_es_ctl b_off b_entries b_ctl]. rewrite Ho, Hr. cbn [negb].
  rewrite loop_total by apply G.
  assert (Hwf' : wf_entries T es = true) by (unfold es; now rewrite retrace_wf).
  destruct (sums_split T es G Hwf') as (S1 & S2 & S3).
  set (c0 := mkctl (b_svc b) (b_num b) (count es) (hash es) (credits T es) (debits T es)).
  destruct (sub_offs_fields T es c0) as (F1 & F2 & F3 & F4 & F5).
  assert (Heq : add_offsets T o (with_es_ctl b es c0)
                           (filter nonoff es) (sub_offs T es c0) = offset_result T o b).
  { unfold offset_result. apply add_offsets_ext; cbn [with_es_ctl b_hdr_ok b_odfi b_num b_off]; auto;
      fold es; unfold body; fold es; unfold ctl_of; cbn [c_num c_count c_credit c_debit].
    - rewrite F3. cbn [c0 c_count]. lia.
    - rewrite F1. cbn [c0 c_credit]. lia.
    - rewrite F2. cbn [c0 c_debit]. lia. }
  destruct (o_kind o); [exact (f_equal (Ret true) Heq)|exact (f_equal (Ret true) Heq)|congruence].
Qed.

(* ------------------------------------------------------------------ properties of the result *)

Definition ctl_ok (T : otable) (b : batch) : Prop :=
  c_count (b_ctl b) = count (b_entries b) /\ c_hash (b_ctl b) = hash (b_entries b) /\
  c_credit (b_ctl b) = credits T (b_entries b) /\ c_debit (b_ctl b) = debits T (b_entries b) /\
  c_svc (b_ctl b) = b_svc b /\ c_num (b_ctl b) = b_num b.

Lemma ctl_okb_spec T b : ctl_okb T b = true <-> ctl_ok T b.
Proof.
  unfold ctl_okb, ctl_ok. rewrite !andb_true_iff, !Z.eqb_eq. tauto.
Qed.

Definition balanced (T : otable) (b : batch) : Prop := credits T (b_entries b) = debits T (b_entries b).

(* the OFFSET entries of a batch that carry a credit / a debit code *)
Definition off_credits (T : otable) (es : list entry) : list entry :=
  filter (fun e => e_off e && mem (e_code e) (t_credit T)) es.
Definition off_debits (T : otable) (es : list entry) : list entry :=
  filter (fun e => e_off e && negb (mem (e_code e) (t_credit T))) es.

(* the offsets appended for credit total C and debit total D *)
Definition new_offsets (T : otable) (o : offcfg) (last C D : Z) : list entry :=
  (if C =? 0 then [] else [mkentry (deb_code T (o_kind o)) C true (last + 1) 0 (o_rdfi o)])
  ++ (if D =? 0 then [] else [mkentry (cre_code T (o_kind o)) D true (last + (if C =? 0 then 1 else 2)) 0 (o_rdfi o)]).

Lemma offset_result_entries T o b :
  b_entries (offset_result T o b)
  = body b ++ new_offsets T o (last_trace (body b)) (credits T (body b)) (debits T (body b)).
Proof.
  unfold offset_result, add_offsets, new_offsets, ctl_of. cbn [b_entries c_credit c_debit].
  destruct (credits T (body b) =? 0); destruct (debits T (body b) =? 0); cbn [app];
    rewrite ?app_nil_r, <- ?app_assoc; reflexivity.
Qed.

Lemma new_offsets_sums T o last C D : table_good T -> o_kind o <> BadKind ->
  credits T (new_offsets T o last C D) = D /\ debits T (new_offsets T o last C D) = C /\
  count (new_offsets T o last C D) = (if C =? 0 then 0 else 1) + (if D =? 0 then 0 else 1) /\
  forallb e_off (new_offsets T o last C D) = true /\
  wf_entries T (new_offsets T o last C D) = true /\
  (length (off_credits T (new_offsets T o last C D)) <= 1)%nat /\
  (length (off_debits T (new_offsets T o last C D)) <= 1)%nat.
Proof.
  intros G Hk. destruct (kind_codes T (o_kind o) G Hk) as (K1 & K2 & K3 & K4).
  unfold new_offsets, credits, debits, count, wf_entries, off_credits, off_debits.
  destruct (C =? 0) eqn:EC; destruct (D =? 0) eqn:ED;
    cbn [app sumf forallb filter length]; unfold cr_amt, db_amt, wf_entryb;
    cbn [e_code e_amount e_off e_addenda negb orb andb];
    rewrite ?K1, ?K2, ?K3, ?K4; cbn [negb orb andb length filter Z.eqb];
    repeat split; try reflexivity; try lia.
Qed.

Lemma body_nonoff b : forallb nonoff (body b) = true.
Proof. apply forallb_filter_self. Qed.

Lemma body_no_off T b : off_credits T (body b) = [] /\ off_debits T (body b) = [].
Proof.
  pose proof (body_nonoff b) as H. unfold off_credits, off_debits.
  split; apply filter_all_false; rewrite forallb_forall in *; intros e He; specialize (H e He);
    unfold nonoff in H; destruct (e_off e); cbn in *; congruence.
Qed.

Lemma filter_app_len {A} (f : A -> bool) a b : length (filter f (a ++ b)) = (length (filter f a) + length (filter f b))%nat.
Proof. now rewrite filter_app, app_length. Qed.

Lemma offset_result_props T o b : table_good T -> o_kind o <> BadKind ->
  ctl_ok T (offset_result T o b) /\ balanced T (offset_result T o b) /\
  (length (off_credits T (b_entries (offset_result T o b))) <= 1)%nat /\
  (length (off_debits T (b_entries (offset_result T o b))) <= 1)%nat /\
  b_svc (offset_result T o b) = mixed /\ b_num (offset_result T o b) = b_num b.
Proof.
  intros G Hk.
  pose proof (offset_result_entries T o b) as He.
  set (C := credits T (body b)) in *. set (D := debits T (body b)) in *.
  destruct (new_offsets_sums T o (last_trace (body b)) C D G Hk) as (N1 & N2 & N3 & _ & _ & N6 & N7).
  destruct (body_no_off T b) as (B1 & B2).
  assert (Hcr : credits T (b_entries (offset_result T o b)) = C + D).
  { rewrite He. unfold credits. rewrite sumf_app. fold (credits T (body b)).
    fold (credits T (new_offsets T o (last_trace (body b)) C D)). rewrite N1. reflexivity. }
  assert (Hdb : debits T (b_entries (offset_result T o b)) = D + C).
  { rewrite He. unfold debits. rewrite sumf_app. fold (debits T (body b)).
    fold (debits T (new_offsets T o (last_trace (body b)) C D)). rewrite N2. reflexivity. }
  assert (Hcn : count (b_entries (offset_result T o b)) = count (body b) + ((if C =? 0 then 0 else 1) + (if D =? 0 then 0 else 1))).
  { rewrite He. unfold count. rewrite sumf_app. fold (count (new_offsets T o (last_trace (body b)) C D)).
    rewrite N3. reflexivity. }
  split; [|split; [|split; [|split; [|split]]]].
  - unfold ctl_ok. rewrite Hcn, Hcr, Hdb.
    unfold offset_result, add_offsets, ctl_of. cbn [b_ctl b_entries b_svc b_num c_count c_hash c_credit c_debit c_svc c_num].
    fold C D. destruct (C =? 0) eqn:EC; destruct (D =? 0) eqn:ED; repeat split; lia.
  - unfold balanced. rewrite Hcr, Hdb. lia.
  - rewrite He. unfold off_credits. rewrite filter_app_len. fold (off_credits T (body b)). rewrite B1.
    cbn [length]. exact N6.
  - rewrite He. unfold off_debits. rewrite filter_app_len. fold (off_debits T (body b)). rewrite B2.
    cbn [length]. exact N7.
  - reflexivity.
  - reflexivity.
Qed.

(* ------------------------------------------------------------------ idempotence *)

Lemma body_prefix b : odfi_ok (b_odfi b) -> forallb (has_prefix (b_odfi b)) (body b) = true.
Proof. intros Ho. unfold body. apply forallb_filter. now apply retrace_prefix. Qed.

(* rebuilding a batch whose entries are [body ++ OFFSET entries] finds the same body *)
Lemma body_of_result b b' offs :
  odfi_ok (b_odfi b) -> b_odfi b' = b_odfi b -> b_entries b' = body b ++ offs -> forallb e_off offs = true ->
  body b' = body b.
Proof.
  intros Ho Hod He Hoff. unfold body at 1. rewrite He, Hod, retrace_app, filter_app.
  rewrite (retrace_fix _ _ (body_prefix b Ho)).
  rewrite (filter_all_true _ _ (body_nonoff b)).
  rewrite (filter_all_false nonoff).
  - apply app_nil_r.
  - pose proof (retrace_off_all (b_odfi b) offs Hoff (1 + Z.of_nat (length (body b)))) as H.
    rewrite forallb_forall in *. intros e Hin. specialize (H e Hin). unfold nonoff. now rewrite H.
Qed.

Lemma offset_result_fields T o b :
  b_hdr_ok (offset_result T o b) = b_hdr_ok b /\ b_odfi (offset_result T o b) = b_odfi b /\
  b_num (offset_result T o b) = b_num b /\ b_off (offset_result T o b) = b_off b.
Proof. unfold offset_result, add_offsets. cbn. auto. Qed.

Lemma offset_result_idem T o b : table_good T -> o_kind o <> BadKind -> odfi_ok (b_odfi b) ->
  offset_result T o (offset_result T o b) = offset_result T o b.
Proof.
  intros G Hk Ho.
  destruct (offset_result_fields T o b) as (F1 & F2 & F3 & F4).
  pose proof (offset_result_entries T o b) as He.
  destruct (new_offsets_sums T o (last_trace (body b)) (credits T (body b)) (debits T (body b)) G Hk)
    as (_ & _ & _ & Noff & _).
  pose proof (body_of_result b (offset_result T o b) _ Ho F2 He Noff) as Hb.
  unfold offset_result at 1. rewrite Hb. unfold offset_result at 2.
  apply add_offsets_ext; auto.
Qed.

Lemma offset_result_wf T o b : table_good T -> o_kind o <> BadKind ->
  wf_entries T (b_entries (offset_result T o b)) = true.
Proof.
  intros G Hk. rewrite offset_result_entries, wf_entries_app.
  destruct (new_offsets_sums T o (last_trace (body b)) (credits T (body b)) (debits T (body b)) G Hk)
    as (_ & _ & _ & _ & Nwf & _).
  rewrite Nwf, andb_true_r. unfold wf_entries. pose proof (body_nonoff b) as H.
  rewrite forallb_forall in *. intros e Hin. specialize (H e Hin). unfold nonoff in H. unfold wf_entryb.
  now rewrite H.
Qed.

(* inversion of a successful build *)
Lemma build_ok_inv T b b' : table_good T -> build T b = Ret true b' ->
  b_hdr_ok b = true /\ b_entries b <> [] /\
  match b_off b with
  | None => b' = with_es_ctl b (retrace (b_odfi b) 1 (b_entries b)) (ctl_of T b (retrace (b_odfi b) 1 (b_entries b)))
  | Some o => o_routing_ok o = true /\ o_kind o <> BadKind
  end.
Proof.
  intros G H. unfold build in H.
  destruct (b_hdr_ok b) eqn:Hh; cbn [negb] in H; [|discriminate].
  destruct (b_entries b) as [|e0 es0] eqn:E; [discriminate|].
  split; [reflexivity|]. split; [congruence|]. rewrite <- E in H |- *.
  unfold upsert in H. cbn [with_es_ctl b_off b_entries b_ctl] in H.
  destruct (b_off b) as [o|] eqn:Eo.
  - destruct (o_routing_ok o) eqn:Er; cbn [negb] in H; [|discriminate]. split; [reflexivity|].
    rewrite loop_total in H by apply G. intros Hk. rewrite Hk in H. discriminate.
  - injection H as <-. reflexivity.
Qed.

Lemma build_idem T b b' : table_good T -> odfi_ok (b_odfi b) ->
  wf_entries T (b_entries b) = true ->
  build T b = Ret true b' -> b_entries b' <> [] -> build T b' = Ret true b'.
Proof.
  intros G Ho Hwf H Hne.
  destruct (build_ok_inv T b b' G H) as (Hh & He & Hoff).
  destruct (b_off b) as [o|] eqn:Eo.
  - destruct Hoff as (Hr & Hk).
    rewrite (build_offset T b o G Hh He Eo Hr Hk Hwf) in H. injection H as <-.
    destruct (offset_result_fields T o b) as (F1 & F2 & F3 & F4).
    rewrite (build_offset T (offset_result T o b) o G); try congruence.
    + now rewrite offset_result_idem.
    + now apply offset_result_wf.
  - subst b'. set (es := retrace (b_odfi b) 1 (b_entries b)) in *.
    rewrite build_no_offset; cbn [with_es_ctl b_hdr_ok b_entries b_off b_odfi]; auto.
    assert (Hfix : retrace (b_odfi b) 1 es = es) by (apply retrace_fix; unfold es; now apply retrace_prefix).
    rewrite Hfix. reflexivity.
Qed.

Lemma iter_build_fix T b : build T b = Ret true b -> forall n, iter_build T n b = Ret true b.
Proof. intros H. induction n as [|n IH]; cbn [iter_build]; [reflexivity|now rewrite H]. Qed.

(* ------------------------------------------------------------------ totality *)

Lemma upsert_total T b : table_good T -> upsert T b <> Panic /\ upsert T b <> Hang.
Proof.
  intros G. unfold upsert. destruct (b_off b) as [o|]; [|split; discriminate].
  destruct (o_routing_ok o); cbn [negb]; [|split; discriminate].
  rewrite loop_total by apply G. destruct (o_kind o); split; discriminate.
Qed.

Lemma build_total T b : table_good T -> build T b <> Panic /\ build T b <> Hang.
Proof.
  intros G. unfold build. destruct (b_hdr_ok b); cbn [negb]; [|split; discriminate].
  destruct (b_entries b); [split; discriminate|]. now apply upsert_total.
Qed.

Lemma step_total T o f : table_good T -> exists ok f', step T o f = Ret ok f'.
Proof.
  intros G. destruct o as [i|i e|]; cbn [step].
  - destruct (nth_error (f_batches f) i) as [b|]; [|eauto].
    destruct (build_total T b G) as (H1 & H2). destruct (build T b); [eauto|congruence|congruence].
  - destruct (nth_error (f_batches f) i); eauto.
  - unfold file_create. destruct (f_hdr_ok f); cbn [negb]; [|eauto]. destruct (f_batches f); eauto.
Qed.

Lemma run_snoc T a o f : run T (a ++ [o]) f =
  match run T a f with Ret _ f' => step T o f' | Panic => Panic | Hang => Hang end.
Proof. unfold run. rewrite fold_left_app. cbn [fold_left]. destruct (fold_left _ a (Ret true f)); reflexivity. Qed.

Lemma run_total T ops : table_good T -> forall f, exists ok f', run T ops f = Ret ok f'.
Proof.
  intros G. induction ops as [|o ops IH] using rev_ind; intros f.
  - cbn. eauto.
  - rewrite run_snoc. destruct (IH f) as (ok & f' & ->). apply step_total, G.
Qed.

(* ------------------------------------------------------------------ File.Create *)

Lemma renumber_length bs : forall s, length (renumber s bs) = length bs.
Proof. induction bs as [|b bs IH]; intros s; cbn; [reflexivity|now rewrite IH]. Qed.

Lemma renumber_idem bs : forall s, 1 <= s -> renumber s (renumber s bs) = renumber s bs.
Proof.
  induction bs as [|b bs IH]; intros s Hs; cbn [renumber]; [reflexivity|].
  rewrite IH by lia. f_equal.
  destruct (b_num b <=? 1) eqn:E; [|now rewrite E].
  cbn [set_num b_num]. destruct (s <=? 1) eqn:E2; [|reflexivity].
  unfold set_num. cbn. reflexivity.
Qed.

Lemma file_create_idem f f' : file_create f = Ret true f' -> file_create f' = Ret true f'.
Proof.
  unfold file_create. destruct (f_hdr_ok f) eqn:Hh; cbn [negb]; [|discriminate].
  destruct (f_batches f) as [|b bs] eqn:E; [discriminate|].
  remember (b :: bs) as l eqn:El. intros H. injection H as <-.
  cbn [f_hdr_ok f_batches negb].
  rewrite renumber_idem by lia.
  destruct (renumber 1 l) eqn:E2; [|reflexivity].
  apply (f_equal (@length _)) in E2. rewrite renumber_length, El in E2. discriminate.
Qed.

(* batch numbers that were absent (<= 1 everywhere) come out as 1, 2, 3, ... in header and control *)
Lemma renumber_absent bs : forall s, forallb (fun b => b_num b <=? 1) bs = true ->
  forall i b, nth_error (renumber s bs) i = Some b -> b_num b = s + Z.of_nat i /\ c_num (b_ctl b) = s + Z.of_nat i.
Proof.
  induction bs as [|x bs IH]; intros s H i b Hn; [destruct i; discriminate|].
  cbn [forallb] in H. apply andb_prop in H as [Hx H]. cbn [renumber] in Hn. rewrite Hx in Hn.
  destruct i as [|i]; cbn [nth_error] in Hn.
  - injection Hn as <-. cbn. lia.
  - destruct (IH (s + 1) H i b Hn) as (A & B). lia.
Qed.

(* in general: every number is kept if > 1, and is the position otherwise *)
Lemma renumber_spec bs : forall s i b0, nth_error bs i = Some b0 ->
  exists b, nth_error (renumber s bs) i = Some b /\
    b_num b = (if b_num b0 <=? 1 then s + Z.of_nat i else b_num b0) /\ b_entries b = b_entries b0.
Proof.
  induction bs as [|x bs IH]; intros s i b0 Hn; [destruct i; discriminate|].
  destruct i as [|i]; cbn [nth_error renumber] in *.
  - injection Hn as ->. eexists. split; [reflexivity|]. destruct (b_num b0 <=? 1); cbn; split; auto; lia.
  - destruct (IH (s + 1) i b0 Hn) as (b & A & B & C). exists b. split; [exact A|]. split; [|exact C].
    rewrite B. destruct (b_num b0 <=? 1); lia.
Qed.

(* ------------------------------------------------------------------ ascending traces *)

Fixpoint ascending (l : list Z) : Prop :=
  match l with
  | [] => True
  | x :: r => match r with [] => True | y :: _ => x < y end /\ ascending r
  end.

Lemma retrace_all_absent odfi es : forall s,
  forallb (fun e => negb (has_prefix odfi e)) es = true ->
  map e_trace (retrace odfi s es) = map (fun i => odfi * P7 + (s + Z.of_nat i) mod P7) (seq 0 (length es)).
Proof.
  induction es as [|e es IH]; intros s H; cbn [retrace map length seq]; [reflexivity|].
  cbn [forallb] in H. apply andb_prop in H as [He H]. unfold has_prefix in He.
  destruct (trace_odfi (e_trace e) =? odfi); [discriminate|]. cbn [set_trace e_trace].
  rewrite IH by assumption. f_equal; [f_equal; f_equal; lia|].
  rewrite <- seq_shift, map_map. apply map_ext. intros i. do 2 f_equal. lia.
Qed.

(* ------------------------------------------------------------------ general statements about build *)

Lemma retrace_nonoff_nonempty odfi es : forall s, existsb nonoff es = true -> filter nonoff (retrace odfi s es) <> [].
Proof.
  induction es as [|e es IH]; intros s H; cbn [existsb] in H; [discriminate|].
  cbn [retrace filter].
  assert (Hn : nonoff (if trace_odfi (e_trace e) =? odfi then e else set_trace e (odfi * P7 + s mod P7)) = nonoff e)
    by (destruct (trace_odfi (e_trace e) =? odfi); reflexivity).
  rewrite Hn. destruct (nonoff e); [discriminate|]. cbn [orb] in H. now apply IH.
Qed.

(* a successful build leaves the control equal to the recomputation from the entries *)
Lemma build_ctl_ok T b b' : table_good T ->
  (b_off b <> None -> wf_entries T (b_entries b) = true) ->
  build T b = Ret true b' -> ctl_ok T b'.
Proof.
  intros G Hwf H. destruct (build_ok_inv T b b' G H) as (Hh & He & Hoff).
  destruct (b_off b) as [o|] eqn:Eo.
  - destruct Hoff as (Hr & Hk).
    rewrite (build_offset T b o G Hh He Eo Hr Hk (Hwf ltac:(discriminate))) in H. injection H as <-.
    apply offset_result_props; assumption.
  - subst b'. unfold ctl_ok, ctl_of. cbn. repeat split; reflexivity.
Qed.

(* with an offset configured the result is balanced through at most one OFFSET entry per direction *)
Lemma build_balanced T b b' : table_good T -> b_off b <> None ->
  wf_entries T (b_entries b) = true ->
  build T b = Ret true b' ->
  balanced T b' /\ (length (off_credits T (b_entries b')) <= 1)%nat /\ (length (off_debits T (b_entries b')) <= 1)%nat
  /\ b_svc b' = mixed.
Proof.
  intros G Hsome Hwf H. destruct (build_ok_inv T b b' G H) as (Hh & He & Hoff).
  destruct (b_off b) as [o|] eqn:Eo; [|congruence].
  destruct Hoff as (Hr & Hk).
  rewrite (build_offset T b o G Hh He Eo Hr Hk Hwf) in H. injection H as <-.
  destruct (offset_result_props T o b G Hk) as (_ & P2 & P3 & P4 & P5 & _). auto.
Qed.

(* every entry not named OFFSET carries the header's ODFI in its trace number afterwards *)
Lemma build_traces T b b' : table_good T -> odfi_ok (b_odfi b) ->
  (b_off b <> None -> wf_entries T (b_entries b) = true) ->
  build T b = Ret true b' ->
  forallb (has_prefix (b_odfi b)) (filter nonoff (b_entries b')) = true.
Proof.
  intros G Ho Hwf H. destruct (build_ok_inv T b b' G H) as (Hh & He & Hoff).
  destruct (b_off b) as [o|] eqn:Eo.
  - destruct Hoff as (Hr & Hk).
    rewrite (build_offset T b o G Hh He Eo Hr Hk (Hwf ltac:(discriminate))) in H. injection H as <-.
    rewrite offset_result_entries, filter_app.
    destruct (new_offsets_sums T o (last_trace (body b)) (credits T (body b)) (debits T (body b)) G Hk)
      as (_ & _ & _ & Noff & _).
    rewrite (filter_all_false nonoff (new_offsets T o (last_trace (body b)) (credits T (body b)) (debits T (body b)))).
    + rewrite app_nil_r. apply forallb_filter. now apply body_prefix.
    + rewrite forallb_forall in *. intros e Hin. specialize (Noff e Hin). unfold nonoff. now rewrite Noff.
  - subst b'. cbn [with_es_ctl b_entries]. apply forallb_filter. now apply retrace_prefix.
Qed.

(* an entry not named OFFSET whose trace number was pre-set (ODFI prefix) is still there, unchanged *)
Lemma build_keeps T b b' e : table_good T ->
  (b_off b <> None -> wf_entries T (b_entries b) = true) ->
  build T b = Ret true b' ->
  In e (b_entries b) -> e_off e = false -> has_prefix (b_odfi b) e = true -> In e (b_entries b').
Proof.
  intros G Hwf H Hin Hno Hp. destruct (build_ok_inv T b b' G H) as (Hh & He & Hoff).
  destruct (In_nth_error _ _ Hin) as (i & Hi).
  pose proof (retrace_keeps (b_odfi b) (b_entries b) 1 i e Hi Hp) as Hk'. apply nth_error_In in Hk'.
  destruct (b_off b) as [o|] eqn:Eo.
  - destruct Hoff as (Hr & Hk).
    rewrite (build_offset T b o G Hh He Eo Hr Hk (Hwf ltac:(discriminate))) in H. injection H as <-.
    rewrite offset_result_entries. apply in_or_app. left. unfold body. apply filter_In. split; [exact Hk'|].
    unfold nonoff. now rewrite Hno.
  - subst b'. exact Hk'.
Qed.

(* n >= 1 creates in a row *)
Lemma iter_build_offset T n b o : table_good T -> (1 <= n)%nat ->
  b_hdr_ok b = true -> b_off b = Some o -> o_routing_ok o = true -> o_kind o <> BadKind ->
  odfi_ok (b_odfi b) -> wf_entries T (b_entries b) = true -> existsb nonoff (b_entries b) = true ->
  iter_build T n b = Ret true (offset_result T o b).
Proof.
  intros G Hn Hh Eo Hr Hk Ho Hwf Hex.
  assert (He : b_entries b <> []) by (destruct (b_entries b); [discriminate|congruence]).
  pose proof (build_offset T b o G Hh He Eo Hr Hk Hwf) as H1.
  destruct n as [|n]; [lia|]. cbn [iter_build]. rewrite H1.
  apply iter_build_fix. apply (build_idem T b); auto.
  rewrite offset_result_entries. intros Hnil. apply app_eq_nil in Hnil as [Hb _].
  revert Hb. unfold body. now apply retrace_nonoff_nonempty.
Qed.

(* ------------------------------------------------------------------ invariants along histories *)

Definition batch_wf (T : otable) (b : batch) : bool := wf_entries T (b_entries b).
Definition file_wf (T : otable) (f : file) : bool := forallb (batch_wf T) (f_batches f).
Definition op_wf (T : otable) (o : op) : bool := match o with AddEntry _ e => wf_entryb T e | _ => true end.

Lemma filter_wf T es : wf_entries T es = true -> wf_entries T (filter nonoff es) = true.
Proof. apply forallb_filter. Qed.

Lemma build_wf T b ok b' : table_good T -> batch_wf T b = true -> build T b = Ret ok b' ->
  batch_wf T b' = true /\ b_off b' = b_off b /\ b_odfi b' = b_odfi b.
Proof.
  intros G Hwf H. unfold batch_wf in *. unfold build in H.
  destruct (b_hdr_ok b) eqn:Hh; cbn [negb] in H; [|injection H as _ <-; auto].
  destruct (b_entries b) as [|e0 es0] eqn:E; [injection H as _ <-; rewrite E; auto|]. rewrite <- E in H, Hwf.
  assert (Hwr : wf_entries T (retrace (b_odfi b) 1 (b_entries b)) = true) by now rewrite retrace_wf.
  unfold upsert in H. cbn [with_es_ctl b_off b_entries b_ctl] in H.
  destruct (b_off b) as [o|] eqn:Eo.
  - destruct (o_routing_ok o) eqn:Er; cbn [negb] in H; [|injection H as _ <-; cbn; auto].
    rewrite loop_total in H by apply G.
    destruct (o_kind o) eqn:Ek.
    + injection H as _ <-.
      assert (Hk : o_kind o <> BadKind) by congruence.
      pose proof (offset_result_wf T o b G Hk) as W. unfold offset_result in W.
      split; [|cbn; auto].
      rewrite <- W. unfold add_offsets. cbn [b_entries c_credit c_debit].
      (* entries depend on the control only through the two totals *)
      destruct (sums_split T _ G Hwr) as (S1 & S2 & _).
      destruct (sub_offs_fields T (retrace (b_odfi b) 1 (b_entries b))
        (mkctl (b_svc b) (b_num b) (count (retrace (b_odfi b) 1 (b_entries b))) (hash (retrace (b_odfi b) 1 (b_entries b)))
               (credits T (retrace (b_odfi b) 1 (b_entries b))) (debits T (retrace (b_odfi b) 1 (b_entries b)))))
        as (F1 & F2 & _).
      cbn [c_credit c_debit] in F1, F2. unfold ctl_of, body. cbn [c_credit c_debit].
      replace (c_credit (sub_offs T _ _)) with (credits T (filter nonoff (retrace (b_odfi b) 1 (b_entries b)))) by lia.
      replace (c_debit (sub_offs T _ _)) with (debits T (filter nonoff (retrace (b_odfi b) 1 (b_entries b)))) by lia.
      rewrite Ek. reflexivity.
    + injection H as _ <-.
      assert (Hk : o_kind o <> BadKind) by congruence.
      pose proof (offset_result_wf T o b G Hk) as W. unfold offset_result in W.
      split; [|cbn; auto].
      rewrite <- W. unfold add_offsets. cbn [b_entries c_credit c_debit].
      destruct (sums_split T _ G Hwr) as (S1 & S2 & _).
      destruct (sub_offs_fields T (retrace (b_odfi b) 1 (b_entries b))
        (mkctl (b_svc b) (b_num b) (count (retrace (b_odfi b) 1 (b_entries b))) (hash (retrace (b_odfi b) 1 (b_entries b)))
               (credits T (retrace (b_odfi b) 1 (b_entries b))) (debits T (retrace (b_odfi b) 1 (b_entries b)))))
        as (F1 & F2 & _).
      cbn [c_credit c_debit] in F1, F2. unfold ctl_of, body. cbn [c_credit c_debit].
      replace (c_credit (sub_offs T _ _)) with (credits T (filter nonoff (retrace (b_odfi b) 1 (b_entries b)))) by lia.
      replace (c_debit (sub_offs T _ _)) with (debits T (filter nonoff (retrace (b_odfi b) 1 (b_entries b)))) by lia.
      rewrite Ek. reflexivity.
    + injection H as _ <-. cbn [with_es_ctl b_entries b_off b_odfi]. split; [now apply filter_wf|auto].
  - injection H as _ <-. cbn. auto.
Qed.

Lemma forallb_upd {A} (p : A -> bool) l : forall i x, forallb p l = true -> p x = true -> forallb p (upd l i x) = true.
Proof.
  induction l as [|y l IH]; intros i x Hl Hx; [reflexivity|].
  cbn [forallb] in Hl. apply andb_prop in Hl as [Hy Hl].
  destruct i; cbn [upd forallb]; [now rewrite Hx|now rewrite Hy, IH].
Qed.

Lemma nth_error_upd {A} (l : list A) : forall i x y, nth_error l i = Some y -> nth_error (upd l i x) i = Some x.
Proof.
  induction l as [|z l IH]; intros i x y H; destruct i; cbn in *; try discriminate; [reflexivity|eauto].
Qed.

Lemma forallb_nth {A} (p : A -> bool) l i x : forallb p l = true -> nth_error l i = Some x -> p x = true.
Proof. intros H Hn. rewrite forallb_forall in H. apply H. eapply nth_error_In, Hn. Qed.

Lemma renumber_wf T bs : forall s, forallb (batch_wf T) (renumber s bs) = forallb (batch_wf T) bs.
Proof.
  induction bs as [|b bs IH]; intros s; cbn [renumber forallb]; [reflexivity|].
  rewrite IH. f_equal. destruct (b_num b <=? 1); reflexivity.
Qed.

Lemma step_wf T o f ok f' : table_good T -> file_wf T f = true -> op_wf T o = true ->
  step T o f = Ret ok f' -> file_wf T f' = true.
Proof.
  intros G Hf Ho H. unfold file_wf in *. destruct o as [i|i e|]; cbn [step] in H.
  - destruct (nth_error (f_batches f) i) as [b|] eqn:En; [|injection H as _ <-; exact Hf].
    destruct (build T b) as [ok1 b1| |] eqn:Eb; try discriminate. injection H as _ <-.
    cbn [with_batches f_batches]. apply forallb_upd; [exact Hf|].
    eapply build_wf; eauto. eapply forallb_nth; eauto.
  - destruct (nth_error (f_batches f) i) as [b|] eqn:En; injection H as _ <-; [|exact Hf].
    cbn [with_batches f_batches]. apply forallb_upd; [exact Hf|].
    unfold batch_wf, add_entry. cbn [b_entries]. rewrite wf_entries_app.
    pose proof (forallb_nth _ _ _ _ Hf En) as Hb. unfold batch_wf in Hb. rewrite Hb.
    cbn [op_wf] in Ho. cbn. now rewrite Ho.
  - unfold file_create in H. destruct (f_hdr_ok f); cbn [negb] in H; [|injection H as _ <-; exact Hf].
    destruct (f_batches f) as [|b bs] eqn:E; [injection H as _ <-; now rewrite E|]. rewrite <- E in H, Hf.
    injection H as _ <-. cbn [f_batches]. now rewrite renumber_wf.
Qed.

Lemma run_wf T ops : table_good T -> forall f ok f', file_wf T f = true -> forallb (op_wf T) ops = true ->
  run T ops f = Ret ok f' -> file_wf T f' = true.
Proof.
  intros G. induction ops as [|o ops IH] using rev_ind; intros f ok f' Hf Ho H.
  - cbn in H. injection H as _ <-. exact Hf.
  - rewrite run_snoc in H. rewrite forallb_app in Ho. apply andb_prop in Ho as [Ho1 Ho2].
    cbn [forallb] in Ho2. rewrite andb_true_r in Ho2.
    destruct (run_total T ops G f) as (ok1 & f1 & E1). rewrite E1 in H.
    eapply step_wf; [exact G| |exact Ho2|exact H]. eapply IH; eauto.
Qed.

(* whatever the history, a batch that a Create just tabulated successfully has a control
   equal to the recomputation and, with an offset configured, is balanced *)
Lemma history_create T ops i f f' b' : table_good T ->
  file_wf T f = true -> forallb (op_wf T) ops = true ->
  run T (ops ++ [BatchCreate i]) f = Ret true f' -> nth_error (f_batches f') i = Some b' ->
  ctl_ok T b' /\
  (b_off b' <> None -> balanced T b' /\ (length (off_credits T (b_entries b')) <= 1)%nat
                       /\ (length (off_debits T (b_entries b')) <= 1)%nat).
Proof.
  intros G Hf Ho H Hn. rewrite run_snoc in H.
  destruct (run_total T ops G f) as (ok1 & f1 & E1). rewrite E1 in H.
  pose proof (run_wf T ops G f ok1 f1 Hf Ho E1) as Hw1.
  cbn [step] in H. destruct (nth_error (f_batches f1) i) as [b|] eqn:En.
  - destruct (build T b) as [ok2 b2| |] eqn:Eb; try discriminate. injection H as -> <-.
    cbn [with_batches f_batches] in Hn. rewrite (nth_error_upd _ _ _ _ En) in Hn. injection Hn as <-.
    pose proof (forallb_nth _ _ _ _ Hw1 En) as Hb. unfold batch_wf in Hb.
    split; [eapply build_ctl_ok; eauto|].
    intros Hoff. destruct (build_wf T b true b2 G Hb Eb) as (_ & Eoff & _). rewrite Eoff in Hoff.
    destruct (build_balanced T b b2 G Hoff Hb Eb) as (B1 & B2 & B3 & _). auto.
  - (* index out of range: nothing at position i either *)
    injection H as <-. congruence.
Qed.

Lemma history_file_stable T ops f f' : run T (ops ++ [FileCreate]) f = Ret true f' ->
  run T (ops ++ [FileCreate; FileCreate]) f = Ret true f'.
Proof.
  intros H. replace (ops ++ [FileCreate; FileCreate]) with ((ops ++ [FileCreate]) ++ [FileCreate])
    by (rewrite <- app_assoc; reflexivity).
  rewrite run_snoc, H. cbn [step].
  rewrite run_snoc in H. destruct (run T ops f) as [ok a| |]; try discriminate. cbn [step] in H.
  exact (file_create_idem a f' H).
Qed.

(* ------------------------------------------------------------------ ascending trace numbers *)

(* strictly ascending and above [lo] *)
Fixpoint asc (lo : Z) (l : list Z) : Prop :=
  match l with [] => True | x :: r => lo < x /\ asc x r end.

Fixpoint lastz (lo : Z) (l : list Z) : Z := match l with [] => lo | x :: r => lastz x r end.

Lemma asc_weaken l : forall lo lo', lo' <= lo -> asc lo l -> asc lo' l.
Proof. destruct l as [|x r]; intros lo lo' Hle H; cbn in *; [exact I|]. destruct H. split; [lia|assumption]. Qed.

Lemma asc_filter (f : entry -> bool) es : forall lo, asc lo (map e_trace es) -> asc lo (map e_trace (filter f es)).
Proof.
  induction es as [|e es IH]; intros lo H; cbn [filter map asc] in *; [exact I|].
  destruct H as [H1 H2]. destruct (f e); cbn [map asc].
  - split; [assumption|now apply IH].
  - apply IH. eapply asc_weaken; [|exact H2]. lia.
Qed.

Lemma asc_app a : forall lo b, asc lo a -> asc (lastz lo a) b -> asc lo (a ++ b).
Proof.
  induction a as [|x a IH]; intros lo b Ha Hb; cbn [app asc lastz] in *; [assumption|].
  destruct Ha as [H1 H2]. split; [assumption|now apply IH].
Qed.

Lemma lastz_app a x : forall lo, lastz lo (a ++ [x]) = x.
Proof. induction a as [|y a IH]; intros lo; cbn [app lastz]; [reflexivity|apply IH]. Qed.

Lemma last_trace_lastz es : last_trace es = lastz 0 (map e_trace es).
Proof.
  unfold last_trace. induction es as [|e es IH] using rev_ind; [reflexivity|].
  rewrite rev_app_distr, map_app. cbn [rev app map]. now rewrite lastz_app.
Qed.

Definition all_absent (odfi : Z) (es : list entry) : bool := forallb (fun e => negb (has_prefix odfi e)) es.

Lemma retrace_asc odfi es : forall s lo, all_absent odfi es = true ->
  0 <= s -> s + Z.of_nat (length es) <= P7 -> lo < odfi * P7 + s ->
  asc lo (map e_trace (retrace odfi s es)).
Proof.
  induction es as [|e es IH]; intros s lo Ha Hs Hlen Hlo; cbn [retrace map asc]; [exact I|].
  cbn [all_absent forallb] in Ha. apply andb_prop in Ha as [He Ha]. unfold has_prefix in He.
  destruct (trace_odfi (e_trace e) =? odfi); [discriminate|]. cbn [set_trace e_trace].
  cbn [length] in Hlen. rewrite Z.mod_small by lia. split; [assumption|].
  apply IH; try assumption; lia.
Qed.

(* a batch without any pre-set trace number comes out of a successful build with strictly
   ascending (positive) trace numbers, the offsets included *)
Lemma build_ascending T b b' : table_good T -> 0 <= b_odfi b ->
  (b_off b <> None -> wf_entries T (b_entries b) = true) ->
  all_absent (b_odfi b) (b_entries b) = true -> Z.of_nat (length (b_entries b)) < P7 - 1 ->
  build T b = Ret true b' -> asc 0 (map e_trace (b_entries b')).
Proof.
  intros G Ho Hwf Ha Hlen H. destruct (build_ok_inv T b b' G H) as (Hh & He & Hoff).
  assert (Hasc : asc 0 (map e_trace (retrace (b_odfi b) 1 (b_entries b)))).
  { apply retrace_asc; try assumption; unfold P7 in *; lia. }
  destruct (b_off b) as [o|] eqn:Eo.
  - destruct Hoff as (Hr & Hk).
    rewrite (build_offset T b o G Hh He Eo Hr Hk (Hwf ltac:(discriminate))) in H. injection H as <-.
    rewrite offset_result_entries, map_app. apply asc_app.
    + unfold body. now apply asc_filter.
    + rewrite <- last_trace_lastz. unfold new_offsets.
      destruct (credits T (body b) =? 0); destruct (debits T (body b) =? 0); cbn [app map asc e_trace]; repeat split; lia.
  - subst b'. exact Hasc.
Qed.

(* ------------------------------------------------------------------ File.Create tabulates *)

Lemma renumber_entries bs : forall s, map b_entries (renumber s bs) = map b_entries bs.
Proof.
  induction bs as [|b bs IH]; intros s; cbn [renumber map]; [reflexivity|].
  rewrite IH. f_equal. destruct (b_num b <=? 1); reflexivity.
Qed.

Lemma file_create_tabulates f f' : file_create f = Ret true f' ->
  f_ctl f' = file_control (f_batches f') /\ map b_entries (f_batches f') = map b_entries (f_batches f) /\
  fc_batches (f_ctl f') = Z.of_nat (length (f_batches f)).
Proof.
  unfold file_create. destruct (f_hdr_ok f); cbn [negb]; [|discriminate].
  destruct (f_batches f) as [|b bs] eqn:E; [discriminate|]. rewrite <- E. intros H. injection H as <-.
  cbn [f_ctl f_batches file_control fc_batches]. rewrite renumber_entries, renumber_length. auto.
Qed.

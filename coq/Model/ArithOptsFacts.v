(* Phase 5 (C09 / C13): facts about the validator model under ValidateOpts (ArithOpts.v):
   every check of verify_o / file_body_o as a named fact (both directions), monotonicity in
   the batch options (relaxation flags only relax), and agreement with Arith.v when no option
   is stored anywhere.  For entry / batch lists of any length. *)
From Coq Require Import List NArith ZArith Bool Lia ZifyBool ZifyNat ZifyN.
From ACH Require Export ArithOpts.
From ACH Require Import Bytes Fields MergeOpts MergeOptsFacts ValidOut ValidOutFacts.
Import ListNotations.
Open Scope Z_scope.

Lemma is_rok_spec r : is_rok r = true <-> r = ROk.
Proof. destruct r; cbn; split; intros H; try reflexivity; discriminate. Qed.

Lemma nonempty_spec {X} (l : list X) : nonempty l = true <-> l <> [].
Proof. destruct l; cbn; split; intros H; try reflexivity; try discriminate; congruence. Qed.

Lemma andr_assoc a b c : (a ;; b) ;; c = a ;; b ;; c.
Proof. destruct a; reflexivity. Qed.

(* flag-wise inclusion of option values *)
Definition fle (o o' : vopts) : Prop := forall i, oflag i o = true -> oflag i o' = true.

Lemma osub_fle o o' : osub o o' -> fle o o'.
Proof. intros H i. now apply osub_oflag. Qed.

Lemma fle_refl o : fle o o.
Proof. intros i H. exact H. Qed.

Section Facts.
Variable csem : N -> Z -> bool.
Variable T : tables.

Local Notation ve := (validate_entry_o csem T).
Local Notation vb := (validate_batch_o csem T).

(* ---- the parallel walk over entries and their option values ------------------------ *)

Lemma each_o_map {X} (f : vopts -> entry -> rule) (g : X -> vopts) (h : X -> entry) l :
  each_o f (map g l) (map h l) = first_fail (fun x => f (g x) (h x)) l.
Proof. induction l as [|x l IH]; cbn [map each_o first_fail hd tl]; [reflexivity|]. now rewrite IH. Qed.

Lemma each_o_none (f : vopts -> entry -> rule) es :
  each_o f (map (fun _ => None) es) es = first_fail (f None) es.
Proof.
  rewrite <- (map_id es) at 2. rewrite (each_o_map f (fun _ : entry => None) (fun e => e)). reflexivity.
Qed.

(* ---- Batch.verify under options: the checks as facts ---------------------------------- *)

Record batch_facts_o (ob : vbatch) : Prop := mkfacts_o {
  vbf_nonempty : bt_entries (vb_b ob) <> [];
  vbf_hclass : bt_class (vb_b ob) <> 0 /\ memz (bt_class (vb_b ob)) (t_classes T) = true;
  vbf_entries : each_o ve (vb_eopts ob) (bt_entries (vb_b ob)) = ROk;
  vbf_ctl : validate_bctl T KStd (bt_ctl (vb_b ob)) = ROk;
  vbf_class : oflag ix_unequal_scc (vb_opts ob) = true \/ bt_class (vb_b ob) = bc_class (bt_ctl (vb_b ob));
  vbf_odfi : bt_odfi (vb_b ob) = bc_odfi (bt_ctl (vb_b ob));
  vbf_number : bt_number (vb_b ob) = bc_number (bt_ctl (vb_b ob));
  vbf_count : calc_count (bt_entries (vb_b ob)) = bc_count (bt_ctl (vb_b ob))
             \/ oflag ix_unequal_addenda (vb_opts ob) = true;
  vbf_asc : custom (vb_opts ob) = true \/ ascending (ascending_init KStd) (bt_entries (vb_b ob)) = true;
  vbf_debit : calc_debit T KStd (bt_entries (vb_b ob)) = bc_debit (bt_ctl (vb_b ob));
  vbf_credit : calc_credit T KStd (bt_entries (vb_b ob)) = bc_credit (bt_ctl (vb_b ob));
  vbf_hash : calc_hash T (bt_entries (vb_b ob)) = bc_hash (bt_ctl (vb_b ob));
  vbf_trace : custom (vb_opts ob) = true \/ bypass (vb_opts ob) = true \/ trace_odfi_ok KStd (vb_b ob) = true }.

Lemma verify_o_facts ob : verify_o csem T ob = ROk -> batch_facts_o ob.
Proof.
  unfold verify_o. cbv zeta. intros H. ok_split.
  repeat match goal with H : (_ =? _) = true |- _ => apply Z.eqb_eq in H end.
  match goal with H : bytes_eqb _ _ = true |- _ => apply bytes_eqb_eq in H end.
  constructor; try assumption.
  - now apply nonempty_spec.
  - match goal with H : negb (_ =? 0) && _ = true |- _ => apply andb_prop in H as [Hc0 Hcm] end.
    split; [now apply negb_true_iff, Z.eqb_neq in Hc0|exact Hcm].
  - match goal with H : oflag ix_unequal_scc _ || _ = true |- _ => apply orb_prop in H as [Ha|Ha] end;
      [now left|right; now apply Z.eqb_eq].
  - match goal with H : _ || oflag ix_unequal_addenda _ = true |- _ => apply orb_prop in H as [Ha|Ha] end;
      [left; now apply Z.eqb_eq|now right].
  - match goal with H : custom _ || ascending _ _ = true |- _ => apply orb_prop in H as [Ha|Ha] end; [now left|now right].
  - match goal with H : custom _ || bypass _ || _ = true |- _ => apply orb_prop in H as [Ha|Ha] end;
      [apply orb_prop in Ha as [Hb|Hb]; [now left|right; now left]|right; now right].
Qed.

Lemma verify_o_intro ob : batch_facts_o ob -> verify_o csem T ob = ROk.
Proof.
  intros [Fne [Fc0 Fcm] Fe Fc Fcl Fo Fn Fcnt Fasc Fd Fcr Fh Ft]. unfold verify_o. cbv zeta.
  repeat (rewrite andr_ok; split); try assumption.
  - apply chk_intro. now apply nonempty_spec.
  - apply chk_intro. apply andb_true_intro. split; [now apply negb_true_iff, Z.eqb_neq|exact Fcm].
  - apply chk_intro. destruct Fcl as [H|H]; [now rewrite H|]. rewrite <- H, Z.eqb_refl. apply orb_true_r.
  - apply chk_intro. now apply bytes_eqb_eq.
  - apply chk_intro. now apply Z.eqb_eq.
  - apply chk_intro. destruct Fcnt as [H|H]; [|rewrite H; apply orb_true_r]. rewrite H, Z.eqb_refl. reflexivity.
  - apply chk_intro. destruct Fasc as [H|H]; rewrite H; [reflexivity|apply orb_true_r].
  - apply chk_intro. now apply Z.eqb_eq.
  - apply chk_intro. now apply Z.eqb_eq.
  - apply chk_intro. now apply Z.eqb_eq.
  - apply chk_intro. destruct Ft as [H|[H|H]]; rewrite H; [reflexivity|now rewrite orb_true_r|now rewrite orb_true_r].
Qed.

Lemma validate_batch_o_split ob :
  vb ob = ROk <->
  batch_facts_o ob /\ each_o (tran_code_o T (bt_class (vb_b ob))) (vb_eopts ob) (bt_entries (vb_b ob)) = ROk.
Proof.
  unfold validate_batch_o. rewrite andr_ok. split; intros [H1 H2]; (split; [|exact H2]).
  - now apply verify_o_facts.
  - now apply verify_o_intro.
Qed.

(* ---- relaxation flags of the batch only relax --------------------------------------- *)

Lemma validate_batch_o_mono o o' eos b :
  fle o o' -> vb (mkvb o eos b) = ROk -> vb (mkvb o' eos b) = ROk.
Proof.
  intros Hle H. apply validate_batch_o_split in H as [F Htc]. apply validate_batch_o_split.
  cbn [vb_b vb_eopts vb_opts] in *. split; [|exact Htc].
  destruct F as [Fne Fhc Fe Fc Fcl Fo Fn Fcnt Fasc Fd Fcr Fh Ft]. cbn [vb_b vb_eopts vb_opts] in *.
  constructor; cbn [vb_b vb_eopts vb_opts]; try assumption.
  - destruct Fcl as [H|H]; [left; now apply Hle|now right].
  - destruct Fcnt as [H|H]; [now left|right; now apply Hle].
  - destruct Fasc as [H|H]; [left; now apply Hle|now right].
  - destruct Ft as [H|[H|H]]; [left; now apply Hle|right; left; now apply Hle|right; now right].
Qed.

(* ---- no options anywhere: the validator of C03 ------------------------------------------ *)

Lemma oflag_none i : oflag i None = false.
Proof. reflexivity. Qed.

Lemma validate_entry_o_none e : ve None e = validate_entry T KStd e.
Proof.
  unfold validate_entry_o, validate_entry. cbn [octc]. rewrite oflag_none. cbn [orb].
  rewrite andr_assoc. destruct (en_rdfi e); reflexivity.
Qed.

Lemma tran_code_o_none b e : tran_code_o T (bt_class b) None e = tran_code_for_class T b e.
Proof. reflexivity. Qed.

Definition no_opts (b : batch) : vbatch := mkvb None (map (fun _ => None) (bt_entries b)) b.

Theorem validate_batch_o_none b : bt_kind b = KStd -> (vb (no_opts b) = ROk <-> validate_batch T b = ROk).
Proof.
  intros Ek. unfold no_opts. rewrite validate_batch_o_split. cbn [vb_b vb_eopts vb_opts].
  rewrite each_o_none. split.
  - intros [F Htc]. destruct F as [Fne Fhc Fe Fc Fcl Fo Fn Fcnt Fasc Fd Fcr Fh Ft]. cbn [vb_b vb_eopts vb_opts] in *.
    rewrite each_o_none in Fe. apply first_fail_ok in Fe, Htc.
    apply validate_batch_std_intro; [exact Ek| |].
    + constructor; rewrite ?Ek; try assumption.
      * eapply Forall_impl; [|exact Fe]. intros e He. now rewrite <- validate_entry_o_none.
      * destruct Fcl as [H|H]; [discriminate H|exact H].
      * destruct Fcnt as [H|H]; [exact H|discriminate H].
      * intros _. destruct Fasc as [H|H]; [discriminate H|exact H].
      * destruct Ft as [H|[H|H]]; [discriminate H|discriminate H|exact H].
    + eapply Forall_impl; [|exact Htc]. intros e He. exact He.
  - intros Hv. pose proof (verify_facts T b (validate_batch_verify T b Hv)) as F.
    destruct F as [Fne Fe Fc Fcl Fo Fn Fcnt Fasc Fd Fcr Fh Ft]. rewrite Ek in *.
    unfold validate_batch in Hv. rewrite Ek in Hv. apply andr_ok in Hv as [_ Htc].
    split; [|exact Htc].
    constructor; cbn [vb_b vb_eopts vb_opts]; try assumption; try (now right); try (now left).
    + pose proof Fc as Fc'. unfold validate_bctl in Fc'. ok_split. rewrite Fcl. split; [|assumption].
      match goal with H : negb (_ =? 0) = true |- _ => now apply negb_true_iff, Z.eqb_neq in H end.
    + rewrite each_o_none. apply first_fail_ok. eapply Forall_impl; [|exact Fe]. intros e He.
      now rewrite validate_entry_o_none.
    + right. apply Fasc. discriminate.
    + right. now right.
Qed.

(* ---- File.ValidateWith under options: the checks as facts --------------------------------- *)

Record file_facts_o (f : vfile) : Prop := mkffacts_o {
  ff_bcount : fc_batches (vf_ctl f) = Z.of_nat (length (vf_batches f));
  ff_batches_ok : Forall (fun ob => vb ob = ROk) (vf_batches f);
  ff_fctl : oflag ix_missing_control (vf_opts f) = true \/ validate_fctl T (vf_ctl f) = ROk;
  ff_count : fc_count (vf_ctl f) = sumz (fun b => bc_count (bt_ctl b)) (map vb_b (vf_batches f))
             \/ oflag ix_unequal_addenda (vf_opts f) = true;
  ff_debit : fc_debit (vf_ctl f) = sumz (fun b => bc_debit (bt_ctl b)) (map vb_b (vf_batches f));
  ff_credit : fc_credit (vf_ctl f) = sumz (fun b => bc_credit (bt_ctl b)) (map vb_b (vf_batches f));
  ff_asc : oflag ix_unordered (vf_opts f) = true \/ numbers_ascending 0 (map vb_b (vf_batches f)) = true;
  ff_hash : least_sig (sumz (fun b => bc_hash (bt_ctl b)) (map vb_b (vf_batches f))) (t_hash_digits T)
            = fc_hash (vf_ctl f) }.

Lemma file_body_o_facts f : file_body_o csem T f = ROk <-> file_facts_o f.
Proof.
  unfold file_body_o. cbv zeta. split.
  - intros H. ok_split.
    repeat match goal with H : (_ =? _) = true |- _ => apply Z.eqb_eq in H end.
    match goal with H : first_fail _ _ = ROk |- _ => apply first_fail_ok in H end.
    constructor; try assumption.
    + now rewrite map_length in *.
    + destruct (oflag ix_missing_control (vf_opts f)); [now left|now right].
    + match goal with H : _ || oflag ix_unequal_addenda _ = true |- _ => apply orb_prop in H as [Ha|Ha] end;
        [left; now apply Z.eqb_eq|now right].
    + destruct (oflag ix_unordered (vf_opts f)); [now left|right].
      match goal with H : chk (numbers_ascending _ _) _ = ROk |- _ => now apply chk_true in H end.
  - intros [F1 F2 F3 F4 F5 F6 F7 F8]. repeat (rewrite andr_ok; split).
    + apply chk_intro. rewrite map_length. now apply Z.eqb_eq.
    + now apply first_fail_ok.
    + destruct (oflag ix_missing_control (vf_opts f)); [reflexivity|]. destruct F3 as [H|H]; [discriminate H|exact H].
    + apply chk_intro. destruct F4 as [H|H]; [|rewrite H; apply orb_true_r]. rewrite H, Z.eqb_refl. reflexivity.
    + apply chk_intro. now apply Z.eqb_eq.
    + apply chk_intro. now apply Z.eqb_eq.
    + destruct (oflag ix_unordered (vf_opts f)); [reflexivity|]. destruct F7 as [H|H]; [discriminate H|]. now apply chk_intro.
    + apply chk_intro. now apply Z.eqb_eq.
Qed.

Lemma file_valid_o_spec f :
  file_valid_o csem T f = true <->
  oflag ix_skip_all (vf_opts f) = true
  \/ ((oflag ix_missing_header (vf_opts f) = true \/ header_ok (vf_opts f) (vf_origin f) (vf_dest f) = true)
      /\ file_facts_o f).
Proof.
  unfold file_valid_o. cbv zeta. rewrite orb_true_iff, andb_true_iff, orb_true_iff, is_rok_spec, file_body_o_facts. tauto.
Qed.

(* a file that validates under options other than SkipAll: every batch validates under its own *)
Lemma file_valid_o_batches f : file_valid_o csem T f = true -> oflag ix_skip_all (vf_opts f) = false ->
  Forall (fun ob => vb ob = ROk) (vf_batches f).
Proof.
  intros H Hs. apply file_valid_o_spec in H as [H|[_ H]]; [congruence|]. exact (ff_batches_ok f H).
Qed.

End Facts.

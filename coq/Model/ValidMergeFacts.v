(* Phase 2, C09: every batch and every file MergeFiles emits is accepted by the validator
   model of C03 when the input batches are.  Instantiates C09_valid_partial
   (merge_valid_relative) with Arith: [entry_ok] := the per-entry half of Arith's validity under
   the header's identity key, [batch_valid] := Arith.validate_batch of the tabulated batch. *)
From Coq Require Import Lia Sorting.Sorted.
From ACH Require Import ValidOut ValidOutFacts.
From ACH Require Import Bytes Merge MergeFacts.
From ACH Require Export ValidMerge.
Open Scope Z_scope.

(* the tree-map order is the validator's string order *)
Lemma bcmp_lt_bytes_lt a : forall b, bcmp a b = Lt -> bytes_lt a b.
Proof.
  unfold bytes_lt. induction a as [|x a IH]; intros [|y b] H; cbn [bcmp AR.bytes_leb] in *; try discriminate; [reflexivity|].
  destruct (N.compare x y) eqn:E.
  - apply N.compare_eq in E. subst y. rewrite N.ltb_irrefl. now apply IH.
  - assert (Hlt : (x < y)%N) by (now apply N.compare_lt_iff).
    replace (y <? x)%N with false by (symmetry; apply N.ltb_ge; lia).
    replace (x <? y)%N with true by (symmetry; apply N.ltb_lt; lia). reflexivity.
  - discriminate.
Qed.

Lemma tasc_sorted (g : entry -> bytes) es : (forall e, g e = e_trace e) -> tasc es -> Sorted bytes_lt (map g es).
Proof.
  intros Hg. induction es as [|x es IH]; intros H; cbn [map]; [constructor|].
  cbn [tasc] in H. destruct H as [H1 H2]. constructor; [now apply IH|].
  destruct es as [|y es]; cbn [map]; constructor. rewrite !Hg. now apply bcmp_lt_bytes_lt.
Qed.

Section Mrg.
Variables (A : AR.tables) (mp : N -> mpay).

Local Notation me := (m_entry mp).

(* the per-entry half of validity, as a predicate of the header's identity key *)
Definition key_scc (k : hkey_t) : Z := let '(scc, _, _, _, _, _, _) := k in scc.
Definition key_odfi (k : hkey_t) : bytes := let '(_, _, _, _, _, _, odfi) := k in odfi.
Definition entry_ok (k : hkey_t) (e : entry) : Prop := entry_in A (key_scc k) (key_odfi k) (me e).

Lemma key_scc_hkey h : key_scc (hkey h) = h_scc h. Proof. reflexivity. Qed.
Lemma key_odfi_hkey h : key_odfi (hkey h) = h_odfi h. Proof. reflexivity. Qed.

Definition batch_valid (h : header) (es : list entry) : Prop :=
  forall num,
  AR.calc_debit A AR.KStd (map me es) <= AR.t_batch_limit A ->
  AR.calc_credit A AR.KStd (map me es) <= AR.t_batch_limit A ->
  AR.validate_batch A (m_tab A mp h num es) = AR.ROk.

Lemma batch_valid_intro h es :
  es <> [] -> tasc es -> (forall e, In e es -> entry_ok (hkey h) e) -> batch_valid h es.
Proof.
  intros Hne Ht Hin num Hd Hc. unfold m_tab. apply entries_in_valid; try assumption.
  - intros E. apply map_eq_nil in E. congruence.
  - apply Forall_forall. intros x Hx. apply in_map_iff in Hx as (e & <- & He).
    specialize (Hin e He). unfold entry_ok in Hin. now rewrite key_scc_hkey, key_odfi_hkey in Hin.
  - rewrite map_map. apply tasc_sorted; [reflexivity|exact Ht].
Qed.

(* every input batch validates (under some batch number) *)
Definition inputs_valid (fs : list ifile) : Prop :=
  forall f ib, In f fs -> In ib (if_batches f) -> exists num, AR.validate_batch A (m_ibatch A mp num ib) = AR.ROk.

Lemma inputs_entry_ok fs : inputs_valid fs ->
  forall f ib e, In f fs -> In ib (if_batches f) -> In e (ib_entries ib) -> entry_ok (hkey (ib_header ib)) e.
Proof.
  intros Hv f ib e Hf Hib He. destruct (Hv f ib Hf Hib) as (num & Hnum).
  pose proof (valid_entries_in A (m_ibatch A mp num ib) eq_refl Hnum) as Hin. rewrite Forall_forall in Hin.
  unfold entry_ok. rewrite key_scc_hkey, key_odfi_hkey. apply Hin. unfold m_ibatch, m_tab. cbn [VO.tabulate AR.bt_entries].
  now apply in_map.
Qed.

(* MergeFiles: every output batch validates after Create *)
Theorem merge_batch_arith_valid fs c : inputs_valid fs ->
  forall g rb, In g (merge_files fs c) -> In rb (rf_batches g) ->
  AR.calc_debit A AR.KStd (map me (rb_entries rb)) <= AR.t_batch_limit A ->
  AR.calc_credit A AR.KStd (map me (rb_entries rb)) <= AR.t_batch_limit A ->
  AR.validate_batch A (m_batch A mp rb) = AR.ROk.
Proof.
  intros Hv g rb Hg Hrb Hd Hc.
  exact (merge_valid_relative entry_ok batch_valid batch_valid_intro fs c (inputs_entry_ok fs Hv) g rb Hg Hrb (rb_number rb) Hd Hc).
Qed.

Lemma asc_numbers_ascending bs : forall lo, asc lo (map rb_number bs) ->
  AR.numbers_ascending lo (map (m_batch A mp) bs) = true.
Proof.
  induction bs as [|b bs IH]; intros lo H; cbn [map AR.numbers_ascending]; [reflexivity|].
  cbn [asc map] in H. destruct H as [H1 H2]. cbn [m_batch m_tab VO.tabulate AR.bt_number].
  replace (rb_number b <=? lo) with false by (symmetry; apply Z.leb_gt; lia). now apply IH.
Qed.

(* ... and every output file passes File.Validate *)
Theorem merge_file_arith_valid fs c : inputs_valid fs ->
  forall g, In g (merge_files fs c) ->
  Forall (fun rb => AR.calc_debit A AR.KStd (map me (rb_entries rb)) <= AR.t_batch_limit A /\
                    AR.calc_credit A AR.KStd (map me (rb_entries rb)) <= AR.t_batch_limit A) (rf_batches g) ->
  fctl_fits A (AR.fl_ctl (m_file A mp g)) ->
  AR.validate_file A (m_file A mp g) = AR.ROk.
Proof.
  intros Hv g Hg Hlim Hfit. unfold m_file.
  destruct (merge_limits fs c g Hg) as (_ & _ & Hne & _).
  apply create_file_valid.
  - rewrite app_nil_r. intros E. apply map_eq_nil in E. congruence.
  - apply Forall_forall. intros x Hx. apply in_map_iff in Hx as (rb & <- & Hrb). split; [reflexivity|].
    rewrite Forall_forall in Hlim. destruct (Hlim rb Hrb) as [Hd Hc]. now apply (merge_batch_arith_valid fs c Hv g).
  - apply renumber_keeps_ascending; [|lia]. apply asc_numbers_ascending. now apply (merge_numbers fs c).
  - exact Hfit.
Qed.

End Mrg.

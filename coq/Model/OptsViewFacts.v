(* Phase 5: the alias-free views of OptsView.v (what the correspondence extracts and runs) are the
   functions of ValidMergeOpts.v / ReversalOpts.v (what the theorems speak about). *)
From ACH Require Import ValidOut ArithOpts.
From Coq Require Import List NArith ZArith Bool.
From ACH Require Import Bytes Merge MergeOpts ValidMerge ValidMergeOpts.
From ACH Require Import TxCodes RevTable Reversal ValidReversal ReversalOpts OptsView.
Import ListNotations.
Open Scope Z_scope.

Lemma xm_obatch_is A code rdfi chk mo rb :
  xm_obatch A code rdfi chk mo rb = m_obatch A (fun id => mkmpay (code id) (rdfi id) (chk id)) mo rb.
Proof. reflexivity. Qed.

Lemma xm_ofile_is A code rdfi chk mo g :
  xm_ofile A code rdfi chk mo g = m_ofile A (fun id => mkmpay (code id) (rdfi id) (chk id)) mo g.
Proof. reflexivity. Qed.

(* ---- reversal: conversions to the payload records of ValidReversal.v --------------------------- *)

Definition cpay (p : vpay) : bpay := mkbpay (vp_odfi p) (vp_number p) (vp_count p) (vp_hash p) (vp_codfi p) (vp_cnumber p).
Definition cep (ep : N -> N -> vepay) (id tr : N) : rpay :=
  let q := ep id tr in mkrpay (ve_rdfi q) (ve_check q) (ve_trace q) (ve_addenda q).
Definition cvb (x : xvb) : rvb := mkrvb (xv_opts x) (xv_eopts x) (cpay (xv_pay x)) (xv_b x).
Definition cvf (f : xvf) : rvf :=
  mkrvf (xvf_opts f) (xvf_origin f) (xvf_dest f) (xvf_date f) (xvf_time f) (map cvb (xvf_batches f)) (xvf_ctl f).
Definition cres (r : xvres) : rvres :=
  match r with XvOk f => RvOk (cvf f) | XvErrHeader => RvErrHeader | XvErrNoBatches => RvErrNoBatches end.

Lemma xv_batch_is ep p b : xv_batch ep p b = r_batch (cep ep) (cpay p) b.
Proof. reflexivity. Qed.

Lemma xv_arith_is ep x : xv_arith ep x = rv_arith (cep ep) (cvb x).
Proof. reflexivity. Qed.

Lemma xvf_arith_is ep f : xvf_arith ep f = rvf_arith (cep ep) (cvf f).
Proof.
  unfold xvf_arith, rvf_arith. cbn [cvf rvf_opts rvf_origin rvf_dest rvf_batches rvf_ctl].
  rewrite map_map. reflexivity.
Qed.

Lemma xv_renumber_is xs : forall s, map cvb (xv_renumber s xs) = rv_renumber s (map cvb xs).
Proof.
  induction xs as [|x xs IH]; intros s; cbn [xv_renumber rv_renumber map]; [reflexivity|].
  rewrite IH. cbn [cvb rv_pay cpay bp_number]. destruct (vp_number (xv_pay x) <=? 1); reflexivity.
Qed.

Lemma reversal_file_x_is A T ep d t f :
  cres (reversal_file_x A T ep d t f) = reversal_file_o A T (cep ep) d t (cvf f).
Proof.
  unfold reversal_file_x, reversal_file_o. cbn [cvf rvf_opts rvf_origin rvf_dest rvf_batches].
  destruct (negb (oflag ix_skip_all (xvf_opts f)) && negb (oflag ix_missing_header (xvf_opts f))
            && negb (header_ok (xvf_opts f) (xvf_origin f) (xvf_dest f))); [reflexivity|].
  assert (E : map (reversal_batch_o T d) (map cvb (xvf_batches f)) = map cvb (map (reversal_batch_x T d) (xvf_batches f))).
  { rewrite !map_map. reflexivity. }
  rewrite E.
  destruct (map (reversal_batch_x T d) (xvf_batches f)) as [|y ys] eqn:Eb.
  - cbn [map]. destruct (negb (oflag ix_skip_all (xvf_opts f)) && negb (oflag ix_zero_batches (xvf_opts f)) && true); reflexivity.
  - cbn [map]. rewrite andb_false_r. change (cvb y :: map cvb ys) with (map cvb (y :: ys)).
    rewrite <- xv_renumber_is. cbn [cres cvf xvf_opts xvf_origin xvf_dest xvf_date xvf_time xvf_batches xvf_ctl].
    rewrite map_map. reflexivity.
Qed.

(* C15 — relaxation options only ever relax.  Executable definitions only.

   The 15 relaxation flags of ach.ValidateOpts, the option lattice, validators
   as trees of checks whose only dependence on the options is "this subtree is
   skipped when flag f is on" (the shape of every `opts == nil || !opts.F` /
   `opts != nil && opts.F { return nil }` guard of the library), and the
   reader as a machine whose steps run such trees and continue in a state that
   depends on the verdict but not on the options. *)
From Coq Require Import List Bool String Arith.
Import ListNotations.

Inductive flag :=
| BypassOriginValidation | BypassDestinationValidation | CustomTraceNumbers
| AllowZeroBatches | AllowMissingFileHeader | AllowMissingFileControl
| BypassCompanyIdentificationMatch | CustomReturnCodes | UnequalServiceClassCode
| AllowUnorderedBatchNumbers | AllowInvalidCheckDigit | UnequalAddendaCounts
| AllowInvalidAmounts | AllowZeroEntryAmount | AllowSpecialCharacters.

Definition all_flags : list flag :=
  [BypassOriginValidation; BypassDestinationValidation; CustomTraceNumbers;
   AllowZeroBatches; AllowMissingFileHeader; AllowMissingFileControl;
   BypassCompanyIdentificationMatch; CustomReturnCodes; UnequalServiceClassCode;
   AllowUnorderedBatchNumbers; AllowInvalidCheckDigit; UnequalAddendaCounts;
   AllowInvalidAmounts; AllowZeroEntryAmount; AllowSpecialCharacters].

Definition flag_idx (f : flag) : nat :=
  match f with
  | BypassOriginValidation => 0 | BypassDestinationValidation => 1 | CustomTraceNumbers => 2
  | AllowZeroBatches => 3 | AllowMissingFileHeader => 4 | AllowMissingFileControl => 5
  | BypassCompanyIdentificationMatch => 6 | CustomReturnCodes => 7 | UnequalServiceClassCode => 8
  | AllowUnorderedBatchNumbers => 9 | AllowInvalidCheckDigit => 10 | UnequalAddendaCounts => 11
  | AllowInvalidAmounts => 12 | AllowZeroEntryAmount => 13 | AllowSpecialCharacters => 14
  end.

Definition flag_eqb (a b : flag) : bool := Nat.eqb (flag_idx a) (flag_idx b).

Open Scope string_scope.
Definition flag_name (f : flag) : string :=
  match f with
  | BypassOriginValidation => "BypassOriginValidation"
  | BypassDestinationValidation => "BypassDestinationValidation"
  | CustomTraceNumbers => "CustomTraceNumbers"
  | AllowZeroBatches => "AllowZeroBatches"
  | AllowMissingFileHeader => "AllowMissingFileHeader"
  | AllowMissingFileControl => "AllowMissingFileControl"
  | BypassCompanyIdentificationMatch => "BypassCompanyIdentificationMatch"
  | CustomReturnCodes => "CustomReturnCodes"
  | UnequalServiceClassCode => "UnequalServiceClassCode"
  | AllowUnorderedBatchNumbers => "AllowUnorderedBatchNumbers"
  | AllowInvalidCheckDigit => "AllowInvalidCheckDigit"
  | UnequalAddendaCounts => "UnequalAddendaCounts"
  | AllowInvalidAmounts => "AllowInvalidAmounts"
  | AllowZeroEntryAmount => "AllowZeroEntryAmount"
  | AllowSpecialCharacters => "AllowSpecialCharacters"
  end.

Definition flag_of_name (s : string) : option flag :=
  find (fun f => String.eqb (flag_name f) s) all_flags.
Close Scope string_scope.

(* An option set; [le] is set inclusion. *)
Definition opts := flag -> bool.
Definition le (o o' : opts) : Prop := forall f, o f = true -> o' f = true.
Definition opts_of (l : list flag) : opts := fun f => existsb (flag_eqb f) l.
Definition none_on : opts := fun _ => false.
Definition all_on : opts := fun _ => true.
Definition with_flag (o : opts) (f : flag) : opts := fun g => flag_eqb g f || o g.

(* A clause is the set of flags each of which switches a given check off. *)
Definition clause := list flag.
Definition skip (o : opts) (c : clause) : bool := existsb o c.
(* every flag on except those of the clause *)
Definition all_but (c : clause) : opts := fun f => negb (existsb (flag_eqb f) c).

(* A guard site of the source: function, flag, occurrence number of that flag
   in that function (1-based, source order). *)
Record site := mksite { s_func : string; s_flag : flag; s_occ : nat }.

(* Validators.  [Chk c] is a check on the data that no option influences.
   [Skip live s t]: t is not run (no error) when the site's flag is on and the
   record at hand carries the option set ([live x]: its validateOpts pointer is
   set; a record whose pointer is nil behaves as under the empty option set).
   [And a b]: first-error sequence (both must pass).  [Each]/[On]: the checks of
   the elements of a list / of a sub-record.  [Ite]: branch on the data. *)
Inductive vt : Type -> Type :=
| Pass : forall X, vt X
| Chk  : forall X, (X -> bool) -> vt X
| Skip : forall X, (X -> bool) -> site -> vt X -> vt X
| And  : forall X, vt X -> vt X -> vt X
| Each : forall X Y, (X -> list Y) -> vt Y -> vt X
| On   : forall X Y, (X -> Y) -> vt Y -> vt X
| Ite  : forall X, (X -> bool) -> vt X -> vt X -> vt X.

Arguments Pass {X}.
Arguments Chk {X} _.
Arguments Skip {X} _ _ _.
Arguments And {X} _ _.
Arguments Each {X Y} _ _.
Arguments On {X Y} _ _.
Arguments Ite {X} _ _ _.

(* run t o x = true: the validator reports no error on x under the option set o *)
Fixpoint run {X} (t : vt X) (o : opts) : X -> bool :=
  match t in vt X return X -> bool with
  | Pass => fun _ => true
  | Chk c => c
  | Skip live s t => fun x => (live x && o (s_flag s)) || run t o x
  | And a b => fun x => run a o x && run b o x
  | Each p t => fun x => forallb (run t o) (p x)
  | On p t => fun x => run t o (p x)
  | Ite c a b => fun x => if c x then run a o x else run b o x
  end.

Fixpoint seq {X} (ts : list (vt X)) : vt X :=
  match ts with
  | [] => Pass
  | [t] => t
  | t :: ts' => And t (seq ts')
  end.

Definition always {X} : X -> bool := fun _ => true.

(* optional sub-record (nil pointer: nothing to check) *)
Definition Opt {X Y} (p : X -> option Y) (t : vt Y) : vt X :=
  Each (fun x => match p x with Some y => [y] | None => [] end) t.

(* The clauses of the checks that FAIL on x, each with the flags of the Skip
   nodes above it (ctx): exactly what has to be switched off to accept x. *)
Fixpoint fails {X} (t : vt X) (ctx : clause) : X -> list clause :=
  match t in vt X return X -> list clause with
  | Pass => fun _ => []
  | Chk c => fun x => if c x then [] else [ctx]
  | Skip live s t => fun x => if live x then fails t (ctx ++ [s_flag s]) x else fails t ctx x
  | And a b => fun x => fails a ctx x ++ fails b ctx x
  | Each p t => fun x => flat_map (fails t ctx) (p x)
  | On p t => fun x => fails t ctx (p x)
  | Ite c a b => fun x => if c x then fails a ctx x else fails b ctx x
  end.

(* static: the clauses of all checks of the tree, and its guard sites *)
Fixpoint clauses {X} (t : vt X) (ctx : clause) : list clause :=
  match t with
  | Pass => []
  | Chk _ => [ctx]
  | Skip _ s t => clauses t (ctx ++ [s_flag s]) ++ clauses t ctx
  | And a b => clauses a ctx ++ clauses b ctx
  | Each _ t => clauses t ctx
  | On _ t => clauses t ctx
  | Ite _ a b => clauses a ctx ++ clauses b ctx
  end.

Fixpoint sites {X} (t : vt X) : list site :=
  match t with
  | Pass => []
  | Chk _ => []
  | Skip _ s t => s :: sites t
  | And a b => sites a ++ sites b
  | Each _ t => sites t
  | On _ t => sites t
  | Ite _ a b => sites a ++ sites b
  end.

(* ---- the reader as a machine.  One input line yields a program: a decision
   tree of validator runs whose leaves give the next state and whether an error
   was recorded.  Which branch is taken depends on the verdicts; nothing else
   depends on the options. *)
Inductive prog (S : Type) : Type :=
| Done  : S -> bool -> prog S
| Check : forall X, X -> vt X -> prog S -> prog S -> prog S.
Arguments Done {S} _ _.
Arguments Check {S X} _ _ _ _.

Fixpoint exec {S} (o : opts) (p : prog S) : S * bool :=
  match p with
  | Done s ok => (s, ok)
  | Check x t kok kerr =>
      if run t o x then exec o kok
      else (fst (exec o kerr), false)
  end.

(* the all-checks-pass path of a program: final state, failing clauses met *)
Fixpoint okstate {S} (p : prog S) : S :=
  match p with
  | Done s _ => s
  | Check _ _ kok _ => okstate kok
  end.

Fixpoint pfails {S} (p : prog S) : list clause :=
  match p with
  | Done _ ok => if ok then [] else [[]]
  | Check x t kok _ => fails t [] x ++ pfails kok
  end.

Fixpoint pclauses {S} (p : prog S) : list clause :=
  match p with
  | Done _ _ => [[]]
  | Check _ t kok kerr => clauses t [] ++ pclauses kok ++ pclauses kerr
  end.

Section Machine.
  Context {S L : Type}.
  Variable prep : S -> L -> prog S.     (* parseLine *)
  Variable final : vt S.                (* checks after the last line, and File.ValidateWith *)

  (* errors are accumulated: reading continues after a rejected line *)
  Fixpoint mrun (o : opts) (s : S) (ls : list L) : S * bool :=
    match ls with
    | [] => (s, true)
    | l :: ls' =>
        let r1 := exec o (prep s l) in
        let r2 := mrun o (fst r1) ls' in
        (fst r2, snd r1 && snd r2)
    end.

  Definition accept (o : opts) (s0 : S) (ls : list L) : bool :=
    let r := mrun o s0 ls in snd r && run final o (fst r).

  Fixpoint mstate (s : S) (ls : list L) : S :=
    match ls with
    | [] => s
    | l :: ls' => mstate (okstate (prep s l)) ls'
    end.

  Fixpoint mfails_lines (s : S) (ls : list L) : list clause :=
    match ls with
    | [] => []
    | l :: ls' => pfails (prep s l) ++ mfails_lines (okstate (prep s l)) ls'
    end.

  Definition mfails (s0 : S) (ls : list L) : list clause :=
    mfails_lines s0 ls ++ fails final [] (mstate s0 ls).
End Machine.

(* ---- prediction of accept(o) from the observations accept(all_but G), G
   ranging over a family of clauses that contains every clause of the validator *)
Definition predict (family : list clause) (obs : clause -> bool) (o : opts) : bool :=
  forallb (fun G => skip o G || obs G) family.

(* finite representation used by the extracted driver: option sets and clauses as lists *)
Definition predict_l (family : list clause) (obs : list bool) (on : list flag) : bool :=
  forallb (fun p : clause * bool => skip (opts_of on) (fst p) || snd p) (combine family obs).

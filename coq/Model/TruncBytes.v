(* C04, truncation at EVERY byte offset of the written text (LF or CRLF line ends),
   for files whose record lines are 94 ASCII characters.

   firstn k (write le f) = the first i physical lines with their line ends, followed
   by a strict prefix of line i and its line end.  The framing model (Framing.frame,
   norm_line) turns this into the first i lines plus, when the prefix holds c > 0
   characters of the line, the line cut at column c and padded with blanks.  The
   record dispatch (FileStruct.read_struct) of that list is
     - no file          when line i lies before the file control record, or when one
                        single character of a 9-filler line arrived;
     - the file itself  when line i is a 9-filler line (or the cut is at a line end
                        after the file control);
     - the file with its control record cut at column c when line i is the file
       control record.
   For the last case: validation of the result succeeds only if every protected
   field of the cut control record parses to the original value. *)
From Coq Require Import List Lia ZArith Bool NArith.
From ACH Require Import TamperText TamperTextFacts FramingFacts FramingBytes FileStructFacts TruncFacts TamperFacts.
From ACH Require Import Utf8Enc.
Import ListNotations.
Local Open Scope nat_scope.

(* ------------------------------------------------------------------ *)
(* the text and its prefixes                                             *)

Definition text_of (le : bytes) (ls : list bytes) : bytes := concat (map (fun l => l ++ le) ls).

Lemma write_text_of le f : write le f = text_of le (physical_lines f).
Proof. reflexivity. Qed.

Lemma text_of_app le a b : text_of le (a ++ b) = text_of le a ++ text_of le b.
Proof. unfold text_of. now rewrite map_app, concat_app. Qed.

(* a prefix of the text: whole lines, then a strict prefix of the next line with its line end *)
Lemma firstn_text le ls : forall k, k < length (text_of le ls) ->
  exists i p q, i < length ls /\ firstn k (text_of le ls) = text_of le (firstn i ls) ++ p /\
                nth i ls [] ++ le = p ++ q /\ q <> [].
Proof.
  induction ls as [|l ls IH]; intros k Hk; [cbn in Hk; lia|].
  change (text_of le (l :: ls)) with ((l ++ le) ++ text_of le ls) in *.
  destruct (Nat.lt_ge_cases k (length (l ++ le))) as [Hlt|Hge].
  - exists 0, (firstn k (l ++ le)), (skipn k (l ++ le)). cbn [length firstn nth]. split; [lia|].
    split; [|split].
    + rewrite firstn_app. replace (k - length (l ++ le)) with 0 by lia. cbn [firstn]. now rewrite app_nil_r.
    + now rewrite firstn_skipn.
    + intros E. apply (f_equal (@length N)) in E. rewrite skipn_length in E. cbn in E. lia.
  - rewrite app_length in Hk. destruct (IH (k - length (l ++ le)) ltac:(lia)) as (i & p & q & Hi & E & Hpq & Hq).
    exists (S i), p, q. cbn [length firstn nth]. split; [lia|]. split; [|split; assumption].
    rewrite firstn_app, firstn_all2 by lia. rewrite E.
    change (text_of le (l :: firstn i ls)) with ((l ++ le) ++ text_of le (firstn i ls)). now rewrite app_assoc.
Qed.

(* ------------------------------------------------------------------ *)
(* framing of ASCII lines                                                *)

Definition single (b : N) : char := [b].
Definition S1 (s : bytes) : list char := map single s.

Lemma chars_ascii s : asciib s = true -> chars s = S1 s.
Proof.
  intros H. unfold chars, S1. rewrite (chunks_ascii s H), map_map. apply map_ext_in. intros b Hb. cbn [fst snd].
  unfold asciib in H. rewrite forallb_forall in H. specialize (H b Hb). apply N.ltb_lt in H.
  destruct (N.eqb_spec b rune_error) as [E|E]; [unfold rune_error in E; lia|reflexivity].
Qed.

Lemma concat_S1 s : concat (S1 s) = s.
Proof. induction s as [|b s IH]; [reflexivity|]. cbn [S1 map concat single app]. f_equal. exact IH. Qed.

Lemma S1_app a b : S1 (a ++ b) = S1 a ++ S1 b.
Proof. apply map_app. Qed.

Lemma S1_length s : length (S1 s) = length s.
Proof. apply map_length. Qed.

Lemma S1_not_nl s : no_nl_bytes s = true -> Forall not_nl (S1 s).
Proof.
  intros H. apply Forall_forall. intros c Hc. apply in_map_iff in Hc as (b & <- & Hb).
  unfold no_nl_bytes in H. rewrite forallb_forall in H. specialize (H b Hb).
  apply andb_prop in H as [H10 H13]. unfold not_nl, is_nl, single, LF, CR. cbn [bytes_eqb].
  destruct (b =? 10)%N; [discriminate|]. destruct (b =? 13)%N; [discriminate|]. reflexivity.
Qed.

(* a record line as the writer produces it when all its characters are ASCII *)
Definition good_line (l : bytes) : Prop :=
  length l = 94 /\ asciib l = true /\ no_nl_bytes l = true /\ blank_line l = false.

Definition le_ok (le : bytes) : Prop := le = LF_b \/ le = CRLF_b.

Lemma good_full l : good_line l -> full (S1 l).
Proof. intros (Hl & _ & Hn & _). split; [now rewrite S1_length|now apply S1_not_nl]. Qed.

Lemma frame_skip_le le rest n : le_ok le -> frame (S1 le ++ rest) [] 0 n = frame rest [] 0 n.
Proof. intros [->| ->]; reflexivity. Qed.

Lemma frame_good_line l le rest n : good_line l -> le_ok le ->
  frame (S1 (l ++ le) ++ rest) [] 0 n = (S n, l) :: frame rest [] 0 (S n).
Proof.
  intros Hg Hle. rewrite S1_app, <- app_assoc. rewrite (frame_full _ _ _ (good_full l Hg)).
  rewrite concat_S1. destruct Hg as (_ & _ & _ & Hb). unfold emit. rewrite Hb.
  now rewrite (frame_skip_le le rest (S n) Hle).
Qed.

Lemma frame_good_lines le ls : le_ok le -> Forall good_line ls -> forall rest n,
  exists n', map snd (frame (S1 (text_of le ls) ++ rest) [] 0 n) = ls ++ map snd (frame rest [] 0 n').
Proof.
  intros Hle. induction 1 as [|l ls Hl _ IH]; intros rest n; [now exists n|].
  change (text_of le (l :: ls)) with ((l ++ le) ++ text_of le ls). rewrite S1_app, <- app_assoc.
  rewrite (frame_good_line l le _ n Hl Hle). cbn [map snd app].
  destruct (IH rest (S n)) as [n' E]. exists n'. now rewrite E.
Qed.

(* the lines of the tail: nothing, or line l cut at column c (c = 94: the whole line) *)
Definition tail_of (l : bytes) (c : nat) : list bytes := if c =? 0 then [] else [cut_line l c].

Lemma cut_line_all l : length l = 94 -> cut_line l 94 = l.
Proof. intros H. unfold cut_line. rewrite <- H at 1. rewrite firstn_all. cbn. apply app_nil_r. Qed.

Lemma asciib_firstn n s : asciib s = true -> asciib (firstn n s) = true.
Proof. apply RuneFacts.forallb_firstn. Qed.

Lemma no_nl_firstn n s : no_nl_bytes s = true -> no_nl_bytes (firstn n s) = true.
Proof. apply RuneFacts.forallb_firstn. Qed.

Lemma frame_tail_short p n : no_nl_bytes p = true -> 0 < length p < 94 -> frame (S1 p) [] 0 n = [(n, p)].
Proof.
  intros Hn Hl. rewrite <- (app_nil_r (S1 p)).
  rewrite frame_accumulate by (try apply S1_not_nl; try rewrite S1_length; auto; lia).
  cbn [frame app]. rewrite S1_length, concat_S1. destruct (Nat.ltb_spec 0 (0 + length p)); [reflexivity|lia].
Qed.

(* strict prefixes of the line ends *)
Lemma le_prefix le x y : le_ok le -> le = x ++ y -> y <> [] -> x = [] \/ x = [13%N].
Proof.
  intros [->| ->] E Hy.
  - destruct x as [|a [|b x]]; [now left| |]; cbn in E.
    + injection E as _ E. symmetry in E. contradiction.
    + discriminate.
  - destruct x as [|a [|b [|c x]]]; [now left| | |]; cbn in E.
    + injection E as <- _. now right.
    + injection E as _ _ E. symmetry in E. contradiction.
    + discriminate.
Qed.

Lemma frame_tail_cr n : frame (S1 [13%N]) [] 0 n = [].
Proof. reflexivity. Qed.

(* the lines the reader sees for  text_of le ls ++ p  when p is a strict prefix of l ++ le *)
Lemma frame_prefix le ls l p q n : le_ok le -> Forall good_line ls -> good_line l ->
  l ++ le = p ++ q -> q <> [] ->
  exists c, c <= 94 /\ (c = 0 <-> p = []) /\
    map (fun x => norm_line (snd x)) (frame (S1 (text_of le ls ++ p)) [] 0 n) = map NLine (ls ++ tail_of l c).
Proof.
  intros Hle Hls Hl E Hq. destruct Hl as (Hlen & Hasc & Hnl & Hnb).
  assert (Hnorm : forall x, good_line x -> norm_line x = NLine x).
  { intros x (Hx & Hax & _). unfold norm_line. cbv zeta. rewrite (rune_count_ascii x Hax), Hx. reflexivity. }
  assert (Hmap : forall xs, Forall good_line xs -> map norm_line xs = map NLine xs).
  { induction 1 as [|x xs Hx _ IH]; [reflexivity|]. cbn [map]. now rewrite (Hnorm x Hx), IH. }
  destruct (frame_good_lines le ls Hle Hls (S1 p) n) as [n' Efr].
  assert (Hred : forall tl, map norm_line (map snd (frame (S1 p) [] 0 n')) = map NLine tl ->
            map (fun x => norm_line (snd x)) (frame (S1 (text_of le ls ++ p)) [] 0 n) = map NLine (ls ++ tl)).
  { intros tl Ht. rewrite S1_app, <- (map_map snd norm_line), Efr, !map_app, (Hmap ls Hls), Ht. reflexivity. }
  assert (Hp : p = firstn (length p) (l ++ le)) by (rewrite E, firstn_app, Nat.sub_diag, firstn_all; cbn; now rewrite app_nil_r).
  destruct (Nat.lt_ge_cases (length p) 94) as [Hlt|Hge].
  - (* inside the line *)
    assert (Hp' : p = firstn (length p) l).
    { rewrite Hp at 1. rewrite firstn_app. replace (length p - length l) with 0 by lia. cbn [firstn]. now rewrite app_nil_r. }
    exists (length p). split; [lia|]. split; [destruct p; cbn; split; intros; try discriminate; try lia; reflexivity|].
    apply Hred. unfold tail_of. destruct (Nat.eqb_spec (length p) 0) as [E0|E0].
    + destruct p; [reflexivity|discriminate].
    + rewrite frame_tail_short by (try (rewrite Hp'; now apply no_nl_firstn); lia).
      cbn [map snd]. f_equal. unfold norm_line. cbv zeta.
      assert (Ha : asciib p = true) by (rewrite Hp'; now apply asciib_firstn).
      rewrite (rune_count_ascii p Ha).
      destruct (Nat.eqb_spec (length p) 94); [lia|]. destruct (Nat.ltb_spec 94 (length p)); [lia|].
      unfold cut_line. now rewrite <- Hp'.
  - (* the whole line, and possibly the CR of a CRLF *)
    assert (Hsplit : p = l ++ firstn (length p - 94) le).
    { rewrite Hp at 1. rewrite firstn_app, firstn_all2 by lia. now rewrite Hlen. }
    set (x := firstn (length p - 94) le) in *.
    assert (Hx : le = x ++ q).
    { rewrite Hsplit, <- app_assoc in E. now apply app_inv_head in E. }
    exists 94. split; [lia|]. split; [split; [lia|intros ->; cbn in Hge; lia]|].
    apply Hred. unfold tail_of. cbn [Nat.eqb]. rewrite (cut_line_all l Hlen).
    rewrite Hsplit, S1_app, <- (app_nil_r (S1 x)).
    destruct (le_prefix le x q Hle Hx Hq) as [->| ->].
    + cbn [S1 map app]. rewrite app_nil_r. rewrite <- (app_nil_r (S1 l)).
      rewrite (frame_full _ _ _ (good_full l (conj Hlen (conj Hasc (conj Hnl Hnb))))).
      rewrite concat_S1. unfold emit. rewrite Hnb. cbn [frame map snd]. now rewrite (Hnorm l (conj Hlen (conj Hasc (conj Hnl Hnb)))).
    + rewrite (frame_full _ _ _ (good_full l (conj Hlen (conj Hasc (conj Hnl Hnb))))).
      rewrite concat_S1. unfold emit. rewrite Hnb. rewrite app_nil_r, frame_tail_cr. cbn [map snd].
      now rewrite (Hnorm l (conj Hlen (conj Hasc (conj Hnl Hnb)))).
Qed.

Lemma all_lines_NLine ls : all_lines (map NLine ls) = Some ls.
Proof. induction ls as [|l ls IH]; [reflexivity|]. cbn [map all_lines]. now rewrite IH. Qed.

Lemma asciib_app a b : asciib (a ++ b) = asciib a && asciib b.
Proof. apply forallb_app. Qed.

Lemma asciib_text_of le ls : le_ok le -> Forall good_line ls -> asciib (text_of le ls) = true.
Proof.
  intros Hle. induction 1 as [|l ls (_ & Ha & _) _ IH]; [reflexivity|].
  change (text_of le (l :: ls)) with ((l ++ le) ++ text_of le ls). rewrite !asciib_app, Ha, IH.
  now destruct Hle as [->| ->].
Qed.

(* reading a truncated text = dispatching the whole lines before the cut and the cut line *)
Theorem read_text_prefix le ls k : le_ok le -> Forall good_line ls -> k < length (text_of le ls) ->
  exists i c, i < length ls /\ c <= 94 /\
    read_text (firstn k (text_of le ls)) = read_struct (firstn i ls ++ tail_of (nth i ls []) c).
Proof.
  intros Hle Hls Hk. destruct (firstn_text le ls k Hk) as (i & p & q & Hi & E & Hpq & Hq).
  assert (Hli : good_line (nth i ls [])) by (rewrite Forall_forall in Hls; apply Hls, nth_In, Hi).
  assert (Hfi : Forall good_line (firstn i ls)) by now apply Forall_firstn.
  destruct (frame_prefix le (firstn i ls) _ p q 0 Hle Hfi Hli Hpq Hq) as (c & Hc & _ & Efr).
  exists i, c. split; [exact Hi|]. split; [exact Hc|].
  unfold read_text, read_lines. rewrite E.
  assert (Ha : asciib (text_of le (firstn i ls) ++ p) = true).
  { rewrite asciib_app, (asciib_text_of le _ Hle Hfi). cbn [andb].
    assert (Hall : asciib (p ++ q) = true).
    { rewrite <- Hpq, asciib_app. destruct Hli as (_ & -> & _). now destruct Hle as [->| ->]. }
    rewrite asciib_app in Hall. now apply andb_prop in Hall as [Hall _]. }
  rewrite (chars_ascii _ Ha). fold (S1 (text_of le (firstn i ls) ++ p)).
  now rewrite Efr, all_lines_NLine.
Qed.

(* ------------------------------------------------------------------ *)
(* record dispatch of the truncated line list                            *)

Definition init_state : rstate := mkR None [] None None.

Lemma nth_repeat_lt {A} (x d : A) k : forall n, n < k -> nth n (repeat x k) d = x.
Proof. induction k as [|k IH]; intros [|n] H; cbn; try lia; [reflexivity|apply IH; lia]. Qed.

Lemma fold_record_lines f : file_typed f = true -> starts99 (f_ctl f) = false ->
  fold_left rstep (record_lines f) (Some init_state)
  = Some (mkR (Some (f_hdr f)) (rev (f_batches f)) None (Some (f_ctl f))).
Proof.
  intros H Hc. unfold file_typed in H. apply andb_prop in H as [H H9]. apply andb_prop in H as [H1 Hbs].
  apply N.eqb_eq in H1, H9. unfold record_lines, init_state.
  cbn [fold_left app]. unfold rstep at 2. rewrite H1. cbn.
  rewrite fold_rstep_app, (r_batches _ _ _ _ Hbs). cbn [fold_left]. unfold rstep. rewrite H9. cbn. rewrite Hc.
  now rewrite app_nil_r.
Qed.

Lemma rstep_skip s x : rtype x = T9 -> starts99 x = true -> rstep (Some s) x = Some s.
Proof. intros Ht Hs. unfold rstep. rewrite Ht. cbn. now rewrite Hs. Qed.

Lemma rstep_second_ctl s x c : rtype x = T9 -> starts99 x = false -> r_ctl s = Some c -> rstep (Some s) x = None.
Proof. intros Ht Hs Hc. unfold rstep. rewrite Ht. cbn. now rewrite Hs, Hc. Qed.

Lemma nines_skip : rtype nines = T9 /\ starts99 nines = true.
Proof. split; reflexivity. Qed.

Lemma cut_nines c : 2 <= c <= 94 -> rtype (cut_line nines c) = T9 /\ starts99 (cut_line nines c) = true.
Proof.
  intros H. destruct c as [|[|c]]; try lia. split; reflexivity.
Qed.

Lemma cut_nines_1 : rtype (cut_line nines 1) = T9 /\ starts99 (cut_line nines 1) = false.
Proof. split; reflexivity. Qed.

Lemma rtype_cut l c : 1 <= c -> length l = 94 -> rtype (cut_line l c) = rtype l.
Proof.
  intros H Hl. destruct c as [|c]; [lia|]. destruct l as [|b l]; [discriminate|reflexivity].
Qed.

Lemma starts99_cut l c : 2 <= c -> starts99 (cut_line l c) = starts99 l \/ length l < 2.
Proof.
  intros H. destruct c as [|[|c]]; try lia. destruct l as [|a [|b l]]; cbn [length]; [right; lia|right; lia|left; reflexivity].
Qed.

Lemma starts99_cut_1 l : rtype l = T9 -> starts99 (cut_line l 1) = false.
Proof.
  intros H. destruct l as [|a l]; [discriminate|]. unfold cut_line. cbn [firstn app]. cbn [Nat.sub].
  cbn [repeat starts99]. unfold rtype in H. cbn [hd] in H. subst a. reflexivity.
Qed.

Section Dispatch.
Variable f : fileS.
Hypothesis Htyped : file_typed f = true.
Hypothesis H99 : starts99 (f_ctl f) = false.
Hypothesis Hgood : Forall good_line (record_lines f).

Let body := f_hdr f :: flat_map batch_lines (f_batches f).
Let m := length body.

Lemma record_lines_body : record_lines f = body ++ [f_ctl f].
Proof. reflexivity. Qed.

Lemma length_record_lines : length (record_lines f) = S m.
Proof. rewrite record_lines_body, app_length. cbn. unfold m. lia. Qed.

Lemma ctl_T9 : rtype (f_ctl f) = T9.
Proof.
  unfold file_typed in Htyped. apply andb_prop in Htyped as [_ H]. now apply N.eqb_eq in H.
Qed.

Lemma good_ctl : good_line (f_ctl f).
Proof. rewrite Forall_forall in Hgood. apply Hgood. rewrite record_lines_body. apply in_or_app. right. now left. Qed.

Theorem dispatch_truncated i c : i < length (physical_lines f) -> c <= 94 ->
  let r := read_struct (firstn i (physical_lines f) ++ tail_of (nth i (physical_lines f) []) c) in
  r = None \/ r = Some f \/
  (i = m /\ 1 <= c < 94 /\ r = Some (with_ctl f (cut_line (f_ctl f) c))).
Proof.
  intros Hi Hc r. unfold tail_of in r.
  destruct (Nat.eqb_spec c 0) as [E0|E0].
  - (* the cut is at a line boundary *)
    subst r. rewrite app_nil_r.
    destruct (Nat.le_gt_cases (length (record_lines f)) i) as [Hge|Hlt].
    + right. left. now apply truncated_filler_same.
    + left. unfold physical_lines. rewrite firstn_app. replace (i - length (record_lines f)) with 0 by lia.
      cbn [firstn]. rewrite app_nil_r. now apply truncated_lines_rejected.
  - destruct (Nat.lt_trichotomy i m) as [Hlt|[Heq|Hgt]].
    + (* inside a record before the file control: no control record at all *)
      left. subst r. apply no_ctl_no_file.
      assert (Hb : Forall (fun l => rtype l <> T9) body) by now apply body_not_ctl.
      assert (Hnth : nth i (physical_lines f) [] = nth i body []).
      { unfold physical_lines. rewrite record_lines_body, <- app_assoc, app_nth1 by (fold m; lia). reflexivity. }
      assert (Hfirst : firstn i (physical_lines f) = firstn i body).
      { unfold physical_lines. rewrite record_lines_body, <- app_assoc, firstn_app. fold m.
        replace (i - m) with 0 by lia. cbn [firstn]. now rewrite app_nil_r. }
      rewrite Hnth, Hfirst. apply Forall_app. split; [now apply Forall_firstn|].
      assert (Hin : In (nth i body []) body) by (apply nth_In; fold m; lia).
      assert (Hgl : good_line (nth i body [])).
      { rewrite Forall_forall in Hgood. apply Hgood. rewrite record_lines_body. apply in_or_app. now left. }
      constructor; [|constructor]. rewrite rtype_cut by (try lia; apply Hgl).
      rewrite Forall_forall in Hb. now apply Hb.
    + (* inside the file control record *)
      assert (Hnth : nth i (physical_lines f) [] = f_ctl f).
      { unfold physical_lines. rewrite record_lines_body, <- app_assoc, app_nth2 by (fold m; lia). fold m.
        rewrite Heq, Nat.sub_diag. reflexivity. }
      assert (Hfirst : firstn i (physical_lines f) = body).
      { unfold physical_lines. rewrite record_lines_body, <- app_assoc, firstn_app. fold m.
        rewrite Heq, Nat.sub_diag. cbn [firstn]. rewrite app_nil_r. unfold m. apply firstn_all. }
      set (ctl' := cut_line (f_ctl f) c).
      assert (Hr : r = read_struct (record_lines (with_ctl f ctl') ++ repeat nines 0)).
      { subst r. rewrite Hnth, Hfirst. cbn [repeat]. now rewrite app_nil_r. }
      assert (Ht' : file_typed (with_ctl f ctl') = true).
      { unfold file_typed in *. cbn [with_ctl f_hdr f_batches f_ctl]. apply andb_prop in Htyped as [H12 H9].
        rewrite H12. cbn [andb]. unfold ctl'. rewrite rtype_cut by (try lia; apply good_ctl). exact H9. }
      assert (H99' : starts99 (f_ctl (with_ctl f ctl')) = false).
      { cbn [with_ctl f_ctl]. unfold ctl'. destruct (Nat.eq_dec c 1) as [->|Hc1].
        - apply starts99_cut_1, ctl_T9.
        - destruct (starts99_cut (f_ctl f) c ltac:(lia)) as [->|Hshort]; [exact H99|].
          destruct good_ctl as (Hl & _). lia. }
      rewrite (read_struct_written _ 0 Ht' H99') in Hr.
      destruct (Nat.eq_dec c 94) as [->|Hc94].
      * right. left. rewrite Hr. unfold ctl'. destruct good_ctl as (Hl & _). rewrite (cut_line_all _ Hl).
        unfold with_ctl. now destruct f.
      * right. right. split; [exact Heq|]. split; [lia|exact Hr].
    + (* inside a 9-filler line *)
      assert (Hlen : length (physical_lines f) = S m + pad_count (S m)).
      { unfold physical_lines. now rewrite app_length, repeat_length, length_record_lines. }
      assert (Hnth : nth i (physical_lines f) [] = nines).
      { unfold physical_lines. rewrite app_nth2 by (rewrite length_record_lines; lia).
        apply nth_repeat_lt. rewrite length_record_lines. lia. }
      assert (Hfirst : firstn i (physical_lines f) = record_lines f ++ repeat nines (i - S m)).
      { unfold physical_lines. rewrite firstn_app, firstn_all2 by (rewrite length_record_lines; lia).
        rewrite length_record_lines, firstn_repeat. f_equal. f_equal. rewrite Hlen in Hi. lia. }
      subst r. rewrite Hnth, Hfirst. unfold read_struct. fold init_state.
      rewrite !fold_rstep_app, (fold_record_lines f Htyped H99), r_fillers. cbn [fold_left].
      destruct (Nat.eq_dec c 1) as [->|Hc1].
      * left. destruct cut_nines_1 as [A B]. now rewrite (rstep_second_ctl (mkR (Some (f_hdr f)) (rev (f_batches f)) None (Some (f_ctl f))) _ (f_ctl f) A B eq_refl).
      * right. left. destruct (cut_nines c ltac:(lia)) as [A B]. rewrite (rstep_skip _ _ A B).
        rewrite rev_involutive. now destruct f.
Qed.

End Dispatch.

(* ------------------------------------------------------------------ *)
(* every byte offset                                                     *)

Definition ascii_records (f : fileS) : Prop := Forall good_line (record_lines f).

Lemma nines_good : good_line nines.
Proof. repeat split; vm_compute; reflexivity. Qed.

Lemma physical_good f : ascii_records f -> Forall good_line (physical_lines f).
Proof.
  intros H. unfold physical_lines. apply Forall_app. split; [exact H|].
  apply Forall_forall. intros x Hx. apply repeat_spec in Hx. subst x. exact nines_good.
Qed.

Theorem truncation_bytes f le k :
  le_ok le -> file_typed f = true -> starts99 (f_ctl f) = false -> ascii_records f ->
  k < length (write le f) ->
  let r := read_text (firstn k (write le f)) in
  r = None \/ r = Some f \/
  exists c, 1 <= c < 94 /\ r = Some (with_ctl f (cut_line (f_ctl f) c)).
Proof.
  intros Hle Ht H99 Hg Hk r. subst r. rewrite write_text_of in *.
  destruct (read_text_prefix le (physical_lines f) k Hle (physical_good f Hg) Hk) as (i & c & Hi & Hc & E).
  rewrite E.
  destruct (dispatch_truncated f Ht H99 Hg i c Hi Hc) as [H|[H|(_ & Hc' & H)]]; [now left|now right; left|].
  right. right. now exists c.
Qed.

(* ------------------------------------------------------------------ *)
(* the file with a cut control record                                    *)

(* cutting inside the trailing blanks changes nothing *)
Lemma cut_line_blank_tail l c : length l = 94 -> c <= 94 -> skipn c l = repeat sp (94 - c) -> cut_line l c = l.
Proof. intros Hl Hc E. unfold cut_line. rewrite <- E. apply firstn_skipn. Qed.

Lemma rule_eq_dec (a b : rule) : {a = b} + {a <> b}.
Proof. decide equality. Qed.

Section Verdict.
Variable T : tables.
Hypothesis HT : tables_ok T = true.

(* any change of the protected file control fields is rejected (all five at once) *)
Theorem tamper_fctl_any g c' : validate_file T g = ROk -> validate_file T (set_fctl g c') = ROk -> c' = fl_ctl g.
Proof.
  intros H H'. destruct (is_adv_file g) eqn:Ea.
  - destruct (file_arith_adv T HT g H Ea) as (A1 & A2 & A3 & A4 & A5).
    assert (Ea' : is_adv_file (set_fctl g c') = true) by exact Ea.
    destruct (file_arith_adv T HT _ H' Ea') as (B1 & B2 & B3 & B4 & B5).
    cbn [set_fctl fl_ctl fl_batches fl_iat] in *. destruct c' as [a1 a2 a3 a4 a5], (fl_ctl g) as [b1 b2 b3 b4 b5].
    cbn [fc_batches fc_count fc_hash fc_debit fc_credit] in *. congruence.
  - destruct (file_arith T HT g H Ea) as (A1 & (A2 & A3 & A4 & A5) & _).
    assert (Ea' : is_adv_file (set_fctl g c') = false) by exact Ea.
    destruct (file_arith T HT _ H' Ea') as (B1 & (B2 & B3 & B4 & B5) & _).
    unfold all_batches in *. cbn [set_fctl fl_ctl fl_batches fl_iat] in *. destruct c' as [a1 a2 a3 a4 a5], (fl_ctl g) as [b1 b2 b3 b4 b5].
    cbn [fc_batches fc_count fc_hash fc_debit fc_credit] in *. congruence.
Qed.

Lemma skel_with_ctl f ctl' : skel (with_ctl f ctl') = set_fctl (skel f) (skel_fctl (adv_file f) ctl').
Proof. reflexivity. Qed.

(* a file whose control record was replaced is accepted only if every protected field
   of the new control record parses to the original value *)
Theorem replaced_ctl_verdict f ctl' :
  read_validate T (skel f) = ROk -> read_validate T (skel (with_ctl f ctl')) = ROk ->
  skel_fctl (adv_file f) ctl' = skel_fctl (adv_file f) (f_ctl f).
Proof.
  intros H H'. apply read_validate_all in H as [_ H]. apply read_validate_all in H' as [_ H'].
  rewrite skel_with_ctl in H'. exact (tamper_fctl_any _ _ H H').
Qed.

(* truncation at every byte offset, with the verdict: no file, or the file itself, or a
   file that differs only in its control record and is then either rejected or carries
   the original values in all protected control fields *)
Theorem truncation_bytes_verdict f le k :
  le_ok le -> file_typed f = true -> starts99 (f_ctl f) = false -> ascii_records f ->
  read_validate T (skel f) = ROk -> k < length (write le f) ->
  let r := read_text (firstn k (write le f)) in
  r = None \/ r = Some f \/
  exists c, 1 <= c < 94 /\ r = Some (with_ctl f (cut_line (f_ctl f) c)) /\
    (read_validate T (skel (with_ctl f (cut_line (f_ctl f) c))) <> ROk \/
     skel (with_ctl f (cut_line (f_ctl f) c)) = skel f).
Proof.
  intros Hle Ht H99 Hg Hv Hk r.
  destruct (truncation_bytes f le k Hle Ht H99 Hg Hk) as [H|[H|(c & Hc & H)]]; [now left|now right; left|].
  right. right. exists c. split; [exact Hc|]. split; [exact H|].
  destruct (rule_eq_dec (read_validate T (skel (with_ctl f (cut_line (f_ctl f) c)))) ROk) as [E|E]; [|now left].
  right. rewrite skel_with_ctl. rewrite (replaced_ctl_verdict f _ Hv E).
  unfold skel, set_fctl. reflexivity.
Qed.

End Verdict.

(* ------------------------------------------------------------------ *)
(* cuts inside a blank tail                                              *)

Lemma skipn_add {A} (l : list A) : forall a b, skipn (a + b) l = skipn b (skipn a l).
Proof.
  induction l as [|x l IH]; intros a b; [now rewrite !skipn_nil|].
  destruct a as [|a]; [reflexivity|]. cbn [Nat.add skipn]. apply IH.
Qed.

Lemma skipn_repeat {A} (x : A) n : forall k, skipn k (repeat x n) = repeat x (n - k).
Proof.
  induction n as [|n IH]; intros k; [now rewrite skipn_nil|].
  destruct k as [|k]; [reflexivity|]. cbn [repeat skipn Nat.sub]. apply IH.
Qed.

(* a line whose columns from s on are blank is not changed by a cut at or after column s *)
Theorem cut_in_blank_tail l s c : length l = 94 -> s <= c <= 94 -> skipn s l = repeat sp (94 - s) -> cut_line l c = l.
Proof.
  intros Hl Hc E. apply cut_line_blank_tail; [assumption|lia|].
  replace c with (s + (c - s)) at 1 by lia. rewrite skipn_add, E, skipn_repeat. f_equal. lia.
Qed.

Lemma skipn_app_len {A} (a b : list A) k n : length a = k -> skipn (k + n) (a ++ b) = skipn n b.
Proof.
  intros <-. rewrite skipn_app, skipn_all2 by lia. replace (length a + n - length a) with n by lia. reflexivity.
Qed.
